import AscentVerif.Model.EnginePhysTimeout
import AscentVerif.Props.C01PhysPlan
import AscentVerif.Props.C13
import AscentVerif.Proofs.PhysTimeout
/-!
# C13 / C14 at the level of the physical indices: re-runs, pushes and `run_timeout`

Histories over the physical-index engine (`Model/EnginePhys.lean`, `Model/EnginePhysTimeout.lean`), for desugared,
well-scoped, arity-correct relational programs with the compiler's own index sets (`ixSetsOf`), from any typed program
value (whatever its stored indices hold: `update_indices` rebuilds them):

* `rerun_idempotent_phys` — a second `run()` on an unmodified value appends nothing;
* `monotone_rerun_phys` — run; push rows into any relations; run: exactly the least model of the union of all inputs;
* `timeout_sound_phys` — whatever the deadline oracle, after `run_timeout` (returned `true` or `false`) every row is derivable
  from the start value's rows, the old rows are a prefix of the new ones, and the value is again a typed program value;
* `timeout_true_complete_phys` — if `run_timeout` returns `true` the relations hold exactly the least model;
* `resume_complete_phys` — after ANY number of interrupted calls (any deadline oracles, any fuels), a completing `run()`
  ends with exactly the least model of the ORIGINAL rows: the indices dropped by the early returns are rebuilt.
-/
namespace AscentVerif.Phys
open AscentVerif AscentVerif.Engine AscentVerif.Index

variable {E B G P A : Type}

/-- the facts a program value holds in its declared relations -/
def stDB (p : Program E B G P A) (s : PSt) : DB := fun g => g.rel < p.rels.length ∧ factsOf s g

/-- the standing hypotheses on interpretation and program -/
structure Ctx (I : Interp E B G P A) (V : Hir.VarsOf E B) (p : Program E B G P A) (order : SccOrder) : Prop where
  ext : Plan.Ext I
  supp : Plan.Supp I V
  rel : Relational p
  order : validOrder p order = true
  arity : arityOk p = true
  rules : ∀ r ∈ p.rules, Hir.Desugared V r = true ∧ Plan.WellScoped V r = true


/-! ## helpers -/

theorem facts_lt {p : Program E B G P A} {s : PSt} (hs : WFPSt p s) {f : Fact} (hf : factsOf s f) :
    f.rel < p.rels.length := by
  rcases Nat.lt_or_ge f.rel p.rels.length with h | h
  · exact h
  · exfalso
    have hf' : f.args ∈ (prel s f.rel).rows := hf
    rw [prel_of_ge _ _ (by rw [hs.1]; exact h)] at hf'
    cases hf'

theorem prel_pushRows (s : PSt) (extra : RelId → List Tuple) (r : RelId) (hr : r < s.length) :
    prel (pushRows s extra) r = { prel s r with rows := (prel s r).rows ++ extra r } := by
  simp only [pushRows, prel_rangeMap _ _ _ hr]

theorem wfPSt_pushRows (p : Program E B G P A) (s : PSt) (extra : RelId → List Tuple) (hs : WFPSt p s)
    (hex : ∀ r, ∀ t ∈ extra r, t.length = arityOf p r) : WFPSt p (pushRows s extra) := by
  refine ⟨by simp [pushRows, hs.1], ?_⟩
  intro r t ht
  by_cases hr : r < s.length
  · rw [prel_pushRows _ _ _ hr] at ht
    rcases List.mem_append.mp ht with h | h
    · exact hs.2 r t h
    · exact hex r t h
  · have hr' : s.length ≤ r := Nat.le_of_not_lt hr
    simp only [pushRows, prel_rangeMap_ge _ _ _ hr'] at ht
    cases ht

/-- the value an interrupted or completed `run_timeout` leaves, in the form of `timeout_sound_phys` -/
theorem sound_of_SoundSt (I : Interp E B G P A) (p : Program E B G P A) (s st' : PSt)
    (h : SoundSt I p (fun r => (prel s r).rows) st') :
    WFPSt p st' ∧
    (∀ f, factsOf st' f → Derivable I p.rules noAgg (stDB p s) f) ∧
    (∀ r, r < p.rels.length → ∃ derived, (prel st' r).rows = (prel s r).rows ++ derived) := by
  obtain ⟨hlen, htyped, hgood⟩ := h
  have hw : WFPSt p st' := ⟨hlen, htyped⟩
  refine ⟨hw, ?_, ?_⟩
  · intro f hf
    have := (hgood f.rel (facts_lt hw hf)).1 f.args hf
    cases f
    exact this
  · intro r hr
    obtain ⟨_, derived, hd, _, _⟩ := hgood r hr
    exact ⟨derived, hd⟩

/-- **run() is idempotent** on the physical engine: the row vectors are literally unchanged -/
theorem rerun_idempotent_phys (I : Interp E B G P A) (V : Hir.VarsOf E B) (p : Program E B G P A) (order : SccOrder)
    (c : Ctx I V p order) (s : PSt) (fuel₁ fuel₂ : Nat) (o₁ o₂ : ProgSt) (hs : WFPSt p s)
    (h₁ : run I V p (ixSetsOf V p) order fuel₁ s = some o₁)
    (h₂ : run I V p (ixSetsOf V p) order fuel₂ o₁.st = some o₂) :
    (∀ r, r < p.rels.length → (prel o₂.st r).rows = (prel o₁.st r).rows) ∧ (∀ f, factsOf o₂.st f ↔ factsOf o₁.st f) := by
  obtain ⟨hw₁, hm₁, hr₁⟩ := runPhys_compiled_eq_leastModel I c.ext V c.supp p order s fuel₁ o₁ c.rel c.order c.arity c.rules hs h₁
  obtain ⟨hw₂, hm₂, hr₂⟩ := runPhys_compiled_eq_leastModel I c.ext V c.supp p order o₁.st fuel₂ o₂ c.rel c.order c.arity c.rules hw₁ h₂
  have hback : ∀ f, factsOf o₂.st f → factsOf o₁.st f := by
    intro f hf
    have h := (hm₂ f).mp hf
    have h' := (derivable_between (I := I) (rules := p.rules) (agg := noAgg)
      (inp := fun f => f.rel < p.rels.length ∧ factsOf s f) (D := fun f => f.rel < p.rels.length ∧ factsOf o₁.st f)
      (fun g hg => ⟨hg.1, (hm₁ g).mpr (derivable_input hg)⟩) (fun g hg => (hm₁ g).mp hg.2) f).mp h
    exact (hm₁ f).mpr h'
  have hrows : ∀ r, r < p.rels.length → (prel o₂.st r).rows = (prel o₁.st r).rows := by
    intro r hr
    obtain ⟨derived, hd, _, hnot⟩ := hr₂ r hr
    cases derived with
    | nil => simpa using hd
    | cons t ts =>
      exfalso
      have hin : factsOf o₂.st ⟨r, t⟩ := by show t ∈ (prel o₂.st r).rows; rw [hd]; simp
      exact hnot t (by simp) (hback ⟨r, t⟩ hin)
  refine ⟨hrows, fun f => ⟨hback f, fun hf => ?_⟩⟩
  have hr := facts_lt hw₁ hf
  show f.args ∈ (prel o₂.st f.rel).rows
  rw [hrows f.rel hr]; exact hf

/-- **monotone re-run = fresh run on the union** -/
theorem monotone_rerun_phys (I : Interp E B G P A) (V : Hir.VarsOf E B) (p : Program E B G P A) (order : SccOrder)
    (c : Ctx I V p order) (s : PSt) (extra : RelId → List Tuple) (fuel₁ fuel₂ : Nat) (o₁ o₂ : ProgSt) (hs : WFPSt p s)
    (hex : ∀ r, ∀ t ∈ extra r, t.length = arityOf p r)
    (h₁ : run I V p (ixSetsOf V p) order fuel₁ s = some o₁)
    (h₂ : run I V p (ixSetsOf V p) order fuel₂ (pushRows o₁.st extra) = some o₂) :
    ∀ f, factsOf o₂.st f ↔
      Derivable I p.rules noAgg (fun g => stDB p s g ∨ (g.rel < p.rels.length ∧ g.args ∈ extra g.rel)) f := by
  obtain ⟨hw₁, hm₁, _⟩ := runPhys_compiled_eq_leastModel I c.ext V c.supp p order s fuel₁ o₁ c.rel c.order c.arity c.rules hs h₁
  obtain ⟨_, hm₂, _⟩ := runPhys_compiled_eq_leastModel I c.ext V c.supp p order _ fuel₂ o₂ c.rel c.order c.arity c.rules
    (wfPSt_pushRows p _ extra hw₁ hex) h₂
  intro f
  rw [hm₂ f]
  have hlen : o₁.st.length = p.rels.length := hw₁.1
  have hsame : ∀ g, (g.rel < p.rels.length ∧ factsOf (pushRows o₁.st extra) g) ↔
      ((g.rel < p.rels.length ∧ factsOf o₁.st g) ∨ (g.rel < p.rels.length ∧ g.args ∈ extra g.rel)) := by
    intro g
    constructor
    · rintro ⟨hr, hg⟩
      have hg' : g.args ∈ (prel (pushRows o₁.st extra) g.rel).rows := hg
      rw [prel_pushRows _ _ _ (by rw [hlen]; exact hr)] at hg'
      simp only [List.mem_append] at hg'
      rcases hg' with h | h
      · exact Or.inl ⟨hr, h⟩
      · exact Or.inr ⟨hr, h⟩
    · rintro (⟨hr, h⟩ | ⟨hr, h⟩)
      · refine ⟨hr, ?_⟩
        show g.args ∈ (prel (pushRows o₁.st extra) g.rel).rows
        rw [prel_pushRows _ _ _ (by rw [hlen]; exact hr)]; simp only [List.mem_append]; exact Or.inl h
      · refine ⟨hr, ?_⟩
        show g.args ∈ (prel (pushRows o₁.st extra) g.rel).rows
        rw [prel_pushRows _ _ _ (by rw [hlen]; exact hr)]; simp only [List.mem_append]; exact Or.inr h
  have e1 : ∀ f, Derivable I p.rules noAgg (fun g => g.rel < p.rels.length ∧ factsOf (pushRows o₁.st extra) g) f ↔
      Derivable I p.rules noAgg (fun g => (g.rel < p.rels.length ∧ factsOf o₁.st g) ∨ (g.rel < p.rels.length ∧ g.args ∈ extra g.rel)) f :=
    fun f => ⟨derivable_mono_input (fun g hg => (hsame g).mp hg) f, derivable_mono_input (fun g hg => (hsame g).mpr hg) f⟩
  rw [e1 f]
  exact derivable_union_restart (I := I) (rules := p.rules) (agg := noAgg)
    (inp := fun g => g.rel < p.rels.length ∧ factsOf s g) (J := fun g => g.rel < p.rels.length ∧ g.args ∈ extra g.rel)
    (D := fun g => g.rel < p.rels.length ∧ factsOf o₁.st g)
    (fun g => ⟨fun hg => (hm₁ g).mp hg.2, fun hg => ⟨facts_lt hw₁ ((hm₁ g).mpr hg), (hm₁ g).mpr hg⟩⟩) f

/-- the result of a `run_timeout` call, whichever way it ended -/
def OutcomeSt : Outcome ProgStT → Option PSt
  | .done o => some o.st
  | .timedOut o => some o.st
  | .outOfFuel => none

/-- **`run_timeout` stops only in a sound state**: typed, old rows kept as a prefix, every row derivable -/
theorem timeout_sound_phys (I : Interp E B G P A) (V : Hir.VarsOf E B) (p : Program E B G P A) (order : SccOrder)
    (c : Ctx I V p order) (dl : Deadline) (s : PSt) (fuel : Nat) (st' : PSt) (hs : WFPSt p s)
    (h : OutcomeSt (runTimeout I V p (ixSetsOf V p) order dl fuel s) = some st') :
    WFPSt p st' ∧
    (∀ f, factsOf st' f → Derivable I p.rules noAgg (stDB p s) f) ∧
    (∀ r, r < p.rels.length → ∃ derived, (prel st' r).rows = (prel s r).rows ++ derived) := by
  cases hr : runTimeout I V p (ixSetsOf V p) order dl fuel s with
  | done o =>
    rw [hr] at h
    simp only [OutcomeSt, Option.some.injEq] at h
    subst h
    obtain ⟨hw, hm, hrows⟩ := runPhys_compiled_eq_leastModel I c.ext V c.supp p order s fuel ⟨o.st, o.iters⟩ c.rel c.order
      c.arity c.rules hs (runTimeout_done I V p _ order dl fuel s o hr)
    refine ⟨hw, fun f hf => (hm f).mp hf, ?_⟩
    intro r hr'
    obtain ⟨derived, hd, _, _⟩ := hrows r hr'
    exact ⟨derived, hd⟩
  | timedOut o =>
    rw [hr] at h
    simp only [OutcomeSt, Option.some.injEq] at h
    subst h
    exact sound_of_SoundSt I p s o.st (runTimeout_timedOut I c.ext V c.supp p _ order dl s fuel o c.rel
      (planOk_ixSetsOf V p c.arity) c.rules hs hr)
  | outOfFuel =>
    rw [hr] at h
    cases h

/-- **`true` means complete** -/
theorem timeout_true_complete_phys (I : Interp E B G P A) (V : Hir.VarsOf E B) (p : Program E B G P A) (order : SccOrder)
    (c : Ctx I V p order) (dl : Deadline) (s : PSt) (fuel : Nat) (o : ProgStT) (hs : WFPSt p s)
    (h : runTimeout I V p (ixSetsOf V p) order dl fuel s = .done o) :
    ∀ f, factsOf o.st f ↔ Derivable I p.rules noAgg (stDB p s) f := by
  exact (runPhys_compiled_eq_leastModel I c.ext V c.supp p order s fuel ⟨o.st, o.iters⟩ c.rel c.order c.arity c.rules hs
    (runTimeout_done I V p _ order dl fuel s o h)).2.1

/-- a history of interrupted calls: each starts from the value the previous one left -/
inductive Interrupted (I : Interp E B G P A) (V : Hir.VarsOf E B) (p : Program E B G P A) (order : SccOrder) : PSt → PSt → Prop where
  | refl (s : PSt) : Interrupted I V p order s s
  | step {s s₁ s₂ : PSt} (dl : Deadline) (fuel : Nat) (o : ProgStT) :
      Interrupted I V p order s s₁ → runTimeout I V p (ixSetsOf V p) order dl fuel s₁ = .timedOut o → s₂ = o.st →
      Interrupted I V p order s s₂

/-- after any number of interruptions the value is typed and lies between the original rows and their least model -/
theorem interrupted_between_phys (I : Interp E B G P A) (V : Hir.VarsOf E B) (p : Program E B G P A) (order : SccOrder)
    (c : Ctx I V p order) {s s' : PSt} (hs : WFPSt p s) (hi : Interrupted I V p order s s') :
    WFPSt p s' ∧ (∀ f, factsOf s' f → Derivable I p.rules noAgg (stDB p s) f) ∧ (∀ f, stDB p s f → stDB p s' f) := by
  induction hi with
  | refl => exact ⟨hs, fun f hf => derivable_input ⟨facts_lt hs hf, hf⟩, fun f hf => hf⟩
  | @step s₁ s₂ dl fuel o _ hrun hu ih =>
    obtain ⟨hw, hsound, hkeep⟩ := ih
    subst hu
    obtain ⟨hw', hsound', hrows'⟩ := timeout_sound_phys I V p order c dl s₁ fuel o.st hw (by rw [hrun]; rfl)
    refine ⟨hw', fun f hf => ?_, fun f hf => ?_⟩
    · exact (derivable_between (I := I) (rules := p.rules) (agg := noAgg) (inp := stDB p s) (D := stDB p s₁)
        (fun g hg => hkeep g hg) (fun g hg => hsound g hg.2) f).mp (hsound' f hf)
    · obtain ⟨hr, hf₁⟩ := hkeep f hf
      refine ⟨hr, ?_⟩
      obtain ⟨derived, hd⟩ := hrows' f.rel hr
      show f.args ∈ (prel o.st f.rel).rows
      rw [hd]
      exact List.mem_append_left _ hf₁

/-- **resumable**: after any number of interruptions a completing run ends with the least model of the original rows -/
theorem resume_complete_phys (I : Interp E B G P A) (V : Hir.VarsOf E B) (p : Program E B G P A) (order : SccOrder)
    (c : Ctx I V p order) (s s' : PSt) (fuel : Nat) (o : ProgSt) (hs : WFPSt p s)
    (hi : Interrupted I V p order s s')
    (h : run I V p (ixSetsOf V p) order fuel s' = some o) :
    ∀ f, factsOf o.st f ↔ Derivable I p.rules noAgg (stDB p s) f := by
  obtain ⟨hw, hsound, hkeep⟩ := interrupted_between_phys I V p order c hs hi
  intro f
  rw [(runPhys_compiled_eq_leastModel I c.ext V c.supp p order s' fuel o c.rel c.order c.arity c.rules hw h).2.1 f]
  exact derivable_between (I := I) (rules := p.rules) (agg := noAgg) (inp := stDB p s) (D := stDB p s')
    (fun g hg => hkeep g hg) (fun g hg => hsound g hg.2) f

/-! ## non-vacuity: transitive closure (`pTC`, `sTC` of `Props/C01Phys.lean`), the deadline passed at the first reading -/

theorem tc_ctx : Ctx Plan.exI Plan.exV pTC [[0], [1]] :=
  ⟨Plan.exI_ext, Plan.exI_supp, tc_hyps.1, tc_hyps.2.1, by decide, tc_hyps.2.2.2.1⟩

/-- how the call ended (`true` = `.done`) and the row vectors it left -/
def outcomeRows : Outcome ProgStT → Option (Bool × List (List Tuple))
  | .done o => some (true, o.st.map (·.rows))
  | .timedOut o => some (false, o.st.map (·.rows))
  | .outOfFuel => none

/-- `run_timeout` with the deadline already passed at the first clock reading (the end of the non-looping SCC of
`path(x, y) <-- edge(x, y)`) returns `false` with two `path` rows — the complete run has three — and every index of `edge`
and `path` emptied; a following `run()` rebuilds the indices and ends with the full closure -/
example :
    outcomeRows (runTimeout Plan.exI Plan.exV pTC (ixSetsOf Plan.exV pTC) [[0], [1]] (fun k => k == 0) 10 sTC) =
      some (false, [[[.int 1, .int 2], [.int 2, .int 3]], [[.int 1, .int 2], [.int 2, .int 3]]]) ∧
    (OutcomeSt (runTimeout Plan.exI Plan.exV pTC (ixSetsOf Plan.exV pTC) [[0], [1]] (fun k => k == 0) 10 sTC)).map
        (fun st => st.map fun pr => (pr.full.length, pr.idxs.map (·.2.length))) = some [(0, [0, 0]), (0, [0])] ∧
    ((OutcomeSt (runTimeout Plan.exI Plan.exV pTC (ixSetsOf Plan.exV pTC) [[0], [1]] (fun k => k == 0) 10 sTC)).bind
        fun st => run Plan.exI Plan.exV pTC (ixSetsOf Plan.exV pTC) [[0], [1]] 10 st).map (fun o => (o.st.map (·.rows), o.iters)) =
      some ([[[.int 1, .int 2], [.int 2, .int 3]], [[.int 1, .int 2], [.int 2, .int 3], [.int 1, .int 3]]], [1, 2]) ∧
    outcomeRows (runTimeout Plan.exI Plan.exV pTC (ixSetsOf Plan.exV pTC) [[0], [1]] (fun k => k == 1) 10 sTC) =
      some (false, [[[.int 1, .int 2], [.int 2, .int 3]], [[.int 1, .int 2], [.int 2, .int 3], [.int 1, .int 3]]]) ∧
    outcomeRows (runTimeout Plan.exI Plan.exV pTC (ixSetsOf Plan.exV pTC) [[0], [1]] (fun _ => false) 10 sTC) =
      some (true, [[[.int 1, .int 2], [.int 2, .int 3]], [[.int 1, .int 2], [.int 2, .int 3], [.int 1, .int 3]]]) :=
  ⟨by decide, by decide, by decide, by decide, by decide⟩

/-- the theorems apply to that history: interrupted once, then completed -/
example (o' : ProgStT) (o : ProgSt)
    (h₁ : runTimeout Plan.exI Plan.exV pTC (ixSetsOf Plan.exV pTC) [[0], [1]] (fun k => k == 0) 10 sTC = .timedOut o')
    (h₂ : run Plan.exI Plan.exV pTC (ixSetsOf Plan.exV pTC) [[0], [1]] 10 o'.st = some o) :
    ∀ f, factsOf o.st f ↔ Derivable Plan.exI pTC.rules noAgg (stDB pTC sTC) f :=
  resume_complete_phys Plan.exI Plan.exV pTC _ tc_ctx sTC o'.st 10 o wf_sTC (.step _ 10 o' (.refl _) h₁ rfl) h₂

/-! ## axiom audit -/
#print axioms rerun_idempotent_phys
#print axioms monotone_rerun_phys
#print axioms timeout_sound_phys
#print axioms timeout_true_complete_phys
#print axioms resume_complete_phys

end AscentVerif.Phys
