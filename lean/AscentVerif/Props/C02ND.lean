import AscentVerif.Proofs.NDEngine
/-!
# C01 / C02 / C06 — every enumeration of an iteration's derivations computes the least model

`Proofs/NDEngine.lean` defines the engine as a *relation* (`RunND`): in every pass of every SCC the head update is applied
to ANY list of `(relation, row)` pairs that has exactly the members of `iterRows` — the head rows of all rule-variant
instances over the state at the start of the pass — in any order and with any multiplicity.  This covers what real
executions of the generated code may differ in: hash-map iteration order, the index a clause is read through, the order
of the two clauses of a reorderable simple join, a row met once per stored duplicate, the interleaving of parallel workers.

* `nd_eq_leastModel` — every execution of the nondeterministic engine, from any well-formed program value, ends with
  exactly the least model; old rows stay a prefix, every new tuple is appended once.
* `nd_runs_agree` — two executions (two hash orders, two plans, two schedules) hold the same facts.
* `par_is_nd` — the schedule-based parallel engine of C02 is one such execution (for every schedule).
All statements are proved; no hypothesis on the enumeration beyond set-equality with `iterRows`.
-/
namespace AscentVerif.Engine
open AscentVerif

variable {E B G P A : Type}

/-- **any enumeration computes the least model** -/
theorem nd_eq_leastModel (I : Interp E B G P A) (cfg : Config) (p : Program E B G P A) (order : SccOrder)
    (s s' : St) (hp : Relational p) (ho : validOrder p order = true) (hs : WFSt p s)
    (hrun : RunND I cfg p order s s') :
    WFSt p s' ∧
    (∀ f, factsOf s' f ↔ Derivable I p.rules noAgg (fun g => g.rel < p.rels.length ∧ factsOf s g) f) ∧
    (∀ r, r < p.rels.length → ∃ derived, (relSt s' r).rows = (relSt s r).rows ++ derived ∧
      derived.Nodup ∧ ∀ t ∈ derived, t ∉ (relSt s r).rows) :=
  runND_eq_leastModel I cfg p order s s' hp ho hs hrun

/-- **two executions agree**: whatever the enumeration orders, SCC orders and configurations -/
theorem nd_runs_agree (I : Interp E B G P A) (cfg cfg' : Config) (p : Program E B G P A) (order order' : SccOrder)
    (s s₁ s₂ : St) (hp : Relational p) (ho : validOrder p order = true) (ho' : validOrder p order' = true) (hs : WFSt p s)
    (h₁ : RunND I cfg p order s s₁) (h₂ : RunND I cfg' p order' s s₂) :
    ∀ f, factsOf s₁ f ↔ factsOf s₂ f := fun f =>
  ((runND_eq_leastModel I cfg p order s s₁ hp ho hs h₁).2.1 f).trans
    ((runND_eq_leastModel I cfg' p order' s s₂ hp ho' hs h₂).2.1 f).symm

/-- the parallel engine under any schedule is an execution of the nondeterministic engine -/
theorem par_is_nd (I : Interp E B G P A) (cfg : Config) (p : Program E B G P A) (order : SccOrder)
    (σ : Sched E B G P A) (s : St) (fuel : Nat) (ps : ParProgSt) (hp : Relational p)
    (hrun : runPar I cfg p order σ fuel s = some ps) : RunND I cfg p order s ps.st :=
  runPar_is_ND I cfg p order σ s fuel ps hp hrun

/-- non-vacuity: the empty program on the empty state has the (trivial) execution -/
example : RunND (E := Unit) (B := Unit) (G := Unit) (P := Unit) (A := Unit)
    ⟨fun _ _ => .unit, fun _ _ => true, fun _ _ => [], fun _ _ => none, fun _ l => l, fun _ a _ => (a, false)⟩
    {} ⟨[], []⟩ [] [] [] := SccsND.nil

/-! ## axiom audit -/
#print axioms nd_eq_leastModel
#print axioms nd_runs_agree
#print axioms par_is_nd

end AscentVerif.Engine
