import AscentVerif.Props.C07
import AscentVerif.Props.C01Phys
/-!
# From the surface text to the physical execution

Composition of C07 (the implemented desugaring pipeline means the documented expansion) with the physical-index engine
theorem of C01 (`Props/C01Phys.lean`): for a surface program with disjunctions (any nesting), `?pattern` arguments,
wildcards, repeated variables, expression and constant arguments, several head clauses and facts — macro-free (macro
expansion: C08), negation-free (negation: C04) — the code that the macro generates for the DESUGARED rules, executed over
its hash indices, ends with exactly the least model of the DOCUMENTED meaning of the surface rules (`DerivableS`).

`surface_to_physical`: hypotheses = those of `derivable_desugar` (no reserved names, well-scoped arguments, what the
generated conditions mean) + those of `runPhys_eq_leastModel` on the desugared program (relational, valid SCC order,
usable plan, desugared and well-scoped core rules, typed start value: all decidable and evaluated by the driver on the
generated programs of the ties).
-/
namespace AscentVerif.Surface
open AscentVerif AscentVerif.Engine

variable {E B G P A M : Type}

/-- **the physical execution of the desugared program computes the documented meaning of the surface program** -/
theorem surface_to_physical (I : Interp E B G P A) (hI : Plan.Ext I) (V : Hir.VarsOf E B) (hSupp : Plan.Supp I V)
    (ops : Ops E B G A) {varsB : B → List Var} {varsG : G → List Var}
    (hS : SugarSound I ops) (hV : VarsSound I ops.varsE varsB varsG)
    (rels : List RelDecl) (srs : List (SRule E B G P A M)) (c c' : Nat) (rs : List (Rule E B G P A))
    (hres : ∀ r ∈ srs, NoReservedNames ops.varsE varsB varsG r) (hws : ∀ r ∈ srs, WellScoped ops.varsE r)
    (hd : desugarRules ops srs c = some (rs, c'))
    (ix : Phys.IxSets) (order : SccOrder) (s : Phys.PSt) (fuel : Nat) (out : Phys.ProgSt)
    (hp : Relational (⟨rels, rs⟩ : Program E B G P A)) (ho : validOrder (⟨rels, rs⟩ : Program E B G P A) order = true)
    (hplan : Phys.planOk V (⟨rels, rs⟩ : Program E B G P A) ix = true)
    (hcore : ∀ r ∈ rs, Hir.Desugared V r = true ∧ Plan.WellScoped V r = true)
    (hs : Phys.WFPSt (⟨rels, rs⟩ : Program E B G P A) s)
    (hrun : Phys.run I V (⟨rels, rs⟩ : Program E B G P A) ix order fuel s = some out) :
    ∀ f, Phys.factsOf out.st f ↔
      DerivableS I srs noAgg (fun g => g.rel < rels.length ∧ Phys.factsOf s g) f := fun f =>
  ((Phys.runPhys_eq_leastModel I hI V hSupp ⟨rels, rs⟩ ix order s fuel out hp ho hplan hcore hs hrun).2.1 f).trans
    (derivable_desugar I ops hS hV srs c c' rs hres hws hd noAgg _ f)

#print axioms surface_to_physical

end AscentVerif.Surface
