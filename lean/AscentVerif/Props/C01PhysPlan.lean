import AscentVerif.Props.C01Phys
/-!
# The plan the compiler computes is always usable

`Props/C01Phys.lean` assumes `planOk V p ix`: every body clause is compiled to a clause item on the same relation whose
index columns are strictly increasing and inside the arity, and whose index exists.  Here that hypothesis is discharged
for the compiler's own index sets `ixSetsOf V p` from the arity conditions alone (`arityOk`: one argument per column in
every body clause and every head clause; what `rustc` checks on the generated code).  No `Desugared` hypothesis is needed:
the index columns of a clause are collected by a left-to-right scan that only ever appends the current column number
(`scanG_idx`), and the re-indexed first clause of a simple join is a filter of `List.range args.length`.
-/
namespace AscentVerif.Hir
open AscentVerif AscentVerif.Engine
variable {E B G P A : Type}

/-! ## strictly increasing lists of column numbers below a bound -/

/-- strictly increasing and below `n` -/
def IncLt (n : Nat) (l : List Nat) : Prop := l.Pairwise (· < ·) ∧ ∀ j ∈ l, j < n

theorem IncLt.nil (n : Nat) : IncLt n [] := ⟨List.Pairwise.nil, fun _ h => by cases h⟩

theorem IncLt.mono {n m : Nat} {l : List Nat} (h : IncLt n l) (hnm : n ≤ m) : IncLt m l :=
  ⟨h.1, fun j hj => Nat.lt_of_lt_of_le (h.2 j hj) hnm⟩

theorem IncLt.snoc {n : Nat} {l : List Nat} (h : IncLt n l) : IncLt (n + 1) (l ++ [n]) := by
  refine ⟨?_, ?_⟩
  · rw [List.pairwise_append]
    refine ⟨h.1, List.pairwise_singleton _ _, ?_⟩
    intro a ha b hb
    simp only [List.mem_singleton] at hb
    subst hb
    exact h.2 a ha
  · intro j hj
    rcases List.mem_append.1 hj with hj | hj
    · exact Nat.lt_succ_of_lt (h.2 j hj)
    · simp only [List.mem_singleton] at hj
      subst hj
      exact Nat.lt_succ_self _

theorem increasing_of_pairwise : ∀ l : List Nat, l.Pairwise (· < ·) → Phys.increasing l = true
  | [], _ => rfl
  | [_], _ => rfl
  | a :: b :: t, h => by
    rw [List.pairwise_cons] at h
    simp only [Phys.increasing, Bool.and_eq_true, decide_eq_true_eq]
    exact ⟨h.1 b (List.mem_cons_self ..), increasing_of_pairwise (b :: t) h.2⟩

/-- a filter of a range is strictly increasing -/
theorem IncLt.filter_range (n : Nat) (q : Nat → Bool) : IncLt n ((List.range n).filter q) :=
  ⟨List.Pairwise.filter _ List.pairwise_lt_range, fun _ hj => List.mem_range.1 (List.mem_filter.1 hj).1⟩

theorem increasing_filter_range (n : Nat) (q : Nat → Bool) : Phys.increasing ((List.range n).filter q) = true :=
  increasing_of_pairwise _ (IncLt.filter_range n q).1

theorem indicesGiven_inc (args : List (Arg E)) (vars : List Var) : IncLt args.length (indicesGiven args vars) :=
  IncLt.filter_range _ _

/-! ## the scan of one clause only ever appends the current column number -/

theorem scanG_idx (V : VarsOf E B) (dg : List Var) (acc : List Var × List Nat × List Var) (ja : Nat × Arg E) :
    (scanG V dg acc ja).2.1 = acc.2.1 ∨ (scanG V dg acc ja).2.1 = acc.2.1 ++ [ja.1] := by
  obtain ⟨j, a⟩ := ja
  cases a with
  | var v =>
    unfold scanG
    dsimp only
    by_cases h1 : acc.2.2.contains v = true
    · rw [if_pos h1]; exact .inl rfl
    · rw [if_neg h1]
      by_cases h2 : acc.1.contains v = true
      · rw [if_pos h2]; exact .inr rfl
      · rw [if_neg h2]; exact .inl rfl
  | expr e =>
    unfold scanG
    dsimp only
    by_cases h1 : (V.e e).any acc.2.2.contains = true
    · rw [if_pos h1]; exact .inl rfl
    · rw [if_neg h1]; exact .inr rfl

theorem scanG_fold_inc (V : VarsOf E B) (dg : List Var) :
    ∀ (l : List (Arg E)) (s : Nat) (acc : List Var × List Nat × List Var), IncLt s acc.2.1 →
      IncLt (s + l.length) ((zipFrom s l).foldl (scanG V dg) acc).2.1
  | [], s, acc, h => by simpa [zipFrom] using h
  | a :: l, s, acc, h => by
    rw [zipFrom_cons, List.foldl_cons]
    have hstep : IncLt (s + 1) (scanG V dg acc (s, a)).2.1 := by
      rcases scanG_idx V dg acc (s, a) with e | e
      · rw [e]; exact h.mono (Nat.le_succ _)
      · rw [e]; exact h.snoc
    have := scanG_fold_inc V dg l (s + 1) (scanG V dg acc (s, a)) hstep
    have e : s + (a :: l).length = s + 1 + l.length := by simp only [List.length_cons]; omega
    rw [e]
    exact this

/-- the index columns the scan collects are strictly increasing column numbers of the clause (for ANY rule, desugared or not) -/
theorem scanOf_inc (V : VarsOf E B) (gd : List Var × List Var) (args : List (Arg E)) :
    IncLt args.length (scanOf V gd args).2.1 := by
  unfold scanOf
  rw [zip_range_eq]
  have := scanG_fold_inc V gd.2 args 0 (gd.1, [], []) (IncLt.nil 0)
  rwa [Nat.zero_add] at this

/-! ## the items of a compiled rule, position by position -/

theorem hitems_getElem? (V : VarsOf E B) :
    ∀ (items : List (Item E B G P A)) (gd : List Var × List Var) (i : Nat) (it : Item E B G P A),
      items[i]? = some it → ∃ gd', (hitems V gd items)[i]? = some (hitemOf V gd' it)
  | [], _, _, _, h => by simp at h
  | x :: rest, gd, 0, it, h => by
    simp only [List.getElem?_cons_zero, Option.some.injEq] at h
    subst h
    exact ⟨gd, by simp [hitems]⟩
  | x :: rest, gd, i + 1, it, h => by
    simp only [List.getElem?_cons_succ] at h
    obtain ⟨gd', h'⟩ := hitems_getElem? V rest (gdStep V gd x) i it h
    exact ⟨gd', by simp [hitems, h']⟩

/-- the items of a compiled rule are those of the scan, except that the first clause of a simple join is re-indexed
(no hypothesis on the rule) -/
theorem compile_items_cases (V : VarsOf E B) (r : Rule E B G P A) :
    (compileRule V r).items = hitems V ([], []) r.body ∨
    ∃ k r1 a1 c1 vars, r.body[k]? = some (.clause r1 a1 c1) ∧
      (compileRule V r).items = (hitems V ([], []) r.body).set k (.clause r1 (indicesGiven a1 vars) false) := by
  rw [compileRule_eq]
  have hf := (fold_fields V r.body (firstClauseInd r.body) ((List.range r.body.length).zip r.body) { simple := simple0 r.body }).2.1
  rw [map_snd_zip_range] at hf
  generalize ((List.range r.body.length).zip r.body).foldl (stepC V r.body (firstClauseInd r.body)) { simple := simple0 r.body } = st at hf
  have hf' : st.items = hitems V ([], []) r.body := hf
  unfold finish
  dsimp only
  split
  · rename_i i _
    split
    · rename_i r1 args1 c1 _ args2 _ h1 _
      exact .inr ⟨i, r1, args1, c1, _, h1, by rw [hf']⟩
    · exact .inl hf'
  · exact .inl hf'

/-- every body clause is compiled to a clause item on the same relation whose index columns are strictly increasing
column numbers of the clause -/
theorem compile_clause_item (V : VarsOf E B) (r : Rule E B G P A) (i : Nat) (rel : RelId) (args : List (Arg E))
    (conds : List (Cond E B P)) (h : r.body[i]? = some (.clause rel args conds)) :
    ∃ cols, (compileRule V r).items[i]? = some (.clause rel cols false) ∧ IncLt args.length cols := by
  obtain ⟨gd', hg⟩ := hitems_getElem? V r.body ([], []) i _ h
  have hg' : (hitems V ([], []) r.body)[i]? = some (.clause rel (scanOf V gd' args).2.1 false) := hg
  rcases compile_items_cases V r with e | ⟨k, r1, a1, c1, vars, hk, e⟩
  · rw [e]
    exact ⟨_, hg', scanOf_inc V gd' args⟩
  · rw [e]
    by_cases hik : k = i
    · subst hik
      rw [h] at hk
      cases hk
      have hlt : k < (hitems V ([], []) r.body).length := by
        rw [hitems_length]
        exact (List.getElem?_eq_some_iff.1 h).1
      exact ⟨_, List.getElem?_set_self hlt, indicesGiven_inc args vars⟩
    · rw [List.getElem?_set_ne hik]
      exact ⟨_, hg', scanOf_inc V gd' args⟩

end AscentVerif.Hir

namespace AscentVerif.Phys
open AscentVerif AscentVerif.Engine AscentVerif.Index
variable {E B G P A : Type}

/-- every clause has one argument per column of its relation, every head clause too -/
def arityOk (p : Program E B G P A) : Bool :=
  p.rules.all fun r =>
    (r.body.all fun | .clause rel args _ => args.length == arityOf p rel | _ => true) &&
    (r.heads.all fun h => h.args.length == arityOf p h.rel)

theorem arityOk_rule {p : Program E B G P A} (h : arityOk p = true) (r : Rule E B G P A) (hr : r ∈ p.rules) :
    (∀ rel args conds, Item.clause rel args conds ∈ r.body → args.length = arityOf p rel) ∧
    (r.heads.all fun h => h.args.length == arityOf p h.rel) = true := by
  unfold arityOk at h
  rw [List.all_eq_true] at h
  have h' := h r hr
  rw [Bool.and_eq_true, List.all_eq_true] at h'
  refine ⟨?_, h'.2⟩
  intro rel args conds hm
  have := h'.1 _ hm
  dsimp only at this
  exact eq_of_beq this

/-- the plan of one rule of the program is usable with the index sets the compiler allocates -/
theorem ruleOk_ixSetsOf (V : Hir.VarsOf E B) (p : Program E B G P A) (r : Rule E B G P A) (hr : r ∈ p.rules)
    (ha : ∀ rel args conds, Item.clause rel args conds ∈ r.body → args.length = arityOf p rel) :
    ruleOk V p (ixSetsOf V p) r = true := by
  unfold ruleOk
  dsimp only
  rw [List.all_eq_true]
  intro i _
  split
  · rename_i rel args conds rel' cols dp hb hc
    obtain ⟨cols', hc', hinc⟩ := Hir.compile_clause_item V r i rel args conds hb
    rw [hc] at hc'
    cases hc'
    have hlen : args.length = arityOf p rel := ha rel args conds (List.mem_of_getElem? hb)
    rw [hlen] at hinc
    simp only [Bool.and_eq_true, Bool.or_eq_true, beq_iff_eq, List.all_eq_true, decide_eq_true_eq]
    refine ⟨⟨⟨⟨trivial, hlen⟩, Hir.increasing_of_pairwise _ hinc.1⟩, hinc.2⟩, ?_⟩
    by_cases hne : cols.length = arityOf p rel
    · exact .inl hne
    · exact .inr (List.contains_iff_mem.2 (ixSetsOf_covers V p r hr i rel cols false hc hne))
  · rename_i rel args conds hb hno
    exfalso
    obtain ⟨cols, hc, _⟩ := Hir.compile_clause_item V r i rel args conds hb
    exact hno _ _ _ hc
  · rfl

/-- **the plan the compiler computes is usable** with the index sets it allocates -/
theorem planOk_ixSetsOf (V : Hir.VarsOf E B) (p : Program E B G P A) (h : arityOk p = true) :
    planOk V p (ixSetsOf V p) = true := by
  unfold planOk
  rw [List.all_eq_true]
  intro r hr
  obtain ⟨h1, h2⟩ := arityOk_rule h r hr
  rw [Bool.and_eq_true]
  exact ⟨ruleOk_ixSetsOf V p r hr h1, h2⟩

/-- `runPhys_eq_leastModel` with the compiler's own index sets and without the plan hypothesis -/
theorem runPhys_compiled_eq_leastModel (I : Interp E B G P A) (hI : Plan.Ext I) (V : Hir.VarsOf E B) (hS : Plan.Supp I V)
    (p : Program E B G P A) (order : SccOrder) (s : PSt) (fuel : Nat) (out : ProgSt)
    (hp : Relational p) (ho : validOrder p order = true) (ha : arityOk p = true)
    (hd : ∀ r ∈ p.rules, Hir.Desugared V r = true ∧ Plan.WellScoped V r = true)
    (hs : WFPSt p s)
    (hrun : run I V p (ixSetsOf V p) order fuel s = some out) :
    WFPSt p out.st ∧
    (∀ f, factsOf out.st f ↔ Derivable I p.rules noAgg (fun g => g.rel < p.rels.length ∧ factsOf s g) f) ∧
    (∀ r, r < p.rels.length → ∃ derived, (prel out.st r).rows = (prel s r).rows ++ derived ∧
      derived.Nodup ∧ ∀ t ∈ derived, t ∉ (prel s r).rows) :=
  runPhys_eq_leastModel I hI V hS p (ixSetsOf V p) order s fuel out hp ho (planOk_ixSetsOf V p ha) hd hs hrun

/-! ## non-vacuity -/

example : arityOk pTC = true := by decide

/-- the example of `Props/C01Phys.lean` through the corollary: no plan hypothesis to evaluate -/
example (out : ProgSt) (h : run Plan.exI Plan.exV pTC (ixSetsOf Plan.exV pTC) [[0], [1]] 10 sTC = some out) :
    ∀ f, factsOf out.st f ↔
      Derivable Plan.exI pTC.rules noAgg (fun g => g.rel < pTC.rels.length ∧ factsOf sTC g) f :=
  (runPhys_compiled_eq_leastModel Plan.exI Plan.exI_ext Plan.exV Plan.exI_supp pTC _ sTC 10 out tc_hyps.1 tc_hyps.2.1
    (by decide) tc_hyps.2.2.2.1 wf_sTC h).2.1

/-! ## axiom audit -/
#print axioms planOk_ixSetsOf
#print axioms runPhys_compiled_eq_leastModel

end AscentVerif.Phys
