import AscentVerif.Props.C04Lat
import AscentVerif.Spec.LatticeLfpAgg
import AscentVerif.Proofs.AggLatSem
import AscentVerif.Proofs.AggLatSemNd
/-!
# C04 over lattices, semantics — the final database of a stratified program with BOTH lattices and
aggregation / negation is closed under the rules, aggregates evaluated on the FINAL rows, and (for
monotone programs) the least such database

Abstract engine `Model/Engine.lean`, serial mode (`Config = {}`).  The aggregation view of the
stratified semantics is `finalAggView p ps.st`: for a lattice relation the list `latAggView` an
aggregation item over it is handed from the final value (one row per key, a permutation of its final
rows: `finalAggView_lattice`), for an ordinary relation its `aggView` (C04).

Two layers, both fully proved (helper development `Proofs/AggLatSem{Inv,}.lean`, the C03 proof with
the aggregation view as a parameter and the extra invariant "non-head relations are untouched"):

* ITEM-wise (`run_mixed_closed_items`, `run_mixed_least_items`): every aggregation item `a` is
  evaluated on `Agg.aggOf {} p ps.st a`, literally what the item reads from the final value
  (`Agg.SatA`).  No side condition.
* RELATION-wise, the spec of `Spec/LatticeLfpAgg.lean` (`run_mixed_closed`, `run_mixed_least`):
  `LClosedA` / `MonotoneProgA` w.r.t. `finalAggView p ps.st`.  A FULL-KEY aggregation item (all
  arguments bound, e.g. a negation `!r(x, y)`) over a NON-lattice relation deduplicates what it reads,
  so it reads the per-relation view only if that view is duplicate-free (`ViewOK`).  `ViewOK` holds
  when the caller's NON-lattice inputs are duplicate-free (`RelInputsNodup`, the hypothesis `hnd` of
  `Props/C04.lean`; `run_mixed_viewOK`, via `Proofs/AggLatSemNd.lean`: stored indices of non-lattice
  relations stay duplicate-free), and is vacuous when all aggregations range over lattices
  (`viewOK_of_aggsOverLattices`).  The `…_of_viewOK` versions take `ViewOK` instead of `RelInputsNodup`.
-/
namespace AscentVerif.Engine
open AscentVerif

variable {E B G P A : Type}

/-- the aggregation view of the stratified semantics, read from the final program value -/
def finalAggView (p : Program E B G P A) (st : St) (r : RelId) : List Tuple :=
  if (declOf p r).lat then latAggView p st r else aggView st r

/-- full-key items over non-lattice relations read a duplicate-free view -/
def ViewOK (p : Program E B G P A) (st : St) : Prop :=
  ∀ rule ∈ p.rules, ∀ a, Item.agg a ∈ rule.body → (declOf p a.rel).lat = false → aggIsFull a = true →
    (aggView st a.rel).Nodup

/-- every aggregation / negation of the program ranges over a lattice relation -/
def aggsOverLattices (p : Program E B G P A) : Bool :=
  p.rules.all fun rule => rule.body.all fun
    | .agg a => (declOf p a.rel).lat
    | _ => true

theorem viewOK_of_aggsOverLattices (p : Program E B G P A) (st : St) (h : aggsOverLattices p = true) :
    ViewOK p st := by
  intro rule hrule a ha hlat
  simp only [aggsOverLattices, List.all_eq_true] at h
  have := h rule hrule _ ha
  simp only [] at this
  rw [hlat] at this; cases this

private theorem eraseDups_of_nodup' {α : Type} [BEq α] [LawfulBEq α] :
    ∀ (n : Nat) (l : List α), l.length ≤ n → l.Nodup → l.eraseDups = l
  | _, [], _, _ => by simp
  | 0, _ :: _, h, _ => by simp at h
  | n + 1, b :: l, h, hnd => by
    have hb : b ∉ l := (List.nodup_cons.mp hnd).1
    have hf : (l.filter fun x => !x == b) = l := by
      rw [List.filter_eq_self]
      intro a ha
      have : a ≠ b := fun e => hb (e ▸ ha)
      simpa using this
    rw [List.eraseDups_cons, hf, eraseDups_of_nodup' n l (by simpa using h) (List.nodup_cons.mp hnd).2]

/-- what an item reads from a program value is the per-relation view -/
theorem aggOf_eq_finalAggView (p : Program E B G P A) (st : St) (a : AggClause E A)
    (h : (declOf p a.rel).lat = false → aggIsFull a = true → (aggView st a.rel).Nodup) :
    Agg.aggOf {} p st a = finalAggView p st a.rel := by
  cases hlat : (declOf p a.rel).lat with
  | true => simp [Agg.aggOf, aggTuples, finalAggView, latAggView, hlat]
  | false =>
    have hv : Agg.aggOf {} p st a = if aggIsFull a then dedupTuples (aggView st a.rel) else aggView st a.rel := by
      simp [Agg.aggOf, aggTuples, aggView, readBag, setLike, hlat]
    rw [hv]
    simp only [finalAggView, hlat, Bool.false_eq_true, if_false]
    cases hf : aggIsFull a with
    | false => simp
    | true => simpa [dedupTuples] using eraseDups_of_nodup' _ _ (Nat.le_refl _) (h hlat hf)

/-- for a lattice relation the final view has one row per key and is a permutation of its final rows -/
theorem finalAggView_lattice (I : Interp E B G P A) (p : Program E B G P A) (order : SccOrder)
    (inp : RelId → List Tuple) (fuel : Nat) (ps : ProgSt)
    (hp : MixedProg p) (hi : LatInputKeys p inp)
    (hrun : run I {} p order fuel (initSt p inp) = .done ps) (r : RelId) (hl : (declOf p r).lat = true) :
    ((finalAggView p ps.st r).map keyOf).Nodup ∧ (finalAggView p ps.st r).Perm (relSt ps.st r).rows := by
  have h := run_mixed_lattice_view_once I p order inp fuel ps hp hi hrun r hl
  simpa [finalAggView, hl] using h

/-! ## item-wise: no side condition -/

/-- **closed, item-wise**: the input is dominated, and every rule instance whose body is satisfied in
the FINAL database — each aggregation item evaluated on what it reads from the FINAL value — has its
head present (relation head) resp. dominated by the stored value of its key (lattice head) -/
theorem run_mixed_closed_items (I : Interp E B G P A) (L : LatOrder I) (p : Program E B G P A) (order : SccOrder)
    (inp : RelId → List Tuple) (fuel : Nat) (ps : ProgSt)
    (hp : MixedProg p) (ho : validOrder p order = true) (hs : Stratified p order) (hi : LatInputKeys p inp)
    (hrun : run I {} p order fuel (initSt p inp) = .done ps) :
    ALS.LClosedI I L p (Agg.aggOf {} p ps.st) (inputDB p inp) (factsOf ps.st) :=
  have h := ALS.run_spec' (L := L) hp hi order ho hs fuel ps hrun
  ⟨h.2.2, h.2.1⟩

/-- **least, item-wise**: below every key-unique database closed for the same item views -/
theorem run_mixed_least_items (I : Interp E B G P A) (L : LatOrder I) (p : Program E B G P A) (order : SccOrder)
    (inp : RelId → List Tuple) (fuel : Nat) (ps : ProgSt)
    (hp : MixedProg p) (ho : validOrder p order = true) (hs : Stratified p order) (hi : LatInputKeys p inp)
    (hrun : run I {} p order fuel (initSt p inp) = .done ps)
    (hm : ALS.MonoI I L p (Agg.aggOf {} p ps.st))
    (M : DB) (hMk : KeyUnique p M) (hM : ALS.LClosedI I L p (Agg.aggOf {} p ps.st) (inputDB p inp) M) :
    DBLe I L p (factsOf ps.st) M :=
  (ALS.run_spec' (L := L) hp hi order ho hs fuel ps hrun).1.below M ⟨hm, hMk, hM⟩

/-! ## relation-wise: the spec of `Spec/LatticeLfpAgg.lean` -/

private theorem satA_iff_sat (I : Interp E B G P A) (p : Program E B G P A) (st : St) (hv : ViewOK p st)
    (M : DB) (rule : Rule E B G P A) (hrule : rule ∈ p.rules) (ρ : Env) :
    Agg.SatA I M (Agg.aggOf {} p st) rule.body [] ρ ↔ Sat I M (finalAggView p st) rule.body [] ρ := by
  have hc : ∀ a, Item.agg a ∈ rule.body → Agg.aggOf {} p st a = finalAggView p st a.rel :=
    fun a ha => aggOf_eq_finalAggView p st a (hv rule hrule a ha)
  rw [Agg.sat_iff_satA]
  exact ⟨fun h => h.congr_agg hc, fun h => h.congr_agg fun a ha => (hc a ha).symm⟩

theorem LClosedI_iff_LClosedA (I : Interp E B G P A) (L : LatOrder I) (p : Program E B G P A) (st : St)
    (hv : ViewOK p st) (inp M : DB) :
    ALS.LClosedI I L p (Agg.aggOf {} p st) inp M ↔ LClosedA I L p (finalAggView p st) inp M := by
  constructor
  · rintro ⟨h1, h2⟩
    exact ⟨h1, fun rule hr ρ hsat => h2 rule hr ρ ((satA_iff_sat I p st hv M rule hr ρ).mpr hsat)⟩
  · rintro ⟨h1, h2⟩
    exact ⟨h1, fun rule hr ρ hsat => h2 rule hr ρ ((satA_iff_sat I p st hv M rule hr ρ).mp hsat)⟩

theorem MonoI_iff_MonotoneProgA (I : Interp E B G P A) (L : LatOrder I) (p : Program E B G P A) (st : St)
    (hv : ViewOK p st) :
    ALS.MonoI I L p (Agg.aggOf {} p st) ↔ MonotoneProgA I L p (finalAggView p st) := by
  constructor
  · intro h M M' hk hk' hle rule hr ρ hsat
    obtain ⟨ρ', hs', hd⟩ := h M M' hk hk' hle rule hr ρ ((satA_iff_sat I p st hv M rule hr ρ).mpr hsat)
    exact ⟨ρ', (satA_iff_sat I p st hv M' rule hr ρ').mp hs', hd⟩
  · intro h M M' hk hk' hle rule hr ρ hsat
    obtain ⟨ρ', hs', hd⟩ := h M M' hk hk' hle rule hr ρ ((satA_iff_sat I p st hv M rule hr ρ).mp hsat)
    exact ⟨ρ', (satA_iff_sat I p st hv M' rule hr ρ').mpr hs', hd⟩

/-- the caller put no tuple twice into a non-lattice relation (as `hnd` in `Props/C04.lean`) -/
def RelInputsNodup (p : Program E B G P A) (inp : RelId → List Tuple) : Prop :=
  ∀ r, r < p.rels.length → (declOf p r).lat = false → (inp r).Nodup

private theorem map_rowAt_range'' (rows : List Tuple) : (List.range rows.length).map (rowAt rows) = rows := by
  apply List.ext_getElem
  · simp
  · intro i h1 h2
    simp [rowAt, List.getD_eq_getElem?_getD, List.getElem?_eq_getElem h2]

/-- with duplicate-free non-lattice inputs, the view of every non-lattice relation after `run()` is
duplicate-free: full-key items read the per-relation view -/
theorem run_mixed_viewOK (I : Interp E B G P A) (L : LatOrder I) (p : Program E B G P A) (order : SccOrder)
    (inp : RelId → List Tuple) (fuel : Nat) (ps : ProgSt)
    (hp : MixedProg p) (ho : validOrder p order = true) (hs : Stratified p order) (hi : LatInputKeys p inp)
    (hnd : RelInputsNodup p inp)
    (hrun : run I {} p order fuel (initSt p inp) = .done ps) : ViewOK p ps.st := by
  intro rule _ a _ hlat _
  have hk := (ALSN.runSccs_K hp never fuel order _ ps (ALSN.KPInv_start inp hi) hrun).1
  have hrows : (relSt ps.st a.rel).rows.Nodup := by
    by_cases hr : a.rel < p.rels.length
    · obtain ⟨derived, e, hd1, hd2⟩ :=
        (ALS.run_spec' (L := L) hp hi order ho hs fuel ps hrun).1.relset a.rel hr hlat
      rw [e, List.nodup_append]
      exact ⟨hnd a.rel hr hlat, hd1, fun x hx y hy e' => hd2 y hy (e' ▸ hx)⟩
    · rw [relSt_of_ge _ _ (by rw [hk.len]; exact Nat.le_of_not_lt hr)]; exact List.nodup_nil
  have h1 : ((relSt ps.st a.rel).idx).Perm (List.range (relSt ps.st a.rel).rows.length) := by
    rw [List.perm_ext_iff_of_nodup (hk.idxNd a.rel hlat) List.nodup_range]
    intro i
    rw [List.mem_range]
    exact (hk.idxAll a.rel i).symm
  have h2 := h1.map (rowAt (relSt ps.st a.rel).rows)
  rw [map_rowAt_range''] at h2
  exact h2.nodup_iff.mpr hrows

/-- **the final database of a stratified mixed program is closed** (`LClosedA`, aggregation view =
the final rows: `finalAggView p ps.st`): it dominates the input, and every rule instance whose body
is satisfied in the final database — aggregates evaluated on the FINAL rows — has its head facts
present (relation heads) resp. dominated by the stored value of their key (lattice heads) -/
theorem run_mixed_closed_of_viewOK (I : Interp E B G P A) (L : LatOrder I) (p : Program E B G P A) (order : SccOrder)
    (inp : RelId → List Tuple) (fuel : Nat) (ps : ProgSt)
    (hp : MixedProg p) (ho : validOrder p order = true) (hs : Stratified p order) (hi : LatInputKeys p inp)
    (hrun : run I {} p order fuel (initSt p inp) = .done ps) (hv : ViewOK p ps.st) :
    LClosedA I L p (finalAggView p ps.st) (inputDB p inp) (factsOf ps.st) :=
  (LClosedI_iff_LClosedA I L p ps.st hv _ _).mp (run_mixed_closed_items I L p order inp fuel ps hp ho hs hi hrun)

/-- **… and the least one**: for programs monotone w.r.t. the final aggregation view, the final
database is below every key-unique database that is `LClosedA` for that same view and the input -/
theorem run_mixed_least_of_viewOK (I : Interp E B G P A) (L : LatOrder I) (p : Program E B G P A) (order : SccOrder)
    (inp : RelId → List Tuple) (fuel : Nat) (ps : ProgSt)
    (hp : MixedProg p) (ho : validOrder p order = true) (hs : Stratified p order) (hi : LatInputKeys p inp)
    (hrun : run I {} p order fuel (initSt p inp) = .done ps) (hv : ViewOK p ps.st)
    (hm : MonotoneProgA I L p (finalAggView p ps.st))
    (M : DB) (hMk : KeyUnique p M) (hM : LClosedA I L p (finalAggView p ps.st) (inputDB p inp) M) :
    DBLe I L p (factsOf ps.st) M :=
  run_mixed_least_items I L p order inp fuel ps hp ho hs hi hrun
    ((MonoI_iff_MonotoneProgA I L p ps.st hv).mpr hm) M hMk ((LClosedI_iff_LClosedA I L p ps.st hv _ _).mpr hM)

/-- **closed** — hypotheses on program and input only -/
theorem run_mixed_closed (I : Interp E B G P A) (L : LatOrder I) (p : Program E B G P A) (order : SccOrder)
    (inp : RelId → List Tuple) (fuel : Nat) (ps : ProgSt)
    (hp : MixedProg p) (ho : validOrder p order = true) (hs : Stratified p order) (hi : LatInputKeys p inp)
    (hnd : RelInputsNodup p inp)
    (hrun : run I {} p order fuel (initSt p inp) = .done ps) :
    LClosedA I L p (finalAggView p ps.st) (inputDB p inp) (factsOf ps.st) :=
  run_mixed_closed_of_viewOK I L p order inp fuel ps hp ho hs hi hrun
    (run_mixed_viewOK I L p order inp fuel ps hp ho hs hi hnd hrun)

/-- **least** — hypotheses on program and input only -/
theorem run_mixed_least (I : Interp E B G P A) (L : LatOrder I) (p : Program E B G P A) (order : SccOrder)
    (inp : RelId → List Tuple) (fuel : Nat) (ps : ProgSt)
    (hp : MixedProg p) (ho : validOrder p order = true) (hs : Stratified p order) (hi : LatInputKeys p inp)
    (hnd : RelInputsNodup p inp)
    (hrun : run I {} p order fuel (initSt p inp) = .done ps)
    (hm : MonotoneProgA I L p (finalAggView p ps.st))
    (M : DB) (hMk : KeyUnique p M) (hM : LClosedA I L p (finalAggView p ps.st) (inputDB p inp) M) :
    DBLe I L p (factsOf ps.st) M :=
  run_mixed_least_of_viewOK I L p order inp fuel ps hp ho hs hi hrun
    (run_mixed_viewOK I L p order inp fuel ps hp ho hs hi hnd hrun) hm M hMk hM

/-- one row per lattice key in the final database (restating `run_mixed_lattice_key_unique` as `KeyUnique`) -/
theorem run_mixed_keyUnique (I : Interp E B G P A) (p : Program E B G P A) (order : SccOrder)
    (inp : RelId → List Tuple) (fuel : Nat) (ps : ProgSt)
    (hp : MixedProg p) (hi : LatInputKeys p inp)
    (hrun : run I {} p order fuel (initSt p inp) = .done ps) : KeyUnique p (factsOf ps.st) := by
  intro r t t' hl ht ht' hk
  have hl' : (declOf p r).lat = true := hl
  exact row_of_key (run_mixed_lattice_key_unique I p order inp fuel ps hp hi hrun r (lat_lt p hl') hl') ht ht' hk

/-! ## non-vacuity: `pDistAgg` (shortest distances, then `count` / `max` over them) -/

theorem distAgg_aggsOverLattices : aggsOverLattices pDistAgg = true := by decide

theorem distAgg_relInputsNodup : RelInputsNodup pDistAgg inpDistAgg := by
  have h : ∀ r, r < 4 → (declOf pDistAgg r).lat = false → (inpDistAgg r).Nodup := by decide
  exact h

/-- the run completes … -/
theorem distAgg_done :
    ∃ ps, run distAggI {} pDistAgg [[0], [1], [2]] 10 (initSt pDistAgg inpDistAgg) = .done ps := by
  have h := distAgg_run
  cases hr : run distAggI {} pDistAgg [[0], [1], [2]] 10 (initSt pDistAgg inpDistAgg) with
  | done ps => exact ⟨ps, rfl⟩
  | timedOut x => rw [hr] at h; simp [distAggDoneSt] at h
  | outOfFuel => rw [hr] at h; simp [distAggDoneSt] at h

/-- … and the aggregation view of the semantics is the three final `dist` rows (7, not the
intermediate 9), for `far` / `maxd` their own final rows -/
theorem distAgg_finalAggView :
    (distAggDoneSt (run distAggI {} pDistAgg [[0], [1], [2]] 10 (initSt pDistAgg inpDistAgg))).map
        (fun st => (finalAggView pDistAgg st 1, finalAggView pDistAgg st 2, finalAggView pDistAgg st 3)) =
      some ([[.int 1, .int 0], [.int 3, .int 7], [.int 2, .int 3]], [[.int 3]], [[.int 7]]) := by
  decide

/-- the theorems apply to the example, for every `LatOrder` of its interpretation (one exists:
`std_latOrder_maxmin`) -/
example (L : LatOrder distAggI) (ps : ProgSt)
    (h : run distAggI {} pDistAgg [[0], [1], [2]] 10 (initSt pDistAgg inpDistAgg) = .done ps) :
    KeyUnique pDistAgg (factsOf ps.st) ∧
    LClosedA distAggI L pDistAgg (finalAggView pDistAgg ps.st) (inputDB pDistAgg inpDistAgg) (factsOf ps.st) ∧
    (MonotoneProgA distAggI L pDistAgg (finalAggView pDistAgg ps.st) → ∀ M, KeyUnique pDistAgg M →
      LClosedA distAggI L pDistAgg (finalAggView pDistAgg ps.st) (inputDB pDistAgg inpDistAgg) M →
      DBLe distAggI L pDistAgg (factsOf ps.st) M) :=
  ⟨run_mixed_keyUnique distAggI pDistAgg _ inpDistAgg 10 ps distAgg_hyps.1 distAgg_inputKeys h,
   run_mixed_closed distAggI L pDistAgg _ inpDistAgg 10 ps distAgg_hyps.1 distAgg_hyps.2.1 distAgg_hyps.2.2.1
     distAgg_inputKeys distAgg_relInputsNodup h,
   fun hm M hMk hM => run_mixed_least distAggI L pDistAgg _ inpDistAgg 10 ps distAgg_hyps.1 distAgg_hyps.2.1
     distAgg_hyps.2.2.1 distAgg_inputKeys distAgg_relInputsNodup h hm M hMk hM⟩

/-- … and the `ViewOK` route applies as well (all aggregations of the example range over `dist`) -/
example (L : LatOrder distAggI) (ps : ProgSt)
    (h : run distAggI {} pDistAgg [[0], [1], [2]] 10 (initSt pDistAgg inpDistAgg) = .done ps) :
    LClosedA distAggI L pDistAgg (finalAggView pDistAgg ps.st) (inputDB pDistAgg inpDistAgg) (factsOf ps.st) :=
  run_mixed_closed_of_viewOK distAggI L pDistAgg _ inpDistAgg 10 ps distAgg_hyps.1 distAgg_hyps.2.1
    distAgg_hyps.2.2.1 distAgg_inputKeys h (viewOK_of_aggsOverLattices pDistAgg ps.st distAgg_aggsOverLattices)

example : ∃ L : LatOrder distAggI, L.le = stdLe fun _ => .minInt :=
  std_latOrder_maxmin (fun _ => .minInt) (fun _ => .inr rfl)

/-! ## axiom audit -/
#print axioms LClosedA_iff_of_aggFree
#print axioms MonotoneProgA_iff_of_aggFree
#print axioms aggOf_eq_finalAggView
#print axioms finalAggView_lattice
#print axioms run_mixed_closed_items
#print axioms run_mixed_least_items
#print axioms LClosedI_iff_LClosedA
#print axioms MonoI_iff_MonotoneProgA
#print axioms run_mixed_viewOK
#print axioms run_mixed_closed_of_viewOK
#print axioms run_mixed_least_of_viewOK
#print axioms run_mixed_closed
#print axioms run_mixed_least
#print axioms run_mixed_keyUnique
#print axioms viewOK_of_aggsOverLattices
#print axioms distAgg_relInputsNodup
#print axioms distAgg_done
#print axioms distAgg_finalAggView

end AscentVerif.Engine
