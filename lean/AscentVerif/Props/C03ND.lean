import AscentVerif.Proofs.NDLattice
/-!
# C03 — every processing order and every moment of reading reaches the least fixed point

`Props/C03.lean` is about the deterministic engine model: rule variants in a fixed order, each evaluated against a SNAPSHOT
of the state taken when it starts.  The generated code walks the frozen `total` / `delta` indices in hash order and reads the
rows LIVE, while other head updates of the same pass improve their lattice values in place.  `Proofs/NDLattice.lean` gives the
engine as a relation that covers both (and everything in between): a pass is a trace of micro-steps, each processing some
rule-variant instance whose row values are read in ANY state the pass has already been through, complete on the stable part
of its final state (instances over rows that were not re-queued, hence did not change during the pass).

* `ndl_least_fixed_point` — every execution of the nondeterministic lattice engine ends with one row per lattice key,
  closed under the rules over the FINAL values, below every closed key-unique database if the program uses lattice values
  monotonically, and with the relation rows a set (inputs first);
* `deterministic_is_ndl` — the deterministic engine is one such execution.
All statements are proved.
-/
namespace AscentVerif.Engine
open AscentVerif

variable {E B G P A : Type}

/-- **any order, any reading moment: the least fixed point** -/
theorem ndl_least_fixed_point (I : Interp E B G P A) (L : LatOrder I) (p : Program E B G P A) (order : SccOrder)
    (inp : RelId → List Tuple) (s' : St)
    (hp : LatticeProg p) (ho : validOrder p order = true) (hi : InputOK p inp)
    (hrun : RunNDL I p order (initSt p inp) s') :
    (∀ r, r < p.rels.length → (declOf p r).lat = true → ((relSt s' r).rows.map keyOf).Nodup) ∧
    LClosed I L p (inputDB p inp) (factsOf s') ∧
    (MonotoneProg I L p → ∀ M : DB, KeyUnique p M → LClosed I L p (inputDB p inp) M → DBLe I L p (factsOf s') M) ∧
    (∀ r, r < p.rels.length → (declOf p r).lat = false → ∃ derived : List Tuple,
      (relSt s' r).rows = inp r ++ derived ∧ derived.Nodup ∧ ∀ t ∈ derived, t ∉ inp r) :=
  runNDL_spec I L p order inp s' hp ho hi hrun

/-- the deterministic engine (snapshot at variant start, fixed order) is one execution of the nondeterministic one -/
theorem deterministic_is_ndl (I : Interp E B G P A) (p : Program E B G P A) (order : SccOrder) (inp : RelId → List Tuple)
    (fuel : Nat) (ps : ProgSt) (hp : LatticeProg p)
    (hrun : run I {} p order fuel (initSt p inp) = .done ps) : RunNDL I p order (initSt p inp) ps.st :=
  run_is_NDL I p order inp fuel ps hp hrun

/-! ## axiom audit -/
#print axioms ndl_least_fixed_point
#print axioms deterministic_is_ndl

end AscentVerif.Engine
