import AscentVerif.Proofs.C08Sem
/-!
# C08, semantic corollary: the implemented macro expansion and the ideal expansion have the same documented meaning

`expand_hygienic` (Props/C08.lean) is syntactic: `out = renItems ops true τ ideal` for a renaming `τ` that fixes the call-site
variables and is injective on the variables of the ideal expansion.  Here: renaming the variables of a surface body injectively
does not change its documented one-step consequences (`ConsS`, Model/Surface.lean), hence the rule with the implemented expansion
as body and the rule with the ideal expansion as body derive the same facts.

* `Sem.RenLaw I ops varsB varsG` (Proofs/C08Sem.lean) is the only semantic hypothesis: evaluating a renamed expression / test /
  generator in the renamed environment gives the old value, for a renaming that is injective on the variables of the expression
  and the variables the environment binds (the analogue of `Engine.RenSound` of C06, which is stated for a globally injective
  renaming).  It follows from the usual renaming lemma of a semantics (`Sem.SubstLaw`, `Sem.RenLaw.of_subst`) and holds for the
  expression language of the executable ties (`Sem.stdOps_renLaw`).
* `Sem.satS_rename`: renaming invariance of the documented meaning `SatS` of a body (disjunctions, `?pattern` and wildcard
  arguments, repeated variables, negation, aggregation, generators, attached conditions), for a renaming `τ` that is injective
  on a set `S` containing the variables of the body and of the start environment.
* `Sem.consS_rename`: … hence of the one-step consequences `ConsS`, when `τ` fixes the variables of the head clauses.
* `expand_hygienic_sem`: the main theorem.  The renaming provided by the hygiene proof (`hyg_body`) is injective on
  `{v | v < reservedBase} ∪ vars ideal` (not globally; no extension to a global injection is needed, and neither `VarsSound`
  nor the hypothesis `hbind` of `ideal_vars`).  Macro bodies may carry conditions attached to their clauses (since fix 3a6dc9a of
  finding F25 the restriction is gone from `HygienicDefs`); `SemExampleAttached` is the former F25 witness as an instance.
Everything is proved.
-/
namespace AscentVerif.Surface
open AscentVerif AscentVerif.Engine

variable {E B G P A : Type}

namespace Sem

section
variable {I : Interp E B G P A} {ops : Ops E B G A} {varsB : B → List Var} {varsG : G → List Var}
  {τ : Var → Var} {S : Var → Prop}

/-- **renaming invariance of the documented meaning of a body**: the runs of the renamed body from the renamed environment are
exactly the renamings of the runs of the body -/
theorem satS_rename (hR : RenLaw I ops varsB varsG) (hτ : InjOn τ S) (items : SItems E B G P A (MInv E))
    (hv : ∀ v ∈ varsItems ops varsB varsG items, S v) (hok : aggOkItems items) (D : DB) (agg : RelId → List Tuple)
    (ρ : Env) (hk : Keys S ρ) (σ : Env) :
    SatS I D agg (renItems ops true τ items) (renEnv τ ρ) σ ↔ ∃ ρ', σ = renEnv τ ρ' ∧ Keys S ρ' ∧ SatS I D agg items ρ ρ' := by
  constructor
  · intro h
    obtain ⟨ρ', e, h'⟩ := satS_ren_inv hR hτ items ρ σ hv hok hk h
    exact ⟨ρ', e, satS_keys items ρ ρ' hv hk h', h'⟩
  · rintro ⟨ρ', rfl, _, h'⟩
    exact satS_ren hR hτ items ρ ρ' hv hok hk h'

/-- a head clause whose variables `τ` fixes denotes the same fact in the renamed environment -/
theorem headFact_ren_fix (hL : OpsLaws ops) (hR : RenLaw I ops varsB varsG) (hτ : InjOn τ S) {ρ : Env} (hk : Keys S ρ)
    (hc : HeadClause E) (hv : ∀ e ∈ hc.args, ∀ v ∈ ops.varsE e, S v ∧ τ v = v) :
    headFact I hc (renEnv τ ρ) = headFact I hc ρ := by
  simp only [headFact, Fact.mk.injEq, true_and]
  apply List.map_congr_left
  intro e he
  have h1 : renE ops τ e = e := by
    rw [renE_congr hL (τ' := id) (fun v hv' => (hv e he v hv').2), renE_id hL]
  have h2 := hR.expr_on hτ hk (e := e) (fun v hv' => (hv e he v hv').1)
  rw [h1] at h2
  exact h2

/-- **renaming invariance of the one-step consequences of a surface rule**: `τ` is injective on a set `S` that contains the
variables of the body and of the head clauses, and fixes the variables of the head clauses -/
theorem consS_rename (hL : OpsLaws ops) (hR : RenLaw I ops varsB varsG) (hτ : InjOn τ S)
    (heads : List (SHead E (MInv E)))
    (hheads : ∀ hc, SHead.clause hc ∈ heads → ∀ e ∈ hc.args, ∀ v ∈ ops.varsE e, S v ∧ τ v = v)
    (items : SItems E B G P A (MInv E)) (hv : ∀ v ∈ varsItems ops varsB varsG items, S v) (hok : aggOkItems items)
    (agg : RelId → List Tuple) (D : DB) (f : Fact) :
    ConsS I { heads := heads, body := renItems ops true τ items } agg D f ↔ ConsS I { heads := heads, body := items } agg D f := by
  constructor
  · rintro ⟨σ, hs, hc, hmem, rfl⟩
    have hs' : SatS I D agg (renItems ops true τ items) (renEnv τ []) σ := hs
    obtain ⟨ρ', rfl, hs0⟩ := satS_ren_inv hR hτ items [] σ hv hok (Keys.nil S) hs'
    have hk := satS_keys items [] ρ' hv (Keys.nil S) hs0
    exact ⟨ρ', hs0, hc, hmem, headFact_ren_fix hL hR hτ hk hc (hheads hc hmem)⟩
  · rintro ⟨ρ, hs, hc, hmem, rfl⟩
    have hs' : SatS I D agg items [] ρ := hs
    have hk := satS_keys items [] ρ hv (Keys.nil S) hs'
    exact ⟨renEnv τ ρ, satS_ren hR hτ items [] ρ hv hok (Keys.nil S) hs', hc, hmem,
      (headFact_ren_fix hL hR hτ hk hc (hheads hc hmem)).symm⟩

/-- the special case of a globally injective renaming -/
theorem consS_rename_injective (hL : OpsLaws ops) (hR : RenLaw I ops varsB varsG) (hτ : Function.Injective τ)
    (heads : List (SHead E (MInv E)))
    (hheads : ∀ hc, SHead.clause hc ∈ heads → ∀ e ∈ hc.args, ∀ v ∈ ops.varsE e, τ v = v)
    (items : SItems E B G P A (MInv E)) (hok : aggOkItems items) (agg : RelId → List Tuple) (D : DB) (f : Fact) :
    ConsS I { heads := heads, body := renItems ops true τ items } agg D f ↔ ConsS I { heads := heads, body := items } agg D f :=
  consS_rename (varsB := varsB) (varsG := varsG) (S := fun _ => True) hL hR (InjOn.of_injective hτ _) heads
    (fun hc hm e he v hv => ⟨trivial, hheads hc hm e he v hv⟩) items (fun _ _ => trivial) hok agg D f

end

/-! ## the aggregations of the ideal expansion are those of the call site -/

theorem aggOkItems_append : ∀ (xs ys : SItems E B G P A (MInv E)), aggOkItems xs → aggOkItems ys → aggOkItems (xs.append ys)
  | .nil, _, _, h => h
  | .cons i rest, ys, hx, hy => by
    simp only [SItems.append, aggOkItems] at hx ⊢
    exact ⟨hx.1, aggOkItems_append rest ys hx.2 hy⟩

def IdealAggRec (recur : Nat → SItems E B G P A (MInv E) → Except ExpandErr (SItems E B G P A (MInv E) × Nat)) : Prop :=
  ∀ n items ideal n', recur n items = .ok (ideal, n') → aggOkItems items → aggOkItems ideal

theorem idealAlts_aggOk {recur : Nat → SItems E B G P A (MInv E) → Except ExpandErr (SItems E B G P A (MInv E) × Nat)}
    (hrec : IdealAggRec recur) : ∀ (alts : SAlts E B G P A (MInv E)) (n : Nat) alts' n',
      expandAltsWith recur n alts = .ok (alts', n') → aggOkAlts alts → aggOkAlts alts'
  | .nil, n, alts', n', h, _ => by
    cases h
    trivial
  | .cons a rest, n, alts', n', h, hok => by
    obtain ⟨a', n1, rest', h1, h2, h3⟩ := expandAltsWith_cons_ok h
    simp only at h2 h3
    subst h3
    simp only [aggOkAlts] at hok ⊢
    exact ⟨hrec n a a' n1 h1 hok.1, idealAlts_aggOk hrec rest n1 rest' n' h2 hok.2⟩

theorem idealItemsWith_aggOk {ops : Ops E B G A} {defs : Defs E B G P A} (hnoagg : ∀ d ∈ defs, noAggItems d.body = true)
    {recur : Nat → SItems E B G P A (MInv E) → Except ExpandErr (SItems E B G P A (MInv E) × Nat)}
    (hrec : IdealAggRec recur) : ∀ (items : SItems E B G P A (MInv E)) (n : Nat) ideal n',
      idealItemsWith ops defs recur n items = .ok (ideal, n') → aggOkItems items → aggOkItems ideal
  | .nil, n, ideal, n', h, _ => by
    cases h
    trivial
  | .cons i rest, n, ideal, n', h, hok => by
    obtain ⟨is, n1, rest', h1, h2, h3⟩ := idealItemsWith_cons_ok h
    simp only at h2 h3
    subst h3
    simp only [aggOkItems] at hok
    have h2' := idealItemsWith_aggOk hnoagg hrec rest n1 rest' n' h2 hok.2
    have hone : aggOkItems is := by
      cases i with
      | flat f =>
        cases h1
        simp only [aggOkItems, and_true]
        exact hok.1
      | disj alts =>
        obtain ⟨alts', h1', h2'⟩ := idealOne_disj_ok h1
        simp only at h1' h2'
        subst h2'
        simp only [aggOkItems, aggOkItem, and_true]
        exact idealAlts_aggOk hrec alts n alts' n1 h1' (by simpa only [aggOkItem] using hok.1)
      | mac inv =>
        obtain ⟨d, hd, _, hr⟩ := idealOne_mac_ok h1
        have hdm : d ∈ defs := List.mem_of_getElem? hd
        refine hrec _ _ _ _ hr (aggOkItems_of_noAgg _ ?_)
        rw [noAggItems_inst]
        exact hnoagg d hdm
    exact aggOkItems_append is rest' hone h2'

theorem idealBody_aggOk (ops : Ops E B G A) {defs : Defs E B G P A} (hnoagg : ∀ d ∈ defs, noAggItems d.body = true) :
    ∀ d, IdealAggRec (idealBody ops defs d)
  | 0 => by
    intro n items ideal n' h _
    cases items with
    | nil => cases h; trivial
    | cons i rest => cases h
  | d + 1 => fun n items ideal n' h hok => idealItemsWith_aggOk hnoagg (idealBody_aggOk ops hnoagg d) items n ideal n' h hok

/-! ## the renaming law holds for the expression language of the executable ties -/

theorem evalEx_ren (τ : Var → Var) (ρ ρ' : Env) (e : Std.Ex) (h : ∀ v ∈ Std.varsEx e, Env.get? ρ' (τ v) = Env.get? ρ v) :
    Std.evalEx ρ' (Std.subEx (fun x => .var (τ x)) e) = Std.evalEx ρ e := by
  induction e with
  | const v => rfl
  | var x => simp only [Std.subEx, Std.evalEx, h x (by simp [Std.varsEx])]
  | add a b iha ihb | sub a b iha ihb | mul a b iha ihb | min a b iha ihb | max a b iha ihb =>
    simp only [Std.varsEx, List.mem_append] at h
    simp only [Std.subEx, Std.evalEx, iha (fun v hv => h v (.inl hv)), ihb (fun v hv => h v (.inr hv))]
  | some a iha | single a iha =>
    simp only [Std.varsEx] at h
    simp only [Std.subEx, Std.evalEx, iha h]

theorem evalBx_ren (τ : Var → Var) (ρ ρ' : Env) (b : Std.Bx) (h : ∀ v ∈ Std.varsBx b, Env.get? ρ' (τ v) = Env.get? ρ v) :
    Std.evalBx ρ' (Std.subBx (fun x => .var (τ x)) b) = Std.evalBx ρ b := by
  induction b with
  | tt => rfl
  | lt a b | le a b | eq a b | ne a b =>
    simp only [Std.varsBx, List.mem_append] at h
    simp only [Std.subBx, Std.evalBx, evalEx_ren τ ρ ρ' a (fun v hv => h v (.inl hv)), evalEx_ren τ ρ ρ' b (fun v hv => h v (.inr hv))]
  | and a b iha ihb | or a b iha ihb =>
    simp only [Std.varsBx, List.mem_append] at h
    simp only [Std.subBx, Std.evalBx, iha (fun v hv => h v (.inl hv)), ihb (fun v hv => h v (.inr hv))]
  | not a iha =>
    simp only [Std.varsBx] at h
    simp only [Std.subBx, Std.evalBx, iha h]

theorem evalGx_ren (τ : Var → Var) (ρ ρ' : Env) (g : Std.Gx) (h : ∀ v ∈ Std.varsGx g, Env.get? ρ' (τ v) = Env.get? ρ v) :
    Std.evalGx ρ' (Std.subGx (fun x => .var (τ x)) g) = Std.evalGx ρ g := by
  cases g with
  | range lo hi =>
    simp only [Std.varsGx, List.mem_append] at h
    simp only [Std.subGx, Std.evalGx, evalEx_ren τ ρ ρ' lo (fun v hv => h v (.inl hv)), evalEx_ren τ ρ ρ' hi (fun v hv => h v (.inr hv))]
  | list xs =>
    simp only [Std.varsGx, List.mem_flatMap] at h
    simp only [Std.subGx, Std.evalGx, List.map_map]
    apply List.map_congr_left
    intro e he
    exact evalEx_ren τ ρ ρ' e (fun v hv => h v ⟨e, he, hv⟩)

theorem stdOps_substLaw (kinds : RelId → Std.LatKind) : SubstLaw (Std.interp kinds) Std.stdOps Std.varsBx Std.varsGx where
  expr τ e ρ ρ' h := evalEx_ren τ ρ ρ' e h
  test τ b ρ ρ' h := evalBx_ren τ ρ ρ' b h
  gen τ g ρ ρ' h := evalGx_ren τ ρ ρ' g h

/-- the renaming law is satisfiable: it holds for the concrete interpretation of the executable ties -/
theorem stdOps_renLaw (kinds : RelId → Std.LatKind) : RenLaw (Std.interp kinds) Std.stdOps Std.varsBx Std.varsGx :=
  RenLaw.of_subst (stdOps_substLaw kinds)

end Sem

/-- **C08 (semantics)**: the rule whose body is the IMPLEMENTED macro expansion and the rule whose body is the IDEAL expansion have
the same documented one-step consequences, for every database, every aggregated-relation oracle and every interpretation that
satisfies the renaming law.  The head clauses mention user-written names only (below `reservedBase`; head macro invocations
contribute nothing to `ConsS` and are not restricted). -/
theorem expand_hygienic_sem (I : Interp E B G P A) (ops : Ops E B G A) {varsB : B → List Var} {varsG : G → List Var}
    (hL : OpsLaws ops) (hVL : VarsLaws ops varsB varsG) (hR : Sem.RenLaw I ops varsB varsG)
    (defs : Defs E B G P A) (hH : HygienicDefs ops varsB varsG defs)
    (hpar : ∀ d ∈ defs, paramBase + d.params.length ≤ reservedBase)
    (heads : List (SHead E (MInv E)))
    (hheads : ∀ hc, SHead.clause hc ∈ heads → ∀ e ∈ hc.args, ∀ v ∈ ops.varsE e, v < reservedBase)
    (items : SItems E B G P A (MInv E)) (hsite : ∀ v ∈ varsItems ops varsB varsG items, v < paramBase) (hagg : aggOkItems items)
    (d : Nat) (out ideal : SItems E B G P A (MInv E)) (st' : ExpSt) (n' : Nat)
    (h1 : expandBody ops defs false d {} items = .ok (out, st')) (h2 : idealBody ops defs d 0 items = .ok (ideal, n'))
    (agg : RelId → List Tuple) (D : DB) (f : Fact) :
    ConsS I { heads := heads, body := out } agg D f ↔ ConsS I { heads := heads, body := ideal } agg D f := by
  have hsite' : ∀ v ∈ varsItems ops varsB varsG items, QV 0 v :=
    fun v hv => .inl (Nat.lt_trans (hsite v hv) paramBase_lt_reservedBase)
  have h' : HygRel ops varsB varsG {} (expandBody ops defs false d {} items) (idealBody ops defs d 0 items) :=
    hyg_body hL hVL hH hpar d {} items hsite' hagg
  rw [h1, h2] at h'
  simp only [HygRel] at h'
  obtain ⟨_, _, τ, hτ, rfl⟩ := h'
  have hvars : ∀ v ∈ varsItems ops varsB varsG ideal, QV 0 v ∨ TagIn 0 n' v :=
    (idealBody_vars hVL hH d (QV 0) (binderOK_QV hH hpar 0) 0 items ideal n' hsite' h2).2
  have hfix : ∀ v, v < reservedBase → τ v = v := fun v hv => hτ.fix v (.inl hv)
  have hcase : ∀ v ∈ varsItems ops varsB varsG ideal, τ v = v ∨ reservedBase ≤ τ v := by
    intro v hv
    rcases hvars v hv with hq | ht
    · exact .inl (hτ.fix v hq)
    · obtain ⟨k, _, _, e⟩ := hτ.fresh v hv ht
      right
      rw [e]
      exact gsMac_ge k
  have hinj : Sem.InjOn τ (fun v => v < reservedBase ∨ v ∈ varsItems ops varsB varsG ideal) := by
    intro v w hv hw e
    rcases hv with hv | hv <;> rcases hw with hw | hw
    · rw [hfix v hv, hfix w hw] at e; exact e
    · rcases hcase w hw with h | h
      · rw [hfix v hv, h] at e; exact e
      · have := hfix v hv
        unfold Var at *
        omega
    · rcases hcase v hv with h | h
      · rw [hfix w hw, h] at e; exact e
      · have := hfix w hw
        unfold Var at *
        omega
    · exact hτ.inj v hv w hw e
  exact Sem.consS_rename hL hR hinj heads
    (fun hc hm e he v hv => ⟨.inl (hheads hc hm e he v hv), hfix v (hheads hc hm e he v hv)⟩)
    ideal (fun v hv => .inr hv) (Sem.idealBody_aggOk ops (fun d hd => (hH d hd).1) d 0 items ideal n' h2 hagg) agg D f

/-- the main theorem for the expression language of the executable ties (all its hypotheses about `ops` / `I` are discharged) -/
theorem expand_hygienic_sem_std (kinds : RelId → Std.LatKind)
    (defs : Defs Std.Ex Std.Bx Std.Gx Std.Px Std.Ax) (hH : HygienicDefs Std.stdOps Std.varsBx Std.varsGx defs)
    (hpar : ∀ d ∈ defs, paramBase + d.params.length ≤ reservedBase)
    (heads : List (SHead Std.Ex (MInv Std.Ex)))
    (hheads : ∀ hc, SHead.clause hc ∈ heads → ∀ e ∈ hc.args, ∀ v ∈ Std.varsEx e, v < reservedBase)
    (items : SItems Std.Ex Std.Bx Std.Gx Std.Px Std.Ax (MInv Std.Ex))
    (hsite : ∀ v ∈ varsItems Std.stdOps Std.varsBx Std.varsGx items, v < paramBase) (hagg : aggOkItems items)
    (d : Nat) (out ideal : SItems Std.Ex Std.Bx Std.Gx Std.Px Std.Ax (MInv Std.Ex)) (st' : ExpSt) (n' : Nat)
    (h1 : expandBody Std.stdOps defs false d {} items = .ok (out, st')) (h2 : idealBody Std.stdOps defs d 0 items = .ok (ideal, n'))
    (agg : RelId → List Tuple) (D : DB) (f : Fact) :
    ConsS (Std.interp kinds) { heads := heads, body := out } agg D f ↔
      ConsS (Std.interp kinds) { heads := heads, body := ideal } agg D f :=
  expand_hygienic_sem (Std.interp kinds) Std.stdOps stdOps_opsLaws stdOps_varsLaws (Sem.stdOps_renLaw kinds) defs hH hpar heads hheads
    items hsite hagg d out ideal st' n' h1 h2 agg D f

/-! ## the hypotheses are satisfiable: a macro with a local variable, in the expression language of the ties -/
namespace SemExample
open AscentVerif.Std

/-- `macro m0($p0: ident) { r0(v0, $p0), if v0 < 5 }` -/
def defs : Defs Ex Bx Gx Px Ax :=
  [{ params := [.ident], body := .cons (.flat (.clause 0 [.var 0, .var paramBase] []))
      (.cons (.flat (.cond (.ifc (.lt (.var 0) (.const (.int 5)))))) .nil), heads := [] }]

/-- `r2(v0, v1) <-- r1(v0), m0!(v1)`: the call site has its own `v0` -/
def site : SItems Ex Bx Gx Px Ax (MInv Ex) := .cons (.flat (.clause 1 [.var 0] [])) (.cons (.mac ⟨0, [.ident 1]⟩) .nil)
def heads : List (SHead Ex (MInv Ex)) := [.clause ⟨2, [.var 0, .var 1]⟩]

/-- implemented: the macro's `v0` became `__x_` (`gsMac 0`) -/
def out : SItems Ex Bx Gx Px Ax (MInv Ex) :=
  .cons (.flat (.clause 1 [.var 0] [])) (.cons (.flat (.clause 0 [.var (gsMac 0), .var 1] []))
    (.cons (.flat (.cond (.ifc (.lt (.var (gsMac 0)) (.const (.int 5)))))) .nil))
/-- ideal: the macro's `v0` is `tagVar 0 0` -/
def ideal : SItems Ex Bx Gx Px Ax (MInv Ex) :=
  .cons (.flat (.clause 1 [.var 0] [])) (.cons (.flat (.clause 0 [.var (tagVar 0 0), .var 1] []))
    (.cons (.flat (.cond (.ifc (.lt (.var (tagVar 0 0)) (.const (.int 5)))))) .nil))

theorem expand_out : expandBody stdOps defs false macroDepth {} site = .ok (out, { inv := 1, gs := 1 }) := by rfl
theorem expand_ideal : idealBody stdOps defs macroDepth 0 site = .ok (ideal, 1) := by rfl

theorem hyps : HygienicDefs stdOps varsBx varsGx defs ∧ (∀ d ∈ defs, paramBase + d.params.length ≤ reservedBase) ∧
    (∀ hc, SHead.clause hc ∈ heads → ∀ e ∈ hc.args, ∀ v ∈ varsEx e, v < reservedBase) ∧
    (∀ v ∈ varsItems stdOps varsBx varsGx site, v < paramBase) ∧ aggOkItems site := by
  refine ⟨?_, ?_, ?_, ?_, ?_⟩
  · intro d hd
    simp only [defs, List.mem_singleton] at hd
    subst hd
    simp [noAggItems, noAggItem, varsItems, varsItem, varsFItem, varsCond, varsBx, varsEx, stdOps, boundVarsS, boundVarsI, boundVarsF, paramBase]
  · intro d hd
    simp only [defs, List.mem_singleton] at hd
    subst hd
    decide
  · intro hc hm e he v hv
    simp only [heads, List.mem_singleton, SHead.clause.injEq] at hm
    subst hm
    simp only [List.mem_cons, List.not_mem_nil, or_false] at he
    rcases he with rfl | rfl <;> simp only [varsEx, List.mem_singleton] at hv <;> subst hv <;> decide
  · intro v hv
    simp [site, varsItems, varsItem, varsFItem, varsMInv, stdOps] at hv
    rcases hv with rfl | rfl <;> decide
  · simp [site, aggOkItems, aggOkItem, aggOkF]

/-- the instance of the main theorem: the two (different) bodies derive the same facts -/
theorem same_consequences (kinds : RelId → LatKind) (agg : RelId → List Tuple) (D : DB) (f : Fact) :
    ConsS (interp kinds) { heads := heads, body := out } agg D f ↔ ConsS (interp kinds) { heads := heads, body := ideal } agg D f :=
  expand_hygienic_sem_std kinds defs hyps.1 hyps.2.1 heads hyps.2.2.1 site hyps.2.2.2.1 hyps.2.2.2.2 macroDepth out ideal _ _
    expand_out expand_ideal agg D f

end SemExample

/-! ## the former F25 program (a condition ATTACHED to the clause of a macro body), in the expression language of the ties:
since fix 3a6dc9a it is an instance of the main theorem -/
namespace SemExampleAttached
open AscentVerif.Std

/-- `macro m0($p0: ident) { r0(v0, $p0) if 0 < v0 }` (the witness of finding F25: `foo(t, $y) if *t > 0`) -/
def defs : Defs Ex Bx Gx Px Ax :=
  [{ params := [.ident], body := .cons (.flat (.clause 0 [.var 0, .var paramBase] [.ifc (.lt (.const (.int 0)) (.var 0))])) .nil, heads := [] }]

/-- `r2(v0, v1) <-- r1(v0), m0!(v1)`: the call site has its own `v0` -/
def site : SItems Ex Bx Gx Px Ax (MInv Ex) := .cons (.flat (.clause 1 [.var 0] [])) (.cons (.mac ⟨0, [.ident 1]⟩) .nil)
def heads : List (SHead Ex (MInv Ex)) := [.clause ⟨2, [.var 0, .var 1]⟩]

/-- implemented: the macro's `v0` became `__v0_` (`gsMac 0`) in the clause AND in the attached condition -/
def out : SItems Ex Bx Gx Px Ax (MInv Ex) :=
  .cons (.flat (.clause 1 [.var 0] []))
    (.cons (.flat (.clause 0 [.var (gsMac 0), .var 1] [.ifc (.lt (.const (.int 0)) (.var (gsMac 0)))])) .nil)
/-- ideal: the macro's `v0` is `tagVar 0 0` -/
def ideal : SItems Ex Bx Gx Px Ax (MInv Ex) :=
  .cons (.flat (.clause 1 [.var 0] []))
    (.cons (.flat (.clause 0 [.var (tagVar 0 0), .var 1] [.ifc (.lt (.const (.int 0)) (.var (tagVar 0 0)))])) .nil)

theorem expand_out : expandBody stdOps defs false macroDepth {} site = .ok (out, { inv := 1, gs := 1 }) := by rfl
theorem expand_ideal : idealBody stdOps defs macroDepth 0 site = .ok (ideal, 1) := by rfl

theorem hyps : HygienicDefs stdOps varsBx varsGx defs ∧ (∀ d ∈ defs, paramBase + d.params.length ≤ reservedBase) ∧
    (∀ hc, SHead.clause hc ∈ heads → ∀ e ∈ hc.args, ∀ v ∈ varsEx e, v < reservedBase) ∧
    (∀ v ∈ varsItems stdOps varsBx varsGx site, v < paramBase) ∧ aggOkItems site := by
  refine ⟨?_, ?_, ?_, ?_, ?_⟩
  · intro d hd
    simp only [defs, List.mem_singleton] at hd
    subst hd
    simp [noAggItems, noAggItem, varsItems, varsItem, varsFItem, varsCond, varsBx, varsEx, stdOps, boundVarsS, boundVarsI, boundVarsF, paramBase]
  · intro d hd
    simp only [defs, List.mem_singleton] at hd
    subst hd
    decide
  · intro hc hm e he v hv
    simp only [heads, List.mem_singleton, SHead.clause.injEq] at hm
    subst hm
    simp only [List.mem_cons, List.not_mem_nil, or_false] at he
    rcases he with rfl | rfl <;> simp only [varsEx, List.mem_singleton] at hv <;> subst hv <;> decide
  · intro v hv
    simp [site, varsItems, varsItem, varsFItem, varsMInv, stdOps] at hv
    rcases hv with rfl | rfl <;> decide
  · simp [site, aggOkItems, aggOkItem, aggOkF]

/-- the rule with the implemented expansion and the rule with the ideal expansion derive the same facts -/
theorem same_consequences (kinds : RelId → LatKind) (agg : RelId → List Tuple) (D : DB) (f : Fact) :
    ConsS (interp kinds) { heads := heads, body := out } agg D f ↔ ConsS (interp kinds) { heads := heads, body := ideal } agg D f :=
  expand_hygienic_sem_std kinds defs hyps.1 hyps.2.1 heads hyps.2.2.1 site hyps.2.2.2.1 hyps.2.2.2.2 macroDepth out ideal _ _
    expand_out expand_ideal agg D f

end SemExampleAttached

end AscentVerif.Surface

section axioms_check
open AscentVerif.Surface
#print axioms Sem.satS_rename
#print axioms Sem.consS_rename
#print axioms Sem.consS_rename_injective
#print axioms Sem.RenLaw.of_subst
#print axioms Sem.stdOps_renLaw
#print axioms Sem.idealBody_aggOk
#print axioms expand_hygienic_sem
#print axioms expand_hygienic_sem_std
#print axioms SemExample.same_consequences
#print axioms SemExampleAttached.same_consequences
end axioms_check
