import AscentVerif.Spec.Datalog
import AscentVerif.Spec.EqClosure
import AscentVerif.Model.StdInterp
import AscentVerif.Proofs.EqRelProvider
/-!
# C10 — `#[ds(eqrel)]` behaves as its explicit closure

Part (a), specification level.  The *explicit-closure twin* of a program with a tagged relation `t`
is the same program with `t` untagged plus the closure rules (`eqRules2` for `t(T,T)`, `eqRules3`
for `t(K,T,T)`; the same rules `tools/vlib/eng.py: closure_rules` appends — the Lean driver op
`eqtwin` compares them on every twin the check generates).  For EVERY program, interpretation,
aggregation environment and input, the least model of the twin restricted to `t` is exactly the
equivalence closure (`Spec/EqClosure.lean`: least symmetric transitive relation, reflexive on
mentioned elements; per key for the ternary form) of the tuples the *other* rules insert into `t`
(inputs of `t` and one-step consequences of the program's own rules over the least model).
Both directions, binary and ternary.  That every rule reading `t` derives what it would derive from
the explicit relation is immediate at this level: the twin *is* the program over the explicit relation.

Part (b), the provider.  `Model/EqRelInd.lean` models union_find.rs `EqRel` and eqrel_ind.rs
`EqRelIndCommon` with the new / delta / total protocol of generated code (tied to the real serial AND
parallel types by op sequences, `./check C10`).  Proved, for EVERY op sequence (inserts into `new`
interleaved with merges) from the empty triple: no panic, and the **provider contract** — total holds
`T`, delta holds `D \ T`, `new` denotes `closure(N)` where a merge performs `T := D; D := closure(D ∪ N);
N := ∅` (`provider_run_contract`, `provider_all_inserted`: total ∪ delta ∪ new is the closure of everything
inserted); `insert_if_not_present` returns `true` iff the pair is not in the closure of what `new` holds;
`contains_key`, `iter_all` of the full index and of the no-column view and `index_get` of view [0] read
exactly the version's content; `iter_all` of view [0] reads `combined` without subtracting `old`
(`provider_iter_all_0_overapprox`: exact on total, total ∪ delta on delta — the one place where the code
over-approximates the contract); the head-update guard of generated code is exact (`provider_head_guard`).
Underneath: `EqRel.add` / `combine` / `contains` / `iter_all` / `set_of` meet their closure specifications
under an invariant that holds initially and is preserved (`eqrel_add_spec`, `eqrel_combine_spec`, …).

UNPROVED (not modelled): the ternary provider eqrel_ternary.rs — it violates the contract (findings F6, F21,
F22, exhibited by `./check C10`), so the corresponding statements are false; duplicate-freeness of the
iterators (each tuple once) is checked by the tie (outputs are compared with multiplicity), not proved;
real parallel interleavings of `ceqrel_ind.rs` (the model is sequential: one `Mutex`-guarded `add` at a time).
-/
namespace AscentVerif.C10
open AscentVerif

variable {E B G P A : Type}

/-- `varE v` is an expression denoting the variable `v` (in the concrete interpretation: `Ex.var`) -/
def IsVarExpr (I : Interp E B G P A) (varE : Var → E) : Prop :=
  ∀ v ρ, I.expr (varE v) ρ = (ρ.get? v).getD .unit

/-- closure rules of a binary tagged relation, as printed by `eng.closure_rules(r, 2, "eqrel")` -/
def eqRules2 (varE : Var → E) (t : RelId) : List (Rule E B G P A) :=
  [ { heads := [⟨t, [varE 0, varE 0]⟩, ⟨t, [varE 1, varE 1]⟩], body := [.clause t [.var 0, .var 1] []] },
    { heads := [⟨t, [varE 1, varE 0]⟩], body := [.clause t [.var 0, .var 1] []] },
    { heads := [⟨t, [varE 0, varE 2]⟩], body := [.clause t [.var 0, .var 1] [], .clause t [.var 1, .var 2] []] } ]

/-- closure rules of a ternary tagged relation `t(K,T,T)` (key variable 9), `eng.closure_rules(r, 3, "eqrel")` -/
def eqRules3 (varE : Var → E) (t : RelId) : List (Rule E B G P A) :=
  [ { heads := [⟨t, [varE 9, varE 0, varE 0]⟩, ⟨t, [varE 9, varE 1, varE 1]⟩], body := [.clause t [.var 9, .var 0, .var 1] []] },
    { heads := [⟨t, [varE 9, varE 1, varE 0]⟩], body := [.clause t [.var 9, .var 0, .var 1] []] },
    { heads := [⟨t, [varE 9, varE 0, varE 2]⟩],
      body := [.clause t [.var 9, .var 0, .var 1] [], .clause t [.var 9, .var 1, .var 2] []] } ]

/-! ## one-step consequences: monotone, and split over `++` -/

theorem cons_mono {I : Interp E B G P A} {rules : List (Rule E B G P A)} {agg : RelId → List Tuple} {D D' : DB}
    (h : ∀ f, D f → D' f) {f : Fact} : Cons I rules agg D f → Cons I rules agg D' f := by
  rintro ⟨r, hr, ρ, hs, hd⟩
  exact ⟨r, hr, ρ, Sat.mono h hs, hd⟩

theorem cons_append {I : Interp E B G P A} {r1 r2 : List (Rule E B G P A)} {agg : RelId → List Tuple} {D : DB} {f : Fact} :
    Cons I (r1 ++ r2) agg D f ↔ Cons I r1 agg D f ∨ Cons I r2 agg D f := by
  constructor
  · rintro ⟨r, hr, rest⟩
    rcases List.mem_append.1 hr with h | h
    · exact .inl ⟨r, h, rest⟩
    · exact .inr ⟨r, h, rest⟩
  · rintro (⟨r, hr, rest⟩ | ⟨r, hr, rest⟩)
    · exact ⟨r, List.mem_append.2 (.inl hr), rest⟩
    · exact ⟨r, List.mem_append.2 (.inr hr), rest⟩

/-! ## the bodies of the closure rules, evaluated -/

section Bodies
variable (I : Interp E B G P A) (D : DB) (agg : RelId → List Tuple) (t : RelId)

theorem sat_one2 {ρ' : Env} :
    Sat I D agg [.clause t [.var 0, .var 1] []] [] ρ' ↔ ∃ a b, D ⟨t, [a, b]⟩ ∧ ρ' = [(1, b), (0, a)] := by
  constructor
  · intro h
    cases h with
    | clause tup hd hm hc hrest =>
      cases hrest
      simp only [satConds, Option.some.injEq] at hc
      subst hc
      match tup, hm with
      | [a, b], hm =>
        simp [matchArgs, Env.get?] at hm
        exact ⟨a, b, hd, hm.symm⟩
      | [], hm => simp [matchArgs] at hm
      | [_], hm => simp [matchArgs, Env.get?] at hm
      | _ :: _ :: _ :: _, hm => simp [matchArgs, Env.get?] at hm
  · rintro ⟨a, b, hd, rfl⟩
    exact .clause (ρ₁ := [(1, b), (0, a)]) (ρ₂ := [(1, b), (0, a)]) [a, b] hd (by simp [matchArgs, Env.get?]) (by simp [satConds]) (.nil _)

theorem sat_two2 {ρ' : Env} :
    Sat I D agg [.clause t [.var 0, .var 1] [], .clause t [.var 1, .var 2] []] [] ρ' ↔
      ∃ a b c, D ⟨t, [a, b]⟩ ∧ D ⟨t, [b, c]⟩ ∧ ρ' = [(2, c), (1, b), (0, a)] := by
  constructor
  · intro h
    cases h with
    | clause tup hd hm hc hrest =>
      simp only [satConds, Option.some.injEq] at hc
      subst hc
      match tup, hm with
      | [a, b], hm =>
        simp [matchArgs, Env.get?] at hm
        subst hm
        cases hrest with
        | clause tup2 hd2 hm2 hc2 hrest2 =>
          cases hrest2
          simp only [satConds, Option.some.injEq] at hc2
          subst hc2
          match tup2, hm2 with
          | [b', c], hm2 =>
            simp [matchArgs, Env.get?] at hm2
            obtain ⟨rfl, rfl⟩ := hm2
            exact ⟨a, b', c, hd, hd2, rfl⟩
          | [], hm2 => simp [matchArgs] at hm2
          | [_], hm2 => simp [matchArgs, Env.get?] at hm2
          | _ :: _ :: _ :: _, hm2 => simp [matchArgs, Env.get?] at hm2
      | [], hm => simp [matchArgs] at hm
      | [_], hm => simp [matchArgs, Env.get?] at hm
      | _ :: _ :: _ :: _, hm => simp [matchArgs, Env.get?] at hm
  · rintro ⟨a, b, c, h1, h2, rfl⟩
    exact .clause (ρ₁ := [(1, b), (0, a)]) (ρ₂ := [(1, b), (0, a)]) [a, b] h1 (by simp [matchArgs, Env.get?]) (by simp [satConds])
      (.clause (ρ₁ := [(2, c), (1, b), (0, a)]) (ρ₂ := [(2, c), (1, b), (0, a)]) [b, c] h2
        (by simp [matchArgs, Env.get?]) (by simp [satConds]) (.nil _))

theorem sat_one3 {ρ' : Env} :
    Sat I D agg [.clause t [.var 9, .var 0, .var 1] []] [] ρ' ↔
      ∃ k a b, D ⟨t, [k, a, b]⟩ ∧ ρ' = [(1, b), (0, a), (9, k)] := by
  constructor
  · intro h
    cases h with
    | clause tup hd hm hc hrest =>
      cases hrest
      simp only [satConds, Option.some.injEq] at hc
      subst hc
      match tup, hm with
      | [k, a, b], hm =>
        simp [matchArgs, Env.get?] at hm
        exact ⟨k, a, b, hd, hm.symm⟩
      | [], hm => simp [matchArgs] at hm
      | [_], hm => simp [matchArgs, Env.get?] at hm
      | [_, _], hm => simp [matchArgs, Env.get?] at hm
      | _ :: _ :: _ :: _ :: _, hm => simp [matchArgs, Env.get?] at hm
  · rintro ⟨k, a, b, hd, rfl⟩
    exact .clause (ρ₁ := [(1, b), (0, a), (9, k)]) (ρ₂ := [(1, b), (0, a), (9, k)]) [k, a, b] hd
      (by simp [matchArgs, Env.get?]) (by simp [satConds]) (.nil _)

theorem sat_two3 {ρ' : Env} :
    Sat I D agg [.clause t [.var 9, .var 0, .var 1] [], .clause t [.var 9, .var 1, .var 2] []] [] ρ' ↔
      ∃ k a b c, D ⟨t, [k, a, b]⟩ ∧ D ⟨t, [k, b, c]⟩ ∧ ρ' = [(2, c), (1, b), (0, a), (9, k)] := by
  constructor
  · intro h
    cases h with
    | clause tup hd hm hc hrest =>
      simp only [satConds, Option.some.injEq] at hc
      subst hc
      match tup, hm with
      | [k, a, b], hm =>
        simp [matchArgs, Env.get?] at hm
        subst hm
        cases hrest with
        | clause tup2 hd2 hm2 hc2 hrest2 =>
          cases hrest2
          simp only [satConds, Option.some.injEq] at hc2
          subst hc2
          match tup2, hm2 with
          | [k', b', c], hm2 =>
            simp [matchArgs, Env.get?] at hm2
            obtain ⟨rfl, rfl, rfl⟩ := hm2
            exact ⟨k', a, b', c, hd, hd2, rfl⟩
          | [], hm2 => simp [matchArgs] at hm2
          | [_], hm2 => simp [matchArgs, Env.get?] at hm2
          | [_, _], hm2 => simp [matchArgs, Env.get?] at hm2
          | _ :: _ :: _ :: _ :: _, hm2 => simp [matchArgs, Env.get?] at hm2
      | [], hm => simp [matchArgs] at hm
      | [_], hm => simp [matchArgs, Env.get?] at hm
      | [_, _], hm => simp [matchArgs, Env.get?] at hm
      | _ :: _ :: _ :: _ :: _, hm => simp [matchArgs, Env.get?] at hm
  · rintro ⟨k, a, b, c, h1, h2, rfl⟩
    exact .clause (ρ₁ := [(1, b), (0, a), (9, k)]) (ρ₂ := [(1, b), (0, a), (9, k)]) [k, a, b] h1
      (by simp [matchArgs, Env.get?]) (by simp [satConds])
      (.clause (ρ₁ := [(2, c), (1, b), (0, a), (9, k)]) (ρ₂ := [(2, c), (1, b), (0, a), (9, k)]) [k, b, c] h2
        (by simp [matchArgs, Env.get?]) (by simp [satConds]) (.nil _))

end Bodies

/-! ## what the closure rules derive in one step -/

/-- one-step consequences of the binary closure rules over `D`, exactly -/
theorem cons_eqRules2 {I : Interp E B G P A} {varE : Var → E} (hv : IsVarExpr I varE) {agg : RelId → List Tuple} {D : DB}
    {t : RelId} {f : Fact} :
    Cons I (eqRules2 varE t) agg D f ↔
      (∃ a b, D ⟨t, [a, b]⟩ ∧ (f = ⟨t, [a, a]⟩ ∨ f = ⟨t, [b, b]⟩ ∨ f = ⟨t, [b, a]⟩)) ∨
      (∃ a b c, D ⟨t, [a, b]⟩ ∧ D ⟨t, [b, c]⟩ ∧ f = ⟨t, [a, c]⟩) := by
  constructor
  · rintro ⟨r, hr, ρ, hs, h, hh, rfl⟩
    simp only [eqRules2, List.mem_cons, List.not_mem_nil, or_false] at hr
    rcases hr with rfl | rfl | rfl
    · obtain ⟨a, b, hd, rfl⟩ := (sat_one2 I D agg t).1 hs
      simp only [List.mem_cons, List.not_mem_nil, or_false] at hh
      rcases hh with rfl | rfl
      · exact .inl ⟨a, b, hd, .inl (by simp [headFact, hv _ _, Env.get?])⟩
      · exact .inl ⟨a, b, hd, .inr (.inl (by simp [headFact, hv _ _, Env.get?]))⟩
    · obtain ⟨a, b, hd, rfl⟩ := (sat_one2 I D agg t).1 hs
      simp only [List.mem_cons, List.not_mem_nil, or_false] at hh
      subst hh
      exact .inl ⟨a, b, hd, .inr (.inr (by simp [headFact, hv _ _, Env.get?]))⟩
    · obtain ⟨a, b, c, h1, h2, rfl⟩ := (sat_two2 I D agg t).1 hs
      simp only [List.mem_cons, List.not_mem_nil, or_false] at hh
      subst hh
      exact .inr ⟨a, b, c, h1, h2, by simp [headFact, hv _ _, Env.get?]⟩
  · rintro (⟨a, b, hd, rfl | rfl | rfl⟩ | ⟨a, b, c, h1, h2, rfl⟩)
    · exact ⟨_, .head _, _, (sat_one2 I D agg t).2 ⟨a, b, hd, rfl⟩, _, .head _, by simp [headFact, hv _ _, Env.get?]⟩
    · exact ⟨_, .head _, _, (sat_one2 I D agg t).2 ⟨a, b, hd, rfl⟩, _, .tail _ (.head _), by simp [headFact, hv _ _, Env.get?]⟩
    · exact ⟨_, .tail _ (.head _), _, (sat_one2 I D agg t).2 ⟨a, b, hd, rfl⟩, _, .head _, by simp [headFact, hv _ _, Env.get?]⟩
    · exact ⟨_, .tail _ (.tail _ (.head _)), _, (sat_two2 I D agg t).2 ⟨a, b, c, h1, h2, rfl⟩, _, .head _,
        by simp [headFact, hv _ _, Env.get?]⟩

/-- one-step consequences of the ternary closure rules over `D`, exactly -/
theorem cons_eqRules3 {I : Interp E B G P A} {varE : Var → E} (hv : IsVarExpr I varE) {agg : RelId → List Tuple} {D : DB}
    {t : RelId} {f : Fact} :
    Cons I (eqRules3 varE t) agg D f ↔
      (∃ k a b, D ⟨t, [k, a, b]⟩ ∧ (f = ⟨t, [k, a, a]⟩ ∨ f = ⟨t, [k, b, b]⟩ ∨ f = ⟨t, [k, b, a]⟩)) ∨
      (∃ k a b c, D ⟨t, [k, a, b]⟩ ∧ D ⟨t, [k, b, c]⟩ ∧ f = ⟨t, [k, a, c]⟩) := by
  constructor
  · rintro ⟨r, hr, ρ, hs, h, hh, rfl⟩
    simp only [eqRules3, List.mem_cons, List.not_mem_nil, or_false] at hr
    rcases hr with rfl | rfl | rfl
    · obtain ⟨k, a, b, hd, rfl⟩ := (sat_one3 I D agg t).1 hs
      simp only [List.mem_cons, List.not_mem_nil, or_false] at hh
      rcases hh with rfl | rfl
      · exact .inl ⟨k, a, b, hd, .inl (by simp [headFact, hv _ _, Env.get?])⟩
      · exact .inl ⟨k, a, b, hd, .inr (.inl (by simp [headFact, hv _ _, Env.get?]))⟩
    · obtain ⟨k, a, b, hd, rfl⟩ := (sat_one3 I D agg t).1 hs
      simp only [List.mem_cons, List.not_mem_nil, or_false] at hh
      subst hh
      exact .inl ⟨k, a, b, hd, .inr (.inr (by simp [headFact, hv _ _, Env.get?]))⟩
    · obtain ⟨k, a, b, c, h1, h2, rfl⟩ := (sat_two3 I D agg t).1 hs
      simp only [List.mem_cons, List.not_mem_nil, or_false] at hh
      subst hh
      exact .inr ⟨k, a, b, c, h1, h2, by simp [headFact, hv _ _, Env.get?]⟩
  · rintro (⟨k, a, b, hd, rfl | rfl | rfl⟩ | ⟨k, a, b, c, h1, h2, rfl⟩)
    · exact ⟨_, .head _, _, (sat_one3 I D agg t).2 ⟨k, a, b, hd, rfl⟩, _, .head _, by simp [headFact, hv _ _, Env.get?]⟩
    · exact ⟨_, .head _, _, (sat_one3 I D agg t).2 ⟨k, a, b, hd, rfl⟩, _, .tail _ (.head _), by simp [headFact, hv _ _, Env.get?]⟩
    · exact ⟨_, .tail _ (.head _), _, (sat_one3 I D agg t).2 ⟨k, a, b, hd, rfl⟩, _, .head _, by simp [headFact, hv _ _, Env.get?]⟩
    · exact ⟨_, .tail _ (.tail _ (.head _)), _, (sat_two3 I D agg t).2 ⟨k, a, b, c, h1, h2, rfl⟩, _, .head _,
        by simp [headFact, hv _ _, Env.get?]⟩

/-! ## theorem (a) -/

/-- what the program's OWN rules (and the caller) put into the tagged relation: input facts of `t` and
one-step consequences of `rules` over the database `M` -/
def Inserted2 (I : Interp E B G P A) (rules : List (Rule E B G P A)) (agg : RelId → List Tuple) (inp M : DB) (t : RelId)
    (a b : Val) : Prop :=
  inp ⟨t, [a, b]⟩ ∨ Cons I rules agg M ⟨t, [a, b]⟩

def Inserted3 (I : Interp E B G P A) (rules : List (Rule E B G P A)) (agg : RelId → List Tuple) (inp M : DB) (t : RelId)
    (k a b : Val) : Prop :=
  inp ⟨t, [k, a, b]⟩ ∨ Cons I rules agg M ⟨t, [k, a, b]⟩

/-- **binary form**: in the least model of the twin, the tagged relation holds exactly the equivalence closure
(reflexive on mentioned elements, symmetric, transitive) of the tuples inserted by the other rules -/
theorem eqrel_twin_binary (I : Interp E B G P A) (varE : Var → E) (hv : IsVarExpr I varE) (rules : List (Rule E B G P A))
    (agg : RelId → List Tuple) (inp : DB) (t : RelId) (x y : Val) :
    Derivable I (rules ++ eqRules2 varE t) agg inp ⟨t, [x, y]⟩ ↔
      EqClosure (Inserted2 I rules agg inp (Derivable I (rules ++ eqRules2 varE t) agg inp) t) x y := by
  have hcl := derivable_closed I (rules ++ eqRules2 varE t) agg inp
  constructor
  · -- least-model induction: the database "in the model, and t-pairs are in the closure" is closed
    intro h
    let M := Derivable I (rules ++ eqRules2 varE t) agg inp
    let R := Inserted2 I rules agg inp M t
    let D : DB := fun f => M f ∧ ∀ a b, f = ⟨t, [a, b]⟩ → EqClosure R a b
    have hD : Closed I (rules ++ eqRules2 varE t) agg inp D := by
      refine ⟨fun f hf => ⟨hcl.1 f hf, ?_⟩, ?_⟩
      · rintro a b rfl
        exact .base (.inl hf)
      · intro f hf
        rcases cons_append.1 hf with hf | hf
        · have hM : Cons I rules agg M f := cons_mono (fun g hg => hg.1) hf
          refine ⟨hcl.2 f (cons_append.2 (.inl hM)), ?_⟩
          rintro a b rfl
          exact .base (.inr hM)
        · have hM : M f := hcl.2 f (cons_append.2 (.inr (cons_mono (fun g hg => hg.1) hf)))
          refine ⟨hM, ?_⟩
          rcases (cons_eqRules2 hv).1 hf with ⟨a, b, hd, rfl | rfl | rfl⟩ | ⟨a, b, c, h1, h2, rfl⟩
          · intro a' b' e
            obtain ⟨rfl, rfl⟩ : a = a' ∧ a = b' := by simpa using e
            exact (hd.2 _ _ rfl).refl_left
          · intro a' b' e
            obtain ⟨rfl, rfl⟩ : b = a' ∧ b = b' := by simpa using e
            exact (hd.2 _ _ rfl).refl_right
          · intro a' b' e
            obtain ⟨rfl, rfl⟩ : b = a' ∧ a = b' := by simpa using e
            exact (hd.2 _ _ rfl).symm
          · intro a' b' e
            obtain ⟨rfl, rfl⟩ : a = a' ∧ c = b' := by simpa using e
            exact (h1.2 _ _ rfl).trans (h2.2 _ _ rfl)
    exact (h D hD).2 x y rfl
  · intro h
    have step : ∀ {f}, Cons I (eqRules2 varE t) agg (Derivable I (rules ++ eqRules2 varE t) agg inp) f →
        Derivable I (rules ++ eqRules2 varE t) agg inp f := fun hf => hcl.2 _ (cons_append.2 (.inr hf))
    have hbase : ∀ {a b}, Inserted2 I rules agg inp (Derivable I (rules ++ eqRules2 varE t) agg inp) t a b →
        Derivable I (rules ++ eqRules2 varE t) agg inp ⟨t, [a, b]⟩ := by
      rintro a b (h | h)
      · exact hcl.1 _ h
      · exact hcl.2 _ (cons_append.2 (.inl h))
    induction h with
    | base h => exact hbase h
    | refl_l h => exact step ((cons_eqRules2 hv).2 (.inl ⟨_, _, hbase h, .inl rfl⟩))
    | refl_r h => exact step ((cons_eqRules2 hv).2 (.inl ⟨_, _, hbase h, .inr (.inl rfl)⟩))
    | symm _ ih => exact step ((cons_eqRules2 hv).2 (.inl ⟨_, _, ih, .inr (.inr rfl)⟩))
    | trans _ _ ih1 ih2 => exact step ((cons_eqRules2 hv).2 (.inr ⟨_, _, _, ih1, ih2, rfl⟩))

/-- **ternary form**: per key `k`, the tagged relation holds exactly the equivalence closure of the tuples
inserted under that key by the other rules -/
theorem eqrel_twin_ternary (I : Interp E B G P A) (varE : Var → E) (hv : IsVarExpr I varE) (rules : List (Rule E B G P A))
    (agg : RelId → List Tuple) (inp : DB) (t : RelId) (k x y : Val) :
    Derivable I (rules ++ eqRules3 varE t) agg inp ⟨t, [k, x, y]⟩ ↔
      EqClosure (Inserted3 I rules agg inp (Derivable I (rules ++ eqRules3 varE t) agg inp) t k) x y := by
  have hcl := derivable_closed I (rules ++ eqRules3 varE t) agg inp
  constructor
  · intro h
    let M := Derivable I (rules ++ eqRules3 varE t) agg inp
    let D : DB := fun f => M f ∧ ∀ k a b, f = ⟨t, [k, a, b]⟩ → EqClosure (Inserted3 I rules agg inp M t k) a b
    have hD : Closed I (rules ++ eqRules3 varE t) agg inp D := by
      refine ⟨fun f hf => ⟨hcl.1 f hf, ?_⟩, ?_⟩
      · rintro k a b rfl
        exact .base (.inl hf)
      · intro f hf
        rcases cons_append.1 hf with hf | hf
        · have hM : Cons I rules agg M f := cons_mono (fun g hg => hg.1) hf
          refine ⟨hcl.2 f (cons_append.2 (.inl hM)), ?_⟩
          rintro k a b rfl
          exact .base (.inr hM)
        · have hM : M f := hcl.2 f (cons_append.2 (.inr (cons_mono (fun g hg => hg.1) hf)))
          refine ⟨hM, ?_⟩
          rcases (cons_eqRules3 hv).1 hf with ⟨k, a, b, hd, rfl | rfl | rfl⟩ | ⟨k, a, b, c, h1, h2, rfl⟩
          · intro k' a' b' e
            obtain ⟨rfl, rfl, rfl⟩ : k = k' ∧ a = a' ∧ a = b' := by simpa using e
            exact (hd.2 _ _ _ rfl).refl_left
          · intro k' a' b' e
            obtain ⟨rfl, rfl, rfl⟩ : k = k' ∧ b = a' ∧ b = b' := by simpa using e
            exact (hd.2 _ _ _ rfl).refl_right
          · intro k' a' b' e
            obtain ⟨rfl, rfl, rfl⟩ : k = k' ∧ b = a' ∧ a = b' := by simpa using e
            exact (hd.2 _ _ _ rfl).symm
          · intro k' a' b' e
            obtain ⟨rfl, rfl, rfl⟩ : k = k' ∧ a = a' ∧ c = b' := by simpa using e
            exact (h1.2 _ _ _ rfl).trans (h2.2 _ _ _ rfl)
    exact (h D hD).2 k x y rfl
  · intro h
    have step : ∀ {f}, Cons I (eqRules3 varE t) agg (Derivable I (rules ++ eqRules3 varE t) agg inp) f →
        Derivable I (rules ++ eqRules3 varE t) agg inp f := fun hf => hcl.2 _ (cons_append.2 (.inr hf))
    have hbase : ∀ {a b}, Inserted3 I rules agg inp (Derivable I (rules ++ eqRules3 varE t) agg inp) t k a b →
        Derivable I (rules ++ eqRules3 varE t) agg inp ⟨t, [k, a, b]⟩ := by
      rintro a b (h | h)
      · exact hcl.1 _ h
      · exact hcl.2 _ (cons_append.2 (.inl h))
    induction h with
    | base h => exact hbase h
    | refl_l h => exact step ((cons_eqRules3 hv).2 (.inl ⟨_, _, _, hbase h, .inl rfl⟩))
    | refl_r h => exact step ((cons_eqRules3 hv).2 (.inl ⟨_, _, _, hbase h, .inr (.inl rfl)⟩))
    | symm _ ih => exact step ((cons_eqRules3 hv).2 (.inl ⟨_, _, _, ih, .inr (.inr rfl)⟩))
    | trans _ _ ih1 ih2 => exact step ((cons_eqRules3 hv).2 (.inr ⟨_, _, _, _, ih1, ih2, rfl⟩))

/-- corollary: the tagged relation of the twin's least model is the LEAST symmetric transitive relation
containing what the other rules insert -/
theorem eqrel_twin_binary_least (I : Interp E B G P A) (varE : Var → E) (hv : IsVarExpr I varE) (rules : List (Rule E B G P A))
    (agg : RelId → List Tuple) (inp : DB) (t : RelId) (S : Val → Val → Prop) (hS : EqClosure.IsPER S)
    (hins : ∀ a b, Inserted2 I rules agg inp (Derivable I (rules ++ eqRules2 varE t) agg inp) t a b → S a b) (x y : Val)
    (h : Derivable I (rules ++ eqRules2 varE t) agg inp ⟨t, [x, y]⟩) : S x y :=
  EqClosure.least hS hins ((eqrel_twin_binary I varE hv rules agg inp t x y).1 h)

/-- corollary: an element is related to itself in the tagged relation iff it is mentioned by an inserted tuple -/
theorem eqrel_twin_binary_refl (I : Interp E B G P A) (varE : Var → E) (hv : IsVarExpr I varE) (rules : List (Rule E B G P A))
    (agg : RelId → List Tuple) (inp : DB) (t : RelId) (x : Val) :
    Derivable I (rules ++ eqRules2 varE t) agg inp ⟨t, [x, x]⟩ ↔
      EqClosure.Mentioned (Inserted2 I rules agg inp (Derivable I (rules ++ eqRules2 varE t) agg inp) t) x :=
  (eqrel_twin_binary I varE hv rules agg inp t x x).trans EqClosure.refl_iff_mentioned

/-- the concrete interpretation of the ties satisfies the hypothesis: `Ex.var` denotes a variable -/
theorem isVarExpr_std (kinds : RelId → Std.LatKind) : IsVarExpr (Std.interp kinds) Std.Ex.var := fun _ _ => rfl

/-! ## non-vacuity: a concrete twin (concrete interpretation of the ties)

`t(x,y) <-- e(x,y)` with `e = {(1,2),(2,3)}` (`e` = relation 0, `t` = relation 1): the twin's least model
relates 3 to 1 and does not relate 1 to the unmentioned element 4, not even 4 to itself. -/
namespace Example
open AscentVerif.Std

def I0 : Interp Ex Bx Gx Px Ax := interp fun _ => .maxInt
def rules0 : List (Rule Ex Bx Gx Px Ax) :=
  [{ heads := [⟨1, [.var 0, .var 1]⟩], body := [.clause 0 [.var 0, .var 1] []] }]
def inp0 : DB := fun f => f = ⟨0, [.int 1, .int 2]⟩ ∨ f = ⟨0, [.int 2, .int 3]⟩
def noAgg : RelId → List Tuple := fun _ => []
abbrev M0 : DB := Derivable I0 (rules0 ++ eqRules2 Ex.var 1) noAgg inp0

theorem ins_of_edge {a b : Val} (h : inp0 ⟨0, [a, b]⟩) : Inserted2 I0 rules0 noAgg inp0 M0 1 a b := by
  refine .inr ⟨_, .head _, _, (sat_one2 I0 M0 noAgg 0).2 ⟨a, b, derivable_input h, rfl⟩, _, .head _, ?_⟩
  simp [headFact, I0, interp, evalEx, Env.get?]

theorem derives_3_1 : M0 ⟨1, [.int 3, .int 1]⟩ := by
  refine (eqrel_twin_binary I0 Ex.var (isVarExpr_std _) rules0 noAgg inp0 1 _ _).2 ?_
  exact ((EqClosure.base (ins_of_edge (.inl rfl))).trans (.base (ins_of_edge (.inr rfl)))).symm

/-- relation 0 (`e`) holds the input only: no rule of the twin has it in a head -/
theorem e_only_input {tup : Tuple} (h : M0 ⟨0, tup⟩) : inp0 ⟨0, tup⟩ := by
  have hD : Closed I0 (rules0 ++ eqRules2 Ex.var 1) noAgg inp0 (fun f => f.rel = 0 → inp0 f) := by
    refine ⟨fun f hf _ => hf, ?_⟩
    rintro f ⟨r, hr, ρ, _, h, hh, rfl⟩ h0
    exfalso
    simp only [rules0, eqRules2, List.cons_append, List.nil_append, List.mem_cons, List.not_mem_nil, or_false] at hr
    rcases hr with rfl | rfl | rfl | rfl <;>
      simp only [List.mem_cons, List.not_mem_nil, or_false] at hh <;>
      (try rcases hh with rfl | rfl) <;> (try subst hh) <;> simp [headFact] at h0
  exact h _ hD rfl

theorem inserted_is_edge {a b : Val} (h : Inserted2 I0 rules0 noAgg inp0 M0 1 a b) : inp0 ⟨0, [a, b]⟩ := by
  rcases h with h | ⟨r, hr, ρ, hs, hd, hh, e⟩
  · rcases h with h | h <;> simp at h
  · simp only [rules0, List.mem_cons, List.not_mem_nil, or_false] at hr
    subst hr
    simp only [List.mem_cons, List.not_mem_nil, or_false] at hh
    subst hh
    obtain ⟨a', b', hM, rfl⟩ := (sat_one2 I0 M0 noAgg 0).1 hs
    have : a = a' ∧ b = b' := by simpa [headFact, I0, interp, evalEx, Env.get?] using e
    obtain ⟨rfl, rfl⟩ := this
    exact e_only_input hM

theorem not_derives_4 (x : Val) : ¬ M0 ⟨1, [x, .int 4]⟩ := by
  intro h
  have hm := EqClosure.mentioned_right ((eqrel_twin_binary I0 Ex.var (isVarExpr_std _) rules0 noAgg inp0 1 _ _).1 h)
  obtain ⟨y, h | h⟩ := hm
  · rcases inserted_is_edge h with h | h <;> simp at h
  · rcases inserted_is_edge h with h | h <;> simp at h

end Example

end AscentVerif.C10

/-! # Part (b): the binary provider meets its contract -/
namespace AscentVerif.EqRelM

/-- `EqRel::add`: total on well-formed values, keeps the invariant, denotes the closure of the old relation plus
the pair, and its flag is `false` iff the pair was already related -/
theorem eqrel_add_spec {e : EqRel} (hw : WF e) (x y : Int) :
    ∃ e' b, e.add x y = .ok (e', b) ∧ WF e' ∧
      (∀ a c, rel e' a c ↔ EqClosure (fun p q => rel e p q ∨ (p = x ∧ q = y)) a c) ∧ (b = false ↔ rel e x y) := by
  obtain ⟨e', b, he, hk, hb⟩ := add_spec hw x y
  exact ⟨e', b, he, hk.wf, hk.rel_closure, hb⟩

theorem eqrel_combine_spec {e o : EqRel} (hw : WF e) (ho : WF o) :
    ∃ e', e.combine o = .ok e' ∧ WF e' ∧ ∀ a c, rel e' a c ↔ EqClosure (fun p q => rel e p q ∨ rel o p q) a c :=
  combine_spec hw ho

theorem eqrel_contains_spec {e : EqRel} (hw : WF e) (x y : Int) : ∃ b, e.contains x y = .ok b ∧ (b = true ↔ rel e x y) :=
  contains_spec hw x y

theorem eqrel_iter_all_spec {e : EqRel} (hw : WF e) (a c : Int) : (a, c) ∈ e.iterAll ↔ rel e a c := iterAll_spec hw a c

/-- what an `EqRel` denotes is a partial equivalence relation, and the empty one denotes nothing -/
theorem eqrel_denotes_per (e : EqRel) : EqClosure.IsPER (rel e) := rel_isPER e
theorem eqrel_wf_empty : WF {} ∧ ∀ x y, ¬ rel {} x y := ⟨wf_empty, rel_empty⟩

/-- the initial triple satisfies the invariant with empty history -/
theorem provider_init : Inv {} Empty Empty Empty := inv_init

theorem provider_ins_contract {t : Triple} {T D N : Int → Int → Prop} (h : Inv t T D N) (x y : Int) :
    ∃ t' b, t.ins x y = .ok (t', b) ∧ Inv t' T D (fun p q => N p q ∨ (p = x ∧ q = y)) ∧ (b = true ↔ ¬ EqClosure N x y) :=
  ins_contract h x y

theorem provider_merge_contract {t : Triple} {T D N : Int → Int → Prop} (h : Inv t T D N) :
    ∃ t', t.merge = .ok t' ∧ Inv t' D (EqClosure fun p q => D p q ∨ N p q) Empty :=
  merge_contract h

def Spec.init : Spec := ⟨Empty, Empty, Empty⟩

/-- **the contract, by induction over op sequences**: every history of inserts and merges runs without panic and
leaves the triple in the state the contract prescribes -/
theorem provider_run_contract (ops : List Op) :
    ∃ t, runOps ops {} = .ok t ∧ Inv t (Spec.init.run ops).T (Spec.init.run ops).D (Spec.init.run ops).N :=
  run_contract_from ops (s := Spec.init) inv_init

/-- total holds `T`; delta holds `D \ T` -/
theorem provider_total_content {t : Triple} {T D N : Int → Int → Prop} (h : Inv t T D N) (a b : Int) :
    Content t.total a b ↔ T a b := content_total h a b
theorem provider_delta_content {t : Triple} {T D N : Int → Int → Prop} (h : Inv t T D N) (a b : Int) :
    Content t.delta a b ↔ D a b ∧ ¬ T a b := content_delta h a b

/-- `contains_key` (= `index_get` of the full index) of delta and of total -/
theorem provider_contains_key {t : Triple} {T D N : Int → Int → Prop} (h : Inv t T D N) (x y : Int) :
    (∃ b, t.delta.containsKey x y = .ok b ∧ (b = true ↔ D x y ∧ ¬ T x y)) ∧
    (∃ b, t.total.containsKey x y = .ok b ∧ (b = true ↔ T x y)) := by
  constructor
  · obtain ⟨b, hb, hc⟩ := containsKey_spec h.wf_delta (h.delta_old ▸ h.wf_total) x y
    exact ⟨b, hb, hc.trans (content_delta h x y)⟩
  · obtain ⟨b, hb, hc⟩ := containsKey_spec h.wf_total (h.total_old ▸ wf_empty) x y
    exact ⟨b, hb, hc.trans (content_total h x y)⟩

/-- the head-update guard of generated code (`!total.contains_key && !delta.contains_key`) rejects exactly the
tuples of total ∪ delta -/
theorem provider_head_guard {t : Triple} {T D N : Int → Int → Prop} (h : Inv t T D N) (x y : Int) :
    ∃ bt bd, t.total.containsKey x y = .ok bt ∧ t.delta.containsKey x y = .ok bd ∧ ((bt || bd) = true ↔ D x y) := by
  obtain ⟨⟨bd, hbd, hd⟩, ⟨bt, hbt, ht⟩⟩ := provider_contains_key h x y
  refine ⟨bt, bd, hbt, hbd, ?_⟩
  rw [Bool.or_eq_true, ht, hd]
  constructor
  · rintro (h' | h')
    · exact h.sub _ _ h'
    · exact h'.1
  · intro hD
    by_cases hT : T x y
    · exact .inl hT
    · exact .inr ⟨hD, hT⟩

/-- `iter_all` of the full index and `index_get(())` / `iter_all` of the no-column view: exactly the content -/
theorem provider_iter_all_added {t : Triple} {T D N : Int → Int → Prop} (h : Inv t T D N) :
    (∃ l, t.delta.iterAllAdded = .ok l ∧ ∀ a b, (a, b) ∈ l ↔ D a b ∧ ¬ T a b) ∧
    (∃ l, t.total.iterAllAdded = .ok l ∧ ∀ a b, (a, b) ∈ l ↔ T a b) := by
  constructor
  · obtain ⟨l, hl, hc⟩ := iterAllAdded_spec h.wf_delta (h.delta_old ▸ h.wf_total)
    exact ⟨l, hl, fun a b => (hc a b).trans (content_delta h a b)⟩
  · obtain ⟨l, hl, hc⟩ := iterAllAdded_spec h.wf_total (h.total_old ▸ wf_empty)
    exact ⟨l, hl, fun a b => (hc a b).trans (content_total h a b)⟩

/-- `index_get` of view [0] on delta: `None` for an unknown element, else exactly the row of the content -/
theorem provider_index_get_0 {t : Triple} {T D N : Int → Int → Prop} (h : Inv t T D N) (x : Int) :
    (Triple.delta t).setOfAdded x = .ok none ∨
    ∃ l, (Triple.delta t).setOfAdded x = .ok (some l) ∧ ∀ y, y ∈ l ↔ D x y ∧ ¬ T x y := by
  obtain ⟨h1, h2⟩ := setOfAdded_spec h.wf_delta (h.delta_old ▸ h.wf_total) x
  cases hx : TrRel.alGet t.delta.combined.elemIds x with
  | none => exact .inl (h1 hx)
  | some i =>
    obtain ⟨l, hl, hc⟩ := h2 (by rw [hx]; simp)
    exact .inr ⟨l, hl, fun y => (hc y).trans (content_delta h x y)⟩

/-- **where the code over-approximates**: `iter_all` of view [0] ignores `old`: on delta it yields total ∪ delta
(`D`), on total exactly total -/
theorem provider_iter_all_0_overapprox {t : Triple} {T D N : Int → Int → Prop} (h : Inv t T D N) (x y : Int) :
    ((∃ s, (x, s) ∈ t.delta.ind0IterAll ∧ y ∈ s) ↔ D x y) ∧ ((∃ s, (x, s) ∈ t.total.ind0IterAll ∧ y ∈ s) ↔ T x y) :=
  ⟨(ind0IterAll_spec h.wf_delta x y).trans (h.relD x y), (ind0IterAll_spec h.wf_total x y).trans (h.relT x y)⟩

/-- the contract's state after any history: the closure of total ∪ delta ∪ new is the closure of everything inserted -/
theorem spec_all_inserted_from : ∀ (ops : List Op) (s : Spec) (X : Int → Int → Prop),
    (∀ a b, EqClosure (fun p q => s.D p q ∨ s.N p q) a b ↔ EqClosure X a b) →
    ∀ a b, EqClosure (fun p q => (s.run ops).D p q ∨ (s.run ops).N p q) a b ↔
      EqClosure (fun p q => X p q ∨ Op.ins p q ∈ ops) a b := by
  intro ops
  induction ops with
  | nil =>
    intro s X h a b
    rw [show s.run [] = s from rfl, h]
    exact EqClosure.congr' fun p q => by simp
  | cons op rest ih =>
    intro s X h a b
    rw [show s.run (op :: rest) = (s.step op).run rest from rfl]
    cases op with
    | ins x y =>
      have h' : ∀ a b, EqClosure (fun p q => (s.step (.ins x y)).D p q ∨ (s.step (.ins x y)).N p q) a b ↔
          EqClosure (fun p q => X p q ∨ (p = x ∧ q = y)) a b := by
        intro a b
        show EqClosure (fun p q => s.D p q ∨ (s.N p q ∨ (p = x ∧ q = y))) a b ↔ _
        rw [EqClosure.congr' (S := fun p q => (s.D p q ∨ s.N p q) ∨ (p = x ∧ q = y)) (fun p q => or_assoc.symm)]
        rw [← EqClosure.union_closed_left, EqClosure.congr' (S := fun p q => EqClosure X p q ∨ (p = x ∧ q = y))
          (fun p q => by rw [h]), EqClosure.union_closed_left]
      rw [ih _ _ h']
      apply EqClosure.congr'
      intro p q
      simp only [List.mem_cons, Op.ins.injEq]
      constructor
      · rintro ((h1 | h1) | h1)
        · exact .inl h1
        · exact .inr (.inl h1)
        · exact .inr (.inr h1)
      · rintro (h1 | h1 | h1)
        · exact .inl (.inl h1)
        · exact .inl (.inr h1)
        · exact .inr h1
    | merge =>
      have h' : ∀ a b, EqClosure (fun p q => (s.step .merge).D p q ∨ (s.step .merge).N p q) a b ↔ EqClosure X a b := by
        intro a b
        show EqClosure (fun p q => EqClosure (fun p q => s.D p q ∨ s.N p q) p q ∨ Empty p q) a b ↔ _
        rw [EqClosure.union_closed_left, ← h]
        exact EqClosure.congr' fun p q => by simp [Empty]
      rw [ih _ _ h']
      apply EqClosure.congr'
      intro p q
      simp

theorem provider_all_inserted (ops : List Op) (a b : Int) :
    EqClosure (fun p q => (Spec.init.run ops).D p q ∨ (Spec.init.run ops).N p q) a b ↔
      EqClosure (fun p q => Op.ins p q ∈ ops) a b := by
  rw [spec_all_inserted_from ops Spec.init Empty (fun a b => EqClosure.congr' fun p q => by simp [Spec.init])]
  exact EqClosure.congr' fun p q => by simp [Empty]

/-- after a merge, total ∪ delta is exactly the closure of everything inserted so far -/
theorem provider_after_merge (ops : List Op) (a b : Int) :
    (Spec.init.run (ops ++ [.merge])).D a b ↔ EqClosure (fun p q => Op.ins p q ∈ ops) a b := by
  have : Spec.init.run (ops ++ [.merge]) = (Spec.init.run ops).step .merge := by
    simp [Spec.run, List.foldl_append]
  rw [this]
  exact provider_all_inserted ops a b

/-! ## non-vacuity: a concrete history through the executable model -/

/-- `ins (1,2); merge; ins (2,3); merge`: total = {1,2}², delta = {1,2,3}² \ {1,2}² -/
def demoOps : List Op := [.ins 1 2, .merge, .ins 2 3, .merge]

def demoTriple : Triple :=
  match runOps demoOps {} with
  | .ok t => t
  | .panic => {}

example : runOps demoOps {} = .ok demoTriple := by decide
example : demoTriple.delta.containsKey 1 3 = .ok true := by decide
example : demoTriple.delta.containsKey 1 2 = .ok false := by decide
example : demoTriple.total.containsKey 1 2 = .ok true := by decide
example : demoTriple.total.containsKey 1 3 = .ok false := by decide
example : demoTriple.delta.containsKey 4 4 = .ok false := by decide
example : (Triple.ins {} 5 5).bind (fun r => r.1.ins 5 5) = (Triple.ins {} 5 5).bind (fun r => .ok (r.1, false)) := by decide

end AscentVerif.EqRelM

/-! ## axiom audit (only `propext`, `Classical.choice`, `Quot.sound` may appear) -/
#print axioms AscentVerif.C10.eqrel_twin_binary
#print axioms AscentVerif.C10.eqrel_twin_ternary
#print axioms AscentVerif.C10.eqrel_twin_binary_least
#print axioms AscentVerif.C10.eqrel_twin_binary_refl
#print axioms AscentVerif.C10.Example.derives_3_1
#print axioms AscentVerif.C10.Example.not_derives_4
#print axioms AscentVerif.EqRelM.eqrel_add_spec
#print axioms AscentVerif.EqRelM.eqrel_combine_spec
#print axioms AscentVerif.EqRelM.eqrel_contains_spec
#print axioms AscentVerif.EqRelM.eqrel_iter_all_spec
#print axioms AscentVerif.EqRelM.provider_init
#print axioms AscentVerif.EqRelM.provider_ins_contract
#print axioms AscentVerif.EqRelM.provider_merge_contract
#print axioms AscentVerif.EqRelM.provider_run_contract
#print axioms AscentVerif.EqRelM.provider_contains_key
#print axioms AscentVerif.EqRelM.provider_head_guard
#print axioms AscentVerif.EqRelM.provider_iter_all_added
#print axioms AscentVerif.EqRelM.provider_index_get_0
#print axioms AscentVerif.EqRelM.provider_iter_all_0_overapprox
#print axioms AscentVerif.EqRelM.provider_all_inserted
#print axioms AscentVerif.EqRelM.provider_after_merge
