import AscentVerif.Props.C04Phys
import AscentVerif.Props.C01PhysPlan
import AscentVerif.Proofs.PhysAggPlan
/-!
# The plan the compiler computes for aggregation items is always usable

`Props/C04Phys.lean` assumes `planOk` and `aggPlanOk` (decidable; the driver evaluates them on every program of the tie).  This file
PROVES them for the plan `Hir.compileRule` computes and the index sets `ixSetsOfA` the compiler allocates, from conditions on the
PROGRAM TEXT alone: one argument per column in every body clause, head clause and aggregated clause (`arityOk`, `aggArityOk`), no
aggregated variable twice among the arguments of its aggregation, every aggregated variable among them (what the macro checks since
fix 5862f99).  Hence `runPhys_agg_compiled_eq_model`: the theorem of `Props/C04Phys.lean` without any hypothesis on the plan.
-/
namespace AscentVerif.Phys
open AscentVerif AscentVerif.Engine AscentVerif.Index

variable {E B G P A : Type}

/-- conditions on the program text for aggregated clauses: one argument per column; no aggregated variable occurs twice among
the arguments; every aggregated variable occurs -/
def aggArityOk (p : Program E B G P A) : Bool :=
  p.rules.all fun r => r.body.all fun
    | .agg a => a.args.length == arityOf p a.rel && decide (boundOcc a.args).Nodup && a.boundArgs.all (boundOcc a.args).contains
    | _ => true

/-- the plan of the aggregations computed by the compiler model is usable with the index sets the compiler allocates -/
theorem aggPlanOk_ixSetsOfA (V : Hir.VarsOf E B) (p : Program E B G P A) (h : aggArityOk p = true) :
    aggPlanOk V p (ixSetsOfA V p) = true := by
  unfold aggPlanOk
  rw [List.all_eq_true]
  intro r hr
  refine aggRuleOk_ixSetsOfA V p r hr ?_
  intro a hm
  unfold aggArityOk at h
  rw [List.all_eq_true] at h
  have h' := h r hr
  rw [List.all_eq_true] at h'
  have h'' := h' _ hm
  dsimp only at h''
  rw [Bool.and_eq_true, Bool.and_eq_true, decide_eq_true_eq] at h''
  exact ⟨eq_of_beq h''.1.1, h''.1.2, h''.2⟩

/-- … and so is the plan of the ordinary clauses (the index sets `ixSetsOfA` contain those of `ixSetsOf`) -/
theorem planOk_ixSetsOfA (V : Hir.VarsOf E B) (p : Program E B G P A) (h : arityOk p = true) :
    planOk V p (ixSetsOfA V p) = true := by
  unfold planOk
  rw [List.all_eq_true]
  intro r hr
  obtain ⟨h1, h2⟩ := arityOk_rule h r hr
  rw [Bool.and_eq_true]
  exact ⟨ruleOk_ixSetsOfA V p r hr h1, h2⟩

/-- **the generated code over its physical indices computes the stratified model, for the plan and the index sets the compiler
computes**: no hypothesis on the plan -/
theorem runPhys_agg_compiled_eq_model (I : Interp E B G P A) (hI : Plan.Ext I) (V : Hir.VarsOf E B) (hS : Plan.Supp I V)
    (hperm : AggPermInvariant I)
    (p : Program E B G P A) (order : SccOrder) (s : PSt) (fuel : Nat) (out : ProgSt)
    (hp : RelationalAgg p) (ho : validOrder p order = true) (hst : Stratified p order)
    (ha : arityOk p = true) (haa : aggArityOk p = true)
    (hd : ∀ r ∈ p.rules, Hir.Desugared V r = true ∧ Plan.WellScoped V r = true)
    (hs : WFPSt p s) (hnd : ∀ r, (prel s r).rows.Nodup)
    (hrun : run I V p (ixSetsOfA V p) order fuel s = some out) :
    WFPSt p out.st ∧
    (∀ r, (prel out.st r).rows.Nodup) ∧
    (∀ f, factsOf out.st f ↔
      Derivable I p.rules (fun r => (prel out.st r).rows) (fun g => g.rel < p.rels.length ∧ factsOf s g) f) ∧
    (∀ r, r < p.rels.length → ∃ derived, (prel out.st r).rows = (prel s r).rows ++ derived ∧
      derived.Nodup ∧ ∀ t ∈ derived, t ∉ (prel s r).rows) :=
  runPhys_agg_eq_model I hI V hS hperm p (ixSetsOfA V p) order s fuel out hp ho hst (planOk_ixSetsOfA V p ha)
    (aggPlanOk_ixSetsOfA V p haa) hd hs hnd hrun

example : arityOk pNeg = true ∧ aggArityOk pNeg = true := by decide

#print axioms aggPlanOk_ixSetsOfA
#print axioms planOk_ixSetsOfA
#print axioms runPhys_agg_compiled_eq_model

end AscentVerif.Phys
