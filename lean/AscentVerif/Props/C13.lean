import AscentVerif.Props.C01
/-!
# C13 — run() is idempotent; monotone re-runs equal a fresh run
# (serial programs without aggregation and lattices; the aggregation case is finding F2)

Histories `run; run` and `run; push facts; run` over the engine model, from ANY well-formed
program value (so also after earlier runs and pushes — every history of this shape).
-/
namespace AscentVerif.Engine
open AscentVerif

variable {E B G P A : Type}

/-- the facts a program value holds in its declared relations -/
def stDB (p : Program E B G P A) (s : St) : DB := fun g => g.rel < p.rels.length ∧ factsOf s g

theorem derivable_mono_input {I : Interp E B G P A} {rules : List (Rule E B G P A)} {agg : RelId → List Tuple}
    {inp inp' : DB} (h : ∀ f, inp f → inp' f) : ∀ f, Derivable I rules agg inp f → Derivable I rules agg inp' f :=
  fun _ hf D hD => hf D ⟨fun g hg => hD.1 g (h g hg), hD.2⟩

/-- **restart lemma (spec level)**: the least model over any database between the input and
its least model is that same least model -/
theorem derivable_between {I : Interp E B G P A} {rules : List (Rule E B G P A)} {agg : RelId → List Tuple}
    {inp D : DB} (h1 : ∀ f, inp f → D f) (h2 : ∀ f, D f → Derivable I rules agg inp f) :
    ∀ f, Derivable I rules agg D f ↔ Derivable I rules agg inp f :=
  fun f => ⟨fun hf => hf _ ⟨h2, (derivable_closed I rules agg inp).2⟩, derivable_mono_input h1 f⟩

/-- adding facts on top of a least model: `lfp (lfp I ∪ J) = lfp (I ∪ J)` -/
theorem derivable_union_restart {I : Interp E B G P A} {rules : List (Rule E B G P A)} {agg : RelId → List Tuple}
    {inp J D : DB} (hD : ∀ f, D f ↔ Derivable I rules agg inp f) :
    ∀ f, Derivable I rules agg (fun g => D g ∨ J g) f ↔ Derivable I rules agg (fun g => inp g ∨ J g) f := by
  intro f
  constructor
  · intro hf
    apply hf
    refine ⟨?_, (derivable_closed I rules agg _).2⟩
    rintro g (hg | hg)
    · exact derivable_mono_input (fun _ h => Or.inl h) g ((hD g).mp hg)
    · exact derivable_input (Or.inr hg)
  · apply derivable_mono_input
    rintro g (hg | hg)
    · exact Or.inl ((hD g).mpr (derivable_input hg))
    · exact Or.inr hg

private theorem facts_lt {p : Program E B G P A} {s : St} (hs : WFSt p s) {f : Fact} (hf : factsOf s f) :
    f.rel < p.rels.length := by
  have := lt_of_mem_rows s f.rel f.args hf
  rw [hs.1] at this; exact this

/-- **run() is idempotent**: a second `run()` on an unmodified program value appends nothing —
every row vector is literally unchanged (hence every relation is unchanged as a set) -/
theorem rerun_idempotent (I : Interp E B G P A) (cfg : Config) (p : Program E B G P A) (order : SccOrder)
    (s : St) (fuel₁ fuel₂ : Nat) (ps₁ ps₂ : ProgSt)
    (hp : Relational p) (ho : validOrder p order = true) (hs : WFSt p s)
    (h₁ : run I cfg p order fuel₁ s = .done ps₁) (h₂ : run I cfg p order fuel₂ ps₁.st = .done ps₂) :
    (∀ r, r < p.rels.length → (relSt ps₂.st r).rows = (relSt ps₁.st r).rows) ∧
    (∀ f, factsOf ps₂.st f ↔ factsOf ps₁.st f) := by
  obtain ⟨hw₁, hm₁, hr₁⟩ := run_from_eq_leastModel I cfg p order s fuel₁ ps₁ hp ho hs h₁
  obtain ⟨hw₂, hm₂, hr₂⟩ := run_from_eq_leastModel I cfg p order ps₁.st fuel₂ ps₂ hp ho hw₁ h₂
  have hback : ∀ f, factsOf ps₂.st f → factsOf ps₁.st f := by
    intro f hf
    have h := (hm₂ f).mp hf
    have h' := (derivable_between (I := I) (rules := p.rules) (agg := noAgg)
      (inp := fun f => f.rel < p.rels.length ∧ factsOf s f) (D := fun f => f.rel < p.rels.length ∧ factsOf ps₁.st f)
      (fun g hg => ⟨hg.1, (hm₁ g).mpr (derivable_input hg)⟩) (fun g hg => (hm₁ g).mp hg.2) f).mp h
    exact (hm₁ f).mpr h'
  have hrows : ∀ r, r < p.rels.length → (relSt ps₂.st r).rows = (relSt ps₁.st r).rows := by
    intro r hr
    obtain ⟨derived, hd, _, hnot⟩ := hr₂ r hr
    cases derived with
    | nil => simpa using hd
    | cons t ts =>
      exfalso
      have hin : factsOf ps₂.st ⟨r, t⟩ := by show t ∈ (relSt ps₂.st r).rows; rw [hd]; simp
      exact hnot t (by simp) (hback ⟨r, t⟩ hin)
  refine ⟨hrows, fun f => ⟨hback f, fun hf => ?_⟩⟩
  have hr := facts_lt hw₁ hf
  show f.args ∈ (relSt ps₂.st f.rel).rows
  rw [hrows f.rel hr]; exact hf

/-- pushing rows into relation fields of a program value -/
def pushRows (s : St) (extra : RelId → List Tuple) : St :=
  (List.range s.length).map fun r => { relSt s r with rows := (relSt s r).rows ++ extra r }

theorem relSt_pushRows (s : St) (extra : RelId → List Tuple) (r : RelId) (hr : r < s.length) :
    relSt (pushRows s extra) r = { relSt s r with rows := (relSt s r).rows ++ extra r } := by
  simp [pushRows, relSt, List.getD_eq_getElem?_getD, hr]

theorem wfSt_pushRows (p : Program E B G P A) (s : St) (extra : RelId → List Tuple) (hs : WFSt p s) :
    WFSt p (pushRows s extra) := by
  refine ⟨by simp [pushRows, hs.1], ?_⟩
  intro rs hrs i hi
  simp only [pushRows, List.mem_map, List.mem_range] at hrs
  obtain ⟨r, hr, rfl⟩ := hrs
  simp only at hi ⊢
  have hmem : relSt s r ∈ s := by
    have : relSt s r = s[r] := by simp [relSt, List.getD_eq_getElem?_getD, List.getElem?_eq_getElem hr]
    rw [this]; exact List.getElem_mem hr
  have := hs.2 _ hmem i hi
  simp only [List.length_append]; omega

/-- **monotone re-run equals a fresh run**: run, push further facts into any relations (input
or derived ones), run again — the relations then hold exactly the least model of the union
of all inputs, i.e. what a fresh program run once on the union computes (`run_eq_leastModel`) -/
theorem monotone_rerun (I : Interp E B G P A) (cfg : Config) (p : Program E B G P A) (order : SccOrder)
    (s : St) (extra : RelId → List Tuple) (fuel₁ fuel₂ : Nat) (ps₁ ps₂ : ProgSt)
    (hp : Relational p) (ho : validOrder p order = true) (hs : WFSt p s)
    (h₁ : run I cfg p order fuel₁ s = .done ps₁)
    (h₂ : run I cfg p order fuel₂ (pushRows ps₁.st extra) = .done ps₂) :
    ∀ f, factsOf ps₂.st f ↔
      Derivable I p.rules noAgg (fun g => (g.rel < p.rels.length ∧ factsOf s g) ∨ (g.rel < p.rels.length ∧ g.args ∈ extra g.rel)) f := by
  obtain ⟨hw₁, hm₁, _⟩ := run_from_eq_leastModel I cfg p order s fuel₁ ps₁ hp ho hs h₁
  obtain ⟨_, hm₂, _⟩ := run_from_eq_leastModel I cfg p order _ fuel₂ ps₂ hp ho (wfSt_pushRows p _ extra hw₁) h₂
  intro f
  rw [hm₂ f]
  have hlen : ps₁.st.length = p.rels.length := hw₁.1
  have hsame : ∀ g, (g.rel < p.rels.length ∧ factsOf (pushRows ps₁.st extra) g) ↔
      ((g.rel < p.rels.length ∧ factsOf ps₁.st g) ∨ (g.rel < p.rels.length ∧ g.args ∈ extra g.rel)) := by
    intro g
    constructor
    · rintro ⟨hr, hg⟩
      have hg' : g.args ∈ (relSt (pushRows ps₁.st extra) g.rel).rows := hg
      rw [relSt_pushRows _ _ _ (by rw [hlen]; exact hr)] at hg'
      simp only [List.mem_append] at hg'
      rcases hg' with h | h
      · exact Or.inl ⟨hr, h⟩
      · exact Or.inr ⟨hr, h⟩
    · rintro (⟨hr, h⟩ | ⟨hr, h⟩)
      · refine ⟨hr, ?_⟩
        show g.args ∈ (relSt (pushRows ps₁.st extra) g.rel).rows
        rw [relSt_pushRows _ _ _ (by rw [hlen]; exact hr)]; simp only [List.mem_append]; exact Or.inl h
      · refine ⟨hr, ?_⟩
        show g.args ∈ (relSt (pushRows ps₁.st extra) g.rel).rows
        rw [relSt_pushRows _ _ _ (by rw [hlen]; exact hr)]; simp only [List.mem_append]; exact Or.inr h
  have e1 : ∀ f, Derivable I p.rules noAgg (fun g => g.rel < p.rels.length ∧ factsOf (pushRows ps₁.st extra) g) f ↔
      Derivable I p.rules noAgg (fun g => (g.rel < p.rels.length ∧ factsOf ps₁.st g) ∨ (g.rel < p.rels.length ∧ g.args ∈ extra g.rel)) f :=
    fun f => ⟨derivable_mono_input (fun g hg => (hsame g).mp hg) f, derivable_mono_input (fun g hg => (hsame g).mpr hg) f⟩
  rw [e1 f]
  exact derivable_union_restart (I := I) (rules := p.rules) (agg := noAgg)
    (inp := fun g => g.rel < p.rels.length ∧ factsOf s g) (J := fun g => g.rel < p.rels.length ∧ g.args ∈ extra g.rel)
    (D := fun g => g.rel < p.rels.length ∧ factsOf ps₁.st g)
    (fun g => ⟨fun hg => (hm₁ g).mp hg.2, fun hg => ⟨facts_lt hw₁ ((hm₁ g).mpr hg), (hm₁ g).mpr hg⟩⟩) f

/-- non-vacuity: a fresh program value is well-formed, and stays so under pushes -/
example (p : Program E B G P A) (inp extra : RelId → List Tuple) : WFSt p (pushRows (initSt p inp) extra) :=
  wfSt_pushRows p _ extra (wfSt_initSt p inp)

end AscentVerif.Engine
