import AscentVerif.Model.EnginePhys
import AscentVerif.Proofs.NDAgg
import AscentVerif.Proofs.PhysAggRun
import AscentVerif.Props.C13Agg
import AscentVerif.Props.C01Phys
/-!
# C04 at the level of the physical indices: aggregation and negation read the complete relation through the hash indices

`Model/EnginePhys.lean` evaluates `agg` / negation items as the generated code does: `index_get` with the evaluated key arguments
on the index the plan chose for the aggregated relation, on its stored (`total`) version; the matching rows are mapped to the
aggregated variables and handed to the aggregator.

`runPhys_agg_eq_model`: for every stratified program without lattices whose rules are desugared and well-scoped and whose plan is
usable (`planOk`, `aggPlanOk`: decidable, evaluated by the driver), every interpretation with permutation-invariant aggregators
(the shipped ones are: `Props/C17.lean`, `std_aggPermInvariant`), every typed start value with duplicate-free row vectors and every
fuel: if the physical engine returns, the rows of every relation are duplicate-free, and the facts are exactly the least model of
the rules in which every aggregation / negation ranges over the FINAL rows of its relation, each distinct tuple once.
-/
namespace AscentVerif.Phys
open AscentVerif AscentVerif.Engine AscentVerif.Index

variable {E B G P A : Type}

/-- the declarative semantics does not depend on the order in which the aggregated relation is listed (for
permutation-invariant aggregators) -/
theorem sat_congr_perm {I : Interp E B G P A} (hperm : AggPermInvariant I) {agg agg' : RelId → List Tuple}
    (h : ∀ r, (agg r).Perm (agg' r)) {D : DB} :
    ∀ {items : List (Item E B G P A)} {ρ ρ' : Env}, Sat I D agg items ρ ρ' → Sat I D agg' items ρ ρ' := by
  intro items ρ ρ' hs
  induction hs with
  | nil ρ => exact .nil ρ
  | clause t hd hm hc _ ih => exact .clause t hd hm hc ih
  | cond hc _ ih => exact .cond hc ih
  | gen x hx _ ih => exact .gen x hx ih
  | @aggr a rest ρ ρ₁ ρ₂ ha _ ih =>
    refine .aggr ?_ ih
    rw [← Agg.aggEnvs_perm (I := I) hperm a ρ (h a.rel)]
    exact ha

theorem derivable_congr_perm {I : Interp E B G P A} (hperm : AggPermInvariant I) (rules : List (Rule E B G P A))
    {agg agg' : RelId → List Tuple} (h : ∀ r, (agg r).Perm (agg' r)) (inp : DB) (f : Fact) :
    Derivable I rules agg inp f ↔ Derivable I rules agg' inp f := by
  have key : ∀ {g g' : RelId → List Tuple}, (∀ r, (g r).Perm (g' r)) → Derivable I rules g inp f → Derivable I rules g' inp f := by
    intro g g' hg hd D hD
    apply hd D
    refine ⟨hD.1, ?_⟩
    rintro f' ⟨r, hr, ρ, hs, hh⟩
    exact hD.2 f' ⟨r, hr, ρ, sat_congr_perm hperm hg hs, hh⟩
  exact ⟨key h, key fun r => (h r).symm⟩

/-- **the generated code over its physical indices computes the stratified model; every aggregation sees the final relation,
each tuple once** -/
theorem runPhys_agg_eq_model (I : Interp E B G P A) (hI : Plan.Ext I) (V : Hir.VarsOf E B) (hS : Plan.Supp I V)
    (hperm : AggPermInvariant I)
    (p : Program E B G P A) (ix : IxSets) (order : SccOrder) (s : PSt) (fuel : Nat) (out : ProgSt)
    (hp : RelationalAgg p) (ho : validOrder p order = true) (hst : Stratified p order)
    (hplan : planOk V p ix = true) (hagg : aggPlanOk V p ix = true)
    (hd : ∀ r ∈ p.rules, Hir.Desugared V r = true ∧ Plan.WellScoped V r = true)
    (hs : WFPSt p s) (hnd : ∀ r, (prel s r).rows.Nodup)
    (hrun : run I V p ix order fuel s = some out) :
    WFPSt p out.st ∧
    (∀ r, (prel out.st r).rows.Nodup) ∧
    (∀ f, factsOf out.st f ↔
      Derivable I p.rules (fun r => (prel out.st r).rows) (fun g => g.rel < p.rels.length ∧ factsOf s g) f) ∧
    (∀ r, r < p.rels.length → ∃ derived, (prel out.st r).rows = (prel s r).rows ++ derived ∧
      derived.Nodup ∧ ∀ t ∈ derived, t ∉ (prel s r).rows) := by
  obtain ⟨st', hrun', hsim⟩ := run_is_RunND_agg I hI V hS hperm p ix order s fuel out hp hst hplan hagg hd hs hrun
  have hwfs : WFSt p (absSt s) := by
    refine ⟨by simpa [absSt] using hs.1, ?_⟩
    intro rs hrs i hi
    simp only [absSt, List.mem_map] at hrs
    obtain ⟨pr, _, rfl⟩ := hrs
    cases hi
  have hnd0 : ∀ r, (relSt (absSt s) r).rows.Nodup := fun r => by rw [relSt_absSt]; exact hnd r
  obtain ⟨hwf', hview, hfacts, hrows⟩ := runND_agg_spec I {} p order (absSt s) st' hp ho hst hwfs hnd0 hrun'
  have hdb : (fun g : Fact => g.rel < p.rels.length ∧ Engine.factsOf (absSt s) g) =
      (fun g : Fact => g.rel < p.rels.length ∧ factsOf s g) := by
    funext g
    simp only [Engine.factsOf, factsOf, relSt_absSt]
  have hpermv : ∀ r, (aggView st' r).Perm (prel out.st r).rows := fun r => by
    rw [← hsim.rows]; exact (hview r).2
  refine ⟨⟨by rw [← hsim.len]; exact hwf'.1, ?_⟩, ?_, ?_, ?_⟩
  · intro r t ht
    rw [← hsim.rows] at ht
    exact hsim.typed r t ht
  · intro r
    exact (hpermv r).nodup_iff.mp (hview r).1
  · intro f
    rw [← hdb, ← derivable_congr_perm hperm p.rules hpermv, ← hfacts]
    simp only [Engine.factsOf, factsOf, hsim.rows]
  · intro r hr
    obtain ⟨derived, h1, h2, h3⟩ := hrows r hr
    rw [hsim.rows, relSt_absSt] at h1
    rw [relSt_absSt] at h3
    exact ⟨derived, h1, h2, h3⟩

/-! ## non-vacuity: reachability, its complement by negation, out-degrees by `count`

`node(x)`, `edge(x, y)` inputs; `reach(y) <-- reach(x), edge(x, y)` (seeded by an input row); `unreach(x) <-- node(x), !reach(x)`
(negation = the aggregator `not` over the FULL index of `reach`, key `x`); `outdeg(x, n) <-- node(x), agg n = count() in edge(x, _)`
(the aggregated relation read through its index on column 0).  Interpretation: the integer terms of `Props/C01Plan.lean` with the
two aggregators `count` (`true`) and `not` (`false`).  Every hypothesis of `runPhys_agg_eq_model` holds and the physical engine
returns `unreach = {3}`, `outdeg = {(1,1), (2,0), (3,0)}`. -/

def exA : Interp Plan.Ex Plan.Bx Plan.Ex Unit Bool :=
  { expr := Plan.exI.expr, test := Plan.exI.test, gen := Plan.exI.gen, pat := fun _ _ => none
    agg := fun fn l => if fn then [[.int l.length]] else (if l.isEmpty then [[]] else [])
    joinMut := fun _ a _ => (a, false) }

theorem exA_ext : Plan.Ext exA := ⟨Plan.exI_ext.expr, Plan.exI_ext.test, Plan.exI_ext.gen⟩
theorem exA_supp : Plan.Supp exA Plan.exV := ⟨Plan.exI_supp.expr, Plan.exI_supp.test⟩

theorem exA_perm : AggPermInvariant exA := by
  intro fn l l' h
  show (if fn then [[Val.int l.length]] else (if l.isEmpty then [[]] else [])) =
    (if fn then [[Val.int l'.length]] else (if l'.isEmpty then [[]] else []))
  rw [h.length_eq]
  have : l.isEmpty = l'.isEmpty := by
    cases l with
    | nil => rw [List.Perm.nil_eq h]
    | cons x xs =>
      cases l' with
      | nil => exact absurd h.symm.nil_eq (by simp)
      | cons y ys => rfl
  rw [this]

def pNeg : Program Plan.Ex Plan.Bx Plan.Ex Unit Bool :=
  { rels := [⟨1, false⟩, ⟨2, false⟩, ⟨1, false⟩, ⟨1, false⟩, ⟨2, false⟩]
    rules := [
      { heads := [⟨2, [.var 1]⟩], body := [.clause 2 [.var 0] [], .clause 1 [.var 0, .var 1] []] },
      { heads := [⟨3, [.var 0]⟩],
        body := [.clause 0 [.var 0] [], .agg { outs := [], fn := false, boundArgs := [], rel := 2, args := [.key (.var 0)] }] },
      { heads := [⟨4, [.var 0, .var 1]⟩],
        body := [.clause 0 [.var 0] [], .agg { outs := [1], fn := true, boundArgs := [], rel := 1, args := [.key (.var 0), .wild] }] }] }

def sNeg : PSt :=
  initSt pNeg fun r =>
    if r = 0 then [[.int 1], [.int 2], [.int 3]] else if r = 1 then [[.int 1, .int 2]] else if r = 2 then [[.int 1]] else []

theorem neg_hyps :
    RelationalAgg pNeg ∧ validOrder pNeg [[0], [1], [2]] = true ∧ Stratified pNeg [[0], [1], [2]] ∧
    planOk Plan.exV pNeg (ixSetsOfA Plan.exV pNeg) = true ∧ aggPlanOk Plan.exV pNeg (ixSetsOfA Plan.exV pNeg) = true ∧
    (∀ r ∈ pNeg.rules, Hir.Desugared Plan.exV r = true ∧ Plan.WellScoped Plan.exV r = true) ∧
    ixSetsOfA Plan.exV pNeg 1 = [[0]] ∧
    (run exA Plan.exV pNeg (ixSetsOfA Plan.exV pNeg) [[0], [1], [2]] 10 sNeg).map (fun o => (o.st.map (·.rows), o.iters)) =
      some ([[[.int 1], [.int 2], [.int 3]], [[.int 1, .int 2]], [[.int 1], [.int 2]], [[.int 3]],
             [[.int 1, .int 1], [.int 2, .int 0], [.int 3, .int 0]]], [2, 1, 1]) :=
  ⟨⟨by decide, by decide⟩, by decide, by unfold Stratified; decide, by decide, by decide, by decide, by decide, by decide⟩

/-- the theorem applies to the example -/
example (out : ProgSt) (h : run exA Plan.exV pNeg (ixSetsOfA Plan.exV pNeg) [[0], [1], [2]] 10 sNeg = some out) :
    ∀ f, factsOf out.st f ↔
      Derivable exA pNeg.rules (fun r => (prel out.st r).rows) (fun g => g.rel < pNeg.rels.length ∧ factsOf sNeg g) f :=
  (runPhys_agg_eq_model exA exA_ext Plan.exV exA_supp exA_perm pNeg _ [[0], [1], [2]] sNeg 10 out neg_hyps.1 neg_hyps.2.1
    neg_hyps.2.2.1 neg_hyps.2.2.2.1 neg_hyps.2.2.2.2.1 neg_hyps.2.2.2.2.2.1
    ⟨by simp [sNeg, initSt, pNeg], by
      intro r t ht
      have hr : r < 5 ∨ 5 ≤ r := Nat.lt_or_ge r 5
      rcases hr with hr | hr
      · match r, hr with
        | 0, _ => simp [sNeg, initSt, pNeg, prel] at ht; rcases ht with rfl | rfl | rfl <;> rfl
        | 1, _ => simp [sNeg, initSt, pNeg, prel] at ht; subst ht; rfl
        | 2, _ => simp [sNeg, initSt, pNeg, prel] at ht; subst ht; rfl
        | 3, _ => simp [sNeg, initSt, pNeg, prel] at ht
        | 4, _ => simp [sNeg, initSt, pNeg, prel] at ht
      · rw [prel_of_ge sNeg r (by simpa [sNeg, initSt, pNeg] using hr)] at ht; cases ht⟩
    (by
      intro r
      have hr : r < 5 ∨ 5 ≤ r := Nat.lt_or_ge r 5
      rcases hr with hr | hr
      · match r, hr with
        | 0, _ => decide
        | 1, _ => decide
        | 2, _ => decide
        | 3, _ => decide
        | 4, _ => decide
      · rw [prel_of_ge sNeg r (by simpa [sNeg, initSt, pNeg] using hr)]; exact List.nodup_nil)
    h).2.2.1

#print axioms runPhys_agg_eq_model
#print axioms neg_hyps

end AscentVerif.Phys
