import AscentVerif.Props.C13Phys
import AscentVerif.Props.C13PhysAgg
import AscentVerif.Props.C13PhysPar
import AscentVerif.Props.C02PhysAgg
/-!
# C05 at the level of the physical indices: relations are sets, inputs are never lost

`Props/C05.lean` proves, for the abstract engine, that a tuple is inserted exactly once and that no input row is lost.  This file
lifts the statements to the models of the GENERATED code over its hash indices, as corollaries of the least-model theorems:

* serial `ascent!`, relational programs (`Phys.Ctx`, `runPhys_compiled_eq_leastModel`): `runPhys_rows_set`,
  `runPhys_rows_nodup`, `runPhys_inputs_kept`, `runPhys_each_fact_once`, `runPhys_nonfact_absent`, `runPhys_count`,
  `runPhys_dup_from_input`;
* serial `ascent!`, stratified programs with aggregation / negation (`Phys.CtxA`, `runPhys_agg_compiled_eq_model`; that theorem
  assumes duplicate-free start rows): `runPhys_agg_rows_set`, `runPhys_agg_rows_nodup`, `runPhys_agg_inputs_kept`,
  `runPhys_agg_each_fact_once`, `runPhys_agg_nonfact_absent`;
* `ascent_par!`, relational programs, EVERY schedule, pool size and fuel (`PhysPar.CtxPar`, `runPhysPar_spec`):
  `runPhysPar_rows_set`, `runPhysPar_rows_nodup`, `runPhysPar_inputs_kept`, `runPhysPar_each_fact_once`,
  `runPhysPar_nonfact_absent`, `runPhysPar_count`, `runPhysPar_dup_from_input`;
* `ascent_par!`, stratified programs with aggregation / negation (`PhysPar.CtxParA`, `runPhysPar_agg_eq_model`):
  `runPhysPar_agg_rows_set`, `runPhysPar_agg_rows_nodup`, `runPhysPar_agg_inputs_kept`, `runPhysPar_agg_each_fact_once`,
  `runPhysPar_agg_nonfact_absent`.

All statements are about EVERY relation identifier (an undeclared one has the empty row vector before and after) and start from
ANY program value `run()` may be called on (fresh, re-run, pushed into, resumed) — whatever its stored indices hold.

"Exactly once" is `List.count t rows = 1` (`Tuple = List Val` has decidable equality).  Without the hypothesis that the start
rows are duplicate-free, `…_count` gives the multiplicity of every tuple in the result: that of the start vector if the tuple was
a start row, `1` if the run derived it, `0` otherwise — so (`…_dup_from_input`) a duplicate in the result is a duplicate the
caller supplied, with the same multiplicity.
-/
namespace AscentVerif.RowsExt
open AscentVerif

/-- what `run()` does to a row vector: `new` is `old` followed by pairwise distinct rows none of which occurs in `old` -/
def Ext (old new : List Tuple) : Prop :=
  ∃ derived, new = old ++ derived ∧ derived.Nodup ∧ ∀ t ∈ derived, t ∉ old

theorem Ext.refl_nil : Ext [] [] := ⟨[], rfl, List.nodup_nil, fun _ h => by cases h⟩

theorem Ext.nodup {old new : List Tuple} (h : Ext old new) (hn : old.Nodup) : new.Nodup := by
  obtain ⟨d, hd, hnd, hdis⟩ := h
  rw [hd]
  exact List.nodup_append.mpr ⟨hn, hnd, fun a ha b hb hab => hdis b hb (hab ▸ ha)⟩

theorem Ext.prefix {old new : List Tuple} (h : Ext old new) : old <+: new := by
  obtain ⟨d, hd, _, _⟩ := h
  rw [hd]
  exact List.prefix_append old d

theorem Ext.getElem? {old new : List Tuple} (h : Ext old new) (i : Nat) (hi : i < old.length) : new[i]? = old[i]? := by
  obtain ⟨d, hd, _, _⟩ := h
  rw [hd, List.getElem?_append_left hi]

theorem Ext.mem_old {old new : List Tuple} (h : Ext old new) {t : Tuple} (ht : t ∈ old) : t ∈ new := by
  obtain ⟨d, hd, _, _⟩ := h
  rw [hd]
  exact List.mem_append_left _ ht

/-- the multiplicity of a tuple after the run -/
theorem Ext.count {old new : List Tuple} (h : Ext old new) (t : Tuple) :
    new.count t = if t ∈ old then old.count t else if t ∈ new then 1 else 0 := by
  obtain ⟨d, hd, hnd, hdis⟩ := h
  subst hd
  rw [List.count_append]
  by_cases ho : t ∈ old
  · have hd' : t ∉ d := fun hd' => hdis t hd' ho
    rw [if_pos ho, List.count_eq_zero_of_not_mem hd', Nat.add_zero]
  · rw [if_neg ho, List.count_eq_zero_of_not_mem ho, Nat.zero_add, hnd.count]
    by_cases hd' : t ∈ d
    · rw [if_pos hd', if_pos (List.mem_append_right _ hd')]
    · rw [if_neg hd', if_neg (fun hm => (List.mem_append.mp hm).elim ho hd')]

theorem Ext.count_eq_one {old new : List Tuple} (h : Ext old new) (hn : old.Nodup) {t : Tuple} (ht : t ∈ new) :
    new.count t = 1 := by
  rw [(h.nodup hn).count, if_pos ht]

/-- a duplicate in the result is a duplicate of the start vector, with the same multiplicity -/
theorem Ext.dup_from_old {old new : List Tuple} (h : Ext old new) {t : Tuple} (ht : 1 < new.count t) :
    t ∈ old ∧ old.count t = new.count t := by
  have hc := h.count t
  by_cases ho : t ∈ old
  · rw [if_pos ho] at hc
    exact ⟨ho, hc.symm⟩
  · rw [if_neg ho] at hc
    exfalso
    by_cases hn : t ∈ new
    · rw [if_pos hn] at hc; omega
    · rw [if_neg hn] at hc; omega

end AscentVerif.RowsExt

/-! ## serial `ascent!` -/
namespace AscentVerif.Phys
open AscentVerif AscentVerif.Engine AscentVerif.Index AscentVerif.RowsExt

variable {E B G P A : Type}

/-- from the per-relation statement of the least-model theorems (declared relations) to every relation identifier -/
theorem ext_all {p : Program E B G P A} {s o : PSt} (hs : s.length = p.rels.length) (ho : o.length = p.rels.length)
    (h : ∀ r, r < p.rels.length → ∃ derived, (prel o r).rows = (prel s r).rows ++ derived ∧
      derived.Nodup ∧ ∀ t ∈ derived, t ∉ (prel s r).rows) :
    ∀ r, Ext (prel s r).rows (prel o r).rows := by
  intro r
  rcases Nat.lt_or_ge r p.rels.length with hr | hr
  · exact h r hr
  · rw [prel_of_ge s r (by rw [hs]; exact hr), prel_of_ge o r (by rw [ho]; exact hr)]
    exact Ext.refl_nil

/-! ### relational programs (`Ctx`) -/

/-- the engine-level facts everything below follows from: the least model, and every row vector extended by fresh distinct rows -/
theorem runPhys_ext (I : Interp E B G P A) (V : Hir.VarsOf E B) (p : Program E B G P A) (order : SccOrder)
    (c : Ctx I V p order) (s : PSt) (fuel : Nat) (o : ProgSt) (hs : WFPSt p s)
    (h : run I V p (ixSetsOf V p) order fuel s = some o) :
    (∀ f, factsOf o.st f ↔ Derivable I p.rules noAgg (stDB p s) f) ∧ ∀ r, Ext (prel s r).rows (prel o.st r).rows := by
  obtain ⟨hw, hm, hr⟩ := runPhys_compiled_eq_leastModel I c.ext V c.supp p order s fuel o c.rel c.order c.arity c.rules hs h
  exact ⟨hm, ext_all hs.1 hw.1 hr⟩

/-- **the rows a `run()` adds are pairwise distinct and distinct from all start rows** (no hypothesis on the start rows): the
row vector of EVERY relation after the run is the one before followed by pairwise distinct tuples none of which was there -/
theorem runPhys_rows_set (I : Interp E B G P A) (V : Hir.VarsOf E B) (p : Program E B G P A) (order : SccOrder)
    (c : Ctx I V p order) (s : PSt) (fuel : Nat) (o : ProgSt) (hs : WFPSt p s)
    (h : run I V p (ixSetsOf V p) order fuel s = some o) :
    ∀ r, ∃ derived, (prel o.st r).rows = (prel s r).rows ++ derived ∧ derived.Nodup ∧ ∀ t ∈ derived, t ∉ (prel s r).rows :=
  (runPhys_ext I V p order c s fuel o hs h).2

/-- **relations are sets**: a relation whose start row vector is duplicate-free has a duplicate-free row vector after the run -/
theorem runPhys_rows_nodup (I : Interp E B G P A) (V : Hir.VarsOf E B) (p : Program E B G P A) (order : SccOrder)
    (c : Ctx I V p order) (s : PSt) (fuel : Nat) (o : ProgSt) (hs : WFPSt p s)
    (h : run I V p (ixSetsOf V p) order fuel s = some o) :
    ∀ r, (prel s r).rows.Nodup → (prel o.st r).rows.Nodup :=
  fun r hn => ((runPhys_ext I V p order c s fuel o hs h).2 r).nodup hn

/-- **inputs are never lost**: every start row is still there, unmodified and at its old position -/
theorem runPhys_inputs_kept (I : Interp E B G P A) (V : Hir.VarsOf E B) (p : Program E B G P A) (order : SccOrder)
    (c : Ctx I V p order) (s : PSt) (fuel : Nat) (o : ProgSt) (hs : WFPSt p s)
    (h : run I V p (ixSetsOf V p) order fuel s = some o) :
    ∀ r, (prel s r).rows <+: (prel o.st r).rows ∧
      ∀ i, i < (prel s r).rows.length → (prel o.st r).rows[i]? = (prel s r).rows[i]? :=
  fun r => ⟨((runPhys_ext I V p order c s fuel o hs h).2 r).prefix, ((runPhys_ext I V p order c s fuel o hs h).2 r).getElem?⟩

/-- **every derivable fact is stored exactly once**: if the start rows of its relation are duplicate-free, a fact of the least
model of the start value's rows occurs at exactly one position of its relation's row vector -/
theorem runPhys_each_fact_once (I : Interp E B G P A) (V : Hir.VarsOf E B) (p : Program E B G P A) (order : SccOrder)
    (c : Ctx I V p order) (s : PSt) (fuel : Nat) (o : ProgSt) (hs : WFPSt p s)
    (h : run I V p (ixSetsOf V p) order fuel s = some o) :
    ∀ f, (prel s f.rel).rows.Nodup → Derivable I p.rules noAgg (stDB p s) f → (prel o.st f.rel).rows.count f.args = 1 := by
  obtain ⟨hm, hx⟩ := runPhys_ext I V p order c s fuel o hs h
  exact fun f hn hf => (hx f.rel).count_eq_one hn ((hm f).mpr hf)

/-- … and nothing else is stored: a fact that is not derivable occurs nowhere -/
theorem runPhys_nonfact_absent (I : Interp E B G P A) (V : Hir.VarsOf E B) (p : Program E B G P A) (order : SccOrder)
    (c : Ctx I V p order) (s : PSt) (fuel : Nat) (o : ProgSt) (hs : WFPSt p s)
    (h : run I V p (ixSetsOf V p) order fuel s = some o) :
    ∀ f, ¬ Derivable I p.rules noAgg (stDB p s) f → (prel o.st f.rel).rows.count f.args = 0 := by
  obtain ⟨hm, _⟩ := runPhys_ext I V p order c s fuel o hs h
  exact fun f hf => List.count_eq_zero_of_not_mem fun hin => hf ((hm f).mp hin)

/-- **the multiplicity of every tuple after the run**, without any hypothesis on the start rows: that of the start vector for a
start row, `1` for a tuple the run derived, `0` otherwise -/
theorem runPhys_count (I : Interp E B G P A) (V : Hir.VarsOf E B) (p : Program E B G P A) (order : SccOrder)
    (c : Ctx I V p order) (s : PSt) (fuel : Nat) (o : ProgSt) (hs : WFPSt p s)
    (h : run I V p (ixSetsOf V p) order fuel s = some o) :
    ∀ r t, (prel o.st r).rows.count t =
      if t ∈ (prel s r).rows then (prel s r).rows.count t else if t ∈ (prel o.st r).rows then 1 else 0 :=
  fun r t => ((runPhys_ext I V p order c s fuel o hs h).2 r).count t

/-- **a duplicate in the result is a duplicate the caller supplied**: a tuple stored more than once after the run was a start
row, stored as many times before the run -/
theorem runPhys_dup_from_input (I : Interp E B G P A) (V : Hir.VarsOf E B) (p : Program E B G P A) (order : SccOrder)
    (c : Ctx I V p order) (s : PSt) (fuel : Nat) (o : ProgSt) (hs : WFPSt p s)
    (h : run I V p (ixSetsOf V p) order fuel s = some o) :
    ∀ r t, 1 < (prel o.st r).rows.count t → t ∈ (prel s r).rows ∧ (prel s r).rows.count t = (prel o.st r).rows.count t :=
  fun r _ ht => ((runPhys_ext I V p order c s fuel o hs h).2 r).dup_from_old ht

/-! ### stratified programs with aggregation / negation (`CtxA`; the start rows are duplicate-free: the hypothesis of
`runPhys_agg_compiled_eq_model`, the aggregators count rows) -/

theorem runPhys_agg_ext (I : Interp E B G P A) (V : Hir.VarsOf E B) (p : Program E B G P A) (order : SccOrder)
    (c : CtxA I V p order) (s : PSt) (fuel : Nat) (o : ProgSt) (hs : WFPSt p s) (hnd : ∀ r, (prel s r).rows.Nodup)
    (h : run I V p (ixSetsOfA V p) order fuel s = some o) :
    (∀ f, factsOf o.st f ↔ Derivable I p.rules (fun r => (prel o.st r).rows) (stDB p s) f) ∧
    ∀ r, Ext (prel s r).rows (prel o.st r).rows := by
  obtain ⟨hw, _, hm, hr⟩ := runPhys_agg_compiled_eq_model I c.ext V c.supp c.perm p order s fuel o c.rel c.valid c.strat c.arity
    c.aggArity c.rules hs hnd h
  exact ⟨hm, ext_all hs.1 hw.1 hr⟩

/-- the rows the run adds are pairwise distinct and distinct from all start rows -/
theorem runPhys_agg_rows_set (I : Interp E B G P A) (V : Hir.VarsOf E B) (p : Program E B G P A) (order : SccOrder)
    (c : CtxA I V p order) (s : PSt) (fuel : Nat) (o : ProgSt) (hs : WFPSt p s) (hnd : ∀ r, (prel s r).rows.Nodup)
    (h : run I V p (ixSetsOfA V p) order fuel s = some o) :
    ∀ r, ∃ derived, (prel o.st r).rows = (prel s r).rows ++ derived ∧ derived.Nodup ∧ ∀ t ∈ derived, t ∉ (prel s r).rows :=
  (runPhys_agg_ext I V p order c s fuel o hs hnd h).2

/-- **relations are sets**, aggregation and negation included -/
theorem runPhys_agg_rows_nodup (I : Interp E B G P A) (V : Hir.VarsOf E B) (p : Program E B G P A) (order : SccOrder)
    (c : CtxA I V p order) (s : PSt) (fuel : Nat) (o : ProgSt) (hs : WFPSt p s) (hnd : ∀ r, (prel s r).rows.Nodup)
    (h : run I V p (ixSetsOfA V p) order fuel s = some o) :
    ∀ r, (prel o.st r).rows.Nodup :=
  fun r => ((runPhys_agg_ext I V p order c s fuel o hs hnd h).2 r).nodup (hnd r)

/-- **inputs are never lost** -/
theorem runPhys_agg_inputs_kept (I : Interp E B G P A) (V : Hir.VarsOf E B) (p : Program E B G P A) (order : SccOrder)
    (c : CtxA I V p order) (s : PSt) (fuel : Nat) (o : ProgSt) (hs : WFPSt p s) (hnd : ∀ r, (prel s r).rows.Nodup)
    (h : run I V p (ixSetsOfA V p) order fuel s = some o) :
    ∀ r, (prel s r).rows <+: (prel o.st r).rows ∧
      ∀ i, i < (prel s r).rows.length → (prel o.st r).rows[i]? = (prel s r).rows[i]? :=
  fun r => ⟨((runPhys_agg_ext I V p order c s fuel o hs hnd h).2 r).prefix,
    ((runPhys_agg_ext I V p order c s fuel o hs hnd h).2 r).getElem?⟩

/-- **every fact of the stratified model is stored exactly once** (the model: the least model in which every aggregation reads
the final rows of its relation) -/
theorem runPhys_agg_each_fact_once (I : Interp E B G P A) (V : Hir.VarsOf E B) (p : Program E B G P A) (order : SccOrder)
    (c : CtxA I V p order) (s : PSt) (fuel : Nat) (o : ProgSt) (hs : WFPSt p s) (hnd : ∀ r, (prel s r).rows.Nodup)
    (h : run I V p (ixSetsOfA V p) order fuel s = some o) :
    ∀ f, Derivable I p.rules (fun r => (prel o.st r).rows) (stDB p s) f → (prel o.st f.rel).rows.count f.args = 1 := by
  obtain ⟨hm, hx⟩ := runPhys_agg_ext I V p order c s fuel o hs hnd h
  exact fun f hf => (hx f.rel).count_eq_one (hnd f.rel) ((hm f).mpr hf)

theorem runPhys_agg_nonfact_absent (I : Interp E B G P A) (V : Hir.VarsOf E B) (p : Program E B G P A) (order : SccOrder)
    (c : CtxA I V p order) (s : PSt) (fuel : Nat) (o : ProgSt) (hs : WFPSt p s) (hnd : ∀ r, (prel s r).rows.Nodup)
    (h : run I V p (ixSetsOfA V p) order fuel s = some o) :
    ∀ f, ¬ Derivable I p.rules (fun r => (prel o.st r).rows) (stDB p s) f → (prel o.st f.rel).rows.count f.args = 0 := by
  obtain ⟨hm, _⟩ := runPhys_agg_ext I V p order c s fuel o hs hnd h
  exact fun f hf => List.count_eq_zero_of_not_mem fun hin => hf ((hm f).mp hin)

/-! ### non-vacuity: transitive closure (`pTC`, `sTC`, `tc_ctx`), and a start value with a duplicate `edge` row -/

theorem sTC_nodup : ∀ r, (prel sTC r).rows.Nodup := by
  intro r
  match r with
  | 0 => decide
  | 1 => decide
  | r + 2 => rw [prel_of_ge sTC (r + 2) (Nat.le_add_left 2 r : 2 ≤ r + 2)]; exact List.nodup_nil

/-- the theorems apply to the example: every hypothesis holds -/
example (o : ProgSt) (h : run Plan.exI Plan.exV pTC (ixSetsOf Plan.exV pTC) [[0], [1]] 10 sTC = some o) :
    (∀ r, (prel o.st r).rows.Nodup) ∧
    (∀ r, (prel sTC r).rows <+: (prel o.st r).rows) ∧
    (∀ f, Derivable Plan.exI pTC.rules noAgg (stDB pTC sTC) f → (prel o.st f.rel).rows.count f.args = 1) :=
  ⟨fun r => runPhys_rows_nodup Plan.exI Plan.exV pTC _ tc_ctx sTC 10 o wf_sTC h r (sTC_nodup r),
   fun r => (runPhys_inputs_kept Plan.exI Plan.exV pTC _ tc_ctx sTC 10 o wf_sTC h r).1,
   fun f => runPhys_each_fact_once Plan.exI Plan.exV pTC _ tc_ctx sTC 10 o wf_sTC h f (sTC_nodup f.rel)⟩

/-- … and the run does return: `path` holds each of its three tuples once, `edge` is unchanged -/
example :
    (run Plan.exI Plan.exV pTC (ixSetsOf Plan.exV pTC) [[0], [1]] 10 sTC).map (fun o => o.st.map (·.rows)) =
      some [[[.int 1, .int 2], [.int 2, .int 3]], [[.int 1, .int 2], [.int 2, .int 3], [.int 1, .int 3]]] ∧
    ([[Val.int 1, .int 2], [.int 2, .int 3], [.int 1, .int 3]] : List Tuple).count [.int 1, .int 3] = 1 :=
  ⟨by decide, by decide⟩

/-- `edge` pushed with the row `(1, 2)` twice -/
def sTCdup : PSt := initSt pTC fun r => if r = 0 then [[.int 1, .int 2], [.int 1, .int 2], [.int 2, .int 3]] else []

theorem wf_sTCdup : WFPSt pTC sTCdup := by
  refine ⟨by decide, ?_⟩
  intro r t ht
  match r, ht with
  | 0, ht =>
    have : t ∈ [[Val.int 1, .int 2], [.int 1, .int 2], [.int 2, .int 3]] := ht
    simp only [List.mem_cons, List.not_mem_nil, or_false] at this
    rcases this with rfl | rfl | rfl <;> rfl
  | 1, ht => cases ht
  | r + 2, ht => cases ht

/-- the duplicate the caller supplied stays (`run()` never removes a row), but the run adds none: `path(1, 2)`, derived from
both copies of `edge(1, 2)`, is stored once -/
example :
    (run Plan.exI Plan.exV pTC (ixSetsOf Plan.exV pTC) [[0], [1]] 10 sTCdup).map (fun o => o.st.map (·.rows)) =
      some [[[.int 1, .int 2], [.int 1, .int 2], [.int 2, .int 3]], [[.int 1, .int 2], [.int 2, .int 3], [.int 1, .int 3]]] := by
  decide

example (o : ProgSt) (h : run Plan.exI Plan.exV pTC (ixSetsOf Plan.exV pTC) [[0], [1]] 10 sTCdup = some o) :
    (prel o.st 1).rows.Nodup ∧
    ∀ r t, 1 < (prel o.st r).rows.count t → t ∈ (prel sTCdup r).rows ∧ (prel sTCdup r).rows.count t = (prel o.st r).rows.count t :=
  ⟨runPhys_rows_nodup Plan.exI Plan.exV pTC _ tc_ctx sTCdup 10 o wf_sTCdup h 1 (by decide),
   runPhys_dup_from_input Plan.exI Plan.exV pTC _ tc_ctx sTCdup 10 o wf_sTCdup h⟩

/-! ### non-vacuity with aggregation / negation: the program of `Props/C04Phys.lean` (`pNeg`, `sNeg`, `negA_ctx`) -/

theorem wf_sNeg : WFPSt pNeg sNeg := by
  refine ⟨by decide, ?_⟩
  intro r t ht
  match r, ht with
  | 0, ht =>
    have : t ∈ [[Val.int 1], [.int 2], [.int 3]] := ht
    simp only [List.mem_cons, List.not_mem_nil, or_false] at this
    rcases this with rfl | rfl | rfl <;> rfl
  | 1, ht =>
    have : t ∈ [[Val.int 1, .int 2]] := ht
    simp only [List.mem_cons, List.not_mem_nil, or_false] at this
    subst this; rfl
  | 2, ht =>
    have : t ∈ [[Val.int 1]] := ht
    simp only [List.mem_cons, List.not_mem_nil, or_false] at this
    subst this; rfl
  | 3, ht => cases ht
  | 4, ht => cases ht
  | r + 5, ht => cases ht

theorem sNeg_nodup : ∀ r, (prel sNeg r).rows.Nodup := by
  intro r
  match r with
  | 0 => decide
  | 1 => decide
  | 2 => decide
  | 3 => decide
  | 4 => decide
  | r + 5 => rw [prel_of_ge sNeg (r + 5) (Nat.le_add_left 5 r : 5 ≤ r + 5)]; exact List.nodup_nil

example (o : ProgSt) (h : run exA Plan.exV pNeg (ixSetsOfA Plan.exV pNeg) [[0], [1], [2]] 10 sNeg = some o) :
    (∀ r, (prel o.st r).rows.Nodup) ∧
    (∀ r, (prel sNeg r).rows <+: (prel o.st r).rows) ∧
    (∀ f, Derivable exA pNeg.rules (fun r => (prel o.st r).rows) (stDB pNeg sNeg) f → (prel o.st f.rel).rows.count f.args = 1) :=
  ⟨runPhys_agg_rows_nodup exA Plan.exV pNeg _ negA_ctx sNeg 10 o wf_sNeg sNeg_nodup h,
   fun r => (runPhys_agg_inputs_kept exA Plan.exV pNeg _ negA_ctx sNeg 10 o wf_sNeg sNeg_nodup h r).1,
   runPhys_agg_each_fact_once exA Plan.exV pNeg _ negA_ctx sNeg 10 o wf_sNeg sNeg_nodup h⟩

/-! ### axiom audit -/
#print axioms runPhys_rows_set
#print axioms runPhys_rows_nodup
#print axioms runPhys_inputs_kept
#print axioms runPhys_each_fact_once
#print axioms runPhys_nonfact_absent
#print axioms runPhys_count
#print axioms runPhys_dup_from_input
#print axioms runPhys_agg_rows_set
#print axioms runPhys_agg_rows_nodup
#print axioms runPhys_agg_inputs_kept
#print axioms runPhys_agg_each_fact_once
#print axioms runPhys_agg_nonfact_absent

end AscentVerif.Phys

/-! ## `ascent_par!`: every schedule, every pool size, every fuel -/
namespace AscentVerif.PhysPar
open AscentVerif AscentVerif.Engine AscentVerif.Index AscentVerif.Phys AscentVerif.RowsExt

variable {E B G P A : Type}

theorem ext_allPar {p : Program E B G P A} {s o : PCSt} (hs : s.length = p.rels.length) (ho : o.length = p.rels.length)
    (h : ∀ r, r < p.rels.length → ∃ derived, (pcrel o r).rows = (pcrel s r).rows ++ derived ∧
      derived.Nodup ∧ ∀ t ∈ derived, t ∉ (pcrel s r).rows) :
    ∀ r, Ext (pcrel s r).rows (pcrel o r).rows := by
  intro r
  rcases Nat.lt_or_ge r p.rels.length with hr | hr
  · exact h r hr
  · rw [pcrel_of_ge s r (by rw [hs]; exact hr), pcrel_of_ge o r (by rw [ho]; exact hr)]
    exact Ext.refl_nil

/-! ### relational programs (`CtxPar`) -/

theorem runPhysPar_ext (I : Interp E B G P A) (V : Hir.VarsOf E B) (p : Program E B G P A) (order : SccOrder)
    (c : CtxPar I V p order) (σ : Sched E B G P A) (threads fuel : Nat) (s : PCSt) (o : ProgSt) (hs : WFPCSt p s)
    (h : run I V p (ixSetsOf V p) order σ threads fuel s = .ok (some o)) :
    (∀ f, factsOf o.st f ↔ Derivable I p.rules noAgg (stDB p s) f) ∧ ∀ r, Ext (pcrel s r).rows (pcrel o.st r).rows := by
  obtain ⟨hw, hm, hr⟩ := runPhysPar_spec I V p order c σ threads fuel s o hs h
  exact ⟨hm, ext_allPar hs.1 hw.1 hr⟩

/-- **the rows a parallel `run()` adds are pairwise distinct and distinct from all start rows**, under every schedule, in every
pool (no hypothesis on the start rows) -/
theorem runPhysPar_rows_set (I : Interp E B G P A) (V : Hir.VarsOf E B) (p : Program E B G P A) (order : SccOrder)
    (c : CtxPar I V p order) (σ : Sched E B G P A) (threads fuel : Nat) (s : PCSt) (o : ProgSt) (hs : WFPCSt p s)
    (h : run I V p (ixSetsOf V p) order σ threads fuel s = .ok (some o)) :
    ∀ r, ∃ derived, (pcrel o.st r).rows = (pcrel s r).rows ++ derived ∧ derived.Nodup ∧ ∀ t ∈ derived, t ∉ (pcrel s r).rows :=
  (runPhysPar_ext I V p order c σ threads fuel s o hs h).2

/-- **relations are sets** under every schedule, in every pool: however many workers derive a tuple at the same time -/
theorem runPhysPar_rows_nodup (I : Interp E B G P A) (V : Hir.VarsOf E B) (p : Program E B G P A) (order : SccOrder)
    (c : CtxPar I V p order) (σ : Sched E B G P A) (threads fuel : Nat) (s : PCSt) (o : ProgSt) (hs : WFPCSt p s)
    (h : run I V p (ixSetsOf V p) order σ threads fuel s = .ok (some o)) :
    ∀ r, (pcrel s r).rows.Nodup → (pcrel o.st r).rows.Nodup :=
  fun r hn => ((runPhysPar_ext I V p order c σ threads fuel s o hs h).2 r).nodup hn

/-- **inputs are never lost**: every start row is still there, unmodified and at its old position -/
theorem runPhysPar_inputs_kept (I : Interp E B G P A) (V : Hir.VarsOf E B) (p : Program E B G P A) (order : SccOrder)
    (c : CtxPar I V p order) (σ : Sched E B G P A) (threads fuel : Nat) (s : PCSt) (o : ProgSt) (hs : WFPCSt p s)
    (h : run I V p (ixSetsOf V p) order σ threads fuel s = .ok (some o)) :
    ∀ r, (pcrel s r).rows <+: (pcrel o.st r).rows ∧
      ∀ i, i < (pcrel s r).rows.length → (pcrel o.st r).rows[i]? = (pcrel s r).rows[i]? :=
  fun r => ⟨((runPhysPar_ext I V p order c σ threads fuel s o hs h).2 r).prefix,
    ((runPhysPar_ext I V p order c σ threads fuel s o hs h).2 r).getElem?⟩

/-- **every derivable fact is stored exactly once** -/
theorem runPhysPar_each_fact_once (I : Interp E B G P A) (V : Hir.VarsOf E B) (p : Program E B G P A) (order : SccOrder)
    (c : CtxPar I V p order) (σ : Sched E B G P A) (threads fuel : Nat) (s : PCSt) (o : ProgSt) (hs : WFPCSt p s)
    (h : run I V p (ixSetsOf V p) order σ threads fuel s = .ok (some o)) :
    ∀ f, (pcrel s f.rel).rows.Nodup → Derivable I p.rules noAgg (stDB p s) f → (pcrel o.st f.rel).rows.count f.args = 1 := by
  obtain ⟨hm, hx⟩ := runPhysPar_ext I V p order c σ threads fuel s o hs h
  exact fun f hn hf => (hx f.rel).count_eq_one hn ((hm f).mpr hf)

theorem runPhysPar_nonfact_absent (I : Interp E B G P A) (V : Hir.VarsOf E B) (p : Program E B G P A) (order : SccOrder)
    (c : CtxPar I V p order) (σ : Sched E B G P A) (threads fuel : Nat) (s : PCSt) (o : ProgSt) (hs : WFPCSt p s)
    (h : run I V p (ixSetsOf V p) order σ threads fuel s = .ok (some o)) :
    ∀ f, ¬ Derivable I p.rules noAgg (stDB p s) f → (pcrel o.st f.rel).rows.count f.args = 0 := by
  obtain ⟨hm, _⟩ := runPhysPar_ext I V p order c σ threads fuel s o hs h
  exact fun f hf => List.count_eq_zero_of_not_mem fun hin => hf ((hm f).mp hin)

/-- **the multiplicity of every tuple after the run**, without any hypothesis on the start rows -/
theorem runPhysPar_count (I : Interp E B G P A) (V : Hir.VarsOf E B) (p : Program E B G P A) (order : SccOrder)
    (c : CtxPar I V p order) (σ : Sched E B G P A) (threads fuel : Nat) (s : PCSt) (o : ProgSt) (hs : WFPCSt p s)
    (h : run I V p (ixSetsOf V p) order σ threads fuel s = .ok (some o)) :
    ∀ r t, (pcrel o.st r).rows.count t =
      if t ∈ (pcrel s r).rows then (pcrel s r).rows.count t else if t ∈ (pcrel o.st r).rows then 1 else 0 :=
  fun r t => ((runPhysPar_ext I V p order c σ threads fuel s o hs h).2 r).count t

/-- **a duplicate in the result is a duplicate the caller supplied** -/
theorem runPhysPar_dup_from_input (I : Interp E B G P A) (V : Hir.VarsOf E B) (p : Program E B G P A) (order : SccOrder)
    (c : CtxPar I V p order) (σ : Sched E B G P A) (threads fuel : Nat) (s : PCSt) (o : ProgSt) (hs : WFPCSt p s)
    (h : run I V p (ixSetsOf V p) order σ threads fuel s = .ok (some o)) :
    ∀ r t, 1 < (pcrel o.st r).rows.count t → t ∈ (pcrel s r).rows ∧ (pcrel s r).rows.count t = (pcrel o.st r).rows.count t :=
  fun r _ ht => ((runPhysPar_ext I V p order c σ threads fuel s o hs h).2 r).dup_from_old ht

/-! ### stratified programs with aggregation / negation -/

/-- the standing hypotheses of `runPhysPar_agg_eq_model`: those of `Phys.CtxA` plus declared body relations -/
structure CtxParA (I : Interp E B G P A) (V : Hir.VarsOf E B) (p : Program E B G P A) (order : SccOrder) : Prop where
  ext : Plan.Ext I
  supp : Plan.Supp I V
  perm : AggPermInvariant I
  rel : RelationalAgg p
  valid : validOrder p order = true
  strat : Stratified p order
  arity : arityOk p = true
  aggArity : aggArityOk p = true
  decl : bodyDeclared p = true
  rules : ∀ r ∈ p.rules, Hir.Desugared V r = true ∧ Plan.WellScoped V r = true

theorem CtxParA.toCtxA {I : Interp E B G P A} {V : Hir.VarsOf E B} {p : Program E B G P A} {order : SccOrder}
    (c : CtxParA I V p order) : Phys.CtxA I V p order :=
  ⟨c.ext, c.supp, c.perm, c.rel, c.valid, c.strat, c.arity, c.aggArity, c.rules⟩

theorem runPhysPar_agg_ext (I : Interp E B G P A) (V : Hir.VarsOf E B) (p : Program E B G P A) (order : SccOrder)
    (c : CtxParA I V p order) (σ : Sched E B G P A) (threads fuel : Nat) (s : PCSt) (o : ProgSt) (hs : WFPCSt p s)
    (hnd : ∀ r, (pcrel s r).rows.Nodup)
    (h : run I V p (ixSetsOfA V p) order σ threads fuel s = .ok (some o)) :
    (∀ f, factsOf o.st f ↔ Derivable I p.rules (fun r => (pcrel o.st r).rows) (stDB p s) f) ∧
    ∀ r, Ext (pcrel s r).rows (pcrel o.st r).rows := by
  obtain ⟨res, hres, hsp⟩ := runPhysPar_agg_eq_model I c.ext V c.supp c.perm p order σ threads fuel s c.rel c.valid c.strat
    c.arity c.aggArity c.decl c.rules hs hnd
  rw [h] at hres
  have hres' : res = some o := by
    injection hres with hres
    exact hres.symm
  obtain ⟨hw, _, hm, hr⟩ := hsp o hres'
  exact ⟨hm, ext_allPar hs.1 hw.1 hr⟩

theorem runPhysPar_agg_rows_set (I : Interp E B G P A) (V : Hir.VarsOf E B) (p : Program E B G P A) (order : SccOrder)
    (c : CtxParA I V p order) (σ : Sched E B G P A) (threads fuel : Nat) (s : PCSt) (o : ProgSt) (hs : WFPCSt p s)
    (hnd : ∀ r, (pcrel s r).rows.Nodup)
    (h : run I V p (ixSetsOfA V p) order σ threads fuel s = .ok (some o)) :
    ∀ r, ∃ derived, (pcrel o.st r).rows = (pcrel s r).rows ++ derived ∧ derived.Nodup ∧ ∀ t ∈ derived, t ∉ (pcrel s r).rows :=
  (runPhysPar_agg_ext I V p order c σ threads fuel s o hs hnd h).2

/-- **relations are sets**, aggregation and negation included, under every schedule, in every pool -/
theorem runPhysPar_agg_rows_nodup (I : Interp E B G P A) (V : Hir.VarsOf E B) (p : Program E B G P A) (order : SccOrder)
    (c : CtxParA I V p order) (σ : Sched E B G P A) (threads fuel : Nat) (s : PCSt) (o : ProgSt) (hs : WFPCSt p s)
    (hnd : ∀ r, (pcrel s r).rows.Nodup)
    (h : run I V p (ixSetsOfA V p) order σ threads fuel s = .ok (some o)) :
    ∀ r, (pcrel o.st r).rows.Nodup :=
  fun r => ((runPhysPar_agg_ext I V p order c σ threads fuel s o hs hnd h).2 r).nodup (hnd r)

/-- **inputs are never lost** -/
theorem runPhysPar_agg_inputs_kept (I : Interp E B G P A) (V : Hir.VarsOf E B) (p : Program E B G P A) (order : SccOrder)
    (c : CtxParA I V p order) (σ : Sched E B G P A) (threads fuel : Nat) (s : PCSt) (o : ProgSt) (hs : WFPCSt p s)
    (hnd : ∀ r, (pcrel s r).rows.Nodup)
    (h : run I V p (ixSetsOfA V p) order σ threads fuel s = .ok (some o)) :
    ∀ r, (pcrel s r).rows <+: (pcrel o.st r).rows ∧
      ∀ i, i < (pcrel s r).rows.length → (pcrel o.st r).rows[i]? = (pcrel s r).rows[i]? :=
  fun r => ⟨((runPhysPar_agg_ext I V p order c σ threads fuel s o hs hnd h).2 r).prefix,
    ((runPhysPar_agg_ext I V p order c σ threads fuel s o hs hnd h).2 r).getElem?⟩

/-- **every fact of the stratified model is stored exactly once** -/
theorem runPhysPar_agg_each_fact_once (I : Interp E B G P A) (V : Hir.VarsOf E B) (p : Program E B G P A) (order : SccOrder)
    (c : CtxParA I V p order) (σ : Sched E B G P A) (threads fuel : Nat) (s : PCSt) (o : ProgSt) (hs : WFPCSt p s)
    (hnd : ∀ r, (pcrel s r).rows.Nodup)
    (h : run I V p (ixSetsOfA V p) order σ threads fuel s = .ok (some o)) :
    ∀ f, Derivable I p.rules (fun r => (pcrel o.st r).rows) (stDB p s) f → (pcrel o.st f.rel).rows.count f.args = 1 := by
  obtain ⟨hm, hx⟩ := runPhysPar_agg_ext I V p order c σ threads fuel s o hs hnd h
  exact fun f hf => (hx f.rel).count_eq_one (hnd f.rel) ((hm f).mpr hf)

theorem runPhysPar_agg_nonfact_absent (I : Interp E B G P A) (V : Hir.VarsOf E B) (p : Program E B G P A) (order : SccOrder)
    (c : CtxParA I V p order) (σ : Sched E B G P A) (threads fuel : Nat) (s : PCSt) (o : ProgSt) (hs : WFPCSt p s)
    (hnd : ∀ r, (pcrel s r).rows.Nodup)
    (h : run I V p (ixSetsOfA V p) order σ threads fuel s = .ok (some o)) :
    ∀ f, ¬ Derivable I p.rules (fun r => (pcrel o.st r).rows) (stDB p s) f → (pcrel o.st f.rel).rows.count f.args = 0 := by
  obtain ⟨hm, _⟩ := runPhysPar_agg_ext I V p order c σ threads fuel s o hs hnd h
  exact fun f hf => List.count_eq_zero_of_not_mem fun hin => hf ((hm f).mp hin)

/-! ### non-vacuity: transitive closure in a pool of 3 workers (`pTC`, `sTCpar`, `σTC`, `tc_ctxPar`), then ANY schedule / pool -/

theorem sTCpar_nodup : ∀ r, (pcrel sTCpar r).rows.Nodup := by
  intro r
  match r with
  | 0 => decide
  | 1 => decide
  | r + 2 => rw [pcrel_of_ge sTCpar (r + 2) (Nat.le_add_left 2 r : 2 ≤ r + 2)]; exact List.nodup_nil

/-- the theorems apply to the example under every schedule, pool size and fuel -/
example (σ : Sched Plan.Ex Plan.Bx Plan.Ex Unit Unit) (threads fuel : Nat) (o : ProgSt)
    (h : run Plan.exI Plan.exV pTC (ixSetsOf Plan.exV pTC) [[0], [1]] σ threads fuel sTCpar = .ok (some o)) :
    (∀ r, (pcrel o.st r).rows.Nodup) ∧
    (∀ r, (pcrel sTCpar r).rows <+: (pcrel o.st r).rows) ∧
    (∀ f, Derivable Plan.exI pTC.rules noAgg (stDB pTC sTCpar) f → (pcrel o.st f.rel).rows.count f.args = 1) :=
  ⟨fun r => runPhysPar_rows_nodup Plan.exI Plan.exV pTC _ tc_ctxPar σ threads fuel sTCpar o wf_sTCpar h r (sTCpar_nodup r),
   fun r => (runPhysPar_inputs_kept Plan.exI Plan.exV pTC _ tc_ctxPar σ threads fuel sTCpar o wf_sTCpar h r).1,
   fun f => runPhysPar_each_fact_once Plan.exI Plan.exV pTC _ tc_ctxPar σ threads fuel sTCpar o wf_sTCpar h f
     (sTCpar_nodup f.rel)⟩

/-- … and under `σTC` in a pool of 3 workers the run returns, with `path` holding each of its three tuples once -/
example :
    obs (run Plan.exI Plan.exV pTC (ixSetsOf Plan.exV pTC) [[0], [1]] σTC 3 10 sTCpar) =
      .ok (some ([[[.int 1, .int 2], [.int 2, .int 3]], [[.int 1, .int 2], [.int 2, .int 3], [.int 1, .int 3]]], [1, 2])) :=
  tcPar_hyps.2.2

/-! ### non-vacuity with aggregation / negation: the program of `Props/C04Phys.lean` as an `ascent_par!` program -/

def sNegPar : PCSt :=
  initSt 2 pNeg (ixSetsOfA Plan.exV pNeg) fun r =>
    if r = 0 then [[.int 1], [.int 2], [.int 3]] else if r = 1 then [[.int 1, .int 2]] else if r = 2 then [[.int 1]] else []

theorem wf_sNegPar : WFPCSt pNeg sNegPar := by
  refine ⟨by decide, ?_, by decide⟩
  intro r t ht
  match r, ht with
  | 0, ht =>
    have : t ∈ [[Val.int 1], [.int 2], [.int 3]] := ht
    simp only [List.mem_cons, List.not_mem_nil, or_false] at this
    rcases this with rfl | rfl | rfl <;> rfl
  | 1, ht =>
    have : t ∈ [[Val.int 1, .int 2]] := ht
    simp only [List.mem_cons, List.not_mem_nil, or_false] at this
    subst this; rfl
  | 2, ht =>
    have : t ∈ [[Val.int 1]] := ht
    simp only [List.mem_cons, List.not_mem_nil, or_false] at this
    subst this; rfl
  | 3, ht => cases ht
  | 4, ht => cases ht
  | r + 5, ht => cases ht

theorem sNegPar_nodup : ∀ r, (pcrel sNegPar r).rows.Nodup := by
  intro r
  match r with
  | 0 => decide
  | 1 => decide
  | 2 => decide
  | 3 => decide
  | 4 => decide
  | r + 5 => rw [pcrel_of_ge sNegPar (r + 5) (Nat.le_add_left 5 r : 5 ≤ r + 5)]; exact List.nodup_nil

theorem negParA_ctx : CtxParA exA Plan.exV pNeg [[0], [1], [2]] :=
  { ext := exA_ext, supp := exA_supp, perm := exA_perm, rel := neg_hyps.1, valid := neg_hyps.2.1, strat := neg_hyps.2.2.1,
    arity := by decide, aggArity := by decide, decl := by decide, rules := neg_hyps.2.2.2.2.2.1 }

/-- the theorems apply under every schedule, pool size and fuel -/
example (σ : Sched Plan.Ex Plan.Bx Plan.Ex Unit Bool) (threads fuel : Nat) (o : ProgSt)
    (h : run exA Plan.exV pNeg (ixSetsOfA Plan.exV pNeg) [[0], [1], [2]] σ threads fuel sNegPar = .ok (some o)) :
    (∀ r, (pcrel o.st r).rows.Nodup) ∧
    (∀ r, (pcrel sNegPar r).rows <+: (pcrel o.st r).rows) ∧
    (∀ f, Derivable exA pNeg.rules (fun r => (pcrel o.st r).rows) (stDB pNeg sNegPar) f →
      (pcrel o.st f.rel).rows.count f.args = 1) :=
  ⟨runPhysPar_agg_rows_nodup exA Plan.exV pNeg _ negParA_ctx σ threads fuel sNegPar o wf_sNegPar sNegPar_nodup h,
   fun r => (runPhysPar_agg_inputs_kept exA Plan.exV pNeg _ negParA_ctx σ threads fuel sNegPar o wf_sNegPar sNegPar_nodup h r).1,
   runPhysPar_agg_each_fact_once exA Plan.exV pNeg _ negParA_ctx σ threads fuel sNegPar o wf_sNegPar sNegPar_nodup h⟩

/-- a schedule for the example: rows and head updates in reverse order, the `n`-th insert to worker `n % 3` -/
def σNeg : Sched Plan.Ex Plan.Bx Plan.Ex Unit Bool :=
  { permRows := fun _ l => l.reverse, permRows_perm := fun _ l => List.reverse_perm l
    permTasks := fun _ l => l.reverse, permTasks_perm := fun _ l => List.reverse_perm l
    tid := fun n => n % 3, swap := fun n => n % 2 == 0 }

/-- … and under `σNeg` in a pool of 3 workers the run returns, every relation duplicate-free -/
theorem negPar_run :
    (run exA Plan.exV pNeg (ixSetsOfA Plan.exV pNeg) [[0], [1], [2]] σNeg 3 10 sNegPar).map
        (fun o => o.map fun ps => ps.st.map fun pr => (decide pr.rows.Nodup, pr.rows.length)) =
      .ok (some [(true, 3), (true, 1), (true, 2), (true, 1), (true, 3)]) := by
  decide

/-! ### axiom audit -/
#print axioms runPhysPar_rows_set
#print axioms runPhysPar_rows_nodup
#print axioms runPhysPar_inputs_kept
#print axioms runPhysPar_each_fact_once
#print axioms runPhysPar_nonfact_absent
#print axioms runPhysPar_count
#print axioms runPhysPar_dup_from_input
#print axioms runPhysPar_agg_rows_set
#print axioms runPhysPar_agg_rows_nodup
#print axioms runPhysPar_agg_inputs_kept
#print axioms runPhysPar_agg_each_fact_once
#print axioms runPhysPar_agg_nonfact_absent
#print axioms negParA_ctx
#print axioms negPar_run

end AscentVerif.PhysPar
