import AscentVerif.Model.EnginePhysLatTimeout
import AscentVerif.Props.C03Phys
import AscentVerif.Props.C13L
import AscentVerif.Proofs.PhysLatFrom
import AscentVerif.Proofs.PhysLatFromIdem
import AscentVerif.Proofs.PhysLatTimeout
/-!
# C13 / C14 at the level of the physical indices, for programs WITH lattice relations

`Props/C13L.lean` proves the re-run and `run_timeout` theorems for the abstract engine on lattice programs; `Props/C03Phys.lean` proves
the fixed-point theorem for the generated code with lattices over its physical indices from a FRESH value.  This file proves, for the
physical engine (`Model/EnginePhysLat.lean`, `Model/EnginePhysLatTimeout.lean`): the fixed-point theorem from ANY legal program value
(second and later runs, runs after pushes, runs after an interrupted call), idempotence of `run()`, soundness of `run_timeout`
whatever it returns and at whatever point the deadline strikes, and completion of a resumed run.
-/
namespace AscentVerif.PhysLat
open AscentVerif AscentVerif.Engine AscentVerif.Index AscentVerif.Phys

variable {E B G P A : Type}

/-- the facts a program value holds, as a database -/
def stDBX (p : Program E B G P A) (s : XSt) : DB := fun g => g.rel < p.rels.length ∧ factsOf s g

/-- a legal start value: one entry per declared relation, typed rows, pairwise distinct keys in every lattice relation -/
def WFXLat (p : Program E B G P A) (s : XSt) : Prop :=
  s.length = p.rels.length ∧ (∀ r, ∀ t ∈ (xrel s r).rows, t.length = arityOf p r) ∧
  ∀ r, r < p.rels.length → (declOf p r).lat = true → ((xrel s r).rows.map keyOf).Nodup

/-- the standing hypotheses -/
structure CtxL (I : Interp E B G P A) (V : Hir.VarsOf E B) (p : Program E B G P A) (ix : IxSets) (order : SccOrder) : Prop where
  ext : Plan.Ext I
  supp : Plan.Supp I V
  prog : LatticeProg p
  valid : validOrder p order = true
  plan : latPlanOk V p ix = true
  rules : ∀ r ∈ p.rules, Hir.Desugared V r = true ∧ Plan.WellScoped V r = true

/-- **C03 over the physical indices from any legal program value**: one row per key, closed over the final values, least above
the start value's facts for monotone programs -/
theorem runPhysLat_from (I : Interp E B G P A) (L : LatOrder I) (V : Hir.VarsOf E B) (p : Program E B G P A) (ix : IxSets)
    (order : SccOrder) (c : CtxL I V p ix order) (s : XSt) (fuel : Nat) (o : ProgSt) (hs : WFXLat p s)
    (hrun : run I V p ix order fuel s = some o) :
    WFXLat p o.st ∧ LClosed I L p (stDBX p s) (factsOf o.st) ∧
    (MonotoneProg I L p → ∀ M : DB, KeyUnique p M → LClosed I L p (stDBX p s) M → DBLe I L p (factsOf o.st) M) := by
  obtain ⟨h1, h2, h3⟩ := run_fromL_spec I L c.ext V c.supp p ix order s fuel o c.prog c.valid c.plan c.rules hs.1 hs.2.1 hs.2.2 hrun
  exact ⟨h1, h2, h3⟩

/-- **idempotence with lattices over the physical indices**: a second `run()` on an unmodified value changes no row, for
antisymmetric orders -/
theorem rerun_idempotent_physLat (I : Interp E B G P A) (L : LatOrder I)
    (hanti : ∀ r a b, L.le r a b → L.le r b a → a = b)
    (V : Hir.VarsOf E B) (p : Program E B G P A) (ix : IxSets) (order : SccOrder) (c : CtxL I V p ix order)
    (s : XSt) (fuel₁ fuel₂ : Nat) (o₁ o₂ : ProgSt) (hs : WFXLat p s)
    (h₁ : run I V p ix order fuel₁ s = some o₁) (h₂ : run I V p ix order fuel₂ o₁.st = some o₂) :
    ∀ r, r < p.rels.length → (xrel o₂.st r).rows = (xrel o₁.st r).rows := by
  intro r _
  exact rerun_sameL I L hanti c.ext V c.supp p ix order s fuel₁ fuel₂ o₁ o₂ c.prog c.valid c.plan c.rules hs.1 hs.2.1 hs.2.2
    h₁ h₂ r

/-- **run_timeout with lattices over the physical indices, any deadline**: whatever it returns, the value is a legal start value
again, dominates the start value (no input lost, no lattice value lowered) and — for monotone programs — is below every closed
database, i.e. below the final fixed point -/
theorem timeout_sound_physLat (I : Interp E B G P A) (L : LatOrder I) (V : Hir.VarsOf E B) (p : Program E B G P A) (ix : IxSets)
    (order : SccOrder) (c : CtxL I V p ix order) (dl : Deadline) (s : XSt) (fuel : Nat) (o : ProgStT) (hs : WFXLat p s)
    (hrun : runTimeout I V p ix order dl fuel s = .done o ∨ runTimeout I V p ix order dl fuel s = .timedOut o) :
    WFXLat p o.st ∧ DBLe I L p (stDBX p s) (factsOf o.st) ∧
    (MonotoneProg I L p → ∀ M : DB, KeyUnique p M → LClosed I L p (stDBX p s) M → DBLe I L p (factsOf o.st) M) := by
  obtain ⟨h1, h2, h3⟩ := runTimeout_soundL I L c.ext V c.supp p ix order dl s fuel o c.prog c.valid c.plan c.rules
    hs.1 hs.2.1 hs.2.2 hrun
  exact ⟨h1, h2, h3⟩

/-- **resumption completes**: an interrupted call followed by a completing `run()` ends closed over the ORIGINAL value's facts and
below every closed database (the least fixed point of the original value), for monotone programs -/
theorem resume_complete_physLat (I : Interp E B G P A) (L : LatOrder I) (V : Hir.VarsOf E B) (p : Program E B G P A) (ix : IxSets)
    (order : SccOrder) (c : CtxL I V p ix order) (dl : Deadline) (s : XSt) (fuel₁ fuel₂ : Nat) (mid : ProgStT) (o : ProgSt)
    (hs : WFXLat p s) (hm : MonotoneProg I L p)
    (h₁ : runTimeout I V p ix order dl fuel₁ s = .timedOut mid)
    (h₂ : run I V p ix order fuel₂ mid.st = some o) :
    LClosed I L p (stDBX p s) (factsOf o.st) ∧
    (∀ M : DB, KeyUnique p M → LClosed I L p (stDBX p s) M → DBLe I L p (factsOf o.st) M) := by
  obtain ⟨hw, hle, hbelow⟩ := timeout_sound_physLat I L V p ix order c dl s fuel₁ mid hs (Or.inr h₁)
  obtain ⟨_, hcl, hleast⟩ := runPhysLat_from I L V p ix order c mid.st fuel₂ o hw h₂
  have hmid : DBLe I L p (factsOf mid.st) (stDBX p mid.st) := by
    intro f hf
    apply Dominated.of_mem
    have hlt : f.rel < mid.st.length := by
      apply Classical.byContradiction
      intro hn
      have hf' : f.args ∈ (xrel mid.st f.rel).rows := hf
      rw [xrel_of_ge _ _ (Nat.le_of_not_lt hn)] at hf'
      cases hf'
    rw [hw.1] at hlt
    exact ⟨hlt, hf⟩
  refine ⟨⟨DBLe.trans hle (DBLe.trans hmid hcl.1), hcl.2⟩, ?_⟩
  intro M hMk hM
  refine hleast hm M hMk ⟨?_, hM.2⟩
  intro f hf
  exact hbelow hm M hMk hM f hf.2

#print axioms runPhysLat_from
#print axioms rerun_idempotent_physLat
#print axioms timeout_sound_physLat
#print axioms resume_complete_physLat

end AscentVerif.PhysLat
