import AscentVerif.Props.C07Phys
/-!
# The output of the desugaring model is a fixed point of `rule_desugar_repeated_vars`

`Hir.Desugared V r` (Proofs/PlanHir.lean) is a hypothesis of the plan-level and physical-engine theorems
(Props/C01Plan.lean, Props/C01Phys.lean, Props/C07Phys.lean): no clause argument of `r` mentions a variable that an
earlier argument of the same clause was the first to ground.  Here: every core rule that comes out of the front-end model
`desugarRule` (Model/Desugar.lean) has that property (`desugarRule_desugared`, `desugarRules_desugared`), so the hypothesis
can be dropped for programs that come out of the front end (`surface_to_physical'`).

The invariant relating the two models: the `Grounded` map `g` of `repItems` (item index `i`, counter `c`) and the pair
`gd = (grounded, dg)` of `Hir.desugFrom` after the already produced prefix satisfy
* every variable with an entry in `g` is in `dg`;
* every variable of `dg` has an entry in `g` or is a generated name `gsRep k` with `k < c` (the pass does not enter the
  names it generates into its map; the HIR compiler sees them as ordinary variable columns);
* every entry of `g` has an index `< i`, and no entry is a generated name (`NoReservedNames`).
Inside a clause (`ClInv`) the variables with index `i` together with the names generated for this clause are the `here`
list of `Hir.argsOk`.
-/
namespace AscentVerif.Hir
open AscentVerif AscentVerif.Engine
variable {E B G P A : Type}

/-- the `here` list after the arguments of a clause on which the pass has nothing left to do -/
def hereOf (dg : List Var) : List (Arg E) → List Var → List Var
  | [], here => here
  | .var v :: as, here => hereOf dg as (hereStep dg here v)
  | .expr _ :: as, here => hereOf dg as here

theorem scanG_here (V : VarsOf E B) (dg : List Var) :
    ∀ (jas : List (Nat × Arg E)) (g : List Var) (idx : List Nat) (here : List Var),
      (∀ v ∈ dg, v ∈ g) → argsOk V dg (jas.map (·.2)) here = true →
      (jas.foldl (scanG V dg) (g, idx, here)).2.2 = hereOf dg (jas.map (·.2)) here
  | [], _, _, _, _, _ => rfl
  | (j, .var v) :: jas, g, idx, here, hdg, hok => by
    simp only [List.map_cons, argsOk, Bool.and_eq_true, Bool.not_eq_true'] at hok
    have hh : ¬ here.contains v = true := by rw [hok.1]; exact Bool.false_ne_true
    simp only [List.foldl_cons, List.map_cons, hereOf]
    by_cases hg : g.contains v = true
    · have hstep : scanG V dg (g, idx, here) (j, .var v) = (g, idx ++ [j], hereStep dg here v) := by
        unfold scanG; dsimp only
        rw [if_neg hh, if_pos hg]; rfl
      rw [hstep]
      exact scanG_here V dg jas g (idx ++ [j]) (hereStep dg here v) hdg hok.2
    · have hvdg : dg.contains v = false := by
        cases hc : dg.contains v with
        | false => rfl
        | true => exact absurd (List.contains_iff_mem.2 (hdg v (List.contains_iff_mem.1 hc))) hg
      have hstep : scanG V dg (g, idx, here) (j, .var v) = (g ++ [v], idx, hereStep dg here v) := by
        unfold scanG hereStep; dsimp only
        rw [if_neg hh, if_neg hg, hvdg]; rfl
      rw [hstep]
      exact scanG_here V dg jas (g ++ [v]) idx (hereStep dg here v)
        (fun w hw => List.mem_append_left _ (hdg w hw)) hok.2
  | (j, .expr e) :: jas, g, idx, here, hdg, hok => by
    simp only [List.map_cons, argsOk, Bool.and_eq_true, Bool.not_eq_true'] at hok
    have hh : ¬ (V.e e).any here.contains = true := by rw [hok.1]; exact Bool.false_ne_true
    simp only [List.foldl_cons, List.map_cons, hereOf]
    have hstep : scanG V dg (g, idx, here) (j, .expr e) = (g, idx ++ [j], here) := by
      unfold scanG; dsimp only
      rw [if_neg hh]
    rw [hstep]
    exact scanG_here V dg jas g (idx ++ [j]) here hdg hok.2

/-- the variables a desugared clause adds to `dg` -/
theorem scanOf_here (V : VarsOf E B) (gd : List Var × List Var) (hgd : GdOk gd) (args : List (Arg E))
    (hok : argsOk V gd.2 args [] = true) : (scanOf V gd args).2.2 = hereOf gd.2 args [] := by
  have hm := map_snd_zip_range args
  have := scanG_here V gd.2 ((List.range args.length).zip args) gd.1 [] [] hgd (by rw [hm]; exact hok)
  rw [hm] at this
  exact this

end AscentVerif.Hir

namespace AscentVerif.Surface
open AscentVerif AscentVerif.Engine
variable {E B G P A M : Type}

/-! ## what the repeated-variable pass looks at: clause arguments and the binders of the other items -/

/-- the variables `repItems` compares or enters into its map -/
def FItem.repKeys (varsE : E → List Var) : FItem E B G P A → List Var
  | .clause _ as _ => as.flatMap (SArg.mentions varsE)
  | .cond c => Hir.Cond.boundVars c
  | .gen v _ => [v]
  | .agg a => a.outs
  | .neg _ _ => []

theorem repKeys_sub_mentions (varsE : E → List Var) (varsB : B → List Var) (varsG : G → List Var) (f : FItem E B G P A) :
    ∀ v ∈ FItem.repKeys varsE f, v ∈ FItem.mentions varsE varsB varsG f := by
  intro v hv
  cases f with
  | clause r as cs => simp only [FItem.mentions, List.mem_append]; exact .inl hv
  | cond c => cases c <;> simp_all [FItem.repKeys, FItem.mentions, Hir.Cond.boundVars, Cond.vars]
  | gen w g => simp_all [FItem.repKeys, FItem.mentions]
  | agg a => simp only [FItem.repKeys] at hv; simp only [FItem.mentions, List.mem_append]; exact .inl (.inl hv)
  | neg r as => simp [FItem.repKeys] at hv

theorem not_isRep_of_pat {v : Var} (h : isPat v) : ¬ isRep v := by
  obtain ⟨k, rfl⟩ := h
  rintro ⟨j, hj⟩
  change (1000 + 8 * k + 2 : Nat) = 1000 + 8 * j at hj
  omega

theorem not_isRep_of_wild {v : Var} (h : isWild v) : ¬ isRep v := by
  obtain ⟨k, rfl⟩ := h
  rintro ⟨j, hj⟩
  change (1000 + 8 * k + 1 : Nat) = 1000 + 8 * j at hj
  omega

/-- passes 3–5 generate no `x_N` name at a place the repeated-variable pass looks at (no law of `ops` is needed: the
generated conditions `if let pat = __arg_pattern_N` are attached to their clause, where the pass does not look) -/
theorem pwn_repKeys (ops : Ops E B G A) (varsB : B → List Var) (varsG : G → List Var) (fs : List (FItem E B G P A))
    (hres : ∀ f ∈ fs, ∀ v ∈ FItem.mentions ops.varsE varsB varsG f, v < reservedBase) :
    ∀ f ∈ pwn ops fs, ∀ v ∈ FItem.repKeys ops.varsE f, ¬ isRep v := by
  intro f hf v hv
  simp only [pwn, List.mem_map] at hf
  obtain ⟨f₂, hf₂, rfl⟩ := hf
  rcases wildItems_mem _ 1 f₂ hf₂ with ⟨r, as₁, cs, k', rfl, hmem⟩ | ⟨hf₁, hne⟩
  · -- a clause
    simp only [negItem, FItem.repKeys] at hv
    rcases wildArgs_mentions ops.varsE as₁ k' v hv with ⟨j, _, rfl⟩ | hv₁
    · exact not_isRep_of_wild ⟨j, rfl⟩
    · rcases patItems_mem ops fs 0 _ hmem with ⟨r', as₀, cs₀, k'', heq, hmem₀⟩ | ⟨_, hne'⟩
      · simp only [FItem.clause.injEq] at heq
        obtain ⟨rfl, rfl, rfl⟩ := heq
        rcases patArgs_mentions ops ops.varsE as₀ k'' v hv₁ with ⟨j, _, rfl⟩ | hv₀
        · exact not_isRep_of_pat ⟨j, rfl⟩
        · apply not_isRep_of_lt
          apply hres _ hmem₀
          simp only [FItem.mentions, List.mem_append]
          exact .inl hv₀
      · exact absurd rfl (hne' _ _ _)
  · -- not a clause: the item is the user's
    rcases patItems_mem ops fs 0 f₂ hf₁ with ⟨r', as₀, cs₀, k'', heq, _⟩ | ⟨hf₀, _⟩
    · exact absurd heq (hne _ _ _)
    · apply not_isRep_of_lt
      apply hres f₂ hf₀
      apply repKeys_sub_mentions
      cases f₂ with
      | neg r as => simp [negItem, FItem.repKeys] at hv
      | clause r as cs => exact hv
      | cond c => exact hv
      | gen w g => exact hv
      | agg a => exact hv

/-! ## the grounded map -/

theorem lookup_orInsert_self (g : Grounded) (v : Var) (i : Nat) : ∃ j, (g.orInsert v i).lookup v = some j := by
  cases h : g.lookup v with
  | none => exact ⟨i, lookup_orInsert_of_none h⟩
  | some j => exact ⟨j, lookup_orInsert_of_some h⟩

theorem lookup_orInsertAll_of_some {g : Grounded} {vs : List Var} {w : Var} {i j : Nat} (h : g.lookup w = some j) :
    (orInsertAll g vs i).lookup w = some j := by
  induction vs generalizing g with
  | nil => exact h
  | cons v vs ih => exact ih (g := g.orInsert v i) (lookup_orInsert_of_some h)

theorem lookup_orInsertAll_mem (g : Grounded) (vs : List Var) (i : Nat) {w : Var} (hw : w ∈ vs) :
    ∃ j, (orInsertAll g vs i).lookup w = some j := by
  induction vs generalizing g with
  | nil => cases hw
  | cons v vs ih =>
    rcases List.mem_cons.1 hw with rfl | hw
    · obtain ⟨j, hj⟩ := lookup_orInsert_self g w i
      exact ⟨j, lookup_orInsertAll_of_some (g := g.orInsert w i) hj⟩
    · exact ih (g.orInsert v i) hw

/-- between two body items: the map `g` of `repItems` before item `i` with counter `c`, against the list `dg` of
`Hir.desugFrom` -/
structure ItInv (g : Grounded) (i c : Nat) (dg : List Var) : Prop where
  sub : ∀ v j, g.lookup v = some j → v ∈ dg
  sup : ∀ v ∈ dg, (∃ j, g.lookup v = some j) ∨ ∃ k, k < c ∧ v = gsRep k
  lt : ∀ v j, g.lookup v = some j → j < i
  norep : ∀ v j, g.lookup v = some j → ¬ isRep v

/-- inside clause `i`: `here` = the variables entered with index `i` and the names generated for this clause -/
structure ClInv (g : Grounded) (i c : Nat) (dg here : List Var) : Prop where
  sub : ∀ v j, g.lookup v = some j → v ∈ dg ∨ v ∈ here
  sup : ∀ v ∈ dg, (∃ j, g.lookup v = some j ∧ j ≠ i) ∨ ∃ k, k < c ∧ v = gsRep k
  here1 : ∀ v ∈ here, g.lookup v = some i ∨ ∃ k, k < c ∧ v = gsRep k
  here2 : ∀ v, g.lookup v = some i → v ∈ here
  le : ∀ v j, g.lookup v = some j → j ≤ i
  norep : ∀ v j, g.lookup v = some j → ¬ isRep v

theorem ItInv.nil (c : Nat) : ItInv [] 0 c [] :=
  ⟨fun _ _ h => (by cases h), fun _ h => (by cases h), fun _ _ h => (by cases h), fun _ _ h => (by cases h)⟩

theorem ItInv.toCl {g : Grounded} {i c : Nat} {dg : List Var} (h : ItInv g i c dg) : ClInv g i c dg [] where
  sub v j hl := .inl (h.sub v j hl)
  sup v hv := by
    rcases h.sup v hv with ⟨j, hj⟩ | hk
    · exact .inl ⟨j, hj, Nat.ne_of_lt (h.lt v j hj)⟩
    · exact .inr hk
  here1 v hv := by cases hv
  here2 v hl := absurd (h.lt v i hl) (Nat.lt_irrefl _)
  le v j hl := Nat.le_of_lt (h.lt v j hl)
  norep := h.norep

theorem ClInv.toIt {g : Grounded} {i c : Nat} {dg here : List Var} (h : ClInv g i c dg here) :
    ItInv g (i + 1) c (dg ++ here) where
  sub v j hl := List.mem_append.2 (h.sub v j hl)
  sup v hv := by
    rcases List.mem_append.1 hv with hv | hv
    · rcases h.sup v hv with ⟨j, hj, _⟩ | hk
      · exact .inl ⟨j, hj⟩
      · exact .inr hk
    · rcases h.here1 v hv with hj | hk
      · exact .inl ⟨i, hj⟩
      · exact .inr hk
  lt v j hl := Nat.lt_succ_of_le (h.le v j hl)
  norep := h.norep

/-- an item other than a clause: its binders are entered into the map and appended to `dg` -/
theorem ItInv.step {g : Grounded} {i c : Nat} {dg : List Var} (h : ItInv g i c dg) (vs : List Var)
    (hvs : ∀ v ∈ vs, ¬ isRep v) : ItInv (orInsertAll g vs i) (i + 1) c (dg ++ vs) where
  sub v j hl := by
    rcases lookup_orInsertAll_cases hl with h1 | ⟨h1, _⟩
    · exact List.mem_append_left _ (h.sub v j h1)
    · exact List.mem_append_right _ h1
  sup v hv := by
    rcases List.mem_append.1 hv with hv | hv
    · rcases h.sup v hv with ⟨j, hj⟩ | hk
      · exact .inl ⟨j, lookup_orInsertAll_of_some hj⟩
      · exact .inr hk
    · exact .inl (lookup_orInsertAll_mem g vs i hv)
  lt v j hl := by
    rcases lookup_orInsertAll_cases hl with h1 | ⟨_, h2⟩
    · exact Nat.lt_succ_of_lt (h.lt v j h1)
    · omega
  norep v j hl := by
    rcases lookup_orInsertAll_cases hl with h1 | ⟨h1, _⟩
    · exact h.norep v j h1
    · exact hvs v h1

/-! ## one clause -/

theorem ClInv.not_here {g : Grounded} {i c : Nat} {dg here : List Var} (h : ClInv g i c dg here) {v : Var}
    (hl : g.lookup v ≠ some i) (hnr : ¬ isRep v) : v ∉ here := by
  intro hv
  rcases h.here1 v hv with h1 | ⟨k, _, rfl⟩
  · exact hl h1
  · exact hnr ⟨k, rfl⟩

/-- a replaced argument: the generated name is new to `here` and to `dg` -/
theorem ClInv.rep {g : Grounded} {i c : Nat} {dg here : List Var} (h : ClInv g i c dg here) :
    here.contains (gsRep c) = false ∧ Hir.hereStep dg here (gsRep c) = here ++ [gsRep c] ∧
      ClInv g i (c + 1) dg (here ++ [gsRep c]) := by
  have hfresh : ∀ k, k < c → gsRep c ≠ gsRep k := fun k hk he => by
    have := gsRep_inj he; omega
  have h1 : gsRep c ∉ here := by
    intro hv
    rcases h.here1 _ hv with h1 | ⟨k, hk, he⟩
    · exact h.norep _ _ h1 (isRep_gsRep c)
    · exact hfresh k hk he
  have h2 : gsRep c ∉ dg := by
    intro hv
    rcases h.sup _ hv with ⟨j, hj, _⟩ | ⟨k, hk, he⟩
    · exact h.norep _ _ hj (isRep_gsRep c)
    · exact hfresh k hk he
  refine ⟨?_, ?_, ?_⟩
  · cases hc : here.contains (gsRep c) with
    | false => rfl
    | true => exact absurd (List.contains_iff_mem.1 hc) h1
  · unfold Hir.hereStep
    rw [if_neg (fun hc => h2 (List.contains_iff_mem.1 hc))]
  · refine ⟨fun v j hl => ?_, fun v hv => ?_, fun v hv => ?_, fun v hl => ?_, h.le, h.norep⟩
    · rcases h.sub v j hl with h' | h'
      · exact .inl h'
      · exact .inr (List.mem_append_left _ h')
    · rcases h.sup v hv with h' | ⟨k, hk, he⟩
      · exact .inl h'
      · exact .inr ⟨k, Nat.lt_succ_of_lt hk, he⟩
    · rcases List.mem_append.1 hv with hv | hv
      · rcases h.here1 v hv with h' | ⟨k, hk, he⟩
        · exact .inl h'
        · exact .inr ⟨k, Nat.lt_succ_of_lt hk, he⟩
      · rw [List.mem_singleton] at hv
        exact .inr ⟨c, Nat.lt_succ_self c, hv⟩
    · exact List.mem_append_left _ (h.here2 v hl)

/-- a variable column that is kept -/
theorem ClInv.keepVar {g : Grounded} {i c : Nat} {dg here : List Var} (h : ClInv g i c dg here) {v : Var}
    (hl : g.lookup v ≠ some i) (hnr : ¬ isRep v) :
    ClInv (g.orInsert v i) i c dg (Hir.hereStep dg here v) := by
  have hnh := h.not_here hl hnr
  by_cases hd : v ∈ dg
  · have hs : Hir.hereStep dg here v = here := by
      unfold Hir.hereStep
      rw [if_pos (List.contains_iff_mem.2 hd)]
    have hg : g.orInsert v i = g := by
      rcases h.sup v hd with ⟨j, hj, _⟩ | ⟨k, _, rfl⟩
      · unfold Grounded.orInsert
        rw [hj]; rfl
      · exact absurd ⟨k, rfl⟩ hnr
    rw [hs, hg]; exact h
  · have hs : Hir.hereStep dg here v = here ++ [v] := by
      unfold Hir.hereStep
      rw [if_neg (fun hc => hd (List.contains_iff_mem.1 hc))]
    have hnone : g.lookup v = none := by
      cases hc : g.lookup v with
      | none => rfl
      | some j =>
        rcases h.sub v j hc with h' | h'
        · exact absurd h' hd
        · exact absurd h' hnh
    rw [hs]
    refine ⟨fun w j hw => ?_, fun w hw => ?_, fun w hw => ?_, fun w hw => ?_, fun w j hw => ?_, fun w j hw => ?_⟩
    · rcases lookup_orInsert_cases hw with h' | ⟨rfl, _⟩
      · rcases h.sub w j h' with h'' | h''
        · exact .inl h''
        · exact .inr (List.mem_append_left _ h'')
      · exact .inr (List.mem_append_right _ (List.mem_singleton.2 rfl))
    · rcases h.sup w hw with ⟨j, hj, hne⟩ | hk
      · exact .inl ⟨j, lookup_orInsert_of_some hj, hne⟩
      · exact .inr hk
    · rcases List.mem_append.1 hw with hw | hw
      · rcases h.here1 w hw with h' | hk
        · exact .inl (lookup_orInsert_of_some h')
        · exact .inr hk
      · rw [List.mem_singleton] at hw
        subst hw
        exact .inl (lookup_orInsert_of_none hnone)
    · rcases lookup_orInsert_cases hw with h' | ⟨rfl, _⟩
      · exact List.mem_append_left _ (h.here2 w h')
      · exact List.mem_append_right _ (List.mem_singleton.2 rfl)
    · rcases lookup_orInsert_cases hw with h' | ⟨_, rfl⟩
      · exact h.le w j h'
      · exact Nat.le_refl _
    · rcases lookup_orInsert_cases hw with h' | ⟨rfl, _⟩
      · exact h.norep w j h'
      · exact hnr

theorem any_lookup_false {ops : Ops E B G A} {a : SArg E P} {g : Grounded} {i : Nat}
    (h : ¬ ((a.vars ops).any fun v => g.lookup v == some i) = true) : ∀ v ∈ a.vars ops, g.lookup v ≠ some i := by
  intro v hv hl
  apply h
  rw [List.any_eq_true]
  exact ⟨v, hv, by rw [hl]; exact beq_self_eq_true _⟩

/-- **the clause produced by `repArgs` passes `Hir.argsOk`**, and the invariant is kept -/
theorem repArgs_argsOk (ops : Ops E B G A) (varsB : B → List Var) (i : Nat) (dg : List Var) :
    ∀ (as : List (SArg E P)) (g : Grounded) (c : Nat) (here : List Var) (as' : List (Arg E)),
      (∀ a ∈ as, ∀ v ∈ a.vars ops, ¬ isRep v) → ClInv g i c dg here →
      (repArgs (B := B) ops i as g c).args.mapM SArg.toCore = some as' →
      Hir.argsOk ⟨ops.varsE, varsB⟩ dg as' here = true ∧
      ClInv (repArgs (B := B) ops i as g c).g i (repArgs (B := B) ops i as g c).c dg (Hir.hereOf dg as' here) := by
  intro as
  induction as with
  | nil =>
    intro g c here as' _ hinv hm
    simp only [repArgs, List.mapM_nil, Option.pure_def, Option.some.injEq] at hm
    subst hm
    exact ⟨rfl, hinv⟩
  | cons a as ih =>
    intro g c here as' hnr hinv hm
    have hnr' : ∀ b ∈ as, ∀ v ∈ b.vars ops, ¬ isRep v := fun b hb => hnr b (List.mem_cons_of_mem _ hb)
    by_cases h : ((a.vars ops).any fun v => g.lookup v == some i) = true
    · rw [repArgs_cons_pos ops i a as g c h] at hm ⊢
      obtain ⟨b, bs, hb, hbs, rfl⟩ := mapM_cons_eq_some.mp hm
      cases hb
      obtain ⟨r1, r2, r3⟩ := hinv.rep
      obtain ⟨k1, k2⟩ := ih g (c + 1) _ bs hnr' r3 hbs
      simp only [Hir.argsOk, Hir.hereOf, r1, r2, Bool.not_false, Bool.true_and]
      exact ⟨k1, k2⟩
    · rw [repArgs_cons_neg ops i a as g c h] at hm ⊢
      obtain ⟨b, bs, hb, hbs, rfl⟩ := mapM_cons_eq_some.mp hm
      have hlk := any_lookup_false h
      have hnra := hnr a (by simp)
      cases a with
      | var v =>
        cases hb
        have hl : g.lookup v ≠ some i := hlk v (by simp [SArg.vars])
        have hv : ¬ isRep v := hnra v (by simp [SArg.vars])
        have hnh : here.contains v = false := by
          cases hc : here.contains v with
          | false => rfl
          | true => exact absurd (List.contains_iff_mem.1 hc) (hinv.not_here hl hv)
        obtain ⟨k1, k2⟩ := ih (g.orInsert v i) c _ bs hnr' (hinv.keepVar hl hv) hbs
        simp only [Hir.argsOk, Hir.hereOf, hnh, Bool.not_false, Bool.true_and]
        exact ⟨k1, k2⟩
      | expr e =>
        cases hb
        have hnh : (ops.varsE e).any here.contains = false := by
          rw [List.any_eq_false]
          intro v hv hc
          exact hinv.not_here (hlk v hv) (hnra v hv) (List.contains_iff_mem.1 hc)
        obtain ⟨k1, k2⟩ := ih g c here bs hnr' hinv hbs
        simp only [Hir.argsOk, Hir.hereOf, hnh, Bool.not_false, Bool.true_and]
        exact ⟨k1, k2⟩
      | wild => cases hb
      | pat p vs => cases hb

/-! ## a whole body -/

theorem vars_sub_mentions (ops : Ops E B G A) (a : SArg E P) : ∀ v ∈ a.vars ops, v ∈ SArg.mentions ops.varsE a := by
  intro v hv
  cases a with
  | var w => exact hv
  | expr e => exact hv
  | wild => simp [SArg.vars] at hv
  | pat p vs => simp [SArg.vars] at hv

/-- an item other than a clause in front of a desugared rest -/
theorem desugFrom_step (V : Hir.VarsOf E B) (gd : List Var × List Var) (hgd : Hir.GdOk gd) (it : Item E B G P A)
    (its : List (Item E B G P A)) (vs : List Var) (hok : Hir.itemOk V gd it = true)
    (hstep : Hir.gdStep V gd it = (gd.1 ++ vs, gd.2 ++ vs))
    (ih : Hir.GdOk (gd.1 ++ vs, gd.2 ++ vs) → Hir.desugFrom V (gd.1 ++ vs, gd.2 ++ vs) its = true) :
    Hir.desugFrom V gd (it :: its) = true := by
  have hg := (Hir.gdStep_spec V gd hgd it hok).1
  rw [hstep] at hg
  simp only [Hir.desugFrom, hok, hstep, Bool.true_and]
  exact ih hg

theorem repItems_desugFrom (ops : Ops E B G A) (varsB : B → List Var) :
    ∀ (fs : List (FItem E B G P A)) (i : Nat) (g : Grounded) (c : Nat) (gd : List Var × List Var)
      (items : List (Item E B G P A)),
      (∀ f ∈ fs, ∀ v ∈ FItem.repKeys ops.varsE f, ¬ isRep v) → ItInv g i c gd.2 → Hir.GdOk gd →
      (repItems ops fs i g c).1.mapM FItem.toCore = some items →
      Hir.desugFrom ⟨ops.varsE, varsB⟩ gd items = true := by
  intro fs
  induction fs with
  | nil =>
    intro i g c gd items _ _ _ hd
    simp only [repItems, List.mapM_nil, Option.pure_def, Option.some.injEq] at hd
    subst hd
    rfl
  | cons f fs ih =>
    intro i g c gd items hres hinv hgd hd
    have hres' : ∀ f' ∈ fs, ∀ v ∈ FItem.repKeys ops.varsE f', ¬ isRep v :=
      fun f' hf' => hres f' (List.mem_cons_of_mem _ hf')
    have hf := hres f (by simp)
    -- the items that are not clauses
    have other : ∀ (it : Item E B G P A) (vs : List Var) (its : List (Item E B G P A)),
        Hir.itemOk ⟨ops.varsE, varsB⟩ gd it = true →
        Hir.gdStep ⟨ops.varsE, varsB⟩ gd it = (gd.1 ++ vs, gd.2 ++ vs) → (∀ v ∈ vs, ¬ isRep v) →
        (repItems ops fs (i + 1) (orInsertAll g vs i) c).1.mapM FItem.toCore = some its →
        Hir.desugFrom ⟨ops.varsE, varsB⟩ gd (it :: its) = true := by
      intro it vs its hok hstep hvs hits
      exact desugFrom_step _ gd hgd it its vs hok hstep
        (fun hg => ih (i + 1) _ c (gd.1 ++ vs, gd.2 ++ vs) its hres' (hinv.step vs hvs) hg hits)
    cases f with
    | clause r as conds =>
      have hd' : (FItem.clause r (repArgs ops i as g c).args ((repArgs ops i as g c).conds ++ conds) ::
          (repItems ops fs (i + 1) (repArgs ops i as g c).g (repArgs ops i as g c).c).1).mapM FItem.toCore = some items := hd
      obtain ⟨it, its, hit, hits, rfl⟩ := mapM_cons_eq_some.mp hd'
      simp only [FItem.toCore, Option.map_eq_some_iff] at hit
      obtain ⟨as', has', rfl⟩ := hit
      have hnr : ∀ a ∈ as, ∀ v ∈ a.vars ops, ¬ isRep v := by
        intro a ha v hv
        apply hf
        simp only [FItem.repKeys, List.mem_flatMap]
        exact ⟨a, ha, vars_sub_mentions ops a v hv⟩
      obtain ⟨k1, k2⟩ := repArgs_argsOk ops varsB i gd.2 as g c [] as' hnr hinv.toCl has'
      have hok : Hir.itemOk ⟨ops.varsE, varsB⟩ gd
          (Item.clause r as' ((repArgs ops i as g c).conds ++ conds) : Item E B G P A) = true := k1
      have hg := (Hir.gdStep_spec _ gd hgd _ hok).1
      have hstep : (Hir.gdStep ⟨ops.varsE, varsB⟩ gd
          (Item.clause r as' ((repArgs ops i as g c).conds ++ conds) : Item E B G P A)).2 =
          gd.2 ++ Hir.hereOf gd.2 as' [] := by
        simp only [Hir.gdStep]
        rw [Hir.scanOf_here _ gd hgd as' k1]
      simp only [Hir.desugFrom, hok, Bool.true_and]
      apply ih (i + 1) _ _ _ its hres' _ hg hits
      rw [hstep]
      exact k2.toIt
    | cond cd =>
      cases cd with
      | ifc b =>
        have hd' : (FItem.cond (Cond.ifc b) :: (repItems ops fs (i + 1) (orInsertAll g [] i) c).1).mapM FItem.toCore = some items := hd
        obtain ⟨it, its, hit, hits, rfl⟩ := mapM_cons_eq_some.mp hd'
        cases hit
        exact other _ [] its rfl rfl (fun _ h => by cases h) hits
      | letc v e =>
        have hd' : (FItem.cond (Cond.letc v e) :: (repItems ops fs (i + 1) (orInsertAll g [v] i) c).1).mapM FItem.toCore = some items := hd
        obtain ⟨it, its, hit, hits, rfl⟩ := mapM_cons_eq_some.mp hd'
        cases hit
        exact other _ [v] its rfl rfl hf hits
      | ifLet p vs e =>
        have hd' : (FItem.cond (Cond.ifLet p vs e) :: (repItems ops fs (i + 1) (orInsertAll g vs i) c).1).mapM FItem.toCore = some items := hd
        obtain ⟨it, its, hit, hits, rfl⟩ := mapM_cons_eq_some.mp hd'
        cases hit
        exact other _ vs its rfl rfl hf hits
    | gen v gn =>
      have hd' : (FItem.gen v gn :: (repItems ops fs (i + 1) (orInsertAll g [v] i) c).1).mapM FItem.toCore = some items := hd
      obtain ⟨it, its, hit, hits, rfl⟩ := mapM_cons_eq_some.mp hd'
      cases hit
      exact other _ [v] its rfl rfl hf hits
    | agg a =>
      have hd' : (FItem.agg a :: (repItems ops fs (i + 1) (orInsertAll g a.outs i) c).1).mapM FItem.toCore = some items := hd
      obtain ⟨it, its, hit, hits, rfl⟩ := mapM_cons_eq_some.mp hd'
      cases hit
      exact other _ a.outs its rfl rfl hf hits
    | neg r as =>
      have hd' : (FItem.neg r as :: (repItems ops fs (i + 1) g c).1).mapM FItem.toCore = some items := hd
      obtain ⟨it, its, hit, _, _⟩ := mapM_cons_eq_some.mp hd'
      cases hit

/-! ## the pipeline -/

/-- passes 3–6 on one disjunction-free body that mentions no reserved name yield a desugared body -/
theorem desugarFlat_desugared (ops : Ops E B G A) (varsB : B → List Var) (varsG : G → List Var)
    (c c' : Nat) (flat : List (FItem E B G P A)) (items : List (Item E B G P A))
    (hres : ∀ f ∈ flat, ∀ v ∈ FItem.mentions ops.varsE varsB varsG f, v < reservedBase)
    (hd : desugarFlat ops c flat = some (items, c')) :
    Hir.desugFrom ⟨ops.varsE, varsB⟩ ([], []) items = true := by
  have hm : (repItems ops (pwn ops flat) 0 [] c).1.mapM FItem.toCore = some items := by
    simp only [desugarFlat, Option.map_eq_some_iff, Prod.mk.injEq] at hd
    obtain ⟨a, ha, rfl, _⟩ := hd
    exact ha
  exact repItems_desugFrom ops varsB (pwn ops flat) 0 [] c ([], []) items
    (pwn_repKeys ops varsB varsG flat hres) (ItInv.nil c) Hir.gdOk_nil hm

/-- **every core rule produced by the desugaring pipeline is a fixed point of `rule_desugar_repeated_vars`**
(`WellScoped` is not needed; of `NoReservedNames` only the body half is used) -/
theorem desugarRule_desugared (ops : Ops E B G A) (varsB : B → List Var) (varsG : G → List Var)
    (c c' : Nat) (r : SRule E B G P A M) (rs : List (Rule E B G P A))
    (hres : NoReservedNames ops.varsE varsB varsG r)
    (hd : desugarRule ops c r = some (rs, c')) :
    ∀ r' ∈ rs, Hir.Desugared ⟨ops.varsE, varsB⟩ r' = true := by
  cases hm : r.heads.mapM SHead.toCore? with
  | none => simp [desugarRule, hm] at hd
  | some heads =>
    simp only [desugarRule, hm] at hd
    obtain ⟨sp1, _⟩ := desugarFlats_spec ops heads (productsS r.body) c c' rs hd
    intro r' hr'
    obtain ⟨flat, hflat, c₁, c₂, items, hdf, rfl⟩ := sp1 r' hr'
    exact desugarFlat_desugared ops varsB varsG c₁ c₂ flat items (hres.1 flat hflat) hdf

/-- whole programs (after macro expansion) -/
theorem desugarRules_desugared (ops : Ops E B G A) (varsB : B → List Var) (varsG : G → List Var)
    (srs : List (SRule E B G P A M)) (c c' : Nat) (rs : List (Rule E B G P A))
    (hres : ∀ r ∈ srs, NoReservedNames ops.varsE varsB varsG r)
    (hd : desugarRules ops srs c = some (rs, c')) :
    ∀ r' ∈ rs, Hir.Desugared ⟨ops.varsE, varsB⟩ r' = true := by
  induction srs generalizing c rs with
  | nil =>
    simp only [desugarRules, Option.some.injEq, Prod.mk.injEq] at hd
    obtain ⟨rfl, _⟩ := hd
    intro r' hr'; cases hr'
  | cons r rest ih =>
    cases h1 : desugarRule ops c r with
    | none => simp [desugarRules, h1] at hd
    | some p =>
      obtain ⟨rs1, c1⟩ := p
      cases h2 : desugarRules ops rest c1 with
      | none => simp [desugarRules, h1, h2] at hd
      | some q =>
        obtain ⟨rs2, c2⟩ := q
        simp only [desugarRules, h1, h2, Option.some.injEq, Prod.mk.injEq] at hd
        obtain ⟨rfl, rfl⟩ := hd
        intro r' hr'
        rcases List.mem_append.1 hr' with hr' | hr'
        · exact desugarRule_desugared ops varsB varsG c c1 r rs1 (hres r List.mem_cons_self) h1 r' hr'
        · exact ih c1 rs2 (fun r'' hr'' => hres r'' (List.mem_cons_of_mem _ hr'')) h2 r' hr'

/-- **`surface_to_physical` (Props/C07Phys.lean) without the `Desugared` half of its hypothesis `hcore`**: the core rules
come out of the desugaring model, which makes them fixed points of `rule_desugar_repeated_vars` -/
theorem surface_to_physical' (I : Interp E B G P A) (hI : Plan.Ext I)
    (ops : Ops E B G A) {varsB : B → List Var} {varsG : G → List Var}
    (hSupp : Plan.Supp I ⟨ops.varsE, varsB⟩)
    (hS : SugarSound I ops) (hV : VarsSound I ops.varsE varsB varsG)
    (rels : List RelDecl) (srs : List (SRule E B G P A M)) (c c' : Nat) (rs : List (Rule E B G P A))
    (hres : ∀ r ∈ srs, NoReservedNames ops.varsE varsB varsG r) (hws : ∀ r ∈ srs, WellScoped ops.varsE r)
    (hd : desugarRules ops srs c = some (rs, c'))
    (ix : Phys.IxSets) (order : SccOrder) (s : Phys.PSt) (fuel : Nat) (out : Phys.ProgSt)
    (hp : Relational (⟨rels, rs⟩ : Program E B G P A)) (ho : validOrder (⟨rels, rs⟩ : Program E B G P A) order = true)
    (hplan : Phys.planOk ⟨ops.varsE, varsB⟩ (⟨rels, rs⟩ : Program E B G P A) ix = true)
    (hcore : ∀ r ∈ rs, Plan.WellScoped ⟨ops.varsE, varsB⟩ r = true)
    (hs : Phys.WFPSt (⟨rels, rs⟩ : Program E B G P A) s)
    (hrun : Phys.run I ⟨ops.varsE, varsB⟩ (⟨rels, rs⟩ : Program E B G P A) ix order fuel s = some out) :
    ∀ f, Phys.factsOf out.st f ↔
      DerivableS I srs noAgg (fun g => g.rel < rels.length ∧ Phys.factsOf s g) f :=
  surface_to_physical I hI ⟨ops.varsE, varsB⟩ hSupp ops hS hV rels srs c c' rs hres hws hd ix order s fuel out hp ho hplan
    (fun r hr => ⟨desugarRules_desugared ops varsB varsG srs c c' rs hres hd r hr, hcore r hr⟩) hs hrun

/-! ## concrete checks over `Std.stdOps` -/

namespace DesugaredEx
open AscentVerif.Std

/-- `out(x) <-- foo(x, x)` with x = 0; relations foo = 0, out = 1 -/
def rule1 : SRule Ex Bx Gx Px Ax Empty :=
  { heads := [.clause { rel := 1, args := [.var 0] }],
    body := .cons (.flat (.clause 0 [.var 0, .var 0] [])) .nil }

/-- `out(x) <-- foo(x, x + 1, _, y), let z = y, bar(z, z, y, x), (baz(y, y) | !baz(x, z))` -/
def rule2 : SRule Ex Bx Gx Px Ax Empty :=
  { heads := [.clause { rel := 9, args := [.var 0] }],
    body := .cons (.flat (.clause 0 [.var 0, .expr (.add (.var 0) (.const (.int 1))), .wild, .var 1] []))
      (.cons (.flat (.cond (.letc 2 (.var 1))))
        (.cons (.flat (.clause 1 [.var 2, .var 2, .var 1, .var 0] []))
          (.cons (.disj (.cons (.cons (.flat (.clause 2 [.var 1, .var 1] [])) .nil)
            (.cons (.cons (.flat (.neg 2 [.expr (.var 0), .expr (.var 2)])) .nil) .nil))) .nil))) }

/-- is every rule of the output desugared -/
def check (c : Nat) (r : SRule Ex Bx Gx Px Ax Empty) : Bool :=
  match desugarRule stdOps c r with
  | some (rs, _) => !rs.isEmpty && rs.all fun r' => Hir.Desugared ⟨varsEx, varsBx⟩ r'
  | none => false

example : check 0 rule1 = true := by decide
example : check 0 rule2 = true := by decide
example : check 5 rule2 = true := by decide

/-- the input of the pass is not a fixed point: `foo(x, x)` taken as a core clause -/
example : Hir.Desugared ⟨varsEx, varsBx⟩
    ({ heads := [{ rel := 1, args := [.var 0] }], body := [.clause 0 [.var 0, .var 0] []] } : Rule Ex Bx Gx Px Ax) = false := by
  decide

/-- `NoReservedNames` cannot be dropped (finding F10 again): in `out(x) <-- foo(x, x, y)` with `y` spelled like the name the
pass generates for the second `x`, the output `foo(x, x_, x_) if x_.eq(&(x))` is NOT a fixed point of the pass -/
def rule3 : SRule Ex Bx Gx Px Ax Empty :=
  { heads := [.clause { rel := 1, args := [.var 0] }],
    body := .cons (.flat (.clause 0 [.var 0, .var 0, .var (gsRep 0)] [])) .nil }

example : check 0 rule3 = false := by decide
example : check 1 rule3 = true := by decide

end DesugaredEx

end AscentVerif.Surface

section
open AscentVerif.Surface
#print axioms AscentVerif.Hir.scanOf_here
#print axioms pwn_repKeys
#print axioms repArgs_argsOk
#print axioms repItems_desugFrom
#print axioms desugarFlat_desugared
#print axioms desugarRule_desugared
#print axioms desugarRules_desugared
#print axioms surface_to_physical'
end
