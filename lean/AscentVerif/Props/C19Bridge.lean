import AscentVerif.Props.C19
import AscentVerif.Model.Engine
/-!
# Bridge between C19 and the engine model: an index lookup is a filter

The engine model (`Model/Engine.lean`) evaluates a clause by scanning the row numbers of an index
version and matching each row; the generated code instead looks the bound columns up in a hash
index built by `update_indices` (and by head updates) with `index_insert(projection of the row
on the index columns, row number)`.  This file proves that the two coincide: for the index model of
C19, after inserting every row under its projection, a lookup returns exactly the row numbers
whose projection equals the key, each once, in insertion order — i.e. the filter the engine uses.
-/
namespace AscentVerif.Index
open AscentVerif

/-- projection of a row on the index columns -/
def proj (cols : List Nat) (t : Tuple) : List Val := cols.map fun c => t.getD c .unit

/-- `update_indices` for one index of one relation: insert every row number under the row's projection -/
def buildIdx (cols : List Nat) (rows : List Tuple) : Idx (List Val) Nat :=
  ((List.range rows.length).map fun i => (proj cols (Engine.rowAt rows i), i)).foldl
    (fun m kv => Idx.insert m kv.1 kv.2) []

/-- **index_get = filter**: the row numbers returned for a key are exactly those of the rows whose
projection on the index columns equals the key (in row order, each once); `None` iff there is none -/
theorem buildIdx_get (cols : List Nat) (rows : List Tuple) (key : List Val) :
    (buildIdx cols rows).get key =
      (let hits := (List.range rows.length).filter fun i => proj cols (Engine.rowAt rows i) = key
       if hits = [] then none else some hits) := by
  unfold buildIdx
  rw [Idx.get_of_inserts]
  have : ((List.map (fun i => (proj cols (Engine.rowAt rows i), i)) (List.range rows.length)).filter (fun kv => kv.1 = key)).map (·.2) =
      (List.range rows.length).filter fun i => proj cols (Engine.rowAt rows i) = key := by
    generalize List.range rows.length = l
    induction l with
    | nil => rfl
    | cons x xs ih =>
      simp only [List.map_cons, List.filter_cons]
      by_cases h : proj cols (Engine.rowAt rows x) = key
      · simp [h, ih]
      · simp [h, ih]
  simp only [this]

/-- iteration over the whole index (`iter_all`) visits every row number exactly once -/
theorem buildIdx_entries (cols : List Nat) (rows : List Tuple) :
    ((buildIdx cols rows).entries.map (·.2)).Perm (List.range rows.length) := by
  unfold buildIdx
  have h := Idx.entries_of_inserts ((List.range rows.length).map fun i => (proj cols (Engine.rowAt rows i), i))
  have := h.map (·.2)
  simpa [List.map_map, Function.comp_def] using this

example : (buildIdx [0] [[.int 1, .int 2], [.int 3, .int 4], [.int 1, .int 5]]).get [.int 1] = some [0, 2] := by decide

end AscentVerif.Index
