import AscentVerif.Model.Index
import AscentVerif.Proofs.IndexHMap
import AscentVerif.Proofs.IndexMerge
import AscentVerif.Proofs.IndexConc
/-!
# C19 — index building blocks behave as multimaps through insert, merge and freeze

Refinement of `Model/Index.lean` to the abstract multimap `K → multiset of V` (lists up to
`List.Perm`), set-valued for lattice indices, last-write map for full indices.
All statements are proved; nothing is assumed.
-/
set_option linter.unusedSectionVars false
namespace AscentVerif.Index

variable {K V : Type} [DecidableEq K] [DecidableEq V]

/-- representation invariant of a hash map: at most one entry per key -/
def NoDupKeys (m : HMap K V) : Prop := (m.map (·.1)).Nodup

/-- the multiset of values stored under `k` (empty when the key is absent) -/
def Idx.vals (m : Idx K V) (k : K) : List V := (m.get k).getD []

/-! ## hash-vector index (`RelIndexType1`) -/

theorem Idx.insert_noDup (m : Idx K V) (k : K) (v : V) (h : NoDupKeys m) : NoDupKeys (m.insert k v) :=
  HMap.nodup_keys_upsert _ _ _ h

/-- after an insert a lookup returns exactly the previous values plus the new one, other keys untouched -/
theorem Idx.get_insert (m : Idx K V) (k k' : K) (v : V) :
    (m.insert k v).get k' = if k' = k then some (m.vals k ++ [v]) else m.get k' := by
  unfold Idx.insert Idx.get Idx.vals Idx.get
  rw [HMap.get?_upsert]
  split
  · cases HMap.get? m k <;> simp
  · rfl

theorem Idx.vals_insert (m : Idx K V) (k k' : K) (v : V) :
    (m.insert k v).vals k' = if k' = k then m.vals k ++ [v] else m.vals k' := by
  unfold Idx.vals
  rw [Idx.get_insert]
  split <;> simp [Idx.vals]

theorem Idx.get_foldl_insert (ops : List (K × V)) (m : Idx K V) (k : K) :
    (ops.foldl (fun m kv => Idx.insert m kv.1 kv.2) m).get k =
      if (ops.filter (fun kv => kv.1 = k)).map (·.2) = [] then m.get k
      else some (m.vals k ++ (ops.filter (fun kv => kv.1 = k)).map (·.2)) := by
  induction ops generalizing m with
  | nil => simp
  | cons hd tl ih =>
    obtain ⟨a, b⟩ := hd
    rw [List.foldl_cons, ih]
    by_cases h : a = k
    · subst h
      simp only [List.filter_cons, decide_true, if_true, List.map_cons, Idx.get_insert, Idx.vals_insert]
      split <;> simp [*]
    · have h' : ¬ k = a := fun h3 => h h3.symm
      rw [List.filter_cons_of_neg (by simpa using h)]
      simp [Idx.get_insert, Idx.vals_insert, h']

/-- after ANY sequence of inserts into the empty index, a lookup returns exactly the values
inserted under that key (in insertion order), and `None` iff none was inserted -/
theorem Idx.get_of_inserts (ops : List (K × V)) (k : K) :
    (ops.foldl (fun m kv => Idx.insert m kv.1 kv.2) ([] : Idx K V)).get k =
      (let vs := (ops.filter (fun kv => kv.1 = k)).map (·.2); if vs = [] then none else some vs) := by
  rw [Idx.get_foldl_insert]
  simp only [Idx.vals, Idx.get, HMap.get?_nil]
  split <;> simp

theorem Idx.entries_nil : Idx.entries ([] : Idx K V) = [] := rfl

theorem Idx.entries_cons (a : K) (vs : List V) (m : Idx K V) :
    Idx.entries ((a, vs) :: m) = vs.map (fun v => (a, v)) ++ Idx.entries m := rfl

theorem Idx.entries_insert (m : Idx K V) (k : K) (v : V) :
    (m.insert k v).entries.Perm (m.entries ++ [(k, v)]) := by
  induction m with
  | nil => exact List.Perm.refl _
  | cons hd tl ih =>
    obtain ⟨a, vs⟩ := hd
    unfold Idx.insert at ih ⊢
    rw [HMap.upsert_cons]
    by_cases h : a = k
    · subst h
      simp only [if_true, Idx.entries_cons, List.map_append, List.map_cons, List.map_nil, List.append_assoc]
      exact List.Perm.append_left _ List.perm_append_comm
    · simp only [h, if_false, Idx.entries_cons, List.append_assoc]
      exact List.Perm.append_left _ ih

theorem Idx.entries_foldl_insert (ops : List (K × V)) (m : Idx K V) :
    (ops.foldl (fun m kv => Idx.insert m kv.1 kv.2) m).entries.Perm (m.entries ++ ops) := by
  induction ops generalizing m with
  | nil => simp
  | cons hd tl ih =>
    rw [List.foldl_cons]
    refine (ih _).trans ?_
    have := (Idx.entries_insert m hd.1 hd.2).append_right tl
    simpa using this

/-- iteration (`iter_all`) returns every inserted entry exactly once -/
theorem Idx.entries_of_inserts (ops : List (K × V)) :
    (ops.foldl (fun m kv => Idx.insert m kv.1 kv.2) ([] : Idx K V)).entries.Perm ops := by
  simpa [Idx.entries_nil] using Idx.entries_foldl_insert ops ([] : Idx K V)

/-- **merge law**, through both the map-level and the per-key swap branches:
`new' = ∅`, `delta' = new`, and for every key `total'` holds old total plus old delta -/
theorem Idx.mergeStep_spec (new delta total : Idx K V) (hd : NoDupKeys delta) (ht : NoDupKeys total) :
    let r := Idx.mergeStep new delta total
    r.1 = [] ∧ r.2.1 = new ∧ NoDupKeys r.2.2 ∧
    (∀ k, (Idx.vals r.2.2 k).Perm (Idx.vals total k ++ Idx.vals delta k)) ∧
    (∀ k, r.2.2.get k = none ↔ (total.get k = none ∧ delta.get k = none)) := by
  have hd' : (HMap.keys delta).Nodup := hd
  have ht' : (HMap.keys total).Nodup := ht
  simp only [Idx.mergeStep, Idx.moveContents_eq]
  refine ⟨trivial, trivial, ?_, ?_, ?_⟩
  · show (HMap.keys _).Nodup
    split
    · exact nodup_keys_drainInto _ _ _ hd'
    · exact nodup_keys_drainInto _ _ _ ht'
  · intro k
    unfold Idx.vals Idx.get
    split
    · exact (vals_drainInto_absorb total delta ht' k).trans List.perm_append_comm
    · exact vals_drainInto_absorb delta total hd' k
  · intro k
    unfold Idx.get
    split
    · rw [get?_drainInto_eq_none]; exact and_comm
    · rw [get?_drainInto_eq_none]

/-- no key maps to an empty vector, provided that held before (so `index_get = Some` means "has values") -/
theorem Idx.mergeStep_nonempty (new delta total : Idx K V)
    (hd : ∀ k vs, delta.get k = some vs → vs ≠ []) (ht : ∀ k vs, total.get k = some vs → vs ≠ []) :
    ∀ k vs, (Idx.mergeStep new delta total).2.2.get k = some vs → vs ≠ [] := by
  simp only [Idx.mergeStep, Idx.moveContents_eq, Idx.get] at hd ht ⊢
  split
  · apply drainInto_absorb_nonempty _ _ hd
    intro k hk; exact absurd rfl (ht k [] hk)
  · apply drainInto_absorb_nonempty _ _ ht
    intro k hk; exact absurd rfl (hd k [] hk)

/-- the combined total+delta view: `None` iff both miss, otherwise the chain of both -/
theorem combinedGet_spec (a b : Option (List V)) :
    (combinedGet a b = none ↔ (a = none ∧ b = none)) ∧ (combinedGet a b).getD [] = a.getD [] ++ b.getD [] := by
  cases a <;> cases b <;> simp [combinedGet]

/-! ## full index (`RelFullIndexType`): a map -/

theorem FullIdx.get_insert (m : FullIdx K V) (k k' : K) (v : V) :
    HMap.get? (m.insert k v) k' = if k' = k then some v else HMap.get? m k' := by
  unfold FullIdx.insert
  rw [HMap.get?_upsert]

/-- insert-if-absent succeeds iff the key is absent; on failure nothing changes; on success the key maps to `v` -/
theorem FullIdx.insertIfNotPresent_spec (m : FullIdx K V) (k : K) (v : V) :
    ((m.insertIfNotPresent k v).2 = true ↔ HMap.get? m k = none) ∧
    ((m.insertIfNotPresent k v).2 = false → (m.insertIfNotPresent k v).1 = m) ∧
    (∀ k', HMap.get? (m.insertIfNotPresent k v).1 k' =
      if k' = k then some ((HMap.get? m k).getD v) else HMap.get? m k') ∧
    (NoDupKeys m → NoDupKeys (m.insertIfNotPresent k v).1) := by
  unfold FullIdx.insertIfNotPresent
  cases h : HMap.get? m k with
  | some x =>
    refine ⟨by simp, fun _ => rfl, ?_, fun hm => hm⟩
    intro k'
    by_cases hk : k' = k
    · subst hk; simp [h]
    · simp [hk]
  | none =>
    have hup : m ++ [(k, v)] = HMap.upsert m k (fun _ => v) := (HMap.upsert_of_get?_none m k (fun _ => v) h).symm
    refine ⟨by simp, by simp, ?_, ?_⟩
    · intro k'
      simp only [hup, HMap.get?_upsert, Option.getD_none]
    · intro hm
      simp only [hup]
      exact HMap.nodup_keys_upsert _ _ _ hm

/-- merge law for full indices: key set = union; with disjoint key sets (the engine's
invariant: a tuple is in at most one of total / delta) every key keeps its value -/
theorem FullIdx.mergeStep_spec (new delta total : FullIdx K V) (hd : NoDupKeys delta) (ht : NoDupKeys total) :
    let r := FullIdx.mergeStep new delta total
    r.1 = [] ∧ r.2.1 = new ∧ NoDupKeys r.2.2 ∧
    (∀ k, (HMap.get? r.2.2 k).isSome = ((HMap.get? total k).isSome || (HMap.get? delta k).isSome)) ∧
    ((∀ k, ¬ ((HMap.get? total k).isSome ∧ (HMap.get? delta k).isSome)) →
      ∀ k, HMap.get? r.2.2 k = (HMap.get? total k).orElse (fun _ => HMap.get? delta k)) := by
  have hd' : (HMap.keys delta).Nodup := hd
  have ht' : (HMap.keys total).Nodup := ht
  simp only [FullIdx.mergeStep, FullIdx.moveContents_eq]
  refine ⟨trivial, trivial, ?_, ?_, ?_⟩
  · show (HMap.keys _).Nodup
    split
    · exact nodup_keys_drainInto _ _ _ hd'
    · exact nodup_keys_drainInto _ _ _ ht'
  · intro k
    split
    · rw [get?_drainInto _ _ _ ht']
      cases HMap.get? total k <;> cases HMap.get? delta k <;> rfl
    · rw [get?_drainInto _ _ _ hd']
      cases HMap.get? total k <;> cases HMap.get? delta k <;> rfl
  · intro hdisj k
    split
    · rw [get?_drainInto _ _ _ ht']
      cases HMap.get? total k <;> rfl
    · rw [get?_drainInto _ _ _ hd']
      have := hdisj k
      cases ht2 : HMap.get? total k <;> cases hd2 : HMap.get? delta k <;> simp [ht2, hd2] at this ⊢

/-! ## lattice index (`LatticeIndexType`): set-valued -/

theorem LatIdx.get_insert (m : LatIdx K V) (k k' : K) (v : V) :
    HMap.get? (m.insert k v) k' =
      if k' = k then some (setAdd ((HMap.get? m k).getD []) v) else HMap.get? m k' := by
  unfold LatIdx.insert
  rw [HMap.get?_upsert]
  split
  · cases HMap.get? m k <;> simp [setAdd]
  · rfl

theorem setAdd_nodup (s : List V) (v : V) (h : s.Nodup) : (setAdd s v).Nodup := setAdd_nodup' s v h
theorem mem_setAdd (s : List V) (v x : V) : x ∈ setAdd s v ↔ x ∈ s ∨ x = v := mem_setAdd' s v x

/-- re-inserting a row number is idempotent (what makes re-queued lattice rows harmless in serial mode) -/
theorem LatIdx.insert_idem (m : LatIdx K V) (k : K) (v : V) : (m.insert k v).insert k v = m.insert k v := by
  have hs : ∀ s : List V, setAdd (setAdd s v) v = setAdd s v := by
    intro s
    have : v ∈ setAdd s v := (mem_setAdd' s v v).2 (Or.inr rfl)
    generalize setAdd s v = t at this
    unfold setAdd
    simp [this]
  unfold LatIdx.insert
  induction m with
  | nil => simp [HMap.upsert_nil, HMap.upsert_cons, setAdd]
  | cons hd tl ih =>
    obtain ⟨a, s⟩ := hd
    by_cases h : a = k
    · simp [HMap.upsert_cons, h, hs]
    · simp only [HMap.upsert_cons, h, if_false, ih]

theorem LatIdx.mergeStep_spec (new delta total : LatIdx K V) (hd : NoDupKeys delta) (ht : NoDupKeys total)
    (hts : ∀ k s, HMap.get? total k = some s → s.Nodup) :
    let r := LatIdx.mergeStep new delta total
    r.1 = [] ∧ r.2.1 = new ∧ NoDupKeys r.2.2 ∧
    (∀ k s, HMap.get? r.2.2 k = some s → s.Nodup) ∧
    (∀ k x, x ∈ (HMap.get? r.2.2 k).getD [] ↔ (x ∈ (HMap.get? total k).getD [] ∨ x ∈ (HMap.get? delta k).getD [])) := by
  have hd' : (HMap.keys delta).Nodup := hd
  have ht' : (HMap.keys total).Nodup := ht
  simp only [LatIdx.mergeStep, LatIdx.moveContents_eq]
  refine ⟨trivial, trivial, nodup_keys_drainInto _ _ _ ht', ?_, ?_⟩
  · intro k s
    rw [get?_drainInto _ _ _ hd']
    cases hdk : HMap.get? delta k with
    | none => exact hts k s
    | some w =>
      simp only [Option.some.injEq]
      intro hs; subst hs
      apply nodup_foldl_setAdd
      cases htk : HMap.get? total k with
      | none => simp
      | some t => exact hts k t htk
  · intro k x
    rw [get?_drainInto _ _ _ hd']
    cases hdk : HMap.get? delta k with
    | none => simp
    | some w => simp [latFn, mem_foldl_setAdd]

/-! ## no-index (`RelNoIndexType`) -/
theorem NoIdx.mergeStep_spec (new delta total : NoIdx V) :
    NoIdx.mergeStep new delta total = ([], new, total ++ delta) := rfl

/-! ## concurrent indices -/

/-- the values under `k` in a sharded index -/
def CIdx.vals (c : CIdx V) (k : Int) : List V := ((c.shards.getD (shardOf k c.shards.length) []).get k).getD []

/-- freezing / unfreezing never changes the contents -/
theorem CIdx.freeze_unfreeze (c : CIdx V) :
    c.freeze.shards = c.shards ∧ c.unfreeze.shards = c.shards ∧ c.freeze.unfreeze.frozen = false ∧ c.unfreeze.freeze.frozen = true :=
  ⟨rfl, rfl, rfl, rfl⟩

/-- writes need `Unfrozen`, reads need `Frozen`: exactly these combinations are the model's panics -/
theorem CIdx.panic_iff (c : CIdx V) (k : Int) (v : V) :
    ((∃ c', c.insert k v = .ok c') ↔ c.frozen = false) ∧ ((∃ r, c.get k = .ok r) ↔ c.frozen = true) := by
  unfold CIdx.insert CIdx.get
  cases c.frozen <;> simp

theorem CIdx.vals_insert (c c' : CIdx V) (k k' : Int) (v : V) (hn : 0 < c.shards.length) (h : c.insert k v = .ok c') :
    c'.shards.length = c.shards.length ∧ c'.vals k' = if k' = k then c.vals k ++ [v] else c.vals k' := by
  unfold CIdx.insert at h
  split at h
  · cases h
  · injection h with h; subst h
    refine ⟨length_modifyNth _ _ _, ?_⟩
    have hlt := shardOf_lt k _ hn
    show Idx.vals ((modifyNth c.shards _ _).getD (shardOf k' (modifyNth c.shards _ _).length) []) k' = _
    rw [length_modifyNth, getD_modifyNth]
    by_cases hs : shardOf k' c.shards.length = shardOf k c.shards.length
    · simp only [hs, hlt, and_self, if_true]
      rw [Idx.vals_insert]
      split
      · rename_i hk; subst hk; rfl
      · rw [← hs]; rfl
    · have hk : ¬ k' = k := fun e => hs (by rw [e])
      simp only [hs, false_and, if_false, hk]
      rfl

theorem CIdx.vals_new (n : Nat) (k : Int) : (CIdx.new n : CIdx V).vals k = [] := by
  show Idx.vals ((List.replicate n []).getD _ []) k = []
  rw [getD_replicate_nil]
  rfl

theorem CIdx.vals_foldlM_insert (ops : List (Int × V)) (c0 c : CIdx V) (hn : 0 < c0.shards.length)
    (h : ops.foldlM (fun (m : CIdx V) kv => match m.insert kv.1 kv.2 with | .ok m' => some m' | .panic => none) c0 = some c) :
    c.shards.length = c0.shards.length ∧
      ∀ k, c.vals k = c0.vals k ++ (ops.filter (fun kv => kv.1 = k)).map (·.2) := by
  induction ops generalizing c0 with
  | nil =>
    simp only [List.foldlM_nil] at h
    cases h
    simp
  | cons hd tl ih =>
    obtain ⟨a, b⟩ := hd
    rw [List.foldlM_cons] at h
    cases hins : c0.insert a b with
    | panic => simp [hins] at h
    | ok c1 =>
      simp only [hins] at h
      have hstep := CIdx.vals_insert c0 c1 a
      have hlen : c1.shards.length = c0.shards.length := (hstep a b hn hins).1
      obtain ⟨ih1, ih2⟩ := ih c1 (hlen ▸ hn) h
      refine ⟨ih1.trans hlen, ?_⟩
      intro k
      rw [ih2 k, (hstep k b hn hins).2]
      by_cases hk : k = a
      · subst hk; simp
      · have : ¬ a = k := fun e => hk e.symm
        simp [hk, this]

/-- **all concurrent inserts are retained, whatever the interleaving**: the insert steps are
atomic (shard lock), so an interleaving of the threads' insert lists is a sequence; for any
two orders of the same multiset of inserts the values under every key agree up to order -/
theorem CIdx.inserts_order_independent (n : Nat) (hn : 0 < n) (ops ops' : List (Int × V)) (hp : ops.Perm ops')
    (c c' : CIdx V)
    (h : ops.foldlM (fun (m : CIdx V) kv => match m.insert kv.1 kv.2 with | .ok m' => some m' | .panic => none) (CIdx.new n) = some c)
    (h' : ops'.foldlM (fun (m : CIdx V) kv => match m.insert kv.1 kv.2 with | .ok m' => some m' | .panic => none) (CIdx.new n) = some c') :
    ∀ k, (c.vals k).Perm (c'.vals k) ∧ (c.vals k).Perm ((ops.filter (fun kv => kv.1 = k)).map (·.2)) := by
  intro k
  have hn' : 0 < (CIdx.new n : CIdx V).shards.length := by simp [CIdx.new, hn]
  have h1 := (CIdx.vals_foldlM_insert ops _ c hn' h).2 k
  have h2 := (CIdx.vals_foldlM_insert ops' _ c' hn' h').2 k
  rw [CIdx.vals_new, List.nil_append] at h1 h2
  rw [h1, h2]
  exact ⟨(hp.filter _).map _, List.Perm.refl _⟩

theorem Idx.vals_moveContents (f t : Idx K V) (hf : NoDupKeys f) (ht : NoDupKeys t) (k : K) :
    (Idx.vals (Idx.moveContents f t).2 k).Perm (Idx.vals t k ++ Idx.vals f k) :=
  (Idx.mergeStep_spec ([] : Idx K V) f t hf ht).2.2.2.1 k

/-- shard-wise merge law for the concurrent hash-vector index -/
theorem CIdx.moveContents_spec (frm to frm' to' : CIdx V) (h : CIdx.moveContents frm to = .ok (frm', to'))
    (hn : 0 < to.shards.length)
    (hf : ∀ s ∈ frm.shards, NoDupKeys s) (ht : ∀ s ∈ to.shards, NoDupKeys s) :
    to'.shards.length = to.shards.length ∧ (∀ k, frm'.vals k = []) ∧
    (∀ k, (to'.vals k).Perm (to.vals k ++ frm.vals k)) := by
  unfold CIdx.moveContents at h
  split at h
  · cases h
  split at h
  · cases h
  rename_i hfz hlen
  have hlen : frm.shards.length = to.shards.length := by simpa using hlen
  injection h with h
  injection h with h1 h2
  subst h1; subst h2
  have hG1 : ∀ l : List (Idx Int V × Idx Int V),
      (l.map (fun x => match x with | (f, t) => Idx.moveContents f t)).map (·.1) = l.map (fun _ => ([] : Idx Int V)) := by
    intro l; rw [List.map_map]; rfl
  have hG2 : ∀ l : List (Idx Int V × Idx Int V),
      (l.map (fun x => match x with | (f, t) => Idx.moveContents f t)).map (·.2) =
        l.map (fun p => (Idx.moveContents p.1 p.2).2) := by
    intro l; rw [List.map_map]; rfl
  simp only [hG1, hG2]
  have hl2 : ((frm.shards.zip to.shards).map (fun p => (Idx.moveContents p.1 p.2).2)).length = to.shards.length := by
    simp [List.length_zip, hlen]
  refine ⟨hl2, ?_, ?_⟩
  · intro k
    show Idx.vals (List.getD _ _ []) k = []
    have : List.getD ((frm.shards.zip to.shards).map (fun _ => ([] : Idx Int V)))
        (shardOf k ((frm.shards.zip to.shards).map (fun _ => ([] : Idx Int V))).length) [] = [] := by
      apply getD_of_forall (fun x => x = [])
      · intro x hx; simp at hx; exact hx.2
      · rfl
    rw [this]; rfl
  · intro k
    show (Idx.vals (List.getD _ (shardOf k _) []) k).Perm
      (Idx.vals (to.shards.getD (shardOf k to.shards.length) []) k ++
       Idx.vals (frm.shards.getD (shardOf k frm.shards.length) []) k)
    rw [hl2, hlen]
    have hz := getD_map_zip (fun p : Idx Int V × Idx Int V => (Idx.moveContents p.1 p.2).2) frm.shards to.shards
      (shardOf k to.shards.length) [] [] [] hlen rfl
    dsimp only at hz ⊢
    rw [hz]
    apply Idx.vals_moveContents
    · exact getD_of_forall _ _ _ _ hf (by simp [NoDupKeys])
    · exact getD_of_forall _ _ _ _ ht (by simp [NoDupKeys])

theorem filter_length_cons {α : Type} (p : α → Bool) (x : α) (l : List α) :
    ((x :: l).filter p).length = (if p x = true then 1 else 0) + (l.filter p).length := by
  rw [List.filter_cons]
  split
  · simp; omega
  · simp

/-- effect of the shard-level insert-if-absent on `getCloned`, shared by the locked and `&mut` versions -/
theorem CFullIdx.getCloned_modify (c : CFullIdx V) (hn : 0 < c.shards.length) (k' k : Int) (v : V) (fz : Bool) :
    let i := shardOf k' c.shards.length
    let r := FullIdx.insertIfNotPresent (c.shards.getD i []) k' v
    (r.2 = true ↔ c.getCloned k' = none) ∧
    CFullIdx.getCloned ⟨fz, modifyNth c.shards i fun _ => r.1⟩ k =
      if k = k' then some ((c.getCloned k').getD v) else c.getCloned k := by
  intro i r
  have hspec := FullIdx.insertIfNotPresent_spec (c.shards.getD i []) k' v
  refine ⟨hspec.1, ?_⟩
  have hlt : i < c.shards.length := shardOf_lt k' _ hn
  show HMap.get? ((modifyNth c.shards i _).getD (shardOf k (modifyNth c.shards i _).length) []) k = _
  rw [length_modifyNth, getD_modifyNth]
  by_cases hs : shardOf k c.shards.length = i
  · simp only [hs, hlt, and_self, if_true]
    rw [hspec.2.2.1 k]
    split
    · rfl
    · show _ = HMap.get? (c.shards.getD (shardOf k c.shards.length) []) k
      rw [hs]
  · have hk : ¬ k = k' := fun e => hs (by rw [e])
    simp only [hs, false_and, if_false, hk]
    rfl

theorem CFullIdx.insertIfNotPresent_ok (c c1 : CFullIdx V) (hn : 0 < c.shards.length) (k' : Int) (v : V) (won : Bool)
    (h : c.insertIfNotPresent k' v = .ok (c1, won)) :
    c1.shards.length = c.shards.length ∧ (won = true ↔ c.getCloned k' = none) ∧
    ∀ k, c1.getCloned k = if k = k' then some ((c.getCloned k').getD v) else c.getCloned k := by
  unfold CFullIdx.insertIfNotPresent at h
  split at h
  · cases h
  · injection h with h
    injection h with h1 h2
    subst h1; subst h2
    refine ⟨length_modifyNth _ _ _, (CFullIdx.getCloned_modify c hn k' k' v c.frozen).1, ?_⟩
    intro k
    exact (CFullIdx.getCloned_modify c hn k' k v c.frozen).2

/-- running a list of racing `insert_if_not_present` attempts (atomic steps) in the given
order; returns the final index and the per-attempt results -/
def raceRun (c : CFullIdx V) : List (Int × V) → Option (CFullIdx V × List Bool)
  | [] => some (c, [])
  | (k, v) :: rest =>
    match c.insertIfNotPresent k v with
    | .panic => none
    | .ok (c', won) => (raceRun c' rest).map fun (cf, rs) => (cf, won :: rs)

/-- **insert-if-absent succeeds for exactly one of the callers racing on a key**, in every
interleaving: among the attempts on key `k`, exactly one wins if `k` was absent (and there
is an attempt), none if it was present -/
theorem CFullIdx.race_one_winner (c cf : CFullIdx V) (hn : 0 < c.shards.length) (atts : List (Int × V)) (rs : List Bool)
    (h : raceRun c atts = some (cf, rs)) (k : Int) :
    rs.length = atts.length ∧
    ((atts.zip rs).filter (fun ar => ar.1.1 = k ∧ ar.2 = true)).length =
      (if (c.getCloned k).isSome then 0 else if atts.any (fun a => a.1 = k) then 1 else 0) ∧
    (cf.getCloned k).isSome = ((c.getCloned k).isSome || atts.any (fun a => a.1 = k)) := by
  induction atts generalizing c rs with
  | nil =>
    simp only [raceRun, Option.some.injEq, Prod.mk.injEq] at h
    obtain ⟨h1, h2⟩ := h
    subst h1; subst h2
    simp
  | cons a rest ih =>
    obtain ⟨k', v⟩ := a
    simp only [raceRun] at h
    cases hins : c.insertIfNotPresent k' v with
    | panic => simp [hins] at h
    | ok p =>
      obtain ⟨c1, won⟩ := p
      rw [hins] at h
      simp only [Option.map_eq_some_iff] at h
      obtain ⟨⟨cf', rs'⟩, hrun, heq⟩ := h
      simp only [Prod.mk.injEq] at heq
      obtain ⟨h1, h2⟩ := heq
      subst h1; subst h2
      obtain ⟨hlen, hwon, hget⟩ := CFullIdx.insertIfNotPresent_ok c c1 hn k' v won hins
      obtain ⟨ih1, ih2, ih3⟩ := ih c1 (hlen ▸ hn) rs' hrun
      refine ⟨by simp [ih1], ?_, ?_⟩
      · rw [List.zip_cons_cons, filter_length_cons, ih2, hget k, List.any_cons]
        by_cases hk : k = k'
        · subst hk
          cases hc : c.getCloned k with
          | none =>
            have hw : won = true := hwon.2 hc
            simp [hw]
          | some x =>
            have hw : won = false := by
              cases won with
              | false => rfl
              | true => have := hwon.1 rfl; simp [hc] at this
            simp [hw]
        · have hk' : decide (k' = k) = false := decide_eq_false (fun e => hk e.symm)
          have hk2 : ¬ k' = k := fun e => hk e.symm
          rw [hk', Bool.false_or, if_neg hk]
          simp [hk2]
      · rw [ih3, hget k]
        by_cases hk : k = k'
        · subst hk; simp
        · have hk' : ¬ k' = k := fun e => hk e.symm
          simp [hk, hk']

/-- the `&mut self` insert-if-absent works on a frozen index too (it unfreezes first) -/
theorem CFullIdx.insertIfNotPresentMut_spec (c : CFullIdx V) (hn : 0 < c.shards.length) (k : Int) (v : V) :
    ((c.insertIfNotPresentMut k v).2 = true ↔ c.getCloned k = none) ∧
    (c.insertIfNotPresentMut k v).1.frozen = false ∧
    ((c.insertIfNotPresentMut k v).1.getCloned k).isSome = true := by
  have hm := CFullIdx.getCloned_modify c hn k k v false
  refine ⟨hm.1, rfl, ?_⟩
  exact (congrArg Option.isSome hm.2).trans (by simp)

/-- `CRelNoIndex`: the merge is a shard-wise zip; it keeps everything **provided `from` has no
more shards than `to`** … -/
theorem CNoIdx.moveContents_spec (frm to : CNoIdx V) (h : frm.shards.length ≤ to.shards.length) :
    let r := CNoIdx.moveContents frm to
    r.1.shards.flatten = [] ∧ r.2.shards.length = to.shards.length ∧
    r.2.shards.flatten.Perm (to.shards.flatten ++ frm.shards.flatten) := by
  simp only [CNoIdx.moveContents_eq]
  exact noIdx_zip_move frm.shards to.shards h

/-- … and silently drops from the merge what lives in `from`'s extra shards otherwise (the hazard behind C20):
here a 2-shard `from` merged into a 1-shard `to` leaves `7` behind in `from` -/
theorem CNoIdx.moveContents_truncates :
    (CNoIdx.moveContents (⟨false, [[1], [7]]⟩ : CNoIdx Int) ⟨false, [[5]]⟩).2.shards.flatten = [5, 1] := by decide

/-! ## `is_empty`: "definitely empty" is never claimed of an index that holds an entry -/

private theorem flatMap_nil_of_all_isEmpty {α β : Type} (f : List α → List β) (hf : f [] = []) :
    ∀ (l : List (List α)), l.all List.isEmpty = true → l.flatMap f = []
  | [], _ => rfl
  | x :: xs, h => by
    simp only [List.all_cons, Bool.and_eq_true, List.isEmpty_iff] at h
    rw [List.flatMap_cons, h.1, hf, flatMap_nil_of_all_isEmpty f hf xs h.2]; rfl

/-- serial indices: `is_empty` is exactly "no entry" for maps whose keys all hold a value (the invariant
`mergeStep_nonempty` maintains), and in any case `true` only if there is no entry -/
theorem Idx.isEmpty_sound (m : Idx K V) (h : HMap.isEmpty m = true) : Idx.entries m = [] := by
  have : m = [] := List.isEmpty_iff.mp h
  subst this; rfl

theorem FullIdx.isEmpty_iff (m : FullIdx K V) : HMap.isEmpty m = true ↔ m = [] := List.isEmpty_iff

/-- concurrent indices: a frozen index that answers `is_empty = true` has no entry in ANY shard (the generated
parallel code skips a rule on `true`: an answer computed from a sample of the shards would lose derivations) -/
theorem CIdx.isEmpty_sound (c : CIdx V) (h : c.isEmpty = .ok true) : c.entries = [] := by
  unfold CIdx.isEmpty at h
  split at h
  · cases h
  · simp only [Res.ok.injEq] at h
    exact flatMap_nil_of_all_isEmpty Idx.entries rfl c.shards h

theorem CFullIdx.isEmpty_sound (c : CFullIdx V) (h : c.isEmpty = .ok true) : c.entries = [] := by
  unfold CFullIdx.isEmpty at h
  split at h
  · cases h
  · simp only [Res.ok.injEq] at h
    exact flatMap_nil_of_all_isEmpty id rfl c.shards h

theorem CLatIdx.isEmpty_sound (c : CLatIdx V) (h : c.isEmpty = .ok true) : c.entries = [] := by
  unfold CLatIdx.isEmpty at h
  split at h
  · cases h
  · simp only [Res.ok.injEq] at h
    exact flatMap_nil_of_all_isEmpty Idx.entries rfl c.shards h

/-- and a non-empty full index never answers `true` -/
theorem CFullIdx.isEmpty_complete (c : CFullIdx V) (hf : c.frozen = true) (h : c.entries = []) : c.isEmpty = .ok true := by
  unfold CFullIdx.isEmpty
  simp only [hf, Bool.not_true, Bool.false_eq_true, if_false, Res.ok.injEq]
  unfold CFullIdx.entries at h
  rw [List.all_eq_true]
  intro x hx
  rw [List.isEmpty_iff]
  have := List.flatMap_eq_nil_iff.mp h x hx
  simpa using this

/-- the combined total+delta view is empty only if both sides are -/
theorem combinedIsEmpty_spec (a b : Bool) : combinedIsEmpty a b = true ↔ (a = true ∧ b = true) := by
  simp [combinedIsEmpty]

/-! ## non-vacuity -/
example : NoDupKeys ([(1, [10, 11]), (2, [20])] : Idx Int Int) := by unfold NoDupKeys; decide
example : (Idx.mergeStep ([(3, [30])] : Idx Int Int) [(1, [12, 13, 14]), (4, [40])] [(1, [10]), (2, [20])]) =
    ([], [(3, [30])], [(1, [12, 13, 14, 10]), (2, [20]), (4, [40])]) := by decide
example : raceRun (CFullIdx.new 2 : CFullIdx Int) [(1, 10), (1, 11), (2, 20), (1, 12)] =
    some (⟨false, [[(2, 20)], [(1, 10)]]⟩, [true, false, true, false]) := by decide

/-! ## axiom audit -/
#print axioms Idx.isEmpty_sound
#print axioms CIdx.isEmpty_sound
#print axioms CFullIdx.isEmpty_sound
#print axioms CFullIdx.isEmpty_complete
#print axioms CLatIdx.isEmpty_sound
#print axioms combinedIsEmpty_spec
#print axioms Idx.insert_noDup
#print axioms Idx.get_insert
#print axioms Idx.get_of_inserts
#print axioms Idx.entries_of_inserts
#print axioms Idx.mergeStep_spec
#print axioms Idx.mergeStep_nonempty
#print axioms combinedGet_spec
#print axioms FullIdx.get_insert
#print axioms FullIdx.insertIfNotPresent_spec
#print axioms FullIdx.mergeStep_spec
#print axioms LatIdx.get_insert
#print axioms setAdd_nodup
#print axioms mem_setAdd
#print axioms LatIdx.insert_idem
#print axioms LatIdx.mergeStep_spec
#print axioms NoIdx.mergeStep_spec
#print axioms CIdx.freeze_unfreeze
#print axioms CIdx.panic_iff
#print axioms CIdx.vals_insert
#print axioms CIdx.inserts_order_independent
#print axioms CIdx.moveContents_spec
#print axioms CFullIdx.race_one_winner
#print axioms CFullIdx.insertIfNotPresentMut_spec
#print axioms CNoIdx.moveContents_spec
#print axioms CNoIdx.moveContents_truncates

end AscentVerif.Index
