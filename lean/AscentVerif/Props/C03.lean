import AscentVerif.Props.C01
import AscentVerif.Spec.LatticeLfp
import AscentVerif.Model.StdInterp
import AscentVerif.Proofs.LatStd
import AscentVerif.Proofs.LatHead
import AscentVerif.Proofs.LatStrata
/-!
# C03 — lattice relations hold one row per key carrying the least fixed point

Programs mixing relations and lattice relations, no aggregation, serial mode.  For every
interpretation whose `join_mut`s satisfy `LatOrder`, every input with one row per lattice key:
after `run()` (1) every lattice relation has exactly one row per key, (2) the result is closed —
every increase of a lattice value has been propagated through every rule — and (3) for programs
using lattice values monotonically it is below every closed database: the least fixed point.
All statements are proved.
-/
namespace AscentVerif.Engine
open AscentVerif

variable {E B G P A : Type}

/-- C03's fragment: no aggregation; declared heads; lattice relations have at least the value column -/
def LatticeProg (p : Program E B G P A) : Prop :=
  (∀ r ∈ p.rules, r.aggFree = true) ∧ (∀ r ∈ p.rules, ∀ h ∈ r.heads, h.rel < p.rels.length) ∧
  (∀ d ∈ p.rels, d.lat = true → 0 < d.arity) ∧
  (∀ r ∈ p.rules, ∀ h ∈ r.heads, h.args.length = (declOf p h.rel).arity)

/-- the caller put at most one row per key into each lattice relation, and rows have the declared arity -/
def InputOK (p : Program E B G P A) (inp : RelId → List Tuple) : Prop :=
  (∀ r, r < p.rels.length → ∀ t ∈ inp r, t.length = (declOf p r).arity) ∧
  (∀ r, r < p.rels.length → (declOf p r).lat = true → ((inp r).map keyOf).Nodup)

/-! ## the head update keeps one row per key and only moves values up -/

/-- one lattice head update: keys stay unique, no row disappears, every stored value only grows,
and afterwards the key's row dominates the new value -/
theorem headLat_spec (I : Interp E B G P A) (L : LatOrder I) (s : SccSt) (r : RelId) (row : Tuple)
    (d : Dyn) (hd : findDyn s.dyn r = some d) (hrow : 0 < row.length)
    (hidx : ∀ i ∈ d.total ++ d.delta ++ d.new, i < (relSt s.rels r).rows.length)
    (hall : ∀ i, i < (relSt s.rels r).rows.length → i ∈ d.total ++ d.delta ++ d.new)
    (hlen : ∀ t ∈ (relSt s.rels r).rows, 0 < t.length)
    (hr : r < s.rels.length)
    (hk : ((relSt s.rels r).rows.map keyOf).Nodup) :
    let s' := headLat I {} s r row
    let rows := (relSt s.rels r).rows
    let rows' := (relSt s'.rels r).rows
    (rows'.map keyOf).Nodup ∧ rows.length ≤ rows'.length ∧
    (∀ i, i < rows.length → keyOf (rowAt rows' i) = keyOf (rowAt rows i) ∧ L.le r (valOf (rowAt rows i)) (valOf (rowAt rows' i))) ∧
    (∃ t ∈ rows', keyOf t = keyOf row ∧ L.le r (valOf row) (valOf t)) :=
  headLat_spec' I L s r row d hd hidx hall hr hk

/-! ## the main theorems -/

/-- (1) exactly one row per key -/
theorem run_lattice_key_unique (I : Interp E B G P A) (L : LatOrder I) (p : Program E B G P A) (order : SccOrder)
    (inp : RelId → List Tuple) (fuel : Nat) (ps : ProgSt)
    (hp : LatticeProg p) (ho : validOrder p order = true) (hi : InputOK p inp)
    (hrun : run I {} p order fuel (initSt p inp) = .done ps) :
    ∀ r, r < p.rels.length → (declOf p r).lat = true → ((relSt ps.st r).rows.map keyOf).Nodup :=
  fun r _ hl => (run_spec' (L := L) hp.1 hp.2.1 hi.2 order ho fuel ps hrun).1.keys r hl

/-- (2) closed: the input is dominated and every rule instance over the FINAL values has its head
dominated — every increase of a lattice value was propagated to everything that depends on it -/
theorem run_lattice_closed (I : Interp E B G P A) (L : LatOrder I) (p : Program E B G P A) (order : SccOrder)
    (inp : RelId → List Tuple) (fuel : Nat) (ps : ProgSt)
    (hp : LatticeProg p) (ho : validOrder p order = true) (hi : InputOK p inp)
    (hrun : run I {} p order fuel (initSt p inp) = .done ps) :
    LClosed I L p (inputDB p inp) (factsOf ps.st) :=
  have h := run_spec' (L := L) hp.1 hp.2.1 hi.2 order ho fuel ps hrun
  ⟨h.2.2, h.2.1⟩

/-- (3) least: below every key-unique closed database, for programs that use lattice values monotonically -/
theorem run_lattice_least (I : Interp E B G P A) (L : LatOrder I) (p : Program E B G P A) (order : SccOrder)
    (inp : RelId → List Tuple) (fuel : Nat) (ps : ProgSt)
    (hp : LatticeProg p) (ho : validOrder p order = true) (hi : InputOK p inp) (hm : MonotoneProg I L p)
    (hrun : run I {} p order fuel (initSt p inp) = .done ps)
    (M : DB) (hMk : KeyUnique p M) (hM : LClosed I L p (inputDB p inp) M) :
    DBLe I L p (factsOf ps.st) M :=
  (run_spec' (L := L) hp.1 hp.2.1 hi.2 order ho fuel ps hrun).1.below M ⟨hm, hMk, hM⟩

/-- relation (non-lattice) rows are still a set, inputs first (C05 for lattice programs) -/
theorem run_lattice_rel_rows_set (I : Interp E B G P A) (L : LatOrder I) (p : Program E B G P A) (order : SccOrder)
    (inp : RelId → List Tuple) (fuel : Nat) (ps : ProgSt)
    (hp : LatticeProg p) (ho : validOrder p order = true) (hi : InputOK p inp)
    (hrun : run I {} p order fuel (initSt p inp) = .done ps) :
    ∀ r, r < p.rels.length → (declOf p r).lat = false → ∃ derived : List Tuple,
      (relSt ps.st r).rows = inp r ++ derived ∧ derived.Nodup ∧ ∀ t ∈ derived, t ∉ inp r :=
  fun r hr hl => (run_spec' (L := L) hp.1 hp.2.1 hi.2 order ho fuel ps hrun).1.relset r hr hl

/-! ## the hypothesis `LatOrder` is satisfiable: the `i64` (max) and `Dual<i64>` (min) columns of the ties -/

/-- order of the standard interpretation's lattice columns (`intOf` coerces; max/min kinds) -/
def stdLe (kinds : RelId → Std.LatKind) (r : RelId) (a b : Val) : Prop :=
  match kinds r with
  | .maxInt => Std.intOf a ≤ Std.intOf b
  | .minInt => Std.intOf b ≤ Std.intOf a
  | _ => a = b

theorem std_latOrder_maxmin (kinds : RelId → Std.LatKind) (hk : ∀ r, kinds r = .maxInt ∨ kinds r = .minInt) :
    ∃ L : LatOrder (Std.interp kinds), L.le = stdLe kinds := by
  refine ⟨{ le := stdLe kinds, refl := ?_, trans := ?_, join_left := ?_, join_right := ?_, join_least := ?_,
            flag_false := ?_ }, rfl⟩
  · intro r a
    rcases hk r with h | h <;> simp [stdLe, h]
  · intro r a b c
    rcases hk r with h | h <;> simp only [stdLe, h] <;> omega
  · intro r a b
    rcases hk r with h | h
    · simp only [stdLe, Std.interp, h, Std.joinMut_maxInt]
      split <;> simp only [Std.intOf_int] <;> omega
    · simp only [stdLe, Std.interp, h, Std.joinMut_minInt]
      split <;> simp only [Std.intOf_int] <;> omega
  · intro r a b
    rcases hk r with h | h
    · simp only [stdLe, Std.interp, h, Std.joinMut_maxInt]
      split <;> simp only [Std.intOf_int] <;> omega
    · simp only [stdLe, Std.interp, h, Std.joinMut_minInt]
      split <;> simp only [Std.intOf_int] <;> omega
  · intro r a b c
    rcases hk r with h | h
    · simp only [stdLe, Std.interp, h, Std.joinMut_maxInt]
      split <;> simp only [Std.intOf_int] <;> omega
    · simp only [stdLe, Std.interp, h, Std.joinMut_minInt]
      split <;> simp only [Std.intOf_int] <;> omega
  · intro r a b
    rcases hk r with h | h
    · simp only [stdLe, Std.interp, h, Std.joinMut_maxInt]
      split <;> simp <;> omega
    · simp only [stdLe, Std.interp, h, Std.joinMut_minInt]
      split <;> simp <;> omega

/-! ## axiom audit -/
#print axioms headLat_spec
#print axioms run_lattice_key_unique
#print axioms run_lattice_closed
#print axioms run_lattice_least
#print axioms run_lattice_rel_rows_set
#print axioms std_latOrder_maxmin

end AscentVerif.Engine
