import AscentVerif.Spec.LatticeLaws
import AscentVerif.Proofs.LatticeProduct
import AscentVerif.Proofs.LatticeTuple
import AscentVerif.Proofs.LatticeArr
import AscentVerif.Proofs.LatticeSet
import AscentVerif.Proofs.LatticeBSet
/-!
# C16 (part 2): `Product` of tuples and arrays, `Set`, `BoundedSet`

`LawfulPTail` is a helper notion whose only role is to make `lawfulPTail_unit`,
`lawfulPTail_cons` and `lawful_product` compose for every arity.
-/
namespace AscentVerif.Lat

/-- `combine_orderings` is the product of two comparison results -/
theorem combineOrderings_spec (o1 o2 : Ordering) :
    combineOrderings o1 o2 =
      (if o1 = .eq then some o2 else if o2 = .eq then some o1 else if o1 = o2 then some o1 else none) := by
  cases o1 <;> cases o2 <;> rfl

/-- helper notion for the component folds of `Product<(T0, …, Tn)>`: the accumulators `res` /
`changed` threaded through the macro expansion can be pulled out of the folds (`acc`), and
the resulting component-wise structure on `Product β` satisfies the lattice laws (`lawful`) -/
structure LawfulPTail (β : Type) [PTail β] (WF : β → Prop) : Prop where
  acc : PTailAcc β
  lawful : LawfulLat (Product β) (fun p => WF p.val)

theorem lawfulPTail_unit : LawfulPTail Unit AnyWF where
  acc := ptailAcc_unit
  lawful := lawful_product_unit
theorem lawfulPTail_cons {α β : Type} [Lat α] [PTail β] {WFa : α → Prop} {WFb : β → Prop}
    (ha : LawfulLat α WFa) (hb : LawfulPTail β WFb) : LawfulPTail (α × β) (fun p => WFa p.1 ∧ WFb p.2) where
  acc := ptailAcc_cons hb.acc
  lawful := lawful_product_cons hb.acc ha hb.lawful
/-- `Product<(T0, …, Tn)>` for every arity: component-wise order and operations -/
theorem lawful_product {β : Type} [PTail β] {WF : β → Prop} (h : LawfulPTail β WF) :
    LawfulLat (Product β) (fun p => WF p.val) := h.lawful

set_option linter.unusedVariables false in
/-- what the order of a `Product` *is*: the component-wise order (arity 2 shown; the general
statement is `lawful_product`) -/
theorem product_pair_le {α β : Type} [Lat α] [Lat β] {WFa : α → Prop} {WFb : β → Prop}
    (ha : LawfulLat α WFa) (hb : LawfulLat β WFb) (a a' : α) (b b' : β)
    (h1 : WFa a) (h2 : WFa a') (h3 : WFb b) (h4 : WFb b') :
    le (⟨(a, (b, ()))⟩ : Product (α × (β × Unit))) ⟨(a', (b', ()))⟩ = true ↔ (le a a' = true ∧ le b b' = true) := by
  have P1 := product_pairLike (α := α) (ptailAcc_cons (α := β) ptailAcc_unit) WFa (fun p => WFb p.1 ∧ True)
  have P2 := product_pairLike (α := β) ptailAcc_unit WFb (fun _ => True)
  have e1 := P1.le_mk_iff a ⟨(b, ())⟩ a' ⟨(b', ())⟩
  have e2 := P2.le_mk_iff b ⟨()⟩ b' ⟨()⟩
  have e3 : le (⟨()⟩ : Product Unit) ⟨()⟩ = true := rfl
  rw [e1, e2, e3]
  simp

/-- `Product<[T; N]>` -/
theorem lawful_productArr {α : Type} [Lat α] {WF : α → Prop} (h : LawfulLat α WF) (n : Nat) :
    LawfulLat (ProductArr α) (fun p => p.val.length = n ∧ ∀ x ∈ p.val, WF x) := lawful_arr h n

/-- `Set<T>`: subset order, union, intersection; the swap-to-merge-the-smaller-side code
path and the "length changed" flag are correct -/
theorem lawful_lset : LawfulLat LSet LSet.WF := lawful_lset'
/-- what the operations of `Set` *are* -/
theorem lset_join_mem (a b : LSet) (x : Int) : x ∈ (join a b).elems ↔ x ∈ a.elems ∨ x ∈ b.elems :=
  lset_join_mem' a b x
set_option linter.unusedVariables false in
theorem lset_meet_mem (a b : LSet) (ha : a.WF) (x : Int) : x ∈ (meet a b).elems ↔ x ∈ a.elems ∧ x ∈ b.elems :=
  lset_meet_mem' a b x
set_option linter.unusedVariables false in
theorem lset_le_iff (a b : LSet) (ha : a.WF) (hb : b.WF) : le a b = true ↔ ∀ x ∈ a.elems, x ∈ b.elems :=
  lset_le_iff' a b

/-- `BoundedSet<BOUND, T>`: the invariant `|s| ≤ BOUND` is preserved (`join_wf`/`meet_wf` inside)
and `None` is the top element -/
theorem lawfulB_bset (n : Nat) : LawfulBLat (BSet n) BSet.WF := lawfulB_bset' n

/-! ## non-vacuity -/
example : LSet.WF ⟨[0, 2, 5]⟩ := by unfold LSet.WF; decide
example : (joinMut (⟨[0, 2]⟩ : LSet) ⟨[1, 2, 3]⟩) = (⟨[0, 1, 2, 3]⟩, true) := by decide
example : (joinMut (⟨some ⟨[0, 2]⟩⟩ : BSet 3) ⟨some ⟨[1, 2, 3]⟩⟩) = (⟨none⟩, true) := by decide
example : pcmp (⟨((⟨1⟩ : Prim Int), ((⟨4⟩ : Prim Int), ()))⟩ : Product _) ⟨(⟨2⟩, (⟨3⟩, ()))⟩ = none := by decide

/-- the pieces compose: a 2-tuple `Product<(A, B)>` of lawful lattices is lawful -/
example {α β : Type} [Lat α] [Lat β] {WFa : α → Prop} {WFb : β → Prop}
    (ha : LawfulLat α WFa) (hb : LawfulLat β WFb) :
    LawfulLat (Product (α × (β × Unit))) (fun p => WFa p.val.1 ∧ (WFb p.val.2.1 ∧ AnyWF p.val.2.2)) :=
  lawful_product (lawfulPTail_cons ha (lawfulPTail_cons hb lawfulPTail_unit))

#print axioms combineOrderings_spec
#print axioms lawfulPTail_unit
#print axioms lawfulPTail_cons
#print axioms lawful_product
#print axioms product_pair_le
#print axioms lawful_productArr
#print axioms lawful_lset
#print axioms lset_join_mem
#print axioms lset_meet_mem
#print axioms lset_le_iff
#print axioms lawfulB_bset

end AscentVerif.Lat
