import AscentVerif.Model.Desugar
import AscentVerif.Model.StdOps
import AscentVerif.Proofs.C08Base
/-!
# C08 — in-program macros expand hygienically

`expandBody` / `expandHeads` / `expandRule` (Model/Desugar.lean) model `rule_expand_macro_invocations`:
parameters are replaced by the arguments, the depth budget is 100, and after the nested invocations of an
invocation have been expanded, the renaming pass renames the variables that originate in the macro body
(model of "the span lies in the definition": `tagVar j x` while invocation `j` is in flight).

The IDEAL expansion (`idealBody`) is the documented one: parameters substituted, and every variable `x` of the
macro body becomes `tagVar j x`, a name that belongs to invocation `j` alone — two invocations never share it
(`tagVar_inj`), it is no call-site variable (`tagVar_ge`), so nothing is captured in either direction, while
parameter identifiers are the call site's identifiers.  No renaming pass, nothing to get wrong.

* `expand_hygienic`: for macro definitions whose bodies contain no aggregation and bind each of their local variables in the
  body (a clause column, a pattern, `let` / `if let` — free-standing or ATTACHED to a clause without a comma —, `for`),
  the implemented expansion IS the ideal expansion up to an injective renaming of the macro-local names
  (α-renaming; it fixes every call-site variable), at any nesting of invocations, in body position.
* until fix 3a6dc9a the theorem carried the restriction "no condition attached to a clause inside a macro body" (finding F25: the
  renaming pass did not visit attached conditions, a macro-local variable used there kept its spelling and read the call site's
  variable of that name).  The model follows the fix (`renFItem`, `boundVarsF`), the restriction is gone; `F25.f25_fixed` /
  `F25.f25_hygienic` are the kernel-checked witnesses that the former counterexample now expands hygienically.
* `recursive_rejected`: if the rule reaches a macro that reaches itself, the expansion is an error within the
  depth budget; the expansion functions are structurally recursive (termination is by construction:
  `expandBody_total`), and the budget is only a cut-off (`expandBody_mono`).  The expansion returns the FIRST error, left to
  right, also in heads and inside disjunctions (the real code since fix deae510; before it a macro invoking itself twice per
  level cost 2^50 / 2^100 expansions — finding FM8): `FM8.branching_disjunction_rejected` / `FM8.branching_head_rejected` /
  `FM8.branching_rule_rejected` evaluate the former witnesses in the kernel.

PROOF STATUS.  Everything is proved.  Two statements were FALSE as first drafted (artefacts of the model's encoding, not of the Rust code;
machine-checked counterexamples in the last section, `namespace CE`); the drafts are kept in comment blocks (`expand_hygienic_draft`,
`ideal_vars_draft`), the proved theorems `expand_hygienic` (extra hypotheses `hagg`: the aggregations of the call site list the
variables they mark as bound; `hpar`: at most 100 parameters per macro, so that parameter numbers stay below `reservedBase`) and
`ideal_vars` (extra hypothesis `hbind`: a parameter in a `let` / `for` / pattern position is an `ident` parameter) state them explicitly.  `hyg_body` is the hygiene theorem for an arbitrary start state (nested position).
-/
namespace AscentVerif.Surface
open AscentVerif

variable {E B G P A : Type}

/-! ## the names of the model are pairwise distinct -/

theorem tagVar_ge (j x : Nat) : reservedBase ≤ tagVar j x := by
  show (1000 : Nat) ≤ 1000 + 8 * (j * 1000 + x) + 4
  omega

/-- two invocations never share a macro-local name; one invocation keeps its locals apart -/
theorem tagVar_inj {j j' x x' : Nat} (hx : x < reservedBase) (hx' : x' < reservedBase) (h : tagVar j x = tagVar j' x') : j = j' ∧ x = x' := by
  have h' : (1000 + 8 * (j * 1000 + x) + 4 : Nat) = 1000 + 8 * (j' * 1000 + x') + 4 := h
  simp only [reservedBase] at hx hx'
  omega

theorem untag?_tagVar (j x : Nat) (hx : x < reservedBase) : untag? j (tagVar j x) = some x := by
  have hx' : x < 1000 := hx
  have h1 : tagVar j x - reservedBase = 8 * (j * 1000 + x) + 4 := by
    show (1000 + 8 * (j * 1000 + x) + 4 : Nat) - 1000 = _
    omega
  have h6 : tagVar j x ≥ reservedBase := tagVar_ge j x
  have h2 : (8 * (j * 1000 + x) + 4) % 8 = 4 := by omega
  have h3 : (8 * (j * 1000 + x) + 4) / 8 = j * 1000 + x := by omega
  have h4 : (j * 1000 + x) / 1000 = j := by omega
  have h5 : (j * 1000 + x) % 1000 = x := by omega
  unfold untag?
  rw [if_pos]
  · rw [h1, h3]; exact congrArg some h5
  · rw [h1, h2, h3]; exact ⟨h6, rfl, h4⟩

theorem gensyms_disjoint (k k' j x : Nat) :
    gsRep k ≠ gsWild k' ∧ gsRep k ≠ gsPat k' ∧ gsRep k ≠ gsMac k' ∧ gsWild k ≠ gsPat k' ∧ gsWild k ≠ gsMac k' ∧ gsPat k ≠ gsMac k' ∧
    gsRep k ≠ tagVar j x ∧ gsWild k ≠ tagVar j x ∧ gsPat k ≠ tagVar j x ∧ gsMac k ≠ tagVar j x := by
  show (1000 + 8 * k : Nat) ≠ 1000 + 8 * k' + 1 ∧ (1000 + 8 * k : Nat) ≠ 1000 + 8 * k' + 2 ∧ (1000 + 8 * k : Nat) ≠ 1000 + 8 * k' + 3 ∧
    (1000 + 8 * k + 1 : Nat) ≠ 1000 + 8 * k' + 2 ∧ (1000 + 8 * k + 1 : Nat) ≠ 1000 + 8 * k' + 3 ∧ (1000 + 8 * k + 2 : Nat) ≠ 1000 + 8 * k' + 3 ∧
    (1000 + 8 * k : Nat) ≠ 1000 + 8 * (j * 1000 + x) + 4 ∧ (1000 + 8 * k + 1 : Nat) ≠ 1000 + 8 * (j * 1000 + x) + 4 ∧
    (1000 + 8 * k + 2 : Nat) ≠ 1000 + 8 * (j * 1000 + x) + 4 ∧ (1000 + 8 * k + 3 : Nat) ≠ 1000 + 8 * (j * 1000 + x) + 4
  omega

/-! ## the ideal expansion -/

/-- the items of one sequence at one depth, ideal: an invocation is replaced by its body with the parameters substituted and
every other variable `x` renamed to `tagVar j x` (`j` = the number of the invocation); nothing else happens -/
def idealItemsWith (ops : Ops E B G A) (defs : Defs E B G P A)
    (recur : Nat → SItems E B G P A (MInv E) → Except ExpandErr (SItems E B G P A (MInv E) × Nat)) :
    Nat → SItems E B G P A (MInv E) → Except ExpandErr (SItems E B G P A (MInv E) × Nat)
  | n, .nil => .ok (.nil, n)
  | n, .cons i rest =>
    let one : Except ExpandErr (SItems E B G P A (MInv E) × Nat) :=
      match i with
      | .flat f => .ok (.cons (.flat f) .nil, n)
      | .disj alts =>
        match expandAltsWith recur n alts with
        | .error e => .error e
        | .ok (alts', n1) => .ok (.cons (.disj alts') .nil, n1)
      | .mac inv =>
        match defs[inv.mac]? with
        | none => .error .undefinedMacro
        | some d => if !argsOk d.params inv.args then .error .badArgs else recur (n + 1) (instItems ops inv.args (tagVar n) d.body)
    match one with
    | .error e => .error e
    | .ok (is, n1) =>
      match idealItemsWith ops defs recur n1 rest with
      | .error e => .error e
      | .ok (rest', n2) => .ok (is.append rest', n2)

def idealBody (ops : Ops E B G A) (defs : Defs E B G P A) :
    Nat → Nat → SItems E B G P A (MInv E) → Except ExpandErr (SItems E B G P A (MInv E) × Nat)
  | 0 => fun n items =>
    match items with
    | .nil => .ok (.nil, n)
    | .cons _ _ => .error .recursive
  | d + 1 => fun n items => idealItemsWith ops defs (idealBody ops defs d) n items

/-! ## hypotheses of the hygiene theorem -/

/-- the algebra of substitution the expansion relies on (no semantics involved) -/
structure OpsLaws (ops : Ops E B G A) : Prop where
  subE_var : ∀ θ v, ops.subE θ (ops.varE v) = θ v
  subE_comp : ∀ θ θ' e, ops.subE θ (ops.subE θ' e) = ops.subE (fun x => ops.subE θ (θ' x)) e
  subB_comp : ∀ θ θ' b, ops.subB θ (ops.subB θ' b) = ops.subB (fun x => ops.subE θ (θ' x)) b
  subG_comp : ∀ θ θ' g, ops.subG θ (ops.subG θ' g) = ops.subG (fun x => ops.subE θ (θ' x)) g
  subE_id : ∀ e, ops.subE ops.varE e = e
  subB_id : ∀ b, ops.subB ops.varE b = b
  subG_id : ∀ g, ops.subG ops.varE g = g
  subE_congr : ∀ θ θ' e, (∀ v ∈ ops.varsE e, θ v = θ' v) → ops.subE θ e = ops.subE θ' e

/-- every variable the flat item mentions (all positions) -/
def varsCond (ops : Ops E B G A) (varsB : B → List Var) : Cond E B P → List Var
  | .ifc b => varsB b
  | .letc v e => v :: ops.varsE e
  | .ifLet _ vs e => vs ++ ops.varsE e

def varsFItem (ops : Ops E B G A) (varsB : B → List Var) (varsG : G → List Var) : FItem E B G P A → List Var
  | .clause _ as conds => (as.flatMap fun
      | .var v => [v]
      | .expr e => ops.varsE e
      | .wild => []
      | .pat _ vs => vs) ++ conds.flatMap (varsCond ops varsB)
  | .cond c => varsCond ops varsB c
  | .gen v g => v :: varsG g
  | .agg a => a.outs ++ a.boundArgs ++ a.args.flatMap fun
      | .wild => []
      | .bound v => [v]
      | .key e => ops.varsE e
  | .neg _ as => as.flatMap fun
      | .wild => []
      | .expr e => ops.varsE e

def varsMInv (ops : Ops E B G A) (inv : MInv E) : List Var :=
  inv.args.flatMap fun
    | .ident v => [v]
    | .expr e => ops.varsE e

mutual
def varsItem (ops : Ops E B G A) (varsB : B → List Var) (varsG : G → List Var) : SItem E B G P A (MInv E) → List Var
  | .flat f => varsFItem ops varsB varsG f
  | .disj alts => varsAlts ops varsB varsG alts
  | .mac m => varsMInv ops m
def varsItems (ops : Ops E B G A) (varsB : B → List Var) (varsG : G → List Var) : SItems E B G P A (MInv E) → List Var
  | .nil => []
  | .cons i rest => varsItem ops varsB varsG i ++ varsItems ops varsB varsG rest
def varsAlts (ops : Ops E B G A) (varsB : B → List Var) (varsG : G → List Var) : SAlts E B G P A (MInv E) → List Var
  | .nil => []
  | .cons a rest => varsItems ops varsB varsG a ++ varsAlts ops varsB varsG rest
end

mutual
/-- there is no aggregation (clauses may carry attached conditions) -/
def noAggItem : SItem E B G P A (MInv E) → Bool
  | .flat (.agg _) => false
  | .flat _ => true
  | .disj alts => noAggAlts alts
  | .mac _ => true
def noAggItems : SItems E B G P A (MInv E) → Bool
  | .nil => true
  | .cons i rest => noAggItem i && noAggItems rest
def noAggAlts : SAlts E B G P A (MInv E) → Bool
  | .nil => true
  | .cons a rest => noAggItems a && noAggAlts rest
end

/-- macro definitions the hygiene theorem covers: no aggregation,
every variable of the body is a parameter or a local below `paramBase`, and every local is bound by the body itself
(it occurs in a binding position: a clause column, a pattern, `let`, `if let` — free-standing or attached to a clause —, `for`) -/
def HygienicDefs (ops : Ops E B G A) (varsB : B → List Var) (varsG : G → List Var) (defs : Defs E B G P A) : Prop :=
  ∀ d ∈ defs, noAggItems d.body = true ∧
    (∀ v ∈ varsItems ops varsB varsG d.body, v < paramBase + d.params.length) ∧
    (∀ v ∈ varsItems ops varsB varsG d.body, v < paramBase → v ∈ boundVarsS d.body)

/-- what `ops.varsE` etc. have to satisfy for the free-variable bookkeeping of the theorem -/
structure VarsLaws (ops : Ops E B G A) (varsB : B → List Var) (varsG : G → List Var) : Prop where
  varsE_var : ∀ v, ops.varsE (ops.varE v) = [v]
  varsE_sub : ∀ θ e v, v ∈ ops.varsE (ops.subE θ e) ↔ ∃ w ∈ ops.varsE e, v ∈ ops.varsE (θ w)
  varsB_sub : ∀ θ b v, v ∈ varsB (ops.subB θ b) ↔ ∃ w ∈ varsB b, v ∈ ops.varsE (θ w)
  varsG_sub : ∀ θ g v, v ∈ varsG (ops.subG θ g) ↔ ∃ w ∈ varsG g, v ∈ ops.varsE (θ w)
  subB_congr : ∀ θ θ' b, (∀ v ∈ varsB b, θ v = θ' v) → ops.subB θ b = ops.subB θ' b
  subG_congr : ∀ θ θ' g, (∀ v ∈ varsG g, θ v = θ' v) → ops.subG θ g = ops.subG θ' g

/-! ### the laws hold for the expression language of the executable ties -/

namespace StdLaws
open AscentVerif.Std

theorem subEx_var (θ : Var → Ex) (v : Var) : subEx θ (.var v) = θ v := rfl

theorem subEx_comp (θ θ' : Var → Ex) (e : Ex) : subEx θ (subEx θ' e) = subEx (fun x => subEx θ (θ' x)) e := by
  induction e <;> simp_all [subEx]

theorem subBx_comp (θ θ' : Var → Ex) (b : Bx) : subBx θ (subBx θ' b) = subBx (fun x => subEx θ (θ' x)) b := by
  induction b <;> simp_all [subBx, subEx_comp]

theorem subEx_id (e : Ex) : subEx .var e = e := by
  induction e <;> simp_all [subEx]

theorem subBx_id (b : Bx) : subBx .var b = b := by
  induction b <;> simp_all [subBx, subEx_id]

theorem subEx_congr (θ θ' : Var → Ex) (e : Ex) (h : ∀ v ∈ varsEx e, θ v = θ' v) : subEx θ e = subEx θ' e := by
  induction e <;> simp_all [subEx, varsEx] <;> grind

theorem subBx_congr (θ θ' : Var → Ex) (b : Bx) (h : ∀ v ∈ varsBx b, θ v = θ' v) : subBx θ b = subBx θ' b := by
  induction b <;> simp_all [subBx, varsBx] <;>
    first
      | (constructor <;> apply subEx_congr <;> grind)
      | grind

theorem varsEx_sub (θ : Var → Ex) (e : Ex) (v : Var) : v ∈ varsEx (subEx θ e) ↔ ∃ w ∈ varsEx e, v ∈ varsEx (θ w) := by
  induction e <;> simp_all [subEx, varsEx] <;> grind

theorem varsBx_sub (θ : Var → Ex) (b : Bx) (v : Var) : v ∈ varsBx (subBx θ b) ↔ ∃ w ∈ varsBx b, v ∈ varsEx (θ w) := by
  induction b <;> simp_all [subBx, varsBx, varsEx_sub] <;> grind

end StdLaws

open StdLaws AscentVerif.Std in
/-- the hypotheses are met by the expression language of the executable ties -/
theorem stdOps_opsLaws : OpsLaws Std.stdOps where
  subE_var := subEx_var
  subE_comp := subEx_comp
  subB_comp := subBx_comp
  subG_comp := by
    intro θ θ' g
    cases g <;> simp [stdOps, subGx, subEx_comp]
  subE_id := subEx_id
  subB_id := subBx_id
  subG_id := by
    intro g
    cases g with
    | range lo hi => simp [stdOps, subGx, subEx_id]
    | list xs =>
      simp only [stdOps, subGx]
      congr 1
      induction xs <;> simp_all [subEx_id]
  subE_congr := subEx_congr

open StdLaws AscentVerif.Std in
theorem stdOps_varsLaws : VarsLaws Std.stdOps Std.varsBx Std.varsGx where
  varsE_var := fun _ => rfl
  varsE_sub := varsEx_sub
  varsB_sub := varsBx_sub
  varsG_sub := by
    intro θ g v
    cases g with
    | range lo hi => simp [stdOps, subGx, varsGx, varsEx_sub]; grind
    | list xs =>
      simp only [stdOps, subGx, varsGx, List.mem_flatMap, List.mem_map]
      constructor
      · rintro ⟨_, ⟨e, he, rfl⟩, hv⟩
        obtain ⟨w, hw, hv'⟩ := (varsEx_sub θ e v).1 hv
        exact ⟨w, ⟨e, he, hw⟩, hv'⟩
      · rintro ⟨w, ⟨e, he, hw⟩, hv⟩
        exact ⟨_, ⟨e, he, rfl⟩, (varsEx_sub θ e v).2 ⟨w, hw, hv⟩⟩
  subB_congr := subBx_congr
  subG_congr := by
    intro θ θ' g h
    cases g with
    | range lo hi =>
      simp only [stdOps, subGx, varsGx] at *
      rw [subEx_congr θ θ' lo (by grind), subEx_congr θ θ' hi (by grind)]
    | list xs =>
      simp only [stdOps, subGx, varsGx] at *
      congr 1
      apply List.map_congr_left
      intro e he
      apply subEx_congr
      intro v hv
      apply h
      simp only [List.mem_flatMap]
      exact ⟨e, he, hv⟩

/-! ## hygiene: auxiliary lemmas -/

/-! ### variables of the parts of a flat item -/

def varsSArg (ops : Ops E B G A) : SArg E P → List Var
  | .var v => [v]
  | .expr e => ops.varsE e
  | .wild => []
  | .pat _ vs => vs

def varsNArg (ops : Ops E B G A) : NArg E → List Var
  | .wild => []
  | .expr e => ops.varsE e

def varsAggArg (ops : Ops E B G A) : AggArg E → List Var
  | .wild => []
  | .bound v => [v]
  | .key e => ops.varsE e

def varsMArg (ops : Ops E B G A) : MArg E → List Var
  | .ident v => [v]
  | .expr e => ops.varsE e

theorem varsFItem_clause (ops : Ops E B G A) (varsB : B → List Var) (varsG : G → List Var) (r : RelId) (as : List (SArg E P)) (conds : List (Cond E B P)) :
    varsFItem ops varsB varsG (.clause r as conds : FItem E B G P A) = as.flatMap (varsSArg ops) ++ conds.flatMap (varsCond ops varsB) := rfl

theorem varsFItem_agg (ops : Ops E B G A) (varsB : B → List Var) (varsG : G → List Var) (a : AggClause E A) :
    varsFItem ops varsB varsG (.agg a : FItem E B G P A) = a.outs ++ a.boundArgs ++ a.args.flatMap (varsAggArg ops) := rfl

theorem varsFItem_neg (ops : Ops E B G A) (varsB : B → List Var) (varsG : G → List Var) (r : RelId) (as : List (NArg E)) :
    varsFItem ops varsB varsG (.neg r as : FItem E B G P A) = as.flatMap (varsNArg ops) := rfl

theorem varsMInv_eq (ops : Ops E B G A) (inv : MInv E) : varsMInv ops inv = inv.args.flatMap (varsMArg ops) := rfl


/-! ### renaming: congruence, identity, composition -/

section ren
variable {ops : Ops E B G A} {varsB : B → List Var} {varsG : G → List Var}

theorem renE_congr (hL : OpsLaws ops) {τ τ' : Var → Var} {e : E} (h : ∀ v ∈ ops.varsE e, τ v = τ' v) : renE ops τ e = renE ops τ' e :=
  hL.subE_congr _ _ _ (fun v hv => by rw [h v hv])

theorem renB_congr (hVL : VarsLaws ops varsB varsG) {τ τ' : Var → Var} {b : B} (h : ∀ v ∈ varsB b, τ v = τ' v) :
    ops.subB (fun x => ops.varE (τ x)) b = ops.subB (fun x => ops.varE (τ' x)) b :=
  hVL.subB_congr _ _ _ (fun v hv => by rw [h v hv])

theorem renG_congr (hVL : VarsLaws ops varsB varsG) {τ τ' : Var → Var} {g : G} (h : ∀ v ∈ varsG g, τ v = τ' v) :
    ops.subG (fun x => ops.varE (τ x)) g = ops.subG (fun x => ops.varE (τ' x)) g :=
  hVL.subG_congr _ _ _ (fun v hv => by rw [h v hv])

theorem map_congr_vars {τ τ' : Var → Var} {vs : List Var} (h : ∀ v ∈ vs, τ v = τ' v) : vs.map τ = vs.map τ' :=
  List.map_congr_left h

theorem renCond_congr (hL : OpsLaws ops) (hVL : VarsLaws ops varsB varsG) {τ τ' : Var → Var} {c : Cond E B P}
    (h : ∀ v ∈ varsCond ops varsB c, τ v = τ' v) : renCond ops τ c = renCond ops τ' c := by
  cases c with
  | ifc b => simp only [renCond]; rw [renB_congr hVL h]
  | letc v e =>
    simp only [varsCond, List.mem_cons] at h
    simp only [renCond]
    rw [h v (.inl rfl), renE_congr hL (fun w hw => h w (.inr hw))]
  | ifLet p vs e =>
    simp only [varsCond, List.mem_append] at h
    simp only [renCond]
    rw [map_congr_vars (fun w hw => h w (.inl hw)), renE_congr hL (fun w hw => h w (.inr hw))]

theorem renSArg_congr (hL : OpsLaws ops) {τ τ' : Var → Var} {a : SArg E P}
    (h : ∀ v ∈ varsSArg ops a, τ v = τ' v) : renSArg ops τ a = renSArg ops τ' a := by
  cases a with
  | var v => simp only [renSArg]; rw [h v (by simp [varsSArg])]
  | expr e => simp only [renSArg]; rw [renE_congr hL h]
  | wild => rfl
  | pat p vs => simp only [renSArg]; rw [map_congr_vars (vs := vs) h]

theorem renFItem_congr (hL : OpsLaws ops) (hVL : VarsLaws ops varsB varsG) {τ τ' : Var → Var} {f : FItem E B G P A}
    (h : ∀ v ∈ varsFItem ops varsB varsG f, τ v = τ' v) : renFItem ops true τ f = renFItem ops true τ' f := by
  cases f with
  | clause r as conds =>
    rw [varsFItem_clause] at h
    simp only [List.mem_append, List.mem_flatMap] at h
    simp only [renFItem]
    congr 1
    · exact List.map_congr_left fun a ha => renSArg_congr hL fun v hv => h v (.inl ⟨a, ha, hv⟩)
    · exact List.map_congr_left fun c hc => renCond_congr hL hVL fun v hv => h v (.inr ⟨c, hc, hv⟩)
  | cond c => simp only [renFItem]; rw [renCond_congr hL hVL h]
  | gen v g =>
    simp only [varsFItem, List.mem_cons] at h
    simp only [renFItem]
    rw [h v (.inl rfl), renG_congr hVL (fun w hw => h w (.inr hw))]
  | agg a =>
    rw [varsFItem_agg] at h
    simp only [List.mem_append, List.mem_flatMap] at h
    simp only [renFItem, if_true]
    have h1 : a.outs.map τ = a.outs.map τ' := map_congr_vars fun v hv => h v (.inl (.inl hv))
    have h2 : a.boundArgs.map τ = a.boundArgs.map τ' := map_congr_vars fun v hv => h v (.inl (.inr hv))
    rw [h1, h2]
    congr 2
    apply List.map_congr_left
    intro x hx
    cases x with
    | wild => rfl
    | bound v =>
      have : τ v = τ' v := h v (.inr ⟨_, hx, by simp [varsAggArg]⟩)
      simp only [this]
    | key e =>
      simp only
      rw [renE_congr hL fun v hv => h v (.inr ⟨_, hx, hv⟩)]
  | neg r as =>
    rw [varsFItem_neg] at h
    simp only [List.mem_flatMap] at h
    simp only [renFItem]
    congr 1
    apply List.map_congr_left
    intro x hx
    cases x with
    | wild => rfl
    | expr e => simp only; rw [renE_congr hL fun v hv => h v ⟨_, hx, hv⟩]

theorem renMInv_congr (hL : OpsLaws ops) {τ τ' : Var → Var} {m : MInv E}
    (h : ∀ v ∈ varsMInv ops m, τ v = τ' v) : renMInv ops τ m = renMInv ops τ' m := by
  rw [varsMInv_eq] at h
  simp only [List.mem_flatMap] at h
  simp only [renMInv]
  congr 1
  apply List.map_congr_left
  intro x hx
  cases x with
  | ident v => simp only; rw [h v ⟨_, hx, by simp [varsMArg]⟩]
  | expr e => simp only; rw [renE_congr hL fun v hv => h v ⟨_, hx, hv⟩]

mutual
theorem renItem_congr (hL : OpsLaws ops) (hVL : VarsLaws ops varsB varsG) {τ τ' : Var → Var} :
    ∀ i : SItem E B G P A (MInv E), (∀ v ∈ varsItem ops varsB varsG i, τ v = τ' v) → renItem ops true τ i = renItem ops true τ' i
  | .flat f, h => by simp only [renItem]; rw [renFItem_congr hL hVL h]
  | .disj alts, h => by simp only [renItem]; rw [renAlts_congr hL hVL alts h]
  | .mac m, h => by simp only [renItem]; rw [renMInv_congr hL h]
theorem renItems_congr (hL : OpsLaws ops) (hVL : VarsLaws ops varsB varsG) {τ τ' : Var → Var} :
    ∀ is : SItems E B G P A (MInv E), (∀ v ∈ varsItems ops varsB varsG is, τ v = τ' v) → renItems ops true τ is = renItems ops true τ' is
  | .nil, _ => rfl
  | .cons i rest, h => by
    simp only [varsItems, List.mem_append] at h
    simp only [renItems]
    rw [renItem_congr hL hVL i (fun v hv => h v (.inl hv)), renItems_congr hL hVL rest (fun v hv => h v (.inr hv))]
theorem renAlts_congr (hL : OpsLaws ops) (hVL : VarsLaws ops varsB varsG) {τ τ' : Var → Var} :
    ∀ as : SAlts E B G P A (MInv E), (∀ v ∈ varsAlts ops varsB varsG as, τ v = τ' v) → renAlts ops true τ as = renAlts ops true τ' as
  | .nil, _ => rfl
  | .cons a rest, h => by
    simp only [varsAlts, List.mem_append] at h
    simp only [renAlts]
    rw [renItems_congr hL hVL a (fun v hv => h v (.inl hv)), renAlts_congr hL hVL rest (fun v hv => h v (.inr hv))]
end


/-- an aggregation lists the variables it marks as bound in its relation arguments -/
def aggOkF : FItem E B G P A → Prop
  | .agg a => ∀ v, AggArg.bound v ∈ a.args → v ∈ a.boundArgs
  | _ => True

mutual
def aggOkItem : SItem E B G P A (MInv E) → Prop
  | .flat f => aggOkF f
  | .disj alts => aggOkAlts alts
  | .mac _ => True
def aggOkItems : SItems E B G P A (MInv E) → Prop
  | .nil => True
  | .cons i rest => aggOkItem i ∧ aggOkItems rest
def aggOkAlts : SAlts E B G P A (MInv E) → Prop
  | .nil => True
  | .cons a rest => aggOkItems a ∧ aggOkAlts rest
end

theorem renE_id (hL : OpsLaws ops) (e : E) : renE ops id e = e := hL.subE_id e

theorem renCond_id (hL : OpsLaws ops) (c : Cond E B P) : renCond ops id c = c := by
  cases c with
  | ifc b => simp only [renCond]; exact congrArg _ (hL.subB_id b)
  | letc v e => simp only [renCond, renE_id hL, id]
  | ifLet p vs e => simp only [renCond, renE_id hL, List.map_id]

theorem renSArg_id (hL : OpsLaws ops) (a : SArg E P) : renSArg ops id a = a := by
  cases a with
  | var v => rfl
  | expr e => simp only [renSArg, renE_id hL]
  | wild => rfl
  | pat p vs => simp only [renSArg, List.map_id]

theorem map_eq_self {α : Type} {f : α → α} {l : List α} (h : ∀ a ∈ l, f a = a) : l.map f = l := by
  induction l with
  | nil => rfl
  | cons a l ih =>
    simp only [List.map_cons, h a (by simp)]
    rw [ih fun b hb => h b (by simp [hb])]

theorem renFItem_id (hL : OpsLaws ops) {f : FItem E B G P A} (hf : aggOkF f) : renFItem ops true id f = f := by
  cases f with
  | clause r as conds =>
    simp only [renFItem]
    rw [map_eq_self fun a _ => renSArg_id hL a, map_eq_self fun c _ => renCond_id hL c]
  | cond c => simp only [renFItem, renCond_id hL]
  | gen v g => simp only [renFItem, id]; exact congrArg _ (hL.subG_id g)
  | agg a =>
    obtain ⟨outs, fn, bnd, rel, args⟩ := a
    simp only [renFItem, if_true, List.map_id, id]
    refine congrArg FItem.agg (congrArg (AggClause.mk outs fn bnd rel) ?_)
    apply map_eq_self
    intro x hx
    cases x with
    | wild => rfl
    | bound v =>
      have : v ∈ bnd := hf v hx
      simp [this]
    | key e => simp only; exact congrArg _ (hL.subE_id e)
  | neg r as =>
    simp only [renFItem]
    congr 1
    apply map_eq_self
    intro x _
    cases x with
    | wild => rfl
    | expr e => simp only [renE_id hL]

theorem renMInv_id (hL : OpsLaws ops) (m : MInv E) : renMInv ops id m = m := by
  obtain ⟨mac, args⟩ := m
  simp only [renMInv]
  refine congrArg (MInv.mk mac) ?_
  apply map_eq_self
  intro x _
  cases x with
  | ident v => rfl
  | expr e => simp only [renE_id hL]

mutual
theorem renItem_id (hL : OpsLaws ops) : ∀ i : SItem E B G P A (MInv E), aggOkItem i → renItem ops true id i = i
  | .flat f, h => by simp only [renItem]; rw [renFItem_id hL h]
  | .disj alts, h => by simp only [renItem]; rw [renAlts_id hL alts h]
  | .mac m, _ => by simp only [renItem]; rw [renMInv_id hL]
theorem renItems_id (hL : OpsLaws ops) : ∀ is : SItems E B G P A (MInv E), aggOkItems is → renItems ops true id is = is
  | .nil, _ => rfl
  | .cons i rest, h => by simp only [renItems]; rw [renItem_id hL i h.1, renItems_id hL rest h.2]
theorem renAlts_id (hL : OpsLaws ops) : ∀ as : SAlts E B G P A (MInv E), aggOkAlts as → renAlts ops true id as = as
  | .nil, _ => rfl
  | .cons a rest, h => by simp only [renAlts]; rw [renItems_id hL a h.1, renAlts_id hL rest h.2]
end

/-- a renaming that fixes the variables of (well-formed) items leaves them as they are -/
theorem renItems_fix (hL : OpsLaws ops) (hVL : VarsLaws ops varsB varsG) {τ : Var → Var} {is : SItems E B G P A (MInv E)}
    (hagg : aggOkItems is) (h : ∀ v ∈ varsItems ops varsB varsG is, τ v = v) : renItems ops true τ is = is := by
  rw [renItems_congr hL hVL (τ' := id) is h, renItems_id hL is hagg]

theorem renItem_fix (hL : OpsLaws ops) (hVL : VarsLaws ops varsB varsG) {τ : Var → Var} {i : SItem E B G P A (MInv E)}
    (hagg : aggOkItem i) (h : ∀ v ∈ varsItem ops varsB varsG i, τ v = v) : renItem ops true τ i = i := by
  rw [renItem_congr hL hVL (τ' := id) i h, renItem_id hL i hagg]

/-! ### items without aggregation: the two renaming passes agree, renamings compose -/

theorem renE_comp (hL : OpsLaws ops) (σ τ : Var → Var) (e : E) : renE ops σ (renE ops τ e) = renE ops (σ ∘ τ) e := by
  simp only [renE, hL.subE_comp, hL.subE_var, Function.comp]

theorem renCond_comp (hL : OpsLaws ops) (σ τ : Var → Var) (c : Cond E B P) : renCond ops σ (renCond ops τ c) = renCond ops (σ ∘ τ) c := by
  cases c with
  | ifc b => simp only [renCond, hL.subB_comp, hL.subE_var, Function.comp]
  | letc v e => simp only [renCond, renE_comp hL, Function.comp]
  | ifLet p vs e => simp only [renCond, renE_comp hL, List.map_map]

theorem renSArg_comp (hL : OpsLaws ops) (σ τ : Var → Var) (a : SArg E P) : renSArg ops σ (renSArg ops τ a) = renSArg ops (σ ∘ τ) a := by
  cases a with
  | var v => rfl
  | expr e => simp only [renSArg, renE_comp hL]
  | wild => rfl
  | pat p vs => simp only [renSArg, List.map_map]

theorem noAggF_cases {f : FItem E B G P A} (h : noAggItem (.flat f : SItem E B G P A (MInv E)) = true) :
    (∃ r as conds, f = .clause r as conds) ∨ (∃ c, f = .cond c) ∨ (∃ v g, f = .gen v g) ∨ (∃ r as, f = .neg r as) := by
  cases f with
  | clause r as conds => exact .inl ⟨r, as, conds, rfl⟩
  | cond c => exact .inr (.inl ⟨c, rfl⟩)
  | gen v g => exact .inr (.inr (.inl ⟨v, g, rfl⟩))
  | agg a => simp [noAggItem] at h
  | neg r as => exact .inr (.inr (.inr ⟨r, as, rfl⟩))

theorem renFItem_noAgg (att : Bool) (τ : Var → Var) {f : FItem E B G P A} (h : noAggItem (.flat f : SItem E B G P A (MInv E)) = true) :
    renFItem ops att τ f = renFItem ops true τ f ∧ noAggItem (.flat (renFItem ops att τ f) : SItem E B G P A (MInv E)) = true := by
  rcases noAggF_cases h with ⟨r, as, conds, rfl⟩ | ⟨c, rfl⟩ | ⟨v, g, rfl⟩ | ⟨r, as, rfl⟩
  · simp [renFItem, noAggItem]
  · simp [renFItem, noAggItem]
  · simp [renFItem, noAggItem]
  · simp [renFItem, noAggItem]

theorem renFItem_comp (hL : OpsLaws ops) (σ τ : Var → Var) {f : FItem E B G P A} (h : noAggItem (.flat f : SItem E B G P A (MInv E)) = true) :
    renFItem ops true σ (renFItem ops true τ f) = renFItem ops true (σ ∘ τ) f := by
  rcases noAggF_cases h with ⟨r, as, conds, rfl⟩ | ⟨c, rfl⟩ | ⟨v, g, rfl⟩ | ⟨r, as, rfl⟩
  · simp only [renFItem, List.map_map]
    congr 1
    · apply List.map_congr_left
      intro a _
      exact renSArg_comp hL σ τ a
    · apply List.map_congr_left
      intro c _
      exact renCond_comp hL σ τ c
  · simp only [renFItem, renCond_comp hL]
  · simp only [renFItem, hL.subG_comp, hL.subE_var, Function.comp]
  · simp only [renFItem, List.map_map]
    congr 1
    apply List.map_congr_left
    intro a _
    cases a with
    | wild => rfl
    | expr e => simp only [Function.comp, renE_comp hL]

theorem renMInv_comp (hL : OpsLaws ops) (σ τ : Var → Var) (m : MInv E) : renMInv ops σ (renMInv ops τ m) = renMInv ops (σ ∘ τ) m := by
  simp only [renMInv, List.map_map]
  congr 1
  apply List.map_congr_left
  intro a _
  cases a with
  | ident v => rfl
  | expr e => simp only [Function.comp, renE_comp hL]

mutual
theorem renItem_noAgg (att : Bool) (τ : Var → Var) : ∀ i : SItem E B G P A (MInv E), noAggItem i = true →
    renItem ops att τ i = renItem ops true τ i ∧ noAggItem (renItem ops att τ i) = true
  | .flat f, h => by
    have := renFItem_noAgg (ops := ops) att τ h
    simp only [renItem]
    exact ⟨by rw [this.1], this.2⟩
  | .disj alts, h => by
    simp only [noAggItem] at h
    have := renAlts_noAgg att τ alts h
    simp only [renItem, noAggItem]
    exact ⟨by rw [this.1], this.2⟩
  | .mac m, _ => ⟨rfl, rfl⟩
theorem renItems_noAgg (att : Bool) (τ : Var → Var) : ∀ is : SItems E B G P A (MInv E), noAggItems is = true →
    renItems ops att τ is = renItems ops true τ is ∧ noAggItems (renItems ops att τ is) = true
  | .nil, _ => ⟨rfl, rfl⟩
  | .cons i rest, h => by
    simp only [noAggItems, Bool.and_eq_true] at h
    have h1 := renItem_noAgg att τ i h.1
    have h2 := renItems_noAgg att τ rest h.2
    simp only [renItems, noAggItems, Bool.and_eq_true]
    exact ⟨by rw [h1.1, h2.1], h1.2, h2.2⟩
theorem renAlts_noAgg (att : Bool) (τ : Var → Var) : ∀ as : SAlts E B G P A (MInv E), noAggAlts as = true →
    renAlts ops att τ as = renAlts ops true τ as ∧ noAggAlts (renAlts ops att τ as) = true
  | .nil, _ => ⟨rfl, rfl⟩
  | .cons a rest, h => by
    simp only [noAggAlts, Bool.and_eq_true] at h
    have h1 := renItems_noAgg att τ a h.1
    have h2 := renAlts_noAgg att τ rest h.2
    simp only [renAlts, noAggAlts, Bool.and_eq_true]
    exact ⟨by rw [h1.1, h2.1], h1.2, h2.2⟩
end

mutual
theorem renItem_comp (hL : OpsLaws ops) (σ τ : Var → Var) : ∀ i : SItem E B G P A (MInv E), noAggItem i = true →
    renItem ops true σ (renItem ops true τ i) = renItem ops true (σ ∘ τ) i
  | .flat f, h => by simp only [renItem]; rw [renFItem_comp hL σ τ h]
  | .disj alts, h => by simp only [noAggItem] at h; simp only [renItem]; rw [renAlts_comp hL σ τ alts h]
  | .mac m, _ => by simp only [renItem]; rw [renMInv_comp hL]
theorem renItems_comp (hL : OpsLaws ops) (σ τ : Var → Var) : ∀ is : SItems E B G P A (MInv E), noAggItems is = true →
    renItems ops true σ (renItems ops true τ is) = renItems ops true (σ ∘ τ) is
  | .nil, _ => rfl
  | .cons i rest, h => by
    simp only [noAggItems, Bool.and_eq_true] at h
    simp only [renItems]
    rw [renItem_comp hL σ τ i h.1, renItems_comp hL σ τ rest h.2]
theorem renAlts_comp (hL : OpsLaws ops) (σ τ : Var → Var) : ∀ as : SAlts E B G P A (MInv E), noAggAlts as = true →
    renAlts ops true σ (renAlts ops true τ as) = renAlts ops true (σ ∘ τ) as
  | .nil, _ => rfl
  | .cons a rest, h => by
    simp only [noAggAlts, Bool.and_eq_true] at h
    simp only [renAlts]
    rw [renItems_comp hL σ τ a h.1, renAlts_comp hL σ τ rest h.2]
end

/-! ### binding positions under renaming; `append` -/

theorem boundVarsF_ren (att : Bool) (τ : Var → Var) (f : FItem E B G P A) : boundVarsF (renFItem ops att τ f) = (boundVarsF f).map τ := by
  cases f with
  | clause r as conds =>
    simp only [renFItem, boundVarsF, List.flatMap_map, List.map_flatMap, List.map_append]
    congr 2
    · funext a
      cases a <;> rfl
    · funext c
      cases c <;> rfl
  | cond c => cases c <;> rfl
  | gen v g => rfl
  | agg a => rfl
  | neg r as => rfl

mutual
theorem boundVarsI_ren (att : Bool) (τ : Var → Var) : ∀ i : SItem E B G P A (MInv E), boundVarsI (renItem ops att τ i) = (boundVarsI i).map τ
  | .flat f => by simp only [renItem, boundVarsI, boundVarsF_ren]
  | .disj alts => by simp only [renItem, boundVarsI, boundVarsA_ren att τ alts]
  | .mac _ => rfl
theorem boundVarsS_ren (att : Bool) (τ : Var → Var) : ∀ is : SItems E B G P A (MInv E), boundVarsS (renItems ops att τ is) = (boundVarsS is).map τ
  | .nil => rfl
  | .cons i rest => by simp only [renItems, boundVarsS, boundVarsI_ren att τ i, boundVarsS_ren att τ rest, List.map_append]
theorem boundVarsA_ren (att : Bool) (τ : Var → Var) : ∀ as : SAlts E B G P A (MInv E), boundVarsA (renAlts ops att τ as) = (boundVarsA as).map τ
  | .nil => rfl
  | .cons a rest => by simp only [renAlts, boundVarsA, boundVarsS_ren att τ a, boundVarsA_ren att τ rest, List.map_append]
end

theorem varsItems_append : ∀ (xs ys : SItems E B G P A (MInv E)),
    varsItems ops varsB varsG (xs.append ys) = varsItems ops varsB varsG xs ++ varsItems ops varsB varsG ys
  | .nil, _ => rfl
  | .cons i rest, ys => by simp only [SItems.append, varsItems, varsItems_append rest ys, List.append_assoc]

theorem boundVarsS_append : ∀ (xs ys : SItems E B G P A (MInv E)), boundVarsS (xs.append ys) = boundVarsS xs ++ boundVarsS ys
  | .nil, _ => rfl
  | .cons i rest, ys => by simp only [SItems.append, boundVarsS, boundVarsS_append rest ys, List.append_assoc]

theorem renItems_append (att : Bool) (τ : Var → Var) : ∀ (xs ys : SItems E B G P A (MInv E)),
    renItems ops att τ (xs.append ys) = (renItems ops att τ xs).append (renItems ops att τ ys)
  | .nil, _ => rfl
  | .cons i rest, ys => by simp only [SItems.append, renItems, renItems_append att τ rest ys]

theorem noAggItems_append : ∀ (xs ys : SItems E B G P A (MInv E)), noAggItems (xs.append ys) = (noAggItems xs && noAggItems ys)
  | .nil, _ => rfl
  | .cons i rest, ys => by simp only [SItems.append, noAggItems, noAggItems_append rest ys, Bool.and_assoc]

end ren

/-! ### the positions `instBinder` instantiates -/

def binderVarsC : Cond E B P → List Var
  | .ifc _ => []
  | .letc v _ => [v]
  | .ifLet _ vs _ => vs

def binderVarsSArg : SArg E P → List Var
  | .pat _ vs => vs
  | _ => []

def binderVarsAggArg : AggArg E → List Var
  | .bound v => [v]
  | _ => []

/-- the variables of a flat item in pattern / `let` / `if let` / `for` / aggregation-result positions (where only an identifier makes sense) -/
def binderVarsF : FItem E B G P A → List Var
  | .clause _ as conds => as.flatMap binderVarsSArg ++ conds.flatMap binderVarsC
  | .cond c => binderVarsC c
  | .gen v _ => [v]
  | .agg a => a.outs ++ a.boundArgs ++ a.args.flatMap binderVarsAggArg
  | .neg _ _ => []

mutual
def binderVarsI : SItem E B G P A (MInv E) → List Var
  | .flat f => binderVarsF f
  | .disj alts => binderVarsA alts
  | .mac _ => []
def binderVarsS : SItems E B G P A (MInv E) → List Var
  | .nil => []
  | .cons i rest => binderVarsI i ++ binderVarsS rest
def binderVarsA : SAlts E B G P A (MInv E) → List Var
  | .nil => []
  | .cons a rest => binderVarsS a ++ binderVarsA rest
end

section inst
variable {ops : Ops E B G A} {varsB : B → List Var} {varsG : G → List Var}

/-- where a variable of an instantiated body comes from: from the instance of a variable `w` of the body, or it is a parameter `w`
in a binder position that received an expression (`instBinder` leaves the parameter's own number there) -/
def InstFrom (ops : Ops E B G A) (args : List (MArg E)) (tag : Var → Var) (X Bd : List Var) (v : Var) : Prop :=
  (∃ w ∈ X, v ∈ ops.varsE ((instVar args tag w).toE ops)) ∨ (∃ w, w ∈ Bd ∧ w ∈ X ∧ v = w ∧ ∃ e, instVar args tag w = .expr e)

theorem InstFrom.mono {args : List (MArg E)} {tag : Var → Var} {X Bd X' Bd' : List Var} {v : Var}
    (hX : ∀ w ∈ X, w ∈ X') (hB : ∀ w ∈ Bd, w ∈ Bd') (h : InstFrom ops args tag X Bd v) : InstFrom ops args tag X' Bd' v := by
  rcases h with ⟨w, hw, hv⟩ | ⟨w, hb, hw, hv, he⟩
  · exact .inl ⟨w, hX w hw, hv⟩
  · exact .inr ⟨w, hB w hb, hX w hw, hv, he⟩

theorem margToE_vars (hVL : VarsLaws ops varsB varsG) (a : MArg E) : ops.varsE (a.toE ops) = varsMArg ops a := by
  cases a with
  | ident v => exact hVL.varsE_var v
  | expr e => rfl

theorem instBinder_from (hVL : VarsLaws ops varsB varsG) (args : List (MArg E)) (tag : Var → Var) (x : Var) :
    InstFrom ops args tag [x] [x] (instBinder args tag x) := by
  unfold instBinder
  cases h : instVar args tag x with
  | ident u => exact .inl ⟨x, by simp, by rw [h]; simp [MArg.toE, hVL.varsE_var]⟩
  | expr e => exact .inr ⟨x, by simp, by simp, rfl, e, h⟩

theorem instBinders_from (hVL : VarsLaws ops varsB varsG) (args : List (MArg E)) (tag : Var → Var) (vs : List Var) {v : Var}
    (h : v ∈ vs.map (instBinder args tag)) : InstFrom ops args tag vs vs v := by
  obtain ⟨x, hx, rfl⟩ := List.mem_map.1 h
  exact (instBinder_from hVL args tag x).mono (by simp [hx]) (by simp [hx])

theorem instE_from (hVL : VarsLaws ops varsB varsG) (args : List (MArg E)) (tag : Var → Var) (e : E) {v : Var}
    (h : v ∈ ops.varsE (instE ops args tag e)) : InstFrom ops args tag (ops.varsE e) [] v := by
  obtain ⟨w, hw, hv⟩ := (hVL.varsE_sub _ e v).1 h
  exact .inl ⟨w, hw, hv⟩

theorem instCond_from (hVL : VarsLaws ops varsB varsG) (args : List (MArg E)) (tag : Var → Var) (c : Cond E B P) {v : Var}
    (h : v ∈ varsCond ops varsB (instCond ops args tag c)) : InstFrom ops args tag (varsCond ops varsB c) (binderVarsC c) v := by
  cases c with
  | ifc b =>
    obtain ⟨w, hw, hv⟩ := (hVL.varsB_sub _ b v).1 h
    exact .inl ⟨w, hw, hv⟩
  | letc x e =>
    simp only [instCond, varsCond, List.mem_cons] at h
    rcases h with rfl | h
    · exact (instBinder_from hVL args tag x).mono (by simp [varsCond]) (by simp [binderVarsC])
    · exact (instE_from hVL args tag e h).mono (by simp +contextual [varsCond]) (by simp)
  | ifLet p vs e =>
    simp only [instCond, varsCond, List.mem_append] at h
    rcases h with h | h
    · exact (instBinders_from hVL args tag vs h).mono (by simp +contextual [varsCond]) (by simp [binderVarsC])
    · exact (instE_from hVL args tag e h).mono (by simp +contextual [varsCond]) (by simp)

theorem instSArg_from (hVL : VarsLaws ops varsB varsG) (args : List (MArg E)) (tag : Var → Var) (a : SArg E P) {v : Var}
    (h : v ∈ varsSArg ops (instSArg ops args tag a)) : InstFrom ops args tag (varsSArg ops a) (binderVarsSArg a) v := by
  cases a with
  | var x =>
    simp only [instSArg] at h
    refine .inl ⟨x, by simp [varsSArg], ?_⟩
    cases hx : instVar args tag x with
    | ident u => rw [hx] at h; simpa [varsSArg, MArg.toE, hVL.varsE_var] using h
    | expr e => rw [hx] at h; simpa [varsSArg, MArg.toE] using h
  | expr e => exact (instE_from hVL args tag e h).mono (by simp +contextual [varsSArg]) (by simp)
  | wild => simp [instSArg, varsSArg] at h
  | pat p vs => exact (instBinders_from hVL args tag vs h).mono (by simp +contextual [varsSArg]) (by simp [binderVarsSArg])

theorem instFItem_from (hVL : VarsLaws ops varsB varsG) (args : List (MArg E)) (tag : Var → Var) (f : FItem E B G P A) {v : Var}
    (h : v ∈ varsFItem ops varsB varsG (instFItem ops args tag f)) :
    InstFrom ops args tag (varsFItem ops varsB varsG f) (binderVarsF f) v := by
  cases f with
  | clause r as conds =>
    simp only [instFItem] at h
    rw [varsFItem_clause] at h ⊢
    simp only [List.mem_append, List.mem_flatMap, List.mem_map] at h
    rcases h with ⟨_, ⟨a, ha, rfl⟩, hv⟩ | ⟨_, ⟨c, hc, rfl⟩, hv⟩
    · refine (instSArg_from hVL args tag a hv).mono ?_ ?_
      · intro w hw; simp only [List.mem_append, List.mem_flatMap]; exact .inl ⟨a, ha, hw⟩
      · intro w hw; simp only [binderVarsF, List.mem_append, List.mem_flatMap]; exact .inl ⟨a, ha, hw⟩
    · refine (instCond_from hVL args tag c hv).mono ?_ ?_
      · intro w hw; simp only [List.mem_append, List.mem_flatMap]; exact .inr ⟨c, hc, hw⟩
      · intro w hw; simp only [binderVarsF, List.mem_append, List.mem_flatMap]; exact .inr ⟨c, hc, hw⟩
  | cond c => exact instCond_from hVL args tag c h
  | gen x g =>
    simp only [instFItem, varsFItem, List.mem_cons] at h
    rcases h with rfl | h
    · exact (instBinder_from hVL args tag x).mono (by simp [varsFItem]) (by simp [binderVarsF])
    · obtain ⟨w, hw, hv⟩ := (hVL.varsG_sub _ g v).1 h
      exact .inl ⟨w, by simp [varsFItem, hw], hv⟩
  | agg a =>
    simp only [instFItem] at h
    rw [varsFItem_agg] at h ⊢
    simp only [List.mem_append, List.mem_flatMap, List.mem_map] at h
    rcases h with (h | h) | ⟨_, ⟨x, hx, rfl⟩, hv⟩
    · exact (instBinders_from hVL args tag a.outs (List.mem_map.2 h)).mono (by simp +contextual) (by simp +contextual [binderVarsF])
    · exact (instBinders_from hVL args tag a.boundArgs (List.mem_map.2 h)).mono (by simp +contextual) (by simp +contextual [binderVarsF])
    · cases x with
      | wild => simp [varsAggArg] at hv
      | bound y =>
        simp only [varsAggArg, List.mem_singleton] at hv
        subst hv
        refine (instBinder_from hVL args tag y).mono ?_ ?_
        · intro w hw
          simp only [List.mem_singleton] at hw; subst hw
          simp only [List.mem_append, List.mem_flatMap]
          exact .inr ⟨_, hx, by simp [varsAggArg]⟩
        · intro w hw
          simp only [List.mem_singleton] at hw; subst hw
          simp only [binderVarsF, List.mem_append, List.mem_flatMap]
          exact .inr ⟨_, hx, by simp [binderVarsAggArg]⟩
      | key e =>
        refine (instE_from hVL args tag e hv).mono ?_ (by simp)
        intro w hw
        simp only [List.mem_append, List.mem_flatMap]
        exact .inr ⟨_, hx, hw⟩
  | neg r as =>
    simp only [instFItem] at h
    rw [varsFItem_neg] at h ⊢
    simp only [List.mem_flatMap, List.mem_map] at h
    obtain ⟨_, ⟨x, hx, rfl⟩, hv⟩ := h
    cases x with
    | wild => simp [varsNArg] at hv
    | expr e =>
      refine (instE_from hVL args tag e hv).mono ?_ (by simp)
      intro w hw
      simp only [List.mem_flatMap]
      exact ⟨_, hx, hw⟩

theorem instMInv_from (hVL : VarsLaws ops varsB varsG) (args : List (MArg E)) (tag : Var → Var) (m : MInv E) {v : Var}
    (h : v ∈ varsMInv ops (instMInv ops args tag m)) : InstFrom ops args tag (varsMInv ops m) [] v := by
  rw [varsMInv_eq] at h ⊢
  simp only [instMInv, List.mem_flatMap, List.mem_map] at h
  obtain ⟨_, ⟨x, hx, rfl⟩, hv⟩ := h
  cases x with
  | ident y =>
    simp only at hv
    refine .inl ⟨y, ?_, by rw [margToE_vars hVL]; exact hv⟩
    simp only [List.mem_flatMap]
    exact ⟨_, hx, by simp [varsMArg]⟩
  | expr e =>
    refine (instE_from hVL args tag e hv).mono ?_ (by simp)
    intro w hw
    simp only [List.mem_flatMap]
    exact ⟨_, hx, hw⟩

mutual
theorem instItem_from (hVL : VarsLaws ops varsB varsG) (args : List (MArg E)) (tag : Var → Var) (v : Var) :
    ∀ i : SItem E B G P A (MInv E), v ∈ varsItem ops varsB varsG (instItem ops args tag i) →
      InstFrom ops args tag (varsItem ops varsB varsG i) (binderVarsI i) v
  | .flat f, h => instFItem_from hVL args tag f h
  | .disj alts, h => instAlts_from hVL args tag v alts h
  | .mac m, h => instMInv_from hVL args tag m h
theorem instItems_from (hVL : VarsLaws ops varsB varsG) (args : List (MArg E)) (tag : Var → Var) (v : Var) :
    ∀ is : SItems E B G P A (MInv E), v ∈ varsItems ops varsB varsG (instItems ops args tag is) →
      InstFrom ops args tag (varsItems ops varsB varsG is) (binderVarsS is) v
  | .nil, h => by simp [instItems, varsItems] at h
  | .cons i rest, h => by
    simp only [instItems, varsItems, List.mem_append] at h
    rcases h with h | h
    · exact (instItem_from hVL args tag v i h).mono (by simp +contextual [varsItems]) (by simp +contextual [binderVarsS])
    · exact (instItems_from hVL args tag v rest h).mono (by simp +contextual [varsItems]) (by simp +contextual [binderVarsS])
theorem instAlts_from (hVL : VarsLaws ops varsB varsG) (args : List (MArg E)) (tag : Var → Var) (v : Var) :
    ∀ as : SAlts E B G P A (MInv E), v ∈ varsAlts ops varsB varsG (instAlts ops args tag as) →
      InstFrom ops args tag (varsAlts ops varsB varsG as) (binderVarsA as) v
  | .nil, h => by simp [instAlts, varsAlts] at h
  | .cons a rest, h => by
    simp only [instAlts, varsAlts, List.mem_append] at h
    rcases h with h | h
    · exact (instItems_from hVL args tag v a h).mono (by simp +contextual [varsAlts]) (by simp +contextual [binderVarsA])
    · exact (instAlts_from hVL args tag v rest h).mono (by simp +contextual [varsAlts]) (by simp +contextual [binderVarsA])
end

/-- the variables of the instance of one variable -/
theorem instVar_vars (hVL : VarsLaws ops varsB varsG) (args : List (MArg E)) (tag : Var → Var) (w v : Var)
    (h : v ∈ ops.varsE ((instVar args tag w).toE ops)) :
    (w < paramBase ∧ v = tag w) ∨ (paramBase ≤ w ∧ v ∈ args.flatMap (varsMArg ops)) ∨ (paramBase + args.length ≤ w ∧ v = w) := by
  rw [margToE_vars hVL] at h
  unfold instVar at h
  by_cases hw : paramBase ≤ w
  · rw [if_pos hw] at h
    rcases Nat.lt_or_ge (w - paramBase) args.length with hlt | hge
    · right; left
      refine ⟨hw, ?_⟩
      simp only [List.mem_flatMap]
      refine ⟨args[w - paramBase], List.getElem_mem hlt, ?_⟩
      simpa [List.getD, List.getElem?_eq_getElem hlt] using h
    · right; right
      rw [List.getD_eq_getElem?_getD, List.getElem?_eq_none hge] at h
      simp only [Option.getD_none, varsMArg, List.mem_singleton] at h
      exact ⟨by unfold Var at *; omega, h⟩
  · rw [if_neg hw] at h
    simp only [varsMArg, List.mem_singleton] at h
    exact .inl ⟨by unfold Var at *; omega, h⟩

/-! ### binding positions, absence of aggregation, under instantiation -/

theorem instBinder_local (args : List (MArg E)) (tag : Var → Var) {x : Var} (hx : x < paramBase) : instBinder args tag x = tag x := by
  unfold instBinder instVar
  rw [if_neg (by unfold Var at *; omega)]

theorem boundVarsC_inst (args : List (MArg E)) (tag : Var → Var) (c : Cond E B P) {x : Var} (hx : x < paramBase)
    (h : x ∈ boundVarsC c) : tag x ∈ boundVarsC (instCond ops args tag c) := by
  cases c with
  | ifc b => simp [boundVarsC] at h
  | letc y e =>
    simp only [boundVarsC, List.mem_singleton] at h
    subst h
    simp [instCond, boundVarsC, instBinder_local args tag hx]
  | ifLet p vs e => exact List.mem_map.2 ⟨x, h, instBinder_local args tag hx⟩

theorem boundVarsF_inst (args : List (MArg E)) (tag : Var → Var) (f : FItem E B G P A) {x : Var} (hx : x < paramBase)
    (h : x ∈ boundVarsF f) : tag x ∈ boundVarsF (instFItem ops args tag f) := by
  have hb : ∀ vs : List Var, x ∈ vs → tag x ∈ vs.map (instBinder args tag) := fun vs hvs =>
    List.mem_map.2 ⟨x, hvs, instBinder_local args tag hx⟩
  cases f with
  | clause r as conds =>
    simp only [boundVarsF, List.mem_append, List.mem_flatMap] at h
    simp only [instFItem, boundVarsF, List.mem_append, List.mem_flatMap, List.mem_map]
    rcases h with ⟨a, ha, hxa⟩ | ⟨c, hc, hxc⟩
    · refine .inl ⟨_, ⟨a, ha, rfl⟩, ?_⟩
      cases a with
      | var y =>
        simp only [List.mem_singleton] at hxa
        subst hxa
        simp [instSArg, instVar, Nat.not_le.2 hx]
      | expr e => simp at hxa
      | wild => simp at hxa
      | pat p vs => exact hb vs hxa
    · exact .inr ⟨_, ⟨c, hc, rfl⟩, boundVarsC_inst args tag c hx hxc⟩
  | cond c => exact boundVarsC_inst args tag c hx h
  | gen y g =>
    simp only [boundVarsF, List.mem_singleton] at h
    subst h
    simp [instFItem, boundVarsF, instBinder_local args tag hx]
  | agg a => exact hb a.outs h
  | neg r as => simp [boundVarsF] at h

mutual
theorem boundVarsI_inst (args : List (MArg E)) (tag : Var → Var) {x : Var} (hx : x < paramBase) :
    ∀ i : SItem E B G P A (MInv E), x ∈ boundVarsI i → tag x ∈ boundVarsI (instItem ops args tag i)
  | .flat f, h => boundVarsF_inst args tag f hx h
  | .disj alts, h => boundVarsA_inst args tag hx alts h
  | .mac _, h => by simp [boundVarsI] at h
theorem boundVarsS_inst (args : List (MArg E)) (tag : Var → Var) {x : Var} (hx : x < paramBase) :
    ∀ is : SItems E B G P A (MInv E), x ∈ boundVarsS is → tag x ∈ boundVarsS (instItems ops args tag is)
  | .nil, h => by simp [boundVarsS] at h
  | .cons i rest, h => by
    simp only [boundVarsS, List.mem_append] at h
    simp only [instItems, boundVarsS, List.mem_append]
    rcases h with h | h
    · exact .inl (boundVarsI_inst args tag hx i h)
    · exact .inr (boundVarsS_inst args tag hx rest h)
theorem boundVarsA_inst (args : List (MArg E)) (tag : Var → Var) {x : Var} (hx : x < paramBase) :
    ∀ as : SAlts E B G P A (MInv E), x ∈ boundVarsA as → tag x ∈ boundVarsA (instAlts ops args tag as)
  | .nil, h => by simp [boundVarsA] at h
  | .cons a rest, h => by
    simp only [boundVarsA, List.mem_append] at h
    simp only [instAlts, boundVarsA, List.mem_append]
    rcases h with h | h
    · exact .inl (boundVarsS_inst args tag hx a h)
    · exact .inr (boundVarsA_inst args tag hx rest h)
end

mutual
theorem noAggItem_inst (args : List (MArg E)) (tag : Var → Var) :
    ∀ i : SItem E B G P A (MInv E), noAggItem (instItem ops args tag i) = noAggItem i
  | .flat f => by cases f <;> simp [instItem, instFItem, noAggItem]
  | .disj alts => by simp only [instItem, noAggItem]; exact noAggAlts_inst args tag alts
  | .mac _ => rfl
theorem noAggItems_inst (args : List (MArg E)) (tag : Var → Var) :
    ∀ is : SItems E B G P A (MInv E), noAggItems (instItems ops args tag is) = noAggItems is
  | .nil => rfl
  | .cons i rest => by simp only [instItems, noAggItems, noAggItem_inst args tag i, noAggItems_inst args tag rest]
theorem noAggAlts_inst (args : List (MArg E)) (tag : Var → Var) :
    ∀ as : SAlts E B G P A (MInv E), noAggAlts (instAlts ops args tag as) = noAggAlts as
  | .nil => rfl
  | .cons a rest => by simp only [instAlts, noAggAlts, noAggItems_inst args tag a, noAggAlts_inst args tag rest]
end

mutual
theorem aggOkItem_of_noAgg : ∀ i : SItem E B G P A (MInv E), noAggItem i = true → aggOkItem i
  | .flat f, h => by cases f <;> simp_all [noAggItem, aggOkItem, aggOkF]
  | .disj alts, h => by simp only [noAggItem] at h; exact aggOkAlts_of_noAgg alts h
  | .mac _, _ => trivial
theorem aggOkItems_of_noAgg : ∀ is : SItems E B G P A (MInv E), noAggItems is = true → aggOkItems is
  | .nil, _ => trivial
  | .cons i rest, h => by
    simp only [noAggItems, Bool.and_eq_true] at h
    exact ⟨aggOkItem_of_noAgg i h.1, aggOkItems_of_noAgg rest h.2⟩
theorem aggOkAlts_of_noAgg : ∀ as : SAlts E B G P A (MInv E), noAggAlts as = true → aggOkAlts as
  | .nil, _ => trivial
  | .cons a rest, h => by
    simp only [noAggAlts, Bool.and_eq_true] at h
    exact ⟨aggOkItems_of_noAgg a h.1, aggOkAlts_of_noAgg rest h.2⟩
end

end inst

/-! ### one item of the ideal expansion -/

def idealOne (ops : Ops E B G A) (defs : Defs E B G P A)
    (recur : Nat → SItems E B G P A (MInv E) → Except ExpandErr (SItems E B G P A (MInv E) × Nat))
    (n : Nat) : SItem E B G P A (MInv E) → Except ExpandErr (SItems E B G P A (MInv E) × Nat)
  | .flat f => .ok (.cons (.flat f) .nil, n)
  | .disj alts =>
    match expandAltsWith recur n alts with
    | .error e => .error e
    | .ok (alts', n1) => .ok (.cons (.disj alts') .nil, n1)
  | .mac inv =>
    match defs[inv.mac]? with
    | none => .error .undefinedMacro
    | some d => if !argsOk d.params inv.args then .error .badArgs else recur (n + 1) (instItems ops inv.args (tagVar n) d.body)

theorem idealItemsWith_cons (ops : Ops E B G A) (defs : Defs E B G P A)
    (recur : Nat → SItems E B G P A (MInv E) → Except ExpandErr (SItems E B G P A (MInv E) × Nat))
    (n : Nat) (i : SItem E B G P A (MInv E)) (rest : SItems E B G P A (MInv E)) :
    idealItemsWith ops defs recur n (.cons i rest) =
      match idealOne ops defs recur n i with
      | .error e => .error e
      | .ok (is, n1) =>
        match idealItemsWith ops defs recur n1 rest with
        | .error e => .error e
        | .ok (rest', n2) => .ok (is.append rest', n2) := by
  cases i <;> rfl

theorem idealItemsWith_cons_ok {ops : Ops E B G A} {defs : Defs E B G P A}
    {recur : Nat → SItems E B G P A (MInv E) → Except ExpandErr (SItems E B G P A (MInv E) × Nat)}
    {n : Nat} {i : SItem E B G P A (MInv E)} {rest : SItems E B G P A (MInv E)} {r : SItems E B G P A (MInv E) × Nat}
    (h : idealItemsWith ops defs recur n (.cons i rest) = .ok r) :
    ∃ is n1 rest', idealOne ops defs recur n i = .ok (is, n1) ∧
      idealItemsWith ops defs recur n1 rest = .ok (rest', r.2) ∧ r.1 = is.append rest' := by
  rw [idealItemsWith_cons] at h
  cases h1 : idealOne ops defs recur n i with
  | error e => rw [h1] at h; cases h
  | ok p =>
    obtain ⟨is, n1⟩ := p
    rw [h1] at h
    simp only at h
    cases h2 : idealItemsWith ops defs recur n1 rest with
    | error e => rw [h2] at h; cases h
    | ok q =>
      obtain ⟨rest', n2⟩ := q
      rw [h2] at h
      simp only at h
      cases h
      exact ⟨is, n1, rest', rfl, h2, rfl⟩

theorem idealOne_mac_ok {ops : Ops E B G A} {defs : Defs E B G P A}
    {recur : Nat → SItems E B G P A (MInv E) → Except ExpandErr (SItems E B G P A (MInv E) × Nat)}
    {n : Nat} {inv : MInv E} {r : SItems E B G P A (MInv E) × Nat}
    (h : idealOne ops defs recur n (.mac inv) = .ok r) :
    ∃ d, defs[inv.mac]? = some d ∧ argsOk d.params inv.args = true ∧
      recur (n + 1) (instItems ops inv.args (tagVar n) d.body) = .ok r := by
  simp only [idealOne] at h
  cases hd : defs[inv.mac]? with
  | none => rw [hd] at h; cases h
  | some d =>
    rw [hd] at h
    simp only at h
    cases ha : argsOk d.params inv.args with
    | false => rw [ha] at h; cases h
    | true =>
      rw [ha] at h
      simp only [Bool.not_true, Bool.false_eq_true, if_false] at h
      exact ⟨d, rfl, ha, h⟩

theorem idealOne_disj_ok {ops : Ops E B G A} {defs : Defs E B G P A}
    {recur : Nat → SItems E B G P A (MInv E) → Except ExpandErr (SItems E B G P A (MInv E) × Nat)}
    {n : Nat} {alts : SAlts E B G P A (MInv E)} {r : SItems E B G P A (MInv E) × Nat}
    (h : idealOne ops defs recur n (.disj alts) = .ok r) :
    ∃ alts', expandAltsWith recur n alts = .ok (alts', r.2) ∧ r.1 = .cons (.disj alts') .nil := by
  simp only [idealOne] at h
  cases h1 : expandAltsWith recur n alts with
  | error e => rw [h1] at h; cases h
  | ok p =>
    obtain ⟨alts', n1⟩ := p
    rw [h1] at h
    simp only at h
    cases h
    exact ⟨alts', rfl, rfl⟩

/-! ### the variables of the ideal expansion -/

/-- `v` is a macro-local name of an invocation numbered in `[a, b)` -/
def TagIn (a b : Nat) (v : Var) : Prop := ∃ j x, a ≤ j ∧ j < b ∧ x < paramBase ∧ v = tagVar j x

theorem TagIn.mono {a b a' b' : Nat} {v : Var} (ha : a' ≤ a) (hb : b ≤ b') (h : TagIn a b v) : TagIn a' b' v := by
  obtain ⟨j, x, h1, h2, h3, h4⟩ := h
  exact ⟨j, x, by omega, by omega, h3, h4⟩

section idealvars
variable {ops : Ops E B G A} {varsB : B → List Var} {varsG : G → List Var}

/-- a parameter in a binder position is an `ident` parameter, or its own number is harmless (`Q`) -/
def BinderOK (ops : Ops E B G A) (varsB : B → List Var) (varsG : G → List Var) (defs : Defs E B G P A) (Q : Var → Prop) : Prop :=
  ∀ d ∈ defs, ∀ x ∈ binderVarsS d.body, x ∈ varsItems ops varsB varsG d.body → paramBase ≤ x → d.params[x - paramBase]? = some .ident ∨ Q x

theorem BinderOK.mono {defs : Defs E B G P A} {Q Q' : Var → Prop} (h : ∀ v, Q v → Q' v)
    (hb : BinderOK ops varsB varsG defs Q) : BinderOK ops varsB varsG defs Q' :=
  fun d hd x hx hx' hp => (hb d hd x hx hx' hp).imp id (h x)

/-- the variables of the instantiated body of one invocation -/
theorem inst_body_vars (hVL : VarsLaws ops varsB varsG) {defs : Defs E B G P A} (hH : HygienicDefs ops varsB varsG defs)
    {Q : Var → Prop} (hB : BinderOK ops varsB varsG defs Q) {d : MacroDef E B G P A} (hd : d ∈ defs)
    {args : List (MArg E)} (hargs : argsOk d.params args = true) (hQ : ∀ v ∈ args.flatMap (varsMArg ops), Q v) (tag : Var → Var) :
    ∀ v ∈ varsItems ops varsB varsG (instItems ops args tag d.body),
      Q v ∨ ∃ x ∈ varsItems ops varsB varsG d.body, x < paramBase ∧ v = tag x := by
  intro v hv
  obtain ⟨hlen, hid⟩ := (argsOk_iff _ _).1 hargs
  rcases instItems_from hVL args tag v d.body hv with ⟨w, hw, hvw⟩ | ⟨w, hwb, hw, rfl, e, he⟩
  · rcases instVar_vars hVL args tag w v hvw with ⟨h1, h2⟩ | ⟨_, h2⟩ | ⟨h1, _⟩
    · exact .inr ⟨w, hw, h1, h2⟩
    · exact .inl (hQ v h2)
    · have := (hH d hd).2.1 w hw
      unfold Var at *
      omega
  · have hp : paramBase ≤ v := by
      unfold instVar at he
      by_cases hp : paramBase ≤ v
      · exact hp
      · rw [if_neg hp] at he; cases he
    rcases hB d hd v hwb hw hp with hi | hq
    · obtain ⟨u, hu⟩ := hid _ hi
      unfold instVar at he
      rw [if_pos hp, List.getD_eq_getElem?_getD, hu] at he
      cases he
    · exact .inl hq

def IdealVarsRec (ops : Ops E B G A) (varsB : B → List Var) (varsG : G → List Var) (defs : Defs E B G P A)
    (recur : Nat → SItems E B G P A (MInv E) → Except ExpandErr (SItems E B G P A (MInv E) × Nat)) : Prop :=
  ∀ (Q : Var → Prop), BinderOK ops varsB varsG defs Q → ∀ n items ideal n', (∀ v ∈ varsItems ops varsB varsG items, Q v) →
    recur n items = .ok (ideal, n') → n ≤ n' ∧ ∀ v ∈ varsItems ops varsB varsG ideal, Q v ∨ TagIn n n' v

theorem idealAlts_vars {defs : Defs E B G P A}
    {recur : Nat → SItems E B G P A (MInv E) → Except ExpandErr (SItems E B G P A (MInv E) × Nat)}
    (hrec : IdealVarsRec ops varsB varsG defs recur) {Q : Var → Prop} (hB : BinderOK ops varsB varsG defs Q) :
    ∀ (alts : SAlts E B G P A (MInv E)) (n : Nat) alts' n', (∀ v ∈ varsAlts ops varsB varsG alts, Q v) →
      expandAltsWith recur n alts = .ok (alts', n') → n ≤ n' ∧ ∀ v ∈ varsAlts ops varsB varsG alts', Q v ∨ TagIn n n' v
  | .nil, n, alts', n', _, h => by
    cases h
    exact ⟨Nat.le_refl _, by simp [varsAlts]⟩
  | .cons a rest, n, alts', n', hQ, h => by
    obtain ⟨a', n1, rest', h1, h2, h3⟩ := expandAltsWith_cons_ok h
    simp only at h2 h3
    subst h3
    simp only [varsAlts, List.mem_append] at hQ
    obtain ⟨hle1, hv1⟩ := hrec Q hB n a a' n1 (fun v hv => hQ v (.inl hv)) h1
    obtain ⟨hle2, hv2⟩ := idealAlts_vars hrec hB rest n1 rest' n' (fun v hv => hQ v (.inr hv)) h2
    refine ⟨Nat.le_trans hle1 hle2, ?_⟩
    intro v hv
    simp only [varsAlts, List.mem_append] at hv
    rcases hv with hv | hv
    · exact (hv1 v hv).imp id (TagIn.mono (Nat.le_refl _) hle2)
    · exact (hv2 v hv).imp id (TagIn.mono hle1 (Nat.le_refl _))

theorem idealOne_vars (hVL : VarsLaws ops varsB varsG) {defs : Defs E B G P A} (hH : HygienicDefs ops varsB varsG defs)
    {recur : Nat → SItems E B G P A (MInv E) → Except ExpandErr (SItems E B G P A (MInv E) × Nat)}
    (hrec : IdealVarsRec ops varsB varsG defs recur) {Q : Var → Prop} (hB : BinderOK ops varsB varsG defs Q)
    (i : SItem E B G P A (MInv E)) (n : Nat) (is : SItems E B G P A (MInv E)) (n' : Nat) (hQ : ∀ v ∈ varsItem ops varsB varsG i, Q v)
    (h : idealOne ops defs recur n i = .ok (is, n')) : n ≤ n' ∧ ∀ v ∈ varsItems ops varsB varsG is, Q v ∨ TagIn n n' v := by
  cases i with
  | flat f =>
    cases h
    refine ⟨Nat.le_refl _, ?_⟩
    intro v hv
    simp only [varsItems, varsItem, List.append_nil] at hv hQ
    exact .inl (hQ v hv)
  | disj alts =>
    obtain ⟨alts', h1, h2⟩ := idealOne_disj_ok h
    simp only at h1 h2
    subst h2
    simp only [varsItem] at hQ
    have := idealAlts_vars hrec hB alts n alts' n' hQ h1
    simpa [varsItems, varsItem] using this
  | mac inv =>
    obtain ⟨d, hd, hargs, hr⟩ := idealOne_mac_ok h
    have hdm : d ∈ defs := List.mem_of_getElem? hd
    simp only [varsItem, varsMInv_eq] at hQ
    let Q' : Var → Prop := fun v => Q v ∨ TagIn n (n + 1) v
    have hbody : ∀ v ∈ varsItems ops varsB varsG (instItems ops inv.args (tagVar n) d.body), Q' v := by
      intro v hv
      rcases inst_body_vars hVL hH hB hdm hargs hQ (tagVar n) v hv with hq | ⟨x, _, hx, rfl⟩
      · exact .inl hq
      · exact .inr ⟨n, x, Nat.le_refl _, Nat.lt_succ_self _, hx, rfl⟩
    obtain ⟨hle, hv⟩ := hrec Q' (hB.mono fun v hv => .inl hv) (n + 1) _ is n' hbody hr
    refine ⟨by omega, ?_⟩
    intro v hv'
    rcases hv v hv' with (hq | ht) | ht
    · exact .inl hq
    · exact .inr (ht.mono (Nat.le_refl _) hle)
    · exact .inr (ht.mono (by omega) (Nat.le_refl _))

theorem idealItemsWith_vars (hVL : VarsLaws ops varsB varsG) {defs : Defs E B G P A} (hH : HygienicDefs ops varsB varsG defs)
    {recur : Nat → SItems E B G P A (MInv E) → Except ExpandErr (SItems E B G P A (MInv E) × Nat)}
    (hrec : IdealVarsRec ops varsB varsG defs recur) : IdealVarsRec ops varsB varsG defs (idealItemsWith ops defs recur) := by
  intro Q hB n items
  revert n
  exact go Q hB items
where
  go (Q : Var → Prop) (hB : BinderOK ops varsB varsG defs Q) : ∀ (items : SItems E B G P A (MInv E)) (n : Nat) ideal n',
      (∀ v ∈ varsItems ops varsB varsG items, Q v) → idealItemsWith ops defs recur n items = .ok (ideal, n') →
      n ≤ n' ∧ ∀ v ∈ varsItems ops varsB varsG ideal, Q v ∨ TagIn n n' v
  | .nil, n, ideal, n', _, h => by
    cases h
    exact ⟨Nat.le_refl _, by simp [varsItems]⟩
  | .cons i rest, n, ideal, n', hQ, h => by
    obtain ⟨is, n1, rest', h1, h2, h3⟩ := idealItemsWith_cons_ok h
    simp only at h2 h3
    subst h3
    simp only [varsItems, List.mem_append] at hQ
    obtain ⟨hle1, hv1⟩ := idealOne_vars hVL hH hrec hB i n is n1 (fun v hv => hQ v (.inl hv)) h1
    obtain ⟨hle2, hv2⟩ := go Q hB rest n1 rest' n' (fun v hv => hQ v (.inr hv)) h2
    refine ⟨Nat.le_trans hle1 hle2, ?_⟩
    intro v hv
    rw [varsItems_append, List.mem_append] at hv
    rcases hv with hv | hv
    · exact (hv1 v hv).imp id (TagIn.mono (Nat.le_refl _) hle2)
    · exact (hv2 v hv).imp id (TagIn.mono hle1 (Nat.le_refl _))

theorem idealBody_vars (hVL : VarsLaws ops varsB varsG) {defs : Defs E B G P A} (hH : HygienicDefs ops varsB varsG defs) :
    ∀ d, IdealVarsRec ops varsB varsG defs (idealBody ops defs d)
  | 0 => by
    intro Q _ n items ideal n' _ h
    cases items with
    | nil => cases h; exact ⟨Nat.le_refl _, by simp [varsItems]⟩
    | cons i rest => cases h
  | d + 1 => idealItemsWith_vars hVL hH (idealBody_vars hVL hH d)

end idealvars

/-! ### absence of aggregation and binding positions of the ideal expansion -/

def IdealKeepRec (recur : Nat → SItems E B G P A (MInv E) → Except ExpandErr (SItems E B G P A (MInv E) × Nat)) : Prop :=
  ∀ n items ideal n', recur n items = .ok (ideal, n') →
    (noAggItems items = true → noAggItems ideal = true) ∧ ∀ v ∈ boundVarsS items, v ∈ boundVarsS ideal

theorem idealAlts_keep {recur : Nat → SItems E B G P A (MInv E) → Except ExpandErr (SItems E B G P A (MInv E) × Nat)}
    (hrec : IdealKeepRec recur) : ∀ (alts : SAlts E B G P A (MInv E)) (n : Nat) alts' n',
      expandAltsWith recur n alts = .ok (alts', n') →
      (noAggAlts alts = true → noAggAlts alts' = true) ∧ ∀ v ∈ boundVarsA alts, v ∈ boundVarsA alts'
  | .nil, n, alts', n', h => by
    cases h
    exact ⟨id, fun _ h => h⟩
  | .cons a rest, n, alts', n', h => by
    obtain ⟨a', n1, rest', h1, h2, h3⟩ := expandAltsWith_cons_ok h
    simp only at h2 h3
    subst h3
    obtain ⟨hp1, hb1⟩ := hrec n a a' n1 h1
    obtain ⟨hp2, hb2⟩ := idealAlts_keep hrec rest n1 rest' n' h2
    constructor
    · simp only [noAggAlts, Bool.and_eq_true]
      exact fun hp => ⟨hp1 hp.1, hp2 hp.2⟩
    · intro v hv
      simp only [boundVarsA, List.mem_append] at hv ⊢
      exact hv.imp (hb1 v) (hb2 v)

theorem idealItemsWith_keep {ops : Ops E B G A} {defs : Defs E B G P A} (hnoagg : ∀ d ∈ defs, noAggItems d.body = true)
    {recur : Nat → SItems E B G P A (MInv E) → Except ExpandErr (SItems E B G P A (MInv E) × Nat)}
    (hrec : IdealKeepRec recur) : ∀ (items : SItems E B G P A (MInv E)) (n : Nat) ideal n',
      idealItemsWith ops defs recur n items = .ok (ideal, n') →
      (noAggItems items = true → noAggItems ideal = true) ∧ ∀ v ∈ boundVarsS items, v ∈ boundVarsS ideal
  | .nil, n, ideal, n', h => by
    cases h
    exact ⟨id, fun _ h => h⟩
  | .cons i rest, n, ideal, n', h => by
    obtain ⟨is, n1, rest', h1, h2, h3⟩ := idealItemsWith_cons_ok h
    simp only at h2 h3
    subst h3
    obtain ⟨hp2, hb2⟩ := idealItemsWith_keep hnoagg hrec rest n1 rest' n' h2
    have hone : (noAggItem i = true → noAggItems is = true) ∧ ∀ v ∈ boundVarsI i, v ∈ boundVarsS is := by
      cases i with
      | flat f =>
        cases h1
        simp [noAggItems, boundVarsS]
      | disj alts =>
        obtain ⟨alts', h1', h2'⟩ := idealOne_disj_ok h1
        simp only at h1' h2'
        subst h2'
        have := idealAlts_keep hrec alts n alts' n1 h1'
        simpa [noAggItems, noAggItem, boundVarsS, boundVarsI] using this
      | mac inv =>
        obtain ⟨d, hd, _, hr⟩ := idealOne_mac_ok h1
        have hdm : d ∈ defs := List.mem_of_getElem? hd
        refine ⟨fun _ => (hrec _ _ _ _ hr).1 ?_, by simp [boundVarsI]⟩
        rw [noAggItems_inst]
        exact hnoagg d hdm
    constructor
    · simp only [noAggItems, Bool.and_eq_true, noAggItems_append]
      exact fun hp => ⟨hone.1 hp.1, hp2 hp.2⟩
    · intro v hv
      simp only [boundVarsS, List.mem_append, boundVarsS_append] at hv ⊢
      exact hv.imp (hone.2 v) (hb2 v)

theorem idealBody_keep (ops : Ops E B G A) {defs : Defs E B G P A} (hnoagg : ∀ d ∈ defs, noAggItems d.body = true) :
    ∀ d, IdealKeepRec (idealBody ops defs d)
  | 0 => by
    intro n items ideal n' h
    cases items with
    | nil => cases h; exact ⟨id, fun _ h => h⟩
    | cons i rest => cases h
  | d + 1 => fun n items ideal n' h => idealItemsWith_keep hnoagg (idealBody_keep ops hnoagg d) items n ideal n' h

/-! ### names -/

/-- the invocation number inside a tagged name -/
def tagNum (v : Var) : Nat := (v - reservedBase) / 8 / reservedBase

theorem tagNum_tagVar (j x : Nat) (hx : x < reservedBase) : tagNum (tagVar j x) = j := by
  have hx' : x < 1000 := hx
  show (1000 + 8 * (j * 1000 + x) + 4 - 1000) / 8 / 1000 = j
  omega

theorem paramBase_lt_reservedBase : paramBase < reservedBase := by decide

theorem untag?_eq_some {j : Nat} {v x : Nat} (h : untag? j v = some x) : v = tagVar j x ∧ x < reservedBase := by
  unfold untag? at h
  split at h
  · rename_i hc
    obtain ⟨h1, h2, h3⟩ := hc
    have h4 : (v - reservedBase) / 8 % reservedBase = x := by cases h; rfl
    have h1' : (v : Nat) ≥ 1000 := h1
    have h2' : ((v : Nat) - 1000) % 8 = 4 := h2
    have h3' : ((v : Nat) - 1000) / 8 / 1000 = j := h3
    have h4' : ((v : Nat) - 1000) / 8 % 1000 = (x : Nat) := h4
    constructor
    · show (v : Nat) = 1000 + 8 * (j * 1000 + x) + 4
      omega
    · show (x : Nat) < 1000
      omega
  · cases h

theorem gsMac_inj {k k' : Nat} (h : gsMac k = gsMac k') : k = k' := by
  have h' : (1000 + 8 * k + 3 : Nat) = 1000 + 8 * k' + 3 := h
  omega

theorem gsMac_ge (k : Nat) : reservedBase ≤ gsMac k := by
  show (1000 : Nat) ≤ 1000 + 8 * k + 3
  omega

theorem untag?_gsMac (j k : Nat) : untag? j (gsMac k) = none := by
  cases h : untag? j (gsMac k) with
  | none => rfl
  | some x => exact absurd (untag?_eq_some h).1 (gensyms_disjoint 0 0 j x |>.2.2.2.2.2.2.2.2.2 |> fun _ => (gensyms_disjoint k k j x).2.2.2.2.2.2.2.2.2)

/-- call-site variables and the names of the invocations numbered below `n` -/
def QV (n : Nat) (v : Var) : Prop := v < reservedBase ∨ TagIn 0 n v

theorem QV.mono {n n' : Nat} {v : Var} (h : n ≤ n') (hq : QV n v) : QV n' v :=
  hq.imp id (TagIn.mono (Nat.le_refl _) h)

theorem TagIn.num {a b : Nat} {v : Var} (h : TagIn a b v) : a ≤ tagNum v ∧ tagNum v < b ∧ reservedBase ≤ v := by
  obtain ⟨j, x, h1, h2, h3, rfl⟩ := h
  rw [tagNum_tagVar j x (Nat.lt_trans h3 paramBase_lt_reservedBase)]
  exact ⟨h1, h2, tagVar_ge j x⟩

theorem QV.not_tagIn {n b : Nat} {v : Var} (hq : QV n v) (ht : TagIn n b v) : False := by
  have := ht.num
  rcases hq with hq | hq
  · exact absurd hq (Nat.not_lt.2 this.2.2)
  · have := hq.num
    omega

theorem QV.ne_gsMac {n k : Nat} {v : Var} (hq : QV n v) : v ≠ gsMac k := by
  rintro rfl
  rcases hq with hq | ⟨j, x, _, _, _, h⟩
  · exact absurd hq (Nat.not_lt.2 (gsMac_ge k))
  · exact (gensyms_disjoint k k j x).2.2.2.2.2.2.2.2.2 h

theorem untag?_none_of_num {n : Nat} {v : Var} (h : tagNum v ≠ n) : untag? n v = none := by
  cases hu : untag? n v with
  | none => rfl
  | some x =>
    obtain ⟨rfl, hx⟩ := untag?_eq_some hu
    exact absurd (tagNum_tagVar n x hx) h

theorem QV.untag_none {n : Nat} {v : Var} (hq : QV n v) : untag? n v = none := by
  cases hu : untag? n v with
  | none => rfl
  | some x =>
    obtain ⟨rfl, hx⟩ := untag?_eq_some hu
    rcases hq with hq | hq
    · exact absurd hq (Nat.not_lt.2 (tagVar_ge n x))
    · have := hq.num
      rw [tagNum_tagVar n x hx] at this
      omega

/-! ### the renaming of an expansion -/

/-- `τ` renames the macro-local names of the invocations numbered `[n, n')` (as far as they occur in `vs`) to distinct gensyms numbered
`[gs, gs')` and fixes call-site variables and the names of enclosing / earlier invocations -/
structure HygTau (n n' gs gs' : Nat) (vs : List Var) (τ : Var → Var) : Prop where
  fix : ∀ v, QV n v → τ v = v
  fresh : ∀ v ∈ vs, TagIn n n' v → ∃ k, gs ≤ k ∧ k < gs' ∧ τ v = gsMac k
  inj : ∀ v ∈ vs, ∀ w ∈ vs, τ v = τ w → v = w

theorem HygTau.congr_mem {n n' gs gs' : Nat} {vs vs' : List Var} {τ : Var → Var} (h : HygTau n n' gs gs' vs τ)
    (hm : ∀ v, v ∈ vs' → v ∈ vs) : HygTau n n' gs gs' vs' τ :=
  ⟨h.fix, fun v hv => h.fresh v (hm v hv), fun v hv w hw => h.inj v (hm v hv) w (hm w hw)⟩

theorem HygTau.id (n gs : Nat) (vs : List Var) : HygTau n n gs gs vs id := by
  refine ⟨fun _ _ => rfl, ?_, fun _ _ _ _ h => h⟩
  intro v _ ht
  have := ht.num
  omega

/-- the renamings of two consecutive parts of a sequence combine -/
theorem HygTau.append {n n1 n2 gs gs1 gs2 : Nat} {vs1 vs2 : List Var} {τ1 τ2 : Var → Var}
    (h1 : HygTau n n1 gs gs1 vs1 τ1) (h2 : HygTau n1 n2 gs1 gs2 vs2 τ2)
    (hv1 : ∀ v ∈ vs1, QV n v ∨ TagIn n n1 v) (hv2 : ∀ v ∈ vs2, QV n v ∨ TagIn n1 n2 v)
    (hn1 : n ≤ n1) (_hn2 : n1 ≤ n2) (hg1 : gs ≤ gs1) (hg2 : gs1 ≤ gs2) :
    ∃ τ : Var → Var, HygTau n n2 gs gs2 (vs1 ++ vs2) τ ∧ (∀ v ∈ vs1, τ v = τ1 v) ∧ (∀ v ∈ vs2, τ v = τ2 v) := by
  let τ : Var → Var := fun v => if tagNum v < n1 then τ1 v else τ2 v
  have hfix : ∀ v, QV n v → τ v = v := by
    intro v hq
    show (if tagNum v < n1 then τ1 v else τ2 v) = v
    rw [h1.fix v hq, h2.fix v (hq.mono hn1)]
    split <;> rfl
  have e1 : ∀ v ∈ vs1, τ v = τ1 v := by
    intro v hv
    rcases hv1 v hv with hq | ht
    · rw [hfix v hq, h1.fix v hq]
    · show (if tagNum v < n1 then τ1 v else τ2 v) = τ1 v
      rw [if_pos ht.num.2.1]
  have e2 : ∀ v ∈ vs2, τ v = τ2 v := by
    intro v hv
    rcases hv2 v hv with hq | ht
    · rw [hfix v hq, h2.fix v (hq.mono hn1)]
    · show (if tagNum v < n1 then τ1 v else τ2 v) = τ2 v
      rw [if_neg (Nat.not_lt.2 ht.num.1)]
  -- classification of the variables
  have cls : ∀ v ∈ vs1 ++ vs2, (QV n v ∧ τ v = v) ∨
      (v ∈ vs1 ∧ τ v = τ1 v ∧ ∃ k, gs ≤ k ∧ k < gs1 ∧ τ v = gsMac k) ∨
      (v ∈ vs2 ∧ τ v = τ2 v ∧ ∃ k, gs1 ≤ k ∧ k < gs2 ∧ τ v = gsMac k) := by
    intro v hv
    rcases List.mem_append.1 hv with hv | hv
    · rcases hv1 v hv with hq | ht
      · exact .inl ⟨hq, hfix v hq⟩
      · obtain ⟨k, hk1, hk2, hk⟩ := h1.fresh v hv ht
        exact .inr (.inl ⟨hv, e1 v hv, k, hk1, hk2, by rw [e1 v hv, hk]⟩)
    · rcases hv2 v hv with hq | ht
      · exact .inl ⟨hq, hfix v hq⟩
      · obtain ⟨k, hk1, hk2, hk⟩ := h2.fresh v hv ht
        exact .inr (.inr ⟨hv, e2 v hv, k, hk1, hk2, by rw [e2 v hv, hk]⟩)
  refine ⟨τ, ⟨hfix, ?_, ?_⟩, e1, e2⟩
  · intro v hv ht
    rcases cls v hv with ⟨hq, _⟩ | ⟨_, _, k, hk1, hk2, hk⟩ | ⟨_, _, k, hk1, hk2, hk⟩
    · exact (hq.not_tagIn ht).elim
    · exact ⟨k, hk1, by omega, hk⟩
    · exact ⟨k, by omega, hk2, hk⟩
  · intro v hv w hw hvw
    rcases cls v hv with ⟨hq, hf⟩ | ⟨hm, he, k, hk1, hk2, hk⟩ | ⟨hm, he, k, hk1, hk2, hk⟩ <;>
    rcases cls w hw with ⟨hq', hf'⟩ | ⟨hm', he', k', hk1', hk2', hk'⟩ | ⟨hm', he', k', hk1', hk2', hk'⟩
    · rw [hf, hf'] at hvw; exact hvw
    · rw [hf, hk'] at hvw; exact (hq.ne_gsMac hvw).elim
    · rw [hf, hk'] at hvw; exact (hq.ne_gsMac hvw).elim
    · rw [hf', hk] at hvw; exact (hq'.ne_gsMac hvw.symm).elim
    · rw [he, he'] at hvw; exact h1.inj v hm w hm' hvw
    · rw [hk, hk'] at hvw; have := gsMac_inj hvw; omega
    · rw [hf', hk] at hvw; exact (hq'.ne_gsMac hvw.symm).elim
    · rw [hk, hk'] at hvw; have := gsMac_inj hvw; omega
    · rw [he, he'] at hvw; exact h2.inj v hm w hm' hvw

/-- the renaming pass of one invocation (`renameMap`, then `untagMap`) after the renaming of the nested invocations -/
theorem HygTau.invoke {n n' gs gs' : Nat} {vs orig : List Var} {τin : Var → Var}
    (h : HygTau (n + 1) n' gs gs' vs τin) (hg : gs ≤ gs')
    (hvs : ∀ v ∈ vs, QV n v ∨ TagIn n (n + 1) v ∨ TagIn (n + 1) n' v)
    (ho1 : ∀ v ∈ orig, ∃ x, untag? n v = some x) (ho2 : ∀ v ∈ vs, TagIn n (n + 1) v → v ∈ orig) :
    HygTau n n' gs (gs' + orig.length) vs
      (untagMap n ∘ (fun v => match indexOf? v orig with | some i => gsMac (gs' + i) | none => v) ∘ τin) := by
  have hρ_notin : ∀ v, v ∉ orig → (match indexOf? v orig with | some i => gsMac (gs' + i) | none => v) = v := by
    intro v hv
    cases hi : indexOf? v orig with
    | none => rfl
    | some i => exact absurd (List.mem_of_getElem? (indexOf?_some hi)) hv
  have hu_gs : ∀ k, untagMap n (gsMac k) = gsMac k := fun k => by simp [untagMap, untag?_gsMac]
  have hgs_notin : ∀ k, gsMac k ∉ orig := by
    intro k hk
    obtain ⟨x, hx⟩ := ho1 _ hk
    rw [untag?_gsMac] at hx
    cases hx
  have hfix : ∀ v, QV n v → (untagMap n ∘ (fun v => match indexOf? v orig with | some i => gsMac (gs' + i) | none => v) ∘ τin) v = v := by
    intro v hq
    have hno : v ∉ orig := by
      intro hv
      obtain ⟨x, hx⟩ := ho1 v hv
      rw [hq.untag_none] at hx
      cases hx
    simp only [Function.comp, h.fix v (hq.mono (Nat.le_succ n)), hρ_notin v hno, untagMap, hq.untag_none, Option.getD_none]
  have cls : ∀ v ∈ vs, (QV n v ∧ (untagMap n ∘ (fun v => match indexOf? v orig with | some i => gsMac (gs' + i) | none => v) ∘ τin) v = v) ∨
      (∃ i, i < orig.length ∧ orig[i]? = some v ∧
        (untagMap n ∘ (fun v => match indexOf? v orig with | some i => gsMac (gs' + i) | none => v) ∘ τin) v = gsMac (gs' + i)) ∨
      (TagIn (n + 1) n' v ∧ ∃ k, gs ≤ k ∧ k < gs' ∧ τin v = gsMac k ∧
        (untagMap n ∘ (fun v => match indexOf? v orig with | some i => gsMac (gs' + i) | none => v) ∘ τin) v = gsMac k) := by
    intro v hv
    rcases hvs v hv with hq | ht | ht
    · exact .inl ⟨hq, hfix v hq⟩
    · right; left
      obtain ⟨i, hi, hidx⟩ := indexOf?_of_mem (ho2 v hv ht)
      refine ⟨i, hi, indexOf?_some hidx, ?_⟩
      have : τin v = v := h.fix v (.inr (ht.mono (Nat.zero_le _) (Nat.le_refl _)))
      simp only [Function.comp, this, hidx, hu_gs]
    · right; right
      obtain ⟨k, hk1, hk2, hk⟩ := h.fresh v hv ht
      refine ⟨ht, k, hk1, hk2, hk, ?_⟩
      simp only [Function.comp, hk, hρ_notin _ (hgs_notin k), hu_gs]
  refine ⟨hfix, ?_, ?_⟩
  · intro v hv ht
    rcases cls v hv with ⟨hq, _⟩ | ⟨i, hi, _, he⟩ | ⟨_, k, hk1, hk2, _, he⟩
    · exact (hq.not_tagIn ht).elim
    · exact ⟨gs' + i, by omega, by omega, he⟩
    · exact ⟨k, hk1, by omega, he⟩
  · intro v hv w hw hvw
    rcases cls v hv with ⟨hq, hf⟩ | ⟨i, hi, hio, he⟩ | ⟨ht, k, hk1, hk2, hk, he⟩ <;>
    rcases cls w hw with ⟨hq', hf'⟩ | ⟨i', hi', hio', he'⟩ | ⟨ht', k', hk1', hk2', hk', he'⟩
    · rw [hf, hf'] at hvw; exact hvw
    · rw [hf, he'] at hvw; exact (hq.ne_gsMac hvw).elim
    · rw [hf, he'] at hvw; exact (hq.ne_gsMac hvw).elim
    · rw [hf', he] at hvw; exact (hq'.ne_gsMac hvw.symm).elim
    · rw [he, he'] at hvw
      have : i = i' := by have := gsMac_inj hvw; omega
      subst this
      rw [hio] at hio'
      cases hio'
      rfl
    · rw [he, he'] at hvw; have := gsMac_inj hvw; omega
    · rw [hf', he] at hvw; exact (hq'.ne_gsMac hvw.symm).elim
    · rw [he, he'] at hvw; have := gsMac_inj hvw; omega
    · rw [he, he'] at hvw
      exact h.inj v hv w hw (by rw [hk, hk', hvw])

/-- the implemented result is the ideal result up to a renaming of the names of the invocations expanded meanwhile -/
def HygRel (ops : Ops E B G A) (varsB : B → List Var) (varsG : G → List Var) (st : ExpSt) :
    Except ExpandErr (SItems E B G P A (MInv E) × ExpSt) → Except ExpandErr (SItems E B G P A (MInv E) × Nat) → Prop
  | .ok (out, st'), .ok (ideal, n') => st'.inv = n' ∧ st.gs ≤ st'.gs ∧
      ∃ τ : Var → Var, HygTau st.inv n' st.gs st'.gs (varsItems ops varsB varsG ideal) τ ∧ out = renItems ops true τ ideal
  | .error e, .error e' => e = e'
  | _, _ => False

def HygRelA (ops : Ops E B G A) (varsB : B → List Var) (varsG : G → List Var) (st : ExpSt) :
    Except ExpandErr (SAlts E B G P A (MInv E) × ExpSt) → Except ExpandErr (SAlts E B G P A (MInv E) × Nat) → Prop
  | .ok (out, st'), .ok (ideal, n') => st'.inv = n' ∧ st.gs ≤ st'.gs ∧
      ∃ τ : Var → Var, HygTau st.inv n' st.gs st'.gs (varsAlts ops varsB varsG ideal) τ ∧ out = renAlts ops true τ ideal
  | .error e, .error e' => e = e'
  | _, _ => False

section main
variable {ops : Ops E B G A} {varsB : B → List Var} {varsG : G → List Var}

theorem binderOK_QV {defs : Defs E B G P A} (hH : HygienicDefs ops varsB varsG defs)
    (hpar : ∀ d ∈ defs, paramBase + d.params.length ≤ reservedBase) (n : Nat) : BinderOK ops varsB varsG defs (QV n) := by
  intro d hd x _ hx _
  right; left
  have := (hH d hd).2.1 x hx
  have := hpar d hd
  unfold Var at *
  omega

/-- what the induction on the depth budget provides -/
def HygRec (ops : Ops E B G A) (varsB : B → List Var) (varsG : G → List Var) (defs : Defs E B G P A) (d : Nat) : Prop :=
  ∀ (st : ExpSt) (items : SItems E B G P A (MInv E)), (∀ v ∈ varsItems ops varsB varsG items, QV st.inv v) → aggOkItems items →
    HygRel ops varsB varsG st (expandBody ops defs false d st items) (idealBody ops defs d st.inv items)

theorem hyg_alts (hL : OpsLaws ops) (hVL : VarsLaws ops varsB varsG) {defs : Defs E B G P A} (hH : HygienicDefs ops varsB varsG defs)
    (hpar : ∀ d ∈ defs, paramBase + d.params.length ≤ reservedBase) {d : Nat} (hrec : HygRec ops varsB varsG defs d) :
    ∀ (alts : SAlts E B G P A (MInv E)) (st : ExpSt), (∀ v ∈ varsAlts ops varsB varsG alts, QV st.inv v) → aggOkAlts alts →
      HygRelA ops varsB varsG st (expandAltsWith (expandBody ops defs false d) st alts) (expandAltsWith (idealBody ops defs d) st.inv alts)
  | .nil, st, _, _ => by
    simp only [expandAltsWith, HygRelA]
    exact ⟨trivial, Nat.le_refl _, id, HygTau.id _ _ _, rfl⟩
  | .cons a rest, st, hq, hagg => by
    simp only [varsAlts, List.mem_append] at hq
    have hr := hrec st a (fun v hv => hq v (.inl hv)) hagg.1
    simp only [expandAltsWith]
    cases h1 : expandBody ops defs false d st a with
    | error e =>
      cases h2 : idealBody ops defs d st.inv a with
      | error e' => rw [h1, h2] at hr; simpa [HygRel, HygRelA] using hr
      | ok q => rw [h1, h2] at hr; obtain ⟨_, _⟩ := q; simp [HygRel] at hr
    | ok p =>
      obtain ⟨a', st1⟩ := p
      cases h2 : idealBody ops defs d st.inv a with
      | error e' => rw [h1, h2] at hr; simp [HygRel] at hr
      | ok q =>
        obtain ⟨ai, n1⟩ := q
        rw [h1, h2] at hr
        simp only [HygRel] at hr
        obtain ⟨rfl, hg1, τ1, hτ1, rfl⟩ := hr
        have hB := binderOK_QV hH hpar st.inv
        obtain ⟨hn1, hv1⟩ := idealBody_vars hVL hH d (QV st.inv) hB st.inv a ai st1.inv (fun v hv => hq v (.inl hv)) h2
        have ih := hyg_alts hL hVL hH hpar hrec rest st1 (fun v hv => (hq v (.inr hv)).mono hn1) hagg.2
        simp only
        cases h3 : expandAltsWith (expandBody ops defs false d) st1 rest with
        | error e =>
          cases h4 : expandAltsWith (idealBody ops defs d) st1.inv rest with
          | error e' => rw [h3, h4] at ih; simpa [HygRelA] using ih
          | ok q => rw [h3, h4] at ih; obtain ⟨_, _⟩ := q; simp [HygRelA] at ih
        | ok p =>
          obtain ⟨rest', st2⟩ := p
          cases h4 : expandAltsWith (idealBody ops defs d) st1.inv rest with
          | error e' => rw [h3, h4] at ih; simp [HygRelA] at ih
          | ok q =>
            obtain ⟨resti, n2⟩ := q
            rw [h3, h4] at ih
            simp only [HygRelA] at ih ⊢
            obtain ⟨rfl, hg2, τ2, hτ2, rfl⟩ := ih
            obtain ⟨hn2, hv2⟩ := idealAlts_vars (idealBody_vars hVL hH d) hB rest st1.inv resti st2.inv (fun v hv => hq v (.inr hv)) h4
            obtain ⟨τ, hτ, e1, e2⟩ := HygTau.append hτ1 hτ2 hv1 hv2 hn1 hn2 hg1 hg2
            refine ⟨rfl, Nat.le_trans hg1 hg2, τ, hτ, ?_⟩
            simp only [renAlts]
            rw [renItems_congr hL hVL ai e1, renAlts_congr hL hVL resti e2]


theorem hyg_inv (hL : OpsLaws ops) (hVL : VarsLaws ops varsB varsG) {defs : Defs E B G P A} (hH : HygienicDefs ops varsB varsG defs)
    (hpar : ∀ d ∈ defs, paramBase + d.params.length ≤ reservedBase) {d : Nat} (hrec : HygRec ops varsB varsG defs d)
    (inv : MInv E) (st : ExpSt) (hq : ∀ v ∈ varsMInv ops inv, QV st.inv v) :
    HygRel ops varsB varsG st (expandInv ops defs false (expandBody ops defs false d) st inv)
      (idealOne ops defs (idealBody ops defs d) st.inv (.mac inv)) := by
  simp only [expandInv, idealOne]
  cases hd : defs[inv.mac]? with
  | none => simp [HygRel]
  | some df =>
    have hdm : df ∈ defs := List.mem_of_getElem? hd
    cases ha : argsOk df.params inv.args with
    | false => simp [ha, HygRel]
    | true =>
      simp only [ha, Bool.not_true, Bool.false_eq_true, if_false]
      rw [varsMInv_eq] at hq
      have hB := binderOK_QV hH hpar st.inv
      have hnoagg : ∀ d ∈ defs, noAggItems d.body = true := fun d hd => (hH d hd).1
      -- the instantiated body
      have hbody := inst_body_vars hVL hH hB hdm ha hq (tagVar st.inv)
      have hpb : noAggItems (instItems ops inv.args (tagVar st.inv) df.body) = true := by
        rw [noAggItems_inst]; exact hnoagg df hdm
      have hr : HygRel ops varsB varsG { st with inv := st.inv + 1 }
          (expandBody ops defs false d { st with inv := st.inv + 1 } (instItems ops inv.args (tagVar st.inv) df.body))
          (idealBody ops defs d (st.inv + 1) (instItems ops inv.args (tagVar st.inv) df.body)) := by
        refine hrec { st with inv := st.inv + 1 } _ ?_ (aggOkItems_of_noAgg _ hpb)
        intro v hv
        rcases hbody v hv with hq' | ⟨x, _, hx, rfl⟩
        · exact hq'.mono (Nat.le_succ _)
        · exact .inr ⟨st.inv, x, Nat.zero_le _, Nat.lt_succ_self _, hx, rfl⟩
      cases h1 : expandBody ops defs false d { st with inv := st.inv + 1 } (instItems ops inv.args (tagVar st.inv) df.body) with
      | error e =>
        cases h2 : idealBody ops defs d (st.inv + 1) (instItems ops inv.args (tagVar st.inv) df.body) with
        | error e' => rw [h1, h2] at hr; simpa [HygRel] using hr
        | ok q => rw [h1, h2] at hr; obtain ⟨_, _⟩ := q; simp [HygRel] at hr
      | ok p =>
        obtain ⟨exp, st'⟩ := p
        cases h2 : idealBody ops defs d (st.inv + 1) (instItems ops inv.args (tagVar st.inv) df.body) with
        | error e' => rw [h1, h2] at hr; simp [HygRel] at hr
        | ok q =>
          obtain ⟨idl, n'⟩ := q
          rw [h1, h2] at hr
          simp only [HygRel] at hr ⊢
          obtain ⟨rfl, hg, τin, hτin, rfl⟩ := hr
          -- the variables of the ideal expansion of the body
          let Q' : Var → Prop := fun v => QV st.inv v ∨ ∃ x ∈ varsItems ops varsB varsG df.body, x < paramBase ∧ v = tagVar st.inv x
          obtain ⟨hn, hvs'⟩ := idealBody_vars hVL hH d Q' (hB.mono fun v hv => .inl hv) (st.inv + 1) _ idl st'.inv hbody h2
          have hkeep := idealBody_keep ops hnoagg d _ _ _ _ h2
          have hpi : noAggItems idl = true := hkeep.1 hpb
          have hvs : ∀ v ∈ varsItems ops varsB varsG idl, QV st.inv v ∨ TagIn st.inv (st.inv + 1) v ∨ TagIn (st.inv + 1) st'.inv v := by
            intro v hv
            rcases hvs' v hv with (hq' | ⟨x, _, hx, rfl⟩) | ht
            · exact .inl hq'
            · exact .inr (.inl ⟨st.inv, x, Nat.le_refl _, Nat.lt_succ_self _, hx, rfl⟩)
            · exact .inr (.inr ht)
          have ho1 : ∀ v ∈ originated st.inv (renItems ops true τin idl), ∃ x, untag? st.inv v = some x := fun v hv => (mem_originated.1 hv).2
          have ho2 : ∀ v ∈ varsItems ops varsB varsG idl, TagIn st.inv (st.inv + 1) v → v ∈ originated st.inv (renItems ops true τin idl) := by
            intro v hv ht
            rcases hvs' v hv with (hq' | ⟨x, hxv, hx, rfl⟩) | ht'
            · exact (hq'.not_tagIn ht).elim
            · have hxr : x < reservedBase := Nat.lt_trans hx paramBase_lt_reservedBase
              rw [mem_originated]
              refine ⟨?_, x, untag?_tagVar st.inv x hxr⟩
              have hb1 : x ∈ boundVarsS df.body := (hH df hdm).2.2 x hxv hx
              have hb2 := boundVarsS_inst (ops := ops) inv.args (tagVar st.inv) hx df.body hb1
              have hb3 := hkeep.2 _ hb2
              rw [boundVarsS_ren]
              refine List.mem_map.2 ⟨_, hb3, ?_⟩
              exact hτin.fix _ (.inr (ht.mono (Nat.zero_le _) (Nat.le_refl _)))
            · have h1 := ht.num
              have h2 := ht'.num
              omega
          have hτ := HygTau.invoke hτin hg hvs ho1 ho2
          refine ⟨rfl, Nat.le_trans hg (Nat.le_add_right _ _), _, hτ, ?_⟩
          have hpe : noAggItems (renItems ops true τin idl) = true := (renItems_noAgg true τin idl hpi).2
          rw [(renItems_noAgg false _ _ hpe).1, renItems_comp hL _ τin idl hpi, renItems_comp hL _ _ idl hpi]
          rfl

theorem hyg_one (hL : OpsLaws ops) (hVL : VarsLaws ops varsB varsG) {defs : Defs E B G P A} (hH : HygienicDefs ops varsB varsG defs)
    (hpar : ∀ d ∈ defs, paramBase + d.params.length ≤ reservedBase) {d : Nat} (hrec : HygRec ops varsB varsG defs d)
    (i : SItem E B G P A (MInv E)) (st : ExpSt) (hq : ∀ v ∈ varsItem ops varsB varsG i, QV st.inv v) (hagg : aggOkItem i) :
    HygRel ops varsB varsG st (expandOne ops defs false (expandBody ops defs false d) st i)
      (idealOne ops defs (idealBody ops defs d) st.inv i) := by
  cases i with
  | flat f =>
    simp only [expandOne, idealOne, HygRel]
    refine ⟨trivial, Nat.le_refl _, id, HygTau.id _ _ _, ?_⟩
    exact (renItems_id hL _ (by simp only [aggOkItems, and_true]; exact hagg)).symm
  | mac inv => exact hyg_inv hL hVL hH hpar hrec inv st hq
  | disj alts =>
    have hr := hyg_alts hL hVL hH hpar hrec alts st hq hagg
    simp only [expandOne, idealOne]
    cases h1 : expandAltsWith (expandBody ops defs false d) st alts with
    | error e =>
      cases h2 : expandAltsWith (idealBody ops defs d) st.inv alts with
      | error e' => rw [h1, h2] at hr; simpa [HygRel, HygRelA] using hr
      | ok q => rw [h1, h2] at hr; obtain ⟨_, _⟩ := q; simp [HygRelA] at hr
    | ok p =>
      obtain ⟨alts', st1⟩ := p
      cases h2 : expandAltsWith (idealBody ops defs d) st.inv alts with
      | error e' => rw [h1, h2] at hr; simp [HygRelA] at hr
      | ok q =>
        obtain ⟨ai, n1⟩ := q
        rw [h1, h2] at hr
        simp only [HygRelA] at hr
        simp only [HygRel]
        obtain ⟨rfl, hg1, τ1, hτ1, rfl⟩ := hr
        refine ⟨rfl, hg1, τ1, hτ1.congr_mem ?_, rfl⟩
        intro v hv
        simpa [varsItems, varsItem] using hv

theorem hyg_items (hL : OpsLaws ops) (hVL : VarsLaws ops varsB varsG) {defs : Defs E B G P A} (hH : HygienicDefs ops varsB varsG defs)
    (hpar : ∀ d ∈ defs, paramBase + d.params.length ≤ reservedBase) {d : Nat} (hrec : HygRec ops varsB varsG defs d) :
    ∀ (items : SItems E B G P A (MInv E)) (st : ExpSt), (∀ v ∈ varsItems ops varsB varsG items, QV st.inv v) → aggOkItems items →
      HygRel ops varsB varsG st (expandItemsWith ops defs false (expandBody ops defs false d) st items)
        (idealItemsWith ops defs (idealBody ops defs d) st.inv items)
  | .nil, st, _, _ => by
    simp only [expandItemsWith, idealItemsWith, HygRel]
    exact ⟨trivial, Nat.le_refl _, id, HygTau.id _ _ _, rfl⟩
  | .cons i rest, st, hq, hagg => by
    simp only [varsItems, List.mem_append] at hq
    have hr := hyg_one hL hVL hH hpar hrec i st (fun v hv => hq v (.inl hv)) hagg.1
    rw [expandItemsWith_cons, idealItemsWith_cons]
    cases h1 : expandOne ops defs false (expandBody ops defs false d) st i with
    | error e =>
      cases h2 : idealOne ops defs (idealBody ops defs d) st.inv i with
      | error e' => rw [h1, h2] at hr; simpa [HygRel] using hr
      | ok q => rw [h1, h2] at hr; obtain ⟨_, _⟩ := q; simp [HygRel] at hr
    | ok p =>
      obtain ⟨is, st1⟩ := p
      cases h2 : idealOne ops defs (idealBody ops defs d) st.inv i with
      | error e' => rw [h1, h2] at hr; simp [HygRel] at hr
      | ok q =>
        obtain ⟨isi, n1⟩ := q
        rw [h1, h2] at hr
        simp only [HygRel] at hr
        obtain ⟨rfl, hg1, τ1, hτ1, rfl⟩ := hr
        have hB := binderOK_QV hH hpar st.inv
        obtain ⟨hn1, hv1⟩ := idealOne_vars hVL hH (idealBody_vars hVL hH d) hB i st.inv isi st1.inv (fun v hv => hq v (.inl hv)) h2
        have ih := hyg_items hL hVL hH hpar hrec rest st1 (fun v hv => (hq v (.inr hv)).mono hn1) hagg.2
        simp only
        cases h3 : expandItemsWith ops defs false (expandBody ops defs false d) st1 rest with
        | error e =>
          cases h4 : idealItemsWith ops defs (idealBody ops defs d) st1.inv rest with
          | error e' => rw [h3, h4] at ih; simpa [HygRel] using ih
          | ok q => rw [h3, h4] at ih; obtain ⟨_, _⟩ := q; simp [HygRel] at ih
        | ok p =>
          obtain ⟨rest', st2⟩ := p
          cases h4 : idealItemsWith ops defs (idealBody ops defs d) st1.inv rest with
          | error e' => rw [h3, h4] at ih; simp [HygRel] at ih
          | ok q =>
            obtain ⟨resti, n2⟩ := q
            rw [h3, h4] at ih
            simp only [HygRel] at ih ⊢
            obtain ⟨rfl, hg2, τ2, hτ2, rfl⟩ := ih
            obtain ⟨hn2, hv2⟩ := idealItemsWith_vars hVL hH (idealBody_vars hVL hH d) (QV st.inv) hB st1.inv rest resti st2.inv
              (fun v hv => hq v (.inr hv)) h4
            obtain ⟨τ, hτ, e1, e2⟩ := HygTau.append hτ1 hτ2 hv1 hv2 hn1 hn2 hg1 hg2
            refine ⟨rfl, Nat.le_trans hg1 hg2, τ, hτ.congr_mem ?_, ?_⟩
            · intro v hv
              rw [varsItems_append] at hv
              exact hv
            · rw [renItems_append, renItems_congr hL hVL isi e1, renItems_congr hL hVL resti e2]

theorem hyg_body (hL : OpsLaws ops) (hVL : VarsLaws ops varsB varsG) {defs : Defs E B G P A} (hH : HygienicDefs ops varsB varsG defs)
    (hpar : ∀ d ∈ defs, paramBase + d.params.length ≤ reservedBase) : ∀ d, HygRec ops varsB varsG defs d
  | 0 => by
    intro st items _ _
    cases items with
    | nil =>
      simp only [expandBody, idealBody, HygRel]
      exact ⟨trivial, Nat.le_refl _, id, HygTau.id _ _ _, rfl⟩
    | cons i rest => simp [expandBody, idealBody, HygRel]
  | d + 1 => fun st items hq hagg => hyg_items hL hVL hH hpar (hyg_body hL hVL hH hpar d) items st hq hagg

end main

/-! ## hygiene -/

/- FALSE AS FIRST STATED (kept for the record; `CE.expand_hygienic_false_agg` and `CE.expand_hygienic_false_params` in the last
section are the machine-checked counterexamples):

**C08 (hygiene)**: the implemented expansion of a call-site body is the ideal expansion up to a renaming `τ` of the
macro-local names: `τ` fixes every variable below `reservedBase` (all call-site variables) and is injective on the
variables of the ideal expansion.  Errors coincide.

theorem expand_hygienic_draft (ops : Ops E B G A) {varsB : B → List Var} {varsG : G → List Var} (hL : OpsLaws ops) (hVL : VarsLaws ops varsB varsG)
    (defs : Defs E B G P A) (hH : HygienicDefs ops varsB varsG defs) (items : SItems E B G P A (MInv E))
    (hsite : ∀ v ∈ varsItems ops varsB varsG items, v < paramBase) (d : Nat) :
    match expandBody ops defs false d {} items, idealBody ops defs d 0 items with
    | .ok (out, _), .ok (ideal, _) =>
        ∃ τ : Var → Var, (∀ v, v < reservedBase → τ v = v) ∧
          (∀ v ∈ varsItems ops varsB varsG ideal, ∀ w ∈ varsItems ops varsB varsG ideal, τ v = τ w → v = w) ∧
          out = renItems ops true τ ideal
    | .error e, .error e' => e = e'
    | _, _ => False 
Two artefacts of the model refute it:
* (call site) `renFItem ops true τ` rewrites a relation argument `.bound v` of an aggregation whose `boundArgs` do NOT list `v`
  into `.key (varE (τ v))`, for every `τ`, so `out = renItems ops true τ ideal` has no solution for such an (ill-formed)
  aggregation at the call site, even without any macro;
* (definitions) parameter `i` is the variable `paramBase + i`; in a `let $p = ..` position with an EXPRESSION argument
  `instBinder` leaves that number there; with more than `reservedBase - paramBase = 100` parameters it can be the tagged name
  of a LATER invocation (`900 + 8104 = tagVar 1 0`), which the ideal expansion then identifies with that invocation's local
  while the implemented one renames only the latter. -/

/-- **C08 (hygiene)**: the implemented expansion of a call-site body is the ideal expansion up to a renaming `τ` of the
macro-local names: `τ` fixes every variable below `reservedBase` (all call-site variables) and is injective on the
variables of the ideal expansion.  Errors coincide.
Extra hypotheses with respect to the first statement: `hpar` (at most 100 parameters: parameter numbers stay below `reservedBase`)
and `hagg` (the aggregations of the call site list the variables they mark as bound). -/
theorem expand_hygienic (ops : Ops E B G A) {varsB : B → List Var} {varsG : G → List Var} (hL : OpsLaws ops) (hVL : VarsLaws ops varsB varsG)
    (defs : Defs E B G P A) (hH : HygienicDefs ops varsB varsG defs)
    (hpar : ∀ d ∈ defs, paramBase + d.params.length ≤ reservedBase) (items : SItems E B G P A (MInv E))
    (hsite : ∀ v ∈ varsItems ops varsB varsG items, v < paramBase) (hagg : aggOkItems items) (d : Nat) :
    match expandBody ops defs false d {} items, idealBody ops defs d 0 items with
    | .ok (out, _), .ok (ideal, _) =>
        ∃ τ : Var → Var, (∀ v, v < reservedBase → τ v = v) ∧
          (∀ v ∈ varsItems ops varsB varsG ideal, ∀ w ∈ varsItems ops varsB varsG ideal, τ v = τ w → v = w) ∧
          out = renItems ops true τ ideal
    | .error e, .error e' => e = e'
    | _, _ => False := by
  have h' : HygRel ops varsB varsG {} (expandBody ops defs false d {} items) (idealBody ops defs d 0 items) :=
    hyg_body hL hVL hH hpar d {} items (fun v hv => .inl (Nat.lt_trans (hsite v hv) paramBase_lt_reservedBase)) hagg
  cases h1 : expandBody ops defs false d {} items with
  | error e =>
    cases h2 : idealBody ops defs d 0 items with
    | error e' => rw [h1, h2] at h'; simpa [HygRel] using h'
    | ok q => rw [h1, h2] at h'; obtain ⟨_, _⟩ := q; simp [HygRel] at h'
  | ok p =>
    obtain ⟨out, st'⟩ := p
    cases h2 : idealBody ops defs d 0 items with
    | error e' => rw [h1, h2] at h'; simp [HygRel] at h'
    | ok q =>
      obtain ⟨ideal, n'⟩ := q
      rw [h1, h2] at h'
      simp only [HygRel] at h'
      obtain ⟨_, _, τ, hτ, rfl⟩ := h'
      exact ⟨τ, fun v hv => hτ.fix v (.inl hv), hτ.inj, rfl⟩

/- FALSE AS FIRST STATED (`CE.ideal_vars_false` in the last section): a parameter of kind `expr` in a `let` position that receives
an expression leaves its own number `paramBase + i` in the expansion (`instBinder`), which is neither `< paramBase` nor a tag.

in the ideal expansion every variable is a call-site variable or belongs to exactly one invocation

theorem ideal_vars_draft (ops : Ops E B G A) {varsB : B → List Var} {varsG : G → List Var} (hL : OpsLaws ops) (hVL : VarsLaws ops varsB varsG)
    (defs : Defs E B G P A) (hH : HygienicDefs ops varsB varsG defs) (items : SItems E B G P A (MInv E))
    (hsite : ∀ v ∈ varsItems ops varsB varsG items, v < paramBase) (d n n' : Nat) (ideal : SItems E B G P A (MInv E))
    (h : idealBody ops defs d n items = .ok (ideal, n')) :
    ∀ v ∈ varsItems ops varsB varsG ideal, v < paramBase ∨ ∃ j x, n ≤ j ∧ j < n' ∧ x < paramBase ∧ v = tagVar j x -/

/-- in the ideal expansion every variable is a call-site variable or belongs to exactly one invocation.
Extra hypothesis with respect to the first statement: `hbind` (a parameter in a `let` / `if let` / `for` / pattern position is an
`ident` parameter). -/
theorem ideal_vars (ops : Ops E B G A) {varsB : B → List Var} {varsG : G → List Var} (hVL : VarsLaws ops varsB varsG)
    (defs : Defs E B G P A) (hH : HygienicDefs ops varsB varsG defs)
    (hbind : ∀ d ∈ defs, ∀ x ∈ binderVarsS d.body, paramBase ≤ x → d.params[x - paramBase]? = some .ident)
    (items : SItems E B G P A (MInv E))
    (hsite : ∀ v ∈ varsItems ops varsB varsG items, v < paramBase) (d n n' : Nat) (ideal : SItems E B G P A (MInv E))
    (h : idealBody ops defs d n items = .ok (ideal, n')) :
    ∀ v ∈ varsItems ops varsB varsG ideal, v < paramBase ∨ ∃ j x, n ≤ j ∧ j < n' ∧ x < paramBase ∧ v = tagVar j x :=
  (idealBody_vars hVL hH d (fun v => v < paramBase) (fun d hd x hx _ hp => .inl (hbind d hd x hx hp)) n items ideal n' hsite h).2

/-! ## recursion is rejected; termination -/

mutual
/-- the macros invoked by a body (through disjunctions) -/
def callsItem : SItem E B G P A (MInv E) → List Nat
  | .flat _ => []
  | .disj alts => callsAlts alts
  | .mac m => [m.mac]
def callsItems : SItems E B G P A (MInv E) → List Nat
  | .nil => []
  | .cons i rest => callsItem i ++ callsItems rest
def callsAlts : SAlts E B G P A (MInv E) → List Nat
  | .nil => []
  | .cons a rest => callsItems a ++ callsAlts rest
end

/-- `m` invokes `n` directly (in body position) -/
def Calls (defs : Defs E B G P A) (m n : Nat) : Prop := ∃ d, defs[m]? = some d ∧ n ∈ callsItems d.body

/-- `m` reaches `n` through one or more invocations -/
inductive Reaches (defs : Defs E B G P A) : Nat → Nat → Prop where
  | step {m n : Nat} : Calls defs m n → Reaches defs m n
  | trans {m n k : Nat} : Calls defs m n → Reaches defs n k → Reaches defs m k

/-- the expansion functions are total (they are structurally recursive: the depth budget is their fuel) -/
theorem expandBody_total (ops : Ops E B G A) (defs : Defs E B G P A) (full : Bool) (d : Nat) (st : ExpSt) (items : SItems E B G P A (MInv E)) :
    ∃ r, expandBody ops defs full d st items = r := ⟨_, rfl⟩

/-! ### call chains -/

mutual
theorem callsItem_inst (ops : Ops E B G A) (args : List (MArg E)) (tag : Var → Var) :
    ∀ i : SItem E B G P A (MInv E), callsItem (instItem ops args tag i) = callsItem i
  | .flat _ => rfl
  | .disj alts => by simp only [instItem, callsItem]; exact callsAlts_inst ops args tag alts
  | .mac _ => rfl
theorem callsItems_inst (ops : Ops E B G A) (args : List (MArg E)) (tag : Var → Var) :
    ∀ is : SItems E B G P A (MInv E), callsItems (instItems ops args tag is) = callsItems is
  | .nil => rfl
  | .cons i rest => by simp only [instItems, callsItems, callsItem_inst ops args tag i, callsItems_inst ops args tag rest]
theorem callsAlts_inst (ops : Ops E B G A) (args : List (MArg E)) (tag : Var → Var) :
    ∀ as : SAlts E B G P A (MInv E), callsAlts (instAlts ops args tag as) = callsAlts as
  | .nil => rfl
  | .cons a rest => by simp only [instAlts, callsAlts, callsItems_inst ops args tag a, callsAlts_inst ops args tag rest]
end

/-- macro `m` has a chain of `n` nested invocations below it -/
def Chain (defs : Defs E B G P A) : Nat → Nat → Prop
  | _, 0 => True
  | m, n + 1 => ∃ df, defs[m]? = some df ∧ ∃ m' ∈ callsItems df.body, Chain defs m' n

theorem Chain.anti (defs : Defs E B G P A) : ∀ n m, Chain defs m (n + 1) → Chain defs m n
  | 0, _, _ => trivial
  | n + 1, _, ⟨df, hdf, m', hm', h⟩ => ⟨df, hdf, m', hm', Chain.anti defs n m' h⟩

theorem Chain.of_calls {defs : Defs E B G P A} {m n c : Nat} (hc : Calls defs m n) (h : Chain defs n c) : Chain defs m (c + 1) := by
  obtain ⟨df, hdf, hn⟩ := hc
  exact ⟨df, hdf, n, hn, h⟩

theorem Chain.of_reaches {defs : Defs E B G P A} {m k : Nat} (hr : Reaches defs m k) : ∀ c, Chain defs k c → Chain defs m (c + 1) := by
  induction hr with
  | step hc => intro c h; exact Chain.of_calls hc h
  | trans hc _ ih => intro c h; exact Chain.anti defs _ _ (Chain.of_calls hc (ih c h))

theorem Chain.of_cycle {defs : Defs E B G P A} {k : Nat} (hcyc : Reaches defs k k) : ∀ c, Chain defs k c
  | 0 => trivial
  | c + 1 => Chain.of_reaches hcyc c (Chain.of_cycle hcyc c)

/-- what a successful expansion at the next depth tells about the invocations of a body -/
def NoChainRec (defs : Defs E B G P A) (d : Nat)
    (recur : ExpSt → SItems E B G P A (MInv E) → Except ExpandErr (SItems E B G P A (MInv E) × ExpSt)) : Prop :=
  ∀ st items r, recur st items = .ok r → ∀ m ∈ callsItems items, ¬ Chain defs m d

theorem expandAltsWith_noChain {defs : Defs E B G P A} {d : Nat}
    {recur : ExpSt → SItems E B G P A (MInv E) → Except ExpandErr (SItems E B G P A (MInv E) × ExpSt)}
    (hrec : NoChainRec defs d recur) : ∀ (alts : SAlts E B G P A (MInv E)) (st : ExpSt) r,
    expandAltsWith recur st alts = .ok r → ∀ m ∈ callsAlts alts, ¬ Chain defs m d
  | .nil, _, _, _, m, hm => by simp [callsAlts] at hm
  | .cons a rest, st, r, h, m, hm => by
    obtain ⟨a', st1, rest', h1, h2, _⟩ := expandAltsWith_cons_ok h
    simp only [callsAlts, List.mem_append] at hm
    rcases hm with hm | hm
    · exact hrec _ _ _ h1 m hm
    · exact expandAltsWith_noChain hrec rest st1 _ h2 m hm

theorem expandOne_noChain {ops : Ops E B G A} {defs : Defs E B G P A} {full : Bool} {d : Nat}
    {recur : ExpSt → SItems E B G P A (MInv E) → Except ExpandErr (SItems E B G P A (MInv E) × ExpSt)}
    (hrec : NoChainRec defs d recur) (st : ExpSt) (i : SItem E B G P A (MInv E)) r
    (h : expandOne ops defs full recur st i = .ok r) : ∀ m ∈ callsItem i, ¬ Chain defs m (d + 1) := by
  intro m hm hch
  cases i with
  | flat f => simp [callsItem] at hm
  | disj alts =>
    simp only [expandOne] at h
    cases h1 : expandAltsWith recur st alts with
    | error e => rw [h1] at h; cases h
    | ok p => exact expandAltsWith_noChain hrec alts st p h1 m hm (Chain.anti defs _ _ hch)
  | mac inv =>
    simp only [callsItem, List.mem_singleton] at hm
    subst hm
    obtain ⟨df, exp, st', hdf, _, hr, _⟩ := expandInv_ok h
    obtain ⟨df', hdf', m', hm', hc⟩ := hch
    rw [hdf] at hdf'
    cases hdf'
    exact hrec _ _ _ hr m' (by rw [callsItems_inst]; exact hm') hc

theorem expandItemsWith_noChain {ops : Ops E B G A} {defs : Defs E B G P A} {full : Bool} {d : Nat}
    {recur : ExpSt → SItems E B G P A (MInv E) → Except ExpandErr (SItems E B G P A (MInv E) × ExpSt)}
    (hrec : NoChainRec defs d recur) : ∀ (items : SItems E B G P A (MInv E)) (st : ExpSt) r,
    expandItemsWith ops defs full recur st items = .ok r → ∀ m ∈ callsItems items, ¬ Chain defs m (d + 1)
  | .nil, _, _, _, m, hm => by simp [callsItems] at hm
  | .cons i rest, st, r, h, m, hm => by
    obtain ⟨is, st1, rest', h1, h2, _⟩ := expandItemsWith_cons_ok h
    simp only [callsItems, List.mem_append] at hm
    rcases hm with hm | hm
    · exact expandOne_noChain hrec st i _ h1 m hm
    · exact expandItemsWith_noChain hrec rest st1 _ h2 m hm

theorem expandBody_noChain (ops : Ops E B G A) (defs : Defs E B G P A) (full : Bool) :
    ∀ d, NoChainRec defs d (expandBody ops defs full d)
  | 0 => by
    intro st items r h m hm
    cases items with
    | nil => simp [callsItems] at hm
    | cons i rest => cases h
  | d + 1 => by
    intro st items r h
    exact expandItemsWith_noChain (expandBody_noChain ops defs full d) items st r h

/-- **C08 (recursion)**: a body that invokes a macro which reaches itself (or reaches one that does) is rejected, whatever the
depth budget — in particular with the real budget `macroDepth`; no hypothesis on the definitions -/
theorem recursive_rejected (ops : Ops E B G A) (defs : Defs E B G P A) (full : Bool) (d : Nat) (st : ExpSt) (items : SItems E B G P A (MInv E))
    (m k : Nat) (hm : m ∈ callsItems items) (hk : m = k ∨ Reaches defs m k) (hcyc : Reaches defs k k) :
    ∀ r, expandBody ops defs full d st items ≠ .ok r := by
  intro r h
  apply expandBody_noChain ops defs full d st items r h m hm
  rcases hk with rfl | hk
  · exact Chain.of_cycle hcyc d
  · exact Chain.anti defs _ _ (Chain.of_reaches hk d (Chain.of_cycle hcyc d))

mutual
/-- every invocation names a defined macro and hands identifiers (not expressions) to `ident` parameters; `ks` are the
kinds of the enclosing definition's parameters (`[]` at the call site) -/
def callsOkItem (defs : Defs E B G P A) (ks : List ParamKind) : SItem E B G P A (MInv E) → Prop
  | .flat _ => True
  | .disj alts => callsOkAlts defs ks alts
  | .mac m => ∃ d, defs[m.mac]? = some d ∧ d.params.length = m.args.length ∧
      ∀ i (h : i < m.args.length), d.params[i]? = some .ident →
        ∃ x, m.args[i] = .ident x ∧ (paramBase ≤ x → ks[x - paramBase]? = some .ident)
def callsOkItems (defs : Defs E B G P A) (ks : List ParamKind) : SItems E B G P A (MInv E) → Prop
  | .nil => True
  | .cons i rest => callsOkItem defs ks i ∧ callsOkItems defs ks rest
def callsOkAlts (defs : Defs E B G P A) (ks : List ParamKind) : SAlts E B G P A (MInv E) → Prop
  | .nil => True
  | .cons a rest => callsOkItems defs ks a ∧ callsOkAlts defs ks rest
end

mutual
/-- every invocation names a defined macro and its arguments pass `parse_args` -/
def goodItem (defs : Defs E B G P A) : SItem E B G P A (MInv E) → Prop
  | .flat _ => True
  | .disj alts => goodAlts defs alts
  | .mac m => ∃ d, defs[m.mac]? = some d ∧ argsOk d.params m.args = true
def goodItems (defs : Defs E B G P A) : SItems E B G P A (MInv E) → Prop
  | .nil => True
  | .cons i rest => goodItem defs i ∧ goodItems defs rest
def goodAlts (defs : Defs E B G P A) : SAlts E B G P A (MInv E) → Prop
  | .nil => True
  | .cons a rest => goodItems defs a ∧ goodAlts defs rest
end

mutual
theorem goodItem_site (defs : Defs E B G P A) : ∀ i : SItem E B G P A (MInv E), callsOkItem defs [] i → goodItem defs i
  | .flat _, _ => trivial
  | .disj alts, h => by simp only [callsOkItem] at h; simp only [goodItem]; exact goodAlts_site defs alts h
  | .mac m, h => by
    simp only [callsOkItem] at h
    obtain ⟨d, hd, hl, h⟩ := h
    refine ⟨d, hd, (argsOk_iff _ _).2 ⟨hl, ?_⟩⟩
    intro i hi
    have hi' : i < m.args.length := by
      rw [← hl]
      rcases Nat.lt_or_ge i d.params.length with hlt | hge
      · exact hlt
      · rw [List.getElem?_eq_none hge] at hi; cases hi
    obtain ⟨x, hx, _⟩ := h i hi' hi
    exact ⟨x, by rw [List.getElem?_eq_getElem hi', hx]⟩
theorem goodItems_site (defs : Defs E B G P A) : ∀ is : SItems E B G P A (MInv E), callsOkItems defs [] is → goodItems defs is
  | .nil, _ => trivial
  | .cons i rest, h => by
    simp only [callsOkItems] at h
    exact ⟨goodItem_site defs i h.1, goodItems_site defs rest h.2⟩
theorem goodAlts_site (defs : Defs E B G P A) : ∀ as : SAlts E B G P A (MInv E), callsOkAlts defs [] as → goodAlts defs as
  | .nil, _ => trivial
  | .cons a rest, h => by
    simp only [callsOkAlts] at h
    exact ⟨goodItems_site defs a h.1, goodAlts_site defs rest h.2⟩
end

mutual
theorem goodItem_inst (ops : Ops E B G A) (defs : Defs E B G P A) (ks : List ParamKind) (args : List (MArg E)) (tag : Var → Var)
    (hargs : argsOk ks args = true) :
    ∀ i : SItem E B G P A (MInv E), callsOkItem defs ks i → goodItem defs (instItem ops args tag i)
  | .flat _, _ => trivial
  | .disj alts, h => by
    simp only [callsOkItem] at h; simp only [instItem, goodItem]; exact goodAlts_inst ops defs ks args tag hargs alts h
  | .mac m, h => by
    simp only [callsOkItem] at h
    obtain ⟨d, hd, hl, h⟩ := h
    refine ⟨d, hd, (argsOk_iff _ _).2 ⟨by simp [instMInv, hl], ?_⟩⟩
    intro i hi
    have hi' : i < m.args.length := by
      rw [← hl]
      rcases Nat.lt_or_ge i d.params.length with hlt | hge
      · exact hlt
      · rw [List.getElem?_eq_none hge] at hi; cases hi
    obtain ⟨x, hx, hp⟩ := h i hi' hi
    simp only [instMInv, List.getElem?_map, List.getElem?_eq_getElem hi', hx, Option.map_some]
    unfold instVar
    by_cases hpx : paramBase ≤ x
    · rw [if_pos hpx]
      obtain ⟨z, hz⟩ := ((argsOk_iff _ _).1 hargs).2 _ (hp hpx)
      refine ⟨z, ?_⟩
      simp [List.getD, hz]
    · rw [if_neg hpx]
      exact ⟨_, rfl⟩
theorem goodItems_inst (ops : Ops E B G A) (defs : Defs E B G P A) (ks : List ParamKind) (args : List (MArg E)) (tag : Var → Var)
    (hargs : argsOk ks args = true) :
    ∀ is : SItems E B G P A (MInv E), callsOkItems defs ks is → goodItems defs (instItems ops args tag is)
  | .nil, _ => trivial
  | .cons i rest, h => by
    simp only [callsOkItems] at h
    exact ⟨goodItem_inst ops defs ks args tag hargs i h.1, goodItems_inst ops defs ks args tag hargs rest h.2⟩
theorem goodAlts_inst (ops : Ops E B G A) (defs : Defs E B G P A) (ks : List ParamKind) (args : List (MArg E)) (tag : Var → Var)
    (hargs : argsOk ks args = true) :
    ∀ as : SAlts E B G P A (MInv E), callsOkAlts defs ks as → goodAlts defs (instAlts ops args tag as)
  | .nil, _ => trivial
  | .cons a rest, h => by
    simp only [callsOkAlts] at h
    exact ⟨goodItems_inst ops defs ks args tag hargs a h.1, goodAlts_inst ops defs ks args tag hargs rest h.2⟩
end

/-- the only error of `recur` on well-formed invocations is the depth error -/
def GoodRec {S T : Type} (defs : Defs E B G P A) (recur : S → SItems E B G P A (MInv E) → Except ExpandErr T) : Prop :=
  ∀ st items, goodItems defs items → (∃ r, recur st items = .ok r) ∨ recur st items = .error .recursive

theorem expandAltsWith_good {S : Type} {defs : Defs E B G P A}
    {recur : S → SItems E B G P A (MInv E) → Except ExpandErr (SItems E B G P A (MInv E) × S)}
    (hrec : GoodRec defs recur) : ∀ (alts : SAlts E B G P A (MInv E)) (st : S), goodAlts defs alts →
    (∃ r, expandAltsWith recur st alts = .ok r) ∨ expandAltsWith recur st alts = .error .recursive
  | .nil, st, _ => .inl ⟨_, rfl⟩
  | .cons a rest, st, h => by
    simp only [goodAlts] at h
    simp only [expandAltsWith]
    rcases hrec st a h.1 with ⟨⟨a', st1⟩, h1⟩ | h1
    · rw [h1]
      simp only
      rcases expandAltsWith_good hrec rest st1 h.2 with ⟨⟨rest', st2⟩, h2⟩ | h2
      · rw [h2]; exact .inl ⟨_, rfl⟩
      · rw [h2]; exact .inr rfl
    · rw [h1]; exact .inr rfl

theorem expandOne_good {ops : Ops E B G A} {defs : Defs E B G P A} {full : Bool}
    (hdefs : ∀ df ∈ defs, callsOkItems defs df.params df.body)
    {recur : ExpSt → SItems E B G P A (MInv E) → Except ExpandErr (SItems E B G P A (MInv E) × ExpSt)}
    (hrec : GoodRec defs recur) (st : ExpSt) (i : SItem E B G P A (MInv E)) (h : goodItem defs i) :
    (∃ r, expandOne ops defs full recur st i = .ok r) ∨ expandOne ops defs full recur st i = .error .recursive := by
  cases i with
  | flat f => exact .inl ⟨_, rfl⟩
  | disj alts =>
    simp only [goodItem] at h
    simp only [expandOne]
    rcases expandAltsWith_good hrec alts st h with ⟨⟨alts', st1⟩, h1⟩ | h1
    · rw [h1]; exact .inl ⟨_, rfl⟩
    · rw [h1]; exact .inr rfl
  | mac inv =>
    obtain ⟨d, hd, ha⟩ := h
    have hdm : d ∈ defs := List.mem_of_getElem? hd
    simp only [expandOne, expandInv, hd, ha, Bool.not_true, Bool.false_eq_true, if_false]
    rcases hrec { st with inv := st.inv + 1 } _ (goodItems_inst ops defs d.params inv.args (tagVar st.inv) ha d.body (hdefs d hdm))
      with ⟨⟨exp, st'⟩, h1⟩ | h1
    · rw [h1]; exact .inl ⟨_, rfl⟩
    · rw [h1]; exact .inr rfl

theorem expandItemsWith_good {ops : Ops E B G A} {defs : Defs E B G P A} {full : Bool}
    (hdefs : ∀ df ∈ defs, callsOkItems defs df.params df.body)
    {recur : ExpSt → SItems E B G P A (MInv E) → Except ExpandErr (SItems E B G P A (MInv E) × ExpSt)}
    (hrec : GoodRec defs recur) : ∀ (items : SItems E B G P A (MInv E)) (st : ExpSt), goodItems defs items →
    (∃ r, expandItemsWith ops defs full recur st items = .ok r) ∨ expandItemsWith ops defs full recur st items = .error .recursive
  | .nil, st, _ => .inl ⟨_, rfl⟩
  | .cons i rest, st, h => by
    simp only [goodItems] at h
    rw [expandItemsWith_cons]
    rcases expandOne_good hdefs hrec st i h.1 with ⟨⟨is, st1⟩, h1⟩ | h1
    · rw [h1]
      simp only
      rcases expandItemsWith_good hdefs hrec rest st1 h.2 with ⟨⟨rest', st2⟩, h2⟩ | h2
      · rw [h2]; exact .inl ⟨_, rfl⟩
      · rw [h2]; exact .inr rfl
    · rw [h1]; exact .inr rfl

theorem expandBody_good (ops : Ops E B G A) (defs : Defs E B G P A) (full : Bool)
    (hdefs : ∀ df ∈ defs, callsOkItems defs df.params df.body) :
    ∀ d, GoodRec defs (expandBody ops defs full d)
  | 0 => by
    intro st items _
    cases items with
    | nil => exact .inl ⟨_, rfl⟩
    | cons i rest => exact .inr rfl
  | d + 1 => by
    intro st items h
    exact expandItemsWith_good hdefs (expandBody_good ops defs full hdefs d) items st h

/-- with well-formed invocations everywhere the rejection is the documented error "recursively defined Ascent macro" -/
theorem recursive_rejected_msg (ops : Ops E B G A) (defs : Defs E B G P A) (full : Bool) (d : Nat) (st : ExpSt) (items : SItems E B G P A (MInv E))
    (hok : callsOkItems defs [] items) (hdefs : ∀ df ∈ defs, callsOkItems defs df.params df.body)
    (m k : Nat) (hm : m ∈ callsItems items) (hk : m = k ∨ Reaches defs m k) (hcyc : Reaches defs k k) :
    expandBody ops defs full d st items = .error .recursive := by
  rcases expandBody_good ops defs full hdefs d st items (goodItems_site defs items hok) with ⟨r, h⟩ | h
  · exact absurd h (recursive_rejected ops defs full d st items m k hm hk hcyc r)
  · exact h

/-- the depth budget is only a cut-off: a successful expansion does not depend on it -/
theorem expandBody_mono (ops : Ops E B G A) (defs : Defs E B G P A) (full : Bool) (d : Nat) (st : ExpSt) (items : SItems E B G P A (MInv E))
    (r : SItems E B G P A (MInv E) × ExpSt) (h : expandBody ops defs full d st items = .ok r) :
    expandBody ops defs full (d + 1) st items = .ok r := by
  exact expandBody_recLe ops defs full d st items r h

/-- head position: a head macro that reaches itself is rejected as well -/
def CallsH (defs : Defs E B G P A) (m n : Nat) : Prop := ∃ d inv, defs[m]? = some d ∧ SHead.mac inv ∈ d.heads ∧ inv.mac = n

inductive ReachesH (defs : Defs E B G P A) : Nat → Nat → Prop where
  | step {m n : Nat} : CallsH defs m n → ReachesH defs m n
  | trans {m n k : Nat} : CallsH defs m n → ReachesH defs n k → ReachesH defs m k

/-! ### heads -/

def ChainH (defs : Defs E B G P A) : Nat → Nat → Prop
  | _, 0 => True
  | m, n + 1 => ∃ df, defs[m]? = some df ∧ ∃ inv, SHead.mac inv ∈ df.heads ∧ ChainH defs inv.mac n

theorem ChainH.anti (defs : Defs E B G P A) : ∀ n m, ChainH defs m (n + 1) → ChainH defs m n
  | 0, _, _ => trivial
  | n + 1, _, ⟨df, hdf, inv, hm', h⟩ => ⟨df, hdf, inv, hm', ChainH.anti defs n _ h⟩

theorem ChainH.of_calls {defs : Defs E B G P A} {m n c : Nat} (hc : CallsH defs m n) (h : ChainH defs n c) : ChainH defs m (c + 1) := by
  obtain ⟨df, inv, hdf, hn, rfl⟩ := hc
  exact ⟨df, hdf, inv, hn, h⟩

theorem ChainH.of_reaches {defs : Defs E B G P A} {m k : Nat} (hr : ReachesH defs m k) : ∀ c, ChainH defs k c → ChainH defs m (c + 1) := by
  induction hr with
  | step hc => intro c h; exact ChainH.of_calls hc h
  | trans hc _ ih => intro c h; exact ChainH.anti defs _ _ (ChainH.of_calls hc (ih c h))

theorem ChainH.of_cycle {defs : Defs E B G P A} {k : Nat} (hcyc : ReachesH defs k k) : ∀ c, ChainH defs k c
  | 0 => trivial
  | c + 1 => ChainH.of_reaches hcyc c (ChainH.of_cycle hcyc c)

theorem expandHeadsWith_noChain {ops : Ops E B G A} {defs : Defs E B G P A} {d : Nat}
    {recur : List (SHead E (MInv E)) → Except ExpandErr (List (SHead E (MInv E)))}
    (hrec : ∀ hs r, recur hs = .ok r → ∀ inv, SHead.mac inv ∈ hs → ¬ ChainH defs inv.mac d) :
    ∀ (hs : List (SHead E (MInv E))) r, expandHeadsWith ops defs recur hs = .ok r →
      ∀ inv, SHead.mac inv ∈ hs → ¬ ChainH defs inv.mac (d + 1)
  | [], _, _, inv, hm => by simp at hm
  | .clause c :: rest, r, h, inv, hm => by
    simp only [List.mem_cons, reduceCtorEq, false_or] at hm
    simp only [expandHeadsWith] at h
    cases h1 : expandHeadsWith ops defs recur rest with
    | error e => rw [h1] at h; cases h
    | ok rest' => exact expandHeadsWith_noChain hrec rest rest' h1 inv hm
  | .mac inv0 :: rest, r, h, inv, hm => by
    simp only [expandHeadsWith] at h
    cases hd : defs[inv0.mac]? with
    | none => rw [hd] at h; cases h
    | some df =>
      rw [hd] at h
      simp only at h
      cases ha : argsOk df.params inv0.args with
      | false => rw [ha] at h; cases h
      | true =>
        rw [ha] at h
        simp only [Bool.not_true, Bool.false_eq_true, if_false] at h
        cases hr : recur (df.heads.map (instHead ops inv0.args id)) with
        | error e => rw [hr] at h; cases h
        | ok hs' =>
          rw [hr] at h
          simp only at h
          cases h1 : expandHeadsWith ops defs recur rest with
          | error e => rw [h1] at h; cases h
          | ok rest' =>
            simp only [List.mem_cons, SHead.mac.injEq] at hm
            rcases hm with rfl | hm
            · rintro ⟨df', hdf', inv', hinv', hc⟩
              rw [hd] at hdf'
              cases hdf'
              refine hrec _ _ hr (instMInv ops inv.args id inv') ?_ hc
              exact List.mem_map.2 ⟨_, hinv', rfl⟩
            · exact expandHeadsWith_noChain hrec rest rest' h1 inv hm

theorem expandHeads_noChain (ops : Ops E B G A) (defs : Defs E B G P A) :
    ∀ d hs r, expandHeads ops defs d hs = .ok r → ∀ inv, SHead.mac inv ∈ hs → ¬ ChainH defs inv.mac d
  | 0, hs, r, h, inv, hm => by
    cases hs with
    | nil => simp at hm
    | cons _ _ => cases h
  | d + 1, hs, r, h, inv, hm =>
    expandHeadsWith_noChain (expandHeads_noChain ops defs d) hs r h inv hm

theorem recursive_rejected_heads (ops : Ops E B G A) (defs : Defs E B G P A) (d : Nat) (hs : List (SHead E (MInv E)))
    (inv : MInv E) (k : Nat) (hm : SHead.mac inv ∈ hs) (hk : inv.mac = k ∨ ReachesH defs inv.mac k) (hcyc : ReachesH defs k k) :
    ∀ r, expandHeads ops defs d hs ≠ .ok r := by
  intro r h
  apply expandHeads_noChain ops defs d hs r h inv hm
  rcases hk with hk | hk
  · rw [hk]; exact ChainH.of_cycle hcyc d
  · exact ChainH.anti defs _ _ (ChainH.of_reaches hk d (ChainH.of_cycle hcyc d))

/-! ## finding F25 (fixed by 3a6dc9a): a condition attached to a clause inside a macro body was not renamed

Before the fix the implemented expansion of the program below was
`r1(v0), r0(__v0_, v1) if v0 == v0` (the attached condition read the CALL SITE's `v0`; the former theorem `f25_capture`), and
`expand_hygienic` excluded attached conditions from macro bodies.  Now the condition is renamed with the clause. -/

namespace F25
def ops0 : Ops Var (Var × Var) Unit Unit where
  varE v := v
  eqB v e := (v, e)
  notA := ()
  varsE e := [e]
  subE θ e := θ e
  subB θ b := (θ b.1, θ b.2)
  subG _ g := g

/-- `macro m0($p0: ident) { r0(v0, $p0) if v0 == v0 }` (the test stands for any test that reads the macro-local `v0`) -/
def defs : Defs Var (Var × Var) Unit Unit Unit :=
  [{ params := [.ident], body := .cons (.flat (.clause 0 [.var 0, .var paramBase] [.ifc (0, 0)])) .nil, heads := [] }]

/-- call site `r1(v0), m0!(v1)` -/
def site : SItems Var (Var × Var) Unit Unit Unit (MInv Var) :=
  .cons (.flat (.clause 1 [.var 0] [])) (.cons (.mac { mac := 0, args := [.ident 1] }) .nil)

def varsB0 : Var × Var → List Var := fun b => [b.1, b.2]
def varsG0 : Unit → List Var := fun _ => []

/-- the implemented expansion (since fix 3a6dc9a): the clause column AND the attached condition are renamed (`gsMac 0`);
the call site's `v0` (variable `0`) is not touched -/
theorem f25_fixed :
    expandBody ops0 defs false macroDepth {} site =
      .ok (.cons (.flat (.clause 1 [.var 0] [])) (.cons (.flat (.clause 0 [.var (gsMac 0), .var 1] [.ifc (gsMac 0, gsMac 0)])) .nil),
           { inv := 1, gs := 1 }) := by
  rfl

/-- the ideal expansion keeps the macro-local apart from the call site's `v0` -/
theorem f25_ideal :
    idealBody ops0 defs macroDepth 0 site =
      .ok (.cons (.flat (.clause 1 [.var 0] [])) (.cons (.flat (.clause 0 [.var (tagVar 0 0), .var 1] [.ifc (tagVar 0 0, tagVar 0 0)])) .nil), 1) := by
  rfl

/-- the α-renaming between the two: the macro-local `v0` of invocation 0 becomes the gensym `__v0_` -/
def τ0 (v : Var) : Var := if v = tagVar 0 0 then gsMac 0 else v

/-- the former counterexample now expands hygienically: the implemented expansion IS the ideal expansion renamed by `τ0`, which is
injective on the variables of the ideal expansion and fixes every call-site variable (the conclusion of `expand_hygienic`, checked by
evaluation; `CE.f25_by_theorem` below obtains it from the theorem) -/
theorem f25_hygienic :
    match expandBody ops0 defs false macroDepth {} site, idealBody ops0 defs macroDepth 0 site with
    | .ok (out, _), .ok (ideal, _) =>
        out = renItems ops0 true τ0 ideal ∧
        (∀ v ∈ varsItems ops0 varsB0 varsG0 ideal, ∀ w ∈ varsItems ops0 varsB0 varsG0 ideal, τ0 v = τ0 w → v = w) ∧
        (∀ v, v < reservedBase → τ0 v = v)
    | _, _ => False := by
  rw [f25_fixed, f25_ideal]
  refine ⟨rfl, by decide, ?_⟩
  intro v hv
  have h : v ≠ tagVar 0 0 := by
    intro e
    have := tagVar_ge 0 0
    rw [← e] at this
    exact absurd hv (Nat.not_lt.2 this)
  simp [τ0, h]
end F25


/-! ## finding FM8 (fixed by deae510): a macro that invokes itself twice per level

`recursive_rejected` / `recursive_rejected_heads` say WHAT the answer is; the real code needed 2^50 (two invocations inside one
disjunction) resp. 2^100 (two invocations in a head macro) expansions to reach it, because heads and disjunctions expanded ALL their
items before looking for an error.  Since the fix the first error is returned at once (`punctuated_try_map`), which is how
`expandAltsWith` / `expandItemsWith` / `expandHeadsWith` thread their `Except` — left to right, nothing behind the first error is
evaluated: the kernel reaches the answer along the leftmost branch, 100 steps deep.  (`decide +kernel`: the instance is evaluated
by the kernel, which shares the expansion state threaded through the items; the elaborator's own call-by-name evaluation, which plain
`decide` runs first, re-evaluates it at every use and gives up beyond depth ~30.  No axiom is involved either way.) -/

namespace FM8
open F25

/-- `macro m0($p0: ident) { (m0!($p0) | m0!($p0)) }` and, in head position, `macro m0($p0: ident) { m0!($p0), m0!($p0) }` -/
def self : MInv Var := { mac := 0, args := [.ident paramBase] }
def defs : Defs Var (Var × Var) Unit Unit Unit :=
  [{ params := [.ident],
     body := .cons (.disj (.cons (.cons (.mac self) .nil) (.cons (.cons (.mac self) .nil) .nil))) .nil,
     heads := [.mac self, .mac self] }]

/-- call site `r1(v0), m0!(v0)` -/
def site : SItems Var (Var × Var) Unit Unit Unit (MInv Var) :=
  .cons (.flat (.clause 1 [.var 0] [])) (.cons (.mac { mac := 0, args := [.ident 0] }) .nil)

def isRecursive {α : Type} : Except ExpandErr α → Bool
  | .error .recursive => true
  | _ => false

set_option maxRecDepth 100000 in
/-- `r3(v0) <-- r1(v0), m0!(v0);` is answered "recursively defined Ascent macro", by evaluation -/
theorem branching_disjunction_rejected : isRecursive (expandBody ops0 defs false macroDepth {} site) = true := by
  decide +kernel

set_option maxRecDepth 100000 in
/-- `m0!(v0) <-- r1(v0);` likewise -/
theorem branching_head_rejected :
    isRecursive (expandHeads ops0 defs macroDepth [.mac { mac := 0, args := [.ident 0] }]) = true := by decide

set_option maxRecDepth 100000 in
/-- the whole rule (`expandRule`: body, then heads), with the branching macro in the body resp. only in the head -/
theorem branching_rule_rejected :
    isRecursive (expandRule ops0 defs false { heads := [], body := site }) = true ∧
    isRecursive (expandRule ops0 defs false
      { heads := [.mac { mac := 0, args := [.ident 0] }], body := .cons (.flat (.clause 1 [.var 0] [])) .nil }) = true := by
  constructor <;> decide +kernel
end FM8

/-! ## the two statements found false: machine-checked counterexamples

All three use the one-sorted operations `F25.ops0` (an expression is a variable), which satisfy `OpsLaws` and `VarsLaws`. -/

namespace CE
open F25

theorem ops0_opsLaws : OpsLaws ops0 where
  subE_var := fun _ _ => rfl
  subE_comp := fun _ _ _ => rfl
  subB_comp := fun _ _ _ => rfl
  subG_comp := fun _ _ _ => rfl
  subE_id := fun _ => rfl
  subB_id := fun _ => rfl
  subG_id := fun _ => rfl
  subE_congr := by
    intro θ θ' e h
    exact h e (by simp [ops0])

theorem ops0_varsLaws : VarsLaws ops0 varsB0 varsG0 where
  varsE_var := fun _ => rfl
  varsE_sub := by intro θ e v; simp [ops0]
  varsB_sub := by intro θ b v; simp [ops0, varsB0]
  varsG_sub := by intro θ g v; simp [varsG0]
  subB_congr := by
    intro θ θ' b h
    simp only [ops0, varsB0] at *
    rw [h b.1 (by simp), h b.2 (by simp)]
  subG_congr := fun _ _ _ _ => rfl

/-- call site `agg () = f() in r0(v0)` where the relation argument is marked "bound" but is not listed (ill-formed aggregation) -/
def siteA : SItems Var (Var × Var) Unit Unit Unit (MInv Var) :=
  .cons (.flat (.agg { outs := [], fn := (), boundArgs := [], rel := 0, args := [.bound 0] })) .nil

theorem expand_hygienic_false_agg :
    ¬ (match expandBody ops0 ([] : Defs Var (Var × Var) Unit Unit Unit) false 1 {} siteA, idealBody ops0 [] 1 0 siteA with
    | .ok (out, _), .ok (ideal, _) =>
        ∃ τ : Var → Var, (∀ v, v < reservedBase → τ v = v) ∧
          (∀ v ∈ varsItems ops0 varsB0 varsG0 ideal, ∀ w ∈ varsItems ops0 varsB0 varsG0 ideal, τ v = τ w → v = w) ∧
          out = renItems ops0 true τ ideal
    | .error e, .error e' => e = e'
    | _, _ => False) := by
  show ¬ (∃ τ : Var → Var, (∀ v, v < reservedBase → τ v = v) ∧
          (∀ v ∈ varsItems ops0 varsB0 varsG0 siteA, ∀ w ∈ varsItems ops0 varsB0 varsG0 siteA, τ v = τ w → v = w) ∧
          siteA = renItems ops0 true τ siteA)
  rintro ⟨τ, _, _, h⟩
  simp [siteA, renItems, renItem, renFItem] at h

theorem siteA_hyps : HygienicDefs ops0 varsB0 varsG0 ([] : Defs Var (Var × Var) Unit Unit Unit) ∧
    ∀ v ∈ varsItems ops0 varsB0 varsG0 siteA, v < paramBase := by
  constructor
  · intro d hd; cases hd
  · intro v hv
    simp [siteA, varsItems, varsItem, varsFItem, ops0] at hv
    subst hv
    decide

/-- `macro m0($p0: expr) { let $p0 = v0 ; r0(v0) }` -/
def defsB : Defs Var (Var × Var) Unit Unit Unit :=
  [{ params := [.expr], body := .cons (.flat (.clause 0 [.var 0] [])) (.cons (.flat (.cond (.letc paramBase 0))) .nil), heads := [] }]

/-- call site `m0!(v1 + 0)` (an expression argument) -/
def siteB : SItems Var (Var × Var) Unit Unit Unit (MInv Var) :=
  .cons (.mac { mac := 0, args := [.expr 1] }) .nil

theorem siteB_hyps : HygienicDefs ops0 varsB0 varsG0 defsB ∧ ∀ v ∈ varsItems ops0 varsB0 varsG0 siteB, v < paramBase := by
  constructor
  · intro d hd
    simp only [defsB, List.mem_singleton] at hd
    subst hd
    simp [noAggItems, noAggItem, varsItems, varsItem, varsFItem, varsCond, ops0, boundVarsS, boundVarsI, boundVarsF, paramBase]
  · intro v hv
    simp [siteB, varsItems, varsItem, varsMInv, ops0] at hv
    subst hv
    decide

theorem siteB_ideal : idealBody ops0 defsB 2 0 siteB =
    .ok (.cons (.flat (.clause 0 [.var (tagVar 0 0)] [])) (.cons (.flat (.cond (.letc paramBase (tagVar 0 0)))) .nil), 1) := by
  rfl

theorem ideal_vars_false :
    ¬ (∀ v ∈ varsItems ops0 varsB0 varsG0 (.cons (.flat (.clause 0 [.var (tagVar 0 0)] [])) (.cons (.flat (.cond (.letc paramBase (tagVar 0 0)))) .nil) :
          SItems Var (Var × Var) Unit Unit Unit (MInv Var)),
        v < paramBase ∨ ∃ j x, 0 ≤ j ∧ j < 1 ∧ x < paramBase ∧ v = tagVar j x) := by
  intro h
  have := h paramBase (by simp [varsItems, varsItem, varsFItem, varsCond])
  rcases this with h | ⟨j, x, _, _, _, h⟩
  · exact absurd h (by decide)
  · have := tagVar_ge j x
    rw [← h] at this
    exact absurd this (by decide)


/-- `macro m0($p0: expr, .., $p8104: expr) { r0(v0), let $p8104 = v0 }`, `macro m1() { r0(v0) }`: parameter number 8104 is the
variable `900 + 8104 = 9004 = tagVar 1 0` -/
def defsC : Defs Var (Var × Var) Unit Unit Unit :=
  [{ params := List.replicate 8105 .expr,
     body := .cons (.flat (.clause 0 [.var 0] [])) (.cons (.flat (.cond (.letc (paramBase + 8104) 0))) .nil), heads := [] },
   { params := [], body := .cons (.flat (.clause 0 [.var 0] [])) .nil, heads := [] }]

def siteC : SItems Var (Var × Var) Unit Unit Unit (MInv Var) :=
  .cons (.mac { mac := 0, args := List.replicate 8105 (.expr 1) }) (.cons (.mac { mac := 1, args := [] }) .nil)

set_option maxRecDepth 100000 in
theorem siteC_impl : expandBody ops0 defsC false 2 {} siteC =
    .ok (.cons (.flat (.clause 0 [.var (gsMac 0)] [])) (.cons (.flat (.cond (.letc 9004 (gsMac 0))))
          (.cons (.flat (.clause 0 [.var (gsMac 1)] [])) .nil)), { inv := 2, gs := 2 }) := by
  rfl

set_option maxRecDepth 100000 in
theorem siteC_ideal : idealBody ops0 defsC 2 0 siteC =
    .ok (.cons (.flat (.clause 0 [.var (tagVar 0 0)] [])) (.cons (.flat (.cond (.letc 9004 (tagVar 0 0))))
          (.cons (.flat (.clause 0 [.var 9004] [])) .nil)), 2) := by
  rfl

theorem siteC_hyps : HygienicDefs ops0 varsB0 varsG0 defsC ∧ (∀ v ∈ varsItems ops0 varsB0 varsG0 siteC, v < paramBase) := by
  constructor
  · intro d hd
    simp only [defsC, List.mem_cons, List.not_mem_nil, or_false] at hd
    rcases hd with rfl | rfl
    · refine ⟨rfl, ?_, ?_⟩
      · intro v hv
        simp only [varsItems, varsItem, varsFItem, varsCond, ops0, List.flatMap_cons, List.flatMap_nil, List.append_nil,
          List.mem_append, List.mem_cons, List.not_mem_nil, or_false, List.length_replicate] at hv ⊢
        rcases hv with rfl | rfl | rfl <;> decide
      · intro v hv hp
        simp only [varsItems, varsItem, varsFItem, varsCond, ops0, List.flatMap_cons, List.flatMap_nil, List.append_nil,
          List.mem_append, List.mem_cons, List.not_mem_nil, or_false] at hv
        rcases hv with rfl | rfl | rfl
        · simp [boundVarsS, boundVarsI, boundVarsF]
        · exact absurd hp (by decide)
        · simp [boundVarsS, boundVarsI, boundVarsF]
    · simp [noAggItems, noAggItem, varsItems, varsItem, varsFItem, ops0, boundVarsS, boundVarsI, boundVarsF, paramBase]
  · intro v hv
    simp only [siteC, varsItems, varsItem, varsMInv, ops0, List.mem_append, List.mem_flatMap, List.mem_replicate,
      List.not_mem_nil, or_false, false_and, exists_false] at hv
    obtain ⟨a, ⟨_, rfl⟩, hv⟩ := hv
    simp only [List.mem_singleton] at hv
    subst hv
    decide

theorem expand_hygienic_false_params :
    ¬ (match expandBody ops0 defsC false 2 {} siteC, idealBody ops0 defsC 2 0 siteC with
    | .ok (out, _), .ok (ideal, _) =>
        ∃ τ : Var → Var, (∀ v, v < reservedBase → τ v = v) ∧
          (∀ v ∈ varsItems ops0 varsB0 varsG0 ideal, ∀ w ∈ varsItems ops0 varsB0 varsG0 ideal, τ v = τ w → v = w) ∧
          out = renItems ops0 true τ ideal
    | .error e, .error e' => e = e'
    | _, _ => False) := by
  rw [siteC_impl, siteC_ideal]
  rintro ⟨τ, _, _, h⟩
  simp only [renItems, renItem, renFItem, renSArg, renCond, renE, ops0, List.map, SItems.cons.injEq, SItem.flat.injEq,
    FItem.clause.injEq, FItem.cond.injEq, Cond.letc.injEq, List.cons.injEq, SArg.var.injEq, and_true, true_and] at h
  obtain ⟨_, ⟨h1, _⟩, h2⟩ := h
  rw [← h1] at h2
  exact absurd h2 (by decide)

/-! ### the hypotheses of `expand_hygienic` are satisfiable: F25's macro as it is (attached condition), and with its condition
as a separate item -/

theorem f25_hyps : HygienicDefs ops0 varsB0 varsG0 F25.defs ∧ (∀ d ∈ F25.defs, paramBase + d.params.length ≤ reservedBase) ∧
    (∀ v ∈ varsItems ops0 varsB0 varsG0 site, v < paramBase) ∧ aggOkItems site := by
  refine ⟨?_, ?_, ?_, ?_⟩
  · intro d hd
    simp only [F25.defs, List.mem_singleton] at hd
    subst hd
    simp [noAggItems, noAggItem, varsItems, varsItem, varsFItem, varsCond, varsB0, ops0, boundVarsS, boundVarsI, boundVarsF, paramBase]
  · intro d hd
    simp only [F25.defs, List.mem_singleton] at hd
    subst hd
    decide
  · intro v hv
    simp [site, varsItems, varsItem, varsFItem, varsMInv, ops0] at hv
    rcases hv with rfl | rfl <;> decide
  · simp [site, aggOkItems, aggOkItem, aggOkF]

/-- the former F25 program is an instance of `expand_hygienic` (macro body with an attached condition) -/
theorem f25_by_theorem :
    ∃ τ : Var → Var, (∀ v, v < reservedBase → τ v = v) ∧
      (∀ v ∈ varsItems ops0 varsB0 varsG0 (.cons (.flat (.clause 1 [.var 0] []))
          (.cons (.flat (.clause 0 [.var (tagVar 0 0), .var 1] [.ifc (tagVar 0 0, tagVar 0 0)])) .nil) : SItems Var (Var × Var) Unit Unit Unit (MInv Var)),
        ∀ w ∈ varsItems ops0 varsB0 varsG0 (.cons (.flat (.clause 1 [.var 0] []))
          (.cons (.flat (.clause 0 [.var (tagVar 0 0), .var 1] [.ifc (tagVar 0 0, tagVar 0 0)])) .nil) : SItems Var (Var × Var) Unit Unit Unit (MInv Var)),
        τ v = τ w → v = w) ∧
      (.cons (.flat (.clause 1 [.var 0] [])) (.cons (.flat (.clause 0 [.var (gsMac 0), .var 1] [.ifc (gsMac 0, gsMac 0)])) .nil)
          : SItems Var (Var × Var) Unit Unit Unit (MInv Var)) =
        renItems ops0 true τ (.cons (.flat (.clause 1 [.var 0] []))
          (.cons (.flat (.clause 0 [.var (tagVar 0 0), .var 1] [.ifc (tagVar 0 0, tagVar 0 0)])) .nil)) := by
  have h := expand_hygienic ops0 ops0_opsLaws ops0_varsLaws F25.defs f25_hyps.1 f25_hyps.2.1 site f25_hyps.2.2.1 f25_hyps.2.2.2 macroDepth
  rw [f25_fixed, f25_ideal] at h
  exact h

/-- `macro m0($p0: ident) { r0(v0, $p0), if v0 == v0 }` -/
def defsOk : Defs Var (Var × Var) Unit Unit Unit :=
  [{ params := [.ident], body := .cons (.flat (.clause 0 [.var 0, .var paramBase] [])) (.cons (.flat (.cond (.ifc (0, 0)))) .nil), heads := [] }]

theorem defsOk_hyps : HygienicDefs ops0 varsB0 varsG0 defsOk ∧ (∀ d ∈ defsOk, paramBase + d.params.length ≤ reservedBase) ∧
    (∀ v ∈ varsItems ops0 varsB0 varsG0 site, v < paramBase) ∧ aggOkItems site := by
  refine ⟨?_, ?_, ?_, ?_⟩
  · intro d hd
    simp only [defsOk, List.mem_singleton] at hd
    subst hd
    simp [noAggItems, noAggItem, varsItems, varsItem, varsFItem, varsCond, varsB0, ops0, boundVarsS, boundVarsI, boundVarsF, paramBase]
  · intro d hd
    simp only [defsOk, List.mem_singleton] at hd
    subst hd
    decide
  · intro v hv
    simp [site, varsItems, varsItem, varsFItem, varsMInv, ops0] at hv
    rcases hv with rfl | rfl <;> decide
  · simp [site, aggOkItems, aggOkItem, aggOkF]

/-- with the condition as a separate item the macro-local `v0` is renamed everywhere as well (compare `F25.f25_fixed`) -/
theorem defsOk_expand :
    expandBody ops0 defsOk false macroDepth {} site =
      .ok (.cons (.flat (.clause 1 [.var 0] [])) (.cons (.flat (.clause 0 [.var (gsMac 0), .var 1] []))
            (.cons (.flat (.cond (.ifc (gsMac 0, gsMac 0)))) .nil)), { inv := 1, gs := 1 }) := by
  rfl

end CE

end AscentVerif.Surface

section axioms_check
open AscentVerif.Surface
#print axioms tagVar_ge
#print axioms tagVar_inj
#print axioms untag?_tagVar
#print axioms gensyms_disjoint
#print axioms stdOps_opsLaws
#print axioms stdOps_varsLaws
#print axioms hyg_body
#print axioms expand_hygienic
#print axioms ideal_vars
#print axioms expandBody_total
#print axioms recursive_rejected
#print axioms recursive_rejected_msg
#print axioms expandBody_mono
#print axioms recursive_rejected_heads
#print axioms F25.f25_fixed
#print axioms F25.f25_ideal
#print axioms F25.f25_hygienic
#print axioms FM8.branching_disjunction_rejected
#print axioms FM8.branching_head_rejected
#print axioms FM8.branching_rule_rejected
#print axioms CE.f25_hyps
#print axioms CE.f25_by_theorem
#print axioms CE.expand_hygienic_false_agg
#print axioms CE.siteA_hyps
#print axioms CE.expand_hygienic_false_params
#print axioms CE.siteC_hyps
#print axioms CE.ideal_vars_false
#print axioms CE.siteB_hyps
#print axioms CE.siteB_ideal
#print axioms CE.defsOk_hyps
#print axioms CE.defsOk_expand
end axioms_check
