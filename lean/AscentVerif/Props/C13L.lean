import AscentVerif.Props.C03
import AscentVerif.Props.C14
import AscentVerif.Proofs.LatFrom
import AscentVerif.Proofs.LatFromQuiet
import AscentVerif.Proofs.LatFromIdem
/-!
# C13 / C14 for programs with lattice relations (serial, aggregation-free)

C03's theorems start from a fresh program value.  Re-runs and resumption after `run_timeout`
start from an arbitrary well-formed value with one row per lattice key.  This file generalises
C03 to such start values and derives: `run()` is idempotent on lattice programs, a timed-out
`run_timeout` leaves a state below the fixed point that keeps every input, and completing
afterwards reaches exactly the same least fixed point.  All statements are proved.
-/
namespace AscentVerif.Engine
open AscentVerif

variable {E B G P A : Type}

/-- a start value for lattice programs: well-formed, and every lattice relation has pairwise distinct keys -/
def WFLat (p : Program E B G P A) (s : St) : Prop :=
  WFSt p s ∧ ∀ r, r < p.rels.length → (declOf p r).lat = true → ((relSt s r).rows.map keyOf).Nodup

/-- C03 from any such value: one row per key, closed, and least above the start value's facts -/
theorem run_lattice_from (I : Interp E B G P A) (L : LatOrder I) (p : Program E B G P A) (order : SccOrder)
    (s : St) (fuel : Nat) (ps : ProgSt)
    (hp : LatticeProg p) (ho : validOrder p order = true) (hs : WFLat p s)
    (hrun : run I {} p order fuel s = .done ps) :
    WFLat p ps.st ∧ LClosed I L p (stDB p s) (factsOf ps.st) ∧
    (MonotoneProg I L p → ∀ M : DB, KeyUnique p M → LClosed I L p (stDB p s) M → DBLe I L p (factsOf ps.st) M) := by
  obtain ⟨h1, h2, h3⟩ := run_from_spec (L := L) hp.1 hp.2.1 order ho never fuel s ps hs.1 hs.2 hrun
  exact ⟨⟨h1.lsinv.wfSt, fun r _ hl => h1.keys r hl⟩, ⟨h3, h2⟩, fun hm M hMk hM => h1.below M ⟨hm, hMk, hM⟩⟩

/-- **idempotence with lattices**: a second `run()` on an unmodified value changes no row (no tuple appended,
no lattice value moved), for orders that are antisymmetric -/
theorem lattice_rerun_idempotent (I : Interp E B G P A) (L : LatOrder I)
    (hanti : ∀ r a b, L.le r a b → L.le r b a → a = b)
    (p : Program E B G P A) (order : SccOrder) (s : St) (fuel₁ fuel₂ : Nat) (ps₁ ps₂ : ProgSt)
    (hp : LatticeProg p) (ho : validOrder p order = true) (hs : WFLat p s)
    (h₁ : run I {} p order fuel₁ s = .done ps₁) (h₂ : run I {} p order fuel₂ ps₁.st = .done ps₂) :
    ∀ r, r < p.rels.length → (relSt ps₂.st r).rows = (relSt ps₁.st r).rows := by
  obtain ⟨h1, h2, _⟩ := run_from_spec (L := L) hp.1 hp.2.1 order ho never fuel₁ s ps₁ hs.1 hs.2 h₁
  have hne : ∀ r ∈ p.rules, ∀ h ∈ r.heads, (declOf p h.rel).lat = true → h.args ≠ [] := by
    intro r hr h hh hl h0
    have hlt := hp.2.1 r hr h hh
    have hmem : declOf p h.rel ∈ p.rels := by
      unfold declOf
      rw [List.getD_eq_getElem?_getD, List.getElem?_eq_getElem hlt]
      exact List.getElem_mem hlt
    have hpos := hp.2.2.1 _ hmem hl
    have hlen := hp.2.2.2 r hr h hh
    rw [h0] at hlen
    simp at hlen
    omega
  have hq := run_from_quiet (L := L) hp.1 hp.2.1 hne order ho never fuel₁ s ps₁ hs.1 hs.2 h₁
  intro r _
  exact run_same hanti hp.1 hp.2.1 order never fuel₂ ps₁.st ps₂ h1.lsinv.wfSt (fun r _ hl => h1.keys r hl)
    h2 hq h₂ r

/-- **run_timeout with lattices, any deadline**: whatever it returns, the value is a legal start value again,
dominates the start value (no input lost, no lattice value lowered) and — for monotone programs — is below
every closed database, i.e. below the final fixed point -/
theorem lattice_timeout_sound (I : Interp E B G P A) (L : LatOrder I) (p : Program E B G P A) (order : SccOrder)
    (dl : Deadline) (s : St) (fuel : Nat) (ps : ProgSt)
    (hp : LatticeProg p) (ho : validOrder p order = true) (hs : WFLat p s)
    (hrun : runTimeout I {} p order dl fuel s = .done ps ∨ runTimeout I {} p order dl fuel s = .timedOut ps) :
    WFLat p ps.st ∧ DBLe I L p (stDB p s) (factsOf ps.st) ∧
    (MonotoneProg I L p → ∀ M : DB, KeyUnique p M → LClosed I L p (stDB p s) M → DBLe I L p (factsOf ps.st) M) := by
  obtain ⟨h1, h2⟩ := runTimeout_lat (L := L) hp.1 hp.2.1 order ho dl fuel s ps hs.1 hs.2 hrun
  exact ⟨⟨h1.wfSt, fun r _ hl => h1.keys r hl⟩, h2, fun hm M hMk hM => h1.below M ⟨hm, hMk, hM⟩⟩

/-- **resumption with lattices**: after an interrupted call, a completing `run()` is closed and least above the
ORIGINAL start value: exactly the fixed point an uninterrupted run is characterised by (`run_lattice_from`) -/
theorem lattice_resume_complete (I : Interp E B G P A) (L : LatOrder I) (p : Program E B G P A) (order : SccOrder)
    (dl : Deadline) (s : St) (fuel₁ fuel₂ : Nat) (mid ps : ProgSt)
    (hp : LatticeProg p) (ho : validOrder p order = true) (hs : WFLat p s) (hm : MonotoneProg I L p)
    (h₁ : runTimeout I {} p order dl fuel₁ s = .timedOut mid)
    (h₂ : run I {} p order fuel₂ mid.st = .done ps) :
    LClosed I L p (stDB p s) (factsOf ps.st) ∧
    (∀ M : DB, KeyUnique p M → LClosed I L p (stDB p s) M → DBLe I L p (factsOf ps.st) M) := by
  obtain ⟨hw, hle, hbelow⟩ := lattice_timeout_sound I L p order dl s fuel₁ mid hp ho hs (Or.inr h₁)
  obtain ⟨_, hcl, hleast⟩ := run_lattice_from I L p order mid.st fuel₂ ps hp ho hw h₂
  have hmid : DBLe I L p (factsOf mid.st) (stDB p mid.st) := by
    intro f hf
    apply Dominated.of_mem
    have := lt_of_mem_rows mid.st f.rel f.args hf
    rw [hw.1.1] at this
    exact ⟨this, hf⟩
  refine ⟨⟨DBLe.trans hle (DBLe.trans hmid hcl.1), hcl.2⟩, ?_⟩
  intro M hMk hM
  refine hleast hm M hMk ⟨?_, hM.2⟩
  intro f hf
  exact hbelow hm M hMk hM f hf.2

/-! ## axiom audit -/
#print axioms run_lattice_from
#print axioms lattice_rerun_idempotent
#print axioms lattice_timeout_sound
#print axioms lattice_resume_complete

end AscentVerif.Engine
