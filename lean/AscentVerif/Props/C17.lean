import AscentVerif.Model.Aggregators
/-!
# C17 — library aggregators compute their mathematical definition and are total

Theorems about `Model/Aggregators.lean` for **every** finite list of inputs (the order in
which a hash index hands the tuples to the aggregator is arbitrary, hence the permutation
theorems), every honest `size_hint`, and every rational `p ∈ [0, 100]`.
-/
namespace AscentVerif.Agg

/-! ## min / max -/

private def minStep (acc : Option Int) (y : Int) : Option Int :=
  match acc with
  | none => some y
  | some x => some (if y < x then y else x)

private theorem foldl_minStep_some (l : List Int) (a : Int) :
    ∃ m, l.foldl minStep (some a) = some m ∧ (m = a ∨ m ∈ l) ∧ m ≤ a ∧ ∀ x ∈ l, m ≤ x := by
  induction l generalizing a with
  | nil => exact ⟨a, rfl, Or.inl rfl, Int.le_refl _, by simp⟩
  | cons y ys ih =>
    simp only [List.foldl_cons, minStep]
    obtain ⟨m, hm, hmem, hle, hall⟩ := ih (if y < a then y else a)
    refine ⟨m, hm, ?_, ?_, ?_⟩
    · rcases hmem with h | h
      · by_cases hy : y < a
        · simp [hy] at h; right; simp [h]
        · simp [hy] at h; left; exact h
      · right; simp [h]
    · by_cases hy : y < a
      · simp [hy] at hle; omega
      · simpa [hy] using hle
    · intro x hx
      rcases List.mem_cons.mp hx with rfl | hx
      · by_cases hy : x < a
        · simpa [hy] using hle
        · simp [hy] at hle; omega
      · exact hall x hx

theorem aggMin_nil : aggMin [] = none := rfl

/-- `min` yields nothing exactly on empty input -/
theorem aggMin_eq_none_iff (l : List Int) : aggMin l = none ↔ l = [] := by
  cases l with
  | nil => simp [aggMin]
  | cons a as =>
    obtain ⟨m, hm, -⟩ := foldl_minStep_some as a
    simp [aggMin, List.foldl_cons]
    show List.foldl minStep (some a) as ≠ none
    simp [hm]

/-- `min` returns a member of the input that is a lower bound of the input -/
theorem aggMin_spec {l : List Int} {m : Int} (h : aggMin l = some m) :
    m ∈ l ∧ ∀ x ∈ l, m ≤ x := by
  cases l with
  | nil => simp [aggMin] at h
  | cons a as =>
    obtain ⟨m', hm, hmem, hle, hall⟩ := foldl_minStep_some as a
    have : m = m' := by
      have h' : List.foldl minStep (some a) as = some m := h
      rw [hm] at h'; exact (Option.some.inj h').symm
    subst this
    refine ⟨?_, ?_⟩
    · rcases hmem with h1 | h1
      · simp [h1]
      · simp [h1]
    · intro x hx
      rcases List.mem_cons.mp hx with rfl | hx
      · exact hle
      · exact hall x hx

/-- the minimum does not depend on the order of the inputs -/
theorem aggMin_perm {l l' : List Int} (hp : l.Perm l') : aggMin l = aggMin l' := by
  cases h : aggMin l with
  | none =>
    have := (aggMin_eq_none_iff l).mp h; subst this
    have : l' = [] := by simpa using hp.symm.eq_nil
    simp [this, aggMin_nil]
  | some m =>
    cases h' : aggMin l' with
    | none =>
      have := (aggMin_eq_none_iff l').mp h'; subst this
      have : l = [] := hp.eq_nil
      subst this; simp [aggMin_nil] at h
    | some m' =>
      obtain ⟨hm, hall⟩ := aggMin_spec h
      obtain ⟨hm', hall'⟩ := aggMin_spec h'
      have h1 := hall m' (hp.symm.subset hm')
      have h2 := hall' m (hp.subset hm)
      congr 1; omega

private def maxStep (acc : Option Int) (y : Int) : Option Int :=
  match acc with
  | none => some y
  | some x => some (if y < x then x else y)

private theorem foldl_maxStep_some (l : List Int) (a : Int) :
    ∃ m, l.foldl maxStep (some a) = some m ∧ (m = a ∨ m ∈ l) ∧ a ≤ m ∧ ∀ x ∈ l, x ≤ m := by
  induction l generalizing a with
  | nil => exact ⟨a, rfl, Or.inl rfl, Int.le_refl _, by simp⟩
  | cons y ys ih =>
    simp only [List.foldl_cons, maxStep]
    obtain ⟨m, hm, hmem, hle, hall⟩ := ih (if y < a then a else y)
    refine ⟨m, hm, ?_, ?_, ?_⟩
    · rcases hmem with h | h
      · by_cases hy : y < a
        · simp [hy] at h; left; exact h
        · simp [hy] at h; right; simp [h]
      · right; simp [h]
    · by_cases hy : y < a
      · simpa [hy] using hle
      · simp [hy] at hle; omega
    · intro x hx
      rcases List.mem_cons.mp hx with rfl | hx
      · by_cases hy : x < a
        · simp [hy] at hle; omega
        · simpa [hy] using hle
      · exact hall x hx

theorem aggMax_eq_none_iff (l : List Int) : aggMax l = none ↔ l = [] := by
  cases l with
  | nil => simp [aggMax]
  | cons a as =>
    obtain ⟨m, hm, -⟩ := foldl_maxStep_some as a
    simp [aggMax, List.foldl_cons]
    show List.foldl maxStep (some a) as ≠ none
    simp [hm]

/-- `max` returns a member of the input that is an upper bound of the input -/
theorem aggMax_spec {l : List Int} {m : Int} (h : aggMax l = some m) :
    m ∈ l ∧ ∀ x ∈ l, x ≤ m := by
  cases l with
  | nil => simp [aggMax] at h
  | cons a as =>
    obtain ⟨m', hm, hmem, hle, hall⟩ := foldl_maxStep_some as a
    have : m = m' := by
      have h' : List.foldl maxStep (some a) as = some m := h
      rw [hm] at h'; exact (Option.some.inj h').symm
    subst this
    refine ⟨?_, ?_⟩
    · rcases hmem with h1 | h1
      · simp [h1]
      · simp [h1]
    · intro x hx
      rcases List.mem_cons.mp hx with rfl | hx
      · exact hle
      · exact hall x hx

theorem aggMax_perm {l l' : List Int} (hp : l.Perm l') : aggMax l = aggMax l' := by
  cases h : aggMax l with
  | none =>
    have := (aggMax_eq_none_iff l).mp h; subst this
    have : l' = [] := by simpa using hp.symm.eq_nil
    simp [this, aggMax]
  | some m =>
    cases h' : aggMax l' with
    | none =>
      have := (aggMax_eq_none_iff l').mp h'; subst this
      have : l = [] := hp.eq_nil
      subst this; simp [aggMax] at h
    | some m' =>
      obtain ⟨hm, hall⟩ := aggMax_spec h
      obtain ⟨hm', hall'⟩ := aggMax_spec h'
      have h1 := hall m' (hp.symm.subset hm')
      have h2 := hall' m (hp.subset hm)
      congr 1; omega

/-! ## sum, count, mean, not -/

private theorem foldl_add (l : List Int) (a : Int) : l.foldl (· + ·) a = a + l.sum := by
  induction l generalizing a with
  | nil => simp
  | cons x xs ih => simp [List.foldl_cons, ih]; omega

/-- `sum` is the sum of the inputs (zero on empty input) -/
theorem aggSum_eq_sum (l : List Int) : aggSum l = l.sum := by
  simp [aggSum, foldl_add]

theorem aggSum_nil : aggSum [] = 0 := rfl

theorem aggSum_perm {l l' : List Int} (hp : l.Perm l') : aggSum l = aggSum l' := by
  rw [aggSum_eq_sum, aggSum_eq_sum]
  induction hp with
  | nil => rfl
  | cons x _ ih => simp [ih]
  | swap x y l => simp; omega
  | trans _ _ ih1 ih2 => exact ih1.trans ih2

/-- `count` returns the number of inputs for **every** honest `size_hint`, in particular
when it takes the `floor == ceiling` shortcut without consuming the iterator -/
theorem aggCount_eq_len (it : UnitIter) (h : it.Honest) : aggCount it = it.len := by
  obtain ⟨hlo, hhi⟩ := h
  unfold aggCount
  cases hh : it.hi with
  | none => rfl
  | some hv =>
    have := hhi hv hh
    by_cases he : it.lo = hv
    · simp [he]; omega
    · simp [he]

/-- `mean`: nothing on empty input, otherwise the exact fraction sum / cardinality -/
theorem aggMean_eq_none_iff (l : List Int) : aggMean l = none ↔ l = [] := by
  unfold aggMean; cases l <;> simp

theorem aggMean_spec {l : List Int} {s : Int} {n : Nat} (h : aggMean l = some (s, n)) :
    s = l.sum ∧ n = l.length ∧ 0 < n := by
  unfold aggMean at h
  by_cases hl : l.length = 0
  · simp [hl] at h
  · simp [hl, aggSum_eq_sum] at h
    omega

theorem aggMean_perm {l l' : List Int} (hp : l.Perm l') : aggMean l = aggMean l' := by
  unfold aggMean; rw [aggSum_perm hp, hp.length_eq]

/-- `not()` yields one unit exactly when there is no input -/
theorem aggNot_spec (n : Nat) : aggNot n = (if n = 0 then [()] else []) := rfl
theorem aggNot_length (n : Nat) : (aggNot n).length = 1 ↔ n = 0 := by
  unfold aggNot; by_cases h : n = 0 <;> simp [h]

/-! ## percentile -/

theorem insertSorted_perm (x : Int) (l : List Int) : (insertSorted x l).Perm (x :: l) := by
  induction l with
  | nil => simp [insertSorted]
  | cons y ys ih =>
    simp only [insertSorted]
    by_cases h : x ≤ y
    · simp [h]
    · simp only [h, if_false]
      exact (List.Perm.cons y ih).trans (List.Perm.swap x y ys)

theorem sortInts_perm (l : List Int) : (sortInts l).Perm l := by
  induction l with
  | nil => simp [sortInts]
  | cons x xs ih =>
    show (insertSorted x (sortInts xs)).Perm (x :: xs)
    exact (insertSorted_perm x _).trans (List.Perm.cons x ih)

theorem sortInts_length (l : List Int) : (sortInts l).length = l.length :=
  (sortInts_perm l).length_eq

theorem insertSorted_sorted (x : Int) (l : List Int) (h : l.Pairwise (· ≤ ·)) :
    (insertSorted x l).Pairwise (· ≤ ·) := by
  induction l with
  | nil => simp [insertSorted]
  | cons y ys ih =>
    simp only [insertSorted]
    rw [List.pairwise_cons] at h
    by_cases hxy : x ≤ y
    · simp only [hxy, if_true]
      refine List.pairwise_cons.mpr ⟨?_, List.pairwise_cons.mpr h⟩
      intro z hz
      rcases List.mem_cons.mp hz with rfl | hz
      · exact hxy
      · exact Int.le_trans hxy (h.1 z hz)
    · simp only [hxy, if_false]
      refine List.pairwise_cons.mpr ⟨?_, ih h.2⟩
      intro z hz
      have := (insertSorted_perm x ys).subset hz
      rcases List.mem_cons.mp this with rfl | hz'
      · omega
      · exact h.1 z hz'

theorem sortInts_sorted (l : List Int) : (sortInts l).Pairwise (· ≤ ·) := by
  induction l with
  | nil => simp [sortInts]
  | cons x xs ih => exact insertSorted_sorted x _ ih

/-- two sorted permutations of one another are equal: the sorted vector, hence the
percentile, is a function of the input *multiset* -/
theorem sorted_perm_eq : ∀ {l l' : List Int}, l.Perm l' → l.Pairwise (· ≤ ·) → l'.Pairwise (· ≤ ·) → l = l'
  | [], l', hp, _, _ => by simpa using hp.symm.eq_nil.symm
  | a :: as, [], hp, _, _ => by simpa using hp.eq_nil
  | a :: as, b :: bs, hp, h1, h2 => by
    rw [List.pairwise_cons] at h1 h2
    have hab : a = b := by
      have ha : a ∈ b :: bs := hp.subset (by simp)
      have hb : b ∈ a :: as := hp.symm.subset (by simp)
      rcases List.mem_cons.mp ha with h | h
      · exact h
      · rcases List.mem_cons.mp hb with h' | h'
        · exact h'.symm
        · have := h1.1 b h'; have := h2.1 a h; omega
    subst hab
    rw [sorted_perm_eq (List.Perm.cons_inv hp) h1.2 h2.2]

theorem sortInts_congr {l l' : List Int} (hp : l.Perm l') : sortInts l = sortInts l' :=
  sorted_perm_eq (((sortInts_perm l).trans hp).trans (sortInts_perm l').symm)
    (sortInts_sorted l) (sortInts_sorted l')

/-- the clamped index is always in range on non-empty input — **no panic for any `p`** -/
theorem pIndex_lt (len pnum pden : Nat) (h : 0 < len) : pIndex len pnum pden < len := by
  unfold pIndex; omega

/-- for `p < 100` the clamp is inactive whenever ... the raw index is already in range -/
theorem pIndexRaw_lt (len pnum pden : Nat) (_hden : 0 < pden) (hp : pnum < 100 * pden) (h : 0 < len) :
    pIndexRaw len pnum pden < len := by
  unfold pIndexRaw
  apply Nat.div_lt_of_lt_mul
  calc len * pnum < len * (100 * pden) := Nat.mul_lt_mul_of_pos_left hp h
    _ = 100 * pden * len := Nat.mul_comm _ _

theorem pIndexRaw_hundred (len pden : Nat) (hden : 0 < pden) : pIndexRaw len (100 * pden) pden = len := by
  unfold pIndexRaw
  rw [Nat.mul_comm len]; exact Nat.mul_div_cancel_left len (by omega)

/-- `p ≤ 100` never needs more than the clamp to `len - 1` -/
theorem pIndex_eq_raw_of_lt (len pnum pden : Nat) (hden : 0 < pden) (hp : pnum < 100 * pden) (h : 0 < len) :
    pIndex len pnum pden = pIndexRaw len pnum pden := by
  have := pIndexRaw_lt len pnum pden hden hp h
  unfold pIndex; omega

/-- the rank rises with `p` -/
theorem pIndex_mono (len pden : Nat) {p q : Nat} (h : p ≤ q) : pIndex len p pden ≤ pIndex len q pden := by
  unfold pIndex pIndexRaw
  have : len * p / (100 * pden) ≤ len * q / (100 * pden) :=
    Nat.div_le_div_right (Nat.mul_le_mul_left len h)
  omega

theorem aggPercentile_eq_none_iff (pnum pden : Nat) (l : List Int) :
    aggPercentile pnum pden l = none ↔ l = [] := by
  unfold aggPercentile
  simp only [sortInts_length]
  cases l with
  | nil => simp
  | cons a as =>
    have hlt := pIndex_lt (a :: as).length pnum pden (by simp)
    have hsl : (sortInts (a :: as)).length = as.length + 1 := by simp [sortInts_length]
    simp only [List.length_cons] at hlt
    simp [hsl]
    omega

/-- **percentile, total and of the prescribed rank**: on non-empty input, for every `p`
(in particular `p = 100`), the result is the element of rank `pIndex` of the sorted input:
it is a member of the input, at least `idx + 1` inputs are `≤` it (those at sorted
positions `0..idx`) and all inputs at sorted positions `≥ idx` are `≥` it. -/
theorem aggPercentile_spec (pnum pden : Nat) (l : List Int) (hl : l ≠ []) :
    ∃ x, aggPercentile pnum pden l = some x ∧ x ∈ l ∧
      (sortInts l)[pIndex l.length pnum pden]? = some x ∧
      (∀ j y, j ≤ pIndex l.length pnum pden → (sortInts l)[j]? = some y → y ≤ x) ∧
      (∀ j y, pIndex l.length pnum pden ≤ j → (sortInts l)[j]? = some y → x ≤ y) := by
  have hlen : 0 < l.length := List.length_pos_iff.mpr hl
  have hidx := pIndex_lt l.length pnum pden hlen
  have hsl := sortInts_length l
  have hidx' : pIndex l.length pnum pden < (sortInts l).length := by omega
  refine ⟨(sortInts l)[pIndex l.length pnum pden], ?_, ?_, ?_, ?_, ?_⟩
  · unfold aggPercentile
    simp only [hsl]
    have : ¬ l.length = 0 := by omega
    simp [this, hidx']
  · exact (sortInts_perm l).subset (List.getElem_mem _)
  · simp [hidx']
  · intro j y hj hy
    have hs := sortInts_sorted l
    rw [List.getElem?_eq_some_iff] at hy
    obtain ⟨hjlt, rfl⟩ := hy
    rcases Nat.lt_or_eq_of_le hj with hlt | heq
    · exact (List.pairwise_iff_getElem.mp hs) j _ hjlt hidx' hlt
    · subst heq; exact Int.le_refl _
  · intro j y hj hy
    have hs := sortInts_sorted l
    rw [List.getElem?_eq_some_iff] at hy
    obtain ⟨hjlt, rfl⟩ := hy
    rcases Nat.lt_or_eq_of_le hj with hlt | heq
    · exact (List.pairwise_iff_getElem.mp hs) _ j hidx' hjlt hlt
    · simp [heq]

/-- the percentile depends only on the multiset of inputs -/
theorem aggPercentile_perm (pnum pden : Nat) {l l' : List Int} (hp : l.Perm l') :
    aggPercentile pnum pden l = aggPercentile pnum pden l' := by
  unfold aggPercentile; rw [sortInts_congr hp]

/-- end points: `p = 0` is the minimum, `p = 100` the maximum -/
theorem aggPercentile_zero (pden : Nat) (l : List Int) : aggPercentile 0 pden l = (sortInts l)[0]? := by
  unfold aggPercentile pIndex pIndexRaw
  cases h : sortInts l with
  | nil => simp
  | cons a as => simp

theorem aggPercentile_hundred (pden : Nat) (hden : 0 < pden) (l : List Int) (hl : l ≠ []) :
    aggPercentile (100 * pden) pden l = (sortInts l)[l.length - 1]? := by
  have hlen : 0 < l.length := List.length_pos_iff.mpr hl
  unfold aggPercentile pIndex
  rw [pIndexRaw_hundred _ _ hden, sortInts_length]
  have : ¬ l.length = 0 := by omega
  simp [this]

/-- Finding F1 (pre-fix code): with the un-clamped index `percentile(100.0)` panics on
**every** non-empty input. Kept as the regression statement for the `fix:` commit. -/
theorem prefix_percentile_hundred_panics (pden : Nat) (hden : 0 < pden) (l : List Int) (hl : l ≠ []) :
    aggPercentilePreFix (100 * pden) pden l = .panic := by
  have hlen : 0 < l.length := List.length_pos_iff.mpr hl
  unfold aggPercentilePreFix
  rw [pIndexRaw_hundred _ _ hden, sortInts_length]
  have : ¬ l.length = 0 := by omega
  simp [this]
  have : (sortInts l)[l.length]? = none := by simp [sortInts_length]
  rw [this]

/-- for `p < 100` the pre-fix and the fixed code agree -/
theorem prefix_agrees_below_hundred (pnum pden : Nat) (hden : 0 < pden) (hp : pnum < 100 * pden) (l : List Int) :
    aggPercentilePreFix pnum pden l = .ok (aggPercentile pnum pden l) := by
  unfold aggPercentilePreFix aggPercentile
  by_cases hl : (sortInts l).length = 0
  · simp [hl]
  · have hpos : 0 < (sortInts l).length := by omega
    rw [pIndex_eq_raw_of_lt _ _ _ hden hp hpos]
    have hlt := pIndexRaw_lt _ pnum pden hden hp hpos
    simp [hl, hlt]

/-! ## non-vacuity: concrete instances of every hypothesis used above -/
example : aggMin [3, 1, 2] = some 1 ∧ aggMax [3, 1, 2] = some 3 ∧ aggSum [3, 1, 2] = 6 := by decide
example : (⟨3, 3, some 3⟩ : UnitIter).Honest ∧ (⟨3, 1, some 7⟩ : UnitIter).Honest ∧ (⟨3, 0, none⟩ : UnitIter).Honest := by
  refine ⟨⟨by decide, ?_⟩, ⟨by decide, ?_⟩, ⟨by decide, ?_⟩⟩ <;> intro h hh <;> cases hh <;> decide
example : aggPercentile 100 1 [1, 2, 3] = some 3 ∧ aggPercentile 50 1 [1, 2, 3] = some 2
    ∧ aggPercentile 25 2 [5, 4, 3, 2, 1, 0, 7, 6] = some 1 := by decide
example : aggPercentilePreFix 100 1 [1, 2, 3] = .panic := by decide

end AscentVerif.Agg
