import AscentVerif.Generated.ConstProp
import AscentVerif.Generated.Product
import AscentVerif.Generated.OptionLat
import AscentVerif.Generated.Versions
import AscentVerif.Generated.Dual
/-!
# Tie D: the regenerated table models equal the hand-written ones

`tools/rs2lean.py` re-reads the Rust sources (`constant_propagation.rs`, `product.rs`, `lattice.rs`,
`ascent_mir.rs`, `dual.rs`) on every run and writes `AscentVerif/Generated/*.lean`.  The theorems below state
that every regenerated function is *equal* to its hand-written counterpart in `Model/Lattice.lean` /
`Model/Engine.lean`; a changed match arm (or constant, or statement order) in the Rust source changes the
generated definition and breaks the corresponding proof.
-/
namespace AscentVerif.TieD
open AscentVerif AscentVerif.Lat

/-! ## `ConstPropagation<T>` -/

theorem constProp_pcmp_eq {α : Type} [DecidableEq α] (a b : ConstProp α) :
    Generated.ConstProp.partial_cmp a b = Lat.pcmp a b := by
  cases a <;> cases b <;> rfl

theorem constProp_meet_eq {α : Type} [DecidableEq α] (a b : ConstProp α) :
    Generated.ConstProp.meet a b = Lat.meet a b := by
  cases a <;> cases b <;> rfl

theorem constProp_join_eq {α : Type} [DecidableEq α] (a b : ConstProp α) :
    Generated.ConstProp.join a b = Lat.join a b := by
  cases a <;> cases b <;> rfl

theorem constProp_meetMut_eq {α : Type} [DecidableEq α] (a b : ConstProp α) :
    Generated.ConstProp.meet_mut a b = Lat.meetMut a b := by
  cases a <;> cases b <;>
    simp [Generated.ConstProp.meet_mut, Generated.ConstProp.meet_mut_tail3, Lat.meetMut]

theorem constProp_joinMut_eq {α : Type} [DecidableEq α] (a b : ConstProp α) :
    Generated.ConstProp.join_mut a b = Lat.joinMut a b := by
  cases a <;> cases b <;>
    simp [Generated.ConstProp.join_mut, Generated.ConstProp.join_mut_tail4, Lat.joinMut]

/-! ## `combine_orderings` -/

theorem combineOrderings_eq (o1 o2 : Ordering) :
    Generated.combine_orderings o1 o2 = Lat.combineOrderings o1 o2 := by
  cases o1 <;> cases o2 <;> rfl

/-! ## `Option<T>` -/

theorem option_meetMut_eq {α : Type} [Lat α] (a b : Option α) :
    Generated.OptionLat.meet_mut a b = Lat.meetMut a b := by
  cases a <;> cases b <;> rfl

theorem option_joinMut_eq {α : Type} [Lat α] (a b : Option α) :
    Generated.OptionLat.join_mut a b = Lat.joinMut a b := by
  cases a <;> cases b <;> rfl

/-! ## `versions_base` -/

theorem replicate_succ_set_last {β : Type} (y z : β) (n : Nat) :
    (List.replicate (n + 1) y).set n z = List.replicate n y ++ [z] := by
  induction n with
  | zero => rfl
  | succ n ih => rw [List.replicate_succ, List.set_cons_succ, ih, List.replicate_succ, List.cons_append]

theorem versionsBase_eq (n : Nat) : Generated.versions_base n = Engine.versionsBase n := by
  induction n with
  | zero => rfl
  | succ n ih =>
    simp only [Generated.versions_base, Engine.versionsBase, ih, replicate_succ_set_last]

/-! ## `Dual<T>`

The generated functions take the fields `self.0` / `other.0` (Rust: `Dual<T>(pub T)`); which of the two is the
receiver and which the argument of the delegated call, the delegated method, and the `Dual(..)` wrapper are
read from the Rust text.  For the `&mut self` functions the generated value is (the new `self.0`, the flag).
`impl Ord for Dual<T>` is the model's `LinOrd (DualLin α)`. -/

theorem dual_pcmp_eq {α : Type} [Lat α] (a b : Dual α) :
    Generated.Dual.partial_cmp a.val b.val = Lat.pcmp a b := rfl

theorem dual_cmp_eq {α : Type} [LinOrd α] (a b : DualLin α) :
    Generated.Dual.cmp a.val b.val = LinOrd.cmp a b := rfl

theorem dual_meet_eq {α : Type} [Lat α] (a b : Dual α) :
    Generated.Dual.meet a.val b.val = Lat.meet a b := rfl

theorem dual_join_eq {α : Type} [Lat α] (a b : Dual α) :
    Generated.Dual.join a.val b.val = Lat.join a b := rfl

theorem dual_meetMut_eq {α : Type} [Lat α] (a b : Dual α) :
    Lat.meetMut a b
      = (⟨(Generated.Dual.meet_mut a.val b.val).1⟩, (Generated.Dual.meet_mut a.val b.val).2) := rfl

theorem dual_joinMut_eq {α : Type} [Lat α] (a b : Dual α) :
    Lat.joinMut a b
      = (⟨(Generated.Dual.join_mut a.val b.val).1⟩, (Generated.Dual.join_mut a.val b.val).2) := rfl

theorem dual_top_eq {α : Type} [BLat α] : (Generated.Dual.top : Dual α) = BLat.top := rfl

theorem dual_bottom_eq {α : Type} [BLat α] : (Generated.Dual.bottom : Dual α) = BLat.bottom := rfl

end AscentVerif.TieD

#print axioms AscentVerif.TieD.constProp_pcmp_eq
#print axioms AscentVerif.TieD.constProp_meet_eq
#print axioms AscentVerif.TieD.constProp_join_eq
#print axioms AscentVerif.TieD.constProp_meetMut_eq
#print axioms AscentVerif.TieD.constProp_joinMut_eq
#print axioms AscentVerif.TieD.combineOrderings_eq
#print axioms AscentVerif.TieD.option_meetMut_eq
#print axioms AscentVerif.TieD.option_joinMut_eq
#print axioms AscentVerif.TieD.versionsBase_eq
#print axioms AscentVerif.TieD.dual_pcmp_eq
#print axioms AscentVerif.TieD.dual_cmp_eq
#print axioms AscentVerif.TieD.dual_meet_eq
#print axioms AscentVerif.TieD.dual_join_eq
#print axioms AscentVerif.TieD.dual_meetMut_eq
#print axioms AscentVerif.TieD.dual_joinMut_eq
#print axioms AscentVerif.TieD.dual_top_eq
#print axioms AscentVerif.TieD.dual_bottom_eq
