import AscentVerif.Props.C01
/-!
# C06 — results are invariant under reordering and consistent renaming

Invariance theorems for the least model (`Derivable`), transferred to what `run()` computes
by `run_eq_leastModel` (C01).  Statements marked FIXED were given; the sections marked "design"
(α-renaming of variables, swapping independent adjacent body items) are formulated here.
All statements are proved.

* order of rules / head clauses / input rows: `derivable_perm_rules`, `derivable_perm_heads`,
  `derivable_input_ext`, `inputDB_perm`, engine level `run_perm_invariant`
* injective renaming of relations `derivable_rename_rels`, of constants `derivable_rename_consts`
* α-renaming of variables `derivable_rename_vars` (hypothesis `RenSound`; all rules, aggregation included)
* swapping independent adjacent body items `sat_swap_indep`, `derivable_swap_indep`
  (hypotheses `VarsSound`, `Indep`; all item kinds), engine level `run_swap_indep_invariant`
-/
namespace AscentVerif.Engine
open AscentVerif

variable {E B G P A : Type}

/-! ## generic transfer lemma -/

/-- if every one-step consequence under `(I, rules, agg)` is one under `(I', rules', agg')` (over every database),
the least model of the former is contained in that of the latter -/
theorem derivable_of_cons_imp {I I' : Interp E B G P A} {rules rules' : List (Rule E B G P A)} {agg agg' : RelId → List Tuple}
    {inp : DB} (h : ∀ D f, Cons I rules agg D f → Cons I' rules' agg' D f) :
    ∀ f, Derivable I rules agg inp f → Derivable I' rules' agg' inp f :=
  fun _ hf D hD => hf D ⟨hD.1, fun g hg => hD.2 g (h D g hg)⟩

/-! ## textual order of rules, head clauses, input rows (FIXED) -/

theorem derivable_perm_rules (I : Interp E B G P A) (rules rules' : List (Rule E B G P A)) (agg : RelId → List Tuple)
    (inp : DB) (h : rules.Perm rules') : ∀ f, Derivable I rules agg inp f ↔ Derivable I rules' agg inp f := by
  intro f
  constructor
  · apply derivable_of_cons_imp
    rintro D g ⟨r, hr, rest⟩
    exact ⟨r, h.mem_iff.mp hr, rest⟩
  · apply derivable_of_cons_imp
    rintro D g ⟨r, hr, rest⟩
    exact ⟨r, h.mem_iff.mpr hr, rest⟩

private theorem cons_perm_heads {I : Interp E B G P A} {rules rules' : List (Rule E B G P A)} {agg : RelId → List Tuple}
    (hlen : rules.length = rules'.length)
    (h : ∀ i (hi : i < rules.length) (hi' : i < rules'.length), rules[i].body = rules'[i].body ∧ rules[i].heads.Perm rules'[i].heads) :
    ∀ D f, Cons I rules agg D f → Cons I rules' agg D f := by
  rintro D g ⟨r, hr, ρ, hs, hd, hhd, rfl⟩
  obtain ⟨i, hi, rfl⟩ := List.getElem_of_mem hr
  have hi' : i < rules'.length := hlen ▸ hi
  obtain ⟨hb, hp⟩ := h i hi hi'
  exact ⟨rules'[i], List.getElem_mem hi', ρ, hb ▸ hs, hd, hp.mem_iff.mp hhd, rfl⟩

/-- permuting the head clauses inside rules -/
theorem derivable_perm_heads (I : Interp E B G P A) (rules rules' : List (Rule E B G P A)) (agg : RelId → List Tuple) (inp : DB)
    (hlen : rules.length = rules'.length)
    (h : ∀ i (hi : i < rules.length) (hi' : i < rules'.length), rules[i].body = rules'[i].body ∧ rules[i].heads.Perm rules'[i].heads) :
    ∀ f, Derivable I rules agg inp f ↔ Derivable I rules' agg inp f := by
  intro f
  constructor
  · exact derivable_of_cons_imp (cons_perm_heads hlen h) f
  · exact derivable_of_cons_imp (cons_perm_heads hlen.symm
      (fun i hi hi' => ⟨(h i hi' hi).1.symm, (h i hi' hi).2.symm⟩)) f

theorem derivable_input_ext (I : Interp E B G P A) (rules : List (Rule E B G P A)) (agg : RelId → List Tuple) (inp inp' : DB)
    (h : ∀ f, inp f ↔ inp' f) : ∀ f, Derivable I rules agg inp f ↔ Derivable I rules agg inp' f :=
  fun _ => ⟨fun hf D hD => hf D ⟨fun g hg => hD.1 g ((h g).mp hg), hD.2⟩,
            fun hf D hD => hf D ⟨fun g hg => hD.1 g ((h g).mpr hg), hD.2⟩⟩

theorem inputDB_perm (p : Program E B G P A) (inp inp' : RelId → List Tuple) (h : ∀ r, (inp r).Perm (inp' r)) :
    ∀ f, inputDB p inp f ↔ inputDB p inp' f := by
  intro f
  unfold inputDB
  rw [(h f.rel).mem_iff]

/-- **engine level**: permuting rules (and head clauses, declarations stay), shuffling the input vectors and
choosing any valid SCC orders gives the same relations -/
theorem run_perm_invariant (I : Interp E B G P A) (cfg cfg' : Config) (p p' : Program E B G P A) (order order' : SccOrder)
    (inp inp' : RelId → List Tuple) (fuel fuel' : Nat) (ps ps' : ProgSt)
    (hrels : p.rels = p'.rels) (hrules : p.rules.Perm p'.rules) (hinp : ∀ r, (inp r).Perm (inp' r))
    (hp : Relational p) (ho : validOrder p order = true) (ho' : validOrder p' order' = true)
    (hrun : run I cfg p order fuel (initSt p inp) = .done ps)
    (hrun' : run I cfg' p' order' fuel' (initSt p' inp') = .done ps') :
    ∀ f, factsOf ps.st f ↔ factsOf ps'.st f := by
  have hp' : Relational p' := by
    obtain ⟨h1, h2, h3⟩ := hp
    refine ⟨fun r hr => h1 r (hrules.mem_iff.mpr hr), fun d hd => h2 d (hrels ▸ hd), fun r hr hd hhd => ?_⟩
    rw [← hrels]; exact h3 r (hrules.mem_iff.mpr hr) hd hhd
  intro f
  rw [run_eq_leastModel I cfg p order inp fuel ps hp ho hrun f,
    run_eq_leastModel I cfg' p' order' inp' fuel' ps' hp' ho' hrun' f,
    derivable_perm_rules I p.rules p'.rules noAgg _ hrules f]
  apply derivable_input_ext
  intro g
  rw [inputDB_perm p inp inp' hinp g]
  unfold inputDB
  rw [hrels]

/-! ## renaming relations (FIXED) -/

def Item.mapRel (π : RelId → RelId) : Item E B G P A → Item E B G P A
  | .clause r args conds => .clause (π r) args conds
  | .agg a => .agg { a with rel := π a.rel }
  | i => i
def Rule.mapRel (π : RelId → RelId) (r : Rule E B G P A) : Rule E B G P A :=
  { heads := r.heads.map fun h => { h with rel := π h.rel }, body := r.body.map (Item.mapRel π) }
def Fact.mapRel (π : RelId → RelId) (f : Fact) : Fact := ⟨π f.rel, f.args⟩

/-- a body over `D` is satisfied by the renamed body over any database containing the renamed facts
(no aggregated relation is consulted: `noAgg`) -/
private theorem sat_mapRel {I : Interp E B G P A} (π : RelId → RelId) {D D' : DB} (h : ∀ r t, D ⟨r, t⟩ → D' ⟨π r, t⟩)
    {items : List (Item E B G P A)} {ρ ρ' : Env} (hs : Sat I D noAgg items ρ ρ') :
    Sat I D' noAgg (items.map (Item.mapRel π)) ρ ρ' := by
  induction hs with
  | nil ρ => exact .nil ρ
  | clause t hd hm hc _ ih => exact .clause t (h _ _ hd) hm hc ih
  | cond hc _ ih => exact .cond hc ih
  | gen x hx _ ih => exact .gen x hx ih
  | aggr ha _ ih => exact .aggr ha ih

private theorem sat_mapRel_inv {I : Interp E B G P A} (π : RelId → RelId) {D D' : DB} (h : ∀ r t, D' ⟨π r, t⟩ → D ⟨r, t⟩)
    (items : List (Item E B G P A)) {ρ ρ' : Env} (hs : Sat I D' noAgg (items.map (Item.mapRel π)) ρ ρ') :
    Sat I D noAgg items ρ ρ' := by
  induction items generalizing ρ with
  | nil => cases hs; exact .nil _
  | cons a rest ih =>
    cases a with
    | clause r args conds =>
      cases hs with
      | clause t hd hm hc hr => exact .clause t (h _ _ hd) hm hc (ih hr)
    | cond c =>
      cases hs with
      | cond hc hr => exact .cond hc (ih hr)
    | gen v g =>
      cases hs with
      | gen x hx hr => exact .gen x hx (ih hr)
    | agg a =>
      cases hs with
      | aggr ha hr => exact .aggr ha (ih hr)

private theorem Fact.mapRel_injective {π : RelId → RelId} (hπ : Function.Injective π) : Function.Injective (Fact.mapRel π) := by
  rintro ⟨r, t⟩ ⟨r', t'⟩ h
  simp only [Fact.mapRel, Fact.mk.injEq] at h
  rw [hπ h.1, h.2]

/-- consistently renaming relations renames the least model (aggregation-free rules) -/
theorem derivable_rename_rels (I : Interp E B G P A) (rules : List (Rule E B G P A)) (inp : DB) (π : RelId → RelId)
    (hπ : Function.Injective π) (haf : ∀ r ∈ rules, r.aggFree = true) :
    ∀ f, Derivable I rules noAgg inp f ↔
      Derivable I (rules.map (Rule.mapRel π)) noAgg (fun g => ∃ f', inp f' ∧ g = Fact.mapRel π f') (Fact.mapRel π f) := by
  have _ := haf -- not needed: with `noAgg` an aggregation reads the same (empty) list before and after renaming
  intro f
  constructor
  · -- pull a closed database of the renamed program back along `π`
    intro hf D hD
    apply hf (fun f => D (Fact.mapRel π f))
    refine ⟨fun g hg => hD.1 _ ⟨g, hg, rfl⟩, ?_⟩
    rintro g ⟨r, hr, ρ, hs, hd, hhd, rfl⟩
    apply hD.2
    refine ⟨Rule.mapRel π r, List.mem_map_of_mem hr, ρ, sat_mapRel π (fun _ _ h => h) hs,
      { hd with rel := π hd.rel }, List.mem_map_of_mem (f := fun h : HeadClause E => { h with rel := π h.rel }) hhd, rfl⟩
  · -- push the least model forward along `π`
    intro hf
    have hcl : Closed I (rules.map (Rule.mapRel π)) noAgg (fun g => ∃ f', inp f' ∧ g = Fact.mapRel π f')
        (fun g => ∃ f', Derivable I rules noAgg inp f' ∧ g = Fact.mapRel π f') := by
      refine ⟨?_, ?_⟩
      · rintro g ⟨f', hf', rfl⟩
        exact ⟨f', derivable_input hf', rfl⟩
      · rintro g ⟨r', hr', ρ, hs, hd', hhd', rfl⟩
        obtain ⟨r, hr, rfl⟩ := List.mem_map.mp hr'
        obtain ⟨hd, hhd, rfl⟩ := List.mem_map.mp hhd'
        refine ⟨headFact I hd ρ, derivable_cons ⟨r, hr, ρ, ?_, hd, hhd, rfl⟩, rfl⟩
        refine sat_mapRel_inv π ?_ r.body hs
        rintro r t ⟨f', hf', he⟩
        have := Fact.mapRel_injective hπ (a₁ := ⟨r, t⟩) (a₂ := f') he
        rw [this]; exact hf'
    obtain ⟨f', hf', he⟩ := hf _ hcl
    rw [Fact.mapRel_injective hπ he]; exact hf'

/-! ## injective renaming of the constants (FIXED) -/

def mapEnv (σ : Val → Val) (ρ : Env) : Env := ρ.map fun vx => (vx.1, σ vx.2)
def Fact.mapVal (σ : Val → Val) (f : Fact) : Fact := ⟨f.rel, f.args.map σ⟩

/-- interpretation `I'` is interpretation `I` seen through the constant map `σ` — what "no interpreted
functions" amounts to: variables and (mapped) constants, (in)equality tests -/
structure Commutes (σ : Val → Val) (I I' : Interp E B G P A) : Prop where
  expr : ∀ e ρ, I'.expr e (mapEnv σ ρ) = σ (I.expr e ρ)
  test : ∀ b ρ, I'.test b (mapEnv σ ρ) = I.test b ρ
  gen : ∀ g ρ, I'.gen g (mapEnv σ ρ) = (I.gen g ρ).map σ
  pat : ∀ q x, I'.pat q (σ x) = (I.pat q x).map (List.map σ)

theorem get?_mapEnv (σ : Val → Val) (ρ : Env) (v : Var) : Env.get? (mapEnv σ ρ) v = (ρ.get? v).map σ := by
  induction ρ with
  | nil => rfl
  | cons p ρ ih =>
    obtain ⟨w, x⟩ := p
    show Env.get? ((w, σ x) :: mapEnv σ ρ) v = _
    simp only [Env.get?]
    split
    · rfl
    · exact ih

theorem mapEnv_cons (σ : Val → Val) (v : Var) (x : Val) (ρ : Env) : mapEnv σ ((v, x) :: ρ) = (v, σ x) :: mapEnv σ ρ := rfl

theorem mapEnv_zip_append (σ : Val → Val) (vs : List Var) (xs : List Val) (ρ : Env) :
    mapEnv σ (vs.zip xs ++ ρ) = vs.zip (xs.map σ) ++ mapEnv σ ρ := by
  induction vs generalizing xs with
  | nil => simp [mapEnv]
  | cons v vs ih =>
    cases xs with
    | nil => simp [mapEnv]
    | cons x xs =>
      have := ih xs
      simp only [mapEnv, List.zip_cons_cons, List.cons_append, List.map_cons] at this ⊢
      rw [this]

theorem matchArgs_mapEnv {σ : Val → Val} (hσ : Function.Injective σ) {I I' : Interp E B G P A} (hc : Commutes σ I I')
    (ρ₀ : Env) (args : List (Arg E)) (t : Tuple) (ρ : Env) :
    matchArgs I' (mapEnv σ ρ₀) args (t.map σ) (mapEnv σ ρ) = (matchArgs I ρ₀ args t ρ).map (mapEnv σ) := by
  induction args generalizing t ρ with
  | nil => cases t <;> simp [matchArgs]
  | cons a as ih =>
    cases t with
    | nil => cases a <;> simp [matchArgs]
    | cons x xs =>
      cases a with
      | var v =>
        simp only [List.map_cons, matchArgs, get?_mapEnv]
        cases hg : ρ.get? v with
        | none => simp only [Option.map_none]; rw [← mapEnv_cons, ih]
        | some y =>
          simp only [Option.map_some]
          by_cases hxy : x = y
          · simp only [hxy, if_true]; exact ih _ _
          · have : σ x ≠ σ y := fun h => hxy (hσ h)
            simp [hxy, this]
      | expr e =>
        simp only [List.map_cons, matchArgs, hc.expr]
        by_cases hxy : I.expr e ρ₀ = x
        · simp only [hxy, if_true]; exact ih _ _
        · have : σ (I.expr e ρ₀) ≠ σ x := fun h => hxy (hσ h)
          simp [hxy, this]

theorem satCond_mapEnv {σ : Val → Val} {I I' : Interp E B G P A} (hc : Commutes σ I I')
    (c : Cond E B P) (ρ : Env) : satCond I' c (mapEnv σ ρ) = (satCond I c ρ).map (mapEnv σ) := by
  cases c with
  | ifc b => simp only [satCond, hc.test]; split <;> rfl
  | letc v e => simp only [satCond, hc.expr, Option.map_some, mapEnv_cons]
  | ifLet p vs e =>
    simp only [satCond, hc.expr, hc.pat]
    cases I.pat p (I.expr e ρ) with
    | none => rfl
    | some xs =>
      simp only [Option.map_some, Option.bind_some, List.length_map]
      split
      · simp only [Option.map_some, mapEnv_zip_append]
      · rfl

theorem satConds_mapEnv {σ : Val → Val} {I I' : Interp E B G P A} (hc : Commutes σ I I')
    (cs : List (Cond E B P)) (ρ : Env) : satConds I' cs (mapEnv σ ρ) = (satConds I cs ρ).map (mapEnv σ) := by
  induction cs generalizing ρ with
  | nil => rfl
  | cons c cs ih =>
    simp only [satConds, satCond_mapEnv hc]
    cases satCond I c ρ with
    | none => rfl
    | some ρ₁ => simp only [Option.map_some, Option.bind_some, ih]

theorem headFact_mapEnv {σ : Val → Val} {I I' : Interp E B G P A} (hc : Commutes σ I I') (h : HeadClause E) (ρ : Env) :
    headFact I' h (mapEnv σ ρ) = Fact.mapVal σ (headFact I h ρ) := by
  simp [headFact, Fact.mapVal, hc.expr]

private theorem aggFree_cons {a : Item E B G P A} {rest : List (Item E B G P A)}
    (h : (a :: rest).all (fun i => !i.isAgg) = true) : a.isAgg = false ∧ rest.all (fun i => !i.isAgg) = true := by
  simpa using h

/-- forward transport of a body derivation through `σ` -/
theorem sat_mapEnv {σ : Val → Val} (hσ : Function.Injective σ) {I I' : Interp E B G P A} (hc : Commutes σ I I')
    {D D' : DB} (h : ∀ f, D f → D' (Fact.mapVal σ f))
    {items : List (Item E B G P A)} {ρ ρ' : Env} (hs : Sat I D noAgg items ρ ρ')
    (haf : items.all (fun i => !i.isAgg) = true) :
    Sat I' D' noAgg items (mapEnv σ ρ) (mapEnv σ ρ') := by
  induction hs with
  | nil ρ => exact .nil _
  | @clause r args conds rest ρ ρ₁ ρ₂ ρ₃ t hd hm hcs _ ih =>
    refine .clause (ρ₁ := mapEnv σ ρ₁) (t.map σ) (h _ hd) ?_ ?_ (ih (aggFree_cons haf).2)
    · rw [matchArgs_mapEnv hσ hc, hm]; rfl
    · rw [satConds_mapEnv hc, hcs]; rfl
  | @cond c rest ρ ρ₁ ρ₂ hcd _ ih =>
    refine .cond (ρ₁ := mapEnv σ ρ₁) ?_ (ih (aggFree_cons haf).2)
    rw [satCond_mapEnv hc, hcd]; rfl
  | gen x hx _ ih =>
    refine .gen (σ x) ?_ (ih (aggFree_cons haf).2)
    rw [hc.gen]; exact List.mem_map_of_mem hx
  | aggr ha _ ih =>
    have := (aggFree_cons haf).1
    simp [Item.isAgg] at this

/-- backward transport: over a database of `σ`-images, a body derivation from a `σ`-image environment only
sees `σ`-images -/
theorem sat_mapEnv_inv {σ : Val → Val} (hσ : Function.Injective σ) {I I' : Interp E B G P A} (hc : Commutes σ I I')
    {D D' : DB} (h : ∀ r t, D' ⟨r, t⟩ → ∃ t₀, D ⟨r, t₀⟩ ∧ t = t₀.map σ)
    (items : List (Item E B G P A)) {ρ ρ₁ : Env} (hs : Sat I' D' noAgg items (mapEnv σ ρ) ρ₁)
    (haf : items.all (fun i => !i.isAgg) = true) :
    ∃ ρ', ρ₁ = mapEnv σ ρ' ∧ Sat I D noAgg items ρ ρ' := by
  induction items generalizing ρ with
  | nil => cases hs; exact ⟨ρ, rfl, .nil _⟩
  | cons a rest ih =>
    obtain ⟨ha, hrest⟩ := aggFree_cons haf
    cases a with
    | clause r args conds =>
      cases hs with
      | clause t hd hm hcs hr =>
        obtain ⟨t₀, hd₀, rfl⟩ := h _ _ hd
        rw [matchArgs_mapEnv hσ hc] at hm
        obtain ⟨ρa, hma, rfl⟩ := Option.map_eq_some_iff.mp hm
        rw [satConds_mapEnv hc] at hcs
        obtain ⟨ρb, hcb, rfl⟩ := Option.map_eq_some_iff.mp hcs
        obtain ⟨ρ', rfl, hs'⟩ := ih hr hrest
        exact ⟨ρ', rfl, .clause t₀ hd₀ hma hcb hs'⟩
    | cond c =>
      cases hs with
      | cond hcd hr =>
        rw [satCond_mapEnv hc] at hcd
        obtain ⟨ρb, hcb, rfl⟩ := Option.map_eq_some_iff.mp hcd
        obtain ⟨ρ', rfl, hs'⟩ := ih hr hrest
        exact ⟨ρ', rfl, .cond hcb hs'⟩
    | gen v g =>
      cases hs with
      | gen x hx hr =>
        rw [hc.gen] at hx
        obtain ⟨x₀, hx₀, rfl⟩ := List.mem_map.mp hx
        rw [← mapEnv_cons] at hr
        obtain ⟨ρ', rfl, hs'⟩ := ih hr hrest
        exact ⟨ρ', rfl, .gen x₀ hx₀ hs'⟩
    | agg a => simp [Item.isAgg] at ha

private theorem Fact.mapVal_injective {σ : Val → Val} (hσ : Function.Injective σ) : Function.Injective (Fact.mapVal σ) := by
  rintro ⟨r, t⟩ ⟨r', t'⟩ h
  simp only [Fact.mapVal, Fact.mk.injEq] at h
  rw [h.1, (List.map_inj_right (fun x y hxy => hσ hxy)).mp h.2]

/-- the least model commutes with every injective map on the constant domain
(e.g. small integers → large integers → strings), for aggregation-free rules -/
theorem derivable_rename_consts (σ : Val → Val) (hσ : Function.Injective σ) (I I' : Interp E B G P A) (hc : Commutes σ I I')
    (rules : List (Rule E B G P A)) (inp : DB) (haf : ∀ r ∈ rules, r.aggFree = true) :
    ∀ f, Derivable I rules noAgg inp f ↔
      Derivable I' rules noAgg (fun g => ∃ f', inp f' ∧ g = Fact.mapVal σ f') (Fact.mapVal σ f) := by
  intro f
  constructor
  · intro hf D hD
    apply hf (fun f => D (Fact.mapVal σ f))
    refine ⟨fun g hg => hD.1 _ ⟨g, hg, rfl⟩, ?_⟩
    rintro g ⟨r, hr, ρ, hs, hd, hhd, rfl⟩
    apply hD.2
    refine ⟨r, hr, mapEnv σ ρ, ?_, hd, hhd, (headFact_mapEnv hc hd ρ).symm⟩
    exact sat_mapEnv hσ hc (fun _ h => h) hs (haf r hr)
  · intro hf
    have hcl : Closed I' rules noAgg (fun g => ∃ f', inp f' ∧ g = Fact.mapVal σ f')
        (fun g => ∃ f', Derivable I rules noAgg inp f' ∧ g = Fact.mapVal σ f') := by
      refine ⟨?_, ?_⟩
      · rintro g ⟨f', hf', rfl⟩
        exact ⟨f', derivable_input hf', rfl⟩
      · rintro g ⟨r, hr, ρ₁, hs, hd, hhd, rfl⟩
        have hs' : Sat I' _ noAgg r.body (mapEnv σ []) ρ₁ := hs
        have himg : ∀ r t, (∃ f', Derivable I rules noAgg inp f' ∧ (⟨r, t⟩ : Fact) = Fact.mapVal σ f') →
            ∃ t₀, Derivable I rules noAgg inp ⟨r, t₀⟩ ∧ t = t₀.map σ := by
          rintro r t ⟨⟨r', t₀⟩, hf', he⟩
          simp only [Fact.mapVal, Fact.mk.injEq] at he
          obtain ⟨rfl, rfl⟩ := he
          exact ⟨t₀, hf', rfl⟩
        obtain ⟨ρ', rfl, hs₀⟩ := sat_mapEnv_inv hσ hc himg r.body hs' (haf r hr)
        exact ⟨headFact I hd ρ', derivable_cons ⟨r, hr, ρ', hs₀, hd, hhd, rfl⟩, headFact_mapEnv hc hd ρ'⟩
    obtain ⟨f', hf', he⟩ := hf _ hcl
    rw [Fact.mapVal_injective hσ he]; exact hf'

/-! ## renaming variables (α-renaming; design) -/

/-- rename the variables an environment binds -/
def renEnv (τ : Var → Var) (ρ : Env) : Env := ρ.map fun vx => (τ vx.1, vx.2)

def Arg.ren (τ : Var → Var) (rE : E → E) : Arg E → Arg E
  | .var v => .var (τ v)
  | .expr e => .expr (rE e)
def Cond.ren (τ : Var → Var) (rE : E → E) (rB : B → B) : Cond E B P → Cond E B P
  | .ifc b => .ifc (rB b)
  | .letc v e => .letc (τ v) (rE e)
  | .ifLet p vs e => .ifLet p (vs.map τ) (rE e)
def AggArg.ren (τ : Var → Var) (rE : E → E) : AggArg E → AggArg E
  | .wild => .wild
  | .bound v => .bound (τ v)
  | .key e => .key (rE e)
def AggClause.ren (τ : Var → Var) (rE : E → E) (a : AggClause E A) : AggClause E A :=
  { outs := a.outs.map τ, fn := a.fn, boundArgs := a.boundArgs.map τ, rel := a.rel, args := a.args.map (AggArg.ren τ rE) }
def Item.ren (τ : Var → Var) (rE : E → E) (rB : B → B) (rG : G → G) : Item E B G P A → Item E B G P A
  | .clause r args conds => .clause r (args.map (Arg.ren τ rE)) (conds.map (Cond.ren τ rE rB))
  | .cond c => .cond (Cond.ren τ rE rB c)
  | .gen v g => .gen (τ v) (rG g)
  | .agg a => .agg (AggClause.ren τ rE a)
def Rule.ren (τ : Var → Var) (rE : E → E) (rB : B → B) (rG : G → G) (r : Rule E B G P A) : Rule E B G P A :=
  { heads := r.heads.map fun h => { h with args := h.args.map rE }, body := r.body.map (Item.ren τ rE rB rG) }

/-- `rE`, `rB`, `rG` rename the variables inside the embedded Rust expressions, tests and generators
according to `τ`: evaluating the renamed expression in the renamed environment gives the old value.
(Patterns and aggregators do not see the environment, so they need no renaming.) -/
structure RenSound (τ : Var → Var) (I : Interp E B G P A) (rE : E → E) (rB : B → B) (rG : G → G) : Prop where
  expr : ∀ e ρ, I.expr (rE e) (renEnv τ ρ) = I.expr e ρ
  test : ∀ b ρ, I.test (rB b) (renEnv τ ρ) = I.test b ρ
  gen : ∀ g ρ, I.gen (rG g) (renEnv τ ρ) = I.gen g ρ

theorem get?_renEnv {τ : Var → Var} (hτ : Function.Injective τ) (ρ : Env) (v : Var) :
    Env.get? (renEnv τ ρ) (τ v) = ρ.get? v := by
  induction ρ with
  | nil => rfl
  | cons p ρ ih =>
    obtain ⟨w, x⟩ := p
    show Env.get? ((τ w, x) :: renEnv τ ρ) (τ v) = _
    simp only [Env.get?]
    by_cases hwv : w = v
    · simp [hwv]
    · have : τ w ≠ τ v := fun h => hwv (hτ h)
      simp only [hwv, this, if_false]; exact ih

theorem renEnv_cons (τ : Var → Var) (v : Var) (x : Val) (ρ : Env) : renEnv τ ((v, x) :: ρ) = (τ v, x) :: renEnv τ ρ := rfl

theorem renEnv_zip_append (τ : Var → Var) (vs : List Var) (xs : List Val) (ρ : Env) :
    renEnv τ (vs.zip xs ++ ρ) = (vs.map τ).zip xs ++ renEnv τ ρ := by
  induction vs generalizing xs with
  | nil => simp [renEnv]
  | cons v vs ih =>
    cases xs with
    | nil => simp [renEnv]
    | cons x xs =>
      have := ih xs
      simp only [renEnv, List.zip_cons_cons, List.cons_append, List.map_cons] at this ⊢
      rw [this]

theorem matchArgs_ren {τ : Var → Var} (hτ : Function.Injective τ) {I : Interp E B G P A} {rE : E → E} {rB : B → B} {rG : G → G}
    (hr : RenSound τ I rE rB rG) (ρ₀ : Env) (args : List (Arg E)) (t : Tuple) (ρ : Env) :
    matchArgs I (renEnv τ ρ₀) (args.map (Arg.ren τ rE)) t (renEnv τ ρ) = (matchArgs I ρ₀ args t ρ).map (renEnv τ) := by
  induction args generalizing t ρ with
  | nil => cases t <;> simp [matchArgs]
  | cons a as ih =>
    cases t with
    | nil => cases a <;> simp [matchArgs, Arg.ren]
    | cons x xs =>
      cases a with
      | var v =>
        simp only [List.map_cons, Arg.ren, matchArgs, get?_renEnv hτ]
        cases hg : ρ.get? v with
        | none => simp only; rw [← renEnv_cons, ih]
        | some y =>
          simp only
          split
          · exact ih _ _
          · rfl
      | expr e =>
        simp only [List.map_cons, Arg.ren, matchArgs, hr.expr]
        split
        · exact ih _ _
        · rfl

theorem satCond_ren {τ : Var → Var} {I : Interp E B G P A} {rE : E → E} {rB : B → B} {rG : G → G}
    (hr : RenSound τ I rE rB rG) (c : Cond E B P) (ρ : Env) :
    satCond I (Cond.ren τ rE rB c) (renEnv τ ρ) = (satCond I c ρ).map (renEnv τ) := by
  cases c with
  | ifc b => simp only [Cond.ren, satCond, hr.test]; split <;> rfl
  | letc v e => simp only [Cond.ren, satCond, hr.expr, Option.map_some, renEnv_cons]
  | ifLet p vs e =>
    simp only [Cond.ren, satCond, hr.expr]
    cases I.pat p (I.expr e ρ) with
    | none => rfl
    | some xs =>
      simp only [Option.bind_some, List.length_map]
      split
      · simp only [Option.map_some, renEnv_zip_append]
      · rfl

theorem satConds_ren {τ : Var → Var} {I : Interp E B G P A} {rE : E → E} {rB : B → B} {rG : G → G}
    (hr : RenSound τ I rE rB rG) (cs : List (Cond E B P)) (ρ : Env) :
    satConds I (cs.map (Cond.ren τ rE rB)) (renEnv τ ρ) = (satConds I cs ρ).map (renEnv τ) := by
  induction cs generalizing ρ with
  | nil => rfl
  | cons c cs ih =>
    simp only [List.map_cons, satConds, satCond_ren hr]
    cases satCond I c ρ with
    | none => rfl
    | some ρ₁ => simp only [Option.map_some, Option.bind_some, ih]

theorem matchAggArgs_ren {τ : Var → Var} (hτ : Function.Injective τ) {I : Interp E B G P A} {rE : E → E} {rB : B → B} {rG : G → G}
    (hr : RenSound τ I rE rB rG) (ρ : Env) (args : List (AggArg E)) (t : Tuple) (acc : Env) :
    matchAggArgs I (renEnv τ ρ) (args.map (AggArg.ren τ rE)) t (renEnv τ acc) = (matchAggArgs I ρ args t acc).map (renEnv τ) := by
  induction args generalizing t acc with
  | nil => cases t <;> simp [matchAggArgs]
  | cons a as ih =>
    cases t with
    | nil => cases a <;> simp [matchAggArgs, AggArg.ren]
    | cons x xs =>
      cases a with
      | wild => simp only [List.map_cons, AggArg.ren, matchAggArgs]; exact ih _ _
      | bound v =>
        simp only [List.map_cons, AggArg.ren, matchAggArgs, get?_renEnv hτ]
        cases hg : acc.get? v with
        | none => simp only; rw [← renEnv_cons, ih]
        | some y =>
          simp only
          split
          · exact ih _ _
          · rfl
      | key e =>
        simp only [List.map_cons, AggArg.ren, matchAggArgs, hr.expr]
        split
        · exact ih _ _
        · rfl

theorem aggBag_ren {τ : Var → Var} (hτ : Function.Injective τ) {I : Interp E B G P A} {rE : E → E} {rB : B → B} {rG : G → G}
    (hr : RenSound τ I rE rB rG) (a : AggClause E A) (ρ : Env) (tuples : List Tuple) :
    aggBag I (AggClause.ren τ rE a) (renEnv τ ρ) tuples = aggBag I a ρ tuples := by
  unfold aggBag
  congr 1
  funext t
  have h : matchAggArgs I (renEnv τ ρ) (List.map (AggArg.ren τ rE) a.args) t [] = _ := matchAggArgs_ren hτ hr ρ a.args t []
  simp only [AggClause.ren]
  rw [h]
  cases matchAggArgs I ρ a.args t [] with
  | none => rfl
  | some acc =>
    simp only [Option.map_some, List.map_map]
    congr 1
    apply List.map_congr_left
    intro v _
    simp only [Function.comp]
    rw [get?_renEnv hτ]

theorem aggEnvs_ren {τ : Var → Var} (hτ : Function.Injective τ) {I : Interp E B G P A} {rE : E → E} {rB : B → B} {rG : G → G}
    (hr : RenSound τ I rE rB rG) (a : AggClause E A) (ρ : Env) (tuples : List Tuple) :
    aggEnvs I (AggClause.ren τ rE a) (renEnv τ ρ) tuples = (aggEnvs I a ρ tuples).map (renEnv τ) := by
  unfold aggEnvs
  rw [aggBag_ren hτ hr]
  simp only [AggClause.ren, List.length_map, List.map_filterMap]
  congr 1
  funext out
  split
  · simp only [Option.map_some, renEnv_zip_append]
  · rfl

theorem headFact_ren {τ : Var → Var} {I : Interp E B G P A} {rE : E → E} {rB : B → B} {rG : G → G}
    (hr : RenSound τ I rE rB rG) (h : HeadClause E) (ρ : Env) :
    headFact I { h with args := h.args.map rE } (renEnv τ ρ) = headFact I h ρ := by
  simp [headFact, hr.expr]

/-- key lemma, forward: the renamed body is satisfied from the renamed environment -/
theorem sat_ren {τ : Var → Var} (hτ : Function.Injective τ) {I : Interp E B G P A} {rE : E → E} {rB : B → B} {rG : G → G}
    (hr : RenSound τ I rE rB rG) {D : DB} {agg : RelId → List Tuple}
    {items : List (Item E B G P A)} {ρ ρ' : Env} (hs : Sat I D agg items ρ ρ') :
    Sat I D agg (items.map (Item.ren τ rE rB rG)) (renEnv τ ρ) (renEnv τ ρ') := by
  induction hs with
  | nil ρ => exact .nil _
  | @clause r args conds rest ρ ρ₁ ρ₂ ρ₃ t hd hm hcs _ ih =>
    refine .clause (ρ₁ := renEnv τ ρ₁) t hd ?_ ?_ ih
    · rw [matchArgs_ren hτ hr, hm]; rfl
    · rw [satConds_ren hr, hcs]; rfl
  | @cond c rest ρ ρ₁ ρ₂ hcd _ ih =>
    refine .cond (ρ₁ := renEnv τ ρ₁) ?_ ih
    rw [satCond_ren hr, hcd]; rfl
  | gen x hx _ ih =>
    refine .gen x ?_ ih
    rw [hr.gen]; exact hx
  | @aggr a rest ρ ρ₁ ρ₂ ha _ ih =>
    refine .aggr (ρ₁ := renEnv τ ρ₁) ?_ ih
    show renEnv τ ρ₁ ∈ aggEnvs I (AggClause.ren τ rE a) (renEnv τ ρ) (agg a.rel)
    rw [aggEnvs_ren hτ hr]; exact List.mem_map_of_mem ha

/-- key lemma, backward: a derivation of the renamed body from a renamed environment is the renaming of a derivation -/
theorem sat_ren_inv {τ : Var → Var} (hτ : Function.Injective τ) {I : Interp E B G P A} {rE : E → E} {rB : B → B} {rG : G → G}
    (hr : RenSound τ I rE rB rG) {D : DB} {agg : RelId → List Tuple}
    (items : List (Item E B G P A)) {ρ ρ₁ : Env} (hs : Sat I D agg (items.map (Item.ren τ rE rB rG)) (renEnv τ ρ) ρ₁) :
    ∃ ρ', ρ₁ = renEnv τ ρ' ∧ Sat I D agg items ρ ρ' := by
  induction items generalizing ρ with
  | nil => cases hs; exact ⟨ρ, rfl, .nil _⟩
  | cons a rest ih =>
    cases a with
    | clause r args conds =>
      cases hs with
      | clause t hd hm hcs hrest =>
        rw [matchArgs_ren hτ hr] at hm
        obtain ⟨ρa, hma, rfl⟩ := Option.map_eq_some_iff.mp hm
        rw [satConds_ren hr] at hcs
        obtain ⟨ρb, hcb, rfl⟩ := Option.map_eq_some_iff.mp hcs
        obtain ⟨ρ', rfl, hs'⟩ := ih hrest
        exact ⟨ρ', rfl, .clause t hd hma hcb hs'⟩
    | cond c =>
      cases hs with
      | cond hcd hrest =>
        rw [satCond_ren hr] at hcd
        obtain ⟨ρb, hcb, rfl⟩ := Option.map_eq_some_iff.mp hcd
        obtain ⟨ρ', rfl, hs'⟩ := ih hrest
        exact ⟨ρ', rfl, .cond hcb hs'⟩
    | gen v g =>
      cases hs with
      | gen x hx hrest =>
        rw [hr.gen] at hx
        rw [← renEnv_cons] at hrest
        obtain ⟨ρ', rfl, hs'⟩ := ih hrest
        exact ⟨ρ', rfl, .gen x hx hs'⟩
    | agg a =>
      cases hs with
      | aggr ha hrest =>
        have ha' : _ ∈ aggEnvs I (AggClause.ren τ rE a) (renEnv τ ρ) (agg a.rel) := ha
        rw [aggEnvs_ren hτ hr] at ha'
        obtain ⟨ρb, hb, rfl⟩ := List.mem_map.mp ha'
        obtain ⟨ρ', rfl, hs'⟩ := ih hrest
        exact ⟨ρ', rfl, .aggr hb hs'⟩

/-- **α-renaming**: consistently renaming the variables of the rules with an injective `τ` does not change
the one-step consequences … -/
theorem cons_rename_vars {τ : Var → Var} (hτ : Function.Injective τ) {I : Interp E B G P A} {rE : E → E} {rB : B → B} {rG : G → G}
    (hr : RenSound τ I rE rB rG) (rules : List (Rule E B G P A)) (agg : RelId → List Tuple) (D : DB) (f : Fact) :
    Cons I (rules.map (Rule.ren τ rE rB rG)) agg D f ↔ Cons I rules agg D f := by
  constructor
  · rintro ⟨r', hr', ρ₁, hs, hd', hhd', rfl⟩
    obtain ⟨r, hrm, rfl⟩ := List.mem_map.mp hr'
    obtain ⟨hd, hhd, rfl⟩ := List.mem_map.mp hhd'
    have hs' : Sat I D agg (r.body.map (Item.ren τ rE rB rG)) (renEnv τ []) ρ₁ := hs
    obtain ⟨ρ', rfl, hs₀⟩ := sat_ren_inv hτ hr r.body hs'
    exact ⟨r, hrm, ρ', hs₀, hd, hhd, headFact_ren hr hd ρ'⟩
  · rintro ⟨r, hrm, ρ, hs, hd, hhd, rfl⟩
    exact ⟨Rule.ren τ rE rB rG r, List.mem_map_of_mem hrm, renEnv τ ρ, sat_ren hτ hr hs, _,
      List.mem_map_of_mem (f := fun h : HeadClause E => { h with args := h.args.map rE }) hhd, (headFact_ren hr hd ρ).symm⟩

/-- … hence not the least model. Works for all rules, including aggregation (whose bound variables and
result variables are renamed too) and for every aggregated-relation oracle `agg`. -/
theorem derivable_rename_vars {τ : Var → Var} (hτ : Function.Injective τ) (I : Interp E B G P A) {rE : E → E} {rB : B → B} {rG : G → G}
    (hr : RenSound τ I rE rB rG) (rules : List (Rule E B G P A)) (agg : RelId → List Tuple) (inp : DB) :
    ∀ f, Derivable I (rules.map (Rule.ren τ rE rB rG)) agg inp f ↔ Derivable I rules agg inp f :=
  fun f => ⟨derivable_of_cons_imp (fun D g => (cons_rename_vars hτ hr rules agg D g).mp) f,
            derivable_of_cons_imp (fun D g => (cons_rename_vars hτ hr rules agg D g).mpr) f⟩

/-! ## swapping independent adjacent body items (design) -/

/-- two environments are equivalent when every variable looks up to the same value -/
def EnvEqv (ρ ρ' : Env) : Prop := ∀ v, ρ.get? v = ρ'.get? v

/-- the environments agree on the variables `vs` -/
def Agree (vs : List Var) (ρ σ : Env) : Prop := ∀ v ∈ vs, ρ.get? v = σ.get? v

/-- `varsE e` (`varsB b`, `varsG g`) lists the free variables of the embedded Rust expression: the
interpretation only looks these variables up (it does not inspect the order or shadowed part of the environment) -/
structure VarsSound (I : Interp E B G P A) (varsE : E → List Var) (varsB : B → List Var) (varsG : G → List Var) : Prop where
  expr : ∀ e ρ ρ', Agree (varsE e) ρ ρ' → I.expr e ρ = I.expr e ρ'
  test : ∀ b ρ ρ', Agree (varsB b) ρ ρ' → I.test b ρ = I.test b ρ'
  gen : ∀ g ρ ρ', Agree (varsG g) ρ ρ' → I.gen g ρ = I.gen g ρ'

/-- variables an argument mentions / may bind -/
def Arg.vars (varsE : E → List Var) : Arg E → List Var
  | .var v => [v]
  | .expr e => varsE e
def Arg.bvars : Arg E → List Var
  | .var v => [v]
  | .expr _ => []
def Cond.vars (varsE : E → List Var) (varsB : B → List Var) : Cond E B P → List Var
  | .ifc b => varsB b
  | .letc v e => v :: varsE e
  | .ifLet _ vs e => vs ++ varsE e
def Cond.binds : Cond E B P → List Var
  | .ifc _ => []
  | .letc v _ => [v]
  | .ifLet _ vs _ => vs
def AggArg.keyVars (varsE : E → List Var) : AggArg E → List Var
  | .key e => varsE e
  | _ => []

/-- every variable of the enclosing rule scope the item mentions (reads, tests or binds). The bound arguments of an
aggregation are local to it and do not count. -/
def Item.mentions (varsE : E → List Var) (varsB : B → List Var) (varsG : G → List Var) : Item E B G P A → List Var
  | .clause _ args conds => args.flatMap (Arg.vars varsE) ++ conds.flatMap (Cond.vars varsE varsB)
  | .cond c => Cond.vars varsE varsB c
  | .gen v g => v :: varsG g
  | .agg a => a.outs ++ a.args.flatMap (AggArg.keyVars varsE)

/-- the variables the item may bind, given that the variables `bound` are known to be bound before it: a variable
argument of a clause binds only when it is not bound yet (otherwise it is an equality test); `let`, `if let`, `for`
and aggregation results always bind -/
def Item.binds (bound : List Var) : Item E B G P A → List Var
  | .clause _ args conds => (args.flatMap Arg.bvars).filter (fun v => decide (v ∉ bound)) ++ conds.flatMap Cond.binds
  | .cond c => Cond.binds c
  | .gen v _ => [v]
  | .agg a => a.outs

/-- **independence** of two body items (relative to the variables bound before them): neither binds a variable the other mentions -/
def Indep (varsE : E → List Var) (varsB : B → List Var) (varsG : G → List Var) (bound : List Var) (a b : Item E B G P A) : Prop :=
  (∀ v ∈ Item.binds bound a, v ∉ Item.mentions varsE varsB varsG b) ∧
  (∀ v ∈ Item.binds bound b, v ∉ Item.mentions varsE varsB varsG a)

instance (varsE : E → List Var) (varsB : B → List Var) (varsG : G → List Var) (bound : List Var) (a b : Item E B G P A) :
    Decidable (Indep varsE varsB varsG bound a b) := by unfold Indep; infer_instance

theorem Indep.symm {varsE : E → List Var} {varsB : B → List Var} {varsG : G → List Var} {bound : List Var} {a b : Item E B G P A}
    (h : Indep varsE varsB varsG bound a b) : Indep varsE varsB varsG bound b a := ⟨h.2, h.1⟩

/-! ### environments -/

theorem get?_cons (w : Var) (x : Val) (ρ : Env) (v : Var) :
    Env.get? ((w, x) :: ρ) v = if w = v then some x else Env.get? ρ v := rfl

theorem get?_append (n ρ : Env) (v : Var) : Env.get? (n ++ ρ) v = (Env.get? n v).or (Env.get? ρ v) := by
  induction n with
  | nil => simp [Env.get?]
  | cons p n ih =>
    obtain ⟨w, x⟩ := p
    simp only [List.cons_append, get?_cons]
    split
    · simp
    · exact ih

theorem get?_none_of_keys {n : Env} {v : Var} (h : ∀ p ∈ n, p.1 ≠ v) : Env.get? n v = none := by
  induction n with
  | nil => rfl
  | cons p n ih =>
    obtain ⟨w, x⟩ := p
    rw [get?_cons, if_neg (h (w, x) (by simp))]
    exact ih fun q hq => h q (List.mem_cons_of_mem _ hq)

theorem get?_zip_ne_none {vs : List Var} {xs : List Val} (hl : xs.length = vs.length) {v : Var} (hv : v ∈ vs) :
    Env.get? (vs.zip xs) v ≠ none := by
  induction vs generalizing xs with
  | nil => simp at hv
  | cons w vs ih =>
    cases xs with
    | nil => simp at hl
    | cons x xs =>
      rw [List.zip_cons_cons, get?_cons]
      split
      · simp
      · rename_i hne
        refine ih (by simpa using hl) ?_
        rcases List.mem_cons.mp hv with h | h
        · exact absurd h.symm hne
        · exact h

theorem Agree.append {vs : List Var} {ρ σ : Env} (h : Agree vs ρ σ) (n : Env) : Agree vs (n ++ ρ) (n ++ σ) := by
  intro v hv
  rw [get?_append, get?_append, h v hv]

theorem Agree.mono {vs ws : List Var} {ρ σ : Env} (h : Agree vs ρ σ) (hsub : ∀ v ∈ ws, v ∈ vs) : Agree ws ρ σ :=
  fun v hv => h v (hsub v hv)

theorem Agree.symm {vs : List Var} {ρ σ : Env} (h : Agree vs ρ σ) : Agree vs σ ρ := fun v hv => (h v hv).symm

theorem agree_append_left {vs : List Var} {n : Env} (h : ∀ p ∈ n, p.1 ∉ vs) (ρ : Env) : Agree vs (n ++ ρ) ρ := by
  intro v hv
  rw [get?_append, get?_none_of_keys (fun p hp he => h p hp (he ▸ hv))]
  rfl

theorem EnvEqv.agree {ρ σ : Env} (h : EnvEqv ρ σ) (vs : List Var) : Agree vs ρ σ := fun v _ => h v

theorem EnvEqv.append {ρ σ : Env} (h : EnvEqv ρ σ) (n : Env) : EnvEqv (n ++ ρ) (n ++ σ) := by
  intro v
  rw [get?_append, get?_append, h v]

theorem EnvEqv.refl (ρ : Env) : EnvEqv ρ ρ := fun _ => rfl
theorem EnvEqv.symm {ρ σ : Env} (h : EnvEqv ρ σ) : EnvEqv σ ρ := fun v => (h v).symm
theorem EnvEqv.trans {ρ σ τ : Env} (h : EnvEqv ρ σ) (h' : EnvEqv σ τ) : EnvEqv ρ τ := fun v => (h v).trans (h' v)

/-- new bindings with disjoint keys commute -/
theorem envEqv_append_comm {n m : Env} (h : ∀ p ∈ n, ∀ q ∈ m, p.1 ≠ q.1) (ρ : Env) : EnvEqv (n ++ (m ++ ρ)) (m ++ (n ++ ρ)) := by
  intro v
  simp only [get?_append]
  cases hn : Env.get? n v with
  | none => simp
  | some x =>
    have : Env.get? m v = none := by
      apply get?_none_of_keys
      intro q hq he
      have : ∃ p ∈ n, p.1 = v := by
        false_or_by_contra
        rename_i hcon
        rw [get?_none_of_keys (fun p hp hpv => hcon ⟨p, hp, hpv⟩)] at hn
        cases hn
      obtain ⟨p, hp, hpv⟩ := this
      exact h p hp q hq (hpv.trans he.symm)
    simp [this]

/-! ### frame lemmas: an item adds a block `n` of new bindings in front of the environment; the block only
depends on the variables the item mentions, and its keys are variables the item binds -/

theorem matchArgs_frame {I : Interp E B G P A} {varsE : E → List Var} {varsB : B → List Var} {varsG : G → List Var}
    (hV : VarsSound I varsE varsB varsG) (args : List (Arg E)) (t : Tuple) (ρ₀ ρ ρ' : Env)
    (h : matchArgs I ρ₀ args t ρ = some ρ') :
    ∃ n, ρ' = n ++ ρ ∧ (∀ p ∈ n, p.1 ∈ args.flatMap Arg.bvars ∧ ρ.get? p.1 = none) ∧
      (∀ v ∈ args.flatMap Arg.bvars, Env.get? ρ' v ≠ none) ∧
      ∀ σ₀ σ, Agree (args.flatMap (Arg.vars varsE)) ρ₀ σ₀ → Agree (args.flatMap (Arg.vars varsE)) ρ σ →
        matchArgs I σ₀ args t σ = some (n ++ σ) := by
  induction args generalizing t ρ with
  | nil =>
    cases t with
    | nil =>
      simp only [matchArgs, Option.some.injEq] at h
      subst h
      exact ⟨[], rfl, by simp, by simp, fun _ _ _ _ => rfl⟩
    | cons x xs => simp [matchArgs] at h
  | cons a as ih =>
    cases t with
    | nil => cases a <;> simp [matchArgs] at h
    | cons x xs =>
      cases a with
      | var v =>
        simp only [matchArgs] at h
        cases hg : ρ.get? v with
        | some y =>
          simp only [hg] at h
          split at h
          · rename_i hxy
            obtain ⟨n, hn, hk, hbd, hfr⟩ := ih xs ρ h
            refine ⟨n, hn, fun p hp => ⟨by simp [Arg.bvars, (hk p hp).1], (hk p hp).2⟩, ?_, ?_⟩
            · intro w hw
              simp only [List.flatMap_cons, Arg.bvars, List.mem_append, List.mem_singleton] at hw
              rcases hw with rfl | hw
              · rw [hn, get?_append, hg]; cases Env.get? n w <;> simp
              · exact hbd w hw
            · intro σ₀ σ h₀ h₁
              have hσ : σ.get? v = some y := by rw [← h₁ v (by simp [Arg.vars]), hg]
              simp only [matchArgs, hσ, hxy, if_true]
              exact hfr σ₀ σ (h₀.mono (by simp +contextual)) (h₁.mono (by simp +contextual))
          · cases h
        | none =>
          simp only [hg] at h
          obtain ⟨n, hn, hk, hbd, hfr⟩ := ih xs ((v, x) :: ρ) h
          refine ⟨n ++ [(v, x)], by rw [hn]; simp, ?_, ?_, ?_⟩
          · intro p hp
            rcases List.mem_append.mp hp with hp | hp
            · obtain ⟨h1, h2⟩ := hk p hp
              rw [get?_cons] at h2
              split at h2
              · cases h2
              · exact ⟨by simp [h1], h2⟩
            · simp only [List.mem_singleton] at hp
              subst hp
              exact ⟨by simp [Arg.bvars], hg⟩
          · intro w hw
            simp only [List.flatMap_cons, Arg.bvars, List.mem_append, List.mem_singleton] at hw
            rcases hw with rfl | hw
            · rw [hn, get?_append, get?_cons]; cases Env.get? n w <;> simp
            · exact hbd w hw
          · intro σ₀ σ h₀ h₁
            have hσ : σ.get? v = none := by rw [← h₁ v (by simp [Arg.vars]), hg]
            simp only [matchArgs, hσ]
            have := hfr σ₀ ((v, x) :: σ) (h₀.mono (by simp +contextual)) (by
              intro w hw
              rw [get?_cons, get?_cons, h₁ w (by simp [hw])])
            rw [this]; simp
      | expr e =>
        simp only [matchArgs] at h
        split at h
        · rename_i hex
          obtain ⟨n, hn, hk, hbd, hfr⟩ := ih xs ρ h
          refine ⟨n, hn, fun p hp => ⟨by simp [Arg.bvars, (hk p hp).1], (hk p hp).2⟩, ?_, ?_⟩
          · intro w hw
            simp only [List.flatMap_cons, Arg.bvars, List.nil_append] at hw
            exact hbd w hw
          · intro σ₀ σ h₀ h₁
            have : I.expr e σ₀ = x := by
              rw [← hex]; exact (hV.expr e ρ₀ σ₀ (h₀.mono (by simp +contextual [Arg.vars]))).symm
            simp only [matchArgs, this, if_true]
            exact hfr σ₀ σ (h₀.mono (by simp +contextual)) (h₁.mono (by simp +contextual))
        · cases h

theorem satCond_frame {I : Interp E B G P A} {varsE : E → List Var} {varsB : B → List Var} {varsG : G → List Var}
    (hV : VarsSound I varsE varsB varsG) (c : Cond E B P) (ρ ρ' : Env) (h : satCond I c ρ = some ρ') :
    ∃ n, ρ' = n ++ ρ ∧ (∀ p ∈ n, p.1 ∈ Cond.binds c) ∧ (∀ v ∈ Cond.binds c, Env.get? ρ' v ≠ none) ∧
      ∀ σ, Agree (Cond.vars varsE varsB c) ρ σ → satCond I c σ = some (n ++ σ) := by
  cases c with
  | ifc b =>
    simp only [satCond] at h
    split at h
    · rename_i hb
      cases h
      refine ⟨[], rfl, by simp, by simp [Cond.binds], fun σ hσ => ?_⟩
      simp only [satCond, ← hV.test b ρ σ hσ, hb, if_true, List.nil_append]
    · cases h
  | letc v e =>
    simp only [satCond, Option.some.injEq] at h
    subst h
    refine ⟨[(v, I.expr e ρ)], rfl, by simp [Cond.binds], by simp [Cond.binds, get?_cons], fun σ hσ => ?_⟩
    simp only [satCond, ← hV.expr e ρ σ (hσ.mono (by simp +contextual [Cond.vars])), List.cons_append, List.nil_append]
  | ifLet p vs e =>
    simp only [satCond] at h
    cases hp : I.pat p (I.expr e ρ) with
    | none => simp [hp] at h
    | some xs =>
      simp only [hp, Option.bind_some] at h
      split at h
      · rename_i hl
        cases h
        refine ⟨vs.zip xs, rfl, ?_, ?_, fun σ hσ => ?_⟩
        · intro q hq
          obtain ⟨w, x⟩ := q
          exact (List.of_mem_zip hq).1
        · intro v hv
          rw [get?_append]
          have := get?_zip_ne_none hl hv
          cases hz : Env.get? (vs.zip xs) v with
          | none => exact absurd hz this
          | some _ => simp
        · simp only [satCond, ← hV.expr e ρ σ (hσ.mono (by simp +contextual [Cond.vars])), hp, Option.bind_some, hl, if_true]
      · cases h

theorem satConds_frame {I : Interp E B G P A} {varsE : E → List Var} {varsB : B → List Var} {varsG : G → List Var}
    (hV : VarsSound I varsE varsB varsG) (cs : List (Cond E B P)) (ρ ρ' : Env) (h : satConds I cs ρ = some ρ') :
    ∃ n, ρ' = n ++ ρ ∧ (∀ p ∈ n, p.1 ∈ cs.flatMap Cond.binds) ∧ (∀ v ∈ cs.flatMap Cond.binds, Env.get? ρ' v ≠ none) ∧
      ∀ σ, Agree (cs.flatMap (Cond.vars varsE varsB)) ρ σ → satConds I cs σ = some (n ++ σ) := by
  induction cs generalizing ρ with
  | nil =>
    simp only [satConds, Option.some.injEq] at h
    subst h
    exact ⟨[], rfl, by simp, by simp, fun _ _ => rfl⟩
  | cons c cs ih =>
    simp only [satConds] at h
    cases hc : satCond I c ρ with
    | none => simp [hc] at h
    | some ρ₁ =>
      simp only [hc, Option.bind_some] at h
      obtain ⟨n₁, rfl, hk₁, hb₁, hf₁⟩ := satCond_frame hV c ρ ρ₁ hc
      obtain ⟨n₂, rfl, hk₂, hb₂, hf₂⟩ := ih (n₁ ++ ρ) h
      refine ⟨n₂ ++ n₁, by simp, ?_, ?_, ?_⟩
      · intro p hp
        simp only [List.flatMap_cons, List.mem_append]
        rcases List.mem_append.mp hp with hp | hp
        · exact .inr (hk₂ p hp)
        · exact .inl (hk₁ p hp)
      · intro v hv
        simp only [List.flatMap_cons, List.mem_append] at hv
        rcases hv with hv | hv
        · rw [get?_append]
          have := hb₁ v hv
          cases Env.get? n₂ v <;> simp [this]
        · exact hb₂ v hv
      · intro σ hσ
        simp only [satConds, hf₁ σ (hσ.mono (by simp +contextual)), Option.bind_some]
        rw [hf₂ (n₁ ++ σ) ((hσ.mono (by simp +contextual)).append n₁)]
        simp

theorem matchAggArgs_agree {I : Interp E B G P A} {varsE : E → List Var} {varsB : B → List Var} {varsG : G → List Var}
    (hV : VarsSound I varsE varsB varsG) (args : List (AggArg E)) (t : Tuple) (ρ σ acc : Env)
    (h : Agree (args.flatMap (AggArg.keyVars varsE)) ρ σ) :
    matchAggArgs I ρ args t acc = matchAggArgs I σ args t acc := by
  induction args generalizing t acc with
  | nil => cases t <;> rfl
  | cons a as ih =>
    cases t with
    | nil => cases a <;> rfl
    | cons x xs =>
      have h' : Agree (as.flatMap (AggArg.keyVars varsE)) ρ σ := h.mono (by simp +contextual)
      cases a with
      | wild => simp only [matchAggArgs]; exact ih xs acc h'
      | bound v =>
        simp only [matchAggArgs]
        cases acc.get? v with
        | none => exact ih xs _ h'
        | some y => simp only; split; exact ih xs _ h'; rfl
      | key e =>
        simp only [matchAggArgs, hV.expr e ρ σ (h.mono (by simp +contextual [AggArg.keyVars]))]
        split
        · exact ih xs _ h'
        · rfl

/-! ### one body item as a transition between environments -/

/-- what one body item does to the environment (over database `D` and aggregated-relation oracle `agg`) -/
def Step (I : Interp E B G P A) (D : DB) (agg : RelId → List Tuple) : Item E B G P A → Env → Env → Prop
  | .clause r args conds, ρ, ρ' => ∃ t ρ₁, D ⟨r, t⟩ ∧ matchArgs I ρ args t ρ = some ρ₁ ∧ satConds I conds ρ₁ = some ρ'
  | .cond c, ρ, ρ' => satCond I c ρ = some ρ'
  | .gen v g, ρ, ρ' => ∃ x, x ∈ I.gen g ρ ∧ ρ' = (v, x) :: ρ
  | .agg a, ρ, ρ' => ρ' ∈ aggEnvs I a ρ (agg a.rel)

theorem sat_cons_iff {I : Interp E B G P A} {D : DB} {agg : RelId → List Tuple} {a : Item E B G P A}
    {rest : List (Item E B G P A)} {ρ ρ₂ : Env} :
    Sat I D agg (a :: rest) ρ ρ₂ ↔ ∃ ρ₁, Step I D agg a ρ ρ₁ ∧ Sat I D agg rest ρ₁ ρ₂ := by
  constructor
  · intro h
    cases h with
    | clause t hd hm hc hr => exact ⟨_, ⟨t, _, hd, hm, hc⟩, hr⟩
    | cond hc hr => exact ⟨_, hc, hr⟩
    | gen x hx hr => exact ⟨_, ⟨x, hx, rfl⟩, hr⟩
    | aggr ha hr => exact ⟨_, ha, hr⟩
  · rintro ⟨ρ₁, hst, hr⟩
    cases a with
    | clause r args conds =>
      obtain ⟨t, ρa, hd, hm, hc⟩ := hst
      exact .clause t hd hm hc hr
    | cond c => exact .cond hst hr
    | gen v g =>
      obtain ⟨x, hx, rfl⟩ := hst
      exact .gen x hx hr
    | agg a => exact .aggr hst hr

theorem sat_nil_iff {I : Interp E B G P A} {D : DB} {agg : RelId → List Tuple} {ρ ρ' : Env} :
    Sat I D agg [] ρ ρ' ↔ ρ' = ρ :=
  ⟨fun h => by cases h; rfl, fun h => by subst h; exact .nil _⟩

theorem sat_append_iff {I : Interp E B G P A} {D : DB} {agg : RelId → List Tuple} (pre items : List (Item E B G P A))
    {ρ ρ' : Env} : Sat I D agg (pre ++ items) ρ ρ' ↔ ∃ ρ₁, Sat I D agg pre ρ ρ₁ ∧ Sat I D agg items ρ₁ ρ' := by
  induction pre generalizing ρ with
  | nil => simp [sat_nil_iff]
  | cons a pre ih =>
    simp only [List.cons_append, sat_cons_iff, ih]
    constructor
    · rintro ⟨ρa, hst, ρ₁, h1, h2⟩
      exact ⟨ρ₁, ⟨ρa, hst, h1⟩, h2⟩
    · rintro ⟨ρ₁, ⟨ρa, hst, h1⟩, h2⟩
      exact ⟨ρa, hst, ρ₁, h1, h2⟩

/-- **frame lemma for items** -/
theorem step_frame {I : Interp E B G P A} {varsE : E → List Var} {varsB : B → List Var} {varsG : G → List Var}
    (hV : VarsSound I varsE varsB varsG) {D : DB} {agg : RelId → List Tuple} (bound : List Var)
    (a : Item E B G P A) {ρ ρ' : Env} (hb : ∀ v ∈ bound, Env.get? ρ v ≠ none) (h : Step I D agg a ρ ρ') :
    ∃ n, ρ' = n ++ ρ ∧ (∀ p ∈ n, p.1 ∈ Item.binds bound a) ∧ (∀ v ∈ Item.binds [] a, Env.get? ρ' v ≠ none) ∧
      ∀ σ, Agree (Item.mentions varsE varsB varsG a) ρ σ → Step I D agg a σ (n ++ σ) := by
  cases a with
  | clause r args conds =>
    obtain ⟨t, ρ₁, hd, hm, hc⟩ := h
    obtain ⟨n₁, rfl, hk₁, hb₁, hf₁⟩ := matchArgs_frame hV args t ρ ρ ρ₁ hm
    obtain ⟨n₂, rfl, hk₂, hb₂, hf₂⟩ := satConds_frame hV conds _ ρ' hc
    refine ⟨n₂ ++ n₁, by simp, ?_, ?_, ?_⟩
    · intro p hp
      simp only [Item.binds, List.mem_append, List.mem_filter, decide_eq_true_eq]
      rcases List.mem_append.mp hp with hp | hp
      · exact .inr (hk₂ p hp)
      · exact .inl ⟨(hk₁ p hp).1, fun hpb => hb _ hpb (hk₁ p hp).2⟩
    · intro v hv
      simp only [Item.binds, List.mem_append, List.mem_filter] at hv
      rcases hv with hv | hv
      · rw [get?_append]
        have := hb₁ v hv.1
        cases Env.get? n₂ v <;> simp [this]
      · exact hb₂ v hv
    · intro σ hσ
      refine ⟨t, n₁ ++ σ, hd, hf₁ σ σ (hσ.mono ?_) (hσ.mono ?_), ?_⟩
      · simp +contextual [Item.mentions]
      · simp +contextual [Item.mentions]
      · rw [hf₂ (n₁ ++ σ) ((hσ.mono (by simp +contextual [Item.mentions])).append n₁)]
        simp
  | cond c =>
    obtain ⟨n, rfl, hk, hbd, hf⟩ := satCond_frame hV c ρ ρ' h
    exact ⟨n, rfl, hk, hbd, hf⟩
  | gen v g =>
    obtain ⟨x, hx, rfl⟩ := h
    refine ⟨[(v, x)], rfl, by simp [Item.binds], by simp [Item.binds, get?_cons], fun σ hσ => ⟨x, ?_, rfl⟩⟩
    rw [← hV.gen g ρ σ (hσ.mono (by simp +contextual [Item.mentions]))]; exact hx
  | agg a =>
    simp only [Step, aggEnvs, List.mem_filterMap] at h
    obtain ⟨out, hout, ho⟩ := h
    split at ho
    · rename_i hl
      cases ho
      refine ⟨a.outs.zip out, rfl, ?_, ?_, fun σ hσ => ?_⟩
      · intro q hq
        obtain ⟨w, x⟩ := q
        exact (List.of_mem_zip hq).1
      · intro v hv
        rw [get?_append]
        have := get?_zip_ne_none hl (show v ∈ a.outs from hv)
        cases hz : Env.get? (a.outs.zip out) v with
        | none => exact absurd hz this
        | some _ => simp
      · simp only [Step, aggEnvs, List.mem_filterMap]
        refine ⟨out, ?_, by simp [hl]⟩
        have hbag : aggBag I a σ (agg a.rel) = aggBag I a ρ (agg a.rel) := by
          unfold aggBag
          congr 1
          funext t
          rw [matchAggArgs_agree hV a.args t ρ σ [] (hσ.mono (by simp +contextual [Item.mentions]))]
        rw [hbag]; exact hout
    · cases ho

/-- body evaluation only looks variables up: equivalent start environments give equivalent results -/
theorem sat_envEqv {I : Interp E B G P A} {varsE : E → List Var} {varsB : B → List Var} {varsG : G → List Var}
    (hV : VarsSound I varsE varsB varsG) {D : DB} {agg : RelId → List Tuple} (items : List (Item E B G P A))
    {ρ ρ' σ : Env} (hs : Sat I D agg items ρ ρ') (he : EnvEqv ρ σ) :
    ∃ σ', Sat I D agg items σ σ' ∧ EnvEqv ρ' σ' := by
  induction items generalizing ρ σ with
  | nil => cases hs; exact ⟨σ, .nil _, he⟩
  | cons a rest ih =>
    obtain ⟨ρ₁, hst, hr⟩ := sat_cons_iff.mp hs
    obtain ⟨n, rfl, _, _, hf⟩ := step_frame hV [] a (by simp) hst
    obtain ⟨σ', hs', he'⟩ := ih hr (he.append n)
    exact ⟨σ', sat_cons_iff.mpr ⟨_, hf σ (he.agree _), hs'⟩, he'⟩

theorem binds_subset_mentions (varsE : E → List Var) (varsB : B → List Var) (varsG : G → List Var) (bound : List Var)
    (a : Item E B G P A) : ∀ v ∈ Item.binds bound a, v ∈ Item.mentions varsE varsB varsG a := by
  have hc : ∀ c : Cond E B P, ∀ v ∈ Cond.binds c, v ∈ Cond.vars varsE varsB c := by
    intro c v hv
    cases c <;> simp_all [Cond.binds, Cond.vars]
  intro v hv
  cases a with
  | clause r args conds =>
    simp only [Item.binds, Item.mentions, List.mem_append, List.mem_filter, List.mem_flatMap] at hv ⊢
    rcases hv with ⟨⟨x, hx, hvx⟩, _⟩ | ⟨c, hcm, hvc⟩
    · refine .inl ⟨x, hx, ?_⟩
      cases x <;> simp_all [Arg.bvars, Arg.vars]
    · exact .inr ⟨c, hcm, hc c v hvc⟩
  | cond c => exact hc c v hv
  | gen w g => simp_all [Item.binds, Item.mentions]
  | agg a => simp_all [Item.binds, Item.mentions]

/-- **two adjacent independent body items may be swapped**: every derivation of `a, b, rest` from `ρ` gives a
derivation of `b, a, rest` from `ρ` ending in an equivalent environment. `bound` is any set of variables known
to be bound in `ρ`; all item kinds are covered (clauses with attached conditions, conditions, generators, aggregations). -/
theorem sat_swap_indep {I : Interp E B G P A} {varsE : E → List Var} {varsB : B → List Var} {varsG : G → List Var}
    (hV : VarsSound I varsE varsB varsG) {D : DB} {agg : RelId → List Tuple} (bound : List Var)
    {a b : Item E B G P A} {rest : List (Item E B G P A)} {ρ ρ₁ : Env}
    (hb : ∀ v ∈ bound, Env.get? ρ v ≠ none) (hi : Indep varsE varsB varsG bound a b)
    (hs : Sat I D agg (a :: b :: rest) ρ ρ₁) :
    ∃ ρ₂, Sat I D agg (b :: a :: rest) ρ ρ₂ ∧ EnvEqv ρ₁ ρ₂ := by
  obtain ⟨ρa, hsta, hs'⟩ := sat_cons_iff.mp hs
  obtain ⟨ρb, hstb, hr⟩ := sat_cons_iff.mp hs'
  obtain ⟨na, rfl, hka, _, hfa⟩ := step_frame hV bound a hb hsta
  have hb' : ∀ v ∈ bound, Env.get? (na ++ ρ) v ≠ none := by
    intro v hv
    rw [get?_append]
    have := hb v hv
    cases Env.get? na v <;> simp [this]
  obtain ⟨nb, rfl, hkb, _, hfb⟩ := step_frame hV bound b hb' hstb
  -- `b` does not see the bindings of `a` …
  have hstb' : Step I D agg b ρ (nb ++ ρ) :=
    hfb ρ (agree_append_left (fun p hp => hi.1 _ (hka p hp)) ρ)
  -- … nor `a` those of `b`
  have hsta' : Step I D agg a (nb ++ ρ) (na ++ (nb ++ ρ)) :=
    hfa _ (agree_append_left (fun p hp => hi.2 _ (hkb p hp)) ρ).symm
  have heq : EnvEqv (nb ++ (na ++ ρ)) (na ++ (nb ++ ρ)) := by
    apply envEqv_append_comm
    intro p hp q hq he
    exact hi.2 _ (hkb p hp) (he ▸ binds_subset_mentions varsE varsB varsG bound a _ (hka q hq))
  obtain ⟨ρ₂, hr', he'⟩ := sat_envEqv hV rest hr heq
  exact ⟨ρ₂, sat_cons_iff.mpr ⟨_, hstb', sat_cons_iff.mpr ⟨_, hsta', hr'⟩⟩, he'⟩

/-- after a body prefix, every variable it binds is bound (and bound variables stay bound) -/
theorem sat_bound {I : Interp E B G P A} {varsE : E → List Var} {varsB : B → List Var} {varsG : G → List Var}
    (hV : VarsSound I varsE varsB varsG) {D : DB} {agg : RelId → List Tuple} (pre : List (Item E B G P A))
    {ρ ρ' : Env} (hs : Sat I D agg pre ρ ρ') :
    ∀ v, (Env.get? ρ v ≠ none ∨ v ∈ pre.flatMap (Item.binds [])) → Env.get? ρ' v ≠ none := by
  induction pre generalizing ρ with
  | nil => cases hs; simp
  | cons a pre ih =>
    obtain ⟨ρ₁, hst, hr⟩ := sat_cons_iff.mp hs
    obtain ⟨n, rfl, _, hbd, _⟩ := step_frame hV [] a (by simp) hst
    intro v hv
    apply ih hr
    simp only [List.flatMap_cons, List.mem_append] at hv
    rcases hv with hv | hv | hv
    · left
      rw [get?_append]
      cases Env.get? n v <;> simp [hv]
    · exact .inl (hbd v hv)
    · exact .inr hv

theorem headFact_envEqv {I : Interp E B G P A} {varsE : E → List Var} {varsB : B → List Var} {varsG : G → List Var}
    (hV : VarsSound I varsE varsB varsG) (h : HeadClause E) {ρ σ : Env} (he : EnvEqv ρ σ) :
    headFact I h ρ = headFact I h σ := by
  simp only [headFact, Fact.mk.injEq, true_and]
  apply List.map_congr_left
  intro e _
  exact hV.expr e ρ σ (he.agree _)

/-- the variables certainly bound after the body prefix `pre` (evaluated from the empty environment) -/
def boundAfter (pre : List (Item E B G P A)) : List Var := pre.flatMap (Item.binds [])

private theorem cons_swap_indep {I : Interp E B G P A} {varsE : E → List Var} {varsB : B → List Var} {varsG : G → List Var}
    (hV : VarsSound I varsE varsB varsG) (l₁ l₂ : List (Rule E B G P A)) (heads : List (HeadClause E))
    (pre : List (Item E B G P A)) (a b : Item E B G P A) (rest : List (Item E B G P A)) (agg : RelId → List Tuple)
    (hi : Indep varsE varsB varsG (boundAfter pre) a b) (D : DB) (f : Fact) :
    Cons I (l₁ ++ ⟨heads, pre ++ a :: b :: rest⟩ :: l₂) agg D f → Cons I (l₁ ++ ⟨heads, pre ++ b :: a :: rest⟩ :: l₂) agg D f := by
  rintro ⟨r, hr, ρ, hs, hd, hhd, rfl⟩
  simp only [List.mem_append, List.mem_cons] at hr
  rcases hr with hr | rfl | hr
  · exact ⟨r, by simp [hr], ρ, hs, hd, hhd, rfl⟩
  · obtain ⟨ρ₁, hpre, hs'⟩ := (sat_append_iff pre _).mp hs
    have hb : ∀ v ∈ boundAfter pre, Env.get? ρ₁ v ≠ none := fun v hv => sat_bound hV pre hpre v (.inr hv)
    obtain ⟨ρ₂, hs₂, he⟩ := sat_swap_indep hV (boundAfter pre) hb hi hs'
    exact ⟨⟨heads, pre ++ b :: a :: rest⟩, by simp, ρ₂, (sat_append_iff pre _).mpr ⟨ρ₁, hpre, hs₂⟩, hd, hhd,
      headFact_envEqv hV hd he⟩
  · exact ⟨r, by simp [hr], ρ, hs, hd, hhd, rfl⟩

/-- **swapping two adjacent independent items in the body of one rule does not change the least model**.
Independence is relative to the variables bound by the items before them (`boundAfter pre`), so two clauses that
share an already-bound join variable are independent; everything else of the program (`l₁`, `l₂`, the heads,
the rest of the body) is arbitrary, aggregation included. -/
theorem derivable_swap_indep {I : Interp E B G P A} {varsE : E → List Var} {varsB : B → List Var} {varsG : G → List Var}
    (hV : VarsSound I varsE varsB varsG) (l₁ l₂ : List (Rule E B G P A)) (heads : List (HeadClause E))
    (pre : List (Item E B G P A)) (a b : Item E B G P A) (rest : List (Item E B G P A)) (agg : RelId → List Tuple) (inp : DB)
    (hi : Indep varsE varsB varsG (boundAfter pre) a b) :
    ∀ f, Derivable I (l₁ ++ ⟨heads, pre ++ a :: b :: rest⟩ :: l₂) agg inp f ↔
      Derivable I (l₁ ++ ⟨heads, pre ++ b :: a :: rest⟩ :: l₂) agg inp f :=
  fun f => ⟨derivable_of_cons_imp (cons_swap_indep hV l₁ l₂ heads pre a b rest agg hi) f,
            derivable_of_cons_imp (cons_swap_indep hV l₁ l₂ heads pre b a rest agg hi.symm) f⟩

/-- the notion of the design note: an interpretation that "only looks variables up" cannot tell equivalent environments
apart; it follows from `VarsSound` for any choice of the free-variable functions -/
def ExtInterp (I : Interp E B G P A) : Prop :=
  (∀ e ρ ρ', EnvEqv ρ ρ' → I.expr e ρ = I.expr e ρ') ∧ (∀ b ρ ρ', EnvEqv ρ ρ' → I.test b ρ = I.test b ρ') ∧
  (∀ g ρ ρ', EnvEqv ρ ρ' → I.gen g ρ = I.gen g ρ')

theorem VarsSound.ext {I : Interp E B G P A} {varsE : E → List Var} {varsB : B → List Var} {varsG : G → List Var}
    (hV : VarsSound I varsE varsB varsG) : ExtInterp I :=
  ⟨fun e ρ ρ' h => hV.expr e ρ ρ' (h.agree _), fun b ρ ρ' h => hV.test b ρ ρ' (h.agree _),
   fun g ρ ρ' h => hV.gen g ρ ρ' (h.agree _)⟩

/-! ## engine level: any two programs of C01's fragment with the same least model compute the same relations -/

theorem run_eq_of_derivable_iff (I I' : Interp E B G P A) (cfg cfg' : Config) (p p' : Program E B G P A) (order order' : SccOrder)
    (inp inp' : RelId → List Tuple) (fuel fuel' : Nat) (ps ps' : ProgSt)
    (hp : Relational p) (hp' : Relational p') (ho : validOrder p order = true) (ho' : validOrder p' order' = true)
    (hrun : run I cfg p order fuel (initSt p inp) = .done ps)
    (hrun' : run I' cfg' p' order' fuel' (initSt p' inp') = .done ps')
    (h : ∀ f, Derivable I p.rules noAgg (inputDB p inp) f ↔ Derivable I' p'.rules noAgg (inputDB p' inp') f) :
    ∀ f, factsOf ps.st f ↔ factsOf ps'.st f := fun f => by
  rw [run_eq_leastModel I cfg p order inp fuel ps hp ho hrun f,
    run_eq_leastModel I' cfg' p' order' inp' fuel' ps' hp' ho' hrun' f]
  exact h f

/-- α-renaming the rules does not change what `run()` computes -/
theorem run_rename_vars_invariant {τ : Var → Var} (hτ : Function.Injective τ) (I : Interp E B G P A) {rE : E → E} {rB : B → B} {rG : G → G}
    (hr : RenSound τ I rE rB rG) (cfg cfg' : Config) (p : Program E B G P A) (order order' : SccOrder)
    (inp : RelId → List Tuple) (fuel fuel' : Nat) (ps ps' : ProgSt)
    (hp : Relational p) (hp' : Relational ⟨p.rels, p.rules.map (Rule.ren τ rE rB rG)⟩)
    (ho : validOrder p order = true) (ho' : validOrder ⟨p.rels, p.rules.map (Rule.ren τ rE rB rG)⟩ order' = true)
    (hrun : run I cfg p order fuel (initSt p inp) = .done ps)
    (hrun' : run I cfg' ⟨p.rels, p.rules.map (Rule.ren τ rE rB rG)⟩ order' fuel' (initSt ⟨p.rels, p.rules.map (Rule.ren τ rE rB rG)⟩ inp) = .done ps') :
    ∀ f, factsOf ps.st f ↔ factsOf ps'.st f :=
  run_eq_of_derivable_iff I I cfg cfg' p _ order order' inp inp fuel fuel' ps ps' hp hp' ho ho' hrun hrun'
    (fun f => (derivable_rename_vars hτ I hr p.rules noAgg (inputDB p inp) f).symm)

/-- swapping two independent adjacent body items does not change what `run()` computes -/
theorem run_swap_indep_invariant {I : Interp E B G P A} {varsE : E → List Var} {varsB : B → List Var} {varsG : G → List Var}
    (hV : VarsSound I varsE varsB varsG) (cfg cfg' : Config) (rels : List RelDecl) (l₁ l₂ : List (Rule E B G P A))
    (heads : List (HeadClause E)) (pre : List (Item E B G P A)) (a b : Item E B G P A) (rest : List (Item E B G P A))
    (order order' : SccOrder) (inp : RelId → List Tuple) (fuel fuel' : Nat) (ps ps' : ProgSt)
    (hi : Indep varsE varsB varsG (boundAfter pre) a b)
    (hp : Relational ⟨rels, l₁ ++ ⟨heads, pre ++ a :: b :: rest⟩ :: l₂⟩)
    (hp' : Relational ⟨rels, l₁ ++ ⟨heads, pre ++ b :: a :: rest⟩ :: l₂⟩)
    (ho : validOrder ⟨rels, l₁ ++ ⟨heads, pre ++ a :: b :: rest⟩ :: l₂⟩ order = true)
    (ho' : validOrder ⟨rels, l₁ ++ ⟨heads, pre ++ b :: a :: rest⟩ :: l₂⟩ order' = true)
    (hrun : run I cfg ⟨rels, l₁ ++ ⟨heads, pre ++ a :: b :: rest⟩ :: l₂⟩ order fuel (initSt ⟨rels, l₁ ++ ⟨heads, pre ++ a :: b :: rest⟩ :: l₂⟩ inp) = .done ps)
    (hrun' : run I cfg' ⟨rels, l₁ ++ ⟨heads, pre ++ b :: a :: rest⟩ :: l₂⟩ order' fuel' (initSt ⟨rels, l₁ ++ ⟨heads, pre ++ b :: a :: rest⟩ :: l₂⟩ inp) = .done ps') :
    ∀ f, factsOf ps.st f ↔ factsOf ps'.st f :=
  run_eq_of_derivable_iff I I cfg cfg' _ _ order order' inp inp fuel fuel' ps ps' hp hp' ho ho' hrun hrun'
    (fun f => derivable_swap_indep hV l₁ l₂ heads pre a b rest noAgg _ hi f)

/-! ## non-vacuity -/

theorem mapEnv_id (ρ : Env) : mapEnv id ρ = ρ := by
  induction ρ with
  | nil => rfl
  | cons p ρ ih => simp only [mapEnv, List.map_cons, id] at ih ⊢; rw [ih]

/-- non-vacuity of `Commutes`: the identity map commutes with every interpretation -/
example (I : Interp E B G P A) : Commutes id I I :=
  ⟨fun e ρ => by rw [mapEnv_id]; rfl, fun b ρ => by rw [mapEnv_id], fun g ρ => by rw [mapEnv_id, List.map_id],
   fun q x => by show I.pat q x = (I.pat q x).map (List.map id); cases I.pat q x <;> simp⟩

namespace C06Example

/-- pure Datalog: an expression is a variable -/
def varInterp : Interp Var Unit Unit Unit Unit where
  expr v ρ := (ρ.get? v).getD .unit
  test _ _ := true
  gen _ _ := []
  pat _ _ := none
  agg _ _ := []
  joinMut _ a _ := (a, false)

/-- a non-trivial injective constant map: shift the integers by 1000 -/
def shift : Val → Val
  | .int n => .int (n + 1000)
  | v => v

theorem shift_injective : Function.Injective shift := by
  intro a b h
  cases a <;> cases b <;> simp_all [shift]

/-- non-vacuity of `Commutes` with a map that is not the identity -/
theorem commutes_shift : Commutes shift varInterp varInterp :=
  ⟨fun e ρ => by
      show ((mapEnv shift ρ).get? e).getD .unit = shift ((ρ.get? e).getD .unit)
      rw [get?_mapEnv]; cases ρ.get? e <;> rfl,
   fun _ _ => rfl, fun _ _ => rfl, fun _ _ => rfl⟩

/-- `path(x, z) :- edge(x, y), path(y, z)` and `path(x, y) :- edge(x, y)` (edge = 0, path = 1; x, y, z = 0, 1, 2) -/
def tc : List (Rule Var Unit Unit Unit Unit) :=
  [⟨[⟨1, [0, 1]⟩], [.clause 0 [.var 0, .var 1] []]⟩,
   ⟨[⟨1, [0, 2]⟩], [.clause 0 [.var 0, .var 1] [], .clause 1 [.var 1, .var 2] []]⟩]

example : ∀ r ∈ tc, r.aggFree = true := by decide

/-- `derivable_rename_consts` applies to a concrete program and a non-identity map -/
example (inp : DB) (f : Fact) :
    Derivable varInterp tc noAgg inp f ↔
      Derivable varInterp tc noAgg (fun g => ∃ f', inp f' ∧ g = Fact.mapVal shift f') (Fact.mapVal shift f) :=
  derivable_rename_consts shift shift_injective _ _ commutes_shift tc inp (by decide) f

/-- `derivable_rename_rels` applies (swap the numbering of the relations … any injective map) -/
example (inp : DB) (f : Fact) :
    Derivable varInterp tc noAgg inp f ↔
      Derivable varInterp (tc.map (Rule.mapRel (· + 5))) noAgg (fun g => ∃ f', inp f' ∧ g = Fact.mapRel (· + 5) f')
        (Fact.mapRel (· + 5) f) :=
  derivable_rename_rels varInterp tc inp (· + 5) (fun a b h => by simpa using h) (by decide) f

/-- non-vacuity of `RenSound`: in `varInterp` renaming an expression is renaming the variable -/
theorem renSound_succ : RenSound (· + 7) varInterp (· + 7) id id :=
  ⟨fun e ρ => by
      show ((renEnv (· + 7) ρ).get? (e + 7)).getD .unit = (ρ.get? e).getD .unit
      rw [get?_renEnv (τ := (· + 7)) (fun a b h => by simpa using h)],
   fun _ _ => rfl, fun _ _ => rfl⟩

/-- the renamed program really is a different rule list … -/
example : (tc.map (Rule.ren (· + 7) (· + 7) id id)).map (·.heads.map (·.args)) = [[[7, 8]], [[7, 9]]] := by decide

/-- … with the same least model -/
example (inp : DB) (f : Fact) :
    Derivable varInterp (tc.map (Rule.ren (· + 7) (· + 7) id id)) noAgg inp f ↔ Derivable varInterp tc noAgg inp f :=
  derivable_rename_vars (fun a b h => by simpa using h) varInterp renSound_succ tc noAgg inp f

/-- non-vacuity of `VarsSound`: a variable expression depends on that variable only -/
theorem varsSound_var : VarsSound varInterp (fun v => [v]) (fun _ => []) (fun _ => []) :=
  ⟨fun e ρ ρ' h => by
      show (ρ.get? e).getD .unit = (ρ'.get? e).getD .unit
      rw [h e (by simp)],
   fun _ _ _ _ => rfl, fun _ _ _ _ => rfl⟩

/-- body `r(x), s(x, y), t(x, z)`: the last two clauses share only `x`, which `r(x)` has bound -/
def rx : Item Var Unit Unit Unit Unit := .clause 2 [.var 0] []
def sxy : Item Var Unit Unit Unit Unit := .clause 3 [.var 0, .var 1] []
def txz : Item Var Unit Unit Unit Unit := .clause 4 [.var 0, .var 2] []

example : boundAfter [rx] = [0] := by decide

/-- they are independent after `r(x)` … -/
theorem indep_sxy_txz : Indep (fun v => [v]) (fun _ => []) (fun _ => []) (boundAfter [rx]) sxy txz := by decide

/-- … but not at the start of a body, where whichever comes first binds `x` (the criterion is sufficient, not
necessary: it is relative to the `bound` set) -/
example : ¬ Indep (fun v : Var => [v]) (fun _ : Unit => []) (fun _ : Unit => []) [] sxy txz := by decide

/-- a clause and a `let` over different variables are independent; a `let` reading the clause's variable is not -/
example : Indep (fun v : Var => [v]) (fun _ : Unit => []) (fun _ : Unit => []) [0] sxy (.cond (.letc 5 0)) := by decide
example : ¬ Indep (fun v : Var => [v]) (fun _ : Unit => []) (fun _ : Unit => []) [0] sxy (.cond (.letc 5 1)) := by decide

/-- `derivable_swap_indep` on the concrete rule `h(x, y, z) :- r(x), s(x, y), t(x, z)` -/
example (inp : DB) (f : Fact) :
    Derivable varInterp ([] ++ ⟨[⟨5, [0, 1, 2]⟩], [rx] ++ sxy :: txz :: []⟩ :: tc) noAgg inp f ↔
      Derivable varInterp ([] ++ ⟨[⟨5, [0, 1, 2]⟩], [rx] ++ txz :: sxy :: []⟩ :: tc) noAgg inp f :=
  derivable_swap_indep varsSound_var [] tc _ [rx] sxy txz [] noAgg inp indep_sxy_txz f

end C06Example

/-! ## axiom audit -/
#print axioms derivable_perm_rules
#print axioms derivable_perm_heads
#print axioms derivable_input_ext
#print axioms inputDB_perm
#print axioms run_perm_invariant
#print axioms derivable_rename_rels
#print axioms derivable_rename_consts
#print axioms derivable_rename_vars
#print axioms sat_swap_indep
#print axioms derivable_swap_indep
#print axioms run_eq_of_derivable_iff
#print axioms run_rename_vars_invariant
#print axioms run_swap_indep_invariant
#print axioms C06Example.commutes_shift
#print axioms C06Example.renSound_succ
#print axioms C06Example.varsSound_var
#print axioms C06Example.indep_sxy_txz

end AscentVerif.Engine
