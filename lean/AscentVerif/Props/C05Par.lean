import AscentVerif.Model.ParLatHead
import AscentVerif.Props.C19
import AscentVerif.Proofs.ParLatInv
import AscentVerif.Proofs.IndexConc2
/-!
# C05 / C02 (parallel half): one row per lattice key under every interleaving; concurrent index merge laws

All statements are proved (helper lemmas: `Proofs/ParLat.lean`, `Proofs/ParLatInv.lean`, `Proofs/IndexConc2.lean`).
-/
set_option linter.unusedVariables false
namespace AscentVerif.ParLat

variable {V : Type}

/-- **never a second row for the key**, in every reachable state of every schedule, for any number of workers -/
theorem at_most_one_row (join : V → V → V) (vs : List V) (s : State V) (h : Reachable join vs s) :
    s.rows.length ≤ 1 := h.inv.len

/-- **no deadlock**: as long as some worker is not done, some worker can take a step -/
theorem no_stuck (join : V → V → V) (vs : List V) (s : State V) (h : Reachable join vs s) (hnd : ¬ allDone s) :
    ∃ i s', step join s i = some s' := no_stuck_of_inv h.inv hnd

/-- every schedule terminates: a worker takes at most 5 steps, so at most `5 * n` steps in total
(stated as: a measure that every step strictly decreases) -/
def measure (s : State V) : Nat :=
  (s.workers.map fun w => match w.pc with
    | .start => 5 | .wantLock => 4 | .holding => 3 | .pushed => 2 | .unlock => 1 | .done => 0).sum
theorem step_decreases (join : V → V → V) (s s' : State V) (i : Nat) (h : step join s i = some s') :
    measure s' < measure s := by
  have hm : ∀ t : State V, measure t = measure' t := by
    intro t
    rfl
  rw [hm, hm]
  exact measure'_decreases join s s' i h

/-- **when all workers are done, exactly one row exists and it dominates every worker's value**:
for an order `le` for which `join` is an upper bound and monotone-in-place (`le a (join a b)`, `le b (join a b)`,
transitivity), the single row is `≥` every derived value — nothing is lost under any interleaving -/
theorem final_row_dominates (join : V → V → V) (le : V → V → Prop)
    (hrefl : ∀ a, le a a) (htrans : ∀ a b c, le a b → le b c → le a c)
    (hl : ∀ a b, le a (join a b)) (hr : ∀ a b, le b (join a b))
    (vs : List V) (hne : vs ≠ []) (s : State V) (h : Reachable join vs s) (hd : allDone s) :
    ∃ r, s.rows = [r] ∧ ∀ v ∈ vs, le v r := final_dominates hrefl htrans hl hr hne h hd

/-- … and it is not above the join of all values (least upper bound side), when `join` is least -/
theorem final_row_least (join : V → V → V) (le : V → V → Prop)
    (hrefl : ∀ a, le a a) (htrans : ∀ a b c, le a b → le b c → le a c)
    (hleast : ∀ a b c, le a c → le b c → le (join a b) c)
    (vs : List V) (s : State V) (h : Reachable join vs s) (ub : V) (hub : ∀ v ∈ vs, le v ub) :
    ∀ r ∈ s.rows, le r ub := h.least hleast ub hub

example : (init [1, 2, 3] : State Nat).rows = [] := rfl

/-- non-vacuity: two workers racing (both miss the first look-up; worker 0 pushes, worker 1 re-checks under
the mutex and joins in place) reach an all-done state with the single row `max 1 2` -/
example : ∃ s : State Nat, Reachable max [1, 2] s ∧ allDone s ∧ s.rows = [2] := by
  refine ⟨⟨[2], true, none, [⟨.done, 1⟩, ⟨.done, 2⟩]⟩,
    reachable_runSched [0, 1, 0, 0, 0, 0, 1, 1, 1] Reachable.init rfl, ?_, rfl⟩
  intro w hw
  simp only [List.mem_cons, List.not_mem_nil, or_false] at hw
  rcases hw with rfl | rfl <;> rfl

end AscentVerif.ParLat

namespace AscentVerif.Index

variable {V : Type} [DecidableEq V]

/-- values under `k` in a sharded lattice (set-valued) index -/
def CLatIdx.vals (c : CLatIdx V) (k : Int) : List V := (HMap.get? (c.shards.getD (shardOf k c.shards.length) []) k).getD []

/-- shard-wise merge law for the concurrent LATTICE index (`CLatIndex`): as sets, through both swap branches -/
theorem CLatIdx.moveContents_spec (frm to frm' to' : CLatIdx V) (h : CLatIdx.moveContents frm to = .ok (frm', to'))
    (hn : 0 < to.shards.length)
    (hf : ∀ s ∈ frm.shards, NoDupKeys s) (ht : ∀ s ∈ to.shards, NoDupKeys s) :
    to'.shards.length = to.shards.length ∧ (∀ k, frm'.vals k = []) ∧
    (∀ k x, x ∈ to'.vals k ↔ (x ∈ to.vals k ∨ x ∈ frm.vals k)) :=
  CLatIdx.moveContents_law frm to frm' to' h hf ht

/-- shard-wise merge law for the concurrent FULL index (`CRelFullIndex`): key set = union; with disjoint key sets every key keeps its value -/
theorem CFullIdx.moveContents_spec (frm to frm' to' : CFullIdx V) (h : CFullIdx.moveContents frm to = .ok (frm', to'))
    (hn : 0 < to.shards.length)
    (hf : ∀ s ∈ frm.shards, NoDupKeys s) (ht : ∀ s ∈ to.shards, NoDupKeys s) :
    to'.shards.length = to.shards.length ∧ (∀ k, frm'.getCloned k = none) ∧
    (∀ k, (to'.getCloned k).isSome = ((to.getCloned k).isSome || (frm.getCloned k).isSome)) ∧
    ((∀ k, ¬ ((to.getCloned k).isSome ∧ (frm.getCloned k).isSome)) →
      ∀ k, to'.getCloned k = (to.getCloned k).orElse (fun _ => frm.getCloned k)) := by
  obtain ⟨h1, h2, h3, h4⟩ := CFullIdx.moveContents_law frm to frm' to' h hf ht
  exact ⟨h1, h2, h3, fun hdisj k => h4 k (hdisj k)⟩

/-! ## axiom audit -/
#print axioms AscentVerif.ParLat.at_most_one_row
#print axioms AscentVerif.ParLat.no_stuck
#print axioms AscentVerif.ParLat.step_decreases
#print axioms AscentVerif.ParLat.final_row_dominates
#print axioms AscentVerif.ParLat.final_row_least
#print axioms CLatIdx.moveContents_spec
#print axioms CFullIdx.moveContents_spec

end AscentVerif.Index
