import AscentVerif.Proofs.UFRefine
import AscentVerif.Proofs.TrRelSimple
import AscentVerif.Proofs.TrRelComplete
import AscentVerif.Proofs.TrRelCollapseCount
/-!
# C18 — public union-find structures agree with a reference closure after any history

## Part (a): `UnionFind` (uf.rs) — full strength

For **every** finite history of `add`, `find_item`, `find(Id)`, `union(Id, Id)` and `union_add`
that stays inside the contract of the `unsafe fn`s (ids passed to `find` / `union` exist), run on
the model `Model/UnionFind.lean` from the empty structure:

* no operation panics (`uf_run_ok`): no failed `debug_assert!`, no index out of range, and the
  fuel of `find` (= number of elements) is never exhausted, i.e. the Rust recursion terminates;
* the invariant `WF` holds after every operation (`uf_run_ok`, and per operation `uf_add_ok`,
  `uf_find_ok`, `uf_findItem_ok`, `uf_union_ok`): parents in range, rank strictly increasing
  along parent links (acyclic), ranks below the number of elements, `items` and `elems` agree;
  and so does `NextCycles` (`uf_run_ok`, `uf_next_one_cycle`, `uf_union_next`): the `next`
  pointers stay inside the class and form one cycle per class;
* `find` returns the root of its argument and changes neither partition nor roots (`uf_find_ok`);
* `union x y` merges exactly the classes of `x` and `y` (`uf_union_ok`);
* two items are placed in the same class — `find_item` returns the same id for both — exactly
  when they are connected by the unions performed (`uf_same_class_iff`, `EqvGen` of the united
  pairs); unknown items are reported unknown (`uf_findItem_unknown`); `len` is the number of
  distinct items (`uf_len`).

Not proved (covered by tie C only, see `tools/vlib/c18.py`): that the O(n²) self-check `ok()`
itself returns `true` on every such state (everything it inspects is covered by `WF` and
`NextCycles`, but the check's own loops — cycle detection with a `prev` set, the bounded walk
around the class list, the count by classes — are not verified).  The full-strength statement
would be
`theorem uf_ok_true (W : WF u) (N : NextCycles u.elems) : ∃ u', u.ok = .ok (u', true)`.
-/
namespace AscentVerif.UF

/-- the empty structure is well formed -/
theorem uf_wf_init : WF {} := wf_empty

/-- `add` never panics on a well-formed state, keeps it well formed, reports `new` exactly for
unknown items, and returns an id in the class of the item's element; existing classes are not split -/
theorem uf_add_ok {u : UnionFind} (W : WF u) (x : Int) :
    ∃ u' isNew id, u.add x = .ok (u', isNew, id) ∧ WF u' ∧
      (isNew = true ↔ lookup u.items x = none) ∧
      (∃ i, i < u'.elems.length ∧ valueOf u'.elems i = x ∧ Same u'.elems id i) ∧
      (∀ i j, i < u.elems.length → j < u.elems.length → (Same u'.elems i j ↔ Same u.elems i j)) := by
  obtain ⟨u', isNew, id, h, P⟩ := add_ok W x
  refine ⟨u', isNew, id, h, P.wf, ?_, P.id_same, ?_⟩
  · cases isNew with
    | false =>
      have := (P.old rfl).1
      constructor
      · intro h; cases h
      · intro h; simp [h] at this
    | true => exact ⟨fun _ => (P.new rfl).1, fun _ => rfl⟩
  · intro i j hi hj
    cases isNew with
    | false => exact (P.old rfl).2.same_iff i j
    | true =>
      obtain ⟨_, _, _, _, _, hs, _⟩ := P.new rfl
      rw [hs]
      constructor
      · rintro (h | ⟨h, _⟩)
        · exact h
        · omega
      · exact Or.inl

/-- `find(id)` on an existing id never panics, returns the root of `id`, and changes neither
the roots nor the partition nor the items -/
theorem uf_find_ok {u : UnionFind} (W : WF u) {id : Nat} (hid : id < u.elems.length) :
    ∃ u' r, u.find id = .ok (u', r) ∧ WF u' ∧ RootOf u.elems id r ∧
      (∀ j q, RootOf u'.elems j q ↔ RootOf u.elems j q) ∧ (∀ i j, Same u'.elems i j ↔ Same u.elems i j) := by
  obtain ⟨u', r, h, K, hr⟩ := find_ok W hid
  exact ⟨u', r, h, K.wf, hr, K.roots_iff, K.same_iff⟩

/-- `find_item` of a present item never panics, returns the root of the item's class and keeps
roots and partition -/
theorem uf_findItem_ok {u : UnionFind} (W : WF u) {x : Int} {i : Nat} (hi : i < u.elems.length)
    (hx : valueOf u.elems i = x) :
    ∃ u' r, u.findItem x = .ok (u', some r) ∧ WF u' ∧ RootOf u.elems i r ∧
      (∀ j q, RootOf u'.elems j q ↔ RootOf u.elems j q) := by
  obtain ⟨id, hl, hs⟩ := W.item_of_elem i hi
  rw [hx] at hl
  obtain ⟨u', r, h, K, hr⟩ := findItem_some W hl
  obtain ⟨q, h1, h2⟩ := hs
  have := h1.unique hr; subst this
  exact ⟨u', _, h, K.wf, h2, K.roots_iff⟩

/-- `find_item` of an item that was never added answers `None` and changes nothing -/
theorem uf_findItem_unknown {u : UnionFind} (W : WF u) {x : Int}
    (hx : ∀ i, i < u.elems.length → valueOf u.elems i ≠ x) : u.findItem x = .ok (u, none) := by
  cases hl : lookup u.items x with
  | none => exact findItem_none hl
  | some id =>
    obtain ⟨i, hi, hv⟩ := W.elem_of_item x id hl
    exact absurd hv (hx i hi)

/-- `union(a, b)` on existing ids (roots or not) never panics, keeps the state well formed, and
merges exactly the classes of `a` and `b`; the returned id is in the merged class -/
theorem uf_union_ok {u : UnionFind} (W : WF u) {a b : Nat} (ha : a < u.elems.length) (hb : b < u.elems.length) :
    ∃ u' w, u.union a b = .ok (u', w) ∧ WF u' ∧ Same u'.elems w a ∧
      ∀ i j, Same u'.elems i j ↔
        (Same u.elems i j ∨ (Same u.elems i a ∧ Same u.elems b j) ∨ (Same u.elems i b ∧ Same u.elems a j)) := by
  obtain ⟨u', w, h, P⟩ := union_ok W ha hb
  exact ⟨u', w, h, P.wf, P.result, P.same_iff⟩

/-- every history inside the contract runs to completion without panic, and the final state is
well formed, with the `next` pointers forming one cycle per class -/
theorem uf_run_ok {ops : List Op} {s : Spec} (h : Spec.run {} ops = some s) :
    ∃ u, run {} ops = .ok u ∧ WF u ∧ NextCycles u.elems ∧ u.elems.map (·.value) = s.items := by
  obtain ⟨u, hr, R⟩ := run_refines refines_empty ops h
  refine ⟨u, hr, R.wf, R.next, ?_⟩
  apply List.ext_getElem?
  intro i
  by_cases hi : i < u.elems.length
  · rw [R.val i hi]; simp [valueOf, List.getElem?_eq_getElem hi]
  · have h1 : u.elems.length ≤ i := by omega
    rw [List.getElem?_eq_none (by simpa using h1), List.getElem?_eq_none (by rw [R.len]; exact h1)]

/-- "`next` pointers form one cycle per class": after any history inside the contract, any two
nodes of one class reach each other by following `next` -/
theorem uf_next_one_cycle {ops : List Op} {s : Spec} (h : Spec.run {} ops = some s) :
    ∃ u, run {} ops = .ok u ∧ ∀ i j, Same u.elems i j → ∃ k, iterNext u.elems k i = j := by
  obtain ⟨u, hr, R⟩ := run_refines refines_empty ops h
  exact ⟨u, hr, fun _ _ hs => R.next.reach hs⟩

/-- every single operation keeps the `next` cycles (here: `union`, the only one that rewires them) -/
theorem uf_union_next {u : UnionFind} (W : WF u) (N : NextCycles u.elems) {a b : Nat} (ha : a < u.elems.length)
    (hb : b < u.elems.length) : ∃ u' w, u.union a b = .ok (u', w) ∧ NextCycles u'.elems := by
  obtain ⟨u', w, h, P⟩ := union_ok W ha hb
  exact ⟨u', w, h, P.next_ok N⟩

/-- `len` = number of distinct items added -/
theorem uf_len {ops : List Op} {s : Spec} (h : Spec.run {} ops = some s) :
    ∃ u, run {} ops = .ok u ∧ u.len = .ok s.items.length := by
  obtain ⟨u, hr, R⟩ := run_refines refines_empty ops h
  exact ⟨u, hr, by simp [UnionFind.len, R.wf.okCheap, R.len]⟩

/-- **Main theorem for `UnionFind`.**  After any history inside the contract, for any two items
that were added, the two `find_item` calls succeed and return the same id exactly when the
items are connected by the unions performed. -/
theorem uf_same_class_iff {ops : List Op} {s : Spec} (h : Spec.run {} ops = some s) :
    ∃ u, run {} ops = .ok u ∧ ∀ x y, x ∈ s.items → y ∈ s.items →
      ∃ u1 u2 r1 r2, u.findItem x = .ok (u1, some r1) ∧ u1.findItem y = .ok (u2, some r2) ∧
        (r1 = r2 ↔ s.Conn x y) := by
  obtain ⟨u, hr, R⟩ := run_refines refines_empty ops h
  refine ⟨u, hr, ?_⟩
  intro x y hx hy
  obtain ⟨ix, hix, hvx⟩ := (R.mem_iff x).mp hx
  obtain ⟨iy, hiy, hvy⟩ := (R.mem_iff y).mp hy
  obtain ⟨u1, r1, hf1, W1, hr1, hroots1⟩ := uf_findItem_ok R.wf hix hvx
  have hlen1 : u1.elems.length = u.elems.length := by
    -- both lengths are determined by the roots: use the Keeps fact through findItem_some
    obtain ⟨id, hl, _⟩ := R.wf.item_of_elem ix hix
    rw [hvx] at hl
    obtain ⟨u1', r1', hf1', K, _⟩ := findItem_some R.wf hl
    rw [hf1] at hf1'; cases hf1'
    exact K.length_eq
  have hval1 : valueOf u1.elems iy = y := by
    obtain ⟨id, hl, _⟩ := R.wf.item_of_elem ix hix
    rw [hvx] at hl
    obtain ⟨u1', r1', hf1', K, _⟩ := findItem_some R.wf hl
    rw [hf1] at hf1'; cases hf1'
    rw [K.value_eq]; exact hvy
  obtain ⟨u2, r2, hf2, _, hr2, _⟩ := uf_findItem_ok W1 (by rw [hlen1]; exact hiy) hval1
  refine ⟨u1, u2, r1, r2, hf1, hf2, ?_⟩
  have hr2' : RootOf u.elems iy r2 := (hroots1 _ _).mp hr2
  have hc := R.same_iff ix iy hix hiy
  rw [hvx, hvy] at hc
  rw [← hc]
  constructor
  · intro e; subst e; exact ⟨r1, hr1, hr2'⟩
  · rintro ⟨q, h1, h2⟩
    rw [hr1.unique h1, hr2'.unique h2]

/-! ### non-vacuity: the theorems apply to concrete histories, and the closure is non-trivial -/

/-- the corpus witness `a=add(1), b=add(2), c=add(3); union(a,b); union(c,b)` (union on a non-root id) -/
def witnessOps : List Op := [.add 1, .add 2, .add 3, .union 0 1, .union 2 1]

example : Spec.run {} witnessOps = some { items := [1, 2, 3], pairs := [(3, 2), (1, 2)] } := by decide

example : ∃ u, run {} witnessOps = .ok u ∧ WF u ∧ NextCycles u.elems ∧ u.elems.map (·.value) = [1, 2, 3] :=
  uf_run_ok (s := { items := [1, 2, 3], pairs := [(3, 2), (1, 2)] }) (by decide)

example : ∃ u, run {} witnessOps = .ok u ∧ ∀ i j, Same u.elems i j → ∃ k, iterNext u.elems k i = j :=
  uf_next_one_cycle (s := { items := [1, 2, 3], pairs := [(3, 2), (1, 2)] }) (by decide)

/-- on the witness the three nodes really form one cycle 0 → 2 → 1 → 0 -/
example : (match run {} witnessOps with | .ok u => (List.range 3).map (nextOf u.elems) | .panic => []) = [2, 0, 1] := by decide

example : ∃ u, run {} witnessOps = .ok u ∧ u.len = .ok 3 :=
  uf_len (s := { items := [1, 2, 3], pairs := [(3, 2), (1, 2)] }) (by decide)

/-- … and on it items 1 and 3 end up in one class -/
example : ∃ u, run {} witnessOps = .ok u ∧
    ∃ u1 u2 r1 r2, u.findItem 1 = .ok (u1, some r1) ∧ u1.findItem 3 = .ok (u2, some r2) ∧ r1 = r2 := by
  obtain ⟨u, hr, h⟩ := uf_same_class_iff (ops := witnessOps) (s := { items := [1, 2, 3], pairs := [(3, 2), (1, 2)] }) (by decide)
  obtain ⟨u1, u2, r1, r2, h1, h2, hiff⟩ := h 1 3 (by decide) (by decide)
  refine ⟨u, hr, u1, u2, r1, r2, h1, h2, hiff.mpr ?_⟩
  exact (EqvGen.rel (show ((1 : Int), (2 : Int)) ∈ [((3 : Int), (2 : Int)), (1, 2)] by decide)).trans
    (EqvGen.rel (show ((3 : Int), (2 : Int)) ∈ [((3 : Int), (2 : Int)), (1, 2)] by decide)).symm

/-- the closure is not the full relation: with `add 1; add 2` nothing is connected -/
example : ¬ (Spec.Conn { items := [1, 2], pairs := [] } 1 2) := by
  intro h
  have := EqvGen.isolated (r := fun x y => (x, y) ∈ ([] : List (Int × Int))) (x := 1) (by simp) h (Or.inl rfl)
  omega

/-- the model agrees on the witness (executable check of the same facts) -/
example : (match run {} witnessOps with
    | .ok u => (match u.findItem 1 with
      | .ok (u1, some r1) => (match u1.findItem 3 with
        | .ok (_, some r2) => r1 == r2
        | _ => false)
      | _ => false)
    | .panic => false) = true := by decide

example : WF {} := uf_wf_init

example : ∃ u' isNew id, ({} : UnionFind).add 5 = .ok (u', isNew, id) ∧ WF u' ∧ isNew = true := by
  obtain ⟨u', n, id, h, W, hn, _⟩ := uf_add_ok uf_wf_init 5
  exact ⟨u', n, id, h, W, hn.mpr rfl⟩

/-- a well-formed three-element state with a non-trivial tree (1 and 2 below 0), for the per-operation theorems -/
def sample : UnionFind := match run {} witnessOps with | .ok u => u | .panic => {}

theorem sample_wf : WF sample := by
  obtain ⟨u, hr, W, _, _⟩ := uf_run_ok (ops := witnessOps) (s := { items := [1, 2, 3], pairs := [(3, 2), (1, 2)] }) (by decide)
  have : sample = u := by simp [sample, hr]
  rw [this]; exact W

example : sample.elems.length = 3 := by decide

example : ∃ u' r, sample.find 2 = .ok (u', r) ∧ WF u' ∧ RootOf sample.elems 2 r := by
  obtain ⟨u', r, h, W, hr, _⟩ := uf_find_ok sample_wf (id := 2) (by decide)
  exact ⟨u', r, h, W, hr⟩

example : ∃ u' r, sample.findItem 2 = .ok (u', some r) ∧ WF u' ∧ RootOf sample.elems 1 r := by
  obtain ⟨u', r, h, W, hr, _⟩ := uf_findItem_ok sample_wf (i := 1) (x := 2) (by decide) (by decide)
  exact ⟨u', r, h, W, hr⟩

example : sample.findItem 9 = .ok (sample, none) :=
  uf_findItem_unknown sample_wf (by decide)

theorem sample_next : NextCycles sample.elems := by
  obtain ⟨u, hr, _, N, _⟩ := uf_run_ok (ops := witnessOps) (s := { items := [1, 2, 3], pairs := [(3, 2), (1, 2)] }) (by decide)
  have : sample = u := by simp [sample, hr]
  rw [this]; exact N

example : ∃ u' w, sample.union 1 2 = .ok (u', w) ∧ NextCycles u'.elems :=
  uf_union_next sample_wf sample_next (by decide) (by decide)

example : ∃ u' w, sample.union 1 2 = .ok (u', w) ∧ WF u' ∧ Same u'.elems w 1 := by
  obtain ⟨u', w, h, W, hs, _⟩ := uf_union_ok sample_wf (a := 1) (b := 2) (by decide) (by decide)
  exact ⟨u', w, h, W, hs⟩

end AscentVerif.UF

/-!
## Part (b): `TrRelUnionFind` (trrel_union_find.rs) — full strength

**Main theorem `tr_contains_iff`** (all histories, including back-edge collapses through
`merge_multiple` and adds after collapses): for every list `ps` of added pairs, the model runs the
whole history from the empty structure without panic (no failed `unwrap`, no `assert!(from != s)`,
no failing `assert_disjoint_invariant`, no index out of range, and the fuel of
`get_dominant_id{,_mut}` — i.e. the Rust recursion through `set_subsumptions` — always suffices),
the final state passes `assert_disjoint_invariant` and `assert_set_connections_dominant_sets`, and
`contains x y` evaluates without panic to `true` exactly when `(x, y)` is in the reflexive
transitive closure of the added pairs on mentioned elements, and to `false` exactly when it is not.

The proof goes through the invariant `Inv t ps` (`Proofs/TrRelCollapseInv.lean`), which speaks
about DOMINANT set ids: `set_subsumptions` is a forest whose depth is covered by the fuel, dominated
sets are empty and appear in no connection map, every element's `elem_ids` entry leads to the
dominant set that contains it, the sets are pairwise disjoint, the classes are exactly the strongly
connected components of the added pairs, and OFF THE DIAGONAL `set_connections` holds exactly the
pairs of distinct dominant ids whose elements are connected, `reverse_set_connections` being its
mirror image.  ON THE DIAGONAL both maps may hold junk: `s ∈ set_connections[s]` is created by
`add(x, x)` on a new element and by `merge_multiple` (second `for s in [from, to]` round, `z = from`),
and it is NOT always mirrored (e.g. after `add(1,2); add(2,1)`: `set_connections = {1: {1}}`,
`reverse_set_connections = {1: {}}`); every query filters the diagonal, so this is harmless.

* `tr_inv_empty`, `tr_addNodeNew_inv`, `tr_add_inv`, `tr_run_inv`: the invariant holds initially and
  is preserved (with panic-freedom) by `add_node_new`, by `add` in every branch, and by whole histories;
* `tr_collapse_run`: the collapse branch never panics, with its intermediate states described
  (`PrepPost`: the deliberately de-mirrored state after the four `keep_difference` / `remove`
  statements; `ConnPost`: after `add_set_connection` on it; `MergePost`: after `merge_multiple`,
  whose four fixing loops, absorbing loop and final clean-up are characterised exactly in
  `Proofs/TrRelCollapseMerge.lean`); the sets in `to_be_merged` are exactly the dominant ids on a
  cycle through the new edge (`CollapseCtx.cyc_reach`, `CollapseCtx.cyc_of_reach`);
* `tr_contains_of_inv`: on any state satisfying the invariant `contains` decides the closure.

The statements proved earlier for collapse-free histories (`…_partial`, `tr_acyclic_…`,
`tr_addSetConnection_exact`) are kept below; they are now special cases.

The derived queries are proved for all histories too, INCLUDING multiplicities (the invariant also
records that all maps have pairwise different keys and all stored sets pairwise different members —
what `HashMap` / `HashSet` guarantee by construction but the list model does not):

* `tr_set_of` / `tr_rev_set_of`: `set_of x` / `rev_set_of x` never panic; they answer `None` exactly
  for unmentioned `x`, and otherwise enumerate — each element exactly once — the successors /
  predecessors of `x` in the closure, `x` included;
* `tr_iter_all`: `iter_all` never panics and enumerates exactly the pairs of the closure, each
  exactly once (so as a multiset it IS the closure; only the order is unspecified — in Rust it is
  the hash-map iteration order, in the model insertion order);
* `tr_count_exact`: `count_exact` never panics and returns the number of closure pairs (the length
  of any duplicate-free enumeration of them, in particular of the `iter_all` result:
  `tr_count_exact_eq_iter_all`).

Nothing of part (b) is left unproved.  Model-fidelity remarks: hash maps / sets are lists in
insertion order, so statements are up to order; `Itertools::dedup` in `get_set_connections` (drops
only CONSECUTIVE duplicates) is harmless because the stored sets are duplicate-free and mention
dominant ids only (`dedupConsecutive_of_nodup`).
-/
namespace AscentVerif.TrRel

/-- the empty structure satisfies the collapse-free invariant for the empty history -/
theorem tr_inv_init : SoundFor {} [] := soundFor_empty

/-- `add_node_new` preserves the collapse-free invariant (for any extension `ps'` of the history)
and returns the singleton set of the element -/
theorem tr_addNodeNew_inv_partial {t t' : TrRel} {ps ps' : List (Int × Int)} (S : SoundFor t ps)
    {x : Int} {id : Nat} {isNew : Bool} (he : t.addNodeNew x = .ok (t', id, isNew))
    (hps : ∀ p, p ∈ ps → p ∈ ps') :
    Simple t' ∧ ConnLe (G t' (Reach ps')) t' ∧ t'.sets[id]? = some [x] ∧
      (isNew = true ↔ alGet t.elemIds x = none) := by
  obtain ⟨S', L', hid, _⟩ := addNodeNew_sound S.simple S.le he hps
  refine ⟨S', L', hid, ?_⟩
  rcases addNodeNew_nil S.simple.subs_nil he with ⟨hx, rfl, _⟩ | ⟨hx, rfl, _, _⟩
  · simp [hx]
  · simp [hx]

/-- `add` preserves the collapse-free invariant whenever it does not collapse classes -/
theorem tr_add_inv_partial {t t' : TrRel} {ps : List (Int × Int)} {x y : Int} {b : Bool} (S : SoundFor t ps)
    (he : t.add x y = .ok (t', b)) (hs : t'.subs = []) : SoundFor t' (ps ++ [(x, y)]) :=
  add_sound S he hs

/-- the back-edge collapse (`merge_multiple`) always records a subsumption … -/
theorem tr_collapse_records_subsumption {t t' : TrRel} {frm to m : Nat} {ib : NSet}
    (he : t.mergeMultiple frm to ib = .ok (t', m)) : t'.subs ≠ [] :=
  mergeMultiple_subs_ne_nil he

/-- … and subsumptions are never removed, so `t.subs = []` at the end of a history means that no
collapse happened anywhere in it -/
theorem tr_subsumptions_persist {t t' : TrRel} {x y : Int} {b : Bool} (h : t.subs ≠ [])
    (he : t.add x y = .ok (t', b)) : t'.subs ≠ [] :=
  add_subs_ne_nil h he

/-- collapse-free histories: every mentioned element is related to itself -/
theorem tr_contains_refl_partial {ps : List (Int × Int)} {t : TrRel} (hr : run {} ps = .ok t) (hs : t.subs = [])
    {x : Int} (hx : Mentioned ps x) : t.contains x x = .ok true := by
  have S := run_sound soundFor_empty hr hs
  simp only [List.nil_append] at S
  exact contains_refl_of_sound S hx

/-- collapse-free histories: every added pair is contained at the end of the history -/
theorem tr_contains_added_partial {ps : List (Int × Int)} {t : TrRel} (hr : run {} ps = .ok t) (hs : t.subs = [])
    {x y : Int} (hp : (x, y) ∈ ps) : t.contains x y = .ok true := by
  have S := run_sound soundFor_empty hr hs
  simp only [List.nil_append] at S
  exact contains_added_of_sound S hp

/-- collapse-free histories: `contains` is sound with respect to the reference closure -/
theorem tr_contains_sound_partial {ps : List (Int × Int)} {t : TrRel} (hr : run {} ps = .ok t) (hs : t.subs = [])
    {x y : Int} (h : t.contains x y = .ok true) : Closure ps x y := by
  have S := run_sound soundFor_empty hr hs
  simp only [List.nil_append] at S
  exact contains_sound_of_sound S h

/-- `add` also preserves mirror and transitive closedness of the connection maps -/
theorem tr_add_exact_partial {t t' : TrRel} {ps : List (Int × Int)} {x y : Int} {b : Bool} (E : ExactFor t ps)
    (he : t.add x y = .ok (t', b)) (hs : t'.subs = []) : ExactFor t' (ps ++ [(x, y)]) :=
  add_exact E he hs

/-- the exact effect of `add_set_connection(f, to)` (no back edge `to → f`, `f ≠ to`) on a closed, mirrored state -/
theorem tr_addSetConnection_exact {t t' : TrRel} {f to : Nat} {b : Bool} (M : Mirror t) (K : Closed t)
    (hne : f ≠ to) (hback : ¬ rel t.conn to f) (he : t.addSetConnection f to = .ok (t', b)) :
    (∀ a c, rel t'.conn a c ↔ Cstar t f to a c) ∧ (∀ a c, rel t'.rconn c a ↔ Cstar t f to a c) :=
  addSetConnection_exact M K hne hback he

/-- collapse-free histories: `contains` never panics and decides the reference closure -/
theorem tr_contains_iff_partial {ps : List (Int × Int)} {t : TrRel} (hr : run {} ps = .ok t) (hs : t.subs = [])
    (x y : Int) :
    (t.contains x y = .ok true ↔ Closure ps x y) ∧ (t.contains x y = .ok false ↔ ¬ Closure ps x y) := by
  have E := run_exact exactFor_empty hr hs
  simp only [List.nil_append] at E
  obtain ⟨r, hc, _⟩ := contains_eq_of_sound E.sound x y
  have h1 : t.contains x y = .ok true ↔ Closure ps x y :=
    ⟨contains_sound_of_sound E.sound, contains_complete_of_exact E⟩
  refine ⟨h1, ?_⟩
  rw [← h1, hc]
  cases r <;> simp

/-- histories in which no pair closes a cycle run without panic and without collapse, and
`assert_disjoint_invariant` holds at the end -/
theorem tr_acyclic_run_ok {ps : List (Int × Int)} (h : AcyclicFrom [] ps) :
    ∃ t, run {} ps = .ok t ∧ t.subs = [] ∧ t.disjointInvariant = true := by
  obtain ⟨t, hr, E⟩ := run_acyclic exactFor_empty h
  simp only [List.nil_append] at E
  exact ⟨t, hr, E.sound.simple.subs_nil, E.sound.disjoint⟩

/-- … and on them `contains` is exactly the reference closure -/
theorem tr_acyclic_contains_iff {ps : List (Int × Int)} (h : AcyclicFrom [] ps) :
    ∃ t, run {} ps = .ok t ∧ ∀ x y,
      (t.contains x y = .ok true ↔ Closure ps x y) ∧ (t.contains x y = .ok false ↔ ¬ Closure ps x y) := by
  obtain ⟨t, hr, hs, _⟩ := tr_acyclic_run_ok h
  exact ⟨t, hr, tr_contains_iff_partial hr hs⟩

/-! ### full strength: all histories -/

/-- the empty structure satisfies the invariant for the empty history -/
theorem tr_inv_empty : Inv {} [] := inv_empty

/-- `add_node_new` never panics under the invariant, keeps it, and returns the dominant set containing the element -/
theorem tr_addNodeNew_inv {t : TrRel} {ps : List (Int × Int)} (C : Core t ps) (x : Int) :
    ∃ t' id isNew, t.addNodeNew x = .ok (t', id, isNew) ∧ Core t' ps ∧ Mem t' id x ∧ IsDom t' id ∧
      (isNew = true ↔ alGet t.elemIds x = none) := by
  obtain ⟨t', id, isNew, h, C', N⟩ := addNodeNew_core C x
  exact ⟨t', id, isNew, h, C', N.mem, C'.mem_dom N.mem, N.new_iff⟩

/-- `add` never panics under the invariant (in any branch, including the back-edge collapse) and
re-establishes it for the extended history -/
theorem tr_add_inv {t : TrRel} {ps : List (Int × Int)} (I : Inv t ps) (x y : Int) :
    ∃ t' b, t.add x y = .ok (t', b) ∧ Inv t' (ps ++ [(x, y)]) := add_inv I x y

/-- every history runs without panic and ends in a state satisfying the invariant -/
theorem tr_run_inv (ps : List (Int × Int)) : ∃ t, run {} ps = .ok t ∧ Inv t ps := by
  obtain ⟨t, hr, I⟩ := run_inv inv_empty ps
  simp only [List.nil_append] at I
  exact ⟨t, hr, I⟩

/-- the collapse branch of `add` never panics; its intermediate states are described by
`PrepPost` / `ConnPost` / `MergePost`, and the merged sets are `in_between ∪ {y_set}` -/
theorem tr_collapse_run {t : TrRel} {ps : List (Int × Int)} {x0 y0 : Int} {X Y : Nat} (K : CollapseCtx t ps x0 y0 X Y) :
    ∃ ta t3 t9 ml tm, (∀ m, m ∈ ml ↔ InM t X Y m) ∧ (∀ m, m ∈ tm ↔ InM t X Y m ∨ m = Y) ∧
      PrepPost t ta X Y tm ∧ ConnPost ta t3 X Y ∧ ConnLe (GSem t (ps ++ [(x0, y0)])) t3 ∧ MergePost t3 t9 X Y ml ∧
      collapseBranch t x0 y0 X Y = .ok ({ t9 with elemIds := alSet (alSet t9.elemIds x0 X) y0 X }, true) :=
  collapse_run K

/-- on any state satisfying the invariant, `contains` never panics and decides the reference closure -/
theorem tr_contains_of_inv {t : TrRel} {ps : List (Int × Int)} (I : Inv t ps) (x y : Int) :
    (t.contains x y = .ok true ↔ Closure ps x y) ∧ (t.contains x y = .ok false ↔ ¬ Closure ps x y) :=
  contains_iff_of_inv I x y

/-- **Main theorem for `TrRelUnionFind`.**  For every history of `add`s: no panic, both self-checks
hold at the end, and `contains` is exactly the reflexive transitive closure of the added pairs on
mentioned elements. -/
theorem tr_contains_iff (ps : List (Int × Int)) : ∃ t, run {} ps = .ok t ∧ t.disjointInvariant ∧ t.connectionsDominant ∧
    ∀ x y, (t.contains x y = .ok true ↔ Closure ps x y) ∧ (t.contains x y = .ok false ↔ ¬ Closure ps x y) := by
  obtain ⟨t, hr, I⟩ := tr_run_inv ps
  exact ⟨t, hr, I.core.disjointInvariant, I.core.connectionsDominant, contains_iff_of_inv I⟩

/-- **`set_of`** after any history: `None` exactly for unmentioned elements, otherwise exactly the
successors in the closure (the element included), each listed once -/
theorem tr_set_of (ps : List (Int × Int)) : ∃ t, run {} ps = .ok t ∧ ∀ x,
    (¬ Mentioned ps x ∧ t.setOf x = .ok none) ∨
    (Mentioned ps x ∧ ∃ l, t.setOf x = .ok (some l) ∧ l.Nodup ∧ ∀ y, y ∈ l ↔ Closure ps x y) := by
  obtain ⟨t, hr, I⟩ := tr_run_inv ps
  exact ⟨t, hr, setOf_spec I⟩

/-- **`rev_set_of`** after any history: `None` exactly for unmentioned elements, otherwise exactly the
predecessors in the closure (the element included), each listed once -/
theorem tr_rev_set_of (ps : List (Int × Int)) : ∃ t, run {} ps = .ok t ∧ ∀ x,
    (¬ Mentioned ps x ∧ t.revSetOf x = .ok none) ∨
    (Mentioned ps x ∧ ∃ l, t.revSetOf x = .ok (some l) ∧ l.Nodup ∧ ∀ y, y ∈ l ↔ Closure ps y x) := by
  obtain ⟨t, hr, I⟩ := tr_run_inv ps
  exact ⟨t, hr, revSetOf_spec I⟩

/-- **`iter_all`** after any history enumerates exactly the pairs of the closure, each exactly once -/
theorem tr_iter_all (ps : List (Int × Int)) : ∃ t l, run {} ps = .ok t ∧ t.iterAll = .ok l ∧ l.Nodup ∧
    ∀ p, p ∈ l ↔ Closure ps p.1 p.2 := by
  obtain ⟨t, hr, I⟩ := tr_run_inv ps
  obtain ⟨l, hl, hnd, hm⟩ := iterAll_spec I
  exact ⟨t, l, hr, hl, hnd, hm⟩

/-- **`count_exact`** after any history is the number of closure pairs: the length of a duplicate-free
list enumerating exactly the pairs of the closure -/
theorem tr_count_exact (ps : List (Int × Int)) : ∃ t, run {} ps = .ok t ∧
    ∃ L : List (Int × Int), L.Nodup ∧ (∀ p, p ∈ L ↔ Closure ps p.1 p.2) ∧ t.countExact = .ok L.length := by
  obtain ⟨t, hr, I⟩ := tr_run_inv ps
  exact ⟨t, hr, countExact_spec I⟩

/-- … in particular `count_exact` = number of pairs yielded by `iter_all` -/
theorem tr_count_exact_eq_iter_all (ps : List (Int × Int)) : ∃ t l, run {} ps = .ok t ∧ t.iterAll = .ok l ∧
    t.countExact = .ok l.length := by
  obtain ⟨t, hr, I⟩ := tr_run_inv ps
  obtain ⟨l, hl, hnd, hm⟩ := iterAll_spec I
  obtain ⟨L, hLnd, hLm, hc⟩ := countExact_spec I
  have hp : L.Perm l := (List.perm_ext_iff_of_nodup hLnd hnd).mpr fun p => (hLm p).trans (hm p).symm
  exact ⟨t, l, hr, hl, by rw [hc, hp.length_eq]⟩

/-! ### non-vacuity -/

/-- a collapse-free history with a diamond and an implied pair -/
def dagHistory : List (Int × Int) := [(1, 2), (1, 3), (2, 4), (3, 4), (1, 4), (5, 5)]

def dagState : TrRel := match run {} dagHistory with | .ok t => t | .panic => {}

theorem dagState_run : run {} dagHistory = .ok dagState := by decide
theorem dagState_subs : dagState.subs = [] := by decide

example : SoundFor {} [] := tr_inv_init

example : dagState.contains 4 4 = .ok true :=
  tr_contains_refl_partial dagState_run dagState_subs ⟨(2, 4), by decide, Or.inr rfl⟩

example : dagState.contains 1 4 = .ok true := by decide

example : dagState.contains 2 4 = .ok true := tr_contains_added_partial dagState_run dagState_subs (by decide)

example : Closure dagHistory 1 4 := tr_contains_sound_partial dagState_run dagState_subs (x := 1) (y := 4) (by decide)

/-- the reference closure is not everything: 4 does not reach 1 -/
example : dagState.contains 4 1 = .ok false := by decide

example : SoundFor dagState dagHistory := by
  have := run_sound soundFor_empty dagState_run dagState_subs
  simpa using this

/-- `add_node_new` of a fresh element on the diamond state -/
example : ∃ t' id, dagState.addNodeNew 7 = .ok (t', id, true) ∧ Simple t' ∧ t'.sets[id]? = some [7] := by
  have S : SoundFor dagState dagHistory := by
    have := run_sound soundFor_empty dagState_run dagState_subs
    simpa using this
  have he : dagState.addNodeNew 7 = .ok (withNew dagState 7, 5, true) := by decide
  obtain ⟨S', _, hid, _⟩ := tr_addNodeNew_inv_partial S he (fun _ h => h)
  exact ⟨_, _, he, S', hid⟩

/-- `add` of a forward edge keeps the invariant -/
example : ∃ t' b, dagState.add 4 5 = .ok (t', b) ∧ SoundFor t' (dagHistory ++ [(4, 5)]) := by
  have S : SoundFor dagState dagHistory := by
    have := run_sound soundFor_empty dagState_run dagState_subs
    simpa using this
  cases he : dagState.add 4 5 with
  | panic => exact absurd he (by decide)
  | ok r =>
    obtain ⟨t', b⟩ := r
    have hs : t'.subs = [] := by
      have : (match dagState.add 4 5 with | .ok (t', _) => t'.subs | .panic => [(0, 0)]) = [] := by decide
      rw [he] at this; exact this
    exact ⟨t', b, rfl, tr_add_inv_partial S he hs⟩

example : (dagState.contains 1 4 = .ok true ↔ Closure dagHistory 1 4) ∧ (dagState.contains 1 4 = .ok false ↔ ¬ Closure dagHistory 1 4) :=
  tr_contains_iff_partial dagState_run dagState_subs 1 4

/-- the reference closure really excludes pairs: 4 does not reach 1 (obtained through the theorem, from the model's answer) -/
example : ¬ Closure dagHistory 4 1 :=
  (tr_contains_iff_partial dagState_run dagState_subs 4 1).2.mp (by decide)

theorem reach_nil {a b : Int} (h : Reach [] a b) : a = b := by
  induction h with
  | refl => rfl
  | tail _ hr _ => simp at hr

theorem reach_single {x y a b : Int} (h : Reach [(x, y)] a b) : a = b ∨ (a = x ∧ b = y) := by
  induction h with
  | refl => exact Or.inl rfl
  | tail _ hr ih =>
    simp at hr
    obtain ⟨rfl, rfl⟩ := hr
    rcases ih with rfl | ⟨rfl, _⟩
    · exact Or.inr ⟨rfl, rfl⟩
    · exact Or.inr ⟨rfl, rfl⟩

/-- an acyclic history: a fork and a self pair -/
theorem acyclic_example : AcyclicFrom [] [(1, 2), (1, 3), (3, 3)] := by
  refine ⟨Or.inr ?_, Or.inr ?_, Or.inl rfl, trivial⟩
  · intro h; have := reach_nil h; omega
  · intro h
    rcases reach_single h with h | ⟨h, _⟩ <;> omega

example : ∃ t, run {} [(1, 2), (1, 3), (3, 3)] = .ok t ∧ t.subs = [] ∧ t.disjointInvariant = true :=
  tr_acyclic_run_ok acyclic_example

example : ∃ t, run {} [(1, 2), (1, 3), (3, 3)] = .ok t ∧ ∀ x y,
    (t.contains x y = .ok true ↔ Closure [(1, 2), (1, 3), (3, 3)] x y) ∧
    (t.contains x y = .ok false ↔ ¬ Closure [(1, 2), (1, 3), (3, 3)] x y) :=
  tr_acyclic_contains_iff acyclic_example

example : ExactFor dagState dagHistory := by
  have := run_exact exactFor_empty dagState_run dagState_subs
  simpa using this

/-- `add_set_connection` exactness applies to the diamond state: 4 → 5 after adding the element 5's set (index 4) -/
example : Mirror dagState ∧ Closed dagState := by
  have E : ExactFor dagState dagHistory := by
    have := run_exact exactFor_empty dagState_run dagState_subs
    simpa using this
  exact ⟨E.mirror, E.closed⟩

/-- a back edge does collapse: the hypothesis `t.subs = []` of the partial theorems is not always true -/
example : (match run {} [(1, 2), (2, 1)] with | .ok t => t.subs | .panic => []) ≠ [] := by decide

/-- the collapse lemma applies to a concrete `merge_multiple` -/
example : ∃ t' m, (match run {} [(1, 2)] with | .ok t => t | .panic => {}).mergeMultiple 0 1 [] = .ok (t', m) ∧ t'.subs ≠ [] := by
  cases he : (match run {} [(1, 2)] with | .ok t => t | .panic => {}).mergeMultiple 0 1 [] with
  | panic => exact absurd he (by decide)
  | ok r => exact ⟨r.1, r.2, rfl, tr_collapse_records_subsumption he⟩

/-- subsumptions persist on a concrete history -/
example : ∃ t' b, (match run {} [(1, 2), (2, 1)] with | .ok t => t | .panic => {}).add 3 3 = .ok (t', b) ∧ t'.subs ≠ [] := by
  cases he : (match run {} [(1, 2), (2, 1)] with | .ok t => t | .panic => {}).add 3 3 with
  | panic => exact absurd he (by decide)
  | ok r => exact ⟨r.1, r.2, rfl, tr_subsumptions_persist (by decide) he⟩

/-! ### non-vacuity of the full-strength theorems -/

/-- a history with two collapses (one through `in_between`), adds after a collapse, and a self pair -/
def cycHistory : List (Int × Int) := [(1, 2), (2, 3), (3, 1), (4, 5), (5, 4), (6, 6), (1, 4), (4, 3), (7, 1)]

example : ∃ t, run {} cycHistory = .ok t ∧ t.disjointInvariant ∧ t.connectionsDominant ∧
    ∀ x y, (t.contains x y = .ok true ↔ Closure cycHistory x y) ∧ (t.contains x y = .ok false ↔ ¬ Closure cycHistory x y) :=
  tr_contains_iff cycHistory

/-- the history really collapses: four subsumptions are recorded -/
example : (match run {} cycHistory with | .ok t => t.subs.length | .panic => 0) = 4 := by decide

/-- … and through the theorem: 5 reaches 2 (only via the collapsed cycle), 1 does not reach 7 -/
example : Closure cycHistory 5 2 := by
  obtain ⟨t, hr, _, _, h⟩ := tr_contains_iff cycHistory
  have ht : t = (match run {} cycHistory with | .ok t => t | .panic => {}) := by rw [hr]
  exact (h 5 2).1.mp (by rw [ht]; decide)

example : ¬ Closure cycHistory 1 7 := by
  obtain ⟨t, hr, _, _, h⟩ := tr_contains_iff cycHistory
  have ht : t = (match run {} cycHistory with | .ok t => t | .panic => {}) := by rw [hr]
  exact (h 1 7).2.mp (by rw [ht]; decide)

example : Inv {} [] := tr_inv_empty

example : ∃ t, run {} cycHistory = .ok t ∧ Inv t cycHistory := tr_run_inv cycHistory

/-- the collapse context is inhabited: after `add(1,2)`, the pair `(2,1)` is a back edge between sets 1 and 0 -/
example : ∃ t, run {} [(1, 2)] = .ok t ∧ CollapseCtx t [(1, 2)] 2 1 1 0 := by
  obtain ⟨t, hr, I⟩ := tr_run_inv [(1, 2)]
  have ht : t = (match run {} [(1, 2)] with | .ok t => t | .panic => {}) := by rw [hr]
  refine ⟨t, hr, I.core, ?_, ?_, by decide, ?_⟩
  · rw [ht]; exact ⟨[2], by decide, by decide⟩
  · rw [ht]; exact ⟨[1], by decide, by decide⟩
  · rw [ht]; exact ⟨[1], by decide, by decide⟩

/-- the diagonal junk is real and not mirrored: after `add(1,2); add(2,1)` -/
example : (match run {} [(1, 2), (2, 1)] with | .ok t => (t.conn, t.rconn) | .panic => ([], [])) = ([(1, [1])], [(1, [])]) := by
  decide

/-- the derived queries on the collapsing history -/
example : ∃ t l, run {} cycHistory = .ok t ∧ t.iterAll = .ok l ∧ l.Nodup ∧ ∀ p, p ∈ l ↔ Closure cycHistory p.1 p.2 :=
  tr_iter_all cycHistory

example : ∃ t l, run {} cycHistory = .ok t ∧ t.iterAll = .ok l ∧ t.countExact = .ok l.length :=
  tr_count_exact_eq_iter_all cycHistory

/-- on it: 5 elements in one class (25 pairs), `6` alone (1), `7` reaching itself and the class (6) -/
example : (match run {} cycHistory with | .ok t => t.countExact | .panic => .panic) = .ok 32 := by decide

example : (match run {} cycHistory with | .ok t => t.setOf 7 | .panic => .panic) = .ok (some [3, 2, 1, 5, 4, 7]) := by decide

example : (match run {} cycHistory with | .ok t => t.revSetOf 6 | .panic => .panic) = .ok (some [6]) := by decide

example : (match run {} cycHistory with | .ok t => t.setOf 9 | .panic => .panic) = .ok none := by decide

example : ∃ t, run {} cycHistory = .ok t ∧ ∀ x,
    (¬ Mentioned cycHistory x ∧ t.setOf x = .ok none) ∨
    (Mentioned cycHistory x ∧ ∃ l, t.setOf x = .ok (some l) ∧ l.Nodup ∧ ∀ y, y ∈ l ↔ Closure cycHistory x y) :=
  tr_set_of cycHistory

example : ∃ t, run {} cycHistory = .ok t ∧ ∀ x,
    (¬ Mentioned cycHistory x ∧ t.revSetOf x = .ok none) ∨
    (Mentioned cycHistory x ∧ ∃ l, t.revSetOf x = .ok (some l) ∧ l.Nodup ∧ ∀ y, y ∈ l ↔ Closure cycHistory y x) :=
  tr_rev_set_of cycHistory

example : ∃ t, run {} cycHistory = .ok t ∧
    ∃ L : List (Int × Int), L.Nodup ∧ (∀ p, p ∈ L ↔ Closure cycHistory p.1 p.2) ∧ t.countExact = .ok L.length :=
  tr_count_exact cycHistory

end AscentVerif.TrRel

/-! ## axiom audit (only `propext`, `Classical.choice`, `Quot.sound` may appear) -/
#print axioms AscentVerif.UF.uf_wf_init
#print axioms AscentVerif.UF.uf_add_ok
#print axioms AscentVerif.UF.uf_find_ok
#print axioms AscentVerif.UF.uf_findItem_ok
#print axioms AscentVerif.UF.uf_findItem_unknown
#print axioms AscentVerif.UF.uf_union_ok
#print axioms AscentVerif.UF.uf_run_ok
#print axioms AscentVerif.UF.uf_next_one_cycle
#print axioms AscentVerif.UF.uf_union_next
#print axioms AscentVerif.UF.uf_len
#print axioms AscentVerif.UF.uf_same_class_iff
#print axioms AscentVerif.TrRel.tr_inv_init
#print axioms AscentVerif.TrRel.tr_addNodeNew_inv_partial
#print axioms AscentVerif.TrRel.tr_add_inv_partial
#print axioms AscentVerif.TrRel.tr_collapse_records_subsumption
#print axioms AscentVerif.TrRel.tr_subsumptions_persist
#print axioms AscentVerif.TrRel.tr_contains_refl_partial
#print axioms AscentVerif.TrRel.tr_contains_added_partial
#print axioms AscentVerif.TrRel.tr_contains_sound_partial
#print axioms AscentVerif.TrRel.tr_add_exact_partial
#print axioms AscentVerif.TrRel.tr_addSetConnection_exact
#print axioms AscentVerif.TrRel.tr_contains_iff_partial
#print axioms AscentVerif.TrRel.tr_acyclic_run_ok
#print axioms AscentVerif.TrRel.tr_acyclic_contains_iff
#print axioms AscentVerif.TrRel.tr_inv_empty
#print axioms AscentVerif.TrRel.tr_addNodeNew_inv
#print axioms AscentVerif.TrRel.tr_add_inv
#print axioms AscentVerif.TrRel.tr_run_inv
#print axioms AscentVerif.TrRel.tr_collapse_run
#print axioms AscentVerif.TrRel.tr_contains_of_inv
#print axioms AscentVerif.TrRel.tr_contains_iff
#print axioms AscentVerif.TrRel.tr_set_of
#print axioms AscentVerif.TrRel.tr_rev_set_of
#print axioms AscentVerif.TrRel.tr_iter_all
#print axioms AscentVerif.TrRel.tr_count_exact
#print axioms AscentVerif.TrRel.tr_count_exact_eq_iter_all
