import AscentVerif.Props.C01
import AscentVerif.Props.C19
/-!
# C05 — relations are sets: a tuple is inserted exactly once, inputs are never lost

Serial half: corollaries of the engine invariants (`run_from_eq_leastModel`), from ANY
well-formed start value (fresh, re-run, resumed).  Parallel half: the head update of
`ascent_par!` pushes a row iff `insert_if_not_present` on the `new` full index returns true;
by C19's race theorem exactly one of the workers racing on a tuple gets `true`, in every
interleaving of the (shard-locked, hence atomic) steps.
-/
namespace AscentVerif.Engine
open AscentVerif

variable {E B G P A : Type}

/-- the row vector after `run()` is the previous row vector followed by pairwise distinct new
tuples, none of which was present before: nothing is inserted twice, whatever the number of
rules, variants and iterations deriving it, and whether it was an input or derived earlier -/
theorem rows_set (I : Interp E B G P A) (cfg : Config) (p : Program E B G P A) (order : SccOrder)
    (s : St) (fuel : Nat) (ps : ProgSt)
    (hp : Relational p) (ho : validOrder p order = true) (hs : WFSt p s)
    (hrun : run I cfg p order fuel s = .done ps) :
    ∀ r, r < p.rels.length → ∃ derived, (relSt ps.st r).rows = (relSt s r).rows ++ derived ∧
      derived.Nodup ∧ ∀ t ∈ derived, t ∉ (relSt s r).rows :=
  (run_from_eq_leastModel I cfg p order s fuel ps hp ho hs hrun).2.2

/-- every input tuple is still present, unmodified and at its original position -/
theorem inputs_kept (I : Interp E B G P A) (cfg : Config) (p : Program E B G P A) (order : SccOrder)
    (s : St) (fuel : Nat) (ps : ProgSt)
    (hp : Relational p) (ho : validOrder p order = true) (hs : WFSt p s)
    (hrun : run I cfg p order fuel s = .done ps) :
    ∀ r, r < p.rels.length → ∀ i, i < (relSt s r).rows.length →
      (relSt ps.st r).rows[i]? = (relSt s r).rows[i]? := by
  intro r hr i hi
  obtain ⟨derived, hd, _, _⟩ := rows_set I cfg p order s fuel ps hp ho hs hrun r hr
  rw [hd, List.getElem?_append_left hi]

/-- the number of rows equals the number of distinct tuples beyond the duplicates the caller put in -/
theorem rows_count (I : Interp E B G P A) (cfg : Config) (p : Program E B G P A) (order : SccOrder)
    (inp : RelId → List Tuple) (fuel : Nat) (ps : ProgSt)
    (hp : Relational p) (ho : validOrder p order = true) (hnd : ∀ r, (inp r).Nodup)
    (hrun : run I cfg p order fuel (initSt p inp) = .done ps) :
    ∀ r, r < p.rels.length → (relSt ps.st r).rows.Nodup := by
  intro r hr
  obtain ⟨derived, hd, hn, hdisj⟩ := run_rows_set I cfg p order inp fuel ps hp ho hrun r hr
  rw [hd]
  exact List.nodup_append.mpr ⟨hnd r, hn, fun a ha b hb hab => hdisj b hb (hab ▸ ha)⟩

/-- **parallel head update**: among any number of workers that derive the same not-yet-present
tuple at the same time, in every interleaving exactly one wins `insert_if_not_present` (and
pushes the row); if the tuple is present nobody does -/
theorem par_exactly_one_push (c cf : Index.CFullIdx Unit) (hn : 0 < c.shards.length)
    (attempts : List (Int × Unit)) (rs : List Bool) (h : Index.raceRun c attempts = some (cf, rs)) (tuple : Int) :
    ((attempts.zip rs).filter (fun ar => ar.1.1 = tuple ∧ ar.2 = true)).length =
      (if (c.getCloned tuple).isSome then 0 else if attempts.any (fun a => a.1 = tuple) then 1 else 0) :=
  (Index.CFullIdx.race_one_winner c cf hn attempts rs h tuple).2.1

example : ([1, 2, 3] : List Nat).Nodup := by decide

end AscentVerif.Engine
