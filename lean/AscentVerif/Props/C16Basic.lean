import AscentVerif.Spec.LatticeLaws
import AscentVerif.Proofs.LatticeBasic
/-!
# C16 (part 1): derived algebraic laws; linear orders; wrappers

All statements are proved; nothing is assumed.
-/
namespace AscentVerif.Lat

/-! ## the algebraic laws of the property statement, derived once from `LawfulLat` -/
section derived
variable {α : Type} [Lat α] {WF : α → Prop}

theorem join_comm (h : LawfulLat α WF) (a b : α) (ha : WF a) (hb : WF b) : join a b = join b a :=
  le_antisymm' h _ _ (h.join_wf a b ha hb) (h.join_wf b a hb ha)
    (h.join_le a b _ ha hb (h.join_wf b a hb ha) (h.le_join_right b a hb ha) (h.le_join_left b a hb ha))
    (h.join_le b a _ hb ha (h.join_wf a b ha hb) (h.le_join_right a b ha hb) (h.le_join_left a b ha hb))
theorem meet_comm (h : LawfulLat α WF) (a b : α) (ha : WF a) (hb : WF b) : meet a b = meet b a :=
  le_antisymm' h _ _ (h.meet_wf a b ha hb) (h.meet_wf b a hb ha)
    (h.le_meet b a _ hb ha (h.meet_wf a b ha hb) (h.meet_le_right a b ha hb) (h.meet_le_left a b ha hb))
    (h.le_meet a b _ ha hb (h.meet_wf b a hb ha) (h.meet_le_right b a hb ha) (h.meet_le_left b a hb ha))
theorem join_assoc (h : LawfulLat α WF) (a b c : α) (ha : WF a) (hb : WF b) (hc : WF c) :
    join (join a b) c = join a (join b c) := by
  have wab := h.join_wf a b ha hb
  have wbc := h.join_wf b c hb hc
  have wl := h.join_wf _ c wab hc
  have wr := h.join_wf a _ ha wbc
  apply le_antisymm' h _ _ wl wr
  · apply h.join_le _ _ _ wab hc wr
    · apply h.join_le _ _ _ ha hb wr
      · exact h.le_join_left a _ ha wbc
      · exact h.le_trans b (join b c) _ hb wbc wr (h.le_join_left b c hb hc) (h.le_join_right a _ ha wbc)
    · exact h.le_trans c (join b c) _ hc wbc wr (h.le_join_right b c hb hc) (h.le_join_right a _ ha wbc)
  · apply h.join_le _ _ _ ha wbc wl
    · exact h.le_trans a (join a b) _ ha wab wl (h.le_join_left a b ha hb) (h.le_join_left _ c wab hc)
    · apply h.join_le _ _ _ hb hc wl
      · exact h.le_trans b (join a b) _ hb wab wl (h.le_join_right a b ha hb) (h.le_join_left _ c wab hc)
      · exact h.le_join_right _ c wab hc
theorem meet_assoc (h : LawfulLat α WF) (a b c : α) (ha : WF a) (hb : WF b) (hc : WF c) :
    meet (meet a b) c = meet a (meet b c) := by
  have wab := h.meet_wf a b ha hb
  have wbc := h.meet_wf b c hb hc
  have wl := h.meet_wf _ c wab hc
  have wr := h.meet_wf a _ ha wbc
  apply le_antisymm' h _ _ wl wr
  · apply h.le_meet _ _ _ ha wbc wl
    · exact h.le_trans _ (meet a b) a wl wab ha (h.meet_le_left _ c wab hc) (h.meet_le_left a b ha hb)
    · apply h.le_meet _ _ _ hb hc wl
      · exact h.le_trans _ (meet a b) b wl wab hb (h.meet_le_left _ c wab hc) (h.meet_le_right a b ha hb)
      · exact h.meet_le_right _ c wab hc
  · apply h.le_meet _ _ _ wab hc wr
    · apply h.le_meet _ _ _ ha hb wr
      · exact h.meet_le_left a _ ha wbc
      · exact h.le_trans _ (meet b c) b wr wbc hb (h.meet_le_right a _ ha wbc) (h.meet_le_left b c hb hc)
    · exact h.le_trans _ (meet b c) c wr wbc hc (h.meet_le_right a _ ha wbc) (h.meet_le_right b c hb hc)
theorem join_idem (h : LawfulLat α WF) (a : α) (ha : WF a) : join a a = a :=
  join_eq_of_le h a a ha ha (le_refl' h a ha)
theorem meet_idem (h : LawfulLat α WF) (a : α) (ha : WF a) : meet a a = a :=
  meet_eq_of_le h a a ha ha (le_refl' h a ha)
theorem join_meet_absorb (h : LawfulLat α WF) (a b : α) (ha : WF a) (hb : WF b) : join a (meet a b) = a :=
  join_eq_of_ge h a _ ha (h.meet_wf a b ha hb) (h.meet_le_left a b ha hb)
theorem meet_join_absorb (h : LawfulLat α WF) (a b : α) (ha : WF a) (hb : WF b) : meet a (join a b) = a :=
  meet_eq_of_le h a _ ha (h.join_wf a b ha hb) (h.le_join_left a b ha hb)
/-- `a <= b  iff  join(a, b) = b  iff  meet(a, b) = a` -/
theorem le_iff_join_eq (h : LawfulLat α WF) (a b : α) (ha : WF a) (hb : WF b) : le a b = true ↔ join a b = b :=
  ⟨join_eq_of_le h a b ha hb, fun e => by have := h.le_join_left a b ha hb; rwa [e] at this⟩
theorem le_iff_meet_eq (h : LawfulLat α WF) (a b : α) (ha : WF a) (hb : WF b) : le a b = true ↔ meet a b = a :=
  ⟨meet_eq_of_le h a b ha hb, fun e => by have := h.meet_le_right a b ha hb; rwa [e] at this⟩
/-- `join_mut` leaves `join`'s value and returns `true` exactly when the receiver changed -/
theorem joinMut_truthful (h : LawfulLat α WF) (a b : α) (ha : WF a) (hb : WF b) :
    (joinMut a b).1 = join a b ∧ ((joinMut a b).2 = true ↔ (joinMut a b).1 ≠ a) := by
  refine ⟨h.joinMut_fst a b ha hb, ?_⟩
  rw [h.joinMut_fst a b ha hb]; exact h.joinMut_snd a b ha hb
theorem meetMut_truthful (h : LawfulLat α WF) (a b : α) (ha : WF a) (hb : WF b) :
    (meetMut a b).1 = meet a b ∧ ((meetMut a b).2 = true ↔ (meetMut a b).1 ≠ a) := by
  refine ⟨h.meetMut_fst a b ha hb, ?_⟩
  rw [h.meetMut_fst a b ha hb]; exact h.meetMut_snd a b ha hb
/-- a repeated `join_mut` with the same argument reports no change (what stops the engine's fixpoint loop) -/
theorem joinMut_idle (h : LawfulLat α WF) (a b : α) (ha : WF a) (hb : WF b) :
    (joinMut (joinMut a b).1 b).2 = false := by
  rw [h.joinMut_fst a b ha hb]
  have wab := h.join_wf a b ha hb
  have e : join (join a b) b = join a b :=
    join_eq_of_ge h _ b wab hb (h.le_join_right a b ha hb)
  have := h.joinMut_snd (join a b) b wab hb
  cases hx : (joinMut (join a b) b).2 with
  | false => rfl
  | true => exact absurd e (this.1 hx)
end derived

/-! ## `Ord` types -/
theorem lawfulLinOrd_int : LawfulLinOrd Int := by
  constructor
  · intro a; exact (int_cmp a a).2.1.2 rfl
  · intro a b; exact (int_cmp a b).2.1.1
  · intro a b
    show compare b a = (compare a b).swap
    have h1 := int_cmp a b; have h2 := int_cmp b a
    cases e : compare a b <;> cases e2 : compare b a <;> simp_all <;> omega
  · intro a b c h1 h2
    exact (int_cmp a c).1.2 (Int.lt_trans ((int_cmp a b).1.1 h1) ((int_cmp b c).1.1 h2))
theorem lawfulLinOrd_nat : LawfulLinOrd Nat := by
  constructor
  · intro a; exact (nat_cmp a a).2.1.2 rfl
  · intro a b; exact (nat_cmp a b).2.1.1
  · intro a b
    show compare b a = (compare a b).swap
    have h1 := nat_cmp a b; have h2 := nat_cmp b a
    cases e : compare a b <;> cases e2 : compare b a <;> simp_all <;> omega
  · intro a b c h1 h2
    exact (nat_cmp a c).1.2 (Nat.lt_trans ((nat_cmp a b).1.1 h1) ((nat_cmp b c).1.1 h2))
theorem lawfulLinOrd_bool : LawfulLinOrd Bool :=
  lawfulLinOrd_of_key lawfulLinOrd_nat Bool.toNat
    (fun a b e => by cases a <;> cases b <;> simp_all) (fun _ _ => rfl)
theorem lawfulLinOrd_unit : LawfulLinOrd Unit :=
  ⟨fun _ => rfl, fun _ _ _ => rfl, fun _ _ => rfl, fun _ _ _ h _ => h⟩
theorem lawfulLinOrd_bint (lo hi : Int) : LawfulLinOrd (BInt lo hi) :=
  lawfulLinOrd_of_key lawfulLinOrd_int BInt.val
    (fun a b e => by cases a; cases b; simp_all) (fun _ _ => rfl)
/-- lexicographic order on tuples (right-nested pairs, any arity) -/
theorem lawfulLinOrd_prod {α β : Type} [LinOrd α] [LinOrd β] (ha : LawfulLinOrd α) (hb : LawfulLinOrd β) :
    LawfulLinOrd (α × β) := by
  have hc : ∀ a b : α × β, LinOrd.cmp a b =
      (match LinOrd.cmp a.1 b.1 with | .eq => LinOrd.cmp a.2 b.2 | o => o) := fun _ _ => rfl
  constructor
  · intro a; rw [hc, ha.cmp_refl]; exact hb.cmp_refl _
  · intro a b; rw [hc]
    cases e : LinOrd.cmp a.1 b.1 <;> simp only [] <;> intro e2
    · cases e2
    · exact Prod.ext (ha.eq_of_cmp_eq _ _ e) (hb.eq_of_cmp_eq _ _ e2)
    · cases e2
  · intro a b; rw [hc, hc, ha.cmp_swap a.1 b.1]
    cases e : LinOrd.cmp a.1 b.1 <;> simp only [Ordering.swap]
    exact hb.cmp_swap _ _
  · intro a b c; rw [hc, hc, hc]
    cases e1 : LinOrd.cmp a.1 b.1 <;> simp only [] <;> intro h1
    · cases e2 : LinOrd.cmp b.1 c.1 <;> simp only [] <;> intro h2
      · rw [ha.lt_trans _ _ _ e1 e2]
      · have := ha.eq_of_cmp_eq _ _ e2; rw [← this, e1]
      · cases h2
    · have e1' := ha.eq_of_cmp_eq _ _ e1
      rw [e1']
      cases e2 : LinOrd.cmp b.1 c.1 <;> simp only [] <;> intro h2
      · trivial
      · exact hb.lt_trans _ _ _ h1 h2
      · cases h2
    · cases h1

/-- `Dual<T: Ord>` as an `Ord` type: the reversed order is a linear order -/
theorem lawfulLinOrd_dualLin {α : Type} [LinOrd α] (h : LawfulLinOrd α) : LawfulLinOrd (DualLin α) := by
  have hc : ∀ a b : DualLin α, LinOrd.cmp a b = LinOrd.cmp b.val a.val := fun _ _ => rfl
  constructor
  · intro a; rw [hc]; exact h.cmp_refl _
  · intro a b e; rw [hc] at e
    have := h.eq_of_cmp_eq _ _ e
    cases a; cases b; simp_all
  · intro a b; rw [hc, hc]; exact h.cmp_swap _ _
  · intro a b c h1 h2; rw [hc] at h1 h2 ⊢
    exact h.lt_trans _ _ _ h2 h1

/-! ## primitive integers and `bool` -/
theorem lawful_prim {α : Type} [LinOrd α] (h : LawfulLinOrd α) : LawfulLat (Prim α) AnyWF := by
  have hj : ∀ a b : Prim α, join a b =
      if !(LinOrd.cmp a.val b.val == .gt || LinOrd.cmp a.val b.val == .eq) then b else a := fun _ _ => rfl
  have hm : ∀ a b : Prim α, meet a b =
      if !(LinOrd.cmp a.val b.val == .lt || LinOrd.cmp a.val b.val == .eq) then b else a := fun _ _ => rfl
  have hjm : ∀ a b : Prim α, joinMut a b =
      (let changed := !(LinOrd.cmp a.val b.val == .gt || LinOrd.cmp a.val b.val == .eq)
       (if changed then b else a, changed)) := fun _ _ => rfl
  have hmm : ∀ a b : Prim α, meetMut a b =
      (let changed := !(LinOrd.cmp a.val b.val == .lt || LinOrd.cmp a.val b.val == .eq)
       (if changed then b else a, changed)) := fun _ _ => rfl
  apply lawful_of_lin h Prim.val
  · intro a b e; cases a; cases b; simp_all
  · intro a b; rfl
  · intro a b; rw [hj]; cases LinOrd.cmp a.val b.val <;> simp
  · intro a b; rw [hm]; cases LinOrd.cmp a.val b.val <;> simp
  · intro a b; rw [hjm, hj]; cases LinOrd.cmp a.val b.val <;> simp
  · intro a b; rw [hmm, hm]; cases LinOrd.cmp a.val b.val <;> simp

theorem prim_join_mem {α : Type} [LinOrd α] (a b : Prim α) : join a b = a ∨ join a b = b := by
  have hj : join a b =
      if !(LinOrd.cmp a.val b.val == .gt || LinOrd.cmp a.val b.val == .eq) then b else a := rfl
  rw [hj]; split <;> simp
theorem prim_meet_mem {α : Type} [LinOrd α] (a b : Prim α) : meet a b = a ∨ meet a b = b := by
  have hm : meet a b =
      if !(LinOrd.cmp a.val b.val == .lt || LinOrd.cmp a.val b.val == .eq) then b else a := rfl
  rw [hm]; split <;> simp

/-- a primitive integer type with `MIN ≤ MAX` (every Rust integer type). The hypothesis `lo ≤ hi` is needed:
without it `top`/`bottom` are not even values of the type (`lawfulB_prim_bint_needs_le`). -/
theorem lawfulB_prim_bint_needs_le :
    ¬ LawfulBLat (Prim (BInt 1 0)) (fun a => (1 : Int) ≤ a.val.val ∧ a.val.val ≤ 0) := by
  intro h
  have := h.top_wf
  exact absurd this.1 (by decide)

theorem lawfulB_prim_bint (lo hi : Int) (hlh : lo ≤ hi) :
    LawfulBLat (Prim (BInt lo hi)) (fun a => lo ≤ a.val.val ∧ a.val.val ≤ hi) := by
  have hl : LawfulLat (Prim (BInt lo hi)) (fun a => lo ≤ a.val.val ∧ a.val.val ≤ hi) := by
    apply lawful_restrict (lawful_prim (lawfulLinOrd_bint lo hi)) (fun _ _ => trivial)
    · intro a b ha hb; rcases prim_join_mem a b with e | e <;> rw [e] <;> assumption
    · intro a b ha hb; rcases prim_meet_mem a b with e | e <;> rw [e] <;> assumption
  have hle : ∀ a b : Prim (BInt lo hi), le a b = true ↔ a.val.val ≤ b.val.val := by
    intro a b
    have h1 := int_cmp a.val.val b.val.val
    show ((some (compare a.val.val b.val.val) == some Ordering.lt) ||
      (some (compare a.val.val b.val.val) == some Ordering.eq)) = true ↔ _
    cases e : compare a.val.val b.val.val <;> simp_all <;> omega
  exact
    { toLawfulLat := hl
      top_wf := ⟨hlh, Int.le_refl _⟩
      bottom_wf := ⟨Int.le_refl _, hlh⟩
      le_top := fun a ha => (hle a _).2 ha.2
      bottom_le := fun a ha => (hle _ a).2 ha.1 }

theorem lawfulB_prim_bool : LawfulBLat (Prim Bool) AnyWF :=
  { toLawfulLat := lawful_prim lawfulLinOrd_bool
    top_wf := trivial
    bottom_wf := trivial
    le_top := fun a _ => by rcases a with ⟨_ | _⟩ <;> decide
    bottom_le := fun a _ => by rcases a with ⟨_ | _⟩ <;> decide }

/-! ## wrappers, at every nesting depth (each takes the law-abidingness of its argument) -/
section wrappers
variable {α : Type} {WF : α → Prop}

section optionLemmas
variable [Lat α]
theorem opt_le_ss (x y : α) : le (some x) (some y) = le x y := rfl
theorem opt_le_n (b : Option α) : le none b = true := by cases b <;> rfl
theorem opt_le_sn (x : α) : le (some x) none = false := rfl
theorem opt_join_ss (x y : α) : join (some x) (some y) = some (joinMut x y).1 := rfl
theorem opt_join_ns (y : α) : join none (some y) = some y := rfl
theorem opt_join_n (a : Option α) : join a none = a := by cases a <;> rfl
theorem opt_meet_ss (x y : α) : meet (some x) (some y) = some (meetMut x y).1 := rfl
theorem opt_meet_sn (x : α) : meet (some x) none = none := rfl
theorem opt_meet_n (b : Option α) : meet none b = none := rfl
theorem opt_joinMut_ss (x y : α) : joinMut (some x) (some y) = (some (joinMut x y).1, (joinMut x y).2) := rfl
theorem opt_joinMut_ns (y : α) : joinMut none (some y) = (some y, true) := rfl
theorem opt_joinMut_n (a : Option α) : joinMut a none = (a, false) := by cases a <;> rfl
theorem opt_meetMut_ss (x y : α) : meetMut (some x) (some y) = (some (meetMut x y).1, (meetMut x y).2) := rfl
theorem opt_meetMut_sn (x : α) : meetMut (some x) none = (none, true) := rfl
theorem opt_meetMut_n (b : Option α) : meetMut none b = (none, false) := rfl
end optionLemmas

theorem lawful_option [Lat α] (h : LawfulLat α WF) : LawfulLat (Option α) (fun o => ∀ x, o = some x → WF x) := by
  refine
    { pcmp_refl := ?_, eq_of_pcmp_eq := ?_, pcmp_swap := ?_, le_trans := ?_,
      join_wf := ?_, meet_wf := ?_,
      le_join_left := ?_, le_join_right := ?_, join_le := ?_,
      meet_le_left := ?_, meet_le_right := ?_, le_meet := ?_,
      joinMut_fst := ?_, joinMut_snd := ?_, meetMut_fst := ?_, meetMut_snd := ?_ }
  · intro a ha
    cases a with
    | none => rfl
    | some x => exact h.pcmp_refl x (ha x rfl)
  · intro a b ha hb e
    cases a with
    | none => cases b with
      | none => rfl
      | some y => cases e
    | some x => cases b with
      | none => cases e
      | some y => exact congrArg some (h.eq_of_pcmp_eq x y (ha x rfl) (hb y rfl) e)
  · intro a b ha hb
    cases a with
    | none => cases b <;> rfl
    | some x => cases b with
      | none => rfl
      | some y => exact h.pcmp_swap x y (ha x rfl) (hb y rfl)
  · intro a b c ha hb hc h1 h2
    cases a with
    | none => exact opt_le_n _
    | some x => cases b with
      | none => cases h1
      | some y => cases c with
        | none => cases h2
        | some z => exact h.le_trans x y z (ha x rfl) (hb y rfl) (hc z rfl) h1 h2
  · intro a b ha hb z hz
    cases a with
    | none => cases b with
      | none => cases hz
      | some y => rw [opt_join_ns] at hz; exact hb z hz
    | some x => cases b with
      | none => rw [opt_join_n] at hz; exact ha z hz
      | some y =>
        rw [opt_join_ss, h.joinMut_fst x y (ha x rfl) (hb y rfl)] at hz
        cases hz; exact h.join_wf x y (ha x rfl) (hb y rfl)
  · intro a b ha hb z hz
    cases a with
    | none => cases hz
    | some x => cases b with
      | none => cases hz
      | some y =>
        rw [opt_meet_ss, h.meetMut_fst x y (ha x rfl) (hb y rfl)] at hz
        cases hz; exact h.meet_wf x y (ha x rfl) (hb y rfl)
  · intro a b ha hb
    cases a with
    | none => exact opt_le_n _
    | some x => cases b with
      | none => rw [opt_join_n, opt_le_ss]; exact le_refl' h x (ha x rfl)
      | some y =>
        rw [opt_join_ss, opt_le_ss, h.joinMut_fst x y (ha x rfl) (hb y rfl)]
        exact h.le_join_left x y (ha x rfl) (hb y rfl)
  · intro a b ha hb
    cases b with
    | none => exact opt_le_n _
    | some y => cases a with
      | none => rw [opt_join_ns, opt_le_ss]; exact le_refl' h y (hb y rfl)
      | some x =>
        rw [opt_join_ss, opt_le_ss, h.joinMut_fst x y (ha x rfl) (hb y rfl)]
        exact h.le_join_right x y (ha x rfl) (hb y rfl)
  · intro a b c ha hb hc h1 h2
    cases a with
    | none => cases b with
      | none => exact opt_le_n _
      | some y => rw [opt_join_ns]; exact h2
    | some x => cases b with
      | none => rw [opt_join_n]; exact h1
      | some y => cases c with
        | none => cases h1
        | some z =>
          rw [opt_join_ss, opt_le_ss, h.joinMut_fst x y (ha x rfl) (hb y rfl)]
          exact h.join_le x y z (ha x rfl) (hb y rfl) (hc z rfl) h1 h2
  · intro a b ha hb
    cases a with
    | none => exact opt_le_n _
    | some x => cases b with
      | none => exact opt_le_n _
      | some y =>
        rw [opt_meet_ss, opt_le_ss, h.meetMut_fst x y (ha x rfl) (hb y rfl)]
        exact h.meet_le_left x y (ha x rfl) (hb y rfl)
  · intro a b ha hb
    cases a with
    | none => exact opt_le_n _
    | some x => cases b with
      | none => exact opt_le_n _
      | some y =>
        rw [opt_meet_ss, opt_le_ss, h.meetMut_fst x y (ha x rfl) (hb y rfl)]
        exact h.meet_le_right x y (ha x rfl) (hb y rfl)
  · intro a b c ha hb hc h1 h2
    cases c with
    | none => exact opt_le_n _
    | some z => cases a with
      | none => cases h1
      | some x => cases b with
        | none => cases h2
        | some y =>
          rw [opt_meet_ss, opt_le_ss, h.meetMut_fst x y (ha x rfl) (hb y rfl)]
          exact h.le_meet x y z (ha x rfl) (hb y rfl) (hc z rfl) h1 h2
  · intro a b ha hb
    cases a with
    | none => cases b <;> rfl
    | some x => cases b <;> rfl
  · intro a b ha hb
    cases b with
    | none => rw [opt_joinMut_n, opt_join_n]; simp
    | some y => cases a with
      | none => rw [opt_joinMut_ns, opt_join_ns]; simp
      | some x =>
        rw [opt_joinMut_ss, opt_join_ss, h.joinMut_fst x y (ha x rfl) (hb y rfl)]
        have := h.joinMut_snd x y (ha x rfl) (hb y rfl)
        simp only [ne_eq, Option.some.injEq]; exact this
  · intro a b ha hb
    cases a with
    | none => rfl
    | some x => cases b <;> rfl
  · intro a b ha hb
    cases a with
    | none => rw [opt_meetMut_n, opt_meet_n]; simp
    | some x => cases b with
      | none => rw [opt_meetMut_sn, opt_meet_sn]; simp
      | some y =>
        rw [opt_meetMut_ss, opt_meet_ss, h.meetMut_fst x y (ha x rfl) (hb y rfl)]
        have := h.meetMut_snd x y (ha x rfl) (hb y rfl)
        simp only [ne_eq, Option.some.injEq]; exact this

theorem lawfulB_option [BLat α] (h : LawfulBLat α WF) : LawfulBLat (Option α) (fun o => ∀ x, o = some x → WF x) :=
  { toLawfulLat := lawful_option h.toLawfulLat
    top_wf := fun x hx => by
      have : x = BLat.top := (Option.some.inj hx).symm
      rw [this]; exact h.top_wf
    bottom_wf := fun x hx => by cases hx
    le_top := fun a ha => by
      cases a with
      | none => exact opt_le_n _
      | some x => exact h.le_top x (ha x rfl)
    bottom_le := fun a _ => opt_le_n a }

theorem lawful_boxed [Lat α] (h : LawfulLat α WF) : LawfulLat (Boxed α) (fun b => WF b.val) := by
  apply lawful_transfer h Boxed.val
  · intro a b e; cases a; cases b; simp_all
  · intro a b; rfl
  · intro a b ha hb; exact h.joinMut_fst _ _ ha hb
  · intro a b ha hb; exact h.meetMut_fst _ _ ha hb
  · intro a b ha hb; rfl
  · intro a b ha hb
    have := h.joinMut_snd _ _ ha hb
    rw [← h.joinMut_fst _ _ ha hb] at this
    cases a with | mk x =>
    cases b with | mk y =>
    show (joinMut x y).2 = true ↔ (⟨(joinMut x y).1⟩ : Boxed α) ≠ ⟨x⟩
    simp only [ne_eq, Boxed.mk.injEq]; exact this
  · intro a b ha hb; rfl
  · intro a b ha hb
    have := h.meetMut_snd _ _ ha hb
    rw [← h.meetMut_fst _ _ ha hb] at this
    cases a with | mk x =>
    cases b with | mk y =>
    show (meetMut x y).2 = true ↔ (⟨(meetMut x y).1⟩ : Boxed α) ≠ ⟨x⟩
    simp only [ne_eq, Boxed.mk.injEq]; exact this

section sharedLemmas
variable [Lat α]

theorem shared_joinMut_eq (x y : α) : joinMut (⟨x⟩ : Shared α) ⟨y⟩ =
    (match pcmp x y with
    | some .gt | some .eq => ((⟨x⟩ : Shared α), false)
    | some .lt => (⟨y⟩, true)
    | none => let r := joinMut x y; ((⟨r.1⟩ : Shared α), r.2)) := rfl
theorem shared_meetMut_eq (x y : α) : meetMut (⟨x⟩ : Shared α) ⟨y⟩ =
    (match pcmp x y with
    | some .lt | some .eq => ((⟨x⟩ : Shared α), false)
    | some .gt => (⟨y⟩, true)
    | none => let r := meetMut x y; ((⟨r.1⟩ : Shared α), r.2)) := rfl
theorem shared_join_eq (a b : Shared α) : join a b = (joinMut a b).1 := rfl
theorem shared_meet_eq (a b : Shared α) : meet a b = (meetMut a b).1 := rfl

/-- the compare-first `join_mut` of `Rc`/`Arc` computes the underlying `join`, with a truthful flag -/
theorem shared_joinMut (h : LawfulLat α WF) (x y : α) (hx : WF x) (hy : WF y) :
    (joinMut (⟨x⟩ : Shared α) ⟨y⟩).1 = ⟨join x y⟩ ∧ ((joinMut (⟨x⟩ : Shared α) ⟨y⟩).2 = true ↔ join x y ≠ x) := by
  rw [shared_joinMut_eq]
  split
  · next e =>
    have := join_eq_of_ge h x y hx hy (le_of_pcmp_gt h hx hy e)
    simp [this]
  · next e =>
    have e' := h.eq_of_pcmp_eq x y hx hy e
    subst e'
    have := join_eq_of_le h x x hx hx (le_refl' h x hx)
    simp [this]
  · next e =>
    have := join_eq_of_le h x y hx hy (le_of_pcmp_lt e)
    have hne : ¬ y = x := by
      intro e2; subst e2; rw [h.pcmp_refl y hy] at e; cases e
    simp [this, hne]
  · next e =>
    have h1 := h.joinMut_fst x y hx hy
    have h2 := h.joinMut_snd x y hx hy
    simp only [h1]
    exact ⟨trivial, h2⟩

theorem shared_meetMut (h : LawfulLat α WF) (x y : α) (hx : WF x) (hy : WF y) :
    (meetMut (⟨x⟩ : Shared α) ⟨y⟩).1 = ⟨meet x y⟩ ∧ ((meetMut (⟨x⟩ : Shared α) ⟨y⟩).2 = true ↔ meet x y ≠ x) := by
  rw [shared_meetMut_eq]
  split
  · next e =>
    have := meet_eq_of_le h x y hx hy (le_of_pcmp_lt e)
    simp [this]
  · next e =>
    have e' := h.eq_of_pcmp_eq x y hx hy e
    subst e'
    have := meet_eq_of_le h x x hx hx (le_refl' h x hx)
    simp [this]
  · next e =>
    have := meet_eq_of_ge h x y hx hy (le_of_pcmp_gt h hx hy e)
    have hne : ¬ y = x := by
      intro e2; subst e2; rw [h.pcmp_refl y hy] at e; cases e
    simp [this, hne]
  · next e =>
    have h1 := h.meetMut_fst x y hx hy
    have h2 := h.meetMut_snd x y hx hy
    simp only [h1]
    exact ⟨trivial, h2⟩

end sharedLemmas

/-- `Rc<T>` / `Arc<T>`: the compare-first code path computes the same lattice -/
theorem lawful_shared [Lat α] (h : LawfulLat α WF) : LawfulLat (Shared α) (fun b => WF b.val) := by
  apply lawful_transfer h Shared.val
  · intro a b e; cases a; cases b; simp_all
  · intro a b; rfl
  · intro a b ha hb; cases a; cases b
    rw [shared_join_eq, (shared_joinMut h _ _ ha hb).1]
  · intro a b ha hb; cases a; cases b
    rw [shared_meet_eq, (shared_meetMut h _ _ ha hb).1]
  · intro a b ha hb; rfl
  · intro a b ha hb; cases a; cases b
    rw [shared_join_eq, (shared_joinMut h _ _ ha hb).1, (shared_joinMut h _ _ ha hb).2]
    simp
  · intro a b ha hb; rfl
  · intro a b ha hb; cases a; cases b
    rw [shared_meet_eq, (shared_meetMut h _ _ ha hb).1, (shared_meetMut h _ _ ha hb).2]
    simp

theorem lawful_dual [Lat α] (h : LawfulLat α WF) : LawfulLat (Dual α) (fun d => WF d.val) := by
  apply lawful_opposite h Dual.val
  · intro a b e; cases a; cases b; simp_all
  · intro a b; rfl
  · intro a b ha hb; rfl
  · intro a b ha hb; rfl
  · intro a b ha hb
    show (⟨(meetMut a.val b.val).1⟩ : Dual α) = ⟨meet a.val b.val⟩
    rw [h.meetMut_fst _ _ ha hb]
  · intro a b ha hb
    cases a with | mk x =>
    cases b with | mk y =>
    show (meetMut x y).2 = true ↔ (⟨meet x y⟩ : Dual α) ≠ ⟨x⟩
    simp only [ne_eq, Dual.mk.injEq]; exact h.meetMut_snd _ _ ha hb
  · intro a b ha hb
    show (⟨(joinMut a.val b.val).1⟩ : Dual α) = ⟨join a.val b.val⟩
    rw [h.joinMut_fst _ _ ha hb]
  · intro a b ha hb
    cases a with | mk x =>
    cases b with | mk y =>
    show (joinMut x y).2 = true ↔ (⟨join x y⟩ : Dual α) ≠ ⟨x⟩
    simp only [ne_eq, Dual.mk.injEq]; exact h.joinMut_snd _ _ ha hb

theorem lawfulB_dual [BLat α] (h : LawfulBLat α WF) : LawfulBLat (Dual α) (fun d => WF d.val) :=
  { toLawfulLat := lawful_dual h.toLawfulLat
    top_wf := h.bottom_wf
    bottom_wf := h.top_wf
    le_top := fun a ha => h.bottom_le a.val ha
    bottom_le := fun a ha => h.le_top a.val ha }

theorem lawful_rev [Lat α] (h : LawfulLat α WF) : LawfulLat (Rev α) (fun d => WF d.val) := by
  apply lawful_opposite h Rev.val
  · intro a b e; cases a; cases b; simp_all
  · intro a b; rfl
  · intro a b ha hb; rfl
  · intro a b ha hb; rfl
  · intro a b ha hb
    show (⟨(meetMut a.val b.val).1⟩ : Rev α) = ⟨meet a.val b.val⟩
    rw [h.meetMut_fst _ _ ha hb]
  · intro a b ha hb
    cases a with | mk x =>
    cases b with | mk y =>
    show (meetMut x y).2 = true ↔ (⟨meet x y⟩ : Rev α) ≠ ⟨x⟩
    simp only [ne_eq, Rev.mk.injEq]; exact h.meetMut_snd _ _ ha hb
  · intro a b ha hb
    show (⟨(joinMut a.val b.val).1⟩ : Rev α) = ⟨join a.val b.val⟩
    rw [h.joinMut_fst _ _ ha hb]
  · intro a b ha hb
    cases a with | mk x =>
    cases b with | mk y =>
    show (joinMut x y).2 = true ↔ (⟨join x y⟩ : Rev α) ≠ ⟨x⟩
    simp only [ne_eq, Rev.mk.injEq]; exact h.joinMut_snd _ _ ha hb

theorem lawfulB_rev [BLat α] (h : LawfulBLat α WF) : LawfulBLat (Rev α) (fun d => WF d.val) :=
  { toLawfulLat := lawful_rev h.toLawfulLat
    top_wf := h.bottom_wf
    bottom_wf := h.top_wf
    le_top := fun a ha => h.bottom_le a.val ha
    bottom_le := fun a ha => h.le_top a.val ha }

/-- `Dual` and `Reverse` swap the two operations and the order -/
theorem dual_swaps [Lat α] (a b : α) :
    join (⟨a⟩ : Dual α) ⟨b⟩ = ⟨meet a b⟩ ∧ meet (⟨a⟩ : Dual α) ⟨b⟩ = ⟨join a b⟩ ∧
    pcmp (⟨a⟩ : Dual α) ⟨b⟩ = pcmp b a ∧
    (joinMut (⟨a⟩ : Dual α) ⟨b⟩).2 = (meetMut a b).2 ∧ (meetMut (⟨a⟩ : Dual α) ⟨b⟩).2 = (joinMut a b).2 :=
  ⟨rfl, rfl, rfl, rfl, rfl⟩
theorem rev_swaps [Lat α] (a b : α) :
    join (⟨a⟩ : Rev α) ⟨b⟩ = ⟨meet a b⟩ ∧ meet (⟨a⟩ : Rev α) ⟨b⟩ = ⟨join a b⟩ ∧
    pcmp (⟨a⟩ : Rev α) ⟨b⟩ = pcmp b a :=
  ⟨rfl, rfl, rfl⟩
end wrappers

theorem lawful_ordLat {α : Type} [LinOrd α] (h : LawfulLinOrd α) : LawfulLat (OrdLat α) AnyWF := by
  have hj : ∀ a b : OrdLat α, join a b =
      ⟨match LinOrd.cmp a.val b.val with | .gt => a.val | _ => b.val⟩ := fun _ _ => rfl
  have hm : ∀ a b : OrdLat α, meet a b =
      ⟨match LinOrd.cmp a.val b.val with | .gt => b.val | _ => a.val⟩ := fun _ _ => rfl
  have hjm : ∀ a b : OrdLat α, joinMut a b =
      if LinOrd.cmp a.val b.val == .lt then (b, true) else (a, false) := fun _ _ => rfl
  have hmm : ∀ a b : OrdLat α, meetMut a b =
      if LinOrd.cmp a.val b.val == .gt then (b, true) else (a, false) := fun _ _ => rfl
  have hjf : ∀ a b : OrdLat α, join a b = if LinOrd.cmp a.val b.val = .lt then b else a := by
    intro a b; rw [hj]
    cases e : LinOrd.cmp a.val b.val <;> simp
    have := h.eq_of_cmp_eq _ _ e; cases a; cases b; simp_all
  have hmf : ∀ a b : OrdLat α, meet a b = if LinOrd.cmp a.val b.val = .gt then b else a := by
    intro a b; rw [hm]
    cases e : LinOrd.cmp a.val b.val <;> simp
  apply lawful_of_lin h OrdLat.val
  · intro a b e; cases a; cases b; simp_all
  · intro a b; rfl
  · exact hjf
  · exact hmf
  · intro a b; rw [hjm, hjf]; cases LinOrd.cmp a.val b.val <;> simp
  · intro a b; rw [hmm, hmf]; cases LinOrd.cmp a.val b.val <;> simp
/-- lexicographic tuple lattices `(T0, …, Tn)` -/
theorem lawful_lexTuple {β : Type} [LinOrd β] (h : LawfulLinOrd β) : LawfulLat (LexTuple β) AnyWF := by
  have hj : ∀ a b : LexTuple β, join a b =
      ⟨match LinOrd.cmp a.val b.val with | .gt => a.val | _ => b.val⟩ := fun _ _ => rfl
  have hm : ∀ a b : LexTuple β, meet a b =
      ⟨match LinOrd.cmp a.val b.val with | .gt => b.val | _ => a.val⟩ := fun _ _ => rfl
  have hjm : ∀ a b : LexTuple β, joinMut a b =
      (match LinOrd.cmp a.val b.val with
       | .gt | .eq => (a, false)
       | .lt => (b, true)) := fun _ _ => rfl
  have hmm : ∀ a b : LexTuple β, meetMut a b =
      (match LinOrd.cmp a.val b.val with
       | .lt | .eq => (a, false)
       | .gt => (b, true)) := fun _ _ => rfl
  have hjf : ∀ a b : LexTuple β, join a b = if LinOrd.cmp a.val b.val = .lt then b else a := by
    intro a b; rw [hj]
    cases e : LinOrd.cmp a.val b.val <;> simp
    have := h.eq_of_cmp_eq _ _ e; cases a; cases b; simp_all
  have hmf : ∀ a b : LexTuple β, meet a b = if LinOrd.cmp a.val b.val = .gt then b else a := by
    intro a b; rw [hm]
    cases e : LinOrd.cmp a.val b.val <;> simp
  apply lawful_of_lin h LexTuple.val
  · intro a b e; cases a; cases b; simp_all
  · intro a b; rfl
  · exact hjf
  · exact hmf
  · intro a b; rw [hjm, hjf]; cases LinOrd.cmp a.val b.val <;> simp
  · intro a b; rw [hmm, hmf]; cases LinOrd.cmp a.val b.val <;> simp
theorem lawfulB_unit : LawfulBLat Unit AnyWF :=
  { pcmp_refl := fun _ _ => rfl
    eq_of_pcmp_eq := fun _ _ _ _ _ => rfl
    pcmp_swap := fun _ _ _ _ => rfl
    le_trans := fun _ _ _ _ _ _ _ _ => rfl
    join_wf := fun _ _ _ _ => trivial
    meet_wf := fun _ _ _ _ => trivial
    le_join_left := fun _ _ _ _ => rfl
    le_join_right := fun _ _ _ _ => rfl
    join_le := fun _ _ _ _ _ _ _ _ => rfl
    meet_le_left := fun _ _ _ _ => rfl
    meet_le_right := fun _ _ _ _ => rfl
    le_meet := fun _ _ _ _ _ _ _ _ => rfl
    joinMut_fst := fun _ _ _ _ => rfl
    joinMut_snd := fun _ _ _ _ => by simp [joinMut]
    meetMut_fst := fun _ _ _ _ => rfl
    meetMut_snd := fun _ _ _ _ => by simp [meetMut]
    top_wf := trivial
    bottom_wf := trivial
    le_top := fun _ _ => rfl
    bottom_le := fun _ _ => rfl }

section constProp
variable {α : Type} [DecidableEq α]
open ConstProp

theorem cp_pcmp (a b : ConstProp α) : pcmp a b =
    (match a, b with
    | .bottom, .bottom => some .eq
    | .bottom, _ => some .lt
    | .const _, .bottom => some .gt
    | .const x, .const y => if x = y then some .eq else none
    | .const _, .top => some .lt
    | .top, .top => some .eq
    | .top, _ => some .gt) := rfl
theorem cp_meet (a b : ConstProp α) : meet a b =
    (match a, b with
    | .bottom, _ => .bottom
    | .const _, .bottom => .bottom
    | .const x, .const y => if x = y then .const x else .bottom
    | .const x, .top => .const x
    | .top, other => other) := rfl
theorem cp_join (a b : ConstProp α) : join a b =
    (match a, b with
    | .bottom, other => other
    | .const x, .bottom => .const x
    | .const x, .const y => if x = y then .const x else .top
    | .const _, .top => .top
    | .top, _ => .top) := rfl
theorem cp_meetMut (a b : ConstProp α) : meetMut a b =
    (match a, b with
    | .bottom, _ => (.bottom, false)
    | .const x, .const y => if x = y then (.const x, false) else (.bottom, true)
    | .const _, .bottom => (.bottom, true)
    | a, .top => (a, false)
    | .top, other => (other, true)) := rfl
theorem cp_joinMut (a b : ConstProp α) : joinMut a b =
    (match a, b with
    | a, .bottom => (a, false)
    | .bottom, other => (other, true)
    | .const x, .const y => if x = y then (.const x, false) else (.top, true)
    | .const _, .top => (.top, true)
    | .top, _ => (.top, false)) := rfl

/-- the order of `ConstPropagation`: `Bottom ≤ Constant x ≤ Top`, constants pairwise incomparable -/
theorem cp_le (a b : ConstProp α) : le a b =
    (match a, b with
    | .bottom, _ => true
    | _, .top => true
    | .const x, .const y => decide (x = y)
    | _, _ => false) := by
  unfold le; rw [cp_pcmp]
  cases a <;> cases b <;> try rfl
  next x y => by_cases e : x = y <;> simp [e]

theorem lawful_constProp : LawfulLat (ConstProp α) AnyWF := by
  refine
    { pcmp_refl := ?_, eq_of_pcmp_eq := ?_, pcmp_swap := ?_, le_trans := ?_,
      join_wf := fun _ _ _ _ => trivial, meet_wf := fun _ _ _ _ => trivial,
      le_join_left := ?_, le_join_right := ?_, join_le := ?_,
      meet_le_left := ?_, meet_le_right := ?_, le_meet := ?_,
      joinMut_fst := ?_, joinMut_snd := ?_, meetMut_fst := ?_, meetMut_snd := ?_ }
  · intro a _; rw [cp_pcmp]; cases a <;> simp
  · intro a b ha hb; clear ha hb; rw [cp_pcmp]; cases a <;> cases b <;> simp
  · intro a b ha hb; clear ha hb; rw [cp_pcmp, cp_pcmp]
    cases a <;> cases b <;> simp
    next x y => by_cases e : x = y <;> simp [e, eq_comm]
  · intro a b c ha hb hc; clear ha hb hc; rw [cp_le, cp_le, cp_le]
    cases a <;> cases b <;> cases c <;> simp
    next x y z => intro e1 e2; exact e1.trans e2
  · intro a b ha hb; clear ha hb; rw [cp_le, cp_join]
    cases a <;> cases b <;> simp
    next x y => by_cases e : x = y <;> simp [e]
  · intro a b ha hb; clear ha hb; rw [cp_le, cp_join]
    cases a <;> cases b <;> simp
    next x y => by_cases e : x = y <;> simp [e]
  · intro a b c ha hb hc; clear ha hb hc; rw [cp_le, cp_le, cp_le, cp_join]
    cases a <;> cases b <;> cases c <;> simp
    case const.const.top x y => by_cases e : x = y <;> simp [e]
    case const.const.const x y z => intro e1 e2; subst e1; subst e2; simp
  · intro a b ha hb; clear ha hb; rw [cp_le, cp_meet]
    cases a <;> cases b <;> simp
    next x y => by_cases e : x = y <;> simp [e]
  · intro a b ha hb; clear ha hb; rw [cp_le, cp_meet]
    cases a <;> cases b <;> simp
    next x y => by_cases e : x = y <;> simp [e]
  · intro a b c ha hb hc; clear ha hb hc; rw [cp_le, cp_le, cp_le, cp_meet]
    cases a <;> cases b <;> cases c <;> simp
    next x y z => intro e1 e2; subst e1; subst e2; simp
  · intro a b ha hb; clear ha hb; rw [cp_joinMut, cp_join]
    cases a <;> cases b <;> simp
    next x y => by_cases e : x = y <;> simp [e]
  · intro a b ha hb; clear ha hb; rw [cp_joinMut, cp_join]
    cases a <;> cases b <;> simp
    next x y => by_cases e : x = y <;> simp [e]
  · intro a b ha hb; clear ha hb; rw [cp_meetMut, cp_meet]
    cases a <;> cases b <;> simp
    next x y => by_cases e : x = y <;> simp [e]
  · intro a b ha hb; clear ha hb; rw [cp_meetMut, cp_meet]
    cases a <;> cases b <;> simp
    next x y => by_cases e : x = y <;> simp [e]
end constProp

theorem lawfulB_constProp {α : Type} [DecidableEq α] : LawfulBLat (ConstProp α) AnyWF :=
  { toLawfulLat := lawful_constProp
    top_wf := trivial
    bottom_wf := trivial
    le_top := fun a _ => by
      show le a ConstProp.top = true
      rw [cp_le]; cases a <;> rfl
    bottom_le := fun a _ => by
      show le ConstProp.bottom a = true
      rw [cp_le] }

/-! ## non-vacuity: a nested composition and concrete values -/
example : LawfulLat (Dual (Option (Shared (Prim Int)))) (fun d => ∀ x, d.val = some x → AnyWF x.val) :=
  lawful_dual (lawful_option (lawful_shared (lawful_prim lawfulLinOrd_int)))
example : join (some (⟨3⟩ : Prim Int)) none = some ⟨3⟩ ∧ (joinMut (none : Option (Prim Int)) (some ⟨3⟩)).2 = true := by decide
example : pcmp (ConstProp.const 1) (ConstProp.const 2) = none ∧ join (ConstProp.const 1) (ConstProp.const 2) = ConstProp.top := by decide

end AscentVerif.Lat

/-! ## axiom audit -/
section audit
open AscentVerif.Lat
#print axioms join_comm
#print axioms meet_comm
#print axioms join_assoc
#print axioms meet_assoc
#print axioms join_idem
#print axioms meet_idem
#print axioms join_meet_absorb
#print axioms meet_join_absorb
#print axioms le_iff_join_eq
#print axioms le_iff_meet_eq
#print axioms joinMut_truthful
#print axioms meetMut_truthful
#print axioms joinMut_idle
#print axioms lawfulLinOrd_int
#print axioms lawfulLinOrd_nat
#print axioms lawfulLinOrd_bool
#print axioms lawfulLinOrd_unit
#print axioms lawfulLinOrd_bint
#print axioms lawfulLinOrd_prod
#print axioms lawful_prim
#print axioms lawfulB_prim_bint_needs_le
#print axioms lawfulB_prim_bint
#print axioms lawfulB_prim_bool
#print axioms lawful_option
#print axioms lawfulB_option
#print axioms lawful_boxed
#print axioms lawful_shared
#print axioms lawful_dual
#print axioms lawfulB_dual
#print axioms lawful_rev
#print axioms lawfulB_rev
#print axioms dual_swaps
#print axioms rev_swaps
#print axioms lawful_ordLat
#print axioms lawful_lexTuple
#print axioms lawfulB_unit
#print axioms lawfulB_constProp
end audit
