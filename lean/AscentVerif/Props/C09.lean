import AscentVerif.Props.C04
import AscentVerif.Props.C13
/-!
# C09 — packaging variants of a program are semantically transparent

What has logical content in the model:
* **re-declaration** — the relation table keeps, for equal declarations, the last one
  (`dedup_all_keep_last_by`, utils.rs) while clauses resolve a name by a reverse search
  (`prog_get_relation`, ascent_hir.rs); both select the same (last) declaration, so a later
  re-declaration wins consistently (initialiser, attributes);
* **initialised relations** — `relation r(..) = e` makes `Default` store `e` and index it once; the
  following `run()` starts from a well-formed value whose facts are exactly `e`, so the result
  is the least model over exactly the tuples of `e` (as sets) — and the double indexing is
  visible to aggregation (finding F3, witnessed below).
`measure_rule_times`, `generate_run_timeout`, generics, `ascent_run!` capture, `include_source!`
and `segment-codegen` do not exist in the model: for them the claim is the tie obligation.
-/
namespace AscentVerif.Engine
open AscentVerif

/-! ## re-declaration -/

/-- a relation declaration: its identity (name and signature) and its payload (initialiser, attributes) -/
structure Decl (Sig Payload : Type) where
  name : String
  sig : Sig
  payload : Payload
deriving DecidableEq

variable {Sig Payload : Type} [DecidableEq Sig]

/-- `RelationIdentity::eq`: name and signature -/
def Decl.same (a b : Decl Sig Payload) : Bool := a.name == b.name && decide (a.sig = b.sig)

/-- `dedup_all_keep_last_by`: scanning from the end, an element is deleted iff it equals a later kept one -/
def dedupKeepLast (l : List (Decl Sig Payload)) : List (Decl Sig Payload) :=
  l.foldr (fun x kept => if kept.any (fun k => x.same k) then kept else x :: kept) []

/-- `prog.relations.iter().rev().find(|r| name == &r.name)` -/
def findLast (l : List (Decl Sig Payload)) (n : String) : Option (Decl Sig Payload) :=
  l.reverse.find? (fun d => d.name == n)

theorem mem_dedupKeepLast_of_last (d : Decl Sig Payload) (rest : List (Decl Sig Payload))
    (h : ∀ k ∈ rest, d.same k = false) : ∀ pre, d ∈ dedupKeepLast (pre ++ d :: rest) := by
  intro pre
  have hd : d ∈ dedupKeepLast (d :: rest) := by
    simp only [dedupKeepLast, List.foldr_cons]
    have hk : ∀ k ∈ List.foldr (fun x kept => if kept.any (fun k => x.same k) then kept else x :: kept) [] rest, k ∈ rest := by
      intro k hk
      induction rest with
      | nil => simp at hk
      | cons y ys ih =>
        simp only [List.foldr_cons] at hk
        split at hk
        · exact List.mem_cons_of_mem _ (ih (fun k hk => h k (List.mem_cons_of_mem _ hk)) hk)
        · rcases List.mem_cons.mp hk with rfl | hk
          · simp
          · exact List.mem_cons_of_mem _ (ih (fun k hk => h k (List.mem_cons_of_mem _ hk)) hk)
    have : (List.foldr (fun x kept => if kept.any (fun k => x.same k) then kept else x :: kept) [] rest).any (fun k => d.same k) = false := by
      rw [List.any_eq_false]
      intro k hk'
      simp [h k (hk k hk')]
    rw [this]; simp
  induction pre with
  | nil => exact hd
  | cons x xs ih =>
    show d ∈ dedupKeepLast (x :: (xs ++ d :: rest))
    simp only [dedupKeepLast, List.foldr_cons]
    split
    · exact ih
    · exact List.mem_cons_of_mem _ ih

/-- **a later re-declaration wins, consistently**: if declarations sharing a name share their signature
(anything else is rejected by rustc as a duplicate field), the declaration found by the reverse
name search is the LAST one with that name and it survives `dedup_all_keep_last_by` — the relation
table and clause resolution use the same declaration (hence the last initialiser and attributes) -/
theorem redeclaration_last_wins (l : List (Decl Sig Payload)) (n : String) (d : Decl Sig Payload)
    (hsig : ∀ a ∈ l, ∀ b ∈ l, a.name = b.name → a.sig = b.sig)
    (h : findLast l n = some d) :
    d.name = n ∧ d ∈ dedupKeepLast l ∧ ∃ pre rest, l = pre ++ d :: rest ∧ ∀ k ∈ rest, k.name ≠ n := by
  unfold findLast at h
  have hname : d.name = n := by
    have := List.find?_some h; simpa using this
  obtain ⟨as, bs, hl, hbs⟩ := List.find?_eq_some_iff_append.mp h |>.2
  -- l.reverse = as ++ d :: bs, with no match in `as`
  have hl' : l = bs.reverse ++ d :: as.reverse := by
    have := congrArg List.reverse hl
    simpa using this
  have hrest : ∀ k ∈ as.reverse, k.name ≠ n := by
    intro k hk
    have := hbs k (List.mem_reverse.mp hk)
    simpa using this
  refine ⟨hname, ?_, bs.reverse, as.reverse, hl', hrest⟩
  rw [hl']
  refine mem_dedupKeepLast_of_last d _ (fun k hk => ?_) _
  have : k.name ≠ d.name := by rw [hname]; exact hrest k hk
  simp only [Decl.same, Bool.and_eq_false_iff]
  left
  simp only [beq_eq_false_iff_ne, ne_eq]
  exact fun e => this e.symm

/-- and no other declaration of that name survives -/
theorem redeclaration_unique (l : List (Decl Sig Payload)) (a b : Decl Sig Payload)
    (hsig : ∀ a ∈ l, ∀ b ∈ l, a.name = b.name → a.sig = b.sig)
    (ha : a ∈ dedupKeepLast l) (hb : b ∈ dedupKeepLast l) (hn : a.name = b.name) :
    a.same b = true := by
  have sub : ∀ (l : List (Decl Sig Payload)) x, x ∈ dedupKeepLast l → x ∈ l := by
    intro l
    induction l with
    | nil => intro x hx; simp [dedupKeepLast] at hx
    | cons y ys ih =>
      intro x hx
      simp only [dedupKeepLast, List.foldr_cons] at hx
      split at hx
      · exact List.mem_cons_of_mem _ (ih x hx)
      · rcases List.mem_cons.mp hx with rfl | hx
        · simp
        · exact List.mem_cons_of_mem _ (ih x hx)
  have := hsig a (sub l a ha) b (sub l b hb) hn
  simp [Decl.same, hn, this]

example : findLast ([⟨"r", 2, "= vec![(9, 9)]"⟩, ⟨"s", 1, ""⟩, ⟨"r", 2, ""⟩] : List (Decl Nat String)) "r" = some ⟨"r", 2, ""⟩ := by decide

/-! ## initialised relations -/

variable {E B G P A : Type}

/-- the value `Default::default()` builds for `ascent!` with initialisers: the rows of every `e`, indexed once -/
def defaultSt (p : Program E B G P A) (init : RelId → List Tuple) : St := updateIndices (initSt p init)

theorem wfSt_defaultSt (p : Program E B G P A) (init : RelId → List Tuple) : WFSt p (defaultSt p init) := by
  refine ⟨by simp [defaultSt, updateIndices, initSt], ?_⟩
  intro rs hrs i hi
  simp only [defaultSt, updateIndices, initSt, List.mem_map, List.mem_range] at hrs
  obtain ⟨rs0, ⟨r, _, rfl⟩, rfl⟩ := hrs
  simpa using hi

/-- **`relation r(..) = e` starts from exactly the tuples of `e`**: `run()` on the default value computes
the least model over exactly the initialisers, and every row vector begins with its initialiser -/
theorem init_starts_from_initialiser (I : Interp E B G P A) (cfg : Config) (p : Program E B G P A) (order : SccOrder)
    (init : RelId → List Tuple) (fuel : Nat) (ps : ProgSt)
    (hp : Relational p) (ho : validOrder p order = true)
    (hrun : run I cfg p order fuel (defaultSt p init) = .done ps) :
    (∀ f, factsOf ps.st f ↔ Derivable I p.rules noAgg (inputDB p init) f) ∧
    (∀ r, r < p.rels.length → ∃ derived, (relSt ps.st r).rows = init r ++ derived ∧ derived.Nodup ∧ ∀ t ∈ derived, t ∉ init r) := by
  obtain ⟨_, hm, hr⟩ := run_from_eq_leastModel I cfg p order _ fuel ps hp ho (wfSt_defaultSt p init) hrun
  have hrows : ∀ r, r < p.rels.length → (relSt (defaultSt p init) r).rows = init r := by
    intro r hr'
    simp [defaultSt, updateIndices, initSt, relSt, List.getD_eq_getElem?_getD, hr']
  have hdb : ∀ f, (f.rel < p.rels.length ∧ factsOf (defaultSt p init) f) ↔ inputDB p init f := by
    intro f
    constructor
    · rintro ⟨h1, h2⟩; refine ⟨h1, ?_⟩; have : f.args ∈ (relSt (defaultSt p init) f.rel).rows := h2; rwa [hrows f.rel h1] at this
    · rintro ⟨h1, h2⟩; refine ⟨h1, ?_⟩; show f.args ∈ (relSt (defaultSt p init) f.rel).rows; rwa [hrows f.rel h1]
  refine ⟨fun f => ?_, fun r hr' => ?_⟩
  · rw [hm f]
    exact ⟨derivable_mono_input (fun g hg => (hdb g).mp hg) f, derivable_mono_input (fun g hg => (hdb g).mpr hg) f⟩
  · obtain ⟨d, h1, h2, h3⟩ := hr r hr'
    rw [hrows r hr'] at h1 h3
    exact ⟨d, h1, h2, h3⟩

/-- **initialised relations with aggregation** (finding F3, fixed by 8b2e261: `run()` rebuilds the indices
that `Default` built from the initialiser): on duplicate-free initialisers the first `run()` hands every
aggregation a duplicate-free enumeration of exactly the relation's rows, and computes the stratified
model over exactly the initialisers -/
theorem init_agg_view_each_once (I : Interp E B G P A) (cfg : Config) (p : Program E B G P A) (order : SccOrder)
    (init : RelId → List Tuple) (fuel : Nat) (ps : ProgSt)
    (hp : RelationalAgg p) (ho : validOrder p order = true) (hs : Stratified p order) (hnd : ∀ r, (init r).Nodup)
    (hrun : run I cfg p order fuel (defaultSt p init) = .done ps) :
    (∀ r, (aggView ps.st r).Nodup ∧ (aggView ps.st r).Perm (relSt ps.st r).rows) ∧
    (∀ f, factsOf ps.st f ↔ Derivable I p.rules (aggView ps.st) (inputDB p init) f) := by
  have hrows : ∀ r, (relSt (defaultSt p init) r).rows = (relSt (initSt p init) r).rows := by
    intro r; simp [defaultSt, relSt_updateIndices]
  have hnd' : ∀ r, (relSt (defaultSt p init) r).rows.Nodup := by
    intro r
    rw [hrows]
    by_cases hr : r < p.rels.length
    · rw [rows_initSt p init r hr]; exact hnd r
    · rw [relSt_of_ge _ _ (by simpa [initSt] using Nat.le_of_not_lt hr)]; exact List.nodup_nil
  refine ⟨agg_view_each_once_from I cfg p order _ fuel ps hp ho hs (wfSt_defaultSt p init) hnd' hrun, fun f => ?_⟩
  rw [run_agg_eq_model_from I cfg p order _ fuel ps hp ho hs (wfSt_defaultSt p init) hnd' hrun f]
  have hdb : ∀ g, (g.rel < p.rels.length ∧ factsOf (defaultSt p init) g) ↔ inputDB p init g := by
    intro g
    constructor
    · rintro ⟨h1, h2⟩; refine ⟨h1, ?_⟩
      have : g.args ∈ (relSt (defaultSt p init) g.rel).rows := h2
      rwa [hrows, rows_initSt p init g.rel h1] at this
    · rintro ⟨h1, h2⟩; refine ⟨h1, ?_⟩
      show g.args ∈ (relSt (defaultSt p init) g.rel).rows
      rwa [hrows, rows_initSt p init g.rel h1]
  exact ⟨derivable_mono_input (fun g hg => (hdb g).mp hg) f, derivable_mono_input (fun g hg => (hdb g).mpr hg) f⟩

/-- the former F3 witness, now passing: two initial rows, the view after the first `run()` has two
entries (it had four before fix 8b2e261) -/
theorem init_then_run_view_witness :
    let I : Interp Unit Unit Unit Unit Unit := ⟨fun _ _ => .unit, fun _ _ => true, fun _ _ => [], fun _ _ => none, fun _ b => b, fun _ a _ => (a, false)⟩
    ∃ ps, run I {} f2Witness [] 5 (defaultSt f2Witness fun _ => [[.int 1], [.int 2]]) = .done ps ∧ (aggView ps.st 0).length = 2 := by
  intro I; refine ⟨_, rfl, ?_⟩; decide

#print axioms init_agg_view_each_once
#print axioms init_then_run_view_witness

end AscentVerif.Engine
