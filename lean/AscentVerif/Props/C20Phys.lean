import AscentVerif.Props.C02Phys
import AscentVerif.Props.C13
/-!
# C20 at the level of the physical indices: the rayon pool does not matter

Corollaries of `runPhysPar_eq_leastModel` (`Props/C02Phys.lean`) for the `ascent_par!` code over its concurrent indices
(`Model/EnginePhysPar.lean`: every `CRelNoIndex` has one shard per thread of the pool current when it is constructed; since
fix 8b2e261 `update_indices` constructs all of them anew in the pool `run()` is called in):

* `construct_pool_irrelevant` — program values constructed in pools of different sizes (`initSt a` / `initSt b`: the stored
  `CRelNoIndex`es have `a` resp. `b` shards) compute the same facts, whatever pools, schedules and SCC orders they are run in;
* `rerun_other_pool` — run in a pool of `a` threads, then run AGAIN in a pool of `b` threads under another schedule: the second
  run neither panics-and-loses nor changes any fact (idempotence across pools);
* `pool_independent` — two runs of the same value in pools of different sizes agree.
Instance isolation is structural in the model: a run is a function of its own program value, schedule and pool size only.
-/
namespace AscentVerif.PhysPar
open AscentVerif AscentVerif.Engine AscentVerif.Index AscentVerif.Phys

variable {E B G P A : Type}

/-- two runs of the same value in different pools / under different schedules agree -/
theorem pool_independent (I : Interp E B G P A) (hI : Plan.Ext I) (V : Hir.VarsOf E B) (hS : Plan.Supp I V)
    (p : Program E B G P A) (order order' : SccOrder) (σ σ' : Sched E B G P A) (a b fuel fuel' : Nat) (s : PCSt)
    (out out' : ProgSt)
    (hp : Relational p) (ho : validOrder p order = true) (ho' : validOrder p order' = true) (ha : arityOk p = true)
    (hb : bodyDeclared p = true) (hd : ∀ r ∈ p.rules, Hir.Desugared V r = true ∧ Plan.WellScoped V r = true)
    (hs : WFPCSt p s)
    (h : run I V p (ixSetsOf V p) order σ a fuel s = .ok (some out))
    (h' : run I V p (ixSetsOf V p) order' σ' b fuel' s = .ok (some out')) :
    ∀ f, factsOf out.st f ↔ factsOf out'.st f :=
  runPhysPar_schedule_pool_independent I hI V hS p order order' σ σ' a b fuel fuel' s out out' hp ho ho' ha hb hd hs h h'

/-- **a second run in another pool changes nothing** -/
theorem rerun_other_pool (I : Interp E B G P A) (hI : Plan.Ext I) (V : Hir.VarsOf E B) (hS : Plan.Supp I V)
    (p : Program E B G P A) (order order' : SccOrder) (σ σ' : Sched E B G P A) (a b fuel fuel' : Nat) (s : PCSt)
    (o₁ o₂ : ProgSt)
    (hp : Relational p) (ho : validOrder p order = true) (ho' : validOrder p order' = true) (ha : arityOk p = true)
    (hb : bodyDeclared p = true) (hd : ∀ r ∈ p.rules, Hir.Desugared V r = true ∧ Plan.WellScoped V r = true)
    (hs : WFPCSt p s)
    (h₁ : run I V p (ixSetsOf V p) order σ a fuel s = .ok (some o₁))
    (h₂ : run I V p (ixSetsOf V p) order' σ' b fuel' o₁.st = .ok (some o₂)) :
    ∀ f, factsOf o₂.st f ↔ factsOf o₁.st f := by
  obtain ⟨res, e1, hsp⟩ := runPhysPar_eq_leastModel I hI V hS p order σ a fuel s hp ho ha hb hd hs
  rw [h₁] at e1
  injection e1 with e1
  obtain ⟨hw₁, hm₁, _⟩ := hsp o₁ e1.symm
  obtain ⟨res', e2, hsp'⟩ := runPhysPar_eq_leastModel I hI V hS p order' σ' b fuel' o₁.st hp ho' ha hb hd hw₁
  rw [h₂] at e2
  injection e2 with e2
  obtain ⟨_, hm₂, _⟩ := hsp' o₂ e2.symm
  intro f
  rw [hm₂ f]
  have key := derivable_between (I := I) (rules := p.rules) (agg := noAgg)
    (inp := fun g => g.rel < p.rels.length ∧ factsOf s g) (D := fun g => g.rel < p.rels.length ∧ factsOf o₁.st g)
    (fun g hg => ⟨hg.1, (hm₁ g).mpr (derivable_input hg)⟩) (fun g hg => (hm₁ g).mp hg.2) f
  exact key.trans (hm₁ f).symm

/-- **the pool a program value is constructed in does not matter** -/
theorem construct_pool_irrelevant (I : Interp E B G P A) (hI : Plan.Ext I) (V : Hir.VarsOf E B) (hS : Plan.Supp I V)
    (p : Program E B G P A) (order order' : SccOrder) (σ σ' : Sched E B G P A) (c c' a b fuel fuel' : Nat)
    (inp : RelId → List Tuple) (out out' : ProgSt)
    (hp : Relational p) (ho : validOrder p order = true) (ho' : validOrder p order' = true) (ha : arityOk p = true)
    (hb : bodyDeclared p = true) (hd : ∀ r ∈ p.rules, Hir.Desugared V r = true ∧ Plan.WellScoped V r = true)
    (hty : ∀ r, ∀ t ∈ inp r, t.length = arityOf p r)
    (h : run I V p (ixSetsOf V p) order σ a fuel (initSt c p (ixSetsOf V p) inp) = .ok (some out))
    (h' : run I V p (ixSetsOf V p) order' σ' b fuel' (initSt c' p (ixSetsOf V p) inp) = .ok (some out')) :
    ∀ f, factsOf out.st f ↔ factsOf out'.st f := by
  have hrows : ∀ (k : Nat) (r : RelId), (pcrel (initSt k p (ixSetsOf V p) inp) r).rows = if r < p.rels.length then inp r else [] := by
    intro k r
    unfold pcrel initSt
    by_cases hr : r < p.rels.length
    · simp [List.getD_eq_getElem?_getD, hr]
    · have hle : ((List.range p.rels.length).map fun r => ({ rows := inp r, full := PCFull.new, idxs := (ixSetsOf V p r).map fun c => (c, PCx.new k c) } : PCRel)).length ≤ r := by
        simp only [List.length_map, List.length_range]; exact Nat.le_of_not_lt hr
      rw [List.getD_eq_getElem?_getD, List.getElem?_eq_none hle]
      simp [hr]
  have hlen : ∀ k, (initSt k p (ixSetsOf V p) inp).length = p.rels.length := by intro k; simp [initSt]
  have hty' : ∀ k r, ∀ t ∈ (pcrel (initSt k p (ixSetsOf V p) inp) r).rows, t.length = arityOf p r := by
    intro k r t ht
    rw [hrows k r] at ht
    split at ht
    · exact hty r t ht
    · cases ht
  obtain ⟨res, e1, hsp⟩ := runPhysPar_eq_leastModel' I hI V hS p order σ a fuel _ hp ho ha hb hd (hlen c) (hty' c)
  rw [h] at e1
  injection e1 with e1
  obtain ⟨_, hm, _⟩ := hsp out e1.symm
  obtain ⟨res', e2, hsp'⟩ := runPhysPar_eq_leastModel' I hI V hS p order' σ' b fuel' _ hp ho' ha hb hd (hlen c') (hty' c')
  rw [h'] at e2
  injection e2 with e2
  obtain ⟨_, hm', _⟩ := hsp' out' e2.symm
  intro f
  rw [hm f, hm' f]
  have hsame : ∀ g, (g.rel < p.rels.length ∧ factsOf (initSt c p (ixSetsOf V p) inp) g) ↔
      (g.rel < p.rels.length ∧ factsOf (initSt c' p (ixSetsOf V p) inp) g) := by
    intro g
    unfold factsOf
    rw [hrows c g.rel, hrows c' g.rel]
  exact ⟨derivable_mono_input (fun g hg => (hsame g).mp hg) f, derivable_mono_input (fun g hg => (hsame g).mpr hg) f⟩

/-! ## axiom audit -/
#print axioms pool_independent
#print axioms rerun_other_pool
#print axioms construct_pool_irrelevant

end AscentVerif.PhysPar
