import AscentVerif.Props.C04PhysPlan
import AscentVerif.Props.C13Phys
import AscentVerif.Props.C13Agg
import AscentVerif.Proofs.NDAggRestart
import AscentVerif.Proofs.PhysAggTimeout
import AscentVerif.Proofs.PhysAggTimeoutLink
/-!
# C13 / C14 at the level of the physical indices, for stratified programs with aggregation / negation

`Props/C13Phys.lean` proves the re-run and `run_timeout` theorems for the generated code over its physical indices for
aggregation-free programs; `Props/C13Agg.lean` proves them for the abstract deterministic engine on stratified programs with aggregation.
This file proves them for the PHYSICAL engine (`Model/EnginePhys.lean`, `Model/EnginePhysTimeout.lean`) on stratified programs with
aggregation / negation.  As in `Props/C13Agg.lean` the statements are relative to a completed reference run `oM` from the original value
(the stratified model): with aggregation a fact derived from an incomplete relation could be wrong, so soundness of an interrupted run
means "only facts of the reference result".
-/
namespace AscentVerif.Phys
open AscentVerif AscentVerif.Engine AscentVerif.Index

variable {E B G P A : Type}

/-- the standing hypotheses on interpretation and program (stratified programs with aggregation) -/
structure CtxA (I : Interp E B G P A) (V : Hir.VarsOf E B) (p : Program E B G P A) (order : SccOrder) : Prop where
  ext : Plan.Ext I
  supp : Plan.Supp I V
  perm : AggPermInvariant I
  rel : RelationalAgg p
  valid : validOrder p order = true
  strat : Stratified p order
  arity : arityOk p = true
  aggArity : aggArityOk p = true
  rules : ∀ r ∈ p.rules, Hir.Desugared V r = true ∧ Plan.WellScoped V r = true

/-- `t` extends `s`: every row vector of `s` is a prefix of the one of `t`, the rows added are pairwise distinct and not among
the rows of `s` (what `run` / `run_timeout` do to a value) -/
def ExtendsP (p : Program E B G P A) (s t : PSt) : Prop :=
  ∀ r, r < p.rels.length → ∃ extra : List Tuple,
    (prel t r).rows = (prel s r).rows ++ extra ∧ extra.Nodup ∧ ∀ x ∈ extra, x ∉ (prel s r).rows

/-- **stratified restart over the physical indices**: `oM` is a completed reference run from `s`; `t` extends
`s` and holds only facts of the reference result.  Then any completed run from `t` ends with exactly the facts of the reference result. -/
theorem restart_phys_agg (I : Interp E B G P A) (V : Hir.VarsOf E B) (p : Program E B G P A) (order : SccOrder)
    (c : CtxA I V p order) (s t : PSt) (fuelM fuel : Nat) (oM o : ProgSt)
    (hs : WFPSt p s) (ht : WFPSt p t)
    (hM : run I V p (ixSetsOfA V p) order fuelM s = some oM)
    (hext : ExtendsP p s t) (hsound : ∀ f, factsOf t f → factsOf oM.st f)
    (hrun : run I V p (ixSetsOfA V p) order fuel t = some o) :
    ∀ f, factsOf o.st f ↔ factsOf oM.st f :=
  restart_physA I c.ext V c.supp c.perm p _ order c.rel c.valid c.strat (planOk_ixSetsOfA V p c.arity)
    (aggPlanOk_ixSetsOfA V p c.aggArity) c.rules s t fuelM fuel oM o hs ht hM hext hsound hrun

/-- **run() is idempotent over the physical indices, aggregation and negation included**: a second `run()` on the unmodified value
appends nothing -/
theorem rerun_idempotent_phys_agg (I : Interp E B G P A) (V : Hir.VarsOf E B) (p : Program E B G P A) (order : SccOrder)
    (c : CtxA I V p order) (s : PSt) (fuel₁ fuel₂ : Nat) (o₁ o₂ : ProgSt)
    (hs : WFPSt p s)
    (h₁ : run I V p (ixSetsOfA V p) order fuel₁ s = some o₁)
    (h₂ : run I V p (ixSetsOfA V p) order fuel₂ o₁.st = some o₂) :
    (∀ r, r < p.rels.length → (prel o₂.st r).rows = (prel o₁.st r).rows) ∧ (∀ f, factsOf o₂.st f ↔ factsOf o₁.st f) :=
  rerun_idempotent_physA I c.ext V c.supp c.perm p _ order c.rel c.valid c.strat (planOk_ixSetsOfA V p c.arity)
    (aggPlanOk_ixSetsOfA V p c.aggArity) c.rules s fuel₁ fuel₂ o₁ o₂ hs h₁ h₂

/-- **run_timeout returned `false`** (at whatever point the deadline struck, from any value between the inputs and the stratified
model): the value left behind is well-formed, extends the original value and holds only facts of the reference result -/
theorem timeout_false_sound_phys_agg (I : Interp E B G P A) (V : Hir.VarsOf E B) (p : Program E B G P A) (order : SccOrder)
    (c : CtxA I V p order) (dl : Deadline) (s t : PSt) (fuelM fuel : Nat) (oM : ProgSt) (o : ProgStT)
    (hs : WFPSt p s) (ht : WFPSt p t)
    (hM : run I V p (ixSetsOfA V p) order fuelM s = some oM)
    (hext : ExtendsP p s t) (hsound : ∀ f, factsOf t f → factsOf oM.st f)
    (hrun : runTimeout I V p (ixSetsOfA V p) order dl fuel t = .timedOut o) :
    WFPSt p o.st ∧ ExtendsP p s o.st ∧ (∀ f, factsOf o.st f → factsOf oM.st f) :=
  timeout_false_physA I c.ext V c.supp c.perm p _ order c.rel c.valid c.strat (planOk_ixSetsOfA V p c.arity)
    (aggPlanOk_ixSetsOfA V p c.aggArity) c.rules dl s t fuelM fuel oM o hs ht hM hext hsound hrun

/-- **run_timeout returned `true`**: the value holds exactly the facts of the reference result -/
theorem timeout_true_complete_phys_agg (I : Interp E B G P A) (V : Hir.VarsOf E B) (p : Program E B G P A) (order : SccOrder)
    (c : CtxA I V p order) (dl : Deadline) (s t : PSt) (fuelM fuel : Nat) (oM : ProgSt) (o : ProgStT)
    (hs : WFPSt p s) (ht : WFPSt p t)
    (hM : run I V p (ixSetsOfA V p) order fuelM s = some oM)
    (hext : ExtendsP p s t) (hsound : ∀ f, factsOf t f → factsOf oM.st f)
    (hrun : runTimeout I V p (ixSetsOfA V p) order dl fuel t = .done o) :
    ∀ f, factsOf o.st f ↔ factsOf oM.st f :=
  timeout_true_physA I c.ext V c.supp c.perm p _ order c.rel c.valid c.strat (planOk_ixSetsOfA V p c.arity)
    (aggPlanOk_ixSetsOfA V p c.aggArity) c.rules dl s t fuelM fuel oM o hs ht hM hext hsound hrun

/-- a history of interrupted `run_timeout` calls -/
inductive InterruptedPA (I : Interp E B G P A) (V : Hir.VarsOf E B) (p : Program E B G P A) (order : SccOrder) : PSt → PSt → Prop where
  | refl (s : PSt) : InterruptedPA I V p order s s
  | step {s s₁ s₂ : PSt} (dl : Deadline) (fuel : Nat) (o : ProgStT) :
      InterruptedPA I V p order s s₁ → runTimeout I V p (ixSetsOfA V p) order dl fuel s₁ = .timedOut o → s₂ = o.st →
      InterruptedPA I V p order s s₂

/-- **resumption completes to exactly the uninterrupted result**: after ANY number of interrupted calls at any points, a `run()` that
completes leaves exactly the facts of an uninterrupted `run()` from the original value -/
theorem resume_complete_phys_agg (I : Interp E B G P A) (V : Hir.VarsOf E B) (p : Program E B G P A) (order : SccOrder)
    (c : CtxA I V p order) (s s' : PSt) (fuelM fuel : Nat) (oM o : ProgSt)
    (hs : WFPSt p s)
    (hM : run I V p (ixSetsOfA V p) order fuelM s = some oM)
    (hi : InterruptedPA I V p order s s')
    (h : run I V p (ixSetsOfA V p) order fuel s' = some o) :
    ∀ f, factsOf o.st f ↔ factsOf oM.st f := by
  have hbetween : ∀ u, InterruptedPA I V p order s u →
      WFPSt p u ∧ ExtendsP p s u ∧ (∀ f, factsOf u f → factsOf oM.st f) := by
    intro u hu
    induction hu with
    | refl =>
      obtain ⟨_, hextM⟩ := run_wf_extends_physA I c.ext V c.supp c.perm p _ order c.rel c.valid c.strat
        (planOk_ixSetsOfA V p c.arity) (aggPlanOk_ixSetsOfA V p c.aggArity) c.rules s fuelM oM hs hM
      exact ⟨hs, PExt.refl p s, hextM.facts hs⟩
    | @step s₁ s₂ dl fuel' o' _ hrun hu ih =>
      obtain ⟨hw, hext, hsound⟩ := ih
      subst hu
      exact timeout_false_sound_phys_agg I V p order c dl s s₁ fuelM fuel' oM o' hs hw hM hext hsound hrun
  obtain ⟨hw, hext, hsound⟩ := hbetween s' hi
  exact restart_phys_agg I V p order c s s' fuelM fuel oM o hs hw hM hext hsound h

/-! ## non-vacuity: the program of `Props/C04Phys.lean` (reachability, its complement by negation, out-degrees by `count`),
interrupted at the first and at the second reading of the clock and resumed -/

theorem negA_ctx : CtxA exA Plan.exV pNeg [[0], [1], [2]] :=
  { ext := exA_ext, supp := exA_supp, perm := exA_perm, rel := neg_hyps.1, valid := neg_hyps.2.1, strat := neg_hyps.2.2.1,
    arity := by decide, aggArity := by decide, rules := neg_hyps.2.2.2.2.2.1 }

def outcomeRowsA : Outcome ProgStT → Option (Bool × List (List Tuple))
  | .done o => some (true, o.st.map (·.rows))
  | .timedOut o => some (false, o.st.map (·.rows))
  | .outOfFuel => none

/-- interrupted at the first reading (inside the recursive stratum: `reach` incomplete, nothing downstream derived) and at the
third (after the negation stratum); a `run()` from either value ends with the rows of the uninterrupted run -/
theorem negA_interrupted :
    outcomeRowsA (runTimeout exA Plan.exV pNeg (ixSetsOfA Plan.exV pNeg) [[0], [1], [2]] (fun k => k == 0) 10 sNeg) =
      some (false, [[[.int 1], [.int 2], [.int 3]], [[.int 1, .int 2]], [[.int 1], [.int 2]], [], []]) ∧
    outcomeRowsA (runTimeout exA Plan.exV pNeg (ixSetsOfA Plan.exV pNeg) [[0], [1], [2]] (fun k => k == 1) 10 sNeg) =
      some (false, [[[.int 1], [.int 2], [.int 3]], [[.int 1, .int 2]], [[.int 1], [.int 2]], [[.int 3]], []]) ∧
    (match runTimeout exA Plan.exV pNeg (ixSetsOfA Plan.exV pNeg) [[0], [1], [2]] (fun k => k == 0) 10 sNeg with
      | .timedOut o => (run exA Plan.exV pNeg (ixSetsOfA Plan.exV pNeg) [[0], [1], [2]] 10 o.st).map (fun o' => o'.st.map (·.rows))
      | _ => none) =
      some [[[.int 1], [.int 2], [.int 3]], [[.int 1, .int 2]], [[.int 1], [.int 2]], [[.int 3]],
            [[.int 1, .int 1], [.int 2, .int 0], [.int 3, .int 0]]] := by
  refine ⟨by decide, by decide, by decide⟩

#print axioms restart_phys_agg
#print axioms rerun_idempotent_phys_agg
#print axioms timeout_false_sound_phys_agg
#print axioms timeout_true_complete_phys_agg
#print axioms resume_complete_phys_agg

end AscentVerif.Phys
