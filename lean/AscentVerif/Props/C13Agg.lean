import AscentVerif.Props.C04
import AscentVerif.Props.C14
import AscentVerif.Props.C17
import AscentVerif.Model.StdInterp
import AscentVerif.Proofs.AggRestart
/-!
# C13 / C14 for stratified programs WITH aggregation and negation

The restart lemma of `Props/C13.lean` (`derivable_between`) is about monotone programs.  For a
stratified program the same holds stratum by stratum: a run started from ANY program value lying
between the inputs and the stratified model (the value left by a completed run, by an interrupted
`run_timeout`, …) ends in exactly the stratified model.  Consequences: `run()` is idempotent for
every stratified program (first sentence of C13, all programs), an interrupted `run_timeout` holds
only tuples of the stratified model, and resumption completes to it (C14 for programs with
aggregation).

The stratified model is referred to through a *reference run*: a completed `run()` from the inputs
(`Props/C04.lean` characterises what it computes).

All statements are proved as stated (no hypothesis changed).  Helper development:
`Proofs/AggRestartSpec.lean` (specification-level strata induction `Agg.strata_agree`),
`Proofs/AggRestartLink.lean` (equal tuple sets + `Extends` + permutation-invariant aggregators give
interchangeable aggregation views), `Proofs/AggRestartTimeout.lean` (interrupted SCCs, completed prefix
of the order), `Proofs/AggRestart.lean` (`Agg.restart_facts`, `Agg.timeout_sound_from`).
`timeout_false_sound_agg_from` is the generalisation of `timeout_false_sound_agg` to any start value
between the inputs and the reference result (what `resume_complete_agg` needs).
-/
namespace AscentVerif.Engine
open AscentVerif

variable {E B G P A : Type}

/-- aggregators do not depend on the order in which the matching tuples are handed to them (the
enumeration order of an index is arbitrary in the real code; the library aggregators satisfy this:
`Props/C17.lean`) -/
def AggPermInvariant (I : Interp E B G P A) : Prop :=
  ∀ (fn : A) (l l' : List Tuple), l.Perm l' → I.agg fn l = I.agg fn l'

/-- `t` extends `s`: same declared relations, every row vector of `s` is a prefix of the one of `t`, and the
rows added are pairwise distinct and not among the rows of `s` (what `run` / `run_timeout` do to a value) -/
def Extends (p : Program E B G P A) (s t : St) : Prop :=
  ∀ r, r < p.rels.length → ∃ extra : List Tuple,
    (relSt t r).rows = (relSt s r).rows ++ extra ∧ extra.Nodup ∧ ∀ x ∈ extra, x ∉ (relSt s r).rows

/-- **stratified restart**: `psM` is a completed reference run from `s`; `t` extends `s` and holds only
facts of the reference result.  Then ANY completed run from `t` (any deadline oracle) ends with exactly
the facts of the reference result. -/
theorem restart_agg (I : Interp E B G P A) (cfg : Config) (p : Program E B G P A) (order : SccOrder)
    (s t : St) (dl : Deadline) (fuelM fuel : Nat) (psM ps : ProgSt)
    (hp : RelationalAgg p) (ho : validOrder p order = true) (hs : Stratified p order) (hperm : AggPermInvariant I)
    (hs0 : WFSt p s) (ht0 : WFSt p t)
    (hM : run I cfg p order fuelM s = .done psM)
    (hext : Extends p s t) (hsound : ∀ f, factsOf t f → factsOf psM.st f)
    (hrun : runTimeout I cfg p order dl fuel t = .done ps) :
    ∀ f, factsOf ps.st f ↔ factsOf psM.st f :=
  Agg.restart_facts I cfg p order hp.1 hp.2 ho hs hperm s t dl fuelM fuel psM ps hs0 ht0 hM hext hsound hrun

/-- a value left by a completed run is well-formed and extends the start value -/
private theorem run_wf_extends (I : Interp E B G P A) (cfg : Config) (p : Program E B G P A) (order : SccOrder)
    (s : St) (fuel : Nat) (ps : ProgSt)
    (hp : RelationalAgg p) (ho : validOrder p order = true) (hs : Stratified p order) (hs0 : WFSt p s)
    (h : run I cfg p order fuel s = .done ps) :
    WFSt p ps.st ∧ Extends p s ps.st ∧ (∀ f, factsOf s f → factsOf ps.st f) := by
  have hspec := Agg.run_spec I cfg p (fun r => (relSt s r).rows) True hp.1 hp.2 order ho hs never fuel s ps
    hs0 (fun _ _ => rfl) h
  refine ⟨(Agg.PInv.sinvA I p _ _ True hspec.1).wfSt, fun r hr => (hspec.1.good r hr).2, ?_⟩
  intro f hf
  exact Agg.PInv.inp_sub hspec.1 f ⟨Agg.facts_lt_of_len hs0.1 hf, hf⟩

/-- **run() is idempotent for every stratified program** (aggregation, negation included): a second
`run()` on an unmodified program value appends nothing -/
theorem rerun_idempotent_agg (I : Interp E B G P A) (cfg : Config) (p : Program E B G P A) (order : SccOrder)
    (s : St) (fuel₁ fuel₂ : Nat) (ps₁ ps₂ : ProgSt)
    (hp : RelationalAgg p) (ho : validOrder p order = true) (hs : Stratified p order) (hperm : AggPermInvariant I)
    (hs0 : WFSt p s)
    (h₁ : run I cfg p order fuel₁ s = .done ps₁) (h₂ : run I cfg p order fuel₂ ps₁.st = .done ps₂) :
    (∀ r, r < p.rels.length → (relSt ps₂.st r).rows = (relSt ps₁.st r).rows) ∧
    (∀ f, factsOf ps₂.st f ↔ factsOf ps₁.st f) := by
  obtain ⟨hw₁, hext₁, _⟩ := run_wf_extends I cfg p order s fuel₁ ps₁ hp ho hs hs0 h₁
  have hfacts := restart_agg I cfg p order s ps₁.st never fuel₁ fuel₂ ps₁ ps₂ hp ho hs hperm hs0 hw₁ h₁ hext₁
    (fun _ hf => hf) h₂
  have hrows : ∀ r, r < p.rels.length → (relSt ps₂.st r).rows = (relSt ps₁.st r).rows := by
    intro r hr
    obtain ⟨derived, hd, _, hnot⟩ := (run_wf_extends I cfg p order ps₁.st fuel₂ ps₂ hp ho hs hw₁ h₂).2.1 r hr
    cases derived with
    | nil => simpa using hd
    | cons t ts =>
      exfalso
      have hin : factsOf ps₂.st ⟨r, t⟩ := by show t ∈ (relSt ps₂.st r).rows; rw [hd]; simp
      exact hnot t (by simp) ((hfacts ⟨r, t⟩).mp hin)
  exact ⟨hrows, hfacts⟩

/-- **run_timeout returned `false`, from any value between the inputs and the stratified model**
(generalisation of `timeout_false_sound_agg`: `t` extends `s` and holds only facts of the reference
result; so does the value left by the interrupted call) -/
theorem timeout_false_sound_agg_from (I : Interp E B G P A) (cfg : Config) (p : Program E B G P A) (order : SccOrder)
    (dl : Deadline) (s t : St) (fuelM fuel : Nat) (psM ps : ProgSt)
    (hp : RelationalAgg p) (ho : validOrder p order = true) (hs : Stratified p order) (hperm : AggPermInvariant I)
    (hs0 : WFSt p s) (ht0 : WFSt p t)
    (hM : run I cfg p order fuelM s = .done psM)
    (hext : Extends p s t) (hsound : ∀ f, factsOf t f → factsOf psM.st f)
    (hrun : runTimeout I cfg p order dl fuel t = .timedOut ps) :
    WFSt p ps.st ∧ Extends p s ps.st ∧ (∀ f, factsOf ps.st f → factsOf psM.st f) :=
  Agg.timeout_sound_from I cfg p order hp.1 hp.2 ho hs hperm s t dl fuelM fuel psM ps hs0 ht0 hM hext hsound hrun

/-- **run_timeout returned `false`** on a stratified program, at whatever point the deadline struck:
the value is well-formed, extends the start value (no input lost, nothing duplicated) and holds only
tuples of the stratified model (the result of an uninterrupted run) -/
theorem timeout_false_sound_agg (I : Interp E B G P A) (cfg : Config) (p : Program E B G P A) (order : SccOrder)
    (dl : Deadline) (s : St) (fuelM fuel : Nat) (psM ps : ProgSt)
    (hp : RelationalAgg p) (ho : validOrder p order = true) (hs : Stratified p order) (hperm : AggPermInvariant I)
    (hs0 : WFSt p s)
    (hM : run I cfg p order fuelM s = .done psM)
    (hrun : runTimeout I cfg p order dl fuel s = .timedOut ps) :
    WFSt p ps.st ∧ Extends p s ps.st ∧ (∀ f, factsOf ps.st f → factsOf psM.st f) :=
  timeout_false_sound_agg_from I cfg p order dl s s fuelM fuel psM ps hp ho hs hperm hs0 hs0 hM
    (Agg.ExtSt.refl p s) (run_wf_extends I cfg p order s fuelM psM hp ho hs hs0 hM).2.2 hrun

/-- a history of interrupted calls on a program with aggregation -/
inductive InterruptedA (I : Interp E B G P A) (cfg : Config) (p : Program E B G P A) (order : SccOrder) : St → St → Prop where
  | refl (s : St) : InterruptedA I cfg p order s s
  | step {s t u : St} (dl : Deadline) (fuel : Nat) (ps : ProgSt) :
      InterruptedA I cfg p order s t → runTimeout I cfg p order dl fuel t = .timedOut ps → u = ps.st →
      InterruptedA I cfg p order s u

/-- after any number of interruptions at any points the value is well-formed, extends the original value
and holds only facts of the reference result -/
theorem interrupted_between_agg (I : Interp E B G P A) (cfg : Config) (p : Program E B G P A) (order : SccOrder)
    (hp : RelationalAgg p) (ho : validOrder p order = true) (hs : Stratified p order) (hperm : AggPermInvariant I)
    {s t : St} (hs0 : WFSt p s) (fuelM : Nat) (psM : ProgSt)
    (hM : run I cfg p order fuelM s = .done psM)
    (h : InterruptedA I cfg p order s t) :
    WFSt p t ∧ Extends p s t ∧ (∀ f, factsOf t f → factsOf psM.st f) := by
  induction h with
  | refl => exact ⟨hs0, Agg.ExtSt.refl p s, (run_wf_extends I cfg p order s fuelM psM hp ho hs hs0 hM).2.2⟩
  | step dl fuel ps _ hrun hu ih =>
    obtain ⟨hw, hext, hsound⟩ := ih
    subst hu
    exact timeout_false_sound_agg_from I cfg p order dl s _ fuelM fuel psM ps hp ho hs hperm hs0 hw hM hext hsound hrun

/-- **resumption completes to exactly the uninterrupted result**, for stratified programs: after any
sequence of interrupted `run_timeout` calls, a call that runs to completion leaves exactly the facts
of an uninterrupted `run()` from the original value -/
theorem resume_complete_agg (I : Interp E B G P A) (cfg : Config) (p : Program E B G P A) (order : SccOrder)
    (hp : RelationalAgg p) (ho : validOrder p order = true) (hs : Stratified p order) (hperm : AggPermInvariant I)
    {s t : St} (hs0 : WFSt p s) (fuelM : Nat) (psM : ProgSt)
    (hM : run I cfg p order fuelM s = .done psM)
    (h : InterruptedA I cfg p order s t) (dl : Deadline) (fuel : Nat) (ps : ProgSt)
    (hrun : runTimeout I cfg p order dl fuel t = .done ps) :
    ∀ f, factsOf ps.st f ↔ factsOf psM.st f := by
  obtain ⟨hw, hext, hsound⟩ := interrupted_between_agg I cfg p order hp ho hs hperm hs0 fuelM psM hM h
  exact restart_agg I cfg p order s t dl fuelM fuel psM ps hp ho hs hperm hs0 hw hM hext hsound hrun

/-! ## non-vacuity: a tiny stratified program with a counting aggregation, interrupted and resumed -/

/-- `r1(n) <-- agg n = count() in r0(_)` -/
def exP : Program Unit Unit Unit Unit Unit :=
  { rels := [⟨1, false⟩, ⟨1, false⟩]
    rules := [⟨[⟨1, [()]⟩], [.agg ⟨[0], (), [], 0, [.wild]⟩]⟩] }

/-- the only expression is "variable 0"; the only aggregator is `count` -/
def exI : Interp Unit Unit Unit Unit Unit :=
  ⟨fun _ ρ => (Env.get? ρ 0).getD .unit, fun _ _ => true, fun _ _ => [], fun _ _ => none,
   fun _ l => [[.int l.length]], fun _ a _ => (a, false)⟩

def exS : St := initSt exP fun r => if r = 0 then [[.int 7], [.int 8]] else []

/-- all hypotheses of the theorems above hold together on `exP`: a reference run, a `run_timeout`
interrupted at the first reading of the clock, and a completed resumption, which ends with `r1 = {2}` -/
example : RelationalAgg exP ∧ validOrder exP [[0]] = true ∧ Stratified exP [[0]] ∧ AggPermInvariant exI ∧
    WFSt exP exS ∧
    ∃ psM psT ps, run exI {} exP [[0]] 5 exS = .done psM ∧
      runTimeout exI {} exP [[0]] (fun k => k == 0) 5 exS = .timedOut psT ∧
      InterruptedA exI {} exP [[0]] exS psT.st ∧
      runTimeout exI {} exP [[0]] never 5 psT.st = .done ps ∧
      (relSt psM.st 1).rows = [[.int 2]] ∧ (relSt psT.st 1).rows = [[.int 2]] ∧ (relSt ps.st 1).rows = [[.int 2]] := by
  refine ⟨⟨by decide, by decide⟩, by decide, by unfold Stratified; decide, ?_, wfSt_initSt _ _, _, _, _, rfl, rfl, ?_, rfl, ?_, ?_, ?_⟩
  · intro fn l l' h
    show [[Val.int l.length]] = [[Val.int l'.length]]
    rw [h.length_eq]
  · exact .step (fun k => k == 0) 5 _ (.refl _) rfl rfl
  all_goals decide

/-! ## axiom audit -/
/-- the hypothesis is met by the interpretation the ties execute: the library aggregators `count`, `sum`,
`min`, `max`, `not` do not depend on the order of their input (`Props/C17.lean`) -/
theorem std_aggPermInvariant (kinds : RelId → Std.LatKind) : AggPermInvariant (Std.interp kinds) := by
  intro fn l l' h
  have hmap : (l.map fun t => Std.intOf (t.headD .unit)).Perm (l'.map fun t => Std.intOf (t.headD .unit)) := h.map _
  cases fn with
  | count => show Std.evalAx .count l = Std.evalAx .count l'; simp [Std.evalAx, h.length_eq]
  | sum => show Std.evalAx .sum l = Std.evalAx .sum l'; simp only [Std.evalAx]; rw [Agg.aggSum_perm hmap]
  | min => show Std.evalAx .min l = Std.evalAx .min l'; simp only [Std.evalAx]; rw [Agg.aggMin_perm hmap]
  | max => show Std.evalAx .max l = Std.evalAx .max l'; simp only [Std.evalAx]; rw [Agg.aggMax_perm hmap]
  | not => show Std.evalAx .not l = Std.evalAx .not l'; simp [Std.evalAx, h.length_eq]
  | minmax => show Std.evalAx .minmax l = Std.evalAx .minmax l'; simp only [Std.evalAx]; rw [Agg.aggMin_perm hmap, Agg.aggMax_perm hmap]
  | argmin =>
    show Std.evalAx .argmin l = Std.evalAx .argmin l'
    simp only [Std.evalAx]
    rw [Agg.aggMin_perm hmap]
    cases Agg.aggMin (l'.map fun t => Std.intOf (t.headD .unit)) with
    | none => rfl
    | some m =>
      simp only
      rw [Agg.aggMin_perm (((h.filter _).map _))]

#print axioms restart_agg
#print axioms rerun_idempotent_agg
#print axioms timeout_false_sound_agg_from
#print axioms timeout_false_sound_agg
#print axioms resume_complete_agg

end AscentVerif.Engine
#print axioms AscentVerif.Engine.std_aggPermInvariant
