import AscentVerif.Props.C01
import AscentVerif.Model.EngineSched
import AscentVerif.Proofs.ParStrata
/-!
# C02 — parallel evaluation equals serial evaluation under every schedule

For every aggregation-free relational program, every interpretation, every input, every valid SCC
order and EVERY schedule (any permutation of the iteration's head updates, i.e. any interleaving
of the workers' atomic steps, with or without inter-rule parallelism): if the parallel engine
returns, the relations are exactly the least model — hence exactly what the serial engine computes —
no tuple is lost, none is inserted twice.  All statements are proved.
-/
namespace AscentVerif.Engine
open AscentVerif

variable {E B G P A : Type}

/-- **every schedule computes the least model** (from any well-formed start value) -/
theorem runPar_eq_leastModel (I : Interp E B G P A) (cfg : Config) (p : Program E B G P A) (order : SccOrder)
    (σ : Sched E B G P A) (s : St) (fuel : Nat) (ps : ParProgSt)
    (hp : Relational p) (ho : validOrder p order = true) (hs : WFSt p s)
    (hrun : runPar I cfg p order σ fuel s = some ps) :
    WFSt p ps.st ∧
    (∀ f, factsOf ps.st f ↔ Derivable I p.rules noAgg (fun g => g.rel < p.rels.length ∧ factsOf s g) f) ∧
    (∀ r, r < p.rels.length → ∃ derived, (relSt ps.st r).rows = (relSt s r).rows ++ derived ∧
      derived.Nodup ∧ ∀ t ∈ derived, t ∉ (relSt s r).rows) :=
  ⟨runParFrom_wf I cfg p (fun r => (relSt s r).rows) hp.2.1 hp.1 hp.2.2 order ho σ fuel s ps hs (fun _ _ => rfl) hrun,
   fun f =>
    ⟨runParFrom_sound I cfg p (fun r => (relSt s r).rows) hp.2.1 hp.1 hp.2.2 order ho σ fuel s ps hs (fun _ _ => rfl) hrun f,
     runParFrom_complete I cfg p (fun r => (relSt s r).rows) hp.2.1 hp.1 hp.2.2 order ho σ fuel s ps hs (fun _ _ => rfl) hrun f⟩,
   runParFrom_rows_set I cfg p (fun r => (relSt s r).rows) hp.2.1 hp.1 hp.2.2 order ho σ fuel s ps hs (fun _ _ => rfl) hrun⟩

/-- **parallel = serial, for every schedule**: same relation contents as sets -/
theorem par_eq_serial (I : Interp E B G P A) (cfg cfg' : Config) (p : Program E B G P A) (order order' : SccOrder)
    (σ : Sched E B G P A) (s : St) (fuel fuel' : Nat) (pp : ParProgSt) (ps : ProgSt)
    (hp : Relational p) (ho : validOrder p order = true) (ho' : validOrder p order' = true) (hs : WFSt p s)
    (hpar : runPar I cfg p order σ fuel s = some pp)
    (hser : run I cfg' p order' fuel' s = .done ps) :
    ∀ f, factsOf pp.st f ↔ factsOf ps.st f := fun f =>
  ((runPar_eq_leastModel I cfg p order σ s fuel pp hp ho hs hpar).2.1 f).trans
    ((run_from_eq_leastModel I cfg' p order' s fuel' ps hp ho' hs hser).2.1 f).symm

/-- two schedules (e.g. two thread counts, two interleavings) agree -/
theorem par_schedule_independent (I : Interp E B G P A) (cfg : Config) (p : Program E B G P A) (order : SccOrder)
    (σ σ' : Sched E B G P A) (s : St) (fuel fuel' : Nat) (pp pp' : ParProgSt)
    (hp : Relational p) (ho : validOrder p order = true) (hs : WFSt p s)
    (h : runPar I cfg p order σ fuel s = some pp) (h' : runPar I cfg p order σ' fuel' s = some pp') :
    ∀ f, factsOf pp.st f ↔ factsOf pp'.st f := fun f =>
  ((runPar_eq_leastModel I cfg p order σ s fuel pp hp ho hs h).2.1 f).trans
    ((runPar_eq_leastModel I cfg p order σ' s fuel' pp' hp ho hs h').2.1 f).symm

/-- the identity schedule is a schedule, and with it the parallel iteration enumerates exactly the
serial iteration's environments (non-vacuity of `Sched`) -/
example : (Sched.id : Sched E B G P A).perm 0 [] = [] := rfl

/-! ## axiom audit -/
#print axioms runPar_eq_leastModel
#print axioms par_eq_serial
#print axioms par_schedule_independent

end AscentVerif.Engine
