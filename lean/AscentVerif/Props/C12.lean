import AscentVerif.Proofs.C12Spec
import AscentVerif.Proofs.C12Provider
/-!
# C12 — a relation tagged `#[ds(trrel_uf)]` behaves as its explicit closure

**Property.** A binary relation `r(T,T)` or ternary relation `r(K,T,T)` tagged with the `trrel_uf` provider contains after
`run()` exactly the reflexive transitive closure (per `K`, reflexive on mentioned elements) of the tuples inserted into it; every
rule reading it through any combination of bound and free columns, in a non-recursive or recursive stratum, derives what it
would derive from a plain relation closed by the explicit reflexivity and transitivity rules, and evaluation never panics.

**What is proved here.**

(a) *Specification level, full strength* (`twin_binary_iff_closure`, `twin_ternary_iff_closure`,
`twin_other_relations_untouched`): for EVERY program (`others`: arbitrary rules that may read and write the tagged relation,
any interpretation of the embedded Rust expressions, any input), in the least model of the explicit-closure twin
`others ++ closureRules t` the tagged relation holds exactly `ReflTrans` of the tuples inserted by the input and by the other
rules — both directions, binary and per-key ternary form — and every other relation is derived by the other rules alone.  With
C01 (`run_eq_leastModel`: the engine model computes the least model) this is the meaning of "behaves as its explicit closure":
the right-hand side of the tie-B comparison.

(b) *Provider model (Model/TrRelUFInd.lean), partial*: `provider_first_batch_contract_partial` — a first batch inserted into
`new` and merged becomes a `delta` whose `contains` is exactly the closure of the batch while `total` stays empty, and the next
merge moves that `delta` into `total` unchanged and leaves an empty `delta` (the contract `total' = total ∪ delta`,
`delta' = closure(total' ∪ new) \ total'` for one batch; collapse-free batches, the hypothesis inherited from C18's partial
theorems about `TrRelUnionFind`); `provider_merge_never_new` — a merge that returns never leaves `delta` / `total` in the `New`
variant, so the reads generated code performs on them cannot hit `panic!("unexpected New")`.

**The full-strength provider contract is FALSE for the real code** (and for the model, which reproduces it): witnesses
`provider_f12_witness` (second batch: the reflexive pair of a new element is in `total` at once and in no `delta`),
`provider_f11_witness`, `provider_f14_witness` (ternary views through reverse maps lose tuples), `provider_f8_witness`,
`provider_f17_repaired`, `provider_f18_witness` (panics), all by evaluation of the model on the sequences that tie C also runs
through the real types.  These are findings F12, F11, F14, F8, F17, F18 of KNOWN_FINDINGS.json.

UNPROVED (established only by the ties, inside the stated classes):
* soundness of `delta` / `total` for arbitrary op sequences (every tuple of every view is in the closure of what was inserted):
  needs the invariant of `TrRelUnionFind` through class collapse (`merge_multiple`), which C18 does not have either, plus the
  invariant of the `loop { join1; join2; join3 }` of the merge (delta connections = paths through at least one new connection);
* completeness of `total` after the final merge of a stratum for arbitrary sequences (what makes non-recursive uses correct; tie B
  finds no counterexample for the binary form outside a looping stratum);
* correspondence of Model/EngineDs.lean with the generated code beyond the tie (the model is validated case by case).
-/
namespace AscentVerif.C12
open AscentVerif AscentVerif.TrInd AscentVerif.TrRel

variable {E B G P A : Type}

/-! ## (a) specification level -/

theorem twin_binary_iff_closure (I : Interp E B G P A) (varE : Var → E) (hv : VarExpr I varE) (others : List (Rule E B G P A))
    (agg : RelId → List Tuple) (inp : DB) (t : RelId) (x y : Val) :
    Derivable I (others ++ closureRules2 varE t) agg inp ⟨t, [x, y]⟩ ↔
      ReflTrans (fun a b => Inserted I others (others ++ closureRules2 varE t) agg inp t [a, b]) x y :=
  twin2_iff I varE hv others agg inp t x y

theorem twin_ternary_iff_closure (I : Interp E B G P A) (varE : Var → E) (hv : VarExpr I varE) (others : List (Rule E B G P A))
    (agg : RelId → List Tuple) (inp : DB) (t : RelId) (k x y : Val) :
    Derivable I (others ++ closureRules3 varE t) agg inp ⟨t, [k, x, y]⟩ ↔
      ReflTrans (fun a b => Inserted I others (others ++ closureRules3 varE t) agg inp t [k, a, b]) x y :=
  twin3_iff I varE hv others agg inp t k x y

theorem twin_other_relations_untouched (I : Interp E B G P A) (varE : Var → E) (others : List (Rule E B G P A))
    (agg : RelId → List Tuple) (inp : DB) (t : RelId) (f : Fact) (hf : f.rel ≠ t) :
    Derivable I (others ++ closureRules2 varE t) agg inp f ↔
      (inp f ∨ Cons I others agg (Derivable I (others ++ closureRules2 varE t) agg inp) f) :=
  twin2_other_rel I varE others agg inp t f hf

/-- non-vacuity of (a): the twin of `t(x,y) <-- e(x,y)` over `e = {(1,2),(2,3)}` derives t(1,3), t(3,3), not t(3,1), not t(4,4) -/
theorem twin_example :
    Derivable (Std.interp (fun _ => .maxInt)) (exOthers ++ closureRules2 Std.Ex.var 0) (fun _ => []) exInp ⟨0, [.int 1, .int 3]⟩ ∧
    Derivable (Std.interp (fun _ => .maxInt)) (exOthers ++ closureRules2 Std.Ex.var 0) (fun _ => []) exInp ⟨0, [.int 3, .int 3]⟩ ∧
    ¬ Derivable (Std.interp (fun _ => .maxInt)) (exOthers ++ closureRules2 Std.Ex.var 0) (fun _ => []) exInp ⟨0, [.int 3, .int 1]⟩ ∧
    ¬ Derivable (Std.interp (fun _ => .maxInt)) (exOthers ++ closureRules2 Std.Ex.var 0) (fun _ => []) exInp ⟨0, [.int 4, .int 4]⟩ :=
  ⟨example_derives_1_3, example_derives_3_3, example_not_3_1, example_not_4_4⟩

/-! ## (b) the provider model -/

/-- **first batch = closure.**  Insert the pairs `ps` into a fresh `new` and merge (as generated code does in the first
iteration of the first SCC that fills the relation).  If the model's `TrRelUnionFind` runs the batch without panic and without
a class collapse (`nd.subs = []`, C18's hypothesis), then: the merge does not panic, `new` is empty again, `total` is still
empty, `delta` is the `Total`-variant structure `nd` and its `contains` decides exactly the reflexive-transitive closure of `ps`
on mentioned elements.  A second merge (nothing new) moves `delta` into `total` unchanged and leaves a `delta` without tuples. -/
theorem provider_first_batch_contract_partial (pol : Policy) (ps : List (Int × Int)) (nd : TrRel)
    (hrun : TrRel.run {} (orderBatch pol (batchOf ps)) = .ok nd) (hs : nd.subs = []) :
    insertAll (.new []) ps = .ok (.new (batchOf ps)) ∧
    merge pol (.new (batchOf ps)) Common.default Common.default = .ok (.new [], .total nd, .total {}) ∧
    (∀ x y, ((Common.total nd).contains x y = .ok true ↔ Closure ps x y) ∧
            ((Common.total nd).contains x y = .ok false ↔ ¬ Closure ps x y)) ∧
    (∀ x y, (Common.total {}).contains x y = .ok false) ∧
    (nd.sets ≠ [] →
      merge pol (.new []) (.total nd) (.total {}) = .ok (.new [], .delta { total := nd }, .total nd) ∧
      (Common.delta { total := nd }).iterAll = .ok []) :=
  first_batch_contract pol ps nd hrun hs

/-- a merge that returns leaves `new` empty (`New`), `delta` in the `Delta` or `Total` variant and `total` in the `Total`
variant: the reads of generated code (`contains_key`, `index_get`, `iter_all` on delta / total) never reach `panic!("unexpected New")` -/
theorem provider_merge_never_new (pol : Policy) (n d t n' d' t' : Common) (h : merge pol n d t = .ok (n', d', t')) :
    n' = .new [] ∧ ((∃ r, d' = .delta r) ∨ (∃ r, d' = .total r)) ∧ ∃ r, t' = .total r :=
  merge_never_new pol n d t n' d' t' h

/-! ### the full contract is false: witnesses (the same sequences run through the real types in tie C, corpus/C12) -/

/-- F12.  batch 1 = {(1,2)}, batch 2 = {(2,3)}: after the second merge `(3,3)` is already in `total` and in no view of `delta`
through `iter_all` / `contains`, although it is new (closure(total' ∪ new) \ total' contains it).
Observed: `delta.iter_all`, `delta.contains(3,3)`, `total.contains(3,3)` (see `f12Obs`). -/
theorem provider_f12_witness :
    f12Obs = Res.ok ([(2, 3), (1, 3)], false, true) := by decide

/-- F11.  ternary, one batch {(0,1,2)}: the view [1] probed with 2 misses (0,2,2), the view [2] probed with 1 misses (0,1,1),
while the view [0,1] has them. -/
theorem provider_f11_witness :
    f11Obs = Res.ok (none, none, some [[0, 2, 2]]) := by decide

/-- F14.  ternary, batches {(0,1,2)}, {(0,2,3)}: the delta view [1] probed with 1 misses the new tuple (0,1,3). -/
theorem provider_f14_witness :
    f14Obs = Res.ok (none, some [[0, 1, 3]]) := by decide

/-- F8.  ternary, key 0 receives (1,2), then nothing for one merge, then (2,3): the merge panics. -/
theorem provider_f8_witness : f8Result = Res.panic := by decide

/-- F17 (repaired in the code, `.max(1)`).  `len_estimate` of the view [1,2] on an empty ternary relation no longer panics. -/
theorem provider_f17_repaired : (Ternary.default true true).lenEstimate12 = Res.ok 0 := by decide

/-- F18.  ternary, key 0: batch {(1,2)}, then batch {(3,3)} (a reflexive pair on a new element): the per-key delta has an empty
`iter_all` and is dropped from `delta.map`, the reverse maps still name key 0, and the delta view [1] probed with 3 panics. -/
theorem provider_f18_witness : f18Runs = Res.ok () ∧ f18Obs = Res.panic := by decide

end AscentVerif.C12
