import AscentVerif.Model.EnginePhysParLatTimeout
import AscentVerif.Props.C02PhysLat
import AscentVerif.Proofs.PhysParLatTimeout
/-!
# C14 / C13 at the level of the concurrent indices, WITH lattices: `run_timeout` of an `ascent_par!` program

`Model/EnginePhysParLatTimeout.lean` models the `run_timeout` that `#![generate_run_timeout]` adds to the code `ascent_par!`
generates for an aggregation-free program with `lattice` relations (`Model/EnginePhysParLat.lean`): the deadline is looked at
between the iterations of a looping SCC and at the end of a non-looping one, after the dynamic indices have been unfrozen and
merged; on the early `return false` every local index of the current SCC — key indices, `CLatIndex`es, the indices of the
plain relations — is dropped, the struct keeps `Default` (empty, unfrozen) indices, and the row vectors stay: for a lattice
the rows with the values joined so far.

Under the hypotheses of `runPhysParLat_spec` (`CtxPL`: `Plan.Ext`, `Plan.Supp`, the flag law `hff` of `join_mut`, `LatticeProg`,
`validOrder`, `arityOk`, `bodyDeclared`, `latPlanOk`, desugared well-scoped rules), from every legal program value (`Legal`:
`WFSt` and at most one row per lattice key), for EVERY schedule, pool size, rule-scheduling mode, deadline oracle and fuel:

* `timeout_never_panics_physParLat` — `run_timeout` never panics, on the early-return path either;
* `timeout_sound_physParLat` — whichever way the call ended, the value it leaves is legal again; every plain relation is the old
  row vector followed by duplicate-free new rows; every lattice key is kept with a value above (`L.le`) the one it had
  (`DBLe` from the start value); and — for monotone programs — the value is below every closed key-unique database above the
  start value, i.e. below the least fixed point;
* `timeout_true_complete_physParLat` — if it returned `true` the conclusion of `runPhysParLat_spec` holds: closed, least;
* `resume_complete_physParLat` — after ANY history of interrupted calls (`InterruptedPL`: each call with its own schedule, pool
  size, mode, deadline oracle and fuel) a `run()` under any schedule in any pool and mode does not panic, and what it returns
  is closed with respect to the ORIGINAL value and, for monotone programs, least among the closed key-unique databases above it.

No antisymmetry of the order is needed (as in `Props/C13PhysLat.lean`, where only idempotence needs it); the flag law `hff` is,
exactly as in `runPhysParLat_spec` (it follows from antisymmetry: `hff_of_antisymm`).
-/
namespace AscentVerif.PhysParLat
open AscentVerif AscentVerif.Engine AscentVerif.Index AscentVerif.Phys

variable {E B G P A : Type}

/-- the standing hypotheses on interpretation, program, index sets and SCC order: those of `runPhysParLat_spec` -/
structure CtxPL (I : Interp E B G P A) (V : Hir.VarsOf E B) (p : Program E B G P A) (ix : IxSets) (order : SccOrder) :
    Prop where
  ext : Plan.Ext I
  supp : Plan.Supp I V
  hff : ∀ r a b, (I.joinMut r a b).2 = false → (I.joinMut r a b).1 = a
  prog : LatticeProg p
  valid : validOrder p order = true
  arity : arityOk p = true
  decl : PhysPar.bodyDeclared p = true
  plan : latPlanOk V p ix = true
  rules : ∀ r ∈ p.rules, Hir.Desugared V r = true ∧ Plan.WellScoped V r = true

theorem CtxPL.bodyDecl {I : Interp E B G P A} {V : Hir.VarsOf E B} {p : Program E B G P A} {ix : IxSets} {order : SccOrder}
    (c : CtxPL I V p ix order) : PhysPar.BodyDeclared p := by
  intro rule hrule r hr
  have := List.all_eq_true.mp (List.all_eq_true.mp c.decl rule hrule) r hr
  simpa using this

/-- a program value `run()` / `run_timeout()` may be called on: well-formed (`WFSt`: one entry per declared relation, rows in
their own part, typed rows, every stored index unfrozen) with typed rows and at most one row per lattice key (`InputOK`) -/
def Legal (p : Program E B G P A) (s : PLSt) : Prop := WFSt p s ∧ InputOK p (xrows s)

/-! ## helpers -/

theorem inputOK_of_wf {p : Program E B G P A} {s : PLSt} (hw : WFSt p s)
    (hk : ∀ r, r < p.rels.length → (declOf p r).lat = true → ((xrows s r).map keyOf).Nodup) : InputOK p (xrows s) := by
  refine ⟨?_, hk⟩
  intro r _ t ht
  rcases List.mem_append.mp ht with ht | ht
  · exact hw.1.2.1 r t ht
  · exact hw.2.2.2.2.1 r t ht

/-- the facts of a well-formed value are the facts of its declared relations -/
theorem factsOf_eq_inputDB {p : Program E B G P A} {s : PLSt} (hw : WFSt p s) : factsOf s = inputDB p (xrows s) := by
  funext f
  apply propext
  constructor
  · intro hf
    refine ⟨?_, hf⟩
    rcases Nat.lt_or_ge f.rel p.rels.length with h | h
    · exact h
    · exfalso
      have hf' : f.args ∈ (PhysPar.pcrel s.pc f.rel).rows ++ (lrel s.lat f.rel).rows := hf
      rw [PhysPar.pcrel_of_ge _ _ (by rw [hw.1.1]; exact h), lrel_of_ge _ _ (by rw [hw.2.1]; exact h)] at hf'
      cases hf'
  · intro hf
    exact hf.2

/-- `DBLe` from a start value, unfolded for a lattice relation: every key is kept, with a value above the old one -/
theorem lat_above_of_DBLe {I : Interp E B G P A} {L : LatOrder I} {p : Program E B G P A} {s st' : PLSt}
    (hle : DBLe I L p (inputDB p (xrows s)) (factsOf st')) (r : RelId) (hr : r < p.rels.length)
    (hl : (declOf p r).lat = true) :
    ∀ t ∈ xrows s r, ∃ t' ∈ xrows st' r, keyOf t' = keyOf t ∧ L.le r (valOf t) (valOf t') := by
  intro t ht
  have h := hle ⟨r, t⟩ ⟨hr, ht⟩
  unfold Dominated at h
  have hl' : isLat p r = true := hl
  simp only [hl', if_true] at h
  obtain ⟨t', h1, h2, h3⟩ := h
  exact ⟨t', h1, h2, h3⟩

/-! ## one call -/

/-- **`run_timeout` of a parallel program with lattices never panics**: whatever the schedule, the pool size, the rule-scheduling
mode, the deadline oracle and the fuel, from every legal program value the call returns `true`, returns `false`, or is still
running when the model's fuel ends — no index is read while unfrozen or written while frozen, no row number is out of bounds, on
the early-return path either -/
theorem timeout_never_panics_physParLat (I : Interp E B G P A) (L : LatOrder I) (V : Hir.VarsOf E B) (p : Program E B G P A)
    (ix : IxSets) (order : SccOrder) (c : CtxPL I V p ix order) (σ : PhysPar.Sched E B G P A) (interRule : Bool)
    (threads : Nat) (dl : Deadline) (fuel : Nat) (s : PLSt) (hs : Legal p s) :
    ∃ out, runTimeout I V p ix order σ interRule threads dl fuel s = .ok out := by
  obtain ⟨out, hout, _⟩ := runTimeout_okP I L c.ext V c.supp p ix order σ interRule threads dl fuel s c.hff c.prog c.bodyDecl
    c.plan c.rules hs.1 hs.2
  exact ⟨out, hout⟩

/-- the same, as an inequation -/
theorem timeout_ne_panic_physParLat (I : Interp E B G P A) (L : LatOrder I) (V : Hir.VarsOf E B) (p : Program E B G P A)
    (ix : IxSets) (order : SccOrder) (c : CtxPL I V p ix order) (σ : PhysPar.Sched E B G P A) (interRule : Bool)
    (threads : Nat) (dl : Deadline) (fuel : Nat) (s : PLSt) (hs : Legal p s) :
    runTimeout I V p ix order σ interRule threads dl fuel s ≠ .panic := by
  obtain ⟨out, hout⟩ := timeout_never_panics_physParLat I L V p ix order c σ interRule threads dl fuel s hs
  rw [hout]
  intro h
  cases h

/-- the value a `run_timeout` call left, whichever way it ended -/
def OutcomeSt : Res (Outcome ProgStT) → Option PLSt
  | .ok (.done o) => some o.st
  | .ok (.timedOut o) => some o.st
  | _ => none

/-- **`run_timeout` stops only in a sound state**, finished or not, wherever the deadline strikes: the value left is legal
again (well-formed, every stored index unfrozen, one row per lattice key); every plain relation holds its old rows followed by
duplicate-free new ones; every lattice key is kept with a value ABOVE the one it had; the value dominates the start value and —
for monotone programs — is BELOW every closed key-unique database above the start value, i.e. below the least fixed point -/
theorem timeout_sound_physParLat (I : Interp E B G P A) (L : LatOrder I) (V : Hir.VarsOf E B) (p : Program E B G P A)
    (ix : IxSets) (order : SccOrder) (c : CtxPL I V p ix order) (σ : PhysPar.Sched E B G P A) (interRule : Bool)
    (threads : Nat) (dl : Deadline) (s : PLSt) (fuel : Nat) (st' : PLSt) (hs : Legal p s)
    (h : OutcomeSt (runTimeout I V p ix order σ interRule threads dl fuel s) = some st') :
    Legal p st' ∧
    (∀ r, r < p.rels.length → (declOf p r).lat = false → ∃ derived : List Tuple,
      xrows st' r = xrows s r ++ derived ∧ derived.Nodup ∧ ∀ t ∈ derived, t ∉ xrows s r) ∧
    (∀ r, r < p.rels.length → (declOf p r).lat = true →
      ∀ t ∈ xrows s r, ∃ t' ∈ xrows st' r, keyOf t' = keyOf t ∧ L.le r (valOf t) (valOf t')) ∧
    DBLe I L p (inputDB p (xrows s)) (factsOf st') ∧
    (MonotoneProg I L p → ∀ M : DB, KeyUnique p M → LClosed I L p (inputDB p (xrows s)) M → DBLe I L p (factsOf st') M) := by
  obtain ⟨out, hout, hspec⟩ := runTimeout_okP I L c.ext V c.supp p ix order σ interRule threads dl fuel s c.hff c.prog
    c.bodyDecl c.plan c.rules hs.1 hs.2
  rw [hout] at h
  cases out with
  | done o =>
    simp only [OutcomeSt, Option.some.injEq] at h
    subst h
    obtain ⟨res, hres, hsp⟩ := runPhysParLat_spec I L c.ext V c.supp p ix order σ interRule threads fuel s c.hff c.prog
      c.valid c.arity c.decl c.plan c.rules hs.1 hs.2
    rw [runTimeout_done I V p ix order σ interRule threads dl fuel s o hout] at hres
    have hres' : res = some ⟨o.st, o.clock, o.iters⟩ := by
      injection hres with hres
      exact hres.symm
    obtain ⟨hw, hk, hcl, hleast, hset⟩ := hsp _ hres'
    exact ⟨⟨hw, inputOK_of_wf hw hk⟩, hset, lat_above_of_DBLe hcl.1, hcl.1, hleast⟩
  | timedOut o =>
    simp only [OutcomeSt, Option.some.injEq] at h
    subst h
    have hab := hspec o rfl
    refine ⟨⟨hab.wf, inputOK_of_wf hab.wf fun r _ hl => hab.keys r hl⟩, hab.relset, lat_above_of_DBLe hab.above,
      hab.above, ?_⟩
    intro hm M hMk hM
    exact hab.below M ⟨hm, hMk, hM⟩
  | outOfFuel => cases h

/-- **`true` means complete**: the conclusion of `runPhysParLat_spec` — well-formed, one row per key, closed over the final
values, least among the closed key-unique databases for monotone programs, plain relations = old rows ++ duplicate-free new rows -/
theorem timeout_true_complete_physParLat (I : Interp E B G P A) (L : LatOrder I) (V : Hir.VarsOf E B) (p : Program E B G P A)
    (ix : IxSets) (order : SccOrder) (c : CtxPL I V p ix order) (σ : PhysPar.Sched E B G P A) (interRule : Bool)
    (threads : Nat) (dl : Deadline) (s : PLSt) (fuel : Nat) (o : ProgStT) (hs : Legal p s)
    (h : runTimeout I V p ix order σ interRule threads dl fuel s = .ok (.done o)) :
    WFSt p o.st ∧
    (∀ r, r < p.rels.length → (declOf p r).lat = true → ((xrows o.st r).map keyOf).Nodup) ∧
    LClosed I L p (inputDB p (xrows s)) (factsOf o.st) ∧
    (MonotoneProg I L p → ∀ M : DB, KeyUnique p M → LClosed I L p (inputDB p (xrows s)) M → DBLe I L p (factsOf o.st) M) ∧
    (∀ r, r < p.rels.length → (declOf p r).lat = false → ∃ derived : List Tuple,
      xrows o.st r = xrows s r ++ derived ∧ derived.Nodup ∧ ∀ t ∈ derived, t ∉ xrows s r) := by
  obtain ⟨res, hres, hsp⟩ := runPhysParLat_spec I L c.ext V c.supp p ix order σ interRule threads fuel s c.hff c.prog
    c.valid c.arity c.decl c.plan c.rules hs.1 hs.2
  rw [runTimeout_done I V p ix order σ interRule threads dl fuel s o h] at hres
  have hres' : res = some ⟨o.st, o.clock, o.iters⟩ := by
    injection hres with hres
    exact hres.symm
  exact hsp _ hres'

/-! ## histories -/

/-- a history of interrupted calls: each starts from the value the previous one left, under ITS OWN schedule, in its own pool,
in its own rule-scheduling mode, with its own deadline oracle and fuel -/
inductive InterruptedPL (I : Interp E B G P A) (V : Hir.VarsOf E B) (p : Program E B G P A) (ix : IxSets) (order : SccOrder) :
    PLSt → PLSt → Prop where
  | refl (s : PLSt) : InterruptedPL I V p ix order s s
  | step {s s₁ s₂ : PLSt} (σ : PhysPar.Sched E B G P A) (interRule : Bool) (threads : Nat) (dl : Deadline) (fuel : Nat)
      (o : ProgStT) :
      InterruptedPL I V p ix order s s₁ →
      runTimeout I V p ix order σ interRule threads dl fuel s₁ = .ok (.timedOut o) → s₂ = o.st →
      InterruptedPL I V p ix order s s₂

/-- after any number of interruptions the value is legal, keeps the plain rows of the original value as a prefix, dominates the
original value and — for monotone programs — is below every closed key-unique database above the original value -/
theorem interrupted_between_physParLat (I : Interp E B G P A) (L : LatOrder I) (V : Hir.VarsOf E B) (p : Program E B G P A)
    (ix : IxSets) (order : SccOrder) (c : CtxPL I V p ix order) {s s' : PLSt} (hs : Legal p s)
    (hi : InterruptedPL I V p ix order s s') :
    Legal p s' ∧
    (∀ r, r < p.rels.length → (declOf p r).lat = false → ∃ derived : List Tuple, xrows s' r = xrows s r ++ derived) ∧
    DBLe I L p (inputDB p (xrows s)) (inputDB p (xrows s')) ∧
    (MonotoneProg I L p → ∀ M : DB, KeyUnique p M → LClosed I L p (inputDB p (xrows s)) M →
      DBLe I L p (inputDB p (xrows s')) M) := by
  induction hi with
  | refl => exact ⟨hs, fun r _ _ => ⟨[], (List.append_nil _).symm⟩, DBLe.refl _, fun _ M _ hM => hM.1⟩
  | @step s₁ s₂ σ interRule threads dl fuel o _ hrun hu ih =>
    obtain ⟨hl1, hpre, hle, hbelow⟩ := ih
    subst hu
    obtain ⟨hl2, hset, _, hle2, hbelow2⟩ := timeout_sound_physParLat I L V p ix order c σ interRule threads dl s₁ fuel o.st hl1
      (by rw [hrun]; rfl)
    rw [factsOf_eq_inputDB hl2.1] at hle2 hbelow2
    refine ⟨hl2, ?_, DBLe.trans hle hle2, ?_⟩
    · intro r hr hl
      obtain ⟨d1, hd1⟩ := hpre r hr hl
      obtain ⟨d2, hd2, _, _⟩ := hset r hr hl
      exact ⟨d1 ++ d2, by rw [hd2, hd1, List.append_assoc]⟩
    · intro hm M hMk hM
      exact hbelow2 hm M hMk ⟨hbelow hm M hMk hM, hM.2⟩

/-- **resumable**: after any number of interruptions — each under its own schedule, in its own pool and mode — a `run()` under
any schedule in any pool and mode does not panic, and what it returns is legal, closed with respect to the ORIGINAL value
(dominates it, closed under the rules over the final values) and — for monotone programs — least among the closed key-unique
databases above the original value -/
theorem resume_complete_physParLat (I : Interp E B G P A) (L : LatOrder I) (V : Hir.VarsOf E B) (p : Program E B G P A)
    (ix : IxSets) (order : SccOrder) (c : CtxPL I V p ix order) (s s' : PLSt) (σ : PhysPar.Sched E B G P A)
    (interRule : Bool) (threads fuel : Nat) (hs : Legal p s) (hi : InterruptedPL I V p ix order s s') :
    ∃ res, run I V p ix order σ interRule threads fuel s' = .ok res ∧
      ∀ out, res = some out →
        WFSt p out.st ∧
        (∀ r, r < p.rels.length → (declOf p r).lat = true → ((xrows out.st r).map keyOf).Nodup) ∧
        LClosed I L p (inputDB p (xrows s)) (factsOf out.st) ∧
        (MonotoneProg I L p → ∀ M : DB, KeyUnique p M → LClosed I L p (inputDB p (xrows s)) M →
          DBLe I L p (factsOf out.st) M) ∧
        (∀ r, r < p.rels.length → (declOf p r).lat = false → ∃ derived : List Tuple, xrows out.st r = xrows s r ++ derived) := by
  obtain ⟨hl', hpre, hle, hbelow⟩ := interrupted_between_physParLat I L V p ix order c hs hi
  obtain ⟨res, hres, hsp⟩ := runPhysParLat_spec I L c.ext V c.supp p ix order σ interRule threads fuel s' c.hff c.prog
    c.valid c.arity c.decl c.plan c.rules hl'.1 hl'.2
  refine ⟨res, hres, ?_⟩
  intro out hout
  obtain ⟨hw, hk, hcl, hleast, hset⟩ := hsp out hout
  refine ⟨hw, hk, ⟨DBLe.trans hle hcl.1, hcl.2⟩, ?_, ?_⟩
  · intro hm M hMk hM
    exact hleast hm M hMk ⟨hbelow hm M hMk hM, hM.2⟩
  · intro r hr hl
    obtain ⟨d1, hd1⟩ := hpre r hr hl
    obtain ⟨d2, hd2, _, _⟩ := hset r hr hl
    exact ⟨d1 ++ d2, by rw [hd2, hd1, List.append_assoc]⟩

/-- the same for a run known to have returned -/
theorem resume_complete_physParLat' (I : Interp E B G P A) (L : LatOrder I) (V : Hir.VarsOf E B) (p : Program E B G P A)
    (ix : IxSets) (order : SccOrder) (c : CtxPL I V p ix order) (s s' : PLSt) (σ : PhysPar.Sched E B G P A)
    (interRule : Bool) (threads fuel : Nat) (out : ProgSt) (hs : Legal p s) (hi : InterruptedPL I V p ix order s s')
    (h : run I V p ix order σ interRule threads fuel s' = .ok (some out)) :
    LClosed I L p (inputDB p (xrows s)) (factsOf out.st) ∧
    (MonotoneProg I L p → ∀ M : DB, KeyUnique p M → LClosed I L p (inputDB p (xrows s)) M → DBLe I L p (factsOf out.st) M) := by
  obtain ⟨res, hres, hsp⟩ := resume_complete_physParLat I L V p ix order c s s' σ interRule threads fuel hs hi
  rw [h] at hres
  have hres' : res = some out := by
    injection hres with hres
    exact hres.symm
  exact ⟨(hsp out hres').2.2.1, (hsp out hres').2.2.2.1⟩

/-- the resumption may itself be a `run_timeout` that returns `true` -/
theorem resume_timeout_complete_physParLat (I : Interp E B G P A) (L : LatOrder I) (V : Hir.VarsOf E B)
    (p : Program E B G P A) (ix : IxSets) (order : SccOrder) (c : CtxPL I V p ix order) (s s' : PLSt)
    (σ : PhysPar.Sched E B G P A) (interRule : Bool) (threads : Nat) (dl : Deadline) (fuel : Nat) (o : ProgStT)
    (hs : Legal p s) (hi : InterruptedPL I V p ix order s s')
    (h : runTimeout I V p ix order σ interRule threads dl fuel s' = .ok (.done o)) :
    LClosed I L p (inputDB p (xrows s)) (factsOf o.st) ∧
    (MonotoneProg I L p → ∀ M : DB, KeyUnique p M → LClosed I L p (inputDB p (xrows s)) M → DBLe I L p (factsOf o.st) M) :=
  resume_complete_physParLat' I L V p ix order c s s' σ interRule threads fuel ⟨o.st, o.clock, o.iters⟩ hs hi
    (runTimeout_done I V p ix order σ interRule threads dl fuel s' o h)

/-! ## non-vacuity: longest weighted paths (`pDist`, `sDist`, `σA`, `σB` of `Props/C02PhysLat.lean`), the deadline passed at
the first reading

`edge(x, y, w)` plain, `dist(x, d)` a `max` lattice, `dist(y, d + w) <-- dist(x, d), edge(x, y, w)`; edges `1 →3 2 →4 3`,
`1 →5 3`; `dist(1) = 0`; one looping SCC.  The first clock reading is after the first iteration (which changed `dist`). -/

open AscentVerif.PhysLat (pDist inpDist exL)

theorem dist_ctxPL : CtxPL exL Plan.exV pDist (ixSetsOf Plan.exV pDist) [[0]] :=
  ⟨PhysLat.exL_ext, PhysLat.exL_supp, exL_hff, PhysLat.dist_hyps.1, PhysLat.dist_hyps.2.1, distPar_hyps.1, distPar_hyps.2.1,
    distPar_hyps.2.2.1, PhysLat.dist_hyps.2.2.2.1⟩

theorem legal_sDist : Legal pDist sDist := by
  refine ⟨wf_sDist, ?_, ?_⟩
  · intro r hr t ht
    match r, hr, ht with
    | 0, _, ht =>
      have : t ∈ [[Val.int 1, .int 2, .int 3], [.int 2, .int 3, .int 4], [.int 1, .int 3, .int 5]] := ht
      simp only [List.mem_cons, List.not_mem_nil, or_false] at this
      rcases this with rfl | rfl | rfl <;> rfl
    | 1, _, ht =>
      have : t ∈ [[Val.int 1, .int 0]] := ht
      simp only [List.mem_singleton] at this
      subst this; rfl
  · intro r hr hl
    match r, hr, hl with
    | 1, _, _ => decide

/-- how the call ended (`true` = returned `true`), the row vectors it left, `scc_iters` -/
def outcomeRows : Res (Outcome ProgStT) → Res (Option (Bool × List (List Tuple) × List Nat))
  | .ok (.done o) => .ok (some (true, (List.range o.st.pc.length).map (xrows o.st), o.iters))
  | .ok (.timedOut o) => .ok (some (false, (List.range o.st.pc.length).map (xrows o.st), o.iters))
  | .ok .outOfFuel => .ok none
  | .panic => .panic

/-- per lattice slot, per index: (columns, frozen?, number of keys) -/
def latShape (st : PLSt) : List (List (List Nat × Bool × Nat)) :=
  st.lat.map fun l => l.idxs.map fun ci =>
    (ci.1, ci.2.isFrozen, match ci.2 with
      | .key _ m => m.length
      | .rows _ m => m.length)

/-- per plain slot: (full index frozen?, its size, per index (frozen?, number of keys, number of `CRelNoIndex` shards)) -/
def plainShape (st : PLSt) : List (Bool × Nat × List (Bool × Nat × Nat)) :=
  st.pc.map fun pr => (pr.full.frozen, pr.full.m.length, pr.idxs.map fun ci =>
    (ci.2.isFrozen, ci.2.erase.length, match ci.2 with
      | .noidx c => c.shards.length
      | .map _ _ => 0))

/-- the value a completed `run()` left -/
def doneSt : Res (Option ProgSt) → PLSt
  | .ok (some o) => o.st
  | _ => ⟨[], []⟩

/-- the value the interrupted call of the example leaves -/
def sDistInt : PLSt :=
  (OutcomeSt (runTimeout exL Plan.exV pDist (ixSetsOf Plan.exV pDist) [[0]] σA false 2 (fun k => k == 0) 10 sDist)).getD ⟨[], []⟩

set_option synthInstance.maxSize 1024 in
/-- `run_timeout` under the schedule `σA` in a pool of 2 workers with the deadline already passed at the first clock reading
(after the first iteration of the looping SCC) returns `false` with `dist = {1 ↦ 0, 2 ↦ 3, 3 ↦ 5}` — node 3 has the value of
the direct edge, the complete run joins it to 7 — after 1 iteration, and with every index of `dist` (dynamic: key index `[0]`,
all-columns index `[0, 1]`) and of `edge` (body-only, frozen when the SCC took it) dropped: the struct holds empty UNFROZEN
indices.  A following `run()` under the OTHER schedule `σB`, in another pool (3 workers) and with `#![inter_rule_parallelism]`
rebuilds the indices (key index of `dist`: 3 keys; its all-columns index: the 3 rows the interrupted call left, inserted by
`update_indices`; `edge`: 3 rows, 2 keys in the index on column 0) and ends with the distances `{1 ↦ 0, 2 ↦ 3, 3 ↦ 7}`; so does a
`run_timeout` whose deadline never passes.
A deadline passing at the second reading interrupts with `3 ↦ 7` already joined in place (a third iteration would find nothing
new); passed at the third reading it is never read: the loop breaks first -/
theorem distPar_timeout :
    outcomeRows (runTimeout exL Plan.exV pDist (ixSetsOf Plan.exV pDist) [[0]] σA false 2 (fun k => k == 0) 10 sDist) =
      .ok (some (false, [[[.int 1, .int 2, .int 3], [.int 2, .int 3, .int 4], [.int 1, .int 3, .int 5]],
                         [[.int 1, .int 0], [.int 2, .int 3], [.int 3, .int 5]]], [1])) ∧
    latShape sDistInt = [[], [([0], false, 0), ([0, 1], false, 0)]] ∧
    plainShape sDistInt = [(false, 0, [(false, 0, 0)]), (false, 0, [])] ∧
    obs (run exL Plan.exV pDist (ixSetsOf Plan.exV pDist) [[0]] σB true 3 10 sDistInt) =
      .ok (some ([[[.int 1, .int 2, .int 3], [.int 2, .int 3, .int 4], [.int 1, .int 3, .int 5]],
                  [[.int 1, .int 0], [.int 2, .int 3], [.int 3, .int 7]]], [2])) ∧
    latShape (doneSt (run exL Plan.exV pDist (ixSetsOf Plan.exV pDist) [[0]] σB true 3 10 sDistInt)) =
      [[], [([0], false, 3), ([0, 1], false, 3)]] ∧
    plainShape (doneSt (run exL Plan.exV pDist (ixSetsOf Plan.exV pDist) [[0]] σB true 3 10 sDistInt)) =
      [(false, 3, [(false, 2, 0)]), (false, 0, [])] ∧
    outcomeRows (runTimeout exL Plan.exV pDist (ixSetsOf Plan.exV pDist) [[0]] σB false 3 (fun _ => false) 10 sDistInt) =
      .ok (some (true, [[[.int 1, .int 2, .int 3], [.int 2, .int 3, .int 4], [.int 1, .int 3, .int 5]],
                        [[.int 1, .int 0], [.int 2, .int 3], [.int 3, .int 7]]], [2])) ∧
    outcomeRows (runTimeout exL Plan.exV pDist (ixSetsOf Plan.exV pDist) [[0]] σA false 2 (fun k => k == 1) 10 sDist) =
      .ok (some (false, [[[.int 1, .int 2, .int 3], [.int 2, .int 3, .int 4], [.int 1, .int 3, .int 5]],
                         [[.int 1, .int 0], [.int 2, .int 3], [.int 3, .int 7]]], [2])) ∧
    outcomeRows (runTimeout exL Plan.exV pDist (ixSetsOf Plan.exV pDist) [[0]] σA false 2 (fun k => k == 2) 10 sDist) =
      .ok (some (true, [[[.int 1, .int 2, .int 3], [.int 2, .int 3, .int 4], [.int 1, .int 3, .int 5]],
                        [[.int 1, .int 0], [.int 2, .int 3], [.int 3, .int 7]]], [3])) :=
  ⟨by decide, by decide, by decide, by decide, by decide, by decide, by decide, by decide, by decide⟩

/-- the example's interrupted call is a one-step history from `sDist` to `sDistInt` -/
theorem distPar_interrupted : InterruptedPL exL Plan.exV pDist (ixSetsOf Plan.exV pDist) [[0]] sDist sDistInt := by
  have h1 := distPar_timeout.1
  cases hout : runTimeout exL Plan.exV pDist (ixSetsOf Plan.exV pDist) [[0]] σA false 2 (fun k => k == 0) 10 sDist with
  | panic => rw [hout] at h1; simp [outcomeRows] at h1
  | ok out =>
    have hint : sDistInt = (OutcomeSt (.ok out)).getD ⟨[], []⟩ := by
      unfold sDistInt
      rw [hout]
    rw [hout] at h1
    cases out with
    | done o => simp [outcomeRows] at h1
    | outOfFuel => simp [outcomeRows] at h1
    | timedOut o => exact .step σA false 2 _ 10 o (.refl _) hout (by rw [hint]; rfl)

/-- the theorems apply to that history, for every order `L` on the lattice values that satisfies the laws: interrupted once,
the value left is legal, keeps every `edge` row, keeps every `dist` key with a value above the old one; then completed by a
`run()` under ANY schedule in ANY pool and mode: no panic, one row per key, closed over the original value -/
example (L : LatOrder exL) (σ : PhysPar.Sched Plan.Ex Plan.Bx Plan.Ex Unit Unit) (ir : Bool) (threads fuel : Nat) :
    Legal pDist sDistInt ∧
    (∀ t ∈ xrows sDist 1, ∃ t' ∈ xrows sDistInt 1, keyOf t' = keyOf t ∧ L.le 1 (valOf t) (valOf t')) ∧
    ∃ res, run exL Plan.exV pDist (ixSetsOf Plan.exV pDist) [[0]] σ ir threads fuel sDistInt = .ok res ∧
      ∀ out, res = some out → ((xrows out.st 1).map keyOf).Nodup ∧
        LClosed exL L pDist (inputDB pDist (xrows sDist)) (factsOf out.st) := by
  obtain ⟨h1, _, h3, _⟩ := timeout_sound_physParLat exL L Plan.exV pDist _ [[0]] dist_ctxPL σA false 2 (fun k => k == 0) sDist
    10 sDistInt legal_sDist rfl
  obtain ⟨res, hres, hsp⟩ := resume_complete_physParLat exL L Plan.exV pDist _ [[0]] dist_ctxPL sDist sDistInt σ ir threads
    fuel legal_sDist distPar_interrupted
  exact ⟨h1, h3 1 (by decide) rfl, res, hres, fun out ho => ⟨(hsp out ho).2.1 1 (by decide) rfl, (hsp out ho).2.2.1⟩⟩

/-! ## axiom audit -/
#print axioms timeout_never_panics_physParLat
#print axioms timeout_ne_panic_physParLat
#print axioms timeout_sound_physParLat
#print axioms timeout_true_complete_physParLat
#print axioms interrupted_between_physParLat
#print axioms resume_complete_physParLat
#print axioms resume_complete_physParLat'
#print axioms resume_timeout_complete_physParLat
#print axioms dist_ctxPL
#print axioms legal_sDist
#print axioms distPar_timeout
#print axioms distPar_interrupted

end AscentVerif.PhysParLat
