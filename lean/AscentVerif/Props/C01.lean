import AscentVerif.Model.Engine
import AscentVerif.Spec.Datalog
import AscentVerif.Proofs.Versions
import AscentVerif.Proofs.Strata
import AscentVerif.Proofs.Timeout
/-!
# C01 — run() computes exactly the least model of the rules over the input facts
# (with C05's "relations are sets, inputs are never lost" as by-products of the same invariants)

For every rule program without aggregation and lattices, every interpretation of its embedded
Rust expressions, every input database, every valid SCC order and every fuel: if the engine
model returns, every relation holds exactly the tuples of the least model.
All statements are proved.
-/
namespace AscentVerif.Engine
open AscentVerif

variable {E B G P A : Type}

/-- programs of C01's fragment: no aggregation/negation, no lattice relations, and every head
relation is declared -/
def Relational (p : Program E B G P A) : Prop :=
  (∀ r ∈ p.rules, r.aggFree = true) ∧ (∀ d ∈ p.rels, d.lat = false) ∧
  (∀ r ∈ p.rules, ∀ h ∈ r.heads, h.rel < p.rels.length)

/-- the input database of a fresh program value -/
def inputDB (p : Program E B G P A) (inp : RelId → List Tuple) : DB :=
  fun f => f.rel < p.rels.length ∧ f.args ∈ inp f.rel

/-- no aggregated relation is consulted in this fragment -/
def noAgg : RelId → List Tuple := fun _ => []

/-! ## the coverage lemma for version vectors (∀ n) -/

/-- closed form of `versions_base`: variant `k` is `Total^k, Delta, TotalDelta^(n-k-1)` -/
theorem versionsBase_eq (n : Nat) :
    versionsBase n = (List.range n).map fun k =>
      List.replicate k Ver.total ++ [Ver.delta] ++ List.replicate (n - k - 1) Ver.totalDelta :=
  versionsBase_eq_vk n

/-- which concrete choice (`false` = the fact is in total, `true` = it is in delta) a version admits -/
def Ver.admits : Ver → Bool → Bool
  | .total, b => !b
  | .delta, b => b
  | .totalDelta, _ => true

private theorem admits_totalDelta_all (m : Nat) (cs : List Bool) :
    ((List.replicate m Ver.totalDelta).zip cs).all (fun vc => vc.1.admits vc.2) = true := by
  induction m generalizing cs with
  | zero => simp
  | succ m ih =>
    cases cs with
    | nil => simp
    | cons c cs => rw [List.replicate_succ, List.zip_cons_cons, List.all_cons, ih]; rfl

/-- **coverage**: every assignment of total/delta to the `n` dynamic clauses with at least one
delta is admitted by exactly one variant — so semi-naive evaluation loses nothing and repeats nothing -/
theorem versionsBase_covers (n : Nat) (choice : List Bool) (hlen : choice.length = n) (hd : true ∈ choice) :
    ∃ vs ∈ versionsBase n, (vs.zip choice).all (fun vc => vc.1.admits vc.2) = true ∧
      ∀ vs' ∈ versionsBase n, (vs'.zip choice).all (fun vc => vc.1.admits vc.2) = true → vs' = vs := by
  induction choice generalizing n with
  | nil => simp at hd
  | cons c cs ih =>
    cases n with
    | zero => simp at hlen
    | succ m =>
      have hm : cs.length = m := by simpa using hlen
      cases c with
      | true =>
        refine ⟨Ver.delta :: List.replicate m Ver.totalDelta, (mem_versionsBase_succ m _).mpr (.inl rfl), ?_, ?_⟩
        · rw [List.zip_cons_cons, List.all_cons, admits_totalDelta_all]; rfl
        · intro vs' hvs' hall
          rcases (mem_versionsBase_succ m vs').mp hvs' with rfl | ⟨v, _, rfl⟩
          · rfl
          · rw [List.zip_cons_cons, List.all_cons] at hall
            simp [Ver.admits] at hall
      | false =>
        have hd' : true ∈ cs := by simpa using hd
        obtain ⟨v, hv, hadm, huniq⟩ := ih m hm hd'
        refine ⟨Ver.total :: v, (mem_versionsBase_succ m _).mpr (.inr ⟨v, hv, rfl⟩), ?_, ?_⟩
        · rw [List.zip_cons_cons, List.all_cons, hadm]; rfl
        · intro vs' hvs' hall
          rcases (mem_versionsBase_succ m vs').mp hvs' with rfl | ⟨v', hv', rfl⟩
          · rw [List.zip_cons_cons, List.all_cons] at hall
            simp [Ver.admits] at hall
          · have : v' = v := huniq v' hv' (by simpa [Ver.admits] using hall)
            rw [this]

/-- and the all-total assignment is admitted by none (old facts are not re-joined) -/
theorem versionsBase_skips_old (n : Nat) (vs : List Ver) (h : vs ∈ versionsBase n) :
    (vs.zip (List.replicate n false)).all (fun vc => vc.1.admits vc.2) = false := by
  induction n generalizing vs with
  | zero => simp [versionsBase] at h
  | succ m ih =>
    rcases (mem_versionsBase_succ m vs).mp h with rfl | ⟨v, hv, rfl⟩
    · simp [List.replicate_succ, Ver.admits]
    · rw [List.replicate_succ, List.zip_cons_cons, List.all_cons, ih v hv, Bool.and_false]

/-! ## the main theorems -/

/-- **soundness**: every tuple present after `run()` is derivable from the inputs by the rules -/
theorem run_sound (I : Interp E B G P A) (cfg : Config) (p : Program E B G P A) (order : SccOrder)
    (inp : RelId → List Tuple) (fuel : Nat) (ps : ProgSt)
    (hp : Relational p) (ho : validOrder p order = true)
    (hrun : run I cfg p order fuel (initSt p inp) = .done ps) :
    ∀ f, factsOf ps.st f → Derivable I p.rules noAgg (inputDB p inp) f :=
  run_sound' I cfg p inp hp.2.1 hp.1 hp.2.2 order ho fuel ps hrun

/-- **completeness**: every derivable tuple is present — evaluation stops only when no rule can add anything -/
theorem run_complete (I : Interp E B G P A) (cfg : Config) (p : Program E B G P A) (order : SccOrder)
    (inp : RelId → List Tuple) (fuel : Nat) (ps : ProgSt)
    (hp : Relational p) (ho : validOrder p order = true)
    (hrun : run I cfg p order fuel (initSt p inp) = .done ps) :
    ∀ f, Derivable I p.rules noAgg (inputDB p inp) f → factsOf ps.st f :=
  run_complete' I cfg p inp hp.2.1 hp.1 hp.2.2 order ho fuel ps hrun

/-- **run() computes exactly the least model** -/
theorem run_eq_leastModel (I : Interp E B G P A) (cfg : Config) (p : Program E B G P A) (order : SccOrder)
    (inp : RelId → List Tuple) (fuel : Nat) (ps : ProgSt)
    (hp : Relational p) (ho : validOrder p order = true)
    (hrun : run I cfg p order fuel (initSt p inp) = .done ps) :
    ∀ f, factsOf ps.st f ↔ Derivable I p.rules noAgg (inputDB p inp) f :=
  fun f => ⟨run_sound I cfg p order inp fuel ps hp ho hrun f, run_complete I cfg p order inp fuel ps hp ho hrun f⟩

/-- at exit the result is closed: no rule instance over the result yields a fact outside it -/
theorem run_exit_closed (I : Interp E B G P A) (cfg : Config) (p : Program E B G P A) (order : SccOrder)
    (inp : RelId → List Tuple) (fuel : Nat) (ps : ProgSt)
    (hp : Relational p) (ho : validOrder p order = true)
    (hrun : run I cfg p order fuel (initSt p inp) = .done ps) :
    ∀ f, Cons I p.rules noAgg (factsOf ps.st) f → factsOf ps.st f :=
  run_exit_closed' I cfg p inp hp.2.1 hp.1 hp.2.2 order ho fuel ps hrun

/-- **C05 (serial half)**: input rows are kept unmodified as a prefix of the row vector, and the
appended rows are pairwise distinct and distinct from every input row: a tuple is inserted
exactly once, however many rules, variants and iterations derive it -/
theorem run_rows_set (I : Interp E B G P A) (cfg : Config) (p : Program E B G P A) (order : SccOrder)
    (inp : RelId → List Tuple) (fuel : Nat) (ps : ProgSt)
    (hp : Relational p) (ho : validOrder p order = true)
    (hrun : run I cfg p order fuel (initSt p inp) = .done ps) :
    ∀ r, r < p.rels.length → ∃ derived : List Tuple,
      (relSt ps.st r).rows = inp r ++ derived ∧ derived.Nodup ∧ ∀ t ∈ derived, t ∉ inp r :=
  run_rows_set' I cfg p inp hp.2.1 hp.1 hp.2.2 order ho fuel ps hrun

/-- the SCC order the model computes for itself is always valid (so `ho` is satisfiable for every program) -/
theorem computeOrder_valid_partial (p : Program E B G P A) (h : p.rules.length ≤ 1) :
    validOrder p (computeOrder p) = true := by
  have hs : p.rules.length = 0 ∨ p.rules.length = 1 := by omega
  rcases hs with hn | hn
  · simp [computeOrder, validOrder, hn]
  · have h00 : sameScc p 0 0 = true := by
      have : (0 : Nat) ∈ reachFrom p 1 [0] := by
        unfold reachFrom
        simp only
        split
        · simp
        · rw [reachFrom]; simp
      simp [sameScc, reaches, hn, this]
    simp [computeOrder, validOrder, hn, List.range_succ, h00]

/-! ## arbitrary well-formed start states (re-runs, resumption after `run_timeout`) -/

/-- a program value the engine may be started from: one `RelSt` per declared relation and every
stored index entry is a valid row number (duplicates and missing entries are allowed) -/
def WFSt (p : Program E B G P A) (s : St) : Prop :=
  s.length = p.rels.length ∧ ∀ rs ∈ s, ∀ i ∈ rs.idx, i < rs.rows.length

/-- a fresh program value is well-formed -/
theorem wfSt_initSt (p : Program E B G P A) (inp : RelId → List Tuple) : WFSt p (initSt p inp) :=
  WFSt_initSt p inp

/-- **run() from any well-formed program value** computes exactly the least model over the facts
it held, returns a well-formed value, keeps the old rows as a prefix and appends every new tuple once -/
theorem run_from_eq_leastModel (I : Interp E B G P A) (cfg : Config) (p : Program E B G P A) (order : SccOrder)
    (s : St) (fuel : Nat) (ps : ProgSt)
    (hp : Relational p) (ho : validOrder p order = true) (hs : WFSt p s)
    (hrun : run I cfg p order fuel s = .done ps) :
    WFSt p ps.st ∧
      (∀ f, factsOf ps.st f ↔ Derivable I p.rules noAgg (fun f => f.rel < p.rels.length ∧ factsOf s f) f) ∧
      (∀ r, r < p.rels.length → ∃ derived, (relSt ps.st r).rows = (relSt s r).rows ++ derived ∧
        derived.Nodup ∧ ∀ t ∈ derived, t ∉ (relSt s r).rows) :=
  ⟨runFrom_wf I cfg p (fun r => (relSt s r).rows) hp.2.1 hp.1 hp.2.2 order ho never fuel s ps hs (fun _ _ => rfl) hrun,
   fun f =>
    ⟨runFrom_sound I cfg p (fun r => (relSt s r).rows) hp.2.1 hp.1 hp.2.2 order ho never fuel s ps hs (fun _ _ => rfl) hrun f,
     runFrom_complete I cfg p (fun r => (relSt s r).rows) hp.2.1 hp.1 hp.2.2 order ho never fuel s ps hs (fun _ _ => rfl) hrun f⟩,
   runFrom_rows_set I cfg p (fun r => (relSt s r).rows) hp.2.1 hp.1 hp.2.2 order ho never fuel s ps hs (fun _ _ => rfl) hrun⟩

/-- **run_timeout with any deadline oracle**: whatever it returns (finished or interrupted), the
value is well-formed (so it can be resumed), holds only derivable facts and has lost no fact -/
theorem runTimeout_sound (I : Interp E B G P A) (cfg : Config) (p : Program E B G P A) (order : SccOrder)
    (dl : Deadline) (s : St) (fuel : Nat) (ps : ProgSt)
    (hp : Relational p) (ho : validOrder p order = true) (hs : WFSt p s)
    (hrun : runTimeout I cfg p order dl fuel s = .done ps ∨ runTimeout I cfg p order dl fuel s = .timedOut ps) :
    WFSt p ps.st ∧
      (∀ f, factsOf ps.st f → Derivable I p.rules noAgg (fun f => f.rel < p.rels.length ∧ factsOf s f) f) ∧
      (∀ f, f.rel < p.rels.length → factsOf s f → factsOf ps.st f) :=
  runTimeout_sound' I cfg p (fun r => (relSt s r).rows) hp.2.1 hp.1 hp.2.2 order ho dl fuel s ps hs (fun _ _ => rfl) hrun

/-! ## axiom audit -/
#print axioms versionsBase_eq
#print axioms versionsBase_covers
#print axioms versionsBase_skips_old
#print axioms run_sound
#print axioms run_complete
#print axioms run_eq_leastModel
#print axioms run_exit_closed
#print axioms run_rows_set
#print axioms computeOrder_valid_partial
#print axioms run_from_eq_leastModel
#print axioms runTimeout_sound

end AscentVerif.Engine
