import AscentVerif.Model.TrRelInd
import AscentVerif.Proofs.TrRelIndSpec
import AscentVerif.Proofs.TrRelIndMaps
import AscentVerif.Proofs.TrRelIndMerge
import AscentVerif.Proofs.TrRelIndRun
/-!
# C11 (b) — the model of the binary trrel provider (`TrRelIndCommon`) meets its contract

The `rel_ind_common` triple `(new, delta, total)` of a binary `#[ds(trrel)]` relation, driven the way generated code drives
it (`init`; per iteration: head updates = `contains_key(total)`, `contains_key(delta)`, `insert_if_not_present(new)`; then
`merge_delta_to_total_new_to_delta`), simulates the set-level specification `Spec`:

* `total' = total ∪ delta`
* `delta' = (new ∪ {(x,y) | x ≠ y, x ⟶⁺ y through total ∪ delta ∪ new}) \ total'`        (`DeltaSpec`)
* `new' = ∅`

This is the contract the code actually meets.  It differs from "delta' = transitive closure \ total'" in exactly one
respect: derived pairs `(x,x)` are dropped (`anti_reflexive` is constantly `true` — finding F7); for inputs without cycles the
two coincide (`deltaSpec_eq_closure_of_acyclic`).
-/
namespace AscentVerif.TrRelInd


/-!
The definitions of the specification and of the driven model (`Reach`, `Common.Has`, `DeltaSpec`, `Spec`, `Spec.init`, `Op`,
`Spec.step`, `Spec.run`, `St`, `St.init`, `St.step`, `St.run`, `Sim`) were moved verbatim to
`AscentVerif/Proofs/TrRelIndSpec.lean` (same names, same namespace) so that the proof files can use them.
-/

/-! ## theorems (statements fixed; proofs to be supplied) -/

/-- **(b) provider contract, binary**: after any sequence of head updates and merges on a fresh triple, if the model
returned, the three copies hold exactly what the specification says -/
theorem provider_contract_bin (ops : List Op) (s₀ s : St) (h₀ : St.init = .ok s₀) (h : St.run s₀ ops = .ok s) :
    Sim s (Spec.run Spec.init ops) := by
  exact (reachable h₀ h).2.1

/-- the driven model can only panic inside a merge (i.e. by running out of the merge loop's fuel): the variant
discipline (`new` is `New`, `delta`/`total` are `Old`) is never broken -/
theorem provider_no_variant_panic (ops : List Op) (s₀ : St) (h₀ : St.init = .ok s₀) :
    St.run s₀ ops = .panic → ∃ pre nw dl tt, (∃ post, ops = pre ++ [Op.merge] ++ post) ∧ St.run s₀ pre = .ok ⟨nw, dl, tt⟩ ∧
      Common.merge nw dl tt = .panic := by
  exact fun h => run_panic (StShape.init h₀) h

/-- the views of a copy answer by selection: `TrRelInd0` (first column bound) -/
theorem view0_spec (ops : List Op) (s₀ s : St) (h₀ : St.init = .ok s₀) (h : St.run s₀ ops = .ok s) (c : Common)
    (hc : c = s.dl ∨ c = s.tt) (x : Int) :
    ∃ r, c.get0 x = .ok r ∧ (∀ y, y ∈ r.getD [] ↔ c.Has x y) ∧ (r.getD []).Nodup := by
  obtain ⟨r, rfl, hr⟩ := (reachable h₀ h).1.old_copy hc
  exact view0_old hr true x

/-- `TrRelInd1` (second column bound): the reverse map mirrors the map -/
theorem view1_spec (ops : List Op) (s₀ s : St) (h₀ : St.init = .ok s₀) (h : St.run s₀ ops = .ok s) (c : Common)
    (hc : c = s.dl ∨ c = s.tt) (y : Int) :
    (∀ x, x ∈ (c.get1 y).getD [] ↔ c.Has x y) ∧ ((c.get1 y).getD []).Nodup := by
  obtain ⟨r, rfl, hr⟩ := (reachable h₀ h).1.old_copy hc
  exact view1_old hr true y

/-- `TrRelIndNone` / `TrRelIndFull::iter_all`: every pair exactly once -/
theorem viewNone_spec (ops : List Op) (s₀ s : St) (h₀ : St.init = .ok s₀) (h : St.run s₀ ops = .ok s) (c : Common)
    (hc : c = s.dl ∨ c = s.tt) :
    (∀ x y, (x, y) ∈ c.getNone ↔ c.Has x y) ∧ c.getNone.Nodup := by
  obtain ⟨r, rfl, hr⟩ := (reachable h₀ h).1.old_copy hc
  exact viewNone_old hr true

/-- total and delta stay disjoint, and `new` never holds a pair of either -/
theorem provider_disjoint (ops : List Op) (s₀ s : St) (h₀ : St.init = .ok s₀) (h : St.run s₀ ops = .ok s) :
    ∀ x y, ¬ (s.dl.Has x y ∧ s.tt.Has x y) ∧ (s.nw.Has x y → ¬ s.dl.Has x y ∧ ¬ s.tt.Has x y) := by
  obtain ⟨_, ⟨sN, sD, sT⟩, hinv⟩ := reachable h₀ h
  intro x y
  rw [sN, sD, sT]
  exact ⟨fun hh => hinv.disjDT x y hh.1 hh.2, fun hn => ⟨(hinv.disjN x y hn).2, (hinv.disjN x y hn).1⟩⟩

/-! ## the specification against the plain transitive closure -/

/-- without cycles the anti-reflexive reading is the transitive closure itself -/
theorem deltaSpec_eq_closure_of_acyclic (T N : Int → Int → Prop)
    (hac : ∀ x, ¬ Reach (fun a b => T a b ∨ N a b) x x) (x y : Int) :
    DeltaSpec T N x y ↔ (Reach (fun a b => T a b ∨ N a b) x y ∧ ¬ T x y) := by
  constructor
  · rintro ⟨hh | hh, hnt⟩
    · exact ⟨.one (Or.inr hh), hnt⟩
    · exact ⟨hh.2, hnt⟩
  · rintro ⟨hr, hnt⟩
    refine ⟨Or.inr ⟨?_, hr⟩, hnt⟩
    rintro rfl
    exact hac x hr

/-- every pair ever inserted -/
def inserted : List Op → Int → Int → Prop
  | [], _, _ => False
  | .add x y :: rest, p, q => (p = x ∧ q = y) ∨ inserted rest p q
  | .merge :: rest, p, q => inserted rest p q

/-- `inserted` accumulates `Op.ins` along the run -/
theorem insInv_run (ops : List Op) (a : Spec) (I : Int → Int → Prop) (h : InsInv a I) :
    InsInv (a.run ops) (fun p q => I p q ∨ inserted ops p q) := by
  induction ops generalizing a I with
  | nil =>
    have e : (fun p q => I p q ∨ inserted [] p q) = I := by
      funext p q; simp [inserted]
    rw [e]; exact h
  | cons o rest ih =>
    have h1 := ih (a.step o) _ (h.step o)
    have e : (fun p q => (I p q ∨ o.ins p q) ∨ inserted rest p q) = (fun p q => I p q ∨ inserted (o :: rest) p q) := by
      funext p q
      cases o <;> simp [inserted, Op.ins, or_assoc]
    rw [e] at h1
    exact h1

/-- **what the relation holds after a merge**: total ∪ delta = inserted pairs plus all pairs `x ≠ y` connected by a chain
of inserted pairs — the transitive closure minus the derived `(x,x)` -/
theorem spec_after_merge (ops : List Op) (x y : Int) :
    let a := Spec.run Spec.init (ops ++ [Op.merge])
    (a.T x y ∨ a.D x y) ↔ (inserted ops x y ∨ (x ≠ y ∧ Reach (inserted ops) x y)) := by
  intro a
  have h := insInv_run ops Spec.init _ InsInv.init
  have e : (fun p q => False ∨ inserted ops p q) = inserted ops := by
    funext p q; simp
  rw [e] at h
  have := h.after_merge x y
  have ea : a = (Spec.run Spec.init ops).step .merge := by
    show Spec.run Spec.init (ops ++ [Op.merge]) = _
    rw [Spec.run_append]; rfl
  rw [ea]
  exact this

/-! ## findings as facts about the model (closed terms, by evaluation) -/

def runOps (ops : List Op) : Res St :=
  match St.init with
  | .ok s => St.run s ops
  | .panic => .panic

/-- F7: after inserting (1,2), (2,1) and merging, (1,1) is in no copy although 1 ⟶ 2 ⟶ 1 -/
theorem trrel_merge_antireflexive_witness :
    ∃ s, runOps [.add 1 2, .add 2 1, .merge] = .ok s ∧ s.dl.containsKey 1 2 = true ∧ s.dl.containsKey 2 1 = true ∧
      s.dl.containsKey 1 1 = false ∧ s.tt.containsKey 1 1 = false := by
  refine ⟨_, rfl, ?_⟩
  decide

/-- two rounds on a fresh ternary triple with both reverse maps: `(k,x,y)` in round 1, `(k',x',y')` in round 2 -/
def ternTwoRounds (a b : Int × Int × Int) : Res (Tern × Tern × Tern) := do
  let t0 := Tern.default true true
  let (n1, _) ← t0.insertIfNotPresent a.1 a.2.1 a.2.2
  let (n2, d1, t1) ← Tern.merge n1 t0 t0
  let (n3, _) ← n2.insertIfNotPresent b.1 b.2.1 b.2.2
  Tern.merge n3 d1 t1

/-- F23, view [1] and [1,2]: (0,1,2) in round 1, (0,2,3) in round 2: the delta holds the derived (0,1,3), but its views [1] and
[1,2] find nothing under 1 (the delta's reverse_map1 lists only column 2 of this round's insert) -/
theorem tern_delta_view1_loses_tuple :
    ∃ n d t, ternTwoRounds (0, 1, 2) (0, 2, 3) = .ok (n, d, t) ∧ d.containsKey 0 1 3 = true ∧
      d.get1 1 = .ok none ∧ d.get12 1 3 = .ok none ∧ d.get01 0 1 = some [3] := by
  refine ⟨_, _, _, rfl, ?_⟩
  decide

/-- F23, view [2]: (0,2,3) in round 1, (0,1,2) in round 2: the derived (0,1,3) is not found under column-2 value 3 -/
theorem tern_delta_view2_loses_tuple :
    ∃ n d t, ternTwoRounds (0, 2, 3) (0, 1, 2) = .ok (n, d, t) ∧ d.containsKey 0 1 3 = true ∧
      d.get2 3 = .ok none ∧ d.get12 1 3 = .ok none ∧ d.get02 0 3 = some [1] := by
  refine ⟨_, _, _, rfl, ?_⟩
  decide

/-- F24 (repaired in the code, `.max(1)`): `len_estimate` of the view [1,2] never divides by zero; whenever both reverse maps exist it
returns a number, for every content -/
theorem tern_lenEstimate12_total (t : Tern) (r1 r2) (h1 : t.rm1 = some r1) (h2 : t.rm2 = some r2) :
    ∃ n, t.lenEstimate12 = .ok n := by
  refine ⟨r1.length * r2.length / max (Nat.sqrt t.map.length) 1, ?_⟩
  simp [Tern.lenEstimate12, h1, h2, unwrap, bind, Res.bind, pure]
/-- the former witness: a copy without keys -/
theorem tern_lenEstimate12_empty : (Tern.default true true).lenEstimate12 = .ok 0 := by
  decide

/-! ## non-vacuity: the contract on a concrete run -/

/-- the hypotheses of `provider_contract_bin` are satisfiable for `[add 1 2, add 2 3, merge]` -/
example : ∃ s₀ s, St.init = .ok s₀ ∧ St.run s₀ [.add 1 2, .add 2 3, .merge] = .ok s := ⟨_, _, rfl, rfl⟩

/-- by the contract, after `add (1,2); add (2,3); merge` the delta holds the derived `(1,3)` and not `(3,1)` -/
example (s₀ s : St) (h₀ : St.init = .ok s₀) (h : St.run s₀ [.add 1 2, .add 2 3, .merge] = .ok s) :
    s.dl.Has 1 3 ∧ ¬ s.dl.Has 3 1 := by
  have sim := provider_contract_bin _ s₀ s h₀ h
  rw [sim.2.1, sim.2.1]
  simp only [Spec.run, Spec.step, Spec.init, DeltaSpec]
  constructor
  · refine ⟨Or.inr ⟨by decide, Reach.cons (y := 2) ?_ (Reach.one ?_)⟩, by simp⟩
    · simp
    · simp
  · rintro ⟨hh | ⟨_, r⟩, _⟩
    · simp at hh
    · cases r with
      | one h1 => simp at h1
      | cons h1 _ => simp at h1

#print axioms provider_contract_bin
#print axioms provider_no_variant_panic
#print axioms view0_spec
#print axioms view1_spec
#print axioms viewNone_spec
#print axioms provider_disjoint
#print axioms deltaSpec_eq_closure_of_acyclic
#print axioms spec_after_merge
#print axioms trrel_merge_antireflexive_witness
#print axioms tern_delta_view1_loses_tuple
#print axioms tern_delta_view2_loses_tuple
#print axioms tern_lenEstimate12_total
#print axioms tern_lenEstimate12_empty

end AscentVerif.TrRelInd
