import AscentVerif.Proofs.PlanSwapBody
/-!
# C01 (plan) — the compilation plan preserves the rule semantics

`Engine.evalBody` reads every index look-up as a filter over the whole relation version.  The generated code
(`ascent_codegen.rs`, `compile_mir_rule_inner`) instead follows a PLAN computed per rule by `compile_rule_to_ir_rule`
(`Hir.compileRule`): index columns per clause, a "simple join" of the first two clauses evaluated as nested
`iter_all` / `index_get` loops, and, when the MIR rule is `reorderable`, a second copy with the two clauses swapped.
`Model/Plan.lean` is the executable model of that code (`evalBodyPlan`); this file states what is proved about it.

* `idxGet_spec`, `iterAll_spec` — the two index operations;
* `clause_step`, `join_step`, `join_step_swapped` — the one-step lemmas, for an ARBITRARY environment whose domain is the
  grounded set and an arbitrary rest of the body;
* `index_selection_eq` — no simple join: `evalBodyPlan = evalBody`, as lists, for every interpretation;
* `index_selection_sound_complete` — any rule: `evalBodyPlan … false` is a permutation of `evalBody` up to `EnvEq`;
* `reordering_sound` — `reorderable`: `evalBodyPlan … true` is a permutation of `evalBodyPlan … false` (and of `evalBody`);
* `head_rows_perm`, `head_rows_perm_swapped` — consequently the bag of head tuples the rule derives is the same;
* `guard_needed` — `let z = 5, foo(x, y), bar(y, z)`: a simple join that is not reorderable, and a state on which the
  swapped evaluation derives an environment with `z = 7`;
* `desugared_needed` — why the theorems are about rules `rule_desugar_repeated_vars` has nothing left to do on.

Why `EnvEq` and not equality of environments: the simple-join code `let`-binds the join variables from the key BEFORE the
other variables of the first clause, `matchArgs` binds in argument order; the two environments give every variable the
same value but are different association lists (`env_order_differs`).  `PermEq l l'` = a permutation of `l` is pointwise
`EnvEq` to `l'`.  Interpretations are assumed to see environments only through look-up (`Ext`); for the swapped copy the
conditions of the two clauses are evaluated in environments with different domains, so expressions and tests are assumed
to depend only on the variables `VarsOf` reports for them (`Supp`).  Both hold for every real Rust expression, and are
proved for the small concrete interpretation below (`exI_ext`, `exI_supp`).

Hypotheses on the rule (decidable, `Bool`-valued, checked on an example by `decide`):
* `Desugared V r` — `rule_desugar_repeated_vars` (which runs before `compile_rule_to_ir_rule`) would not change the rule:
  no clause argument mentions a variable first grounded by an earlier argument of the same clause;
* `WellScoped V r` (only for reordering) — conditions attached to a clause mention only variables in scope and bind no
  variable grounded before the clause (the front end rejects rebinding, `rustc` rejects unbound variables).
No hypothesis on the state, the relation declarations, the version vector or the configuration.
-/
namespace AscentVerif.Plan
open AscentVerif AscentVerif.Engine AscentVerif.Hir

variable {E B G P A : Type}

/-! ## 1. the index operations -/

/-- `index_get`: exactly the rows of the version whose projection on the index columns is the key — as a filter (so in the
version's order), by membership, and with the multiplicity the version holds them -/
theorem idxGet_spec (rows : List Tuple) (bag : List Nat) (cols : List Nat) (key : List Val) :
    idxGet rows bag cols key = bag.filter (fun i => proj cols (rowAt rows i) = key) ∧
    (∀ i, i ∈ idxGet rows bag cols key ↔ i ∈ bag ∧ proj cols (rowAt rows i) = key) ∧
    (∀ i, proj cols (rowAt rows i) = key → (idxGet rows bag cols key).count i = bag.count i) :=
  idxGet_spec_aux rows bag cols key

/-- `iter_all`: the keys are pairwise distinct; every group is the `index_get` of its key, is not empty, and holds rows of
the version with that projection; the groups together are a permutation of the version (every row appears exactly as often
as the version holds it); every row is found under the key equal to its projection -/
theorem iterAll_spec (rows : List Tuple) (bag : List Nat) (cols : List Nat) :
    ((iterAll rows bag cols).map (·.1)).Nodup ∧
    (∀ kr ∈ iterAll rows bag cols, kr.2 = idxGet rows bag cols kr.1 ∧ kr.2 ≠ [] ∧
      ∀ i ∈ kr.2, i ∈ bag ∧ proj cols (rowAt rows i) = kr.1) ∧
    ((iterAll rows bag cols).flatMap (·.2)).Perm bag ∧
    (∀ i ∈ bag, ∃ rs, (proj cols (rowAt rows i), rs) ∈ iterAll rows bag cols ∧ i ∈ rs) :=
  iterAll_spec_aux rows bag cols

/-! ## 2. the one-step lemmas (arbitrary environment, arbitrary rest of the body) -/

/-- **clause step.**  `g`: the grounded variables; `ρ` binds exactly them; the index columns are the expression arguments
and the arguments that are grounded variables; the variables not yet grounded are pairwise distinct; `pre` (the code's
`pre_clause_vars`) has the members of `g`.  Then the look-up with the key evaluated before the clause, followed by the
assignments of the new variables, the conditions and ANY continuation is — as a list — the filter semantics. -/
theorem clause_step (I : Interp E B G P A) (rows : List Tuple) (bag : List Nat) (ρ : Env) (g pre : List Var)
    (hdom : DomEq ρ g) (hpre : ∀ v, v ∈ pre ↔ v ∈ g) (args : List (Arg E)) (conds : List (Cond E B P)) (cols : List Nat)
    (hcols : ∀ j, j ∈ cols ↔ ∃ a, args[j]? = some a ∧ isIdx g a = true) (hnd : (freshVars g args).Nodup)
    (k : Env → List Env) :
    clauseStep I rows bag cols pre args conds ρ k = semClause I rows bag args conds ρ k :=
  clauseStep_eq I rows bag ρ g pre hdom hpre args conds cols hcols hnd k k fun _ _ _ _ _ => rfl

/-- **simple-join step.**  Under `JoinCtx` (what the compiler guarantees about the two clauses of a simple join), for any
environment binding exactly the grounded variables and continuations that respect `EnvEq`: the nested
`iter_all` / `index_get` loops are a permutation, up to `EnvEq`, of the filter semantics of the two clauses. -/
theorem join_step (I : Interp E B G P A) (hI : Ext I) {gk gk1 : List Var} {a1 : List (Arg E)} {c1 : List (Cond E B P)}
    {a2 : List (Arg E)} {cols1 cols2 : List Nat} {pre2 : List Var} (ctx : JoinCtx gk gk1 a1 c1 a2 cols1 cols2 pre2)
    (c2 : List (Cond E B P)) (gk2 : List Var)
    (hgk2 : ∀ v, v ∈ gk2 ↔ v ∈ gk1 ∨ v ∈ a2.filterMap argVar? ∨ v ∈ c2.flatMap Cond.boundVars)
    (rows1 : List Tuple) (bag1 : List Nat) (rows2 : List Tuple) (bag2 : List Nat) (ρ : Env) (hdom : DomEq ρ gk)
    (k k' : Env → List Env) (hk : ∀ ρp ρs, EnvEq ρp ρs → DomEq ρs gk2 → PermEq (k ρp) (k' ρs)) :
    PermEq (joinStep I rows1 bag1 cols1 a1 c1 rows2 bag2 cols2 a2 c2 pre2 ρ k)
      (semClause I rows1 bag1 a1 c1 ρ fun ρ₂ => semClause I rows2 bag2 a2 c2 ρ₂ k') :=
  joinStep_sem I hI ctx c2 gk2 hgk2 rows1 bag1 rows2 bag2 ρ hdom k k' hk

/-- **simple-join step, clauses swapped.**  Under `SwapCtx` (`JoinCtx` + the `reorderable` guard + well-scoped conditions). -/
theorem join_step_swapped (I : Interp E B G P A) {V : VarsOf E B} (hS : Supp I V) {gk gk1 : List Var} {a1 : List (Arg E)}
    {c1 : List (Cond E B P)} {a2 : List (Arg E)} {c2 : List (Cond E B P)} {cols1 cols2 : List Nat} {pre2 preSw : List Var}
    (sc : SwapCtx V gk gk1 a1 c1 a2 c2 cols1 cols2 pre2 preSw) (gk2 : List Var)
    (hgk2 : ∀ v, v ∈ gk2 ↔ v ∈ gk1 ∨ v ∈ a2.filterMap argVar? ∨ v ∈ c2.flatMap Cond.boundVars)
    (rows1 : List Tuple) (bag1 : List Nat) (rows2 : List Tuple) (bag2 : List Nat) (ρ : Env) (hdom : DomEq ρ gk)
    (k k' : Env → List Env) (hk : ∀ ρp ρs, EnvEq ρp ρs → DomEq ρs gk2 → PermEq (k ρp) (k' ρs)) :
    PermEq (joinStep I rows2 bag2 cols2 a2 c2 rows1 bag1 cols1 a1 c1 preSw ρ k)
      (semClause I rows1 bag1 a1 c1 ρ fun ρ₂ => semClause I rows2 bag2 a2 c2 ρ₂ k') :=
  joinStep_semS I hS sc gk2 hgk2 rows1 bag1 rows2 bag2 ρ hdom k k' hk

/-! ## 3. index selection is sound and complete -/

/-- **no simple join: equality.**  For every interpretation, state, configuration and version vector, the plan evaluation of
a desugared rule compiled WITHOUT a simple join is the filter evaluation: the same environments in the same order.
(`evalFrom_eq_evalBody` is the same statement from any body position and any environment whose domain is the grounded set.) -/
theorem index_selection_eq (I : Interp E B G P A) (cfg : Config) (p : Program E B G P A) (s : SccSt) (V : VarsOf E B)
    (r : Rule E B G P A) (hd : Desugared V r = true) (hsj : (compileRule V r).simpleJoinStart = none) (swap : Bool)
    (vs : List (Option Ver)) :
    evalBodyPlan I cfg p s (compileRule V r) swap r.body vs [] = evalBody I cfg p s r.body vs [] := by
  unfold evalBodyPlan
  apply evalFrom_eq_evalBody I cfg p s V _ swap r.body 0 ([], []) vs [] gdOk_nil hd
  · intro v; simp [keys]
  · exact ⟨by rw [compile_nojoin V r hsj]; rfl, by intro v; simp [preVars], by rw [compile_bound]; rfl⟩
  · intro j _; rw [hsj]; exact fun h => by cases h

/-- **any rule: permutation.**  The plan evaluation in the original clause order enumerates, up to a permutation and up to
look-up equality of the environments, exactly the environments of the filter evaluation. -/
theorem index_selection_sound_complete (I : Interp E B G P A) (hI : Ext I) (cfg : Config) (p : Program E B G P A)
    (s : SccSt) (V : VarsOf E B) (r : Rule E B G P A) (hd : Desugared V r = true) (vs : List (Option Ver)) :
    PermEq (evalBodyPlan I cfg p s (compileRule V r) false r.body vs []) (evalBody I cfg p s r.body vs []) :=
  plan_permEq I hI cfg p s V r hd vs

/-! ## 4. reordering is sound -/

/-- the swapped copy against the filter evaluation -/
theorem reordering_sound_evalBody (I : Interp E B G P A) (hI : Ext I) (cfg : Config) (p : Program E B G P A) (s : SccSt)
    (V : VarsOf E B) (hS : Supp I V) (r : Rule E B G P A) (hd : Desugared V r = true) (hw : WellScoped V r = true)
    (hr : reorderable (compileRule V r) = true) (vs : List (Option Ver)) :
    PermEq (evalBodyPlan I cfg p s (compileRule V r) true r.body vs []) (evalBody I cfg p s r.body vs []) :=
  planSwap_permEq I hI cfg p s V hS r hd hw hr vs

/-- **reordering is sound**: when the `reorderable` flag (computed as in `Hir.ruleLines` / `compile_hir_rule_to_mir_rules`)
is set, the copy with the two clauses of the simple join swapped is a permutation of the original copy -/
theorem reordering_sound (I : Interp E B G P A) (hI : Ext I) (cfg : Config) (p : Program E B G P A) (s : SccSt)
    (V : VarsOf E B) (hS : Supp I V) (r : Rule E B G P A) (hd : Desugared V r = true) (hw : WellScoped V r = true)
    (hr : reorderable (compileRule V r) = true) (vs : List (Option Ver)) :
    PermEq (evalBodyPlan I cfg p s (compileRule V r) true r.body vs [])
      (evalBodyPlan I cfg p s (compileRule V r) false r.body vs []) :=
  (planSwap_permEq I hI cfg p s V hS r hd hw hr vs).trans (plan_permEq I hI cfg p s V r hd vs).symm

/-! ## 5. what the head update sees -/

theorem PermEq.map_perm {β : Type} {l l' : List Env} (h : PermEq l l') (f : Env → β)
    (hf : ∀ a b, EnvEq a b → f a = f b) : (l.map f).Perm (l'.map f) := by
  obtain ⟨m, hp, he⟩ := h
  refine (hp.map f).trans ?_
  have : m.map f = l'.map f := by
    clear hp
    induction he with
    | nil => rfl
    | cons hab _ ih => simp [hf _ _ hab, ih]
  rw [this]

/-- the tuples a rule's head clauses are instantiated to -/
def headRows (I : Interp E B G P A) (heads : List (HeadClause E)) (ρ : Env) : List (RelId × Tuple) :=
  heads.map fun h => (h.rel, h.args.map fun e => I.expr e ρ)

/-- the generated code derives the same bag of head tuples as the filter evaluation -/
theorem head_rows_perm (I : Interp E B G P A) (hI : Ext I) (cfg : Config) (p : Program E B G P A) (s : SccSt)
    (V : VarsOf E B) (r : Rule E B G P A) (hd : Desugared V r = true) (vs : List (Option Ver)) :
    ((evalBodyPlan I cfg p s (compileRule V r) false r.body vs []).map (headRows I r.heads)).Perm
      ((evalBody I cfg p s r.body vs []).map (headRows I r.heads)) := by
  apply PermEq.map_perm (plan_permEq I hI cfg p s V r hd vs)
  intro a b hab
  unfold headRows
  apply List.map_congr_left
  intro h _
  congr 1
  apply List.map_congr_left
  intro e _
  exact hI.expr e a b hab

/-- … and so does the swapped copy of a reorderable rule -/
theorem head_rows_perm_swapped (I : Interp E B G P A) (hI : Ext I) (cfg : Config) (p : Program E B G P A) (s : SccSt)
    (V : VarsOf E B) (hS : Supp I V) (r : Rule E B G P A) (hd : Desugared V r = true) (hw : WellScoped V r = true)
    (hr : reorderable (compileRule V r) = true) (vs : List (Option Ver)) :
    ((evalBodyPlan I cfg p s (compileRule V r) true r.body vs []).map (headRows I r.heads)).Perm
      ((evalBody I cfg p s r.body vs []).map (headRows I r.heads)) := by
  apply PermEq.map_perm (planSwap_permEq I hI cfg p s V hS r hd hw hr vs)
  intro a b hab
  unfold headRows
  apply List.map_congr_left
  intro h _
  congr 1
  apply List.map_congr_left
  intro e _
  exact hI.expr e a b hab


/-! ## 5b. an elementary sufficient condition for `Desugared` -/

/-- the variable arguments of the clause are pairwise distinct and no expression argument mentions one of them -/
def clauseSimple (V : VarsOf E B) (args : List (Arg E)) : Bool :=
  decide (args.filterMap argVar?).Nodup && args.all fun
    | .expr e => (V.e e).all fun v => !(args.filterMap argVar?).contains v
    | .var _ => true

/-- every clause of the rule has pairwise distinct variable arguments, none of them mentioned by an expression argument
of the same clause (stronger than `Desugared`, which allows a variable grounded by an EARLIER body item to repeat) -/
def SimpleArgs (V : VarsOf E B) (r : Rule E B G P A) : Bool :=
  r.body.all fun
    | .clause _ args _ => clauseSimple V args
    | _ => true

theorem argsOk_of_simple (V : VarsOf E B) (dg U : List Var) :
    ∀ (as : List (Arg E)) (here : List Var), (∀ v ∈ here, v ∈ U) → (∀ v ∈ as.filterMap argVar?, v ∈ U ∧ v ∉ here) →
      (as.filterMap argVar?).Nodup → (∀ e, Arg.expr e ∈ as → ∀ v ∈ V.e e, v ∉ U) → argsOk V dg as here = true
  | [], _, _, _, _, _ => rfl
  | .var v :: as, here, h1, h2, h3, h4 => by
    have hv := h2 v (by simp [argVar?])
    have hnd : v ∉ as.filterMap argVar? ∧ (as.filterMap argVar?).Nodup := by
      have : (Arg.var v :: as).filterMap argVar? = v :: as.filterMap argVar? := rfl
      rw [this, List.nodup_cons] at h3; exact h3
    simp only [argsOk, Bool.and_eq_true, Bool.not_eq_true']
    refine ⟨contains_false_of_not_mem hv.2, ?_⟩
    apply argsOk_of_simple V dg U as _ _ _ hnd.2 (fun e he => h4 e (List.mem_cons_of_mem _ he))
    · intro w hw
      unfold hereStep at hw
      split at hw
      · exact h1 w hw
      · rcases List.mem_append.1 hw with h | h
        · exact h1 w h
        · simp only [List.mem_singleton] at h; subst h; exact hv.1
    · intro w hw
      have hw' := h2 w (by
        have : (Arg.var v :: as).filterMap argVar? = v :: as.filterMap argVar? := rfl
        rw [this]; exact List.mem_cons_of_mem _ hw)
      refine ⟨hw'.1, fun hh => ?_⟩
      unfold hereStep at hh
      split at hh
      · exact hw'.2 hh
      · rcases List.mem_append.1 hh with h | h
        · exact hw'.2 h
        · simp only [List.mem_singleton] at h; subst h; exact hnd.1 hw
  | .expr e :: as, here, h1, h2, h3, h4 => by
    simp only [argsOk, Bool.and_eq_true, Bool.not_eq_true']
    refine ⟨?_, argsOk_of_simple V dg U as here h1 h2 h3 (fun e' he => h4 e' (List.mem_cons_of_mem _ he))⟩
    cases hc : (V.e e).any here.contains with
    | false => rfl
    | true =>
      obtain ⟨w, hw, hwh⟩ := List.any_eq_true.1 hc
      exact absurd (h1 w (List.contains_iff_mem.1 hwh)) (h4 e List.mem_cons_self w hw)

theorem desugFrom_of_simple (V : VarsOf E B) :
    ∀ (body : List (Item E B G P A)) (gd : List Var × List Var),
      (body.all fun
        | .clause _ args _ => clauseSimple V args
        | _ => true) = true → desugFrom V gd body = true
  | [], _, _ => rfl
  | it :: rest, gd, h => by
    simp only [List.all_cons, Bool.and_eq_true] at h
    simp only [desugFrom, Bool.and_eq_true]
    refine ⟨?_, desugFrom_of_simple V rest _ h.2⟩
    cases it with
    | clause r args conds =>
      have hc := h.1
      simp only [clauseSimple, Bool.and_eq_true, decide_eq_true_eq, List.all_eq_true] at hc
      apply argsOk_of_simple V gd.2 (args.filterMap argVar?) args [] (fun _ h => by cases h)
        (fun v hv => ⟨hv, fun h => by cases h⟩) hc.1
      intro e he w hw hU
      have := hc.2 _ he
      simp only [List.all_eq_true, Bool.not_eq_true'] at this
      have h2 := this w hw
      rw [List.contains_iff_mem.2 hU] at h2; cases h2
    | cond c => rfl
    | gen v g => rfl
    | agg a => rfl

/-- rules whose clauses have pairwise distinct variable arguments, none mentioned by an expression argument of the same
clause, are `Desugared` -/
theorem desugared_of_simpleArgs (V : VarsOf E B) (r : Rule E B G P A) (h : SimpleArgs V r = true) : Desugared V r = true :=
  desugFrom_of_simple V r.body ([], []) h

/-! ## 6. a concrete interpretation: the hypotheses hold, the guard is needed -/

deriving instance DecidableEq for Hir.HItem

/-- a small expression language -/
inductive Ex where
  | const (n : Int)
  | var (v : Var)
  | add (a b : Ex)
deriving DecidableEq, Repr

inductive Bx where
  | lt (a b : Ex)
  | eq (a b : Ex)
deriving DecidableEq, Repr

def Ex.vars : Ex → List Var
  | .const _ => []
  | .var v => [v]
  | .add a b => a.vars ++ b.vars

def Bx.vars : Bx → List Var
  | .lt a b | .eq a b => a.vars ++ b.vars

def Ex.eval (ρ : Env) : Ex → Int
  | .const n => n
  | .var v => match Env.get? ρ v with | some (.int n) => n | _ => 0
  | .add a b => a.eval ρ + b.eval ρ

def Bx.eval (ρ : Env) : Bx → Bool
  | .lt a b => a.eval ρ < b.eval ρ
  | .eq a b => a.eval ρ == b.eval ρ

/-- expressions are integer terms, generators `for v in 0..e`, no patterns, the identity aggregator -/
def exI : Interp Ex Bx Ex Unit Unit where
  expr e ρ := .int (e.eval ρ)
  test b ρ := b.eval ρ
  gen g ρ := (List.range (g.eval ρ).toNat).map fun n => .int (Int.ofNat n)
  pat _ _ := none
  agg _ l := l
  joinMut _ a _ := (a, false)

def exV : VarsOf Ex Bx := ⟨Ex.vars, Bx.vars⟩

theorem Ex.eval_congr (ρ ρ' : Env) : ∀ e : Ex, (∀ v ∈ e.vars, Env.get? ρ v = Env.get? ρ' v) → e.eval ρ = e.eval ρ'
  | .const _, _ => rfl
  | .var v, h => by simp only [Ex.eval]; rw [h v (by simp [Ex.vars])]
  | .add a b, h => by
    simp only [Ex.eval]
    rw [Ex.eval_congr ρ ρ' a fun v hv => h v (by simp [Ex.vars, hv]),
      Ex.eval_congr ρ ρ' b fun v hv => h v (by simp [Ex.vars, hv])]

theorem Bx.eval_congr (ρ ρ' : Env) (b : Bx) (h : ∀ v ∈ b.vars, Env.get? ρ v = Env.get? ρ' v) : b.eval ρ = b.eval ρ' := by
  cases b with
  | lt x y =>
    simp only [Bx.eval]
    rw [Ex.eval_congr ρ ρ' x fun v hv => h v (by simp [Bx.vars, hv]),
      Ex.eval_congr ρ ρ' y fun v hv => h v (by simp [Bx.vars, hv])]
  | eq x y =>
    simp only [Bx.eval]
    rw [Ex.eval_congr ρ ρ' x fun v hv => h v (by simp [Bx.vars, hv]),
      Ex.eval_congr ρ ρ' y fun v hv => h v (by simp [Bx.vars, hv])]

/-- the concrete interpretation depends only on the reported variables … -/
theorem exI_supp : Supp exI exV where
  expr e ρ ρ' h := by
    show Val.int (e.eval ρ) = Val.int (e.eval ρ')
    rw [Ex.eval_congr ρ ρ' e h]
  test b ρ ρ' h := Bx.eval_congr ρ ρ' b h

/-- … and sees environments only through look-up -/
theorem exI_ext : Ext exI where
  expr e ρ ρ' h := exI_supp.expr e ρ ρ' fun v _ => h v
  test b ρ ρ' h := exI_supp.test b ρ ρ' fun v _ => h v
  gen g ρ ρ' h := by
    show (List.range (g.eval ρ).toNat).map _ = (List.range (g.eval ρ').toNat).map _
    rw [Ex.eval_congr ρ ρ' g fun v _ => h v]

/-- `for w in 0..2, foo(x, y) if x < y + w, bar(y, z) let u = z + x if u < 9, baz(u, x + 1, z)`
(`w = 3, x = 0, y = 1, z = 2, u = 4`): a generator before a reorderable simple join whose two clauses carry conditions,
followed by a clause with two grounded variables and an expression argument -/
def rGood : Rule Ex Bx Ex Unit Unit :=
  { heads := [⟨3, [.var 0, .add (.var 4) (.var 3)]⟩]
    body := [.gen 3 (.const 2),
      .clause 0 [.var 0, .var 1] [.ifc (.lt (.var 0) (.add (.var 1) (.var 3)))],
      .clause 1 [.var 1, .var 2] [.letc 4 (.add (.var 2) (.var 1)), .ifc (.lt (.var 4) (.const 9))],
      .clause 2 [.var 4, .expr (.add (.var 0) (.const 1)), .var 2] []] }

/-- the example rule satisfies the hypotheses of all the theorems, is compiled with a simple join, and is reorderable -/
example : Desugared exV rGood = true ∧ WellScoped exV rGood = true ∧
    (compileRule exV rGood).simpleJoinStart = some 1 ∧ reorderable (compileRule exV rGood) = true ∧
    (compileRule exV rGood).items =
      [.gen 3, .clause 0 [1] false, .clause 1 [0] false, .clause 2 [0, 1, 2] false] := by decide

def pGood : Program Ex Bx Ex Unit Unit :=
  { rels := [⟨2, false⟩, ⟨2, false⟩, ⟨3, false⟩, ⟨2, false⟩], rules := [rGood] }

def sGood : SccSt :=
  { rels := [⟨[[.int 1, .int 2], [.int 0, .int 7], [.int 0, .int 2]], [0, 1, 2]⟩,
             ⟨[[.int 2, .int 3], [.int 2, .int 4], [.int 7, .int 1]], [0, 1, 2]⟩,
             ⟨[[.int 5, .int 2, .int 3], [.int 6, .int 2, .int 4], [.int 8, .int 1, .int 1], [.int 5, .int 1, .int 3]], [0, 1, 2, 3]⟩,
             ⟨[], []⟩]
    dyn := [], changed := false }

/-- the three evaluations of the example on a small state: the same bag of head tuples in three different orders, and
environments whose bindings are listed in three different orders (the reason for `EnvEq`): `evalBody` binds `x, y` in
argument order, the simple join binds the join variable `y` first, the swapped copy binds `x` last -/
theorem env_order_differs :
    (evalBody exI {} pGood sGood rGood.body [none, none, none, none] []).map keys = List.replicate 8 [4, 2, 1, 0, 3] ∧
    (evalBodyPlan exI {} pGood sGood (compileRule exV rGood) false rGood.body [none, none, none, none] []).map keys =
      List.replicate 8 [4, 2, 0, 1, 3] ∧
    (evalBodyPlan exI {} pGood sGood (compileRule exV rGood) true rGood.body [none, none, none, none] []).map keys =
      List.replicate 8 [0, 4, 2, 1, 3] ∧
    (evalBody exI {} pGood sGood rGood.body [none, none, none, none] []).map (headRows exI rGood.heads) =
      [[(3, [.int 1, .int 5])], [(3, [.int 1, .int 6])], [(3, [.int 0, .int 8])], [(3, [.int 0, .int 5])],
       [(3, [.int 1, .int 6])], [(3, [.int 1, .int 7])], [(3, [.int 0, .int 9])], [(3, [.int 0, .int 6])]] ∧
    (evalBodyPlan exI {} pGood sGood (compileRule exV rGood) false rGood.body [none, none, none, none] []).map
        (headRows exI rGood.heads) =
      [[(3, [.int 1, .int 5])], [(3, [.int 1, .int 6])], [(3, [.int 0, .int 5])], [(3, [.int 0, .int 8])],
       [(3, [.int 1, .int 6])], [(3, [.int 1, .int 7])], [(3, [.int 0, .int 6])], [(3, [.int 0, .int 9])]] ∧
    (evalBodyPlan exI {} pGood sGood (compileRule exV rGood) true rGood.body [none, none, none, none] []).map
        (headRows exI rGood.heads) =
      [[(3, [.int 1, .int 5])], [(3, [.int 0, .int 5])], [(3, [.int 1, .int 6])], [(3, [.int 0, .int 8])],
       [(3, [.int 1, .int 6])], [(3, [.int 0, .int 6])], [(3, [.int 1, .int 7])], [(3, [.int 0, .int 9])]] := by decide

/-- `let z = 5, foo(x, y), bar(y, z)` (`x = 0, y = 1, z = 2`): the example of `ascent_mir.rs` -/
def rBad : Rule Ex Bx Ex Unit Unit :=
  { heads := [⟨2, [.var 0, .var 2]⟩]
    body := [.cond (.letc 2 (.const 5)), .clause 0 [.var 0, .var 1] [], .clause 1 [.var 1, .var 2] []] }

def pBad : Program Ex Bx Ex Unit Unit := { rels := [⟨2, false⟩, ⟨2, false⟩, ⟨2, false⟩], rules := [rBad] }

/-- `foo = {(1, 2)}`, `bar = {(2, 5), (2, 7)}` -/
def sBad : SccSt :=
  { rels := [⟨[[.int 1, .int 2]], [0]⟩, ⟨[[.int 2, .int 5], [.int 2, .int 7]], [0, 1]⟩, ⟨[], []⟩], dyn := [], changed := false }

/-- **the guard is needed.**  The rule is desugared and well scoped and is compiled with a simple join (`bar` indexed on both
columns), but `z` is bound before the join, so it is NOT reorderable.  In the swapped copy `let z = key.1` shadows `z = 5`:
on this state it reaches the head with `z = 7` as well, and derives `(1, 7)` which is not a consequence of the rule. -/
theorem guard_needed :
    Desugared exV rBad = true ∧ WellScoped exV rBad = true ∧
    (compileRule exV rBad).simpleJoinStart = some 1 ∧
    (compileRule exV rBad).items = [.letc, .clause 0 [1] false, .clause 1 [0, 1] false] ∧
    reorderable (compileRule exV rBad) = false ∧
    evalBody exI {} pBad sBad rBad.body [none, none, none] [] = [[(1, .int 2), (0, .int 1), (2, .int 5)]] ∧
    evalBodyPlan exI {} pBad sBad (compileRule exV rBad) false rBad.body [none, none, none] [] =
      [[(0, .int 1), (1, .int 2), (2, .int 5)]] ∧
    evalBodyPlan exI {} pBad sBad (compileRule exV rBad) true rBad.body [none, none, none] [] =
      [[(0, .int 1), (2, .int 5), (1, .int 2), (2, .int 5)], [(0, .int 1), (2, .int 7), (1, .int 2), (2, .int 5)]] ∧
    (evalBodyPlan exI {} pBad sBad (compileRule exV rBad) true rBad.body [none, none, none] []).map (headRows exI rBad.heads) =
      [[(2, [.int 1, .int 5])], [(2, [.int 1, .int 7])]] := by decide


/-- `Plan.reorderable` is the flag `Hir.ruleLines` prints (the format tie A compares with the real `mir_summary`) -/
theorem reorderable_as_printed :
    Hir.ruleLines exV [] rBad =
      ["r2 <-- let ⋯, r0_indices_1_total, r1_indices_0_1_total [SIMPLE JOIN] [NOT REORDERABLE]"] ∧
    Hir.ruleLines exV [] rGood =
      ["r3 <-- for_v3, r0_indices_1_total, r1_indices_0_total, r2_indices_0_1_2_total [SIMPLE JOIN]"] ∧
    SimpleArgs exV rGood = true ∧ SimpleArgs exV rBad = true := by decide

/-- … so the swapped copy is not a permutation of the original one, for any notion of equality of environments -/
theorem guard_needed_not_perm :
    ¬ PermEq (evalBodyPlan exI {} pBad sBad (compileRule exV rBad) true rBad.body [none, none, none] [])
      (evalBodyPlan exI {} pBad sBad (compileRule exV rBad) false rBad.body [none, none, none] []) := by
  intro h
  have := h.length_eq
  revert this
  decide

/-- `foo(x, x)` with `x` new: `rule_desugar_repeated_vars` turns it into `foo(x, x_) if x_ == x` before the rule is
compiled; `Hir.compileRule` mimics the plan of the result (no index column), but the equality test lives in the added
condition, which the un-desugared core rule does not have: on `foo = {(1, 2)}` the plan model binds `x` twice and goes on,
`evalBody` filters the row out.  The theorems are therefore about `Desugared` rules. -/
def rRep : Rule Ex Bx Ex Unit Unit := { heads := [], body := [.clause 0 [.var 0, .var 0] []] }

theorem desugared_needed :
    Desugared exV rRep = false ∧ (compileRule exV rRep).simpleJoinStart = none ∧
    evalBody exI {} pBad sBad rRep.body [none] [] = [] ∧
    evalBodyPlan exI {} pBad sBad (compileRule exV rRep) false rRep.body [none] [] = [[(0, .int 2), (0, .int 1)]] := by decide

/-! ## 7. axioms -/

#print axioms idxGet_spec
#print axioms iterAll_spec
#print axioms clause_step
#print axioms join_step
#print axioms join_step_swapped
#print axioms evalFrom_eq_evalBody
#print axioms index_selection_eq
#print axioms index_selection_sound_complete
#print axioms reordering_sound_evalBody
#print axioms reordering_sound
#print axioms head_rows_perm
#print axioms head_rows_perm_swapped
#print axioms exI_supp
#print axioms exI_ext
#print axioms env_order_differs
#print axioms guard_needed
#print axioms guard_needed_not_perm
#print axioms desugared_needed
#print axioms desugared_of_simpleArgs
#print axioms reorderable_as_printed
#print axioms compile_join
#print axioms compile_nojoin

end AscentVerif.Plan
