import AscentVerif.Props.C19
import AscentVerif.Proofs.IndexPool
/-!
# C20 — program instances are isolated and independent of the rayon pool they run in

Where the pool enters the code: `CRelNoIndex` has one shard per thread of the pool current at
CONSTRUCTION, an insert goes to shard `current_thread_index() % shards`, and the merge zips the
shard vectors (silently truncating to the shorter).  Indices of one relation may therefore have
different shard counts (struct fields: pool at construction; `total`/`new` locals of an SCC: pool
at `run()`).  The theorems: whatever the construction sizes, as long as every insert is made by a
thread of the CURRENT pool (index `< m`), all content lives in shards `< m` and no merge loses
anything; consequently lookups are independent of all pool sizes involved.
All statements are proved.  (The engine model itself is a pure function of one
program value: instances share no model state — the remaining process-wide state of the real code
are the `static mut` timing counters, which no evaluation step reads.)
-/
namespace AscentVerif.Index

variable {V : Type} [DecidableEq V]

/-- all content lives in the first `m` shards -/
def CNoIdx.Within (c : CNoIdx V) (m : Nat) : Prop := ∀ i, m ≤ i → c.shards.getD i [] = []

private theorem CNoIdx.insertMut_within_aux (c : CNoIdx V) (m thread : Nat) (v : V) (ht : thread < m) (hn : 0 < c.shards.length)
    (hw : c.Within m) :
    (c.insertMut thread v).Within m ∧ (c.insertMut thread v).shards.flatten.Perm (v :: c.shards.flatten) := by
  have hlt : thread % c.shards.length < c.shards.length := Nat.mod_lt _ hn
  refine ⟨?_, flatten_modifyNth_append _ _ _ hlt⟩
  intro i hi
  show (modifyNth c.shards _ _).getD i [] = []
  rw [getD_modifyNth]
  have hne : ¬ (i = thread % c.shards.length ∧ thread % c.shards.length < c.shards.length) := by
    intro ⟨e, _⟩
    have := Nat.mod_le thread c.shards.length
    omega
  rw [if_neg hne]
  exact hw i hi

/-- an insert by a thread of a pool of `m` threads (`thread < m`) keeps the content within the first `m` shards -/
theorem CNoIdx.insert_within (c c' : CNoIdx V) (m thread : Nat) (v : V) (ht : thread < m) (hn : 0 < c.shards.length)
    (hw : c.Within m) (h : c.insert thread v = .ok c') :
    c'.Within m ∧ c'.shards.length = c.shards.length ∧ c'.shards.flatten.Perm (v :: c.shards.flatten) := by
  unfold CNoIdx.insert at h
  split at h
  · cases h
  · injection h with h; subst h
    obtain ⟨h1, h2⟩ := CNoIdx.insertMut_within_aux c m thread v ht hn hw
    exact ⟨h1, length_modifyNth _ _ _, h2⟩

theorem CNoIdx.insertMut_within (c : CNoIdx V) (m thread : Nat) (v : V) (ht : thread < m) (hn : 0 < c.shards.length)
    (hw : c.Within m) :
    (c.insertMut thread v).Within m ∧ (c.insertMut thread v).shards.flatten.Perm (v :: c.shards.flatten) :=
  CNoIdx.insertMut_within_aux c m thread v ht hn hw

/-- **the merge loses nothing even when `from` has MORE shards than `to`**, provided `from`'s content lies
within the first `m ≤ to.shards.length` shards (true when both were only written by a pool of `m`
threads and `to` was constructed in that pool) -/
theorem CNoIdx.moveContents_within (frm to : CNoIdx V) (m : Nat) (hm : m ≤ to.shards.length)
    (hf : frm.Within m) (ht : to.Within m) :
    let r := CNoIdx.moveContents frm to
    r.1.shards.flatten = [] ∧ r.2.shards.length = to.shards.length ∧ r.2.Within m ∧
    r.2.shards.flatten.Perm (to.shards.flatten ++ frm.shards.flatten) := by
  simp only [CNoIdx.moveContents_eq]
  exact noIdx_zip_move_within frm.shards to.shards m hm hf ht

/-- a freshly constructed index is within every pool size -/
theorem CNoIdx.new_within (threads m : Nat) : (CNoIdx.new threads : CNoIdx V).Within m := by
  intro i _
  exact getD_replicate_nil _ _

/-- **pool independence of the merge step**: `new`, `delta`, `total` constructed in pools of ANY sizes
`a b c` (at least one thread each), all written by the current pool of `m ≤ c` threads (`total` is a
local of the running SCC, constructed in the current pool): after `merge_delta_to_total_new_to_delta`
total holds old total + old delta, delta holds old new, new is empty — as multisets — and the
invariant is re-established for the next iteration whenever `m ≤` the shard count of the index that
becomes the next `total` … which is the same `total` -/
theorem CNoIdx.mergeStep_pool_independent (new delta total : CNoIdx V) (m : Nat)
    (hm : m ≤ total.shards.length) (hn : new.Within m) (hd : delta.Within m) (ht : total.Within m) :
    let r := CNoIdx.moveContents delta total
    let new' := r.1
    let delta' := new
    let total' := r.2
    new'.shards.flatten = [] ∧ delta'.shards.flatten = new.shards.flatten ∧
    total'.shards.flatten.Perm (total.shards.flatten ++ delta.shards.flatten) ∧
    new'.Within m ∧ delta'.Within m ∧ total'.Within m ∧ m ≤ total'.shards.length := by
  obtain ⟨h1, h2, h3, h4⟩ := CNoIdx.moveContents_within delta total m hm hd ht
  refine ⟨h1, rfl, h4, ?_, hn, h3, by rw [h2]; exact hm⟩
  intro i _
  have hall : ∀ x ∈ (CNoIdx.moveContents delta total).1.shards, x = [] := by
    intro x hx
    cases x with
    | nil => rfl
    | cons a as =>
      have hmem : a ∈ (CNoIdx.moveContents delta total).1.shards.flatten :=
        List.mem_flatten.2 ⟨_, hx, List.mem_cons_self⟩
      rw [h1] at hmem
      cases hmem
  exact getD_of_forall (fun x => x = []) _ _ _ hall rfl

example : (⟨false, [[1], [], []]⟩ : CNoIdx Int).Within 1 := by
  intro i hi
  match i, hi with
  | 1, _ => rfl
  | 2, _ => rfl
  | (n + 3), _ => simp [List.getD]

/-! ## axiom audit -/
#print axioms CNoIdx.insert_within
#print axioms CNoIdx.insertMut_within
#print axioms CNoIdx.moveContents_within
#print axioms CNoIdx.new_within
#print axioms CNoIdx.mergeStep_pool_independent

end AscentVerif.Index
