import AscentVerif.Props.C07Phys
import AscentVerif.Props.C04Phys
/-!
# C07 + C04 composed: surface programs with negation / aggregation, down to the hash indices

`Props/C07Phys.lean` composes the desugaring theorem with the physical engine theorem for aggregation-free programs.  With
`Props/C04Phys.lean` the same composition holds for stratified programs with `agg` items and negation (`!r(..)` is sugar for the
aggregator `not`): the physical execution of the desugared program holds exactly the documented meaning of the SURFACE program, every
aggregation / negation ranging over the final rows of its relation, each tuple once.
-/
namespace AscentVerif.Surface
open AscentVerif AscentVerif.Engine

variable {E B G P A M : Type}

/-- **the physical execution of the desugared program computes the documented (stratified) meaning of the surface program** -/
theorem surface_to_physical_agg (I : Interp E B G P A) (hI : Plan.Ext I) (V : Hir.VarsOf E B) (hSupp : Plan.Supp I V)
    (hperm : AggPermInvariant I)
    (ops : Ops E B G A) {varsB : B → List Var} {varsG : G → List Var}
    (hS : SugarSound I ops) (hV : VarsSound I ops.varsE varsB varsG)
    (rels : List RelDecl) (srs : List (SRule E B G P A M)) (c c' : Nat) (rs : List (Rule E B G P A))
    (hres : ∀ r ∈ srs, NoReservedNames ops.varsE varsB varsG r) (hws : ∀ r ∈ srs, WellScoped ops.varsE r)
    (hd : desugarRules ops srs c = some (rs, c'))
    (ix : Phys.IxSets) (order : SccOrder) (s : Phys.PSt) (fuel : Nat) (out : Phys.ProgSt)
    (hp : RelationalAgg (⟨rels, rs⟩ : Program E B G P A)) (ho : validOrder (⟨rels, rs⟩ : Program E B G P A) order = true)
    (hst : Stratified (⟨rels, rs⟩ : Program E B G P A) order)
    (hplan : Phys.planOk V (⟨rels, rs⟩ : Program E B G P A) ix = true)
    (hagg : Phys.aggPlanOk V (⟨rels, rs⟩ : Program E B G P A) ix = true)
    (hcore : ∀ r ∈ rs, Hir.Desugared V r = true ∧ Plan.WellScoped V r = true)
    (hs : Phys.WFPSt (⟨rels, rs⟩ : Program E B G P A) s) (hnd : ∀ r, (Phys.prel s r).rows.Nodup)
    (hrun : Phys.run I V (⟨rels, rs⟩ : Program E B G P A) ix order fuel s = some out) :
    (∀ r, (Phys.prel out.st r).rows.Nodup) ∧
    ∀ f, Phys.factsOf out.st f ↔
      DerivableS I srs (fun r => (Phys.prel out.st r).rows) (fun g => g.rel < rels.length ∧ Phys.factsOf s g) f :=
  have h := Phys.runPhys_agg_eq_model I hI V hSupp hperm ⟨rels, rs⟩ ix order s fuel out hp ho hst hplan hagg hcore hs hnd hrun
  ⟨h.2.1, fun f => (h.2.2.1 f).trans (derivable_desugar I ops hS hV srs c c' rs hres hws hd _ _ f)⟩

#print axioms surface_to_physical_agg

end AscentVerif.Surface
