import AscentVerif.Spec.Datalog
import AscentVerif.Model.StdInterp
import AscentVerif.Props.C01
/-!
# C11 — a relation tagged `#[ds(trrel)]` behaves as its explicit transitive closure

Part (a), specification level.  The *explicit-closure twin* of a program with a trrel-tagged
relation `t` is the same program with `t` untagged plus the rule

  `t(x, z) <-- t(x, y), t(y, z)`            (binary)
  `t(k, x, z) <-- t(k, x, y), t(k, y, z)`   (ternary, per key `k`)

(`tools/vlib/eng.py: closure_rules`).  The theorems say what the least model of the twin holds in
`t`: exactly the transitive closure (per key) of the tuples *inserted* into `t` — by the input or
by an instance of one of the other rules over the least model — including the pairs `(x,x)`
implied by cycles.  Both directions, binary and ternary; the closure is stated in its rule form
(`TCb`/`TCt`: closed under composing two members) and shown equal to the path form (`Path`:
a non-empty chain of inserted pairs).  Together with C01 (`run_eq_leastModel`) this is what
the engine model computes on the twin (`engine_twin_closure`).
-/
namespace AscentVerif.C11
open AscentVerif AscentVerif.Std

abbrev SRule := Rule Ex Bx Gx Px Ax

/-- `t(x, z) <-- t(x, y), t(y, z)` -/
def closureRuleBin (t : RelId) : SRule :=
  { heads := [⟨t, [.var 0, .var 2]⟩],
    body := [.clause t [.var 0, .var 1] [], .clause t [.var 1, .var 2] []] }

/-- `t(k, x, z) <-- t(k, x, y), t(k, y, z)` -/
def closureRuleTern (t : RelId) : SRule :=
  { heads := [⟨t, [.var 9, .var 0, .var 2]⟩],
    body := [.clause t [.var 9, .var 0, .var 1] [], .clause t [.var 9, .var 1, .var 2] []] }

/-- transitive closure of a set `S` of `t`-tuples, binary reading: the least set containing `S`
and closed under `[x,y], [y,z] ↦ [x,z]` -/
inductive TCb (S : Tuple → Prop) : Tuple → Prop where
  | base {tp : Tuple} : S tp → TCb S tp
  | trans {x y z : Val} : TCb S [x, y] → TCb S [y, z] → TCb S [x, z]

/-- per-key transitive closure, ternary reading -/
inductive TCt (S : Tuple → Prop) : Tuple → Prop where
  | base {tp : Tuple} : S tp → TCt S tp
  | trans {k x y z : Val} : TCt S [k, x, y] → TCt S [k, y, z] → TCt S [k, x, z]

/-- path form: a non-empty chain of `R`-steps -/
inductive Path (R : Val → Val → Prop) : Val → Val → Prop where
  | one {x y : Val} : R x y → Path R x y
  | cons {x y z : Val} : R x y → Path R y z → Path R x z

theorem Path.append {R : Val → Val → Prop} {x y z : Val} (h₁ : Path R x y) (h₂ : Path R y z) : Path R x z := by
  induction h₁ with
  | one h => exact .cons h h₂
  | cons h _ ih => exact .cons h (ih h₂)

/-! ## the body of the closure rules, evaluated -/

section MatchArgs
variable {E B G P A : Type}

private theorem matchArgs_two_fresh (I : Interp E B G P A) (ρ₀ : Env) (tp : Tuple) (ρ₁ : Env) :
    matchArgs I ρ₀ [.var 0, .var 1] tp [] = some ρ₁ ↔ ∃ a b, tp = [a, b] ∧ ρ₁ = [(1, b), (0, a)] := by
  match tp with
  | [] => simp [matchArgs]
  | [a] => simp [matchArgs, Env.get?]
  | [a, b] =>
    simp [matchArgs, Env.get?]
    constructor
    · intro h; exact ⟨a, b, ⟨rfl, rfl⟩, h.symm⟩
    · rintro ⟨a', b', ⟨rfl, rfl⟩, h⟩; exact h.symm
  | a :: b :: c :: r => simp [matchArgs, Env.get?]

private theorem matchArgs_join (I : Interp E B G P A) (ρ₀ : Env) (tp : Tuple) (a b : Val) (ρ' : Env) :
    matchArgs I ρ₀ [.var 1, .var 2] tp [(1, b), (0, a)] = some ρ' ↔ ∃ c, tp = [b, c] ∧ ρ' = [(2, c), (1, b), (0, a)] := by
  match tp with
  | [] => simp [matchArgs]
  | [x] =>
    simp [matchArgs, Env.get?]
  | [x, c] =>
    simp [matchArgs, Env.get?]
    by_cases hx : x = b
    · subst hx; simp; constructor <;> (intro h; exact h.symm)
    · simp [hx]
  | x :: c :: d :: r =>
    simp [matchArgs, Env.get?]

private theorem matchArgs_three_fresh (I : Interp E B G P A) (ρ₀ : Env) (tp : Tuple) (ρ₁ : Env) :
    matchArgs I ρ₀ [.var 9, .var 0, .var 1] tp [] = some ρ₁ ↔ ∃ k a b, tp = [k, a, b] ∧ ρ₁ = [(1, b), (0, a), (9, k)] := by
  match tp with
  | [] => simp [matchArgs]
  | [a] => simp [matchArgs, Env.get?]
  | [a, b] => simp [matchArgs, Env.get?]
  | [k, a, b] =>
    simp [matchArgs, Env.get?]
    constructor
    · intro h; exact ⟨k, a, b, ⟨rfl, rfl, rfl⟩, h.symm⟩
    · rintro ⟨k', a', b', ⟨rfl, rfl, rfl⟩, h⟩; exact h.symm
  | k :: a :: b :: c :: r => simp [matchArgs, Env.get?]

private theorem matchArgs_join3 (I : Interp E B G P A) (ρ₀ : Env) (tp : Tuple) (k a b : Val) (ρ' : Env) :
    matchArgs I ρ₀ [.var 9, .var 1, .var 2] tp [(1, b), (0, a), (9, k)] = some ρ' ↔
      ∃ c, tp = [k, b, c] ∧ ρ' = [(2, c), (1, b), (0, a), (9, k)] := by
  match tp with
  | [] => simp [matchArgs]
  | [x] => simp [matchArgs, Env.get?]
  | [x, y] => simp [matchArgs, Env.get?]
  | [x, y, c] =>
    simp [matchArgs, Env.get?]
    by_cases hx : x = k
    · subst hx
      by_cases hy : y = b
      · subst hy; simp; constructor <;> (intro h; exact h.symm)
      · simp [hy]
    · simp [hx]
  | x :: y :: c :: d :: r =>
    simp [matchArgs, Env.get?]

end MatchArgs

variable {kinds : RelId → LatKind}

theorem sat_closureBin (D : DB) (agg : RelId → List Tuple) (t : RelId) (ρ : Env) :
    Sat (interp kinds) D agg (closureRuleBin t).body [] ρ ↔
      ∃ a b c, D ⟨t, [a, b]⟩ ∧ D ⟨t, [b, c]⟩ ∧ ρ = [(2, c), (1, b), (0, a)] := by
  constructor
  · intro h
    cases h with
    | clause t₁ hd hm hc hrest =>
      cases hrest with
      | clause t₂ hd₂ hm₂ hc₂ hrest₂ =>
        cases hrest₂
        simp only [satConds, Option.some.injEq] at hc hc₂
        subst hc hc₂
        obtain ⟨a, b, rfl, rfl⟩ := (matchArgs_two_fresh _ _ _ _).mp hm
        obtain ⟨c, rfl, rfl⟩ := (matchArgs_join _ _ _ _ _ _).mp hm₂
        exact ⟨a, b, c, hd, hd₂, rfl⟩
  · rintro ⟨a, b, c, h₁, h₂, rfl⟩
    refine .clause [a, b] h₁ ((matchArgs_two_fresh _ _ _ _).mpr ⟨a, b, rfl, rfl⟩) rfl ?_
    refine .clause [b, c] h₂ ((matchArgs_join _ _ _ _ _ _).mpr ⟨c, rfl, rfl⟩) rfl ?_
    exact .nil _

theorem sat_closureTern (D : DB) (agg : RelId → List Tuple) (t : RelId) (ρ : Env) :
    Sat (interp kinds) D agg (closureRuleTern t).body [] ρ ↔
      ∃ k a b c, D ⟨t, [k, a, b]⟩ ∧ D ⟨t, [k, b, c]⟩ ∧ ρ = [(2, c), (1, b), (0, a), (9, k)] := by
  constructor
  · intro h
    cases h with
    | clause t₁ hd hm hc hrest =>
      cases hrest with
      | clause t₂ hd₂ hm₂ hc₂ hrest₂ =>
        cases hrest₂
        simp only [satConds, Option.some.injEq] at hc hc₂
        subst hc hc₂
        obtain ⟨k, a, b, rfl, rfl⟩ := (matchArgs_three_fresh _ _ _ _).mp hm
        obtain ⟨c, rfl, rfl⟩ := (matchArgs_join3 _ _ _ _ _ _ _).mp hm₂
        exact ⟨k, a, b, c, hd, hd₂, rfl⟩
  · rintro ⟨k, a, b, c, h₁, h₂, rfl⟩
    refine .clause [k, a, b] h₁ ((matchArgs_three_fresh _ _ _ _).mpr ⟨k, a, b, rfl, rfl⟩) rfl ?_
    refine .clause [k, b, c] h₂ ((matchArgs_join3 _ _ _ _ _ _ _).mpr ⟨c, rfl, rfl⟩) rfl ?_
    exact .nil _

/-- one application of the binary closure rule -/
theorem cons_closureBin (D : DB) (agg : RelId → List Tuple) (t : RelId) (f : Fact) :
    Cons (interp kinds) [closureRuleBin t] agg D f ↔ ∃ a b c, D ⟨t, [a, b]⟩ ∧ D ⟨t, [b, c]⟩ ∧ f = ⟨t, [a, c]⟩ := by
  constructor
  · rintro ⟨r, hr, ρ, hs, h, hh, rfl⟩
    simp only [List.mem_singleton] at hr
    subst hr
    obtain ⟨a, b, c, h₁, h₂, rfl⟩ := (sat_closureBin D agg t ρ).mp hs
    simp only [closureRuleBin, List.mem_singleton] at hh
    subst hh
    exact ⟨a, b, c, h₁, h₂, by simp [headFact, interp, evalEx, Env.get?]⟩
  · rintro ⟨a, b, c, h₁, h₂, rfl⟩
    exact ⟨closureRuleBin t, by simp, _, (sat_closureBin D agg t _).mpr ⟨a, b, c, h₁, h₂, rfl⟩,
      ⟨t, [.var 0, .var 2]⟩, by simp [closureRuleBin], by simp [headFact, interp, evalEx, Env.get?]⟩

theorem cons_closureTern (D : DB) (agg : RelId → List Tuple) (t : RelId) (f : Fact) :
    Cons (interp kinds) [closureRuleTern t] agg D f ↔
      ∃ k a b c, D ⟨t, [k, a, b]⟩ ∧ D ⟨t, [k, b, c]⟩ ∧ f = ⟨t, [k, a, c]⟩ := by
  constructor
  · rintro ⟨r, hr, ρ, hs, h, hh, rfl⟩
    simp only [List.mem_singleton] at hr
    subst hr
    obtain ⟨k, a, b, c, h₁, h₂, rfl⟩ := (sat_closureTern D agg t ρ).mp hs
    simp only [closureRuleTern, List.mem_singleton] at hh
    subst hh
    exact ⟨k, a, b, c, h₁, h₂, by simp [headFact, interp, evalEx, Env.get?]⟩
  · rintro ⟨k, a, b, c, h₁, h₂, rfl⟩
    exact ⟨closureRuleTern t, by simp, _, (sat_closureTern D agg t _).mpr ⟨k, a, b, c, h₁, h₂, rfl⟩,
      ⟨t, [.var 9, .var 0, .var 2]⟩, by simp [closureRuleTern], by simp [headFact, interp, evalEx, Env.get?]⟩

/-! ## the least model of the twin, restricted to `t` -/

section Twin
variable {E B G P A : Type}

theorem cons_append {I : Interp E B G P A} {r₁ r₂ : List (Rule E B G P A)} {agg : RelId → List Tuple} {D : DB} {f : Fact} :
    Cons I (r₁ ++ r₂) agg D f ↔ Cons I r₁ agg D f ∨ Cons I r₂ agg D f := by
  constructor
  · rintro ⟨r, hr, rest⟩
    rcases List.mem_append.mp hr with h | h
    · exact .inl ⟨r, h, rest⟩
    · exact .inr ⟨r, h, rest⟩
  · rintro (⟨r, hr, rest⟩ | ⟨r, hr, rest⟩)
    · exact ⟨r, List.mem_append_left _ hr, rest⟩
    · exact ⟨r, List.mem_append_right _ hr, rest⟩

theorem cons_mono {I : Interp E B G P A} {rules : List (Rule E B G P A)} {agg : RelId → List Tuple} {D D' : DB}
    (h : ∀ f, D f → D' f) {f : Fact} : Cons I rules agg D f → Cons I rules agg D' f := by
  rintro ⟨r, hr, ρ, hs, rest⟩
  exact ⟨r, hr, ρ, Sat.mono h hs, rest⟩

/-- the tuples *inserted* into `t`: given as input, or the head of an instance of one of the
(non-closure) rules over the database `D` -/
def Inserted (I : Interp E B G P A) (rules : List (Rule E B G P A)) (agg : RelId → List Tuple) (inp D : DB)
    (t : RelId) (tp : Tuple) : Prop :=
  inp ⟨t, tp⟩ ∨ Cons I rules agg D ⟨t, tp⟩

/-- generic core of both closure theorems: `T` is the closure operator (`TCb S` or `TCt S`), `step`
says that one application of the closure rule stays inside it and is derivable -/
theorem twin_closure_core (I : Interp E B G P A) (rules : List (Rule E B G P A)) (crule : Rule E B G P A)
    (agg : RelId → List Tuple) (inp : DB) (t : RelId) (T : Tuple → Prop)
    (hbase : ∀ tp, Inserted I rules agg inp (Derivable I (rules ++ [crule]) agg inp) t tp → T tp)
    (hstep : ∀ D : DB, (∀ tp, D ⟨t, tp⟩ → T tp) → ∀ f, Cons I [crule] agg D f → f.rel = t ∧ T f.args) :
    ∀ tp, Derivable I (rules ++ [crule]) agg inp ⟨t, tp⟩ → T tp := by
  intro tp hM
  let M := Derivable I (rules ++ [crule]) agg inp
  let D' : DB := fun f => M f ∧ (f.rel = t → T f.args)
  have hcl : Closed I (rules ++ [crule]) agg inp D' := by
    refine ⟨fun f hf => ⟨derivable_input hf, fun ht => hbase _ (.inl ?_)⟩, ?_⟩
    · cases f; simp only at ht; subst ht; exact hf
    · intro f hc
      have hM' : M f := derivable_cons (cons_mono (fun g hg => hg.1) hc)
      refine ⟨hM', fun ht => ?_⟩
      rcases cons_append.mp hc with h | h
      · refine hbase _ (.inr ?_)
        have := cons_mono (D' := M) (fun g hg => hg.1) h
        cases f; simp only at ht; subst ht; exact this
      · exact (hstep D' (fun tp h => h.2 rfl) f h).2
  exact (hM D' hcl).2 rfl

end Twin

/-- **C11 (a), binary**: in the least model of the explicit-closure twin, `t` holds exactly the
transitive closure of the tuples inserted into it by the input and the other rules -/
theorem twin_closure_bin (rules : List SRule) (agg : RelId → List Tuple) (inp : DB) (t : RelId) (tp : Tuple) :
    Derivable (interp kinds) (rules ++ [closureRuleBin t]) agg inp ⟨t, tp⟩ ↔
      TCb (Inserted (interp kinds) rules agg inp (Derivable (interp kinds) (rules ++ [closureRuleBin t]) agg inp) t) tp := by
  constructor
  · refine twin_closure_core _ rules _ agg inp t _ (fun tp h => .base h) ?_ tp
    intro D hD f hc
    obtain ⟨a, b, c, h₁, h₂, rfl⟩ := (cons_closureBin D agg t f).mp hc
    exact ⟨rfl, .trans (hD _ h₁) (hD _ h₂)⟩
  · intro h
    induction h with
    | base hS =>
      rcases hS with hi | hc
      · exact derivable_input hi
      · exact derivable_cons (cons_append.mpr (.inl hc))
    | trans _ _ ih₁ ih₂ =>
      exact derivable_cons (cons_append.mpr (.inr ((cons_closureBin _ agg t _).mpr ⟨_, _, _, ih₁, ih₂, rfl⟩)))

/-- **C11 (a), ternary**: per key `k`, the transitive closure of the inserted tuples -/
theorem twin_closure_tern (rules : List SRule) (agg : RelId → List Tuple) (inp : DB) (t : RelId) (tp : Tuple) :
    Derivable (interp kinds) (rules ++ [closureRuleTern t]) agg inp ⟨t, tp⟩ ↔
      TCt (Inserted (interp kinds) rules agg inp (Derivable (interp kinds) (rules ++ [closureRuleTern t]) agg inp) t) tp := by
  constructor
  · refine twin_closure_core _ rules _ agg inp t _ (fun tp h => .base h) ?_ tp
    intro D hD f hc
    obtain ⟨k, a, b, c, h₁, h₂, rfl⟩ := (cons_closureTern D agg t f).mp hc
    exact ⟨rfl, .trans (hD _ h₁) (hD _ h₂)⟩
  · intro h
    induction h with
    | base hS =>
      rcases hS with hi | hc
      · exact derivable_input hi
      · exact derivable_cons (cons_append.mpr (.inl hc))
    | trans _ _ ih₁ ih₂ =>
      exact derivable_cons (cons_append.mpr (.inr ((cons_closureTern _ agg t _).mpr ⟨_, _, _, _, ih₁, ih₂, rfl⟩)))

/-! ## rule form = path form -/

/-- the rule-form closure is the set itself plus everything connected by a non-empty chain of its pairs -/
theorem tcb_iff_path (S : Tuple → Prop) (tp : Tuple) :
    TCb S tp ↔ S tp ∨ ∃ x z, tp = [x, z] ∧ Path (fun a b => S [a, b]) x z := by
  constructor
  · intro h
    induction h with
    | base h => exact .inl h
    | @trans x y z _ _ ih₁ ih₂ =>
      have p₁ : Path (fun a b => S [a, b]) x y := by
        rcases ih₁ with h | ⟨x', z', he, hp⟩
        · exact .one h
        · simp only [List.cons.injEq, and_true] at he; obtain ⟨rfl, rfl⟩ := he; exact hp
      have p₂ : Path (fun a b => S [a, b]) y z := by
        rcases ih₂ with h | ⟨x', z', he, hp⟩
        · exact .one h
        · simp only [List.cons.injEq, and_true] at he; obtain ⟨rfl, rfl⟩ := he; exact hp
      exact .inr ⟨x, z, rfl, p₁.append p₂⟩
  · rintro (h | ⟨x, z, rfl, hp⟩)
    · exact .base h
    · induction hp with
      | one h => exact .base h
      | cons h _ ih => exact .trans (.base h) ih

theorem tct_iff_path (S : Tuple → Prop) (tp : Tuple) :
    TCt S tp ↔ S tp ∨ ∃ k x z, tp = [k, x, z] ∧ Path (fun a b => S [k, a, b]) x z := by
  constructor
  · intro h
    induction h with
    | base h => exact .inl h
    | @trans k x y z _ _ ih₁ ih₂ =>
      have p₁ : Path (fun a b => S [k, a, b]) x y := by
        rcases ih₁ with h | ⟨k', x', z', he, hp⟩
        · exact .one h
        · simp only [List.cons.injEq, and_true] at he; obtain ⟨rfl, rfl, rfl⟩ := he; exact hp
      have p₂ : Path (fun a b => S [k, a, b]) y z := by
        rcases ih₂ with h | ⟨k', x', z', he, hp⟩
        · exact .one h
        · simp only [List.cons.injEq, and_true] at he; obtain ⟨rfl, rfl, rfl⟩ := he; exact hp
      exact .inr ⟨k, x, z, rfl, p₁.append p₂⟩
  · rintro (h | ⟨k, x, z, rfl, hp⟩)
    · exact .base h
    · induction hp with
      | one h => exact .base h
      | cons h _ ih => exact .trans (.base h) ih

/-- **pairs (x,x) implied by cycles are in the relation**: a cycle of inserted pairs through `x` -/
theorem twin_cycle_reflexive_bin (rules : List SRule) (agg : RelId → List Tuple) (inp : DB) (t : RelId) (x : Val)
    (h : Path (fun a b => Inserted (interp kinds) rules agg inp (Derivable (interp kinds) (rules ++ [closureRuleBin t]) agg inp) t [a, b]) x x) :
    Derivable (interp kinds) (rules ++ [closureRuleBin t]) agg inp ⟨t, [x, x]⟩ :=
  (twin_closure_bin rules agg inp t _).mpr ((tcb_iff_path _ _).mpr (.inr ⟨x, x, rfl, h⟩))

theorem twin_cycle_reflexive_tern (rules : List SRule) (agg : RelId → List Tuple) (inp : DB) (t : RelId) (k x : Val)
    (h : Path (fun a b => Inserted (interp kinds) rules agg inp (Derivable (interp kinds) (rules ++ [closureRuleTern t]) agg inp) t [k, a, b]) x x) :
    Derivable (interp kinds) (rules ++ [closureRuleTern t]) agg inp ⟨t, [k, x, x]⟩ :=
  (twin_closure_tern rules agg inp t _).mpr ((tct_iff_path _ _).mpr (.inr ⟨k, x, x, rfl, h⟩))

/-! ## what the engine model computes on the twin (with C01) -/

open Engine in
/-- the engine model, run on the twin, leaves in `t` exactly the transitive closure of the inserted tuples -/
theorem engine_twin_closure_bin (cfg : Config) (p : Program Ex Bx Gx Px Ax) (rules : List SRule) (t : RelId)
    (order : SccOrder) (inp : RelId → List Tuple) (fuel : Nat) (ps : ProgSt)
    (hrules : p.rules = rules ++ [closureRuleBin t])
    (hp : Relational p) (ho : validOrder p order = true)
    (hrun : run (interp kinds) cfg p order fuel (initSt p inp) = .done ps) (tp : Tuple) :
    factsOf ps.st ⟨t, tp⟩ ↔
      TCb (Inserted (interp kinds) rules noAgg (inputDB p inp) (factsOf ps.st) t) tp := by
  have hM := run_eq_leastModel (interp kinds) cfg p order inp fuel ps hp ho hrun
  have hD : (factsOf ps.st : DB) = Derivable (interp kinds) (rules ++ [closureRuleBin t]) noAgg (inputDB p inp) := by
    funext f; rw [← hrules]; exact propext (hM f)
  rw [hD]
  exact twin_closure_bin rules noAgg (inputDB p inp) t tp

open Engine in
theorem engine_twin_closure_tern (cfg : Config) (p : Program Ex Bx Gx Px Ax) (rules : List SRule) (t : RelId)
    (order : SccOrder) (inp : RelId → List Tuple) (fuel : Nat) (ps : ProgSt)
    (hrules : p.rules = rules ++ [closureRuleTern t])
    (hp : Relational p) (ho : validOrder p order = true)
    (hrun : run (interp kinds) cfg p order fuel (initSt p inp) = .done ps) (tp : Tuple) :
    factsOf ps.st ⟨t, tp⟩ ↔
      TCt (Inserted (interp kinds) rules noAgg (inputDB p inp) (factsOf ps.st) t) tp := by
  have hM := run_eq_leastModel (interp kinds) cfg p order inp fuel ps hp ho hrun
  have hD : (factsOf ps.st : DB) = Derivable (interp kinds) (rules ++ [closureRuleTern t]) noAgg (inputDB p inp) := by
    funext f; rw [← hrules]; exact propext (hM f)
  rw [hD]
  exact twin_closure_tern rules noAgg (inputDB p inp) t tp

/-! ## non-vacuity: a concrete twin -/
namespace Example

/-- `t(x, y) <-- e(x, y)` with `e` = relation 0, `t` = relation 1 -/
def copyRule : SRule := { heads := [⟨1, [.var 0, .var 1]⟩], body := [.clause 0 [.var 0, .var 1] []] }

def kinds0 : RelId → LatKind := fun _ => .maxInt
def i (n : Int) : Val := .int n
def noAgg : RelId → List Tuple := fun _ => []

/-- input `e = {(1,2), (2,1), (2,3)}` (the witness of finding F7) -/
def inp : DB := fun f => f = ⟨0, [i 1, i 2]⟩ ∨ f = ⟨0, [i 2, i 1]⟩ ∨ f = ⟨0, [i 2, i 3]⟩

abbrev M : DB := Derivable (interp kinds0) ([copyRule] ++ [closureRuleBin 1]) noAgg inp

theorem cons_copyRule (D : DB) (f : Fact) :
    Cons (interp kinds0) [copyRule] noAgg D f ↔ ∃ a b, D ⟨0, [a, b]⟩ ∧ f = ⟨1, [a, b]⟩ := by
  constructor
  · rintro ⟨r, hr, ρ, hs, h, hh, rfl⟩
    simp only [List.mem_singleton] at hr
    subst hr
    cases hs with
    | clause t₁ hd hm hc hrest =>
      cases hrest
      simp only [satConds, Option.some.injEq] at hc
      subst hc
      obtain ⟨a, b, rfl, rfl⟩ := (matchArgs_two_fresh _ _ _ _).mp hm
      simp only [copyRule, List.mem_singleton] at hh
      subst hh
      exact ⟨a, b, hd, by simp [headFact, interp, evalEx, Env.get?]⟩
  · rintro ⟨a, b, h, rfl⟩
    exact ⟨copyRule, by simp, [(1, b), (0, a)],
      .clause [a, b] h ((matchArgs_two_fresh _ _ _ _).mpr ⟨a, b, rfl, rfl⟩) rfl (.nil _),
      ⟨1, [.var 0, .var 1]⟩, by simp [copyRule], by simp [headFact, interp, evalEx, Env.get?]⟩

theorem inserted_of_input {a b : Val} (h : inp ⟨0, [a, b]⟩) : Inserted (interp kinds0) [copyRule] noAgg inp M 1 [a, b] :=
  .inr ((cons_copyRule M _).mpr ⟨a, b, derivable_input h, rfl⟩)

/-- the cycle 1 → 2 → 1 puts (1,1) and (2,2) into `t` -/
theorem example_reflexive : M ⟨1, [i 1, i 1]⟩ ∧ M ⟨1, [i 2, i 2]⟩ := by
  have h12 : inp ⟨0, [i 1, i 2]⟩ := .inl rfl
  have h21 : inp ⟨0, [i 2, i 1]⟩ := .inr (.inl rfl)
  exact ⟨twin_cycle_reflexive_bin _ _ _ _ _ (.cons (inserted_of_input h12) (.one (inserted_of_input h21))),
         twin_cycle_reflexive_bin _ _ _ _ _ (.cons (inserted_of_input h21) (.one (inserted_of_input h12)))⟩

/-- … and (1,3) by composition, but nothing leaves 3: the closure adds no more than paths allow -/
theorem example_13 : M ⟨1, [i 1, i 3]⟩ :=
  (twin_closure_bin _ _ _ _ _).mpr (.trans (.base (inserted_of_input (.inl rfl))) (.base (inserted_of_input (.inr (.inr rfl)))))

theorem example_not_31 : ¬ M ⟨1, [i 3, i 1]⟩ := by
  intro h
  let D : DB := fun f => (f.rel = 0 ∧ inp f) ∨ (f.rel = 1 ∧ ∃ a b, f.args = [a, b] ∧ a ≠ i 3)
  have hcl : Closed (interp kinds0) ([copyRule] ++ [closureRuleBin 1]) noAgg inp D := by
    refine ⟨fun f hf => .inl ⟨?_, hf⟩, ?_⟩
    · rcases hf with rfl | rfl | rfl <;> rfl
    · intro f hc
      rcases cons_append.mp hc with h | h
      · obtain ⟨a, b, hd, rfl⟩ := (cons_copyRule D f).mp h
        rcases hd with ⟨_, hi⟩ | ⟨h1, _⟩
        · refine .inr ⟨rfl, a, b, rfl, ?_⟩
          rcases hi with h | h | h <;> (simp only [Fact.mk.injEq, List.cons.injEq, true_and] at h; rw [h.1]; simp [i])
        · simp at h1
      · obtain ⟨a, b, c, h₁, h₂, rfl⟩ := (cons_closureBin D noAgg 1 f).mp h
        rcases h₁ with ⟨h0, _⟩ | ⟨_, a', b', he, hne⟩
        · simp at h0
        · simp only [List.cons.injEq, and_true] at he
          obtain ⟨rfl, rfl⟩ := he
          exact .inr ⟨rfl, a, c, rfl, hne⟩
  rcases h D hcl with ⟨h0, _⟩ | ⟨_, a, b, he, hne⟩
  · simp at h0
  · simp only [List.cons.injEq, and_true] at he
    exact hne he.1.symm

end Example

end AscentVerif.C11
