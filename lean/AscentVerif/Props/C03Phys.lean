import AscentVerif.Model.EnginePhysLat
import AscentVerif.Props.C03ND
import AscentVerif.Props.C01PhysPlan
import AscentVerif.Proofs.PhysLatRun
/-!
# C03 at the level of the physical indices: lattice relations over key index and set-valued indices

`Model/EnginePhysLat.lean` models the generated code of a serial, aggregation-free program with `lattice` relations over its
physical indices: per lattice the row vector (last column joined in place), the key index (key columns → row number) and
set-valued indices of row numbers, three versions of each inside an SCC; the lattice head update (look the key up in `new`,
`delta`, `total`; `join_mut` in place; re-insert the row number into every `new` index iff the value changed; else push);
plain relations as in `Model/EnginePhys.lean`.

`runPhysLat_spec`: if the run returns, every lattice relation has one row per key, the result is closed under the rules over
the FINAL values, below every closed key-unique database for monotone programs (the least fixed point), and plain relations are
sets with the inputs first.  Proof: forward simulation onto the nondeterministic lattice engine (`Proofs/NDLattice.lean`).
Hypotheses: `LatticeProg`, `InputOK` (as `Props/C03.lean`), desugared and well-scoped rules, `latPlanOk` (usable plan; no index of
a lattice contains the value column — finding F9 is exactly what lies outside).
-/
namespace AscentVerif.PhysLat
open AscentVerif AscentVerif.Engine AscentVerif.Index AscentVerif.Phys

variable {E B G P A : Type}

/-- **the generated code with lattices, over its physical indices, reaches the least fixed point** -/
theorem runPhysLat_spec (I : Interp E B G P A) (L : LatOrder I) (hI : Plan.Ext I) (V : Hir.VarsOf E B) (hS : Plan.Supp I V)
    (p : Program E B G P A) (ix : IxSets) (order : SccOrder) (inp : RelId → List Tuple) (fuel : Nat) (out : ProgSt)
    (hp : LatticeProg p) (ho : validOrder p order = true) (hi : InputOK p inp)
    (hplan : latPlanOk V p ix = true)
    (hd : ∀ r ∈ p.rules, Hir.Desugared V r = true ∧ Plan.WellScoped V r = true)
    (hrun : run I V p ix order fuel (initSt p inp) = some out) :
    (∀ r, r < p.rels.length → (declOf p r).lat = true → ((xrel out.st r).rows.map keyOf).Nodup) ∧
    LClosed I L p (inputDB p inp) (factsOf out.st) ∧
    (MonotoneProg I L p → ∀ M : DB, KeyUnique p M → LClosed I L p (inputDB p inp) M → DBLe I L p (factsOf out.st) M) ∧
    (∀ r, r < p.rels.length → (declOf p r).lat = false → ∃ derived : List Tuple,
      (xrel out.st r).rows = inp r ++ derived ∧ derived.Nodup ∧ ∀ t ∈ derived, t ∉ inp r) := by
  obtain ⟨st', hnd, hsim⟩ := run_is_RunNDL I L hI V hS p ix order inp fuel out hp hi hplan hd hrun
  obtain ⟨h1, h2, h3, h4⟩ := runNDL_spec I L p order inp st' hp ho hi hnd
  have hf : Engine.factsOf st' = factsOf out.st := by
    funext f
    simp only [Engine.factsOf, factsOf, hsim.rows]
  rw [hf] at h2 h3
  refine ⟨?_, h2, h3, ?_⟩
  · intro r hr hl
    rw [← hsim.rows]; exact h1 r hr hl
  · intro r hr hl
    rw [← hsim.rows]; exact h4 r hr hl

/-! ## non-vacuity: longest weighted paths in a DAG over a `max` lattice

`edge(x, y, w)` is a plain relation, `dist(x, d)` a lattice (key `x`, value `d` joined by the `i64` max-join of the ties,
`Std.LatKind.maxInt`); `dist(y, d + w) <-- dist(x, d), edge(x, y, w)`.  The interpretation is that of `Props/C01Plan.lean`
(integer terms) with the max-join.  The rule is compiled to a simple join on `x`: `dist` is iterated through its key index
`[0]` (`iter_all` over key → row number), `edge` is looked up in its index `[0]`.  Every hypothesis of `runPhysLat_spec` holds, and the physical engine returns `dist = {1 ↦ 0, 2 ↦ 3, 3 ↦ 7}` (the row of
node 3 is first derived with value 5 along the edge `1 → 3` and joined in place to 7). -/

def exL : Interp Plan.Ex Plan.Bx Plan.Ex Unit Unit :=
  { Plan.exI with joinMut := (Std.interp fun _ => .maxInt).joinMut }

theorem exL_ext : Plan.Ext exL := ⟨Plan.exI_ext.expr, Plan.exI_ext.test, Plan.exI_ext.gen⟩
theorem exL_supp : Plan.Supp exL Plan.exV := ⟨Plan.exI_supp.expr, Plan.exI_supp.test⟩

theorem exL_latOrder : ∃ L : LatOrder exL, L.le = stdLe fun _ => .maxInt := by
  obtain ⟨L, hL⟩ := std_latOrder_maxmin (fun _ => .maxInt) (fun _ => .inl rfl)
  exact ⟨{ le := L.le, refl := L.refl, trans := L.trans, join_left := L.join_left, join_right := L.join_right,
           join_least := L.join_least, flag_false := L.flag_false }, hL⟩

def pDist : Program Plan.Ex Plan.Bx Plan.Ex Unit Unit :=
  { rels := [⟨3, false⟩, ⟨2, true⟩]
    rules := [{ heads := [⟨1, [.var 1, .add (.var 2) (.var 3)]⟩],
                body := [.clause 1 [.var 0, .var 2] [], .clause 0 [.var 0, .var 1, .var 3] []] }] }

def inpDist : RelId → List Tuple := fun r =>
  if r = 0 then [[.int 1, .int 2, .int 3], [.int 2, .int 3, .int 4], [.int 1, .int 3, .int 5]]
  else if r = 1 then [[.int 1, .int 0]] else []

theorem inpDist_ok : InputOK pDist inpDist := by
  refine ⟨?_, ?_⟩
  · intro r hr t ht
    match r, hr, ht with
    | 0, _, ht =>
      have : t ∈ [[Val.int 1, .int 2, .int 3], [.int 2, .int 3, .int 4], [.int 1, .int 3, .int 5]] := ht
      simp only [List.mem_cons, List.not_mem_nil, or_false] at this
      rcases this with rfl | rfl | rfl <;> rfl
    | 1, _, ht =>
      have : t ∈ [[Val.int 1, .int 0]] := ht
      simp only [List.mem_singleton] at this
      subst this; rfl
  · intro r hr hl
    match r, hr, hl with
    | 1, _, _ => decide

theorem dist_hyps :
    LatticeProg pDist ∧ validOrder pDist [[0]] = true ∧ latPlanOk Plan.exV pDist (ixSetsOf Plan.exV pDist) = true ∧
    (∀ r ∈ pDist.rules, Hir.Desugared Plan.exV r = true ∧ Plan.WellScoped Plan.exV r = true) ∧
    ixOf pDist (ixSetsOf Plan.exV pDist) 1 = [[0]] ∧ ixOf pDist (ixSetsOf Plan.exV pDist) 0 = [[0]] ∧
    (Hir.compileRule Plan.exV (pDist.rules.getD 0 ⟨[], []⟩)).simpleJoinStart = some 0 ∧
    (run exL Plan.exV pDist (ixSetsOf Plan.exV pDist) [[0]] 10 (initSt pDist inpDist)).map
        (fun o => (o.st.map (·.rows), o.iters)) =
      some ([[[.int 1, .int 2, .int 3], [.int 2, .int 3, .int 4], [.int 1, .int 3, .int 5]],
             [[.int 1, .int 0], [.int 2, .int 3], [.int 3, .int 7]]], [3]) :=
  ⟨⟨by decide, by decide, by decide, by decide⟩, by decide, by decide, by decide, by decide, by decide, by decide, by decide⟩

/-- the theorem applies to the example: whatever the run returns has one row per key and is closed -/
example (L : LatOrder exL) (out : ProgSt)
    (h : run exL Plan.exV pDist (ixSetsOf Plan.exV pDist) [[0]] 10 (initSt pDist inpDist) = some out) :
    ((xrel out.st 1).rows.map keyOf).Nodup ∧ LClosed exL L pDist (inputDB pDist inpDist) (factsOf out.st) :=
  have hs := runPhysLat_spec exL L exL_ext Plan.exV exL_supp pDist _ [[0]] inpDist 10 out dist_hyps.1 dist_hyps.2.1
    inpDist_ok dist_hyps.2.2.1 dist_hyps.2.2.2.1 h
  ⟨hs.1 1 (by decide) rfl, hs.2.1⟩

/-! ## axiom audit -/
#print axioms runPhysLat_spec
#print axioms dist_hyps

end AscentVerif.PhysLat
