import AscentVerif.Props.C06
import AscentVerif.Props.C13Phys
import AscentVerif.Props.C13PhysPar
/-!
# C06 at the level of the physical indices: the result does not depend on the order of rules, head clauses and input rows

`Props/C06.lean` proves the invariance of the least model (`Derivable`) under reordering and consistent renaming, and transfers
it to the abstract engine.  This file transfers it to the models of the GENERATED code over its hash indices — serial `ascent!`
(`Phys.run`) and `ascent_par!` (`PhysPar.run`) — through the least-model theorems `runPhys_compiled_eq_leastModel` /
`runPhysPar_eq_leastModel`.  The two runs compared use their OWN compiled plans and index sets (`ixSetsOf V p`, `ixSetsOf V p'`:
permuting rules permutes the index sets the compiler allocates), their own valid SCC orders and fuels, in the parallel case their
own schedules and pool sizes, and start from program values whose stored indices are arbitrary.

* `runPhys_eq_of_derivable_iff`, `runPhysPar_eq_of_derivable_iff` — generic transfer: two programs (of the fragment) with the same
  least model compute the same facts;
* `runPhys_perm_invariant`, `runPhysPar_perm_invariant` — the rules of `p'` are a permutation of the rules of `p` (same
  declarations), the row vectors of `s'` are permutations of those of `s`: the same facts.  The hypothesis bundle (`Ctx` / `CtxPar`)
  is assumed for `p` only: it is DERIVED for `p'` (`Ctx.perm`, `CtxPar.perm`), except for the validity of the SCC order of `p'`
  (rule indices change under the permutation), and so is the well-formedness of `s'` from that of `s`;
* `runPhys_perm_heads_invariant`, `runPhysPar_perm_heads_invariant` — additionally the head clauses inside rules are permuted
  (and rules may be duplicated): `RulesEquiv`, which `Perm` (`RulesEquiv.of_perm`) and the index-wise hypothesis of
  `derivable_perm_heads` (`RulesEquiv.of_heads`) imply.  Here the bundle is assumed for both programs;
* `runPhys_rename_rels`, `runPhysPar_rename_rels` — the relation identifiers are consistently renamed by a bijection `π` of the
  declared identifiers (`derivable_rename_rels`): the facts of the renamed run are the renamed facts.  Bundle assumed for both.
-/
namespace AscentVerif.Phys
open AscentVerif AscentVerif.Engine AscentVerif.Index

variable {E B G P A : Type}

/-! ## the least model under reordering rules and head clauses -/

/-- the same rule up to the order of its head clauses -/
def HeadPerm (r r' : Rule E B G P A) : Prop := r.body = r'.body ∧ r.heads.Perm r'.heads

theorem HeadPerm.refl (r : Rule E B G P A) : HeadPerm r r := ⟨rfl, List.Perm.refl _⟩
theorem HeadPerm.symm {r r' : Rule E B G P A} (h : HeadPerm r r') : HeadPerm r' r := ⟨h.1.symm, h.2.symm⟩

/-- the same rules up to their order, repetitions, and the order of the head clauses inside them -/
def RulesEquiv (rs rs' : List (Rule E B G P A)) : Prop :=
  (∀ r ∈ rs, ∃ r' ∈ rs', HeadPerm r r') ∧ (∀ r' ∈ rs', ∃ r ∈ rs, HeadPerm r r')

theorem RulesEquiv.symm {rs rs' : List (Rule E B G P A)} (h : RulesEquiv rs rs') : RulesEquiv rs' rs :=
  ⟨fun r' hr' => (h.2 r' hr').imp fun _ hr => ⟨hr.1, hr.2.symm⟩, fun r hr => (h.1 r hr).imp fun _ hr' => ⟨hr'.1, hr'.2.symm⟩⟩

/-- a permutation of the rule list -/
theorem RulesEquiv.of_perm {rs rs' : List (Rule E B G P A)} (h : rs.Perm rs') : RulesEquiv rs rs' :=
  ⟨fun r hr => ⟨r, h.mem_iff.mp hr, HeadPerm.refl r⟩, fun r hr => ⟨r, h.mem_iff.mpr hr, HeadPerm.refl r⟩⟩

/-- permuting head clauses inside rules (the hypothesis of `derivable_perm_heads`) -/
theorem RulesEquiv.of_heads {rs rs' : List (Rule E B G P A)} (hlen : rs.length = rs'.length)
    (h : ∀ i (hi : i < rs.length) (hi' : i < rs'.length), rs[i].body = rs'[i].body ∧ rs[i].heads.Perm rs'[i].heads) :
    RulesEquiv rs rs' := by
  refine ⟨fun r hr => ?_, fun r' hr' => ?_⟩
  · obtain ⟨i, hi, rfl⟩ := List.getElem_of_mem hr
    exact ⟨rs'[i]'(hlen ▸ hi), List.getElem_mem _, h i hi (hlen ▸ hi)⟩
  · obtain ⟨i, hi', rfl⟩ := List.getElem_of_mem hr'
    exact ⟨rs[i]'(hlen ▸ hi'), List.getElem_mem _, h i (hlen ▸ hi') hi'⟩

theorem RulesEquiv.trans {rs₁ rs₂ rs₃ : List (Rule E B G P A)} (h : RulesEquiv rs₁ rs₂) (h' : RulesEquiv rs₂ rs₃) :
    RulesEquiv rs₁ rs₃ := by
  refine ⟨fun r hr => ?_, fun r hr => ?_⟩
  · obtain ⟨r₂, hr₂, hb, hp⟩ := h.1 r hr
    obtain ⟨r₃, hr₃, hb', hp'⟩ := h'.1 r₂ hr₂
    exact ⟨r₃, hr₃, hb.trans hb', hp.trans hp'⟩
  · obtain ⟨r₂, hr₂, hb', hp'⟩ := h'.2 r hr
    obtain ⟨r₁, hr₁, hb, hp⟩ := h.2 r₂ hr₂
    exact ⟨r₁, hr₁, hb.trans hb', hp.trans hp'⟩

private theorem cons_rulesEquiv {I : Interp E B G P A} {rs rs' : List (Rule E B G P A)} {agg : RelId → List Tuple}
    (h : ∀ r ∈ rs, ∃ r' ∈ rs', HeadPerm r r') : ∀ D f, Cons I rs agg D f → Cons I rs' agg D f := by
  rintro D g ⟨r, hr, ρ, hs, hd, hhd, rfl⟩
  obtain ⟨r', hr', hb, hp⟩ := h r hr
  exact ⟨r', hr', ρ, hb ▸ hs, hd, hp.mem_iff.mp hhd, rfl⟩

/-- the least model does not depend on the order (and repetition) of the rules and of the head clauses inside them:
`derivable_perm_rules` and `derivable_perm_heads` in one statement -/
theorem derivable_rulesEquiv (I : Interp E B G P A) (rs rs' : List (Rule E B G P A)) (agg : RelId → List Tuple) (inp : DB)
    (h : RulesEquiv rs rs') : ∀ f, Derivable I rs agg inp f ↔ Derivable I rs' agg inp f :=
  fun f => ⟨derivable_of_cons_imp (cons_rulesEquiv h.1) f,
    derivable_of_cons_imp (cons_rulesEquiv fun r hr => (h.2 r hr).imp fun _ hr' => ⟨hr'.1, hr'.2.symm⟩) f⟩

/-! ## the hypothesis bundle is invariant under permuting the rule list -/

theorem relational_perm {p p' : Program E B G P A} (hrels : p'.rels = p.rels) (hrules : p'.rules.Perm p.rules)
    (hp : Relational p) : Relational p' := by
  obtain ⟨h1, h2, h3⟩ := hp
  refine ⟨fun r hr => h1 r (hrules.mem_iff.mp hr), fun d hd => h2 d (hrels ▸ hd), fun r hr hd hhd => ?_⟩
  rw [hrels]; exact h3 r (hrules.mem_iff.mp hr) hd hhd

theorem arityOk_perm {p p' : Program E B G P A} (hrels : p'.rels = p.rels) (hrules : p'.rules.Perm p.rules)
    (ha : arityOk p = true) : arityOk p' = true := by
  obtain ⟨rels, rules⟩ := p
  obtain ⟨rels', rules'⟩ := p'
  simp only at hrels hrules
  subst hrels
  unfold arityOk at ha ⊢
  rw [List.all_eq_true] at ha ⊢
  intro r hr
  exact ha r (hrules.mem_iff.mp hr)

/-- **`Ctx` is derived for the permuted program**; only the validity of ITS SCC order is a separate hypothesis -/
theorem Ctx.perm {I : Interp E B G P A} {V : Hir.VarsOf E B} {p p' : Program E B G P A} {order order' : SccOrder}
    (c : Ctx I V p order) (hrels : p'.rels = p.rels) (hrules : p'.rules.Perm p.rules)
    (ho' : validOrder p' order' = true) : Ctx I V p' order' :=
  ⟨c.ext, c.supp, relational_perm hrels hrules c.rel, ho', arityOk_perm hrels hrules c.arity,
    fun r hr => c.rules r (hrules.mem_iff.mp hr)⟩

theorem arityOf_rels {p p' : Program E B G P A} (hrels : p'.rels = p.rels) (r : RelId) : arityOf p' r = arityOf p r := by
  unfold arityOf declOf
  rw [hrels]

/-- a value whose row vectors are permutations of those of a well-formed value (one entry per relation) is well-formed -/
theorem wfPSt_perm {p p' : Program E B G P A} (hrels : p'.rels = p.rels) {s s' : PSt} (hs : WFPSt p s)
    (hlen : s'.length = s.length) (hrows : ∀ r, (prel s' r).rows.Perm (prel s r).rows) : WFPSt p' s' :=
  ⟨by rw [hlen, hs.1, hrels], fun r t ht => by rw [arityOf_rels hrels]; exact hs.2 r t ((hrows r).mem_iff.mp ht)⟩

/-- the start databases of two well-formed values with permuted row vectors are the same -/
theorem stDB_perm {p p' : Program E B G P A} {s s' : PSt} (hs : WFPSt p s) (hs' : WFPSt p' s')
    (hrows : ∀ r, (prel s' r).rows.Perm (prel s r).rows) : ∀ g, stDB p' s' g ↔ stDB p s g := by
  intro g
  have hiff : factsOf s' g ↔ factsOf s g := (hrows g.rel).mem_iff
  exact ⟨fun h => ⟨facts_lt hs (hiff.mp h.2), hiff.mp h.2⟩, fun h => ⟨facts_lt hs' (hiff.mpr h.2), hiff.mpr h.2⟩⟩

/-! ## serial `ascent!` -/

/-- **generic transfer**: two programs of the fragment (possibly under different interpretations) whose least models over their
start values coincide compute the same facts over their physical indices -/
theorem runPhys_eq_of_derivable_iff (I I' : Interp E B G P A) (V V' : Hir.VarsOf E B) (p p' : Program E B G P A)
    (order order' : SccOrder) (c : Ctx I V p order) (c' : Ctx I' V' p' order')
    (s s' : PSt) (hs : WFPSt p s) (hs' : WFPSt p' s') (fuel fuel' : Nat) (o o' : ProgSt)
    (h : run I V p (ixSetsOf V p) order fuel s = some o)
    (h' : run I' V' p' (ixSetsOf V' p') order' fuel' s' = some o')
    (hd : ∀ f, Derivable I' p'.rules noAgg (stDB p' s') f ↔ Derivable I p.rules noAgg (stDB p s) f) :
    ∀ f, factsOf o'.st f ↔ factsOf o.st f := by
  intro f
  rw [(runPhys_compiled_eq_leastModel I c.ext V c.supp p order s fuel o c.rel c.order c.arity c.rules hs h).2.1 f,
    (runPhys_compiled_eq_leastModel I' c'.ext V' c'.supp p' order' s' fuel' o' c'.rel c'.order c'.arity c'.rules hs' h').2.1 f]
  exact hd f

/-- **rules and head clauses reordered, input rows shuffled**: the same facts (bundle assumed for both programs) -/
theorem runPhys_perm_heads_invariant (I : Interp E B G P A) (V : Hir.VarsOf E B) (p p' : Program E B G P A)
    (order order' : SccOrder) (c : Ctx I V p order) (c' : Ctx I V p' order')
    (hrules : RulesEquiv p'.rules p.rules)
    (s s' : PSt) (hs : WFPSt p s) (hs' : WFPSt p' s') (hrows : ∀ r, (prel s' r).rows.Perm (prel s r).rows)
    (fuel fuel' : Nat) (o o' : ProgSt)
    (h : run I V p (ixSetsOf V p) order fuel s = some o)
    (h' : run I V p' (ixSetsOf V p') order' fuel' s' = some o') :
    ∀ f, factsOf o'.st f ↔ factsOf o.st f := by
  refine runPhys_eq_of_derivable_iff I I V V p p' order order' c c' s s' hs hs' fuel fuel' o o' h h' fun f => ?_
  rw [derivable_rulesEquiv I p'.rules p.rules noAgg _ hrules f]
  exact derivable_input_ext I p.rules noAgg _ _ (stDB_perm hs hs' hrows) f

/-- **the result does not depend on the order of the rules and of the input rows**: `p'` declares the relations of `p` and its
rules are a permutation of those of `p`; every row vector of `s'` is a permutation of the one of `s`; the runs use their own
compiled plans, valid SCC orders and fuels.  Then they compute the same facts. -/
theorem runPhys_perm_invariant (I : Interp E B G P A) (V : Hir.VarsOf E B) (p p' : Program E B G P A)
    (order order' : SccOrder) (c : Ctx I V p order)
    (hrels : p'.rels = p.rels) (hrules : p'.rules.Perm p.rules) (ho' : validOrder p' order' = true)
    (s s' : PSt) (hs : WFPSt p s) (hlen : s'.length = s.length) (hrows : ∀ r, (prel s' r).rows.Perm (prel s r).rows)
    (fuel fuel' : Nat) (o o' : ProgSt)
    (h : run I V p (ixSetsOf V p) order fuel s = some o)
    (h' : run I V p' (ixSetsOf V p') order' fuel' s' = some o') :
    ∀ f, factsOf o'.st f ↔ factsOf o.st f :=
  runPhys_perm_heads_invariant I V p p' order order' c (c.perm hrels hrules ho') (RulesEquiv.of_perm hrules) s s' hs
    (wfPSt_perm hrels hs hlen hrows) hrows fuel fuel' o o' h h'

/-- **consistent renaming of the relations**: `π` maps the declared identifiers of `p` one-to-one onto those of `p'`, the rules
of `p'` are the rules of `p` with every relation renamed, the rows of `π r` in `s'` are (a permutation of) the rows of `r` in `s`.
Then the facts of the renamed run are exactly the renamed facts. -/
theorem runPhys_rename_rels (I : Interp E B G P A) (V : Hir.VarsOf E B) (p p' : Program E B G P A)
    (order order' : SccOrder) (c : Ctx I V p order) (c' : Ctx I V p' order')
    (π : RelId → RelId) (hπ : Function.Injective π)
    (hrules : p'.rules = p.rules.map (Rule.mapRel π))
    (hmap : ∀ r, r < p.rels.length → π r < p'.rels.length)
    (hsurj : ∀ r', r' < p'.rels.length → ∃ r, r < p.rels.length ∧ π r = r')
    (s s' : PSt) (hs : WFPSt p s) (hs' : WFPSt p' s')
    (hrows : ∀ r, r < p.rels.length → (prel s' (π r)).rows.Perm (prel s r).rows)
    (fuel fuel' : Nat) (o o' : ProgSt)
    (h : run I V p (ixSetsOf V p) order fuel s = some o)
    (h' : run I V p' (ixSetsOf V p') order' fuel' s' = some o') :
    ∀ f, factsOf o'.st (Fact.mapRel π f) ↔ factsOf o.st f := by
  intro f
  rw [(runPhys_compiled_eq_leastModel I c.ext V c.supp p order s fuel o c.rel c.order c.arity c.rules hs h).2.1 f,
    (runPhys_compiled_eq_leastModel I c'.ext V c'.supp p' order' s' fuel' o' c'.rel c'.order c'.arity c'.rules hs' h').2.1 _,
    derivable_rename_rels I p.rules _ π hπ c.rel.1 f, hrules]
  apply derivable_input_ext
  intro g
  constructor
  · rintro ⟨hr, hg⟩
    obtain ⟨r, hr0, hpr⟩ := hsurj g.rel hr
    have hg' : g.args ∈ (prel s' (π r)).rows := by rw [hpr]; exact hg
    refine ⟨⟨r, g.args⟩, ⟨hr0, (hrows r hr0).mem_iff.mp hg'⟩, ?_⟩
    cases g
    simp only [Fact.mapRel] at hpr ⊢
    rw [hpr]
  · rintro ⟨f', ⟨hr, hf'⟩, rfl⟩
    exact ⟨hmap f'.rel hr, (hrows f'.rel hr).mem_iff.mpr hf'⟩

/-! ### non-vacuity: transitive closure (`pTC`, `sTC`, `tc_ctx`) with the rules swapped and the `edge` rows reversed; with the
relations swapped -/

/-- the recursive rule first -/
def pTCrev : Program Plan.Ex Plan.Bx Plan.Ex Unit Unit := { rels := pTC.rels, rules := pTC.rules.reverse }

def sTCrev : PSt := initSt pTCrev fun r => if r = 0 then [[.int 2, .int 3], [.int 1, .int 2]] else []

theorem sTCrev_rows : ∀ r, (prel sTCrev r).rows.Perm (prel sTC r).rows := by
  intro r
  match r with
  | 0 => exact List.reverse_perm [[Val.int 1, .int 2], [.int 2, .int 3]]
  | 1 => exact List.Perm.refl _
  | r + 2 =>
    rw [prel_of_ge sTCrev (r + 2) (Nat.le_add_left 2 r : 2 ≤ r + 2), prel_of_ge sTC (r + 2) (Nat.le_add_left 2 r : 2 ≤ r + 2)]

/-- every hypothesis of `runPhys_perm_invariant` holds: rule 1 of `pTCrev` (the base rule) is the first SCC -/
example (fuel fuel' : Nat) (o o' : ProgSt)
    (h : run Plan.exI Plan.exV pTC (ixSetsOf Plan.exV pTC) [[0], [1]] fuel sTC = some o)
    (h' : run Plan.exI Plan.exV pTCrev (ixSetsOf Plan.exV pTCrev) [[1], [0]] fuel' sTCrev = some o') :
    ∀ f, factsOf o'.st f ↔ factsOf o.st f :=
  runPhys_perm_invariant Plan.exI Plan.exV pTC pTCrev _ _ tc_ctx rfl (List.reverse_perm _) (by decide) sTC sTCrev wf_sTC
    (by decide) sTCrev_rows fuel fuel' o o' h h'

/-- both runs return; the row vectors differ in their order (and so do the compiled plans), the facts do not -/
theorem tcRev_runs :
    (run Plan.exI Plan.exV pTC (ixSetsOf Plan.exV pTC) [[0], [1]] 10 sTC).map (fun o => o.st.map (·.rows)) =
      some [[[.int 1, .int 2], [.int 2, .int 3]], [[.int 1, .int 2], [.int 2, .int 3], [.int 1, .int 3]]] ∧
    (run Plan.exI Plan.exV pTCrev (ixSetsOf Plan.exV pTCrev) [[1], [0]] 10 sTCrev).map (fun o => o.st.map (·.rows)) =
      some [[[.int 2, .int 3], [.int 1, .int 2]], [[.int 2, .int 3], [.int 1, .int 2], [.int 1, .int 3]]] :=
  ⟨by decide, by decide⟩

/-- a rule with two head clauses: `path(x, y), rev(y, x) <-- edge(x, y)` -/
def pHeads : Program Plan.Ex Plan.Bx Plan.Ex Unit Unit :=
  { rels := [⟨2, false⟩, ⟨2, false⟩, ⟨2, false⟩]
    rules := [{ heads := [⟨1, [.var 0, .var 1]⟩, ⟨2, [.var 1, .var 0]⟩], body := [.clause 0 [.var 0, .var 1] []] }] }

/-- … and with the head clauses in the other order: `rev(y, x), path(x, y) <-- edge(x, y)` -/
def pHeads' : Program Plan.Ex Plan.Bx Plan.Ex Unit Unit :=
  { rels := [⟨2, false⟩, ⟨2, false⟩, ⟨2, false⟩]
    rules := [{ heads := [⟨2, [.var 1, .var 0]⟩, ⟨1, [.var 0, .var 1]⟩], body := [.clause 0 [.var 0, .var 1] []] }] }

def sHeads : PSt := initSt pHeads fun r => if r = 0 then [[.int 1, .int 2], [.int 2, .int 3]] else []

theorem wf_sHeads : WFPSt pHeads sHeads ∧ WFPSt pHeads' sHeads := by
  have hty : ∀ r, ∀ t ∈ (prel sHeads r).rows, t.length = 2 := by
    intro r t ht
    match r, ht with
    | 0, ht =>
      have : t ∈ [[Val.int 1, .int 2], [.int 2, .int 3]] := ht
      simp only [List.mem_cons, List.not_mem_nil, or_false] at this
      rcases this with rfl | rfl <;> rfl
    | 1, ht => cases ht
    | 2, ht => cases ht
    | r + 3, ht => cases ht
  have har : ∀ r, (r < 3 → arityOf pHeads r = 2 ∧ arityOf pHeads' r = 2) := by
    intro r hr
    match r, hr with
    | 0, _ => exact ⟨rfl, rfl⟩
    | 1, _ => exact ⟨rfl, rfl⟩
    | 2, _ => exact ⟨rfl, rfl⟩
  have hlt : ∀ r, ∀ t ∈ (prel sHeads r).rows, r < 3 := by
    intro r t ht
    rcases Nat.lt_or_ge r 3 with h | h
    · exact h
    · rw [prel_of_ge sHeads r h] at ht; cases ht
  exact ⟨⟨by decide, fun r t ht => by rw [(har r (hlt r t ht)).1]; exact hty r t ht⟩,
    ⟨by decide, fun r t ht => by rw [(har r (hlt r t ht)).2]; exact hty r t ht⟩⟩

theorem heads_ctx : Ctx Plan.exI Plan.exV pHeads [[0]] ∧ Ctx Plan.exI Plan.exV pHeads' [[0]] :=
  ⟨⟨Plan.exI_ext, Plan.exI_supp, ⟨by decide, by decide, by decide⟩, by decide, by decide, by decide⟩,
   ⟨Plan.exI_ext, Plan.exI_supp, ⟨by decide, by decide, by decide⟩, by decide, by decide, by decide⟩⟩

/-- every hypothesis of `runPhys_perm_heads_invariant` holds (the head clauses swapped: `RulesEquiv.of_heads`) -/
example (fuel fuel' : Nat) (o o' : ProgSt)
    (h : run Plan.exI Plan.exV pHeads (ixSetsOf Plan.exV pHeads) [[0]] fuel sHeads = some o)
    (h' : run Plan.exI Plan.exV pHeads' (ixSetsOf Plan.exV pHeads') [[0]] fuel' sHeads = some o') :
    ∀ f, factsOf o'.st f ↔ factsOf o.st f :=
  runPhys_perm_heads_invariant Plan.exI Plan.exV pHeads pHeads' _ _ heads_ctx.1 heads_ctx.2
    (RulesEquiv.of_heads rfl fun i hi _ => by
      have hi' : i < 1 := hi
      match i, hi' with
      | 0, _ => exact ⟨rfl, List.Perm.swap _ _ _⟩)
    sHeads sHeads wf_sHeads.1 wf_sHeads.2 (fun _ => List.Perm.refl _) fuel fuel' o o' h h'

/-- both runs return, with the same row vectors -/
theorem heads_runs :
    (run Plan.exI Plan.exV pHeads (ixSetsOf Plan.exV pHeads) [[0]] 10 sHeads).map (fun o => o.st.map (·.rows)) =
      some [[[.int 1, .int 2], [.int 2, .int 3]], [[.int 1, .int 2], [.int 2, .int 3]], [[.int 2, .int 1], [.int 3, .int 2]]] ∧
    (run Plan.exI Plan.exV pHeads' (ixSetsOf Plan.exV pHeads') [[0]] 10 sHeads).map (fun o => o.st.map (·.rows)) =
      some [[[.int 1, .int 2], [.int 2, .int 3]], [[.int 1, .int 2], [.int 2, .int 3]], [[.int 2, .int 1], [.int 3, .int 2]]] :=
  ⟨by decide, by decide⟩

/-- `path` is relation 0, `edge` relation 1 -/
def pTCswap : Program Plan.Ex Plan.Bx Plan.Ex Unit Unit :=
  { rels := [⟨2, false⟩, ⟨2, false⟩]
    rules := [{ heads := [⟨0, [.var 0, .var 1]⟩], body := [.clause 1 [.var 0, .var 1] []] },
              { heads := [⟨0, [.var 0, .var 2]⟩],
                body := [.clause 1 [.var 0, .var 1] [], .clause 0 [.var 1, .var 2] []] }] }

def sTCswap : PSt := initSt pTCswap fun r => if r = 1 then [[.int 1, .int 2], [.int 2, .int 3]] else []

def swap01 : Nat → Nat
  | 0 => 1
  | 1 => 0
  | r + 2 => r + 2

theorem swap01_injective : Function.Injective swap01 := by
  intro (a : Nat) (b : Nat) (h : swap01 a = swap01 b)
  show a = b
  match a, b, h with
  | 0, 0, _ => rfl
  | 0, 1, h => exact absurd (h : (1 : Nat) = 0) (by decide)
  | 0, b + 2, h => have : (1 : Nat) = b + 2 := h; omega
  | 1, 0, h => exact absurd (h : (0 : Nat) = 1) (by decide)
  | 1, 1, _ => rfl
  | 1, b + 2, h => have : (0 : Nat) = b + 2 := h; omega
  | a + 2, 0, h => have : (a + 2 : Nat) = 1 := h; omega
  | a + 2, 1, h => have : (a + 2 : Nat) = 0 := h; omega
  | a + 2, b + 2, h => exact h

theorem wf_sTCswap : WFPSt pTCswap sTCswap := by
  refine ⟨by decide, ?_⟩
  intro r t ht
  match r, ht with
  | 0, ht => cases ht
  | 1, ht =>
    have : t ∈ [[Val.int 1, .int 2], [.int 2, .int 3]] := ht
    simp only [List.mem_cons, List.not_mem_nil, or_false] at this
    rcases this with rfl | rfl <;> rfl
  | r + 2, ht => cases ht

theorem tcSwap_ctx : Ctx Plan.exI Plan.exV pTCswap [[0], [1]] :=
  ⟨Plan.exI_ext, Plan.exI_supp, ⟨by decide, by decide, by decide⟩, by decide, by decide, by decide⟩

/-- every hypothesis of `runPhys_rename_rels` holds -/
example (fuel fuel' : Nat) (o o' : ProgSt)
    (h : run Plan.exI Plan.exV pTC (ixSetsOf Plan.exV pTC) [[0], [1]] fuel sTC = some o)
    (h' : run Plan.exI Plan.exV pTCswap (ixSetsOf Plan.exV pTCswap) [[0], [1]] fuel' sTCswap = some o') :
    ∀ f, factsOf o'.st (Fact.mapRel swap01 f) ↔ factsOf o.st f :=
  runPhys_rename_rels Plan.exI Plan.exV pTC pTCswap _ _ tc_ctx tcSwap_ctx swap01 swap01_injective rfl
    (fun r hr => by
      have hr' : r < 2 := hr
      match r, hr' with
      | 0, _ => decide
      | 1, _ => decide)
    (fun r' hr' => by
      have hr'' : r' < 2 := hr'
      match r', hr'' with
      | 0, _ => exact ⟨1, by decide, rfl⟩
      | 1, _ => exact ⟨0, by decide, rfl⟩)
    sTC sTCswap wf_sTC wf_sTCswap
    (fun r hr => by
      have hr' : r < 2 := hr
      match r, hr' with
      | 0, _ => exact List.Perm.refl _
      | 1, _ => exact List.Perm.refl _)
    fuel fuel' o o' h h'

/-! ### axiom audit -/
#print axioms derivable_rulesEquiv
#print axioms Ctx.perm
#print axioms runPhys_eq_of_derivable_iff
#print axioms runPhys_perm_heads_invariant
#print axioms runPhys_perm_invariant
#print axioms runPhys_rename_rels
#print axioms tcRev_runs
#print axioms tcSwap_ctx
#print axioms heads_ctx
#print axioms heads_runs
#print axioms swap01_injective

end AscentVerif.Phys

/-! ## `ascent_par!`: two runs under their own schedules, in their own pools -/
namespace AscentVerif.PhysPar
open AscentVerif AscentVerif.Engine AscentVerif.Index AscentVerif.Phys

variable {E B G P A : Type}

theorem bodyDeclared_perm {p p' : Program E B G P A} (hrels : p'.rels = p.rels) (hrules : p'.rules.Perm p.rules)
    (hb : bodyDeclared p = true) : bodyDeclared p' = true := by
  unfold bodyDeclared at hb ⊢
  rw [List.all_eq_true] at hb ⊢
  intro r hr
  rw [hrels]
  exact hb r (hrules.mem_iff.mp hr)

/-- **`CtxPar` is derived for the permuted program**; only the validity of ITS SCC order is a separate hypothesis -/
theorem CtxPar.perm {I : Interp E B G P A} {V : Hir.VarsOf E B} {p p' : Program E B G P A} {order order' : SccOrder}
    (c : CtxPar I V p order) (hrels : p'.rels = p.rels) (hrules : p'.rules.Perm p.rules)
    (ho' : validOrder p' order' = true) : CtxPar I V p' order' :=
  ⟨c.ext, c.supp, relational_perm hrels hrules c.rel, ho', arityOk_perm hrels hrules c.arity,
    bodyDeclared_perm hrels hrules c.decl, fun r hr => c.rules r (hrules.mem_iff.mp hr)⟩

/-- the facts a returned run holds, for ANY state of the stored indices of the start value (`runPhysPar_eq_leastModel'`) -/
theorem runPhysPar_facts' (I : Interp E B G P A) (V : Hir.VarsOf E B) (p : Program E B G P A) (order : SccOrder)
    (c : CtxPar I V p order) (σ : Sched E B G P A) (threads fuel : Nat) (s : PCSt) (o : ProgSt)
    (hlen : s.length = p.rels.length) (hty : ∀ r, ∀ t ∈ (pcrel s r).rows, t.length = arityOf p r)
    (h : run I V p (ixSetsOf V p) order σ threads fuel s = .ok (some o)) :
    ∀ f, factsOf o.st f ↔ Derivable I p.rules noAgg (stDB p s) f := by
  obtain ⟨res, hres, hsp⟩ := runPhysPar_eq_leastModel' I c.ext V c.supp p order σ threads fuel s c.rel c.order c.arity c.decl
    c.rules hlen hty
  rw [h] at hres
  have hres' : res = some o := by
    injection hres with hres
    exact hres.symm
  exact (hsp o hres').2.1

/-- the start databases of two typed values with permuted row vectors are the same -/
theorem stDB_permPar {p p' : Program E B G P A} {s s' : PCSt} (hl : s.length = p.rels.length) (hl' : s'.length = p'.rels.length)
    (hrows : ∀ r, (pcrel s' r).rows.Perm (pcrel s r).rows) : ∀ g, stDB p' s' g ↔ stDB p s g := by
  intro g
  have hiff : factsOf s' g ↔ factsOf s g := (hrows g.rel).mem_iff
  exact ⟨fun h => ⟨facts_ltPar hl (hiff.mp h.2), hiff.mp h.2⟩, fun h => ⟨facts_ltPar hl' (hiff.mpr h.2), hiff.mpr h.2⟩⟩

/-- **generic transfer**: two programs of the fragment whose least models over their start values coincide compute the same
facts, whatever the schedules and pools -/
theorem runPhysPar_eq_of_derivable_iff (I I' : Interp E B G P A) (V V' : Hir.VarsOf E B) (p p' : Program E B G P A)
    (order order' : SccOrder) (c : CtxPar I V p order) (c' : CtxPar I' V' p' order')
    (σ σ' : Sched E B G P A) (threads threads' fuel fuel' : Nat)
    (s s' : PCSt) (hs : WFPCSt p s) (hs' : WFPCSt p' s') (o o' : ProgSt)
    (h : run I V p (ixSetsOf V p) order σ threads fuel s = .ok (some o))
    (h' : run I' V' p' (ixSetsOf V' p') order' σ' threads' fuel' s' = .ok (some o'))
    (hd : ∀ f, Derivable I' p'.rules noAgg (stDB p' s') f ↔ Derivable I p.rules noAgg (stDB p s) f) :
    ∀ f, factsOf o'.st f ↔ factsOf o.st f := by
  intro f
  rw [(runPhysPar_spec I V p order c σ threads fuel s o hs h).2.1 f,
    (runPhysPar_spec I' V' p' order' c' σ' threads' fuel' s' o' hs' h').2.1 f]
  exact hd f

/-- **rules and head clauses reordered, input rows shuffled, other schedule, other pool**: the same facts (bundle assumed for
both programs) -/
theorem runPhysPar_perm_heads_invariant (I : Interp E B G P A) (V : Hir.VarsOf E B) (p p' : Program E B G P A)
    (order order' : SccOrder) (c : CtxPar I V p order) (c' : CtxPar I V p' order')
    (hrules : RulesEquiv p'.rules p.rules)
    (σ σ' : Sched E B G P A) (threads threads' fuel fuel' : Nat)
    (s s' : PCSt) (hs : WFPCSt p s) (hs' : WFPCSt p' s') (hrows : ∀ r, (pcrel s' r).rows.Perm (pcrel s r).rows)
    (o o' : ProgSt)
    (h : run I V p (ixSetsOf V p) order σ threads fuel s = .ok (some o))
    (h' : run I V p' (ixSetsOf V p') order' σ' threads' fuel' s' = .ok (some o')) :
    ∀ f, factsOf o'.st f ↔ factsOf o.st f := by
  refine runPhysPar_eq_of_derivable_iff I I V V p p' order order' c c' σ σ' threads threads' fuel fuel' s s' hs hs' o o' h h'
    fun f => ?_
  rw [derivable_rulesEquiv I p'.rules p.rules noAgg _ hrules f]
  exact derivable_input_ext I p.rules noAgg _ _ (stDB_permPar hs.1 hs'.1 hrows) f

/-- **the result of `ascent_par!` does not depend on the order of the rules and of the input rows, nor on schedule and pool**:
`p'` declares the relations of `p` and its rules are a permutation of those of `p`; every row vector of `s'` is a permutation of
the one of `s` (the stored indices of `s'` may hold anything); the runs use their own compiled plans, valid SCC orders, schedules,
pool sizes and fuels.  Then they compute the same facts. -/
theorem runPhysPar_perm_invariant (I : Interp E B G P A) (V : Hir.VarsOf E B) (p p' : Program E B G P A)
    (order order' : SccOrder) (c : CtxPar I V p order)
    (hrels : p'.rels = p.rels) (hrules : p'.rules.Perm p.rules) (ho' : validOrder p' order' = true)
    (σ σ' : Sched E B G P A) (threads threads' fuel fuel' : Nat)
    (s s' : PCSt) (hs : WFPCSt p s) (hlen : s'.length = s.length) (hrows : ∀ r, (pcrel s' r).rows.Perm (pcrel s r).rows)
    (o o' : ProgSt)
    (h : run I V p (ixSetsOf V p) order σ threads fuel s = .ok (some o))
    (h' : run I V p' (ixSetsOf V p') order' σ' threads' fuel' s' = .ok (some o')) :
    ∀ f, factsOf o'.st f ↔ factsOf o.st f := by
  have hl' : s'.length = p'.rels.length := by rw [hlen, hs.1, hrels]
  have hty' : ∀ r, ∀ t ∈ (pcrel s' r).rows, t.length = arityOf p' r :=
    fun r t ht => by rw [arityOf_rels hrels]; exact hs.2.1 r t ((hrows r).mem_iff.mp ht)
  intro f
  rw [(runPhysPar_spec I V p order c σ threads fuel s o hs h).2.1 f,
    runPhysPar_facts' I V p' order' (c.perm hrels hrules ho') σ' threads' fuel' s' o' hl' hty' h' f,
    derivable_perm_rules I p'.rules p.rules noAgg _ hrules f]
  exact derivable_input_ext I p.rules noAgg _ _ (stDB_permPar hs.1 hl' hrows) f

/-- **consistent renaming of the relations** (see `Phys.runPhys_rename_rels`), under any schedules, in any pools -/
theorem runPhysPar_rename_rels (I : Interp E B G P A) (V : Hir.VarsOf E B) (p p' : Program E B G P A)
    (order order' : SccOrder) (c : CtxPar I V p order) (c' : CtxPar I V p' order')
    (π : RelId → RelId) (hπ : Function.Injective π)
    (hrules : p'.rules = p.rules.map (Rule.mapRel π))
    (hmap : ∀ r, r < p.rels.length → π r < p'.rels.length)
    (hsurj : ∀ r', r' < p'.rels.length → ∃ r, r < p.rels.length ∧ π r = r')
    (σ σ' : Sched E B G P A) (threads threads' fuel fuel' : Nat)
    (s s' : PCSt) (hs : WFPCSt p s) (hs' : WFPCSt p' s')
    (hrows : ∀ r, r < p.rels.length → (pcrel s' (π r)).rows.Perm (pcrel s r).rows)
    (o o' : ProgSt)
    (h : run I V p (ixSetsOf V p) order σ threads fuel s = .ok (some o))
    (h' : run I V p' (ixSetsOf V p') order' σ' threads' fuel' s' = .ok (some o')) :
    ∀ f, factsOf o'.st (Fact.mapRel π f) ↔ factsOf o.st f := by
  intro f
  rw [(runPhysPar_spec I V p order c σ threads fuel s o hs h).2.1 f,
    (runPhysPar_spec I V p' order' c' σ' threads' fuel' s' o' hs' h').2.1 _,
    derivable_rename_rels I p.rules _ π hπ c.rel.1 f, hrules]
  apply derivable_input_ext
  intro g
  constructor
  · rintro ⟨hr, hg⟩
    obtain ⟨r, hr0, hpr⟩ := hsurj g.rel hr
    have hg' : g.args ∈ (pcrel s' (π r)).rows := by rw [hpr]; exact hg
    refine ⟨⟨r, g.args⟩, ⟨hr0, (hrows r hr0).mem_iff.mp hg'⟩, ?_⟩
    cases g
    simp only [Fact.mapRel] at hpr ⊢
    rw [hpr]
  · rintro ⟨f', ⟨hr, hf'⟩, rfl⟩
    exact ⟨hmap f'.rel hr, (hrows f'.rel hr).mem_iff.mpr hf'⟩

/-! ### non-vacuity: transitive closure (`pTC`, `sTCpar`, `σTC`, `tc_ctxPar`) against the program with the rules swapped, the
`edge` rows reversed, in a pool of another size under another schedule -/

def sTCparRev : PCSt :=
  initSt 4 pTCrev (ixSetsOf Plan.exV pTCrev) fun r => if r = 0 then [[.int 2, .int 3], [.int 1, .int 2]] else []

theorem sTCparRev_rows : ∀ r, (pcrel sTCparRev r).rows.Perm (pcrel sTCpar r).rows := by
  intro r
  match r with
  | 0 => exact List.reverse_perm [[Val.int 1, .int 2], [.int 2, .int 3]]
  | 1 => exact List.Perm.refl _
  | r + 2 =>
    rw [pcrel_of_ge sTCparRev (r + 2) (Nat.le_add_left 2 r : 2 ≤ r + 2),
      pcrel_of_ge sTCpar (r + 2) (Nat.le_add_left 2 r : 2 ≤ r + 2)]

/-- every hypothesis of `runPhysPar_perm_invariant` holds, for ALL schedules, pool sizes and fuels of the two runs -/
example (σ σ' : Sched Plan.Ex Plan.Bx Plan.Ex Unit Unit) (threads threads' fuel fuel' : Nat) (o o' : ProgSt)
    (h : run Plan.exI Plan.exV pTC (ixSetsOf Plan.exV pTC) [[0], [1]] σ threads fuel sTCpar = .ok (some o))
    (h' : run Plan.exI Plan.exV pTCrev (ixSetsOf Plan.exV pTCrev) [[1], [0]] σ' threads' fuel' sTCparRev = .ok (some o')) :
    ∀ f, factsOf o'.st f ↔ factsOf o.st f :=
  runPhysPar_perm_invariant Plan.exI Plan.exV pTC pTCrev _ _ tc_ctxPar rfl (List.reverse_perm _) (by decide) σ σ' threads
    threads' fuel fuel' sTCpar sTCparRev wf_sTCpar (by decide) sTCparRev_rows o o' h h'

/-- the other schedule: rows and head updates in the given order, the `n`-th insert to worker `n % 2`, never the swapped join -/
def σId : Sched Plan.Ex Plan.Bx Plan.Ex Unit Unit :=
  { permRows := fun _ l => l, permRows_perm := fun _ l => List.Perm.refl l
    permTasks := fun _ l => l, permTasks_perm := fun _ l => List.Perm.refl l
    tid := fun n => n % 2, swap := fun _ => false }

/-- both runs return (3 workers under `σTC`; 2 workers under `σId`): different row orders, the same facts -/
theorem tcParRev_runs :
    obs (run Plan.exI Plan.exV pTC (ixSetsOf Plan.exV pTC) [[0], [1]] σTC 3 10 sTCpar) =
      .ok (some ([[[.int 1, .int 2], [.int 2, .int 3]], [[.int 1, .int 2], [.int 2, .int 3], [.int 1, .int 3]]], [1, 2])) ∧
    obs (run Plan.exI Plan.exV pTCrev (ixSetsOf Plan.exV pTCrev) [[1], [0]] σId 2 10 sTCparRev) =
      .ok (some ([[[.int 2, .int 3], [.int 1, .int 2]], [[.int 2, .int 3], [.int 1, .int 2], [.int 1, .int 3]]], [1, 2])) :=
  ⟨by decide, by decide⟩

/-! ### axiom audit -/
#print axioms CtxPar.perm
#print axioms runPhysPar_eq_of_derivable_iff
#print axioms runPhysPar_perm_heads_invariant
#print axioms runPhysPar_perm_invariant
#print axioms runPhysPar_rename_rels
#print axioms tcParRev_runs

end AscentVerif.PhysPar
