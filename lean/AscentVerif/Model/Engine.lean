import AscentVerif.Model.Syntax
/-!
# Model of the generated evaluation code (`ascent_mir.rs` + `ascent_codegen.rs`)

What `run()` / `run_timeout()` of a compiled Ascent program does, at the level of MIR:

* `update_indices`: the indices of every relation are rebuilt from its rows (since fix 8b2e261;
  before it every row was re-inserted on top of the entries left by an earlier call);
* the rules are grouped into SCCs processed in a topological order; inside an SCC the head
  relations are *dynamic*: their index contents are split into `total` / `delta` / `new`;
* every rule is compiled into one variant per `versions_base` vector
  (`Total^k, Delta, TotalDelta^(n-k-1)` over its `n` dynamic clauses);
* a looping SCC repeats { evaluate all variants; `total += delta; delta := new; new := ∅` }
  until an iteration changes nothing; a non-looping SCC evaluates once and shifts twice;
* head update: a tuple is appended iff it is in none of total / delta / new; a lattice head
  joins into the key's row in place and re-queues the row in `new` iff the join changed it;
* `run_timeout` may return after any iteration *without* storing the local indices back.

Index contents are bags of row numbers (a `Vec`-backed index holds one entry per insertion;
the `HashSet`-backed lattice indices are read through `eraseDups`).  A lookup
is a filter over the version's entries — the hash maps themselves are the subject of C19.
Enumeration order follows list order; every theorem is about sets (or, for aggregation, bags
up to permutation), so it covers every hash order.  Core Lean only; executable.
-/
namespace AscentVerif.Engine
open AscentVerif

variable {E B G P A : Type}

inductive Ver where
  | total
  | delta
  | totalDelta
deriving DecidableEq, Repr

/-- one relation of a program value: the public row vector and the index contents stored in
the struct between SCCs and between runs (row numbers, with multiplicity) -/
structure RelSt where
  rows : List Tuple
  idx : List Nat
deriving Repr, DecidableEq

abbrev St := List RelSt

/-- the dynamic part of one head relation inside an SCC -/
structure Dyn where
  rel : RelId
  total : List Nat
  delta : List Nat
  new : List Nat
deriving Repr

structure SccSt where
  rels : St
  dyn : List Dyn
  changed : Bool
deriving Repr

structure Config where
  /-- `ascent_par!` (affects the bookkeeping of the parallel lattice head update; since fix 058163a the non-key
  lattice indices are set-valued in both modes: `LatticeIndexType` / `CLatIndex`) -/
  parallel : Bool := false
deriving Repr

def relSt (s : St) (r : RelId) : RelSt := s.getD r ⟨[], []⟩
def rowAt (rows : List Tuple) (i : Nat) : Tuple := rows.getD i []
def setNth (l : List α) (i : Nat) (x : α) : List α :=
  match l, i with
  | [], _ => []
  | _ :: xs, 0 => x :: xs
  | y :: xs, i + 1 => y :: setNth xs i x

def declOf (p : Program E B G P A) (r : RelId) : RelDecl := p.rels.getD r ⟨0, false⟩

/-- index entries of a lattice are kept in `HashSet`s (serial `LatticeIndexType`; parallel `CLatIndex` since fix 058163a,
before it `Vec`-backed `CRelIndex` / `CRelNoIndex`: finding F5) -/
def setLike (_cfg : Config) (d : RelDecl) : Bool := d.lat

def readBag (cfg : Config) (d : RelDecl) (bag : List Nat) : List Nat :=
  if setLike cfg d then bag.eraseDups else bag

/-! ## `update_indices` -/

/-- every index of the relation is reset and every row number inserted: the indices are rebuilt
from the rows, whatever an earlier call left in them -/
def updateIndices (s : St) : St :=
  s.map fun rs => { rs with idx := List.range rs.rows.length }

/-! ## SCCs: the rule dependency graph and a valid processing order -/

/-- `get_hir_dep_graph`: rule `i` feeds rule `j` when a head relation of `i` occurs in `j`'s body -/
def feeds (p : Program E B G P A) (i j : Nat) : Bool :=
  match p.rules[i]?, p.rules[j]? with
  | some ri, some rj => ri.headRels.any fun h => rj.bodyRels.contains h
  | _, _ => false

/-- the rules reachable from the visited set, breadth first (fuel = number of rules suffices) -/
def reachFrom (p : Program E B G P A) : Nat → List Nat → List Nat
  | 0, vis => vis
  | fuel + 1, vis =>
    let nxt := (List.range p.rules.length).filter fun j => !vis.contains j && vis.any fun k => feeds p k j
    if nxt.isEmpty then vis else reachFrom p fuel (vis ++ nxt)

def reaches (p : Program E B G P A) (fuel i j : Nat) : Bool := (reachFrom p fuel [i]).contains j

def sameScc (p : Program E B G P A) (i j : Nat) : Bool :=
  reaches p p.rules.length i j && reaches p p.rules.length j i

/-- an SCC order is a list of lists of rule numbers -/
abbrev SccOrder := List (List Nat)

/-- what the engine needs from the order (petgraph's condensation is validated against this,
not modelled): a partition of the rules into strongly connected classes such that every
dependency edge goes forward or stays inside a class -/
def validOrder (p : Program E B G P A) (o : SccOrder) : Bool :=
  let flat := o.flatten
  let n := p.rules.length
  flat.length == n && (List.range n).all (fun i => flat.contains i) &&
  (List.range o.length).all (fun a => (List.range o.length).all fun b =>
    (o.getD a []).all fun i => (o.getD b []).all fun j =>
      (if a == b then sameScc p i j else !sameScc p i j) && (if feeds p i j then a ≤ b else true))

/-- a valid order computed by the model itself: classes by mutual reachability, emitted when
all their predecessors are emitted (smallest rule number first) -/
def computeOrder (p : Program E B G P A) : SccOrder :=
  let n := p.rules.length
  let classOf (i : Nat) : List Nat := (List.range n).filter fun j => sameScc p i j
  let step (acc : SccOrder × List Nat) (_ : Nat) : SccOrder × List Nat :=
    let (out, done) := acc
    let ready := (List.range n).filter fun i =>
      !done.contains i && (classOf i).all fun m => (List.range n).all fun k => !feeds p k m || done.contains k || sameScc p k m
    match ready.head? with
    | none => acc
    | some i => let c := classOf i; (out ++ [c], done ++ c)
  ((List.range n).foldl step ([], [])).1

/-! ## MIR: dynamic relations, variants -/

def sccRules (p : Program E B G P A) (scc : List Nat) : List (Rule E B G P A) := scc.filterMap fun i => p.rules[i]?

def dynRels (p : Program E B G P A) (scc : List Nat) : List RelId :=
  ((sccRules p scc).flatMap Rule.headRels).eraseDups

def isLooping (p : Program E B G P A) (scc : List Nat) : Bool :=
  (sccRules p scc).any fun r => r.bodyRels.any fun b => (dynRels p scc).contains b

/-- "use of aggregated relation cannot be stratified" -/
def aggOverDynamic (p : Program E B G P A) (scc : List Nat) : Bool :=
  (sccRules p scc).any fun r => r.body.any fun
    | .agg a => (dynRels p scc).contains a.rel
    | _ => false

/-- `versions_base` (ascent_mir.rs) -/
def versionsBase : Nat → List (List Ver)
  | 0 => []
  | n + 1 => (versionsBase n).map (· ++ [Ver.totalDelta]) ++ [List.replicate n Ver.total ++ [Ver.delta]]

/-- positions of the dynamic clauses of a rule body -/
def dynClauses (dyn : List RelId) : List (Item E B G P A) → List Bool
  | [] => []
  | .clause r _ _ :: rest => dyn.contains r :: dynClauses dyn rest
  | _ :: rest => false :: dynClauses dyn rest

/-- spread a version vector over the body: `none` for non-dynamic items -/
def spread : List Bool → List Ver → List (Option Ver)
  | [], _ => []
  | true :: bs, v :: vs => some v :: spread bs vs
  | true :: bs, [] => none :: spread bs []
  | false :: bs, vs => none :: spread bs vs

/-- the MIR rules of one HIR rule -/
def variants (dyn : List RelId) (r : Rule E B G P A) : List (List (Option Ver)) :=
  let dc := dynClauses dyn r.body
  let n := (dc.filter id).length
  if n = 0 then [dc.map fun _ => none] else (versionsBase n).map (spread dc)

/-! ## evaluating one rule variant -/

def findDyn (dyn : List Dyn) (r : RelId) : Option Dyn := dyn.find? (·.rel == r)

/-- the row numbers a body clause on relation `r` ranges over -/
def clauseRows (cfg : Config) (p : Program E B G P A) (s : SccSt) (r : RelId) (v : Option Ver) : List Nat :=
  let d := declOf p r
  match findDyn s.dyn r with
  | some dy =>
    match v with
    | some .total => readBag cfg d dy.total
    | some .delta => readBag cfg d dy.delta
    | some .totalDelta => readBag cfg d dy.total ++ readBag cfg d dy.delta
    | none => readBag cfg d dy.total
  | none => readBag cfg d (relSt s.rels r).idx

/-- an aggregated clause whose every argument is a key reads the full index: each distinct tuple once -/
def aggIsFull (a : AggClause E A) : Bool := a.args.all fun
  | .key _ => true
  | _ => false

def dedupTuples : List Tuple → List Tuple := List.eraseDups

/-- the tuples handed to the aggregation machinery: the relation's stored (total) index entries -/
def aggTuples (cfg : Config) (p : Program E B G P A) (s : SccSt) (a : AggClause E A) : List Tuple :=
  let rs := relSt s.rels a.rel
  let ts := (readBag cfg (declOf p a.rel) rs.idx).map (rowAt rs.rows)
  if aggIsFull a && !(declOf p a.rel).lat then dedupTuples ts else ts

/-- all environments satisfying the body under the variant's versions -/
def evalBody (I : Interp E B G P A) (cfg : Config) (p : Program E B G P A) (s : SccSt) :
    List (Item E B G P A) → List (Option Ver) → Env → List Env
  | [], _, ρ => [ρ]
  | .clause r args conds :: rest, vs, ρ =>
    let rows := (relSt s.rels r).rows
    (clauseRows cfg p s r (vs.headD none)).flatMap fun i =>
      match matchArgs I ρ args (rowAt rows i) ρ with
      | none => []
      | some ρ₁ =>
        match satConds I conds ρ₁ with
        | none => []
        | some ρ₂ => evalBody I cfg p s rest vs.tail ρ₂
  | .cond c :: rest, vs, ρ =>
    match satCond I c ρ with
    | none => []
    | some ρ₁ => evalBody I cfg p s rest vs.tail ρ₁
  | .gen v g :: rest, vs, ρ =>
    (I.gen g ρ).flatMap fun x => evalBody I cfg p s rest vs.tail ((v, x) :: ρ)
  | .agg a :: rest, vs, ρ =>
    (aggEnvs I a ρ (aggTuples cfg p s a)).flatMap fun ρ₁ => evalBody I cfg p s rest vs.tail ρ₁

/-! ## head update -/

def bagTuples (rows : List Tuple) (bag : List Nat) : List Tuple := bag.map (rowAt rows)

def setDyn (dyn : List Dyn) (d : Dyn) : List Dyn := dyn.map fun x => if x.rel == d.rel then d else x

/-- relation head: `!contains(total) && !contains(delta) && insert_if_not_present(new)` then push -/
def headRel (s : SccSt) (r : RelId) (row : Tuple) : SccSt :=
  match findDyn s.dyn r with
  | none => s
  | some d =>
    let rs := relSt s.rels r
    if (bagTuples rs.rows d.total).contains row || (bagTuples rs.rows d.delta).contains row
        || (bagTuples rs.rows d.new).contains row then s
    else
      { rels := setNth s.rels r { rs with rows := rs.rows ++ [row] }
        dyn := setDyn s.dyn { d with new := d.new ++ [rs.rows.length] }
        changed := true }

/-- last row number in the bag whose key columns equal `key` (the key index maps key → row) -/
def findKey (rows : List Tuple) (bag : List Nat) (key : Tuple) : Option Nat :=
  (bag.reverse.find? fun i => (rowAt rows i).dropLast == key)

/-- lattice head: join into the key's row; re-queue in `new` iff changed; else push a new row -/
def headLat (I : Interp E B G P A) (cfg : Config) (s : SccSt) (r : RelId) (row : Tuple) : SccSt :=
  match findDyn s.dyn r with
  | none => s
  | some d =>
    let rs := relSt s.rels r
    let key := row.dropLast
    let v := row.getLastD .unit
    let inNew := findKey rs.rows d.new key
    match inNew.orElse fun _ => (findKey rs.rows d.delta key).orElse fun _ => findKey rs.rows d.total key with
    | some i =>
      let old := rowAt rs.rows i
      let j := I.joinMut r (old.getLastD .unit) v
      if j.2 then
        let rels := setNth s.rels r { rs with rows := setNth rs.rows i (old.dropLast ++ [j.1]) }
        -- serial: re-insert into the `new` sets (idempotent); parallel: only when the key was not yet in `new`
        let requeue := if cfg.parallel then inNew.isNone else !d.new.contains i
        { rels := rels
          dyn := if requeue then setDyn s.dyn { d with new := d.new ++ [i] } else s.dyn
          changed := if cfg.parallel then (s.changed || inNew.isNone) else true }
      else s
    | none =>
      { rels := setNth s.rels r { rs with rows := rs.rows ++ [row] }
        dyn := setDyn s.dyn { d with new := d.new ++ [rs.rows.length] }
        changed := true }

def headUpdate (I : Interp E B G P A) (cfg : Config) (p : Program E B G P A) (s : SccSt) (h : HeadClause E) (ρ : Env) : SccSt :=
  let row := h.args.map fun e => I.expr e ρ
  if (declOf p h.rel).lat then headLat I cfg s h.rel row else headRel s h.rel row

/-- one MIR rule: enumerate the body against the state at rule start, then update the heads in order -/
def evalVariant (I : Interp E B G P A) (cfg : Config) (p : Program E B G P A) (s : SccSt) (r : Rule E B G P A)
    (vs : List (Option Ver)) : SccSt :=
  (evalBody I cfg p s r.body vs []).foldl (fun s ρ => r.heads.foldl (fun s h => headUpdate I cfg p s h ρ) s) s

def evalRules (I : Interp E B G P A) (cfg : Config) (p : Program E B G P A) (dyn : List RelId)
    (rules : List (Rule E B G P A)) (s : SccSt) : SccSt :=
  rules.foldl (fun s r => (variants dyn r).foldl (fun s vs => evalVariant I cfg p s r vs) s) s

/-- `merge_delta_to_total_new_to_delta` for every index of every dynamic relation -/
def shift (s : SccSt) : SccSt :=
  { s with dyn := s.dyn.map fun d => { d with total := d.total ++ d.delta, delta := d.new, new := [] } }

/-! ## one SCC, with the deadline oracle of `run_timeout` -/

/-- result of running (part of) a program -/
inductive Outcome (α : Type) where
  | done (a : α)
  | timedOut (a : α)
  | outOfFuel
deriving Repr

/-- the deadline: `d k = true` means the `k`-th reading of the clock (0-based) finds the deadline passed -/
abbrev Deadline := Nat → Bool

structure RunSt where
  st : SccSt
  checks : Nat
  iters : Nat

/-- the `loop { … }` of a looping SCC -/
def sccLoop (I : Interp E B G P A) (cfg : Config) (p : Program E B G P A) (dyn : List RelId)
    (rules : List (Rule E B G P A)) (dl : Deadline) : Nat → RunSt → Outcome RunSt
  | 0, _ => .outOfFuel
  | fuel + 1, rs =>
    let s1 := evalRules I cfg p dyn rules { rs.st with changed := false }
    let s2 := shift s1
    let rs' : RunSt := { st := s2, checks := rs.checks, iters := rs.iters + 1 }
    if !s1.changed then .done rs'
    else if dl rs.checks then .timedOut { rs' with checks := rs.checks + 1 }
    else sccLoop I cfg p dyn rules dl fuel { rs' with checks := rs.checks + 1 }

/-- `move_total_to_delta`: the stored index contents of the dynamic relations become `delta` -/
def enterScc (s : St) (dyn : List RelId) : SccSt :=
  { rels := s.map fun rs => rs   -- rows stay in place
    dyn := dyn.map fun r => { rel := r, total := [], delta := (relSt s r).idx, new := [] }
    changed := false }

/-- `move_total_to_field` -/
def leaveScc (s : SccSt) : St :=
  s.dyn.foldl (fun st d => setNth st d.rel { relSt st d.rel with idx := d.total }) s.rels

/-- early return of `run_timeout`: the locals are dropped — every index taken out of the struct
for this SCC (dynamic and body-only relations) stays empty; the row vectors are intact -/
def abandonScc (p : Program E B G P A) (scc : List Nat) (s : SccSt) : St :=
  let touched := dynRels p scc ++ (sccRules p scc).flatMap Rule.bodyRels
  (List.range s.rels.length).map fun r =>
    let rs := relSt s.rels r
    if touched.contains r then { rs with idx := [] } else rs

structure ProgSt where
  st : St
  checks : Nat
  iters : List Nat     -- `scc_iters`

def runScc (I : Interp E B G P A) (cfg : Config) (p : Program E B G P A) (dl : Deadline) (fuel : Nat)
    (scc : List Nat) (ps : ProgSt) : Outcome ProgSt :=
  let dyn := dynRels p scc
  let rules := sccRules p scc
  let s0 := enterScc ps.st dyn
  if isLooping p scc then
    match sccLoop I cfg p dyn rules dl fuel { st := s0, checks := ps.checks, iters := 0 } with
    | .done rs => .done { st := leaveScc rs.st, checks := rs.checks, iters := ps.iters ++ [rs.iters] }
    | .timedOut rs => .timedOut { st := abandonScc p scc rs.st, checks := rs.checks, iters := ps.iters ++ [rs.iters] }
    | .outOfFuel => .outOfFuel
  else
    let s1 := shift (shift (evalRules I cfg p dyn rules s0))
    if dl ps.checks then .timedOut { st := abandonScc p scc s1, checks := ps.checks + 1, iters := ps.iters ++ [1] }
    else .done { st := leaveScc s1, checks := ps.checks + 1, iters := ps.iters ++ [1] }

def runSccs (I : Interp E B G P A) (cfg : Config) (p : Program E B G P A) (dl : Deadline) (fuel : Nat) :
    SccOrder → ProgSt → Outcome ProgSt
  | [], ps => .done ps
  | scc :: rest, ps =>
    match runScc I cfg p dl fuel scc ps with
    | .done ps' => runSccs I cfg p dl fuel rest ps'
    | other => other

/-- `run_timeout`: `update_indices`, then the SCCs in order. `run()` is the deadline that never fires. -/
def runTimeout (I : Interp E B G P A) (cfg : Config) (p : Program E B G P A) (order : SccOrder) (dl : Deadline)
    (fuel : Nat) (s : St) : Outcome ProgSt :=
  runSccs I cfg p dl fuel order { st := updateIndices s, checks := 0, iters := [] }

def never : Deadline := fun _ => false

def run (I : Interp E B G P A) (cfg : Config) (p : Program E B G P A) (order : SccOrder) (fuel : Nat) (s : St) :
    Outcome ProgSt :=
  runTimeout I cfg p order never fuel s

/-- a fresh program value holding the given input vectors -/
def initSt (p : Program E B G P A) (input : RelId → List Tuple) : St :=
  (List.range p.rels.length).map fun r => { rows := input r, idx := [] }

/-- the facts held by a program value -/
def factsOf (s : St) (f : Fact) : Prop := f.args ∈ (relSt s f.rel).rows

end AscentVerif.Engine
