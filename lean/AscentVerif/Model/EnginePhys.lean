import AscentVerif.Model.Plan
import AscentVerif.Model.Index
/-!
# The generated code over its *physical* indices (`ascent_codegen.rs` + `internal.rs`, serial relations)

`Model/Engine.lean` keeps, per relation, ONE bag of row numbers per version and evaluates a clause as a filter
over it; `Model/Plan.lean` adds the compilation plan (index columns, simple joins) but still reads the bag.
The generated code has neither bags nor row numbers for plain relations.  Per relation it owns

* the row vector (`Vec<tuple>`, the public field),
* one **full index** `RelFullIndexType<tuple, ()>` (a hash map keyed by the whole row; the de-duplication set), and
* one `RelIndexType1<K, V>` (`HashMap<K, Vec<V>>`) per further index column set the rules use, with
  `K` = the indexed columns and `V` = **the remaining columns** (`IndexValType::Direct`, `ascent_hir.rs` l.191-197):
  the index entries are *values*, not row numbers;

inside an SCC every index of a dynamic relation exists three times (`total` / `delta` / `new`).
This file models exactly that, reusing the hash-map models of C19 (`Model/Index.lean`: `FullIdx`, `Idx`,
their `insert`, `insertIfNotPresent`, `mergeStep` with the size-based swaps) and the plan of `Model/Hir.lean`:

* `updateIndices` — `compile_update_indices_function_body`: every index is reset and every row inserted
  (`index_insert(selection_tuple, entry_val)`, l.752-772);
* `enterScc` / `leaveScc` — `move_total_to_delta` (`mem::take` of the struct field into `delta`, fresh `total` / `new`)
  and `move_total_to_field`, l.470-501;
* `headRel` — `head_update_code`, l.1207-1221: `!contains_key(total_full) && !contains_key(delta_full)`, then
  `insert_if_not_present(new_full)`; only then `push`, `index_insert` into the `new` version of every non-full
  index (`if rel_ind.is_full_index() { continue }`, l.1136), `__changed = true`;
* `shift` — `merge_delta_to_total_new_to_delta` for every index (l.478-495) = C19's `mergeStep`;
* `getV` / `allV` / `isEmptyV` / `lenV` — `index_get`, `iter_all`, `is_empty`, `len_estimate` of an index version;
  `RelIndexCombined` for `total+delta` (`rel_index_read.rs` l.160-174, 227);
* `clauseStep` / `joinStep` / `evalFrom` — `compile_mir_rule_inner`, as in `Model/Plan.lean` but reading the
  physical indices: the matched *rows* are rebuilt from key and value (`clause_var_assignments`, `Direct` case);
* `evalRule` — `compile_mir_rule`, l.855-880: the "some body relation is empty ⇒ skip the rule" guard, and the run-time
  choice between the two copies of a reorderable simple join by `len_estimate` (l.904-910);
* `sccLoop` / `runScc` / `run` — `compile_mir_scc`, l.609-644.

`Props/C01Phys.lean` proves that this engine computes the least model (by a forward simulation onto the
nondeterministic engine of `Proofs/NDEngine.lean`).  Serial, non-lattice programs; aggregation / negation items read the index the plan chose
for them (`Props/C04Phys.lean`); no deadline.
Core Lean only; executable (driver op `engp`).
-/
namespace AscentVerif.Phys
open AscentVerif AscentVerif.Engine AscentVerif.Index

variable {E B G P A : Type}

/-! ## keys and values of an index entry -/

/-- the non-index columns of a row, in column order (`IndexValType::Direct(cols)`) -/
def projC (cols : List Nat) (row : Tuple) : List Val :=
  ((List.range row.length).filter fun j => !cols.contains j).map fun j => row.getD j .unit

/-- position of column `j` among the non-index columns -/
def rank (cols : List Nat) (j : Nat) : Nat := ((List.range j).filter fun i => !cols.contains i).length

/-- the row an index entry stands for: column `j` comes from the key if `j` is an index column, else from the value -/
def rebuild (cols : List Nat) (arity : Nat) (key vals : List Val) : Tuple :=
  (List.range arity).map fun j =>
    match cols.idxOf? j with
    | some t => key.getD t .unit
    | none => vals.getD (rank cols j) .unit

/-! ## physical state -/

abbrev FIx := FullIdx Tuple Unit
abbrev PIx := Idx (List Val) (List Val)

/-- a relation as the program struct stores it between SCCs -/
structure PRel where
  rows : List Tuple
  full : FIx
  idxs : List (List Nat × PIx)
deriving Repr

structure Tri (α : Type) where
  total : α
  delta : α
  new : α
deriving Repr

/-- a dynamic relation inside an SCC: three versions of every index -/
structure PDyn where
  rel : RelId
  full : Tri FIx
  idxs : List (List Nat × Tri PIx)
deriving Repr

structure PScc where
  rels : List PRel
  dyn : List PDyn
  changed : Bool
deriving Repr

abbrev PSt := List PRel

def prel (s : PSt) (r : RelId) : PRel := s.getD r ⟨[], [], []⟩
def findPDyn (dyn : List PDyn) (r : RelId) : Option PDyn := dyn.find? (·.rel == r)
def setPDyn (dyn : List PDyn) (d : PDyn) : List PDyn := dyn.map fun x => if x.rel == d.rel then d else x
def arityOf (p : Program E B G P A) (r : RelId) : Nat := (declOf p r).arity

/-- the index column sets of every relation besides the full index (`relations_ir_relations`) -/
abbrev IxSets := RelId → List (List Nat)

/-! ## `update_indices` -/

def buildFull (rows : List Tuple) : FIx := rows.foldl (fun m row => FullIdx.insert m row ()) []
def buildIx (cols : List Nat) (rows : List Tuple) : PIx :=
  rows.foldl (fun m row => Idx.insert m (proj cols row) (projC cols row)) []
  where proj (cols : List Nat) (row : Tuple) : List Val := Plan.proj cols row

def updateIndices (ix : IxSets) (s : PSt) : PSt :=
  (List.range s.length).map fun r =>
    let rows := (prel s r).rows
    { rows := rows, full := buildFull rows, idxs := (ix r).map fun c => (c, buildIx c rows) }

/-! ## reading one version of one index -/

/-- which physical versions a clause reads -/
inductive View where
  | stored (r : PRel)
  | one (full : FIx) (idxs : List (List Nat × PIx))
  | two (full₁ : FIx) (idxs₁ : List (List Nat × PIx)) (full₂ : FIx) (idxs₂ : List (List Nat × PIx))

def pick (t : Tri α) : Ver → α
  | .total => t.total
  | .delta => t.delta
  | .totalDelta => t.total

/-- `expr_for_rel`: the struct field for a relation that is not dynamic in this SCC, the `total` / `delta` local, or the
`RelIndexCombined` of both -/
def viewOf (s : PScc) (r : RelId) (v : Option Ver) : View :=
  match findPDyn s.dyn r with
  | none => .stored (prel s.rels r)
  | some d =>
    match v with
    | some .totalDelta => .two d.full.total (d.idxs.map fun ci => (ci.1, ci.2.total)) d.full.delta (d.idxs.map fun ci => (ci.1, ci.2.delta))
    | some .delta => .one d.full.delta (d.idxs.map fun ci => (ci.1, ci.2.delta))
    | _ => .one d.full.total (d.idxs.map fun ci => (ci.1, ci.2.total))

def lookupIx (idxs : List (List Nat × PIx)) (cols : List Nat) : PIx :=
  match idxs.find? (·.1 == cols) with
  | some ci => ci.2
  | none => []

/-- `index_get` on one version: the matching rows (full index: the key itself, once; otherwise one row per stored value) -/
def get1 (arity : Nat) (full : FIx) (idxs : List (List Nat × PIx)) (cols : List Nat) (key : List Val) : List Tuple :=
  if cols.length == arity then (if FullIdx.containsKey full key then [key] else [])
  else ((Idx.get (lookupIx idxs cols) key).getD []).map (rebuild cols arity key)

def getV (arity : Nat) (w : View) (cols : List Nat) (key : List Val) : List Tuple :=
  match w with
  | .stored r => get1 arity r.full r.idxs cols key
  | .one f i => get1 arity f i cols key
  | .two f₁ i₁ f₂ i₂ => get1 arity f₁ i₁ cols key ++ get1 arity f₂ i₂ cols key

/-- `iter_all` on one version: every key with its rows -/
def all1 (arity : Nat) (full : FIx) (idxs : List (List Nat × PIx)) (cols : List Nat) : List (List Val × List Tuple) :=
  if cols.length == arity then full.map fun kv => (kv.1, [kv.1])
  else (lookupIx idxs cols).map fun kv => (kv.1, kv.2.map (rebuild cols arity kv.1))

def allV (arity : Nat) (w : View) (cols : List Nat) : List (List Val × List Tuple) :=
  match w with
  | .stored r => all1 arity r.full r.idxs cols
  | .one f i => all1 arity f i cols
  | .two f₁ i₁ f₂ i₂ => all1 arity f₁ i₁ cols ++ all1 arity f₂ i₂ cols

def len1 (arity : Nat) (full : FIx) (idxs : List (List Nat × PIx)) (cols : List Nat) : Nat :=
  if cols.length == arity then full.length else (lookupIx idxs cols).length

/-- `len_estimate`: the number of keys (`HashMap::len`); summed for `RelIndexCombined` -/
def lenV (arity : Nat) (w : View) (cols : List Nat) : Nat :=
  match w with
  | .stored r => len1 arity r.full r.idxs cols
  | .one f i => len1 arity f i cols
  | .two f₁ i₁ f₂ i₂ => len1 arity f₁ i₁ cols + len1 arity f₂ i₂ cols

/-- `is_empty` (`HashMap::is_empty`; `RelIndexCombined`: both sides) -/
def isEmptyV (arity : Nat) (w : View) (cols : List Nat) : Bool := lenV arity w cols == 0

/-! ## one MIR rule (`compile_mir_rule_inner`) -/

/-- an ordinary clause: `index_get` with the key evaluated before the clause; per matching row the new variables, the
conditions, the rest -/
def clauseStep (I : Interp E B G P A) (matching : List Tuple) (pre : List Var) (args : List (Arg E))
    (conds : List (Cond E B P)) (ρ : Env) (k : Env → List Env) : List Env :=
  matching.flatMap fun row =>
    match Plan.bindArgs (fun _ v => pre.contains v) 0 args row ρ with
    | none => []
    | some ρ₁ =>
      match satConds I conds ρ₁ with
      | none => []
      | some ρ₂ => k ρ₂

/-- a simple join: `iter_all` over clause `a`, one `index_get` on clause `b` per key of `a` -/
def joinStep (I : Interp E B G P A) (allA : List (List Val × List Tuple)) (colsA : List Nat) (argsA : List (Arg E))
    (condsA : List (Cond E B P)) (getB : List Val → List Tuple) (colsB : List Nat) (argsB : List (Arg E))
    (condsB : List (Cond E B P)) (preB : List Var) (ρ : Env) (k : Env → List Env) : List Env :=
  allA.flatMap fun kr =>
    let ρk := Plan.bindKey argsA colsA kr.1 ρ
    let matching := getB (Plan.keyOf I ρk argsB colsB)
    kr.2.flatMap fun rowA =>
      match Plan.bindArgs (fun j _ => colsA.contains j) 0 argsA rowA ρk with
      | none => []
      | some ρ₁ =>
        match satConds I condsA ρ₁ with
        | none => []
        | some ρ₂ =>
          matching.flatMap fun rowB =>
            match Plan.bindArgs (fun _ v => preB.contains v) 0 argsB rowB ρ₂ with
            | none => []
            | some ρ₃ =>
              match satConds I condsB ρ₃ with
              | none => []
              | some ρ₄ => k ρ₄

/-- the index columns the plan chose for the aggregated relation at position `i` (`agg.rel.indices`: the positions of the
arguments that are neither `_` nor one of the aggregated variables) -/
def aggColsAt (h : Hir.HRule) (i : Nat) : List Nat :=
  match h.items[i]? with
  | some (.agg _ cols) => cols
  | _ => []

/-- `selected_args`: the key of the aggregation's `index_get`, the `key` arguments evaluated in column order -/
def aggKey (I : Interp E B G P A) (ρ : Env) (args : List (AggArg E)) : List Val :=
  args.filterMap fun
    | .key e => some (I.expr e ρ)
    | _ => none

/-- `__aggregated_rel.index_get(&key).into_iter().flatten()`: the rows the aggregation ranges over, read through the index the
plan chose, from the `total` version of the aggregated relation (the struct field for a relation of an earlier stratum) -/
def aggRows (I : Interp E B G P A) (p : Program E B G P A) (s : PScc) (h : Hir.HRule) (i : Nat) (a : AggClause E A) (ρ : Env) :
    List Tuple :=
  getV (arityOf p a.rel) (viewOf s a.rel (some .total)) (aggColsAt h i) (aggKey I ρ a.args)

/-- the body from position `i` on, as the generated code evaluates it over the physical indices -/
def evalFrom (I : Interp E B G P A) (p : Program E B G P A) (s : PScc) (h : Hir.HRule) (swap : Bool) :
    Nat → List (Item E B G P A) → List (Option Ver) → Env → List Env
  | _, [], _, ρ => [ρ]
  | i, .clause r args conds :: .clause r2 args2 conds2 :: rest2, vs, ρ =>
    if h.simpleJoinStart = some i then
      let w1 := viewOf s r (vs.headD none)
      let w2 := viewOf s r2 (vs.tail.headD none)
      let c1 := Plan.colsAt h i
      let c2 := Plan.colsAt h (i + 1)
      if swap then
        joinStep I (allV (arityOf p r2) w2 c2) c2 args2 conds2 (getV (arityOf p r) w1 c1) c1 args conds
          (Plan.preVars h i ++ h.bound.getD (i + 1) []) ρ fun ρ' => evalFrom I p s h swap (i + 2) rest2 vs.tail.tail ρ'
      else
        joinStep I (allV (arityOf p r) w1 c1) c1 args conds (getV (arityOf p r2) w2 c2) c2 args2 conds2
          (Plan.preVars h (i + 1)) ρ fun ρ' => evalFrom I p s h swap (i + 2) rest2 vs.tail.tail ρ'
    else
      clauseStep I (getV (arityOf p r) (viewOf s r (vs.headD none)) (Plan.colsAt h i) (Plan.keyOf I ρ args (Plan.colsAt h i)))
        (Plan.preVars h i) args conds ρ
        fun ρ' => evalFrom I p s h swap (i + 1) (.clause r2 args2 conds2 :: rest2) vs.tail ρ'
  | i, .clause r args conds :: rest, vs, ρ =>
    clauseStep I (getV (arityOf p r) (viewOf s r (vs.headD none)) (Plan.colsAt h i) (Plan.keyOf I ρ args (Plan.colsAt h i)))
      (Plan.preVars h i) args conds ρ
      fun ρ' => evalFrom I p s h swap (i + 1) rest vs.tail ρ'
  | i, .cond c :: rest, vs, ρ =>
    match satCond I c ρ with
    | none => []
    | some ρ₁ => evalFrom I p s h swap (i + 1) rest vs.tail ρ₁
  | i, .gen v g :: rest, vs, ρ =>
    (I.gen g ρ).flatMap fun x => evalFrom I p s h swap (i + 1) rest vs.tail ((v, x) :: ρ)
  | i, .agg a :: rest, vs, ρ =>
    -- `for pat in agg_func(matching rows mapped to the bound arguments) { rest }`
    (aggEnvs I a ρ (aggRows I p s h i a ρ)).flatMap fun ρ₁ => evalFrom I p s h swap (i + 1) rest vs.tail ρ₁

/-- the clauses of a body with their position and version: `(i, relation, version)` -/
def clausesOf : Nat → List (Item E B G P A) → List (Option Ver) → List (Nat × RelId × Option Ver)
  | _, [], _ => []
  | i, .clause r _ _ :: rest, vs => (i, r, vs.headD none) :: clausesOf (i + 1) rest vs.tail
  | i, _ :: rest, vs => clausesOf (i + 1) rest vs.tail

/-- `check_any_empty_rel_can_help` and `any_rel_empty` (l.855-868): with more than one body clause — unless the rule is
exactly a two-clause simple join — the rule is skipped when the index version read by some clause is empty -/
def anyEmpty (p : Program E B G P A) (s : PScc) (h : Hir.HRule) (body : List (Item E B G P A)) (vs : List (Option Ver)) : Bool :=
  let cls := clausesOf 0 body vs
  cls.length > 1 && !(h.simpleJoinStart.isSome && cls.length == 2) &&
    cls.any fun c => isEmptyV (arityOf p c.2.1) (viewOf s c.2.1 c.2.2) (Plan.colsAt h c.1)

/-- the run-time choice between the two copies of a reorderable simple join: `if rel1.len_estimate() <= rel2.len_estimate()`
(l.904-910; the estimates do not change while the rule runs, so the choice is made once here) -/
def chooseSwap (p : Program E B G P A) (s : PScc) (h : Hir.HRule) (body : List (Item E B G P A)) (vs : List (Option Ver)) : Bool :=
  match h.simpleJoinStart with
  | none => false
  | some i =>
    if !Plan.reorderable h then false
    else
      match (clausesOf 0 body vs).find? (·.1 == i), (clausesOf 0 body vs).find? (·.1 == i + 1) with
      | some c1, some c2 =>
        !(lenV (arityOf p c1.2.1) (viewOf s c1.2.1 c1.2.2) (Plan.colsAt h i) ≤
          lenV (arityOf p c2.2.1) (viewOf s c2.2.1 c2.2.2) (Plan.colsAt h (i + 1)))
      | _, _ => false

/-- all environments one MIR rule reaches its head update with (`compile_mir_rule`) -/
def evalRule (I : Interp E B G P A) (p : Program E B G P A) (s : PScc) (h : Hir.HRule) (body : List (Item E B G P A))
    (vs : List (Option Ver)) : List Env :=
  if anyEmpty p s h body vs then [] else evalFrom I p s h (chooseSwap p s h body vs) 0 body vs []

/-! ## head update (`head_update_code`, relations) -/

def headRel (s : PScc) (r : RelId) (row : Tuple) : PScc :=
  match findPDyn s.dyn r with
  | none => s
  | some d =>
    if FullIdx.containsKey d.full.total row || FullIdx.containsKey d.full.delta row then s
    else
      let ins := FullIdx.insertIfNotPresent d.full.new row ()
      if !ins.2 then s
      else
        let pr := prel s.rels r
        { rels := setNth s.rels r { pr with rows := pr.rows ++ [row] }
          dyn := setPDyn s.dyn { d with
            full := { d.full with new := ins.1 }
            idxs := d.idxs.map fun ci => (ci.1, { ci.2 with new := Idx.insert ci.2.new (Plan.proj ci.1 row) (projC ci.1 row) }) }
          changed := true }

def headRow (I : Interp E B G P A) (h : HeadClause E) (ρ : Env) : RelId × Tuple := (h.rel, h.args.map fun e => I.expr e ρ)

/-- one MIR rule: enumerate the body, update the heads for every environment in order -/
def evalVariant (I : Interp E B G P A) (V : Hir.VarsOf E B) (p : Program E B G P A) (s : PScc) (r : Rule E B G P A)
    (vs : List (Option Ver)) : PScc :=
  (evalRule I p s (Hir.compileRule V r) r.body vs).foldl
    (fun s ρ => r.heads.foldl (fun s h => headRel s h.rel (headRow I h ρ).2) s) s

def evalRules (I : Interp E B G P A) (V : Hir.VarsOf E B) (p : Program E B G P A) (dyn : List RelId)
    (rules : List (Rule E B G P A)) (s : PScc) : PScc :=
  rules.foldl (fun s r => (variants dyn r).foldl (fun s vs => evalVariant I V p s r vs) s) s

/-! ## merge, SCC entry and exit -/

def shiftFull (t : Tri FIx) : Tri FIx :=
  let r := FullIdx.mergeStep t.new t.delta t.total
  { new := r.1, delta := r.2.1, total := r.2.2 }

def shiftIx (t : Tri PIx) : Tri PIx :=
  let r := Idx.mergeStep t.new t.delta t.total
  { new := r.1, delta := r.2.1, total := r.2.2 }

/-- `merge_delta_to_total_new_to_delta` for every index of every dynamic relation -/
def shift (s : PScc) : PScc :=
  { s with dyn := s.dyn.map fun d => { d with full := shiftFull d.full, idxs := d.idxs.map fun ci => (ci.1, shiftIx ci.2) } }

/-- `move_total_to_delta`: the struct's indices of the dynamic relations are taken into `delta` (the fields are left
`Default`), `total` and `new` start empty -/
def enterScc (s : PSt) (dyn : List RelId) : PScc :=
  { rels := (List.range s.length).map fun r =>
      let pr := prel s r
      if dyn.contains r then { pr with full := [], idxs := pr.idxs.map fun ci => (ci.1, []) } else pr
    dyn := dyn.map fun r =>
      let pr := prel s r
      { rel := r, full := { total := [], delta := pr.full, new := [] }
        idxs := pr.idxs.map fun ci => (ci.1, { total := [], delta := ci.2, new := [] }) }
    changed := false }

/-- `move_total_to_field` -/
def leaveScc (s : PScc) : PSt :=
  s.dyn.foldl (fun st d => setNth st d.rel { prel st d.rel with full := d.full.total, idxs := d.idxs.map fun ci => (ci.1, ci.2.total) }) s.rels

/-! ## SCC loop and run -/

structure RunSt where
  st : PScc
  iters : Nat

def sccLoop (I : Interp E B G P A) (V : Hir.VarsOf E B) (p : Program E B G P A) (dyn : List RelId)
    (rules : List (Rule E B G P A)) : Nat → RunSt → Option RunSt
  | 0, _ => none
  | fuel + 1, rs =>
    let s1 := evalRules I V p dyn rules { rs.st with changed := false }
    let rs' : RunSt := { st := shift s1, iters := rs.iters + 1 }
    if !s1.changed then some rs' else sccLoop I V p dyn rules fuel rs'

structure ProgSt where
  st : PSt
  iters : List Nat

def runScc (I : Interp E B G P A) (V : Hir.VarsOf E B) (p : Program E B G P A) (fuel : Nat) (scc : List Nat)
    (ps : ProgSt) : Option ProgSt :=
  let dyn := dynRels p scc
  let rules := sccRules p scc
  let s0 := enterScc ps.st dyn
  if isLooping p scc then
    (sccLoop I V p dyn rules fuel { st := s0, iters := 0 }).map fun rs =>
      { st := leaveScc rs.st, iters := ps.iters ++ [rs.iters] }
  else
    some { st := leaveScc (shift (shift (evalRules I V p dyn rules s0))), iters := ps.iters ++ [1] }

def runSccs (I : Interp E B G P A) (V : Hir.VarsOf E B) (p : Program E B G P A) (fuel : Nat) :
    SccOrder → ProgSt → Option ProgSt
  | [], ps => some ps
  | scc :: rest, ps => (runScc I V p fuel scc ps).bind (runSccs I V p fuel rest)

/-- `run()`: `update_indices`, then the SCCs in order -/
def run (I : Interp E B G P A) (V : Hir.VarsOf E B) (p : Program E B G P A) (ix : IxSets) (order : SccOrder) (fuel : Nat)
    (s : PSt) : Option ProgSt :=
  runSccs I V p fuel order { st := updateIndices ix s, iters := [] }

/-- a fresh program value holding the given input vectors -/
def initSt (p : Program E B G P A) (input : RelId → List Tuple) : PSt :=
  (List.range p.rels.length).map fun r => { rows := input r, full := [], idxs := [] }

/-- the facts held by a program value -/
def factsOf (s : PSt) (f : Fact) : Prop := f.args ∈ (prel s f.rel).rows

/-! ## the index sets the compiler allocates (`relations_ir_relations`) -/

/-- the non-full index column sets of relation `r`: those of every body clause on `r`, in any rule -/
def ixSetsOf (V : Hir.VarsOf E B) (p : Program E B G P A) : IxSets := fun r =>
  let all := p.rules.flatMap fun rule =>
    (Hir.compileRule V rule).items.filterMap fun
      | .clause r' cols _ => if r' == r && cols.length != arityOf p r then some cols else none
      | _ => none
  all.eraseDups

/-! ## when the plan is usable (the hypothesis of `Props/C01Phys.lean`; decidable, evaluated by the driver on every program of the tie) -/

def increasing : List Nat → Bool
  | [] => true
  | [_] => true
  | a :: b :: t => decide (a < b) && increasing (b :: t)

/-- the plan of one rule is usable: every body clause is compiled to a clause item on the same relation whose index columns
are strictly increasing and inside the relation's arity, the clause has one argument per column, and the index exists
(the full index, or one of the allocated column sets) -/
def ruleOk (V : Hir.VarsOf E B) (p : Program E B G P A) (ix : IxSets) (r : Rule E B G P A) : Bool :=
  let h := Hir.compileRule V r
  (List.range r.body.length).all fun i =>
    match r.body[i]?, h.items[i]? with
    | some (.clause rel args _), some (.clause rel' cols _) =>
      rel' == rel && args.length == arityOf p rel && increasing cols && cols.all (· < arityOf p rel) &&
        (cols.length == arityOf p rel || (ix rel).contains cols)
    | some (.clause ..), _ => false
    | _, _ => true

def planOk (V : Hir.VarsOf E B) (p : Program E B G P A) (ix : IxSets) : Bool :=
  p.rules.all fun r => ruleOk V p ix r && r.heads.all fun h => h.args.length == arityOf p h.rel

/-- a program value the physical engine may be started from: one entry per declared relation, rows of the declared arity -/
def WFPSt (p : Program E B G P A) (s : PSt) : Prop :=
  s.length = p.rels.length ∧ ∀ r, ∀ t ∈ (prel s r).rows, t.length = arityOf p r

/-! ## aggregation: the index sets and the usable-plan condition (hypotheses of `Props/C04Phys.lean`) -/

/-- the non-full index column sets of relation `r` including those of aggregated clauses on `r` -/
def ixSetsOfA (V : Hir.VarsOf E B) (p : Program E B G P A) : IxSets := fun r =>
  let all := p.rules.flatMap fun rule =>
    (Hir.compileRule V rule).items.filterMap fun
      | .clause r' cols _ => if r' == r && cols.length != arityOf p r then some cols else none
      | .agg r' cols => if r' == r && cols.length != arityOf p r then some cols else none
      | _ => none
  all.eraseDups

/-- the positions of the `key` arguments -/
def keyPositions (args : List (AggArg E)) : List Nat :=
  (List.range args.length).filter fun j =>
    match args[j]? with
    | some (.key _) => true
    | _ => false

/-- the aggregated variables occurring as arguments, in argument order -/
def boundOcc (args : List (AggArg E)) : List Var :=
  args.filterMap fun
    | .bound v => some v
    | _ => none

/-- the plan of the aggregations of one rule is usable: every `agg` item is compiled to an `agg` item on the same relation whose
index columns are exactly the positions of the `key` arguments, inside the arity; one argument per column; the index exists;
no aggregated variable occurs twice among the arguments (the generated code reads it from its first position only) and every
aggregated variable occurs -/
def aggRuleOk (V : Hir.VarsOf E B) (p : Program E B G P A) (ix : IxSets) (r : Rule E B G P A) : Bool :=
  let h := Hir.compileRule V r
  (List.range r.body.length).all fun i =>
    match r.body[i]?, h.items[i]? with
    | some (.agg a), some (.agg rel' cols) =>
      rel' == a.rel && a.args.length == arityOf p a.rel && cols == keyPositions a.args &&
        (cols.length == arityOf p a.rel || (ix a.rel).contains cols) &&
        (boundOcc a.args).Nodup && a.boundArgs.all (boundOcc a.args).contains
    | some (.agg _), _ => false
    | _, _ => true

def aggPlanOk (V : Hir.VarsOf E B) (p : Program E B G P A) (ix : IxSets) : Bool :=
  p.rules.all fun r => aggRuleOk V p ix r

end AscentVerif.Phys
