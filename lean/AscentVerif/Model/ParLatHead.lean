/-!
# The parallel lattice head update as a transition system (ascent_codegen.rs, `mir.is_parallel` lattice branch)

Several workers derive a value for the SAME lattice key at the same time.  Each executes

```
let existing = NEW.get_cloned(key)            -- then DELTA, TOTAL (frozen: constant during the iteration)
if let Some(i) = existing { rows[i].write().join_mut(v) }          -- row lock: atomic
else {
   let _g = mutex[hash(key) % n].lock();                            -- blocks while another worker holds it
   if let Some(i) = NEW.get_cloned(key) { rows[i].write().join_mut(v) }   -- re-check under the mutex
   else { let i = rows.push(RwLock::new(row)); NEW.insert(key, i) }       -- push, then index insert (two steps)
}                                                                    -- guard dropped: unlock
```
Model: one key that is in neither DELTA nor TOTAL (the first-insertion race); `rows` are the rows
pushed for this key; `inNew` says whether NEW maps the key (to the first pushed row).  Every arrow
below is one atomic step of one worker; a schedule is any sequence of enabled steps.
`join` is the lattice join on values (a parameter).  Core Lean only.
-/
namespace AscentVerif.ParLat

inductive PC where
  | start        -- about to look the key up in NEW
  | wantLock     -- looked up, found nothing: waiting for the key's mutex
  | holding      -- holds the mutex, about to re-check
  | pushed       -- pushed a row, about to insert the key into NEW
  | unlock       -- about to drop the guard
  | done
deriving DecidableEq, Repr

structure Worker (V : Type) where
  pc : PC
  v : V
deriving Repr

structure State (V : Type) where
  rows : List V               -- rows pushed for the key (values joined in place)
  inNew : Bool                -- NEW full index maps the key (to row 0)
  lock : Option Nat           -- which worker holds the key's mutex
  workers : List (Worker V)
deriving Repr

variable {V : Type}

def setWorker (ws : List (Worker V)) (i : Nat) (w : Worker V) : List (Worker V) := ws.set i w

def joinRow0 (join : V → V → V) (rows : List V) (v : V) : List V :=
  match rows with
  | [] => []
  | r :: rest => join r v :: rest

/-- one atomic step of worker `i`; `none` if the worker is blocked or finished -/
def step (join : V → V → V) (s : State V) (i : Nat) : Option (State V) :=
  match s.workers[i]? with
  | none => none
  | some w =>
    match w.pc with
    | .start =>
      if s.inNew then some { s with rows := joinRow0 join s.rows w.v, workers := setWorker s.workers i { w with pc := .done } }
      else some { s with workers := setWorker s.workers i { w with pc := .wantLock } }
    | .wantLock =>
      match s.lock with
      | some _ => none
      | none => some { s with lock := some i, workers := setWorker s.workers i { w with pc := .holding } }
    | .holding =>
      if s.inNew then some { s with rows := joinRow0 join s.rows w.v, workers := setWorker s.workers i { w with pc := .unlock } }
      else some { s with rows := s.rows ++ [w.v], workers := setWorker s.workers i { w with pc := .pushed } }
    | .pushed => some { s with inNew := true, workers := setWorker s.workers i { w with pc := .unlock } }
    | .unlock => some { s with lock := none, workers := setWorker s.workers i { w with pc := .done } }
    | .done => none

def init (vs : List V) : State V :=
  { rows := [], inNew := false, lock := none, workers := vs.map fun v => ⟨.start, v⟩ }

/-- states reachable under some schedule -/
inductive Reachable (join : V → V → V) (vs : List V) : State V → Prop where
  | init : Reachable join vs (init vs)
  | step {s s' : State V} (i : Nat) : Reachable join vs s → step join s i = some s' → Reachable join vs s'

def allDone (s : State V) : Prop := ∀ w ∈ s.workers, w.pc = .done

end AscentVerif.ParLat
