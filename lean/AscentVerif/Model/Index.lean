/-!
# Model of the index building blocks (`ascent/src/internal.rs`, `rel_index_read.rs`,
`c_rel_index.rs`, `c_rel_full_index.rs`, `c_lat_index.rs`, `c_rel_no_index.rs`,
`c_rel_index_combined.rs`)

Hash maps are association lists with at most one entry per key (iteration order of the real
maps is arbitrary; every observation is compared after sorting, and every theorem is stated
up to permutation).  `Vec` values are lists **in the order the code produces them**,
including the size-based swaps of `move_index_contents`.  Concurrent (DashMap-based)
indices are a frozen flag plus a list of shards; an operation on the wrong frozen state is
the model's `panic`.  Core Lean only; executable.
-/
namespace AscentVerif.Index

variable {K V : Type} [DecidableEq K] [DecidableEq V]

/-! ## association lists as hash maps -/

abbrev HMap (K V : Type) := List (K × V)

def HMap.get? (m : HMap K V) (k : K) : Option V :=
  match m with
  | [] => none
  | (k', v) :: rest => if k' = k then some v else HMap.get? rest k

/-- `entry(k)`: replace the value if present (keeping its position) else push a new entry -/
def HMap.upsert (m : HMap K V) (k : K) (f : Option V → V) : HMap K V :=
  match m with
  | [] => [(k, f none)]
  | (k', v) :: rest => if k' = k then (k', f (some v)) :: rest else (k', v) :: HMap.upsert rest k f

def HMap.keys (m : HMap K V) : List K := m.map (·.1)

/-! ## `RelIndexType1<K, V> = HashMap<K, Vec<V>>` -/

abbrev Idx (K V : Type) := HMap K (List V)

/-- `index_insert`: push onto the key's vector, or create `vec![value]` -/
def Idx.insert (m : Idx K V) (k : K) (v : V) : Idx K V :=
  HMap.upsert m k fun
    | some vs => vs ++ [v]
    | none => [v]

/-- `index_get` -/
def Idx.get (m : Idx K V) (k : K) : Option (List V) := HMap.get? m k

/-- one step of the drain loop of `move_index_contents`: `existing.append(v)` after the
"append the shorter onto the longer" swap -/
def Idx.absorb (to : Idx K V) (k : K) (v : List V) : Idx K V :=
  HMap.upsert to k fun
    | some existing => if v.length > existing.length then v ++ existing else existing ++ v
    | none => v

/-- `move_index_contents(from, to)`: returns the new `(from, to)`; `from` is left empty.
The map-level swap `if from.len() > to.len()` is mirrored. -/
def Idx.moveContents (frm to : Idx K V) : Idx K V × Idx K V :=
  let (frm, to) := if frm.length > to.length then (to, frm) else (frm, to)
  ([], frm.foldl (fun acc kv => Idx.absorb acc kv.1 kv.2) to)

/-- `merge_delta_to_total_new_to_delta(new, delta, total)`: returns the new `(new, delta, total)` -/
def Idx.mergeStep (new delta total : Idx K V) : Idx K V × Idx K V × Idx K V :=
  let r := Idx.moveContents delta total
  (r.1, new, r.2)

/-- all entries `(k, v)` of the index, as a list -/
def Idx.entries (m : Idx K V) : List (K × V) := m.flatMap fun kv => kv.2.map fun v => (kv.1, v)

/-! ## `RelFullIndexType<K, V> = HashMap<K, V>` -/

abbrev FullIdx (K V : Type) := HMap K V

/-- `index_insert` = `HashMap::insert` (overwrites) -/
def FullIdx.insert (m : FullIdx K V) (k : K) (v : V) : FullIdx K V := HMap.upsert m k fun _ => v

/-- `insert_if_not_present`: returns the new map and `true` iff the key was vacant -/
def FullIdx.insertIfNotPresent (m : FullIdx K V) (k : K) (v : V) : FullIdx K V × Bool :=
  match HMap.get? m k with
  | some _ => (m, false)
  | none => (m ++ [(k, v)], true)

def FullIdx.containsKey (m : FullIdx K V) (k : K) : Bool := (HMap.get? m k).isSome

def FullIdx.moveContents (frm to : FullIdx K V) : FullIdx K V × FullIdx K V :=
  let (frm, to) := if frm.length > to.length then (to, frm) else (frm, to)
  ([], frm.foldl (fun acc kv => FullIdx.insert acc kv.1 kv.2) to)

def FullIdx.mergeStep (new delta total : FullIdx K V) : FullIdx K V × FullIdx K V × FullIdx K V :=
  let r := FullIdx.moveContents delta total
  (r.1, new, r.2)

/-! ## `LatticeIndexType<K, V> = HashMap<K, HashSet<V>>` -/

abbrev LatIdx (K V : Type) := HMap K (List V)

def setAdd (s : List V) (v : V) : List V := if v ∈ s then s else s ++ [v]

def LatIdx.insert (m : LatIdx K V) (k : K) (v : V) : LatIdx K V :=
  HMap.upsert m k fun
    | some s => setAdd s v
    | none => [v]

/-- `for (k, v) in hm1.drain() { hm2.entry(k).or_default().extend(v) }` — no swap here -/
def LatIdx.moveContents (frm to : LatIdx K V) : LatIdx K V × LatIdx K V :=
  ([], frm.foldl (fun acc kv => HMap.upsert acc kv.1 fun
      | some s => kv.2.foldl setAdd s
      | none => kv.2.foldl setAdd []) to)

def LatIdx.mergeStep (new delta total : LatIdx K V) : LatIdx K V × LatIdx K V × LatIdx K V :=
  let r := LatIdx.moveContents delta total
  (r.1, new, r.2)

/-! ## `RelNoIndexType = Vec<usize>` -/

abbrev NoIdx (V : Type) := List V

def NoIdx.insert (m : NoIdx V) (v : V) : NoIdx V := m ++ [v]
/-- `ind2.append(ind1)` -/
def NoIdx.moveContents (frm to : NoIdx V) : NoIdx V × NoIdx V := ([], to ++ frm)
def NoIdx.mergeStep (new delta total : NoIdx V) : NoIdx V × NoIdx V × NoIdx V :=
  let r := NoIdx.moveContents delta total
  (r.1, new, r.2)

/-! ## `RelIndexCombined` (total + delta view) -/

/-- `index_get`: `None` iff both sides miss; else the chain of both -/
def combinedGet (a b : Option (List V)) : Option (List V) :=
  match a, b with
  | none, none => none
  | x, y => some (x.getD [] ++ y.getD [])

/-- `is_empty` of the serial map-backed indices (`HashMap::is_empty`): no key at all -/
def HMap.isEmpty (m : HMap K V) : Bool := List.isEmpty m

/-- `RelIndexCombined::is_empty`: both sides are (definitely) empty -/
def combinedIsEmpty (a b : Bool) : Bool := a && b

/-! ## concurrent indices: frozen flag + shards -/

inductive Res (α : Type) where
  | ok (a : α)
  | panic
deriving Repr, DecidableEq

/-- which shard a key lives in; the real choice (hash bits) is unobservable, any function works -/
def shardOf (k : Int) (n : Nat) : Nat := if n = 0 then 0 else (k.toNat + (if k < 0 then 1 else 0)) % n

structure CIdx (V : Type) where
  frozen : Bool
  shards : List (Idx Int V)
deriving Repr, DecidableEq

def CIdx.new (n : Nat) : CIdx V := ⟨false, List.replicate n []⟩

def modifyNth (l : List α) (i : Nat) (f : α → α) : List α :=
  match l, i with
  | [], _ => []
  | x :: xs, 0 => f x :: xs
  | x :: xs, i + 1 => x :: modifyNth xs i f

/-- `index_insert` (both the `&mut self` and the shared `&self` version need `Unfrozen`) -/
def CIdx.insert (c : CIdx V) (k : Int) (v : V) : Res (CIdx V) :=
  if c.frozen then .panic
  else .ok { c with shards := modifyNth c.shards (shardOf k c.shards.length) fun s => Idx.insert s k v }

/-- `index_get` needs `Frozen` -/
def CIdx.get (c : CIdx V) (k : Int) : Res (Option (List V)) :=
  if !c.frozen then .panic
  else .ok ((c.shards.getD (shardOf k c.shards.length) []).get k)

def CIdx.freeze (c : CIdx V) : CIdx V := { c with frozen := true }
def CIdx.unfreeze (c : CIdx V) : CIdx V := { c with frozen := false }

/-- shard-wise `move_index_contents`; both must be unfrozen and have equally many shards (`assert_eq!`) -/
def CIdx.moveContents (frm to : CIdx V) : Res (CIdx V × CIdx V) :=
  if frm.frozen || to.frozen then .panic
  else if frm.shards.length ≠ to.shards.length then .panic
  else
    let rs := (frm.shards.zip to.shards).map fun (f, t) => Idx.moveContents f t
    .ok ({ frm with shards := rs.map (·.1) }, { to with shards := rs.map (·.2) })

def CIdx.entries (c : CIdx V) : List (Int × V) := c.shards.flatMap Idx.entries

/-- `RelIndexRead::is_empty` ("is the relation DEFINITELY empty": generated code skips a whole rule when it
answers `true`): every shard's map is empty; needs `Frozen` -/
def CIdx.isEmpty (c : CIdx V) : Res Bool := if !c.frozen then .panic else .ok (c.shards.all List.isEmpty)

structure CFullIdx (V : Type) where
  frozen : Bool
  shards : List (FullIdx Int V)
deriving Repr, DecidableEq

def CFullIdx.new (n : Nat) : CFullIdx V := ⟨false, List.replicate n []⟩
def CFullIdx.freeze (c : CFullIdx V) : CFullIdx V := { c with frozen := true }
def CFullIdx.unfreeze (c : CFullIdx V) : CFullIdx V := { c with frozen := false }

def CFullIdx.insert (c : CFullIdx V) (k : Int) (v : V) : Res (CFullIdx V) :=
  if c.frozen then .panic
  else .ok { c with shards := modifyNth c.shards (shardOf k c.shards.length) fun s => FullIdx.insert s k v }

/-- the shared-reference `insert_if_not_present` (`insert_if_not_present2`): one critical
section under the shard's write lock — look-up and insert are a single atomic step -/
def CFullIdx.insertIfNotPresent (c : CFullIdx V) (k : Int) (v : V) : Res (CFullIdx V × Bool) :=
  if c.frozen then .panic
  else
    let i := shardOf k c.shards.length
    let r := FullIdx.insertIfNotPresent (c.shards.getD i []) k v
    .ok ({ c with shards := modifyNth c.shards i fun _ => r.1 }, r.2)

/-- the `&mut self` version (`RelFullIndexWrite`) unfreezes first -/
def CFullIdx.insertIfNotPresentMut (c : CFullIdx V) (k : Int) (v : V) : CFullIdx V × Bool :=
  let c := c.unfreeze
  let i := shardOf k c.shards.length
  let r := FullIdx.insertIfNotPresent (c.shards.getD i []) k v
  ({ c with shards := modifyNth c.shards i fun _ => r.1 }, r.2)

def CFullIdx.get (c : CFullIdx V) (k : Int) : Res (Option V) :=
  if !c.frozen then .panic
  else .ok (HMap.get? (c.shards.getD (shardOf k c.shards.length) []) k)

/-- `get_cloned` works in both states -/
def CFullIdx.getCloned (c : CFullIdx V) (k : Int) : Option V :=
  HMap.get? (c.shards.getD (shardOf k c.shards.length) []) k

def CFullIdx.moveContents (frm to : CFullIdx V) : Res (CFullIdx V × CFullIdx V) :=
  if frm.frozen || to.frozen then .panic
  else if frm.shards.length ≠ to.shards.length then .panic
  else
    let rs := (frm.shards.zip to.shards).map fun (f, t) => FullIdx.moveContents f t
    .ok ({ frm with shards := rs.map (·.1) }, { to with shards := rs.map (·.2) })

def CFullIdx.entries (c : CFullIdx V) : List (Int × V) := c.shards.flatMap id

/-- `is_empty`: `len() == 0` of the frozen map -/
def CFullIdx.isEmpty (c : CFullIdx V) : Res Bool := if !c.frozen then .panic else .ok (c.shards.all List.isEmpty)

structure CLatIdx (V : Type) where
  frozen : Bool
  shards : List (LatIdx Int V)
deriving Repr, DecidableEq

def CLatIdx.new (n : Nat) : CLatIdx V := ⟨false, List.replicate n []⟩
def CLatIdx.freeze (c : CLatIdx V) : CLatIdx V := { c with frozen := true }
def CLatIdx.unfreeze (c : CLatIdx V) : CLatIdx V := { c with frozen := false }

def CLatIdx.insert (c : CLatIdx V) (k : Int) (v : V) : Res (CLatIdx V) :=
  if c.frozen then .panic
  else .ok { c with shards := modifyNth c.shards (shardOf k c.shards.length) fun s => LatIdx.insert s k v }

def CLatIdx.get (c : CLatIdx V) (k : Int) : Res (Option (List V)) :=
  if !c.frozen then .panic
  else .ok (HMap.get? (c.shards.getD (shardOf k c.shards.length) []) k)

/-- per shard: swap by map size, per key: extend the larger set with the smaller -/
def latShardMove (frm to : LatIdx Int V) : LatIdx Int V × LatIdx Int V :=
  let (frm, to) := if frm.length > to.length then (to, frm) else (frm, to)
  ([], frm.foldl (fun acc kv => HMap.upsert acc kv.1 fun
      | some occ => if kv.2.length > occ.length then occ.foldl setAdd kv.2 else kv.2.foldl setAdd occ
      | none => kv.2) to)

def CLatIdx.moveContents (frm to : CLatIdx V) : Res (CLatIdx V × CLatIdx V) :=
  if frm.frozen || to.frozen then .panic
  else if frm.shards.length ≠ to.shards.length then .panic
  else
    let rs := (frm.shards.zip to.shards).map fun (f, t) => latShardMove f t
    .ok ({ frm with shards := rs.map (·.1) }, { to with shards := rs.map (·.2) })

def CLatIdx.entries (c : CLatIdx V) : List (Int × V) := c.shards.flatMap Idx.entries

/-- `is_empty`: `len() == 0` of the frozen map -/
def CLatIdx.isEmpty (c : CLatIdx V) : Res Bool := if !c.frozen then .panic else .ok (c.shards.all List.isEmpty)

/-- `CRelNoIndex`: one `Vec` per thread of the pool current at construction -/
structure CNoIdx (V : Type) where
  frozen : Bool
  shards : List (List V)
deriving Repr, DecidableEq

def CNoIdx.new (threads : Nat) : CNoIdx V := ⟨false, List.replicate (max threads 1) []⟩
def CNoIdx.freeze (c : CNoIdx V) : CNoIdx V := { c with frozen := true }
def CNoIdx.unfreeze (c : CNoIdx V) : CNoIdx V := { c with frozen := false }

/-- `&mut self` insert (no frozen check); `thread` = `current_thread_index().unwrap_or(0)` -/
def CNoIdx.insertMut (c : CNoIdx V) (thread : Nat) (v : V) : CNoIdx V :=
  { c with shards := modifyNth c.shards (thread % c.shards.length) fun s => s ++ [v] }

/-- shared insert: `assert!(!self.frozen)` -/
def CNoIdx.insert (c : CNoIdx V) (thread : Nat) (v : V) : Res (CNoIdx V) :=
  if c.frozen then .panic else .ok (c.insertMut thread v)

/-- `index_get`: `assert!(self.frozen)`; all shards chained -/
def CNoIdx.getAll (c : CNoIdx V) : Res (List V) :=
  if !c.frozen then .panic else .ok c.shards.flatten

/-- shard-wise zip (silently truncating to the shorter shard vector), per shard swap-by-size then append -/
def CNoIdx.moveContents (frm to : CNoIdx V) : CNoIdx V × CNoIdx V :=
  let rs := (frm.shards.zip to.shards).map fun (f, t) =>
    let (f, t) := if f.length > t.length then (t, f) else (f, t)
    (([] : List V), t ++ f)
  ({ frm with shards := rs.map (·.1) ++ frm.shards.drop rs.length },
   { to with shards := rs.map (·.2) ++ to.shards.drop rs.length })

end AscentVerif.Index
