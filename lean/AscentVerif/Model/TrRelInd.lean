/-!
# Model of the `trrel` provider: `trrel_binary_ind.rs` (`TrRelIndCommon<T>`), `binary_rel.rs`
# (`BinaryRel<T>`), `trrel_ternary_ind.rs` (`TrRel2IndCommon<T0, T1>`), `T = T0 = T1 = Int`

The `rel_ind_common` value of a `#[ds(trrel)]` relation exists in three copies inside a running
stratum — `new`, `delta`, `total` — and generated code touches them only through

* `RelIndexMerge::init` / `merge_delta_to_total_new_to_delta`           (`Common.init`, `Common.merge`, `Tern.merge`)
* `RelFullIndexWrite::insert_if_not_present` on `new`                   (`Common.insertIfNotPresent`, `Tern.insertIfNotPresent`)
* `RelFullIndexRead::contains_key` on `total`, `delta`                  (`Common.containsKey`, `Tern.containsKey`)
* `RelIndexRead::index_get` / `RelIndexReadAll::iter_all` / `is_empty` / `len_estimate` of the per-access-pattern views
  obtained by `ToRelIndex::to_rel_index`                                (`Common.get*`/`all*`, `Tern.get*`/`all*`)

State, field by field as in Rust:

* `BinaryRel.map : HashMap<T, HashSet<T>>`, `BinaryRel.reverse_map : HashMap<T, Vec<T>>` — association lists of lists
  (`SetMap`).  Hash sets filled through `insert_unique_unchecked` (utils.rs `move_hash_set_contents_disjoint`) can hold
  an element twice if the caller breaks the disjointness precondition; the model appends without looking, too.
* `TrRelIndCommon::{New, Old} { rel, anti_reflexive }` — `Common.new` / `Common.old`.
* `TrRel2IndCommon { map : HashMap<T0, TrRelIndCommon<T1>>, reverse_map1, reverse_map2 : Option<HashMap<T1, AltHashSet<T0>>> }`.

Iteration order of hash maps / sets is arbitrary in Rust; all observations are compared after sorting, and the
model iterates in insertion order.  The two branches of the local `fn join` (trrel_binary_ind.rs:165-214) differ in
iteration order only (same candidate pairs, same `can_add`), so one `joinCands` serves both; its `assert!`s
(non-empty sets) cannot fire because no empty set is ever stored (`join` removes the entry it created if it stays empty).
The `loop` of the merge is run with fuel (number of distinct elements squared + 2: every non-final pass adds a
new pair); exhaustion is `panic` and does not happen.
`MERGE_TIME` / `MERGE_COUNT` statics and the stray `println!` in `TrRelIndNone::index_get` are not modelled.

Outcomes: `Res.ok` or `Res.panic` (`unwrap_new_mut` / `unwrap_old` on the wrong variant, failed `assert!` in `init`,
`Option::unwrap` on a missing reverse map or key, the division in `TrRel2Ind1_2::len_estimate`, repaired: finding F24).

Core Lean only, no imports; executable.
-/
namespace AscentVerif.TrRelInd

inductive Res (α : Type) where
  | ok (a : α)
  | panic
deriving Repr, DecidableEq

@[inline] def Res.bind {α β : Type} (x : Res α) (f : α → Res β) : Res β :=
  match x with
  | .ok a => f a
  | .panic => .panic

instance : Monad Res where
  pure := .ok
  bind := Res.bind

def unwrap {α : Type} : Option α → Res α
  | some a => .ok a
  | none => .panic

/-! ## hash maps of collections -/

/-- `HashMap<T, HashSet<T>>` / `HashMap<T, Vec<T>>` / `HashMap<T1, AltHashSet<T0>>` -/
abbrev SetMap := List (Int × List Int)

/-- `HashMap::get` -/
def smGet (m : SetMap) (k : Int) : Option (List Int) :=
  match m with
  | [] => none
  | (k', s) :: rest => if k' = k then some s else smGet rest k

/-- `map.get(x).is_some_and(|s| s.contains(y))` -/
def smHas (m : SetMap) (x y : Int) : Bool :=
  match smGet m x with
  | some s => s.contains y
  | none => false

/-- `map.entry(x).or_default().push(y)` (a `HashSet::insert` of an element known to be new, `Vec::push`,
`insert_unique_unchecked`): no duplicate check -/
def smPush (m : SetMap) (x y : Int) : SetMap :=
  match m with
  | [] => [(x, [y])]
  | (k, s) :: rest => if k = x then (k, s ++ [y]) :: rest else (k, s) :: smPush rest x y

/-- `HashSet::insert` with duplicate check -/
def smInsert (m : SetMap) (x y : Int) : SetMap := if smHas m x y then m else smPush m x y

/-- all pairs `(key, member)` -/
def smPairs (m : SetMap) : List (Int × Int) := m.flatMap fun ks => ks.2.map fun y => (ks.1, y)

/-- utils.rs `move_hash_map_of_hash_set_contents_disjoint` / `move_hash_map_of_vec_contents`: every collection of
`src` is appended to the collection of the same key in `dst` (created if absent), without duplicate check -/
def smAppend (dst src : SetMap) : SetMap := (smPairs src).foldl (fun acc p => smPush acc p.1 p.2) dst

/-- utils.rs `move_hash_map_of_alt_hash_set_contents`: `to_set.extend(from_set.drain())`, duplicates merged -/
def smUnion (dst src : SetMap) : SetMap := (smPairs src).foldl (fun acc p => smInsert acc p.1 p.2) dst

/-! ## `BinaryRel` -/

structure BinaryRel where
  map : SetMap := []
  rev : SetMap := []
deriving Repr, DecidableEq

/-- `BinaryRel::insert` / `insert_by_ref`: true iff the tuple was not present -/
def BinaryRel.insert (r : BinaryRel) (x y : Int) : BinaryRel × Bool :=
  if smHas r.map x y then (r, false) else ({ map := smPush r.map x y, rev := smPush r.rev y x }, true)

def BinaryRel.contains (r : BinaryRel) (x y : Int) : Bool := smHas r.map x y

def BinaryRel.iterAll (r : BinaryRel) : List (Int × Int) := smPairs r.map

/-! ## `TrRelIndCommon` -/

inductive Common where
  | new (rel : BinaryRel) (antiReflexive : Bool)
  | old (rel : BinaryRel) (antiReflexive : Bool)
deriving Repr, DecidableEq

namespace Common

def antiReflexive : Common → Bool
  | .new _ a => a
  | .old _ a => a

def rel : Common → BinaryRel
  | .new r _ => r
  | .old r _ => r

/-- `impl Default`: `Old { rel: default, anti_reflexive: true }` -/
def default : Common := .old {} true

/-- `make_new`: `New { rel: default, anti_reflexive: true }` -/
def makeNew : Common := .new {} true

def unwrapOld : Common → Res BinaryRel
  | .old r _ => .ok r
  | .new _ _ => .panic

def isEmpty (c : Common) : Bool := c.rel.map.isEmpty

/-- `RelIndexMerge::init` -/
def init (_nw dl tt : Common) : Res (Common × Common × Common) :=
  match dl, tt with
  | .old _ _, .old _ _ => .ok (.new {} dl.antiReflexive, dl, tt)
  | _, _ => .panic

/-- `insert` / `insert_by_ref` (through `unwrap_new_mut`) -/
def insertIfNotPresent (c : Common) (x y : Int) : Res (Common × Bool) :=
  match c with
  | .new r a => let (r', b) := r.insert x y; .ok (.new r' a, b)
  | .old _ _ => .panic

/-- `RelFullIndexRead::contains_key` of `TrRelIndFull` -/
def containsKey (c : Common) (x y : Int) : Bool := c.rel.contains x y

/-! ### the merge -/

/-- candidate pairs of `join(target, target_rev, rel1, rel2_rev, ..)`: `(w, y)` for `x ↦ y` in `rel1` and
`w ∈ rel2_rev[x]`, i.e. the composition `rel2 ; rel1` -/
def joinCands (rel1 rel2Rev : SetMap) : List (Int × Int) :=
  rel1.flatMap fun xs =>
    match smGet rel2Rev xs.1 with
    | none => []
    | some ws => ws.flatMap fun w => xs.2.map fun y => (w, y)

/-- `delta_new_map`, `delta_new_rev_map` and the `changed` flags accumulated over the three joins -/
structure Tgt where
  map : SetMap := []
  rev : SetMap := []
  changed : Bool := false
deriving Repr

/-- the body of `join`: `if can_add(w, y) && entry.insert(y) { target_rev[y].push(w); changed = true }` -/
def joinInto (can : Int → Int → Bool) (t : Tgt) (cands : List (Int × Int)) : Tgt :=
  cands.foldl (fun t p =>
    if can p.1 p.2 && !smHas t.map p.1 p.2 then
      { map := smPush t.map p.1 p.2, rev := smPush t.rev p.2 p.1, changed := true }
    else t) t

/-- `delta_delta_*` (this pass's frontier) and `delta_total_*` (everything found so far) -/
structure Loop where
  ddMap : SetMap
  ddRev : SetMap
  dtMap : SetMap := []
  dtRev : SetMap := []
deriving Repr

/-- the closure `can_add` (lines 222-247); the `cached_*` variables only memoise the three look-ups -/
def canAdd (ar : Bool) (tot : BinaryRel) (s : Loop) (x y : Int) : Bool :=
  !(ar && x == y) && !smHas s.ddMap x y && !smHas s.dtMap x y && !smHas tot.map x y

/-- one pass of the `loop` (lines 215-272) -/
def loopStep (ar : Bool) (tot : BinaryRel) (newMap : SetMap) (s : Loop) : Loop × Bool :=
  let can := canAdd ar tot s
  let t1 := joinInto can {} (joinCands s.ddMap tot.rev)        -- join1: total ; delta_delta
  let t2 := joinInto can t1 (joinCands tot.map s.ddRev)        -- join2: delta_delta ; total
  let t3 := joinInto can t2 (joinCands newMap s.ddRev)         -- join3: delta_delta ; new
  ({ ddMap := t3.map, ddRev := t3.rev, dtMap := smAppend s.dtMap s.ddMap, dtRev := smAppend s.dtRev s.ddRev }, t3.changed)

def loopRun (ar : Bool) (tot : BinaryRel) (newMap : SetMap) : Nat → Loop → Res Loop
  | 0, _ => .panic
  | fuel + 1, s =>
    let r := loopStep ar tot newMap s
    if r.2 then loopRun ar tot newMap fuel r.1 else .ok r.1

/-- distinct elements mentioned by a list of pairs -/
def elems (ps : List (Int × Int)) : List Int := (ps.flatMap fun p => [p.1, p.2]).eraseDups

def mergeFuel (tot : BinaryRel) (newMap : SetMap) : Nat :=
  let n := (elems (smPairs tot.map ++ smPairs newMap)).length
  n * n + 2

/-- `RelIndexMerge::merge_delta_to_total_new_to_delta` (lines 112-284): returns `(new, delta, total)` -/
def merge (nw dl tt : Common) : Res (Common × Common × Common) :=
  let ar := tt.antiReflexive
  let totRel : BinaryRel := match tt with | .new _ _ => {} | .old r _ => r
  let dlRel : BinaryRel := match dl with | .new _ _ => {} | .old r _ => r
  let tot : BinaryRel := { map := smAppend totRel.map dlRel.map, rev := smAppend totRel.rev dlRel.rev }
  match nw with
  | .old _ _ => .panic                                        -- new.unwrap_new_mut()
  | .new newRel _ =>
    match loopRun ar tot newRel.map (mergeFuel tot newRel.map) { ddMap := newRel.map, ddRev := newRel.rev } with
    | .panic => .panic
    | .ok s => .ok (.new {} ar, .old { map := s.dtMap, rev := s.dtRev } ar, .old tot ar)

/-! ### the views (`TrRelIndNone`, `TrRelInd0`, `TrRelInd1`, `TrRelIndFull`); values are the non-key columns -/

/-- `TrRelInd0::index_get((x,))` -/
def get0 (c : Common) (x : Int) : Res (Option (List Int)) := do
  let r ← c.unwrapOld
  pure (smGet r.map x)

/-- `TrRelInd0::iter_all` -/
def all0 (c : Common) : Res SetMap := do
  let r ← c.unwrapOld
  pure r.map

def isEmpty0 (c : Common) : Res Bool := do
  let r ← c.unwrapOld
  pure r.map.isEmpty

/-- `TrRelInd1::index_get((y,))` -/
def get1 (c : Common) (y : Int) : Option (List Int) := smGet c.rel.rev y
def all1 (c : Common) : SetMap := c.rel.rev
def isEmpty1 (c : Common) : Bool := c.rel.rev.isEmpty

/-- `TrRelIndNone::index_get(())`: always `Some` -/
def getNone (c : Common) : List (Int × Int) := c.rel.iterAll

/-- `TrRelIndFull::index_get((x, y))`: `Some(once(()))` iff present -/
def getFull (c : Common) (x y : Int) : Bool := c.rel.contains x y
def allFull (c : Common) : List (Int × Int) := c.rel.iterAll
def isEmptyFull (c : Common) : Bool := c.rel.map.isEmpty

end Common

/-! ## `TrRel2IndCommon` (ternary) -/

structure Tern where
  map : List (Int × Common) := []
  rm1 : Option SetMap := none
  rm2 : Option SetMap := none
deriving Repr

namespace Tern

/-- `TrRel2IndCommonWrapper::<HAS1, HAS2, ..>::default()` -/
def default (has1 has2 : Bool) : Tern :=
  { map := [], rm1 := if has1 then some [] else none, rm2 := if has2 then some [] else none }

def mapGet (m : List (Int × Common)) (k : Int) : Option Common :=
  match m with
  | [] => none
  | (k', c) :: rest => if k' = k then some c else mapGet rest k

def mapSet (m : List (Int × Common)) (k : Int) (c : Common) : List (Int × Common) :=
  match m with
  | [] => [(k, c)]
  | (k', c') :: rest => if k' = k then (k, c) :: rest else (k', c') :: mapSet rest k c

def mapErase (m : List (Int × Common)) (k : Int) : List (Int × Common) := m.filter fun kc => kc.1 != k

/-- `TrRel2IndFullWrite::insert_if_not_present` (lines 449-471) -/
def insertIfNotPresent (t : Tern) (k x y : Int) : Res (Tern × Bool) :=
  let c := (mapGet t.map k).getD Common.makeNew
  match c.insertIfNotPresent x y with
  | .panic => .panic
  | .ok (c', added) =>
    let t' := { t with map := mapSet t.map k c' }
    if !added then .ok (t', false)
    else .ok ({ t' with rm1 := t'.rm1.map fun m => smInsert m x k, rm2 := t'.rm2.map fun m => smInsert m y k }, true)

/-- `TrRel2IndFull::contains_key` -/
def containsKey (t : Tern) (k x y : Int) : Bool :=
  match mapGet t.map k with
  | none => false
  | some c => c.rel.contains x y

/-- accumulator of the two loops of the ternary merge: what is left of `new.map`, `total.map`, `new_delta_map` -/
structure Acc where
  newMap : List (Int × Common)
  totMap : List (Int × Common)
  deltaMap : List (Int × Common) := []

/-- first loop (lines 63-86): keys of `delta` -/
def mergeDeltaKeys (acc : Acc) : List (Int × Common) → Res Acc
  | [] => .ok acc
  | (k, dtr) :: rest =>
    let ntr := (mapGet acc.newMap k).getD Common.makeNew
    let newMap := mapErase acc.newMap k
    let tte := match mapGet acc.totMap k with
      | some te => te
      | none => Common.old {} dtr.antiReflexive
    match Common.merge ntr dtr tte with
    | .panic => .panic
    | .ok (_, d', t') =>
      mergeDeltaKeys { newMap := newMap, totMap := mapSet acc.totMap k t',
                       deltaMap := if d'.isEmpty then acc.deltaMap else acc.deltaMap ++ [(k, d')] } rest

/-- second loop (lines 87-103): keys that only `new` has; for a key `total` lacks the merged total is dropped -/
def mergeNewKeys (acc : Acc) : List (Int × Common) → Res Acc
  | [] => .ok acc
  | (k, ntr) :: rest =>
    match mapGet acc.totMap k with
    | some te =>
      match Common.merge ntr Common.default te with
      | .panic => .panic
      | .ok (_, d', t') => mergeNewKeys { acc with totMap := mapSet acc.totMap k t', deltaMap := acc.deltaMap ++ [(k, d')] } rest
    | none =>
      match Common.merge ntr Common.default Common.default with
      | .panic => .panic
      | .ok (_, d', _) => mergeNewKeys { acc with deltaMap := acc.deltaMap ++ [(k, d')] } rest

/-- lines 106-120: `delta.reverse_map` is moved into `total.reverse_map`, then swapped with `new.reverse_map` -/
def mergeRev (nw dl tt : Option SetMap) : Res (Option SetMap × Option SetMap × Option SetMap) :=
  match dl with
  | none => .ok (nw, dl, tt)
  | some d =>
    match tt, nw with
    | some t, some n => .ok (some [], some n, some (smUnion t d))
    | _, _ => .panic

/-- `merge_delta_to_total_new_to_delta` of `TrRel2IndCommon`: returns `(new, delta, total)` -/
def merge (nw dl tt : Tern) : Res (Tern × Tern × Tern) := do
  let a1 ← mergeDeltaKeys { newMap := nw.map, totMap := tt.map } dl.map
  let a2 ← mergeNewKeys a1 a1.newMap
  let (n1, d1, t1) ← mergeRev nw.rm1 dl.rm1 tt.rm1
  let (n2, d2, t2) ← mergeRev nw.rm2 dl.rm2 tt.rm2
  pure ({ map := [], rm1 := n1, rm2 := n2 }, { map := a2.deltaMap, rm1 := d1, rm2 := d2 }, { map := a2.totMap, rm1 := t1, rm2 := t2 })

/-! ### the views; each value lists the non-key columns -/

/-- `TrRel2Ind0::index_get((k,))` -/
def get0 (t : Tern) (k : Int) : Option (List (Int × Int)) := (mapGet t.map k).map fun c => c.rel.iterAll
def all0 (t : Tern) : List (Int × List (Int × Int)) := t.map.map fun kc => (kc.1, kc.2.rel.iterAll)
def isEmpty0 (t : Tern) : Bool := t.map.isEmpty

/-- `TrRel2Ind0_1::index_get((k, x))` -/
def get01 (t : Tern) (k x : Int) : Option (List Int) := (mapGet t.map k).bind fun c => smGet c.rel.map x
def all01 (t : Tern) : List ((Int × Int) × List Int) :=
  t.map.flatMap fun kc => kc.2.rel.map.map fun xs => ((kc.1, xs.1), xs.2)

/-- `TrRel2Ind0_2::index_get((k, y))` -/
def get02 (t : Tern) (k y : Int) : Option (List Int) := (mapGet t.map k).bind fun c => smGet c.rel.rev y
def all02 (t : Tern) : List ((Int × Int) × List Int) :=
  t.map.flatMap fun kc => kc.2.rel.rev.map fun ys => ((kc.1, ys.1), ys.2)

/-- `TrRel2Ind1::get(x1)`: keys from `reverse_map1`, then `map[k].rel().map.get(x1)` (missing: skipped) -/
def get1 (t : Tern) (x : Int) : Res (Option (List (Int × Int))) := do
  let rm ← unwrap t.rm1
  match smGet rm x with
  | none => pure none
  | some ks =>
    let parts ← ks.mapM fun k => do
      let c ← unwrap (mapGet t.map k)
      pure (match smGet c.rel.map x with
        | none => []
        | some ys => ys.map fun y => (k, y))
    pure (some parts.flatten)

def all1 (t : Tern) : Res (List (Int × List (Int × Int))) := do
  let rm ← unwrap t.rm1
  rm.mapM fun xs => do
    let v ← get1 t xs.1
    let v ← unwrap v
    pure (xs.1, v)

def isEmpty1 (t : Tern) : Res Bool := do
  let rm ← unwrap t.rm1
  pure rm.isEmpty

/-- `TrRel2Ind2::get(x2)`: keys from `reverse_map2`, then `map[k].rel().reverse_map.get(x2).unwrap()` -/
def get2 (t : Tern) (y : Int) : Res (Option (List (Int × Int))) := do
  let rm ← unwrap t.rm2
  match smGet rm y with
  | none => pure none
  | some ks =>
    let parts ← ks.mapM fun k => do
      let c ← unwrap (mapGet t.map k)
      let xs ← unwrap (smGet c.rel.rev y)
      pure (xs.map fun x => (k, x))
    pure (some parts.flatten)

def all2 (t : Tern) : Res (List (Int × List (Int × Int))) := do
  let rm ← unwrap t.rm2
  rm.mapM fun ys => do
    let v ← get2 t ys.1
    let v ← unwrap v
    pure (ys.1, v)

def isEmpty2 (t : Tern) : Res Bool := do
  let rm ← unwrap t.rm2
  pure rm.isEmpty

/-- keys listed for both `x1` and `x2` whose relation holds the pair -/
def keys12 (t : Tern) (ks1 ks2 : List Int) (x y : Int) : Res (List Int) := do
  let both := ks1.filter fun k => ks2.contains k
  both.filterMapM fun k => do
    let c ← unwrap (mapGet t.map k)
    pure (if c.rel.contains x y then some k else none)

/-- `TrRel2Ind1_2::index_get((x1, x2))` -/
def get12 (t : Tern) (x y : Int) : Res (Option (List Int)) := do
  let rm1 ← unwrap t.rm1
  match smGet rm1 x with
  | none => pure none
  | some ks1 =>
    let rm2 ← unwrap t.rm2
    match smGet rm2 y with
    | none => pure none
    | some ks2 => do
      let r ← keys12 t ks1 ks2 x y
      pure (some r)

/-- `TrRel2Ind1_2::iter_all`: one entry per pair of keys of the two reverse maps (possibly with no value) -/
def all12 (t : Tern) : Res (List ((Int × Int) × List Int)) := do
  let rm1 ← unwrap t.rm1
  let rm2 ← unwrap t.rm2
  let entries := rm1.flatMap fun xs => rm2.map fun ys => (xs, ys)
  entries.mapM fun e => do
    let r ← keys12 t e.1.2 e.2.2 e.1.1 e.2.1
    pure ((e.1.1, e.2.1), r)

/-- `TrRel2Ind1_2::len_estimate` (lines 357-361): `rm1.len() * rm2.len() / ((map.len() as f32).sqrt() as usize).max(1)`
(the `.max(1)` since the repair of finding F24: a copy without keys used to divide by zero) -/
def lenEstimate12 (t : Tern) : Res Nat := do
  let rm1 ← unwrap t.rm1
  let rm2 ← unwrap t.rm2
  let d := max (Nat.sqrt t.map.length) 1
  pure (rm1.length * rm2.length / d)

/-- `TrRel2IndNone::index_get(())` -/
def getNone (t : Tern) : List (Int × Int × Int) :=
  t.map.flatMap fun kc => kc.2.rel.iterAll.map fun p => (kc.1, p.1, p.2)

/-- `TrRel2IndFull::index_get((k, x, y))` -/
def getFull (t : Tern) (k x y : Int) : Bool := t.containsKey k x y
def allFull (t : Tern) : List (Int × Int × Int) := t.getNone
def isEmptyFull (t : Tern) : Bool := t.map.isEmpty

end Tern

end AscentVerif.TrRelInd
