/-!
# Model of `byods/ascent-byods-rels/src/trrel_union_find.rs` (`TrRelUnionFind<T>`, `T = Int`)

State, field by field as in Rust:

* `sets : Vec<HashSet<T>>` — list of duplicate-free lists (a merged-away set is left empty),
* `elem_ids : HashMap<T, usize>` — association list,
* `set_subsumptions : HashMap<usize, usize>` — association list (merged set ↦ absorbing set),
* `set_connections`, `reverse_set_connections : HashMap<usize, HashSet<usize>>` —
  association lists of duplicate-free lists.

Hash maps/sets are lists in insertion order; the iteration order of the real ones is
arbitrary, so every observation is compared after sorting.  The one place where Rust's
iteration order can influence a *result* is `get_set_connections(..).dedup()` (consecutive
duplicates only); under the structure's invariant (connections mention dominant ids only)
there are no duplicates and the order is irrelevant.

Outcomes: `Res.ok` or `Res.panic`; `panic` = `unwrap` on a missing key, `map[&k]` on a missing
key, `vec[i]` out of range, a failed `assert!` (including the `#[cfg(debug_assertions)]
self.assert_disjoint_invariant()` calls: the harness is built with debug assertions), or fuel
exhaustion in the recursive walks through `set_subsumptions` (the Rust recursion would
overflow the stack on a cyclic map).  Never a silent default.

Core Lean only, no imports; executable.
-/
namespace AscentVerif.TrRel

inductive Res (α : Type) where
  | ok (a : α)
  | panic
deriving Repr, DecidableEq

@[inline] def Res.bind {α β : Type} (x : Res α) (f : α → Res β) : Res β :=
  match x with
  | .ok a => f a
  | .panic => .panic

instance : Monad Res where
  pure := .ok
  bind := Res.bind

/-- `Option::unwrap` / indexing: `none` is a panic -/
def unwrap {α : Type} : Option α → Res α
  | some a => .ok a
  | none => .panic

/-! ## association lists and duplicate-free lists -/

section AL
variable {κ β : Type} [DecidableEq κ]

/-- `HashMap::get` -/
def alGet (m : List (κ × β)) (k : κ) : Option β :=
  match m with
  | [] => none
  | (k', v) :: rest => if k' = k then some v else alGet rest k

/-- `HashMap::insert`: replace in place, else append -/
def alSet (m : List (κ × β)) (k : κ) (v : β) : List (κ × β) :=
  match m with
  | [] => [(k, v)]
  | (k', v') :: rest => if k' = k then (k', v) :: rest else (k', v') :: alSet rest k v

/-- `HashMap::remove` -/
def alRemove (m : List (κ × β)) (k : κ) : List (κ × β) := m.filter fun kv => kv.1 ≠ k

end AL

abbrev NSet := List Nat
abbrev NMap := List (Nat × NSet)

/-- `HashSet::insert`: the set and whether the value was newly inserted -/
def nsInsert (s : NSet) (x : Nat) : NSet × Bool := if s.contains x then (s, false) else (s ++ [x], true)
/-- `HashSet::remove` -/
def nsRemove (s : NSet) (x : Nat) : NSet := s.filter (· != x)
/-- `HashSet::extend` -/
def nsExtend (s : NSet) (xs : List Nat) : NSet := xs.foldl (fun acc x => (nsInsert acc x).1) s
/-- `a.difference(b)` -/
def nsDiff (a b : NSet) : NSet := a.filter fun x => !b.contains x
/-- `a.intersection(b)` -/
def nsInter (a b : NSet) : NSet := a.filter fun x => b.contains x

/-- `keep_difference(set, to_subtract)`: both branches as coded -/
def keepDifference (set sub : NSet) : NSet :=
  if set.length > sub.length then sub.foldl nsRemove set
  else set.filter fun x => !sub.contains x

/-- `map.entry(k).or_default()`: the map with the entry made to exist, and its value -/
def entryOrDefault (m : NMap) (k : Nat) : NMap × NSet :=
  match alGet m k with
  | some s => (m, s)
  | none => (alSet m k [], [])

/-- `map.entry(k).or_default().insert(x)` -/
def entryInsert (m : NMap) (k x : Nat) : NMap × Bool :=
  let (m, s) := entryOrDefault m k
  let (s, b) := nsInsert s x
  (alSet m k s, b)

/-- `map.entry(k).or_default().extend(xs)` -/
def entryExtend (m : NMap) (k : Nat) (xs : List Nat) : NMap :=
  let (m, s) := entryOrDefault m k
  alSet m k (nsExtend s xs)

/-- `merge_sets(set1, set2)` of utils.rs: extend the larger with the smaller -/
def mergeSets (s1 s2 : List Int) : List Int :=
  let (a, b) := if s1.length < s2.length then (s2, s1) else (s1, s2)
  b.foldl (fun acc x => if acc.contains x then acc else acc ++ [x]) a

/-- `Vec` index assignment (`self.sets[i] = v`), in range by a previous read -/
def setNth {α : Type} (l : List α) (i : Nat) (v : α) : List α := l.set i v

/-! ## the structure -/

structure TrRel where
  sets : List (List Int) := []
  elemIds : List (Int × Nat) := []
  subs : List (Nat × Nat) := []
  conn : NMap := []
  rconn : NMap := []
deriving Repr, DecidableEq

namespace TrRel

/-- `get_dominant_id` (fuel: the recursion follows `set_subsumptions`) -/
def getDominantIdAux (subs : List (Nat × Nat)) (id : Nat) : Nat → Res Nat
  | 0 => .panic
  | fuel + 1 =>
    match alGet subs id with
    | some dom => getDominantIdAux subs dom fuel
    | none => .ok id

def getDominantId (t : TrRel) (id : Nat) : Res Nat := getDominantIdAux t.subs id (t.subs.length + 1)

/-- `get_dominant_id_mut_with_depth` (full path compression); the depth statistic is dropped -/
def getDominantIdMutAux (subs : List (Nat × Nat)) (id : Nat) : Nat → Res (List (Nat × Nat) × Nat)
  | 0 => .panic
  | fuel + 1 =>
    match alGet subs id with
    | some parent =>
      match getDominantIdMutAux subs parent fuel with
      | .panic => .panic
      | .ok (subs', dom) => .ok (if dom ≠ parent then alSet subs' id dom else subs', dom)
    | none => .ok (subs, id)

/-- `get_dominant_id_mut` -/
def getDominantIdMut (t : TrRel) (id : Nat) : Res (TrRel × Nat) :=
  match getDominantIdMutAux t.subs id (t.subs.length + 1) with
  | .panic => .panic
  | .ok (subs', dom) => .ok ({ t with subs := subs' }, dom)

/-- `elem_set` -/
def elemSet (t : TrRel) (elem : Int) : Res (Option Nat) :=
  match alGet t.elemIds elem with
  | none => .ok none
  | some id => do let d ← t.getDominantId id; pure (some d)

/-- `elem_set_update` -/
def elemSetUpdate (t : TrRel) (elem : Int) : Res (TrRel × Option Nat) :=
  match alGet t.elemIds elem with
  | none => .ok (t, none)
  | some id => do
    let (t, dom) ← t.getDominantIdMut id
    let t := if id ≠ dom then { t with elemIds := alSet t.elemIds elem dom } else t
    pure (t, some dom)

/-- Bool version of `assert_disjoint_invariant` -/
def disjointInvariant (t : TrRel) : Bool :=
  go t.sets []
where
  go : List (List Int) → List Int → Bool
    | [], _ => true
    | s :: rest, seen => (s.all fun x => !seen.contains x) && go rest (seen ++ s)

/-- `add_node_new` -/
def addNodeNew (t : TrRel) (x : Int) : Res (TrRel × Nat × Bool) := do
  let (t, r) ← t.elemSetUpdate x
  let (t, res) := match r with
    | some setId => (t, (setId, false))
    | none =>
      let elemId := t.sets.length
      ({ t with sets := t.sets ++ [[x]], elemIds := alSet t.elemIds x elemId }, (elemId, true))
  if !t.disjointInvariant then .panic else pure (t, res)

/-- `add_one_connection` -/
def addOneConnection (t : TrRel) (frm to : Nat) : TrRel × Bool :=
  let (conn, isNew) := entryInsert t.conn frm to
  if !isNew then ({ t with conn := conn }, false)
  else ({ t with conn := conn, rconn := (entryInsert t.rconn to frm).1 }, true)

/-- `add_set_connection`, statement by statement -/
def addSetConnection (t : TrRel) (frm to : Nat) : Res (TrRel × Bool) := do
  let (conn, isNew) := entryInsert t.conn frm to
  if !isNew then return ({ t with conn := conn }, false)
  let rconn := (entryInsert t.rconn to frm).1
  -- take(reverse_set_connections.entry(from).or_default())
  let (rconn, fromRev) := entryOrDefault rconn frm
  let rconn := alSet rconn frm []
  -- take(set_connections.entry(to).or_default())
  let (conn, toConn) := entryOrDefault conn to
  let conn := alSet conn to []
  let newTo := nsDiff toConn (← unwrap (alGet conn frm))
  let newFromRev := nsDiff fromRev (← unwrap (alGet rconn to))
  let t1 : TrRel := { t with conn := conn, rconn := rconn }
  let t2 := newFromRev.foldl (fun t x' => newTo.foldl (fun t y' => (addOneConnection t x' y').1) t) t1
  let conn := newFromRev.foldl (fun c x' => (entryInsert c x' to).1) t2.conn
  let rconn := newTo.foldl (fun c y' => (entryInsert c y' frm).1) t2.rconn
  let rconn := entryExtend rconn to fromRev
  let conn := entryExtend conn frm toConn
  let rconn := alSet rconn frm fromRev
  let conn := alSet conn to toConn
  return ({ t2 with conn := conn, rconn := rconn }, true)

/-- first half of the `for s in [from, to]` body of `merge_multiple`: fix the reverse
connections of everything `s` points to -/
def mergeFixForward (t : TrRel) (s frm to : Nat) (inBetween : NSet) : TrRel :=
  match alGet t.conn s with
  | none => t
  | some sConn =>
    (nsDiff sConn inBetween).foldl (fun t z =>
      let (rconn, zRev) := entryOrDefault t.rconn z
      let zRev := keepDifference zRev inBetween
      let zRev := nsRemove zRev to
      let zRev := (nsInsert zRev frm).1
      { t with rconn := alSet rconn z zRev }) t

/-- second half: fix the connections of everything that points to `s` -/
def mergeFixBackward (t : TrRel) (s frm to : Nat) (inBetween : NSet) : TrRel :=
  match alGet t.rconn s with
  | none => t
  | some sRev =>
    (nsDiff sRev inBetween).foldl (fun t z =>
      let (conn, zConn) := entryOrDefault t.conn z
      let zConn := keepDifference zConn inBetween
      let zConn := (nsInsert zConn frm).1
      let zConn := nsRemove zConn to
      { t with conn := alSet conn z zConn }) t

/-- the `for s in in_between.iter().chain([to])` loop of `merge_multiple` -/
def mergeAbsorb (t : TrRel) (frm : Nat) : List Nat → Res TrRel
  | [] => .ok t
  | s :: rest => do
    if frm = s then .panic
    let conn := alRemove t.conn s
    let rconn := alRemove t.rconn s
    let sTaken ← unwrap t.sets[s]?
    let sets := setNth t.sets s []
    let fromSet ← unwrap sets[frm]?
    let sets := setNth sets frm (mergeSets fromSet sTaken)
    mergeAbsorb { t with conn := conn, rconn := rconn, sets := sets, subs := alSet t.subs s frm } frm rest

/-- `merge_multiple(from, to, in_between)` -/
def mergeMultiple (t : TrRel) (frm to : Nat) (inBetween : NSet) : Res (TrRel × Nat) := do
  let t := mergeFixForward t frm frm to inBetween
  let t := mergeFixBackward t frm frm to inBetween
  let t := mergeFixForward t to frm to inBetween
  let t := mergeFixBackward t to frm to inBetween
  let t ← mergeAbsorb t frm (inBetween ++ [to])
  let fromConn ← unwrap (alGet t.conn frm)
  let t := { t with conn := alSet t.conn frm (keepDifference (nsRemove fromConn to) inBetween) }
  let fromRev ← unwrap (alGet t.rconn frm)
  let t := { t with rconn := alSet t.rconn frm (keepDifference (nsRemove fromRev to) inBetween) }
  if !t.disjointInvariant then .panic else pure (t, frm)

/-- `add(x, y) -> bool` -/
def add (t : TrRel) (x y : Int) : Res (TrRel × Bool) := do
  let (t, xSet, xNew) ← t.addNodeNew x
  let (t, ySet, yNew) ← t.addNodeNew y
  if xNew || yNew then
    let (t, _) ← t.addSetConnection xSet ySet
    return (t, true)
  if xSet = ySet then return (t, false)
  if (alGet t.conn ySet).any fun s => s.contains xSet then
    -- back edge: collapse
    let ySetConn ← unwrap (alGet t.conn ySet)
    let xSetRev ← unwrap (alGet t.rconn xSet)
    let toBeMerged := nsInter ySetConn xSetRev
    let toBeMerged := nsRemove toBeMerged xSet
    let toBeMerged := (nsInsert toBeMerged ySet).1
    let t := { t with rconn := alSet t.rconn xSet (keepDifference xSetRev toBeMerged) }
    let t := { t with conn := alSet t.conn ySet (keepDifference ySetConn toBeMerged) }
    let ySetConn ← unwrap (alGet t.conn ySet)
    let t := { t with conn := alSet t.conn ySet (nsRemove ySetConn xSet) }
    let xSetRev ← unwrap (alGet t.rconn xSet)
    let t := { t with rconn := alSet t.rconn xSet (nsRemove xSetRev ySet) }
    let (t, _) ← t.addSetConnection xSet ySet
    let toBeMerged := nsRemove toBeMerged ySet
    let (t, merged) ← t.mergeMultiple xSet ySet toBeMerged
    if (alGet t.elemIds x).isNone then .panic
    let t := { t with elemIds := alSet t.elemIds x merged }
    if (alGet t.elemIds y).isNone then .panic
    let t := { t with elemIds := alSet t.elemIds y merged }
    return (t, true)
  else
    let (t, _) ← t.addSetConnection xSet ySet
    return (t, true)

/-! ## queries (all `&self`, no mutation) -/

/-- `Itertools::dedup`: drop consecutive duplicates -/
def dedupConsecutive : List Nat → List Nat
  | [] => []
  | [x] => [x]
  | x :: y :: rest => if x = y then dedupConsecutive (y :: rest) else x :: dedupConsecutive (y :: rest)

/-- `get_set_connections(set)`: `None` if the set has no entry -/
def getSetConnections (t : TrRel) (set : Nat) : Res (Option (List Nat)) :=
  match alGet t.conn set with
  | none => .ok none
  | some c => do
    let ds ← c.mapM fun x => t.getDominantId x
    pure (some (dedupConsecutive ds))

/-- `set_of_by_set_id` / `rev_set_of_by_set_id` over the given map -/
def setOfBySetIdIn (t : TrRel) (m : NMap) (id : Nat) : Res (List Int) := do
  let id ← t.getDominantId id
  let ids := ((alGet m id).getD []).filter (· != id) ++ [id]
  let parts ← ids.mapM fun s => unwrap t.sets[s]?
  pure parts.flatten

/-- `set_of` -/
def setOf (t : TrRel) (x : Int) : Res (Option (List Int)) := do
  match ← t.elemSet x with
  | none => pure none
  | some id => do let r ← t.setOfBySetIdIn t.conn id; pure (some r)

/-- `rev_set_of` -/
def revSetOf (t : TrRel) (x : Int) : Res (Option (List Int)) := do
  match ← t.elemSet x with
  | none => pure none
  | some id => do let r ← t.setOfBySetIdIn t.rconn id; pure (some r)

/-- `iter_all`: for every entry `(x, id)` of `elem_ids`, the pairs `(x, y)` for `y` in the set of `id` -/
def iterAll (t : TrRel) : Res (List (Int × Int)) := do
  let parts ← t.elemIds.mapM fun (x, id) => do
    let ys ← t.setOfBySetIdIn t.conn id
    pure (ys.map fun y => (x, y))
  pure parts.flatten

/-- `contains` -/
def contains (t : TrRel) (x y : Int) : Res Bool := do
  match ← t.elemSet x with
  | none => pure false
  | some set =>
    let own ← unwrap t.sets[set]?
    if own.contains y then pure true
    else
      match ← t.getSetConnections set with
      | none => pure false
      | some ss => anyM ss
where
  anyM : List Nat → Res Bool
    | [] => .ok false
    | s :: rest =>
      match t.sets[s]? with
      | none => .panic
      | some set => if set.contains y then .ok true else anyM rest

/-- `count_exact` -/
def countExact (t : TrRel) : Res Nat := do
  let doms ← (List.range t.sets.length).mapM fun s => t.getDominantId s
  let dominantSets := doms.eraseDups
  let mut res := 0
  for s in dominantSets do
    let sLen := (← unwrap t.sets[s]?).length
    res := res + sLen * sLen
    match ← t.getSetConnections s with
    | none => pure ()
    | some ss =>
      for s2 in ss do
        if s == s2 then continue
        res := res + sLen * (← unwrap t.sets[s2]?).length
  pure res

/-- Bool version of `assert_set_connections_dominant_sets` -/
def connectionsDominant (t : TrRel) : Bool :=
  let dominated := (List.range t.sets.length).filter fun s => (alGet t.subs s).isSome
  (t.conn.all fun (_, sc) => (nsInter sc dominated).isEmpty) &&
  (t.rconn.all fun (_, rsc) => (nsInter rsc dominated).isEmpty)

end TrRel
end AscentVerif.TrRel
