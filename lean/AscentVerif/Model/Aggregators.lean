/-!
# Model of `ascent/src/aggregators.rs`

One definition per library aggregator, written the way the Rust code computes it
(`Iterator::min` is a left fold keeping the first minimum, `Iterator::max` keeps the last
maximum, `sum` is a fold from zero, `count` trusts `size_hint` when floor = ceiling, ...).
Column values are mathematical integers; `mean` returns the exact pair (sum, count) and
`percentile` takes `p` as a non-negative rational `pnum / pden`; floating point is outside
the model (see DESIGN.md, trusted base).  Core Lean only; executable.
-/
namespace AscentVerif.Agg

/-- `Iterator::min`: `reduce(|x, y| if compare(x, y) == Greater { y } else { x })` -/
def aggMin (l : List Int) : Option Int :=
  l.foldl (fun acc y => match acc with
    | none => some y
    | some x => some (if y < x then y else x)) none

/-- `Iterator::max`: `reduce(|x, y| if compare(x, y) == Greater { x } else { y })` -/
def aggMax (l : List Int) : Option Int :=
  l.foldl (fun acc y => match acc with
    | none => some y
    | some x => some (if y < x then x else y)) none

/-- `inp.cloned().sum()` (always yields exactly one value) -/
def aggSum (l : List Int) : Int := l.foldl (· + ·) 0

/-- An iterator of units as `count` sees it: its true length and the `size_hint` it reports. -/
structure UnitIter where
  len : Nat
  lo : Nat
  hi : Option Nat

/-- the `Iterator::size_hint` contract -/
def UnitIter.Honest (it : UnitIter) : Prop :=
  it.lo ≤ it.len ∧ ∀ h, it.hi = some h → it.len ≤ h

/-- `count`: `if floor == ceiling.unwrap_or(MAX) { floor } else { inp.count() }`.
`usize::MAX` is modelled as "no `Nat` equals it". -/
def aggCount (it : UnitIter) : Nat :=
  match it.hi with
  | some h => if it.lo = h then it.lo else it.len
  | none => it.len

/-- `mean`: `None` on empty input, else `sum / count`; the model returns the exact fraction. -/
def aggMean (l : List Int) : Option (Int × Nat) :=
  if l.length = 0 then none else some (aggSum l, l.length)

/-- `not`: one unit iff the input is empty -/
def aggNot (n : Nat) : List Unit := if n = 0 then [()] else []

/-- insertion of `x` into a sorted list (the model of `sort()`; any sort gives the same list) -/
def insertSorted (x : Int) : List Int → List Int
  | [] => [x]
  | y :: ys => if x ≤ y then x :: y :: ys else y :: insertSorted x ys

def sortInts (l : List Int) : List Int := l.foldr insertSorted []

/-- `(len as f64 * p / 100.0) as usize` for `p = pnum / pden ≥ 0`: the floor of the exact
quotient (the tie only uses `p` for which the `f64` computation is exact). -/
def pIndexRaw (len pnum pden : Nat) : Nat := (len * pnum) / (100 * pden)

/-- `.min(len - 1)`: the clamp added by the `fix:` commit for F1 -/
def pIndex (len pnum pden : Nat) : Nat := min (pIndexRaw len pnum pden) (len - 1)

/-- `percentile(p)`: sort, index, `swap_remove(idx)` returns the element at `idx`.
`none` also models nothing-yielded on empty input. -/
def aggPercentile (pnum pden : Nat) (l : List Int) : Option Int :=
  if (sortInts l).length = 0 then none else (sortInts l)[pIndex (sortInts l).length pnum pden]?

/-- the same with the pre-fix index: `swap_remove` panics when the index is out of range -/
inductive Out (α : Type) where
  | ok (a : α)
  | panic
deriving Repr, DecidableEq

def aggPercentilePreFix (pnum pden : Nat) (l : List Int) : Out (Option Int) :=
  if (sortInts l).length = 0 then .ok none
  else match (sortInts l)[pIndexRaw (sortInts l).length pnum pden]? with
    | some x => .ok (some x)
    | none => .panic

end AscentVerif.Agg
