import AscentVerif.Model.Syntax
import AscentVerif.Model.Lattice
import AscentVerif.Model.Aggregators
/-!
# The concrete interpretation used by the executable ties

A small expression language that both the Lean driver and the generated Rust programs can
evaluate identically: integer arithmetic and comparisons, `Some/None`, `Set::singleton`,
ranges and literal lists as generators, `if let Some(x) = e`, the library aggregators, and
the lattice column types used in generated programs (via the C16 lattice model).
-/
namespace AscentVerif.Std
open AscentVerif

inductive Ex where
  | const (v : Val)
  | var (x : Var)
  | add (a b : Ex)
  | sub (a b : Ex)
  | mul (a b : Ex)
  | min (a b : Ex)
  | max (a b : Ex)
  | some (a : Ex)
  | single (a : Ex)       -- `Set::singleton(a)`
deriving Repr, Inhabited

inductive Bx where
  | tt
  | lt (a b : Ex)
  | le (a b : Ex)
  | eq (a b : Ex)
  | ne (a b : Ex)
  | and (a b : Bx)
  | or (a b : Bx)
  | not (a : Bx)
deriving Repr, Inhabited

inductive Gx where
  | range (lo hi : Ex)     -- `lo..hi`
  | list (xs : List Ex)    -- `[a, b, c]`
deriving Repr

inductive Px where
  | some                   -- `if let Some(x) = e`
deriving Repr

inductive Ax where
  | count
  | sum
  | min
  | max
  | not
  /-- a USER-DEFINED aggregator with two bound arguments (harness `common.rs`): `argmin(cost, item)` returns the `item` of the
  lexicographically least `(cost, item)` pair; nothing on an empty input -/
  | argmin
  /-- a USER-DEFINED aggregator that returns TWO values, the least and the greatest of the column (nothing on an empty input): the rule
  fires once per value -/
  | minmax
deriving Repr, DecidableEq

/-- lattice column types of generated programs -/
inductive LatKind where
  | maxInt      -- `i64`
  | minInt      -- `Dual<i64>`
  | setUnion    -- `Set<i64>`
  | optMax      -- `Option<i64>`
  | bset3       -- `BoundedSet<3, i64>`: `.set l` for a set, `.optNone` for TOP
deriving Repr, DecidableEq

def intOf : Val → Int
  | .int n => n
  | _ => 0

def evalEx (ρ : Env) : Ex → Val
  | .const v => v
  | .var x => (ρ.get? x).getD .unit
  | .add a b => .int (intOf (evalEx ρ a) + intOf (evalEx ρ b))
  | .sub a b => .int (intOf (evalEx ρ a) - intOf (evalEx ρ b))
  | .mul a b => .int (intOf (evalEx ρ a) * intOf (evalEx ρ b))
  | .min a b => .int (Min.min (intOf (evalEx ρ a)) (intOf (evalEx ρ b)))
  | .max a b => .int (Max.max (intOf (evalEx ρ a)) (intOf (evalEx ρ b)))
  | .some a => .optSome (evalEx ρ a)
  | .single a => .set [intOf (evalEx ρ a)]

def evalBx (ρ : Env) : Bx → Bool
  | .tt => true
  | .lt a b => intOf (evalEx ρ a) < intOf (evalEx ρ b)
  | .le a b => intOf (evalEx ρ a) ≤ intOf (evalEx ρ b)
  | .eq a b => evalEx ρ a == evalEx ρ b
  | .ne a b => evalEx ρ a != evalEx ρ b
  | .and a b => evalBx ρ a && evalBx ρ b
  | .or a b => evalBx ρ a || evalBx ρ b
  | .not a => !evalBx ρ a

def evalGx (ρ : Env) : Gx → List Val
  | .range lo hi =>
    let l := intOf (evalEx ρ lo)
    let h := intOf (evalEx ρ hi)
    (List.range (h - l).toNat).map fun (i : Nat) => Val.int (l + (i : Int))
  | .list xs => xs.map (evalEx ρ)

def evalPx : Px → Val → Option (List Val)
  | .some, .optSome v => some [v]
  | .some, _ => none

/-- library aggregators over the bag of bound-argument tuples (first column is aggregated) -/
def evalAx : Ax → List Tuple → List Tuple
  | .count, bag => [[.int (Agg.aggCount ⟨bag.length, bag.length, some bag.length⟩)]]
  | .sum, bag => [[.int (Agg.aggSum (bag.map fun t => intOf (t.headD .unit)))]]
  | .min, bag => (Agg.aggMin (bag.map fun t => intOf (t.headD .unit))).toList.map fun m => [.int m]
  | .max, bag => (Agg.aggMax (bag.map fun t => intOf (t.headD .unit))).toList.map fun m => [.int m]
  | .not, bag => (Agg.aggNot bag.length).map fun _ => []
  | .minmax, bag =>
    match Agg.aggMin (bag.map fun t => intOf (t.headD .unit)), Agg.aggMax (bag.map fun t => intOf (t.headD .unit)) with
    | some a, some b => [[.int a], [.int b]]
    | _, _ => []
  | .argmin, bag =>
    match Agg.aggMin (bag.map fun t => intOf (t.headD .unit)) with
    | none => []
    | some m =>
      (Agg.aggMin ((bag.filter fun t => intOf (t.headD .unit) == m).map fun t => intOf (t.getD 1 .unit))).toList.map fun b => [.int b]

open Lat in
/-- `join_mut` of the lattice column, through the C16 model of the column's type -/
def LatKind.joinMut : LatKind → Val → Val → Val × Bool
  | .maxInt, a, b =>
    let r := Lat.joinMut (⟨intOf a⟩ : Prim Int) ⟨intOf b⟩; (if r.2 then .int r.1.val else a, r.2)
  | .minInt, a, b =>
    let r := Lat.joinMut (⟨⟨intOf a⟩⟩ : Dual (Prim Int)) ⟨⟨intOf b⟩⟩; (if r.2 then .int r.1.val.val else a, r.2)
  | .setUnion, .set a, .set b =>
    let r := Lat.joinMut (⟨a⟩ : LSet) ⟨b⟩; (.set r.1.elems, r.2)
  | .optMax, a, b =>
    let dec : Val → Option (Prim Int) := fun
      | .optSome (.int n) => some ⟨n⟩
      | _ => none
    let r := Lat.joinMut (dec a) (dec b)
    ((match r.1 with | some x => .optSome (.int x.val) | none => .optNone), r.2)
  | .bset3, a, b =>
    let dec : Val → BSet 3 := fun
      | .set l => ⟨some ⟨l⟩⟩
      | _ => ⟨none⟩
    let r := Lat.joinMut (dec a) (dec b)
    ((match r.1.val with | some x => .set x.elems | none => .optNone), r.2)
  | _, a, _ => (a, false)

def interp (kinds : RelId → LatKind) : Interp Ex Bx Gx Px Ax where
  expr e ρ := evalEx ρ e
  test b ρ := evalBx ρ b
  gen g ρ := evalGx ρ g
  pat := evalPx
  agg := evalAx
  joinMut r := (kinds r).joinMut

end AscentVerif.Std
