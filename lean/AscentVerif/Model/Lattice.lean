/-!
# Model of `ascent_base/src/lattice.rs` and `ascent_base/src/lattice/*.rs`

`Lat α` carries what a Rust `Lattice` implementation provides: `partial_cmp` (from the
type's `PartialOrd`), the in-place `join_mut` / `meet_mut` returning the new receiver and
the "changed" flag, and the by-value `join` / `meet` **as the type implements them** (the
trait's default is `{ self.join_mut(other); self }`; `Dual`, `Reverse`, `OrdLattice`,
tuples, `Product`, `Set`, `BoundedSet` and `ConstPropagation` override it).

Every instance below follows the Rust code arm by arm.  Core Lean only; executable.
-/
namespace AscentVerif.Lat

class Lat (α : Type) where
  pcmp : α → α → Option Ordering
  joinMut : α → α → α × Bool
  meetMut : α → α → α × Bool
  join : α → α → α
  meet : α → α → α

class BLat (α : Type) extends Lat α where
  bottom : α
  top : α

export Lat (pcmp joinMut meetMut join meet)

/-- Rust's derived comparison operators on `PartialOrd` -/
def le [Lat α] (a b : α) : Bool := pcmp a b == some .lt || pcmp a b == some .eq
def ge [Lat α] (a b : α) : Bool := pcmp a b == some .gt || pcmp a b == some .eq

/-! ## linear orders (`Ord` types): integers, `bool`, lexicographic tuples -/

class LinOrd (α : Type) where
  cmp : α → α → Ordering

instance : LinOrd Int := ⟨fun a b => compare a b⟩
instance : LinOrd Nat := ⟨fun a b => compare a b⟩
instance : LinOrd Bool := ⟨fun a b => compare a.toNat b.toNat⟩
instance : LinOrd Unit := ⟨fun _ _ => .eq⟩

/-- `ord_lattice_impl!`: `changed = !(*self <= other); if changed { *self = other }` (meet)
and `changed = !(*self >= other)` (join), for `bool` and every primitive integer type -/
structure Prim (α : Type) where
  val : α
deriving DecidableEq, Repr

instance [LinOrd α] : Lat (Prim α) where
  pcmp a b := some (LinOrd.cmp a.val b.val)
  meetMut a b :=
    let changed := !(LinOrd.cmp a.val b.val == .lt || LinOrd.cmp a.val b.val == .eq)
    (if changed then b else a, changed)
  joinMut a b :=
    let changed := !(LinOrd.cmp a.val b.val == .gt || LinOrd.cmp a.val b.val == .eq)
    (if changed then b else a, changed)
  meet a b := if !(LinOrd.cmp a.val b.val == .lt || LinOrd.cmp a.val b.val == .eq) then b else a
  join a b := if !(LinOrd.cmp a.val b.val == .gt || LinOrd.cmp a.val b.val == .eq) then b else a

/-- a primitive integer type with its `MIN`/`MAX` (`num_lattice_impl!`), e.g. `u8 = BInt 0 255` -/
structure BInt (lo hi : Int) where
  val : Int
deriving DecidableEq, Repr

instance : LinOrd (BInt lo hi) := ⟨fun a b => compare a.val b.val⟩

instance : BLat (Prim (BInt lo hi)) where
  bottom := ⟨⟨lo⟩⟩
  top := ⟨⟨hi⟩⟩

instance : BLat (Prim Bool) where
  bottom := ⟨false⟩
  top := ⟨true⟩

/-! ## `Option<T>` (derived `PartialOrd`: `None < Some(_)`) -/

instance [Lat α] : Lat (Option α) where
  pcmp
    | none, none => some .eq
    | none, some _ => some .lt
    | some _, none => some .gt
    | some x, some y => pcmp x y
  meetMut
    | some x, some y => let r := meetMut x y; (some r.1, r.2)
    | some _, none => (none, true)
    | none, _ => (none, false)
  joinMut
    | some x, some y => let r := joinMut x y; (some r.1, r.2)
    | none, some y => (some y, true)
    | a, none => (a, false)
  meet a b := (match a, b with
    | some x, some y => let r := meetMut x y; (some r.1, r.2)
    | some _, none => (none, true)
    | none, _ => (none, false)).1
  join a b := (match a, b with
    | some x, some y => let r := joinMut x y; (some r.1, r.2)
    | none, some y => (some y, true)
    | a, none => (a, false)).1

instance [BLat α] : BLat (Option α) where
  bottom := none
  top := some BLat.top

/-! ## `Box<T>`: delegates; `Rc<T>` / `Arc<T>`: compare first, mutate only when incomparable -/

structure Boxed (α : Type) where
  val : α
deriving DecidableEq, Repr

instance [Lat α] : Lat (Boxed α) where
  pcmp a b := pcmp a.val b.val
  meetMut a b := let r := meetMut a.val b.val; (⟨r.1⟩, r.2)
  joinMut a b := let r := joinMut a.val b.val; (⟨r.1⟩, r.2)
  meet a b := ⟨(meetMut a.val b.val).1⟩
  join a b := ⟨(joinMut a.val b.val).1⟩

structure Shared (α : Type) where
  val : α
deriving DecidableEq, Repr

instance [Lat α] : Lat (Shared α) where
  pcmp a b := pcmp a.val b.val
  meetMut a b :=
    match pcmp a.val b.val with
    | some .lt | some .eq => (a, false)
    | some .gt => (b, true)
    | none => let r := meetMut a.val b.val; (⟨r.1⟩, r.2)
  joinMut a b :=
    match pcmp a.val b.val with
    | some .gt | some .eq => (a, false)
    | some .lt => (b, true)
    | none => let r := joinMut a.val b.val; (⟨r.1⟩, r.2)
  meet a b :=
    (match pcmp a.val b.val with
    | some .lt | some .eq => (a, false)
    | some .gt => (b, true)
    | none => let r := meetMut a.val b.val; ((⟨r.1⟩ : Shared α), r.2)).1
  join a b :=
    (match pcmp a.val b.val with
    | some .gt | some .eq => (a, false)
    | some .lt => (b, true)
    | none => let r := joinMut a.val b.val; ((⟨r.1⟩ : Shared α), r.2)).1

/-! ## `Dual<T>` and `std::cmp::Reverse<T>`: order reversed, operations swapped -/

structure Dual (α : Type) where
  val : α
deriving DecidableEq, Repr

instance [Lat α] : Lat (Dual α) where
  pcmp a b := pcmp b.val a.val
  meet a b := ⟨join a.val b.val⟩
  join a b := ⟨meet a.val b.val⟩
  meetMut a b := let r := joinMut a.val b.val; (⟨r.1⟩, r.2)
  joinMut a b := let r := meetMut a.val b.val; (⟨r.1⟩, r.2)

instance [BLat α] : BLat (Dual α) where
  top := ⟨BLat.bottom⟩
  bottom := ⟨BLat.top⟩

structure Rev (α : Type) where
  val : α
deriving DecidableEq, Repr

instance [Lat α] : Lat (Rev α) where
  pcmp a b := pcmp b.val a.val
  meet a b := ⟨join a.val b.val⟩
  join a b := ⟨meet a.val b.val⟩
  meetMut a b := let r := joinMut a.val b.val; (⟨r.1⟩, r.2)
  joinMut a b := let r := meetMut a.val b.val; (⟨r.1⟩, r.2)

instance [BLat α] : BLat (Rev α) where
  bottom := ⟨BLat.top⟩
  top := ⟨BLat.bottom⟩

/-! ## `OrdLattice<T: Ord>` -/

structure OrdLat (α : Type) where
  val : α
deriving DecidableEq, Repr

/-- `Ord::min`: `match cmp(v1, v2) { Greater => v2, _ => v1 }`; `Ord::max`: `Greater => v1, _ => v2` -/
def ordMin [LinOrd α] (a b : α) : α := match LinOrd.cmp a b with | .gt => b | _ => a
def ordMax [LinOrd α] (a b : α) : α := match LinOrd.cmp a b with | .gt => a | _ => b

instance [LinOrd α] : Lat (OrdLat α) where
  pcmp a b := some (LinOrd.cmp a.val b.val)
  meet a b := ⟨ordMin a.val b.val⟩
  join a b := ⟨ordMax a.val b.val⟩
  meetMut a b := if LinOrd.cmp a.val b.val == .gt then (b, true) else (a, false)
  joinMut a b := if LinOrd.cmp a.val b.val == .lt then (b, true) else (a, false)

/-! ## tuples `(T0, …, Tn)` with `Ord`: lexicographic; `()` -/

/-- lexicographic `Ord` of a tuple, as right-nested pairs `T0 × (T1 × … × Unit)` -/
instance [LinOrd α] [LinOrd β] : LinOrd (α × β) where
  cmp a b := match LinOrd.cmp a.1 b.1 with
    | .eq => LinOrd.cmp a.2 b.2
    | o => o

/-- `Dual<T>` as an `Ord` type (a component of a lexicographic tuple, the content of an `OrdLattice`): `impl Ord for Dual<T>` is
`other.0.cmp(&self.0)`, consistent with its `PartialOrd` -/
structure DualLin (α : Type) where
  val : α
deriving DecidableEq, Repr

instance [LinOrd α] : LinOrd (DualLin α) := ⟨fun a b => LinOrd.cmp b.val a.val⟩

structure LexTuple (β : Type) where
  val : β
deriving DecidableEq, Repr

instance [LinOrd β] : Lat (LexTuple β) where
  pcmp a b := some (LinOrd.cmp a.val b.val)
  meetMut a b := match LinOrd.cmp a.val b.val with
    | .lt | .eq => (a, false)
    | .gt => (b, true)
  joinMut a b := match LinOrd.cmp a.val b.val with
    | .gt | .eq => (a, false)
    | .lt => (b, true)
  meet a b := ⟨ordMin a.val b.val⟩
  join a b := ⟨ordMax a.val b.val⟩

instance : Lat Unit where
  pcmp _ _ := some .eq
  meetMut _ _ := ((), false)
  joinMut _ _ := ((), false)
  meet _ _ := ()
  join _ _ := ()

instance : BLat Unit where
  bottom := ()
  top := ()

/-! ## `Product<(T0, …, Tn)>` and `Product<[T; N]>`: component-wise -/

/-- `combine_orderings` (product.rs) -/
def combineOrderings (ord1 ord2 : Ordering) : Option Ordering :=
  match ord1, ord2 with
  | .eq, _ => some ord2
  | _, .eq => some ord1
  | .lt, .lt => some .lt
  | .gt, .gt => some .gt
  | _, _ => none

/-- the left-to-right folds of the `tuple_lattice_impl!` macro over the components, with the
accumulators `res` / `changed` threaded exactly as in the expansion -/
class PTail (β : Type) where
  pcmpFold : Ordering → β → β → Option Ordering
  meetMutFold : Bool → β → β → β × Bool
  joinMutFold : Bool → β → β → β × Bool
  meetV : β → β → β
  joinV : β → β → β

instance : PTail Unit where
  pcmpFold res _ _ := some res
  meetMutFold c _ _ := ((), c)
  joinMutFold c _ _ := ((), c)
  meetV _ _ := ()
  joinV _ _ := ()

instance [Lat α] [PTail β] : PTail (α × β) where
  pcmpFold res a b :=
    match pcmp a.1 b.1 with
    | none => none
    | some ord =>
      match combineOrderings ord res with
      | none => none
      | some newRes => PTail.pcmpFold newRes a.2 b.2
  meetMutFold c a b :=
    let r := meetMut a.1 b.1
    let rest := PTail.meetMutFold (c || r.2) a.2 b.2
    ((r.1, rest.1), rest.2)
  joinMutFold c a b :=
    let r := joinMut a.1 b.1
    let rest := PTail.joinMutFold (c || r.2) a.2 b.2
    ((r.1, rest.1), rest.2)
  meetV a b := (meet a.1 b.1, PTail.meetV a.2 b.2)
  joinV a b := (join a.1 b.1, PTail.joinV a.2 b.2)

structure Product (β : Type) where
  val : β
deriving DecidableEq, Repr

instance [PTail β] : Lat (Product β) where
  pcmp a b := PTail.pcmpFold .eq a.val b.val
  meetMut a b := let r := PTail.meetMutFold false a.val b.val; (⟨r.1⟩, r.2)
  joinMut a b := let r := PTail.joinMutFold false a.val b.val; (⟨r.1⟩, r.2)
  meet a b := ⟨PTail.meetV a.val b.val⟩
  join a b := ⟨PTail.joinV a.val b.val⟩

class PTailB (β : Type) extends PTail β where
  bottomV : β
  topV : β
instance : PTailB Unit := { bottomV := (), topV := () }
instance [BLat α] [PTailB β] : PTailB (α × β) := { bottomV := (BLat.bottom, PTailB.bottomV), topV := (BLat.top, PTailB.topV) }
instance [PTailB β] : BLat (Product β) := { bottom := ⟨PTailB.bottomV⟩, top := ⟨PTailB.topV⟩ }

/-- `Product<[T; N]>`: a homogeneous array; `zip` of the two arrays (same length `N` by typing) -/
structure ProductArr (α : Type) where
  val : List α
deriving DecidableEq, Repr

def arrPcmp [Lat α] : Ordering → List α → List α → Option Ordering
  | ord, x :: xs, y :: ys =>
    match pcmp x y with
    | none => none
    | some ith =>
      match combineOrderings ith ord with
      | some newOrd => arrPcmp newOrd xs ys
      | none => none
  | ord, _, _ => some ord

def arrMeetMut [Lat α] : Bool → List α → List α → List α × Bool
  | c, x :: xs, y :: ys =>
    let r := meetMut x y
    let rest := arrMeetMut (c || r.2) xs ys
    (r.1 :: rest.1, rest.2)
  | c, xs, _ => (xs, c)

def arrJoinMut [Lat α] : Bool → List α → List α → List α × Bool
  | c, x :: xs, y :: ys =>
    let r := joinMut x y
    let rest := arrJoinMut (c || r.2) xs ys
    (r.1 :: rest.1, rest.2)
  | c, xs, _ => (xs, c)

/-- no `meet`/`join` override for arrays: the trait default `{ self.meet_mut(other); self }` -/
instance [Lat α] : Lat (ProductArr α) where
  pcmp a b := arrPcmp .eq a.val b.val
  meetMut a b := let r := arrMeetMut false a.val b.val; (⟨r.1⟩, r.2)
  joinMut a b := let r := arrJoinMut false a.val b.val; (⟨r.1⟩, r.2)
  meet a b := ⟨(arrMeetMut false a.val b.val).1⟩
  join a b := ⟨(arrJoinMut false a.val b.val).1⟩

/-! ## `Set<T>` (a `BTreeSet`): canonical strictly increasing lists -/

structure LSet where
  elems : List Int
deriving DecidableEq, Repr

/-- `BTreeSet::insert` on the canonical representation -/
def setInsert (x : Int) : List Int → List Int
  | [] => [x]
  | y :: ys => if x < y then x :: y :: ys else if x = y then y :: ys else y :: setInsert x ys

def setSubset (a b : List Int) : Bool := a.all (b.contains ·)

/-- a strictly increasing list: the `BTreeSet` representation invariant -/
def LSet.WF (s : LSet) : Prop := s.elems.Pairwise (· < ·)

instance : Lat LSet where
  pcmp a b :=
    if a.elems = b.elems then some .eq
    else if setSubset a.elems b.elems then some .lt
    else if setSubset b.elems a.elems then some .gt
    else none
  meetMut a b :=
    -- `swap(&mut self.0, &mut old_self)` leaves `self` empty, so `self.0.len() > other.0.len()`
    -- is never true and `other` stays the argument; keep `old_self`'s items contained in it
    let res := (a.elems.filter (b.elems.contains ·)).foldl (fun acc x => setInsert x acc) []
    (⟨res⟩, a.elems.length != res.length)
  joinMut a b :=
    let selfLen := a.elems.length
    let (big, small) := if selfLen < b.elems.length then (b.elems, a.elems) else (a.elems, b.elems)
    let res := small.foldl (fun acc x => setInsert x acc) big
    (⟨res⟩, selfLen != res.length)
  meet a b := ⟨(a.elems.filter (b.elems.contains ·)).foldl (fun acc x => setInsert x acc) []⟩
  join a b :=
    let (big, small) := if a.elems.length < b.elems.length then (b.elems, a.elems) else (a.elems, b.elems)
    ⟨small.foldl (fun acc x => setInsert x acc) big⟩

/-! ## `BoundedSet<BOUND, T>`: `None` is top -/

structure BSet (bound : Nat) where
  val : Option LSet
deriving DecidableEq, Repr

def BSet.WF (s : BSet n) : Prop := ∀ x, s.val = some x → x.WF ∧ x.elems.length ≤ n

instance : Lat (BSet n) where
  pcmp a b :=
    match a.val, b.val with
    | none, none => some .eq
    | none, _ => some .gt
    | _, none => some .lt
    | some s1, some s2 => pcmp s1 s2
  meetMut a b :=
    match a.val, b.val with
    | none, none => (a, false)
    | none, some s2 => (⟨some s2⟩, true)
    | some _, none => (a, false)
    | some s1, some s2 => let r := meetMut s1 s2; (⟨some r.1⟩, r.2)
  joinMut a b :=
    match a.val, b.val with
    | none, _ => (a, false)
    | some _, none => (⟨none⟩, true)
    | some s1, some s2 =>
      let r := joinMut s1 s2
      if r.1.elems.length > n then (⟨none⟩, true) else (⟨some r.1⟩, r.2)
  meet a b :=
    match a.val, b.val with
    | none, none => ⟨none⟩
    | none, some s2 => ⟨some s2⟩
    | some s1, none => ⟨some s1⟩
    | some s1, some s2 => ⟨some (meet s1 s2)⟩
  join a b :=
    match a.val, b.val with
    | none, _ => ⟨none⟩
    | _, none => ⟨none⟩
    | some s1, some s2 =>
      let res := join s1 s2
      if res.elems.length > n then ⟨none⟩ else ⟨some res⟩

instance : BLat (BSet n) where
  bottom := ⟨some ⟨[]⟩⟩
  top := ⟨none⟩

/-! ## `ConstPropagation<T>` -/

inductive ConstProp (α : Type) where
  | bottom
  | const (x : α)
  | top
deriving DecidableEq, Repr

instance [DecidableEq α] : Lat (ConstProp α) where
  pcmp
    | .bottom, .bottom => some .eq
    | .bottom, _ => some .lt
    | .const _, .bottom => some .gt
    | .const x, .const y => if x = y then some .eq else none
    | .const _, .top => some .lt
    | .top, .top => some .eq
    | .top, _ => some .gt
  meet
    | .bottom, _ => .bottom
    | .const _, .bottom => .bottom
    | .const x, .const y => if x = y then .const x else .bottom
    | .const x, .top => .const x
    | .top, other => other
  join
    | .bottom, other => other
    | .const x, .bottom => .const x
    | .const x, .const y => if x = y then .const x else .top
    | .const _, .top => .top
    | .top, _ => .top
  meetMut
    | .bottom, _ => (.bottom, false)
    | .const x, .const y => if x = y then (.const x, false) else (.bottom, true)
    | .const _, .bottom => (.bottom, true)
    | a, .top => (a, false)
    | .top, other => (other, true)
  joinMut
    | a, .bottom => (a, false)
    | .bottom, other => (other, true)
    | .const x, .const y => if x = y then (.const x, false) else (.top, true)
    | .const _, .top => (.top, true)
    | .top, _ => (.top, false)

instance [DecidableEq α] : BLat (ConstProp α) where
  top := .top
  bottom := .bottom

end AscentVerif.Lat
