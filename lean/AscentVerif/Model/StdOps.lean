import AscentVerif.Model.StdInterp
import AscentVerif.Model.Desugar
/-!
# The syntactic operations of the desugaring pipeline for the concrete expression language of the ties
-/
namespace AscentVerif.Std
open AscentVerif AscentVerif.Surface

def varsEx : Ex → List Var
  | .const _ => []
  | .var x => [x]
  | .add a b | .sub a b | .mul a b | .min a b | .max a b => varsEx a ++ varsEx b
  | .some a | .single a => varsEx a

def varsBx : Bx → List Var
  | .tt => []
  | .lt a b | .le a b | .eq a b | .ne a b => varsEx a ++ varsEx b
  | .and a b | .or a b => varsBx a ++ varsBx b
  | .not a => varsBx a

def varsGx : Gx → List Var
  | .range lo hi => varsEx lo ++ varsEx hi
  | .list xs => xs.flatMap varsEx

def subEx (θ : Var → Ex) : Ex → Ex
  | .const v => .const v
  | .var x => θ x
  | .add a b => .add (subEx θ a) (subEx θ b)
  | .sub a b => .sub (subEx θ a) (subEx θ b)
  | .mul a b => .mul (subEx θ a) (subEx θ b)
  | .min a b => .min (subEx θ a) (subEx θ b)
  | .max a b => .max (subEx θ a) (subEx θ b)
  | .some a => .some (subEx θ a)
  | .single a => .single (subEx θ a)

def subBx (θ : Var → Ex) : Bx → Bx
  | .tt => .tt
  | .lt a b => .lt (subEx θ a) (subEx θ b)
  | .le a b => .le (subEx θ a) (subEx θ b)
  | .eq a b => .eq (subEx θ a) (subEx θ b)
  | .ne a b => .ne (subEx θ a) (subEx θ b)
  | .and a b => .and (subBx θ a) (subBx θ b)
  | .or a b => .or (subBx θ a) (subBx θ b)
  | .not a => .not (subBx θ a)

def subGx (θ : Var → Ex) : Gx → Gx
  | .range lo hi => .range (subEx θ lo) (subEx θ hi)
  | .list xs => .list (xs.map (subEx θ))

def stdOps : Ops Ex Bx Gx Ax where
  varE := .var
  eqB v e := .eq (.var v) e
  notA := .not
  varsE := varsEx
  subE := subEx
  subB := subBx
  subG := subGx

end AscentVerif.Std
