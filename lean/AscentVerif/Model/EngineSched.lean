import AscentVerif.Model.Engine
/-!
# The parallel engine: one iteration as an arbitrary interleaving of atomic head updates

`ascent_par!` evaluates all rule variants of an iteration against the *frozen* `total` / `delta`
indices (with `#![inter_rule_parallelism]` even different rules run at the same time); the
workers' head updates — `contains_key(total)`, `contains_key(delta)` on frozen indices, then the
shard-locked `insert_if_not_present(new)` which alone decides who pushes the row — interleave
arbitrarily.  Model: the iteration's tasks (rule, environment) are all computed on the state at
iteration start, then the head updates are applied in the order chosen by a *schedule*, an
arbitrary permutation oracle.  The theorems quantify over every schedule.
-/
namespace AscentVerif.Engine
open AscentVerif

variable {E B G P A : Type}

/-- every (rule, environment) whose heads must be updated in this iteration, computed with total/delta frozen -/
def iterTasks (I : Interp E B G P A) (cfg : Config) (p : Program E B G P A) (dyn : List RelId)
    (rules : List (Rule E B G P A)) (s : SccSt) : List (Rule E B G P A × Env) :=
  rules.flatMap fun r => (variants dyn r).flatMap fun vs => (evalBody I cfg p s r.body vs []).map fun ρ => (r, ρ)

/-- a schedule reorders the head updates of the `k`-th iteration of the run -/
structure Sched (E B G P A : Type) where
  perm : Nat → List (Rule E B G P A × Env) → List (Rule E B G P A × Env)
  isPerm : ∀ k l, (perm k l).Perm l

def Sched.id : Sched E B G P A := ⟨fun _ l => l, fun _ _ => List.Perm.refl _⟩

def evalRulesPar (I : Interp E B G P A) (cfg : Config) (p : Program E B G P A) (dyn : List RelId)
    (rules : List (Rule E B G P A)) (σ : Sched E B G P A) (k : Nat) (s : SccSt) : SccSt :=
  (σ.perm k (iterTasks I cfg p dyn rules s)).foldl
    (fun s t => t.1.heads.foldl (fun s h => headUpdate I cfg p s h t.2) s) s

structure ParSt where
  st : SccSt
  clock : Nat      -- iterations executed so far in the whole run (indexes the schedule)
  iters : Nat

def sccLoopPar (I : Interp E B G P A) (cfg : Config) (p : Program E B G P A) (dyn : List RelId)
    (rules : List (Rule E B G P A)) (σ : Sched E B G P A) : Nat → ParSt → Option ParSt
  | 0, _ => none
  | fuel + 1, ps =>
    let s1 := evalRulesPar I cfg p dyn rules σ ps.clock { ps.st with changed := false }
    let ps' : ParSt := { st := shift s1, clock := ps.clock + 1, iters := ps.iters + 1 }
    if !s1.changed then some ps' else sccLoopPar I cfg p dyn rules σ fuel ps'

structure ParProgSt where
  st : St
  clock : Nat

def runSccPar (I : Interp E B G P A) (cfg : Config) (p : Program E B G P A) (σ : Sched E B G P A) (fuel : Nat)
    (scc : List Nat) (ps : ParProgSt) : Option ParProgSt :=
  let dyn := dynRels p scc
  let rules := sccRules p scc
  let s0 := enterScc ps.st dyn
  if isLooping p scc then
    (sccLoopPar I cfg p dyn rules σ fuel { st := s0, clock := ps.clock, iters := 0 }).map fun r =>
      { st := leaveScc r.st, clock := r.clock }
  else
    some { st := leaveScc (shift (shift (evalRulesPar I cfg p dyn rules σ ps.clock s0))), clock := ps.clock + 1 }

def runSccsPar (I : Interp E B G P A) (cfg : Config) (p : Program E B G P A) (σ : Sched E B G P A) (fuel : Nat) :
    SccOrder → ParProgSt → Option ParProgSt
  | [], ps => some ps
  | scc :: rest, ps => (runSccPar I cfg p σ fuel scc ps).bind (runSccsPar I cfg p σ fuel rest)

/-- `run()` of an `ascent_par!` program under schedule `σ` -/
def runPar (I : Interp E B G P A) (cfg : Config) (p : Program E B G P A) (order : SccOrder) (σ : Sched E B G P A)
    (fuel : Nat) (s : St) : Option ParProgSt :=
  runSccsPar I cfg p σ fuel order { st := updateIndices s, clock := 0 }

end AscentVerif.Engine
