import AscentVerif.Model.Engine
/-!
# Model of the compilation plan (`ascent_hir.rs` rule compilation, `ascent_mir.rs` variants)

What the real compiler decides per rule and that the engine model abstracts away: the index
columns of every clause (bound variables and non-variable arguments), the "simple join"
special case for the first two clauses, whether a simple join is reorderable, and the version
vector of every MIR rule.  `mirSummary` prints it in the format of the real `mir_summary`, so
that tie A can compare the two for every generated program.  Parameterised by the functions
extracting the variables of the embedded expressions.
-/
namespace AscentVerif.Hir
open AscentVerif AscentVerif.Engine

variable {E B G P A : Type}

structure VarsOf (E B : Type) where
  e : E → List Var
  b : B → List Var

def Cond.boundVars : Cond E B P → List Var
  | .ifc _ => []
  | .letc v _ => [v]
  | .ifLet _ vs _ => vs

def Cond.exprVars (V : VarsOf E B) : Cond E B P → List Var
  | .ifc b => V.b b
  | .letc _ e => V.e e
  | .ifLet _ _ e => V.e e

def Cond.isIfLet : Cond E B P → Bool
  | .ifLet .. => true
  | _ => false

def argVar? : Arg E → Option Var
  | .var v => some v
  | .expr _ => none

/-- compiled body item: for clauses the index columns -/
inductive HItem where
  | clause (r : RelId) (indices : List Nat) (dynamicPos : Bool)
  | gen (v : Var)
  | ifc
  | ifLet
  | letc
  | agg (r : RelId) (indices : List Nat)
deriving Repr

structure HRule where
  heads : List RelId
  items : List HItem
  simpleJoinStart : Option Nat
  /-- bound variables per body item (for `reorderable`) -/
  bound : List (List Var)
deriving Repr

def firstClauseInd (body : List (Item E B G P A)) : Option Nat :=
  body.findIdx? fun | .clause .. => true | _ => false

def isClause : Item E B G P A → Bool
  | .clause .. => true
  | _ => false

/-- `get_indices_given_grounded_variables` -/
def indicesGiven (args : List (Arg E)) (vars : List Var) : List Nat :=
  (List.range args.length).filter fun i =>
    match args[i]? with
    | some (.var v) => vars.contains v
    | some (.expr _) => true
    | none => false

structure St where
  grounded : List Var := []
  /-- the variables `rule_desugar_repeated_vars` has seen so far (it ignores conditions attached to clauses) -/
  dg : List Var := []
  simple : Bool
  items : List HItem := []
  bound : List (List Var) := []

/-- `compile_rule_to_ir_rule`, without the error paths (C15 covers those) -/
def compileRule (V : VarsOf E B) (r : Rule E B G P A) : HRule :=
  let body := r.body
  let fci := firstClauseInd body
  let simple0 := match fci with
    | some i => (body[i + 1]?.map isClause).getD false
    | none => false
  let step (st : St) (ib : Nat × Item E B G P A) : St :=
    let (i, it) := ib
    match it with
    | .clause rel args conds =>
      let s1 := if fci == some i && conds.any Cond.isIfLet then false else st.simple
      -- second clause of a would-be simple join
      let s2 :=
        if fci.map (· + 1) == some i && s1 then
          let cl1CondVars := match fci.bind (body[·]?) with
            | some (.clause _ _ c1) => c1.flatMap Cond.boundVars
            | _ => []
          let usesCl1 := args.any fun
            | .var v => cl1CondVars.contains v
            | .expr e => (V.e e).any cl1CondVars.contains
          -- `rule_desugar_repeated_vars` has already replaced repeats of variables first bound in this clause
          let vars := (args.filterMap argVar?).filter fun v => st.dg.contains v
          let noRepeat := vars.eraseDups.length == vars.length
          let vars := (args.filterMap argVar?).eraseDups
          let condsOk := (conds.foldl (fun (acc : Bool × List Var) c =>
              if !acc.1 then acc
              else if (Cond.exprVars V c).all acc.2.contains then (true, acc.2 ++ Cond.boundVars c) else (false, acc.2)) (true, vars)).1
          !usesCl1 && noRepeat && condsOk
        else s1
      -- arguments mentioning a variable first bound in this same clause were replaced by a fresh variable plus an
      -- equality condition (`rule_desugar_repeated_vars`): they are neither index columns nor "expressions" any more
      let scan := ((List.range args.length).zip args).foldl (fun (acc : List Var × List Nat × Bool × List Var) (ja : Nat × Arg E) =>
        let (g, idx, smp, here) := acc
        match ja.2 with
        | Arg.var v =>
          if here.contains v then (g, idx, smp, here)
          else if g.contains v then (g, idx ++ [ja.1], if fci == some i then false else smp, if st.dg.contains v then here else here ++ [v])
          else (g ++ [v], idx, smp, here ++ [v])
        | Arg.expr e =>
          if (V.e e).any here.contains then (g, idx, smp, here)
          else (g, idx ++ [ja.1], if i < 2 + fci.getD 0 then false else smp, here)) (st.grounded, [], s2, [])
      let here := scan.2.2.2
      let scan := (scan.1, scan.2.1, scan.2.2.1)
      let g' := scan.1 ++ conds.flatMap Cond.boundVars
      { grounded := g', dg := st.dg ++ here, simple := scan.2.2, items := st.items ++ [.clause rel scan.2.1 false],
        bound := st.bound ++ [args.filterMap argVar? ++ conds.flatMap Cond.boundVars] }
    | .gen v _ => { st with grounded := st.grounded ++ [v], dg := st.dg ++ [v], items := st.items ++ [.gen v], bound := st.bound ++ [[v]] }
    | .cond c =>
      let hi := match c with | .ifc _ => HItem.ifc | .letc .. => HItem.letc | .ifLet .. => HItem.ifLet
      { st with grounded := st.grounded ++ Cond.boundVars c, dg := st.dg ++ Cond.boundVars c, items := st.items ++ [hi], bound := st.bound ++ [Cond.boundVars c] }
    | .agg a =>
      let idx := (List.range a.args.length).filter fun j =>
        match a.args[j]? with
        | some (.key _) => true
        | _ => false
      { st with grounded := st.grounded ++ a.outs, dg := st.dg ++ a.outs, items := st.items ++ [.agg a.rel idx], bound := st.bound ++ [a.outs] }
  let st := ((List.range body.length).zip body).foldl step { simple := simple0 }
  let isSimple := st.simple && body.length ≥ 2
  let sj := if isSimple then fci else none
  -- the first clause of a simple join is re-indexed on the join columns
  let items := match sj with
    | some i =>
      match body[i]?, body[i + 1]? with
      | some (.clause r1 args1 _), some (.clause _ args2 _) =>
        st.items.set i (.clause r1 (indicesGiven args1 (args2.filterMap argVar?)) false)
      | _, _ => st.items
    | none => st.items
  { heads := r.heads.map (·.rel), items := items, simpleJoinStart := sj, bound := st.bound }

def verName : Option Ver → String
  | some .total | none => "total"
  | some .delta => "delta"
  | some .totalDelta => "total+delta"

def idxName (r : RelId) (cols : List Nat) : String :=
  s!"r{r}_indices_" ++ (if cols.isEmpty then "none" else "_".intercalate (cols.map toString))

/-- one line per MIR rule, as `mir_rule_summary` prints it -/
def ruleLines (V : VarsOf E B) (dyn : List RelId) (r : Rule E B G P A) : List String :=
  let h := compileRule V r
  (variants dyn r).map fun vs =>
    let items := (h.items.zip vs).map fun (it, v) =>
      match it with
      | .clause rel cols _ => idxName rel cols ++ "_" ++ verName v
      | .gen v => s!"for_v{v}"
      | .ifc => "if ⋯"
      | .ifLet => "if let ⋯"
      | .letc => "let ⋯"
      | .agg rel cols => "agg " ++ idxName rel cols
    let reorderable := match h.simpleJoinStart with
      | some i =>
        let pre := (h.bound.take i).flatten
        !(h.bound.getD (i + 1) []).any pre.contains
      | none => false
    ", ".intercalate (h.heads.map fun x => s!"r{x}") ++ (if items.isEmpty then " <--" else " <-- " ++ ", ".intercalate items) ++
      (if h.simpleJoinStart.isSome then " [SIMPLE JOIN]" else "") ++
      (if h.simpleJoinStart.isSome && !reorderable then " [NOT REORDERABLE]" else "")

end AscentVerif.Hir
