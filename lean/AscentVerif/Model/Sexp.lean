/-!
# S-expressions: the one text representation shared by every tie

Every value, operation, program and history exchanged between the Rust harnesses, the
Python generators and the Lean driver is an s-expression on one line.  Core Lean only.
-/
namespace AscentVerif

inductive Sexp where
  | atom (s : String)
  | list (xs : List Sexp)
deriving Repr, BEq, Inhabited

namespace Sexp

partial def toStr : Sexp → String
  | atom s => s
  | list xs => "(" ++ " ".intercalate (xs.map toStr) ++ ")"

instance : ToString Sexp := ⟨toStr⟩

/-- tokens: `(`, `)`, and maximal runs of other non-blank characters -/
def tokenize (s : String) : List String := Id.run do
  let mut out : Array String := #[]
  let mut cur : String := ""
  for c in s.toList do
    if c == '(' || c == ')' then
      if cur != "" then out := out.push cur
      cur := ""
      out := out.push (String.singleton c)
    else if c == ' ' || c == '\t' || c == '\n' || c == '\r' then
      if cur != "" then out := out.push cur
      cur := ""
    else cur := cur.push c
  if cur != "" then out := out.push cur
  return out.toList

/-- parse a token list into a sequence of s-expressions (top level = implicit list) -/
partial def parseSeq : List String → List Sexp → Option (List Sexp × List String)
  | [], acc => some (acc.reverse, [])
  | ")" :: rest, acc => some (acc.reverse, ")" :: rest)
  | "(" :: rest, acc =>
      match parseSeq rest [] with
      | some (xs, ")" :: rest') => parseSeq rest' (list xs :: acc)
      | _ => none
  | t :: rest, acc => parseSeq rest (atom t :: acc)

/-- a whole line as the list of its top-level s-expressions -/
def parseLine (s : String) : Option (List Sexp) :=
  match parseSeq (tokenize s) [] with
  | some (xs, []) => some xs
  | _ => none

def asInt? : Sexp → Option Int
  | atom s => s.toInt?
  | _ => none

def asNat? : Sexp → Option Nat
  | atom s => s.toNat?
  | _ => none

def asAtom? : Sexp → Option String
  | atom s => some s
  | _ => none

end Sexp
end AscentVerif
