import AscentVerif.Model.Hir
/-!
# Plan-level evaluation of a rule body (`ascent_codegen.rs`, `compile_mir_rule_inner`)

`Engine.evalBody` treats an index look-up as a *filter*: a clause enumerates every row of the version and runs
`matchArgs` on it.  The generated code does something more specific, decided per rule by `compile_rule_to_ir_rule`
(modelled by `Hir.compileRule`): it looks the rows up in an index on the clause's INDEX COLUMNS with a key built
from the environment *before* the clause, binds only the variables that are new, and evaluates the first two
clauses of a "simple join" as nested `iter_all` / `index_get` loops, possibly in swapped order.  This file is the
executable model of that code; `Props/C01Plan.lean` proves that it computes what `evalBody` computes.

What mirrors what (`/repo/ascent_macro/src/ascent_codegen.rs`):

* `idxGet rows bag cols key` — `rel_version.index_get(&key)`: the rows of the version (`bag`: row numbers, with
  multiplicity, in enumeration order) whose projection on `cols` is `key` (proved for the real hash indices in
  `Props/C19Bridge.lean`, `buildIdx_get`); `None` (key absent) and `Some(empty)` are both the empty list: the
  `if let Some(__matching) = …` of l.1019 / l.1029 only skips loops that would run zero times;
* `iterAll rows bag cols` — `rel_version.iter_all()`: the distinct keys, in order of first occurrence, each with its rows;
* `keyOf I ρ args cols` — `selected_args_tuple` (l.931, 951-952; `joined_args_tuple_for_cl2`, l.1000-1001): the
  expressions at the index columns, evaluated in the environment the look-up is emitted in;
* `bindArgs skip` — `clause_var_assignments` (l.1367-1396): `let v = row.j` for the variable arguments that are not
  filtered out.  The ordinary clause and the second clause of a simple join filter out the variables in
  `pre_clause_vars` (l.932-937, 942-949): `skip _ v := pre.contains v`.  The first clause of a simple join filters
  out the INDEX COLUMNS (l.990-997): `skip j _ := cols.contains j`;
* `bindKey args cols key` — `cl1_join_vars_assignments` (l.981-987): `let v = __cl1_joined_columns.t` for the
  `t`-th index column, in order.  These are plain `let`s: a binding of the same name made by an earlier body item is
  SHADOWED (innermost binding first in `Env`);
* `clauseStep` — l.1028-1036 (ordinary clause): look-up with the key evaluated before the clause, then for every
  row: new-variable assignments, the clause's conditions (`compile_cond_clause`, l.806-834 = `satConds`), the rest;
* `joinStep` — l.1015-1026 (simple join): `iter_all` over the first clause; join variables from the key; look-up of
  the second clause; for every row of the first clause: remaining variables, its conditions; for every matching row of
  the second clause: new variables, its conditions, the rest (`clause_ind + 2`, l.917);
* `evalFrom … swap` — `compile_mir_rule_inner` itself; `swap = true` is `rule_cp2` of l.888-911
  (`body_items.swap(clause_ind, clause_ind + 1)`: every clause keeps its own relation version and index columns; the
  `pre_clause_vars` of the clause that is now second are the variables bound before the join plus the bound variables
  of the clause that is now first); which copy runs is chosen by `len_estimate` at run time, so both must be right;
* `reorderable` — `compile_hir_rule_to_mir_rules`, `ascent_mir.rs` l.419-424 (the same expression as in `Hir.ruleLines`).

Deliberate simplifications:
* the index columns and bound-variable lists are read from the `Hir.HRule` (`colsAt`, `preVars`); an item of `h.items`
  that is not a clause yields no columns;
* a variable that is not bound when a key is built (`argVal`) evaluates to `Val.unit`, a row whose length is not the
  number of arguments binds nothing (`bindArgs` returns `none`): neither happens in the typed generated code (a compile
  error, resp. excluded by the relation's tuple type); the theorems hold for every state without assuming either;
* an `Arg.expr` at an index column of the iterated clause of a simple join (`expr_to_ident(..).unwrap()` panics at
  macro-expansion time, l.983) is skipped by `bindKey`;
* conditions are pure, so not evaluating the first clause's conditions when the second clause has no matching row
  (l.1019) is not observable;
* generators, free-standing conditions and aggregations are evaluated as in `Engine.evalBody` (aggregation look-ups stay filters);
* `c_index_get` / `c_iter_all` (parallel iteration of the first `par_iter_to_ind` clauses) enumerate the same rows.
Core Lean only; executable.
-/
namespace AscentVerif.Plan
open AscentVerif AscentVerif.Engine

variable {E B G P A : Type}

/-- the projection of a row on the index columns (the key the row is filed under) -/
def proj (cols : List Nat) (row : Tuple) : List Val := cols.map fun j => row.getD j .unit

/-- `index_get`: the rows of the version whose projection on `cols` is `key`, in the version's order -/
def idxGet (rows : List Tuple) (bag : List Nat) (cols : List Nat) (key : List Val) : List Nat :=
  bag.filter fun i => proj cols (rowAt rows i) == key

/-- `iter_all`: the distinct keys in order of first occurrence, each with its rows -/
def iterAll (rows : List Tuple) (bag : List Nat) (cols : List Nat) : List (List Val × List Nat) :=
  ((bag.map fun i => proj cols (rowAt rows i)).eraseDups).map fun key => (key, idxGet rows bag cols key)

/-- the value of one selected argument in the environment the look-up is emitted in -/
def argVal (I : Interp E B G P A) (ρ : Env) : Arg E → Val
  | .var v => (ρ.get? v).getD .unit
  | .expr e => I.expr e ρ

/-- `selected_args_tuple`: the arguments at the index columns, evaluated in `ρ` -/
def keyOf (I : Interp E B G P A) (ρ : Env) (args : List (Arg E)) (cols : List Nat) : List Val :=
  cols.map fun j =>
    match args[j]? with
    | some a => argVal I ρ a
    | none => .unit

/-- `clause_var_assignments`: `let v = row.j` for every variable argument `(j, v)` that is not filtered out -/
def bindArgs (skip : Nat → Var → Bool) : Nat → List (Arg E) → Tuple → Env → Option Env
  | _, [], [], ρ => some ρ
  | j, .var v :: as, x :: xs, ρ => bindArgs skip (j + 1) as xs (if skip j v then ρ else (v, x) :: ρ)
  | j, .expr _ :: as, _ :: xs, ρ => bindArgs skip (j + 1) as xs ρ
  | _, _, _, _ => none

/-- `cl1_join_vars_assignments`: `let v = key.t` for the variable at the `t`-th index column -/
def bindKey (args : List (Arg E)) : List Nat → List Val → Env → Env
  | j :: cols, x :: key, ρ =>
    match args[j]? with
    | some (.var v) => bindKey args cols key ((v, x) :: ρ)
    | _ => bindKey args cols key ρ
  | _, _, ρ => ρ

/-- the index columns the compiler chose for the clause at body position `i` -/
def colsAt (h : Hir.HRule) (i : Nat) : List Nat :=
  match h.items[i]? with
  | some (.clause _ cols _) => cols
  | _ => []

/-- `pre_clause_vars`: the bound variables of the body items before position `i` -/
def preVars (h : Hir.HRule) (i : Nat) : List Var := (h.bound.take i).flatten

/-- an ordinary clause: index look-up with the key evaluated BEFORE the clause; per row the new variables, the
conditions, then the rest of the body `k` -/
def clauseStep (I : Interp E B G P A) (rows : List Tuple) (bag : List Nat) (cols : List Nat) (pre : List Var)
    (args : List (Arg E)) (conds : List (Cond E B P)) (ρ : Env) (k : Env → List Env) : List Env :=
  (idxGet rows bag cols (keyOf I ρ args cols)).flatMap fun i =>
    match bindArgs (fun _ v => pre.contains v) 0 args (rowAt rows i) ρ with
    | none => []
    | some ρ₁ =>
      match satConds I conds ρ₁ with
      | none => []
      | some ρ₂ => k ρ₂

/-- a simple join: clause `a` is iterated with `iter_all`, clause `b` is looked up with `index_get` once per key of `a` -/
def joinStep (I : Interp E B G P A)
    (rowsA : List Tuple) (bagA : List Nat) (colsA : List Nat) (argsA : List (Arg E)) (condsA : List (Cond E B P))
    (rowsB : List Tuple) (bagB : List Nat) (colsB : List Nat) (argsB : List (Arg E)) (condsB : List (Cond E B P))
    (preB : List Var) (ρ : Env) (k : Env → List Env) : List Env :=
  (iterAll rowsA bagA colsA).flatMap fun kr =>
    let ρk := bindKey argsA colsA kr.1 ρ
    let matching := idxGet rowsB bagB colsB (keyOf I ρk argsB colsB)
    kr.2.flatMap fun ia =>
      match bindArgs (fun j _ => colsA.contains j) 0 argsA (rowAt rowsA ia) ρk with
      | none => []
      | some ρ₁ =>
        match satConds I condsA ρ₁ with
        | none => []
        | some ρ₂ =>
          matching.flatMap fun ib =>
            match bindArgs (fun _ v => preB.contains v) 0 argsB (rowAt rowsB ib) ρ₂ with
            | none => []
            | some ρ₃ =>
              match satConds I condsB ρ₃ with
              | none => []
              | some ρ₄ => k ρ₄

/-- the body from position `i` on, as the generated code evaluates it -/
def evalFrom (I : Interp E B G P A) (cfg : Config) (p : Program E B G P A) (s : SccSt) (h : Hir.HRule) (swap : Bool) :
    Nat → List (Item E B G P A) → List (Option Ver) → Env → List Env
  | _, [], _, ρ => [ρ]
  | i, .clause r args conds :: .clause r2 args2 conds2 :: rest2, vs, ρ =>
    if h.simpleJoinStart = some i then
      let rows1 := (relSt s.rels r).rows
      let bag1 := clauseRows cfg p s r (vs.headD none)
      let rows2 := (relSt s.rels r2).rows
      let bag2 := clauseRows cfg p s r2 (vs.tail.headD none)
      if swap then
        joinStep I rows2 bag2 (colsAt h (i + 1)) args2 conds2 rows1 bag1 (colsAt h i) args conds
          (preVars h i ++ h.bound.getD (i + 1) []) ρ fun ρ' => evalFrom I cfg p s h swap (i + 2) rest2 vs.tail.tail ρ'
      else
        joinStep I rows1 bag1 (colsAt h i) args conds rows2 bag2 (colsAt h (i + 1)) args2 conds2
          (preVars h (i + 1)) ρ fun ρ' => evalFrom I cfg p s h swap (i + 2) rest2 vs.tail.tail ρ'
    else
      clauseStep I (relSt s.rels r).rows (clauseRows cfg p s r (vs.headD none)) (colsAt h i) (preVars h i) args conds ρ
        fun ρ' => evalFrom I cfg p s h swap (i + 1) (.clause r2 args2 conds2 :: rest2) vs.tail ρ'
  | i, .clause r args conds :: rest, vs, ρ =>
    clauseStep I (relSt s.rels r).rows (clauseRows cfg p s r (vs.headD none)) (colsAt h i) (preVars h i) args conds ρ
      fun ρ' => evalFrom I cfg p s h swap (i + 1) rest vs.tail ρ'
  | i, .cond c :: rest, vs, ρ =>
    match satCond I c ρ with
    | none => []
    | some ρ₁ => evalFrom I cfg p s h swap (i + 1) rest vs.tail ρ₁
  | i, .gen v g :: rest, vs, ρ =>
    (I.gen g ρ).flatMap fun x => evalFrom I cfg p s h swap (i + 1) rest vs.tail ((v, x) :: ρ)
  | i, .agg a :: rest, vs, ρ =>
    (aggEnvs I a ρ (aggTuples cfg p s a)).flatMap fun ρ₁ => evalFrom I cfg p s h swap (i + 1) rest vs.tail ρ₁

/-- all environments the generated code of one MIR rule reaches the head update with -/
def evalBodyPlan (I : Interp E B G P A) (cfg : Config) (p : Program E B G P A) (s : SccSt) (h : Hir.HRule) (swap : Bool)
    (body : List (Item E B G P A)) (vs : List (Option Ver)) (ρ : Env) : List Env :=
  evalFrom I cfg p s h swap 0 body vs ρ

/-- `MirRule::reorderable`: a simple join none of whose second clause's bound variables is bound before the first clause -/
def reorderable (h : Hir.HRule) : Bool :=
  match h.simpleJoinStart with
  | some i =>
    let pre := (h.bound.take i).flatten
    !(h.bound.getD (i + 1) []).any pre.contains
  | none => false

end AscentVerif.Plan
