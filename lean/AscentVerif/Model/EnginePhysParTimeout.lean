import AscentVerif.Model.EnginePhysPar
/-!
# `run_timeout` of a PARALLEL program (`ascent_par!` with `#![generate_run_timeout]`) over its concurrent indices

`compile_mir` (`ascent_codegen.rs` l.194-212) emits ONE `run_timeout` for both modes: `__start_time`, the macro
`__check_return_conditions!()` = `if timeout < Duration::MAX && __start_time.elapsed() >= timeout {return false;}`,
`self.update_indices_priv()`, the compiled SCCs, `true`; `run()` is `self.run_timeout(Duration::MAX)` (l.172-179), for which the
check never reads the clock.  `compile_mir_scc` (l.447-654) places the check at the same two places in both modes: in a looping
SCC after `unfreeze; merge (shift); scc_iters += 1; if !changed {break;}` (l.615-623), in a non-looping SCC after
`unfreeze; merge; merge; scc_iters += 1` (l.632-641).  So, as in the serial code, the deadline is only ever looked at BETWEEN
iterations, with every index of the dynamic relations merged (`new` → `delta` → `total` done) and nothing in flight; there is
no check inside the rayon scope / the parallel iterators of a rule.

What the parallel code does differently around these statements (the model follows the code):

* `__changed` is a `std::sync::atomic::AtomicBool` (l.598-607), stored `Relaxed` by the head updates of the workers (l.1105-1108)
  and loaded `Relaxed` in `if !__changed.load(..) {break;}`; the load happens after the rule evaluation (parallel iterators,
  or the `rayon::scope` of `#![inter_rule_parallelism]`) has joined, so it sees every store: the flag of `iteration`;
* before the rules of an iteration the `total` and `delta` of every dynamic index are frozen, after them unfrozen (l.503-513,
  615/619, 632/636), BEFORE the merge and the check.  At the early `return false` the local variables of the dynamic
  relations are therefore unfrozen, those of the body-only relations are frozen (`_self.field.freeze()` l.527-531, executed on
  the struct field just before it is `mem::take`n l.533-535); the `move_total_to_field` code with its `unfreeze()` (l.537-546)
  is skipped.  All these locals are DROPPED — no frozen index can reach the struct on this path, because the struct fields
  hold what `mem::take` left there: `Default::default()`, i.e. empty and UNFROZEN indices, constructed in the pool current
  at SCC entry (a `CRelNoIndex` with that pool's number of shards).  `abandonScc` therefore stores fresh `PCFull.new` /
  `PCx.new threads` for every relation the SCC touched (serial model: empty maps) and leaves the other relations alone;
  dropping reads or writes no index, so the early-return path itself cannot panic;
* the next `run()` / `run_timeout()` — possibly in another pool, under another schedule — starts with `update_indices_priv`,
  which assigns `Default::default()` to every index before it re-inserts the rows from a parallel `for_each` (l.750-752,
  788-794): `PhysPar.updateIndices`.

The deadline is an oracle over the clock readings (`Engine.Deadline`: `dl k = true` iff the `k`-th reading finds it passed);
`clock` numbers the iterations for the schedule `σ` (as in `PhysPar.run`), `checks` the clock readings.  The result is
`Res (Outcome …)`: `.panic` is a violation of the frozen / unfrozen protocol, `.ok (.done _)` = returned `true`,
`.ok (.timedOut _)` = returned `false`, `.ok .outOfFuel` = the model's fuel ran out.  Aggregation items are handled as in
`PhysPar.run` (`evalRulePar` / `aggsOf`).  Core Lean only; executable.
-/
namespace AscentVerif.PhysPar
open AscentVerif AscentVerif.Engine AscentVerif.Index AscentVerif.Phys

variable {E B G P A : Type}

structure RunStT where
  st : PCScc
  clock : Nat
  checks : Nat
  iters : Nat

/-- the `loop { … }` of a looping SCC: freeze, rules, unfreeze (`iteration`), merge (`shiftPar`), `scc_iters += 1`,
`if !__changed.load() {break;}`, `__check_return_conditions!()` -/
def sccLoopT (I : Interp E B G P A) (V : Hir.VarsOf E B) (p : Program E B G P A) (σ : Sched E B G P A) (dyn : List RelId)
    (rules : List (Rule E B G P A)) (dl : Deadline) : Nat → RunStT → Res (Outcome RunStT)
  | 0, _ => .ok .outOfFuel
  | fuel + 1, rs => do
    let s1 ← iteration I V p σ rs.clock dyn rules rs.st
    let s2 ← shiftPar s1
    let rs' : RunStT := { st := s2, clock := rs.clock + 1, checks := rs.checks, iters := rs.iters + 1 }
    if !s1.changed then pure (.done rs')
    else if dl rs.checks then pure (.timedOut { rs' with checks := rs.checks + 1 })
    else sccLoopT I V p σ dyn rules dl fuel { rs' with checks := rs.checks + 1 }

/-- early return: every local index of the SCC (the three versions of the dynamic relations' indices, unfrozen; the frozen
`total` of the body-only relations) is dropped; the struct fields hold what `mem::take` left at SCC entry — `Default`
indices of the pool of `threads` workers, unfrozen; the row vectors and the indices of the other relations stay -/
def abandonScc (threads : Nat) (p : Program E B G P A) (scc : List Nat) (s : PCScc) : PCSt :=
  let touched := dynRels p scc ++ (sccRules p scc).flatMap Rule.bodyRels
  (List.range s.rels.length).map fun r =>
    let pr := pcrel s.rels r
    if touched.contains r then
      { pr with full := PCFull.new, idxs := pr.idxs.map fun ci => (ci.1, PCx.new threads ci.1) }
    else pr

structure ProgStT where
  st : PCSt
  clock : Nat
  checks : Nat
  iters : List Nat

def runSccT (I : Interp E B G P A) (V : Hir.VarsOf E B) (p : Program E B G P A) (σ : Sched E B G P A) (threads : Nat)
    (dl : Deadline) (fuel : Nat) (scc : List Nat) (ps : ProgStT) : Res (Outcome ProgStT) := do
  let dyn := dynRels p scc
  let rules := sccRules p scc
  let s0 := enterScc threads p scc ps.st
  if isLooping p scc then
    let r ← sccLoopT I V p σ dyn rules dl fuel { st := s0, clock := ps.clock, checks := ps.checks, iters := 0 }
    match r with
    | .done rs =>
      pure (.done { st := leaveScc p scc rs.st, clock := rs.clock, checks := rs.checks, iters := ps.iters ++ [rs.iters] })
    | .timedOut rs =>
      pure (.timedOut { st := abandonScc threads p scc rs.st, clock := rs.clock, checks := rs.checks,
                        iters := ps.iters ++ [rs.iters] })
    | .outOfFuel => pure .outOfFuel
  else
    let s1 ← iteration I V p σ ps.clock dyn rules s0
    let s2 ← shiftPar s1
    let s3 ← shiftPar s2
    if dl ps.checks then
      pure (.timedOut { st := abandonScc threads p scc s3, clock := ps.clock + 1, checks := ps.checks + 1,
                        iters := ps.iters ++ [1] })
    else
      pure (.done { st := leaveScc p scc s3, clock := ps.clock + 1, checks := ps.checks + 1, iters := ps.iters ++ [1] })

def runSccsT (I : Interp E B G P A) (V : Hir.VarsOf E B) (p : Program E B G P A) (σ : Sched E B G P A) (threads : Nat)
    (dl : Deadline) (fuel : Nat) : SccOrder → ProgStT → Res (Outcome ProgStT)
  | [], ps => .ok (.done ps)
  | scc :: rest, ps =>
    match runSccT I V p σ threads dl fuel scc ps with
    | .ok (.done ps') => runSccsT I V p σ threads dl fuel rest ps'
    | other => other

/-- `run_timeout` in a pool of `threads` workers: `update_indices`, then the SCCs in order under the deadline;
`.ok (.done _)` = returned `true`, `.ok (.timedOut _)` = returned `false` -/
def runTimeout (I : Interp E B G P A) (V : Hir.VarsOf E B) (p : Program E B G P A) (ix : IxSets) (order : SccOrder)
    (σ : Sched E B G P A) (threads : Nat) (dl : Deadline) (fuel : Nat) (s : PCSt) : Res (Outcome ProgStT) := do
  let s0 ← updateIndices threads σ ix s
  runSccsT I V p σ threads dl fuel order { st := s0, clock := 0, checks := 0, iters := [] }

end AscentVerif.PhysPar
