import AscentVerif.Model.EnginePhysLat
import AscentVerif.Model.EnginePhysTimeout
/-!
# `run_timeout` of the generated code WITH lattice relations, over its physical indices

The deadline checks of `Model/EnginePhysTimeout.lean` (after every changing iteration of a looping SCC, after every non-looping SCC)
added to the lattice engine of `Model/EnginePhysLat.lean`.  An early return drops the local indices of the current SCC (the struct
keeps `Default` ones); the rows — for a lattice: the row vector with the values joined so far — stay.
Core Lean only; executable.
-/
namespace AscentVerif.PhysLat
open AscentVerif AscentVerif.Engine AscentVerif.Index AscentVerif.Phys

variable {E B G P A : Type}

structure RunStT where
  st : XScc
  checks : Nat
  iters : Nat

/-- the `loop { … }` of a looping SCC with the deadline check after every changing iteration -/
def sccLoopT (I : Interp E B G P A) (V : Hir.VarsOf E B) (p : Program E B G P A) (dyn : List RelId)
    (rules : List (Rule E B G P A)) (dl : Deadline) : Nat → RunStT → Outcome RunStT
  | 0, _ => .outOfFuel
  | fuel + 1, rs =>
    let s1 := evalRules I V p dyn rules { rs.st with changed := false }
    let rs' : RunStT := { st := shift s1, checks := rs.checks, iters := rs.iters + 1 }
    if !s1.changed then .done rs'
    else if dl rs.checks then .timedOut { rs' with checks := rs.checks + 1 }
    else sccLoopT I V p dyn rules dl fuel { rs' with checks := rs.checks + 1 }

/-- early return: every index the SCC took out of the struct is gone (the fields hold `Default`), the rows stay -/
def abandonScc (p : Program E B G P A) (scc : List Nat) (s : XScc) : XSt :=
  let touched := dynRels p scc ++ (sccRules p scc).flatMap Rule.bodyRels
  (List.range s.rels.length).map fun r =>
    let xr := xrel s.rels r
    if touched.contains r then { xr with full := [], idxs := xr.idxs.map fun ci => (ci.1, emptyLike ci.2) } else xr

structure ProgStT where
  st : XSt
  checks : Nat
  iters : List Nat

def runSccT (I : Interp E B G P A) (V : Hir.VarsOf E B) (p : Program E B G P A) (dl : Deadline) (fuel : Nat)
    (scc : List Nat) (ps : ProgStT) : Outcome ProgStT :=
  let dyn := dynRels p scc
  let rules := sccRules p scc
  let s0 := enterScc ps.st dyn
  if isLooping p scc then
    match sccLoopT I V p dyn rules dl fuel { st := s0, checks := ps.checks, iters := 0 } with
    | .done rs => .done { st := leaveScc rs.st, checks := rs.checks, iters := ps.iters ++ [rs.iters] }
    | .timedOut rs => .timedOut { st := abandonScc p scc rs.st, checks := rs.checks, iters := ps.iters ++ [rs.iters] }
    | .outOfFuel => .outOfFuel
  else
    let s1 := shift (shift (evalRules I V p dyn rules s0))
    if dl ps.checks then .timedOut { st := abandonScc p scc s1, checks := ps.checks + 1, iters := ps.iters ++ [1] }
    else .done { st := leaveScc s1, checks := ps.checks + 1, iters := ps.iters ++ [1] }

def runSccsT (I : Interp E B G P A) (V : Hir.VarsOf E B) (p : Program E B G P A) (dl : Deadline) (fuel : Nat) :
    SccOrder → ProgStT → Outcome ProgStT
  | [], ps => .done ps
  | scc :: rest, ps =>
    match runSccT I V p dl fuel scc ps with
    | .done ps' => runSccsT I V p dl fuel rest ps'
    | other => other

/-- `run_timeout`: `update_indices`, then the SCCs in order under the deadline; `.done` = returned `true` -/
def runTimeout (I : Interp E B G P A) (V : Hir.VarsOf E B) (p : Program E B G P A) (ix : IxSets) (order : SccOrder)
    (dl : Deadline) (fuel : Nat) (s : XSt) : Outcome ProgStT :=
  runSccsT I V p dl fuel order { st := updateIndices p ix s, checks := 0, iters := [] }

end AscentVerif.PhysLat
