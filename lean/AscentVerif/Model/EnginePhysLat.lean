import AscentVerif.Model.EnginePhys
/-!
# The generated code over its physical indices, with LATTICE relations (serial, aggregation-free)

Extends `Model/EnginePhys.lean` by `lattice` relations.  For a lattice `l(k₁, …, kₙ, v)` the generated struct owns

* the row vector (`Vec<tuple>`), whose LAST column is joined IN PLACE (`Lattice::join_mut(&mut rows[i].v, new_v)`);
* the **key index** `RelFullIndexType<(k₁ … kₙ), usize>` (`lattices_full_indices`: key columns → ROW NUMBER); and
* one `LatticeIndexType<K, usize>` = `HashMap<K, HashSet<usize>>` per further index column set the rules use — the
  indices of a lattice hold row numbers (`IndexValType::Reference`), as SETS, because the row of a key is re-inserted into
  the `new` version of every index whenever its value improves (`head_update_code`, l.1241-1263).

Plain relations are exactly as in `Model/EnginePhys.lean` (value-keyed `RelIndexType1`, full index as de-duplication set).
A clause on a lattice looks the row numbers up and reads the rows from the row vector AS IT IS WHEN THE RULE VARIANT STARTS
(the executable model takes the snapshot there; `Props/C03ND.lean` covers every other reading moment).  Index column sets of a
lattice never contain the value column (a clause with the value column bound reads an index the head updates skip: finding
F9; excluded by `latPlanOk`).

* `updateIndices` — l.752-772: every index reset, every row (number) inserted;
* `headLat` — l.1241-1263: look the key up in `new`, `delta`, `total` of the key index; found: `join_mut` in place, and if it
  changed, insert the row number into the `new` version of every index (the key index included: it is not the "full" index)
  under the keys of the DERIVED row; not found: insert `rows.len()` everywhere and push;
* `shift` — `FullIdx.mergeStep` for key indices, `LatIdx.mergeStep` (no size-based swap) for the set-valued ones.
`Props/C03Phys.lean`: the run reaches the least fixed point (simulation onto the nondeterministic lattice engine).
Core Lean only; executable (driver op `runpl`).
-/
namespace AscentVerif.PhysLat
open AscentVerif AscentVerif.Engine AscentVerif.Index AscentVerif.Phys

variable {E B G P A : Type}

abbrev KIx := FullIdx (List Val) Nat
abbrev LIx := LatIdx (List Val) Nat

/-- an index of a relation: value-keyed (plain relation), row-number sets (lattice), or the lattice's key index -/
inductive XIx where
  | vals (m : PIx)
  | rows (m : LIx)
  | key (m : KIx)
deriving Repr

structure XRel where
  rows : List Tuple
  full : FIx                          -- plain relations only
  idxs : List (List Nat × XIx)
deriving Repr

structure XDyn where
  rel : RelId
  full : Tri FIx
  idxs : List (List Nat × Tri XIx)
deriving Repr

structure XScc where
  rels : List XRel
  dyn : List XDyn
  changed : Bool
deriving Repr

abbrev XSt := List XRel

def xrel (s : XSt) (r : RelId) : XRel := s.getD r ⟨[], [], []⟩
def findXDyn (dyn : List XDyn) (r : RelId) : Option XDyn := dyn.find? (·.rel == r)
def setXDyn (dyn : List XDyn) (d : XDyn) : List XDyn := dyn.map fun x => if x.rel == d.rel then d else x

def isLatRel (p : Program E B G P A) (r : RelId) : Bool := (declOf p r).lat
def keyCols (p : Program E B G P A) (r : RelId) : List Nat := List.range (arityOf p r - 1)

/-! ## single indices -/

def XIx.empty (lat : Bool) (isKey : Bool) : XIx := if !lat then .vals [] else if isKey then .key [] else .rows []

/-- `index_insert` of row number `i` / row `row` under the projection of `row` on `cols` -/
def XIx.insert (x : XIx) (cols : List Nat) (row : Tuple) (i : Nat) : XIx :=
  match x with
  | .vals m => .vals (Idx.insert m (Plan.proj cols row) (projC cols row))
  | .rows m => .rows (LatIdx.insert m (Plan.proj cols row) i)
  | .key m => .key (FullIdx.insert m (Plan.proj cols row) i)

def XIx.size : XIx → Nat
  | .vals m => m.length
  | .rows m => m.length
  | .key m => m.length

def shiftX (t : Tri XIx) : Tri XIx :=
  match t.new, t.delta, t.total with
  | .vals n, .vals d, .vals tt => let r := Idx.mergeStep n d tt; ⟨.vals r.2.2, .vals r.2.1, .vals r.1⟩
  | .rows n, .rows d, .rows tt => let r := LatIdx.mergeStep n d tt; ⟨.rows r.2.2, .rows r.2.1, .rows r.1⟩
  | .key n, .key d, .key tt => let r := FullIdx.mergeStep n d tt; ⟨.key r.2.2, .key r.2.1, .key r.1⟩
  | _, _, _ => t

/-- the rows an index returns for a key, read from the row vector `rows` (lattice) or rebuilt from key and value (relation) -/
def XIx.get (x : XIx) (rows : List Tuple) (arity : Nat) (cols : List Nat) (key : List Val) : List Tuple :=
  match x with
  | .vals m => ((Idx.get m key).getD []).map (rebuild cols arity key)
  | .rows m => ((HMap.get? m key).getD []).map (rowAt rows)
  | .key m => ((HMap.get? m key).toList).map (rowAt rows)

/-- `iter_all`: every key with its rows -/
def XIx.all (x : XIx) (rows : List Tuple) (arity : Nat) (cols : List Nat) : List (List Val × List Tuple) :=
  match x with
  | .vals m => m.map fun kv => (kv.1, kv.2.map (rebuild cols arity kv.1))
  | .rows m => m.map fun kv => (kv.1, kv.2.map (rowAt rows))
  | .key m => m.map fun kv => (kv.1, [rowAt rows kv.2])

/-! ## `update_indices` -/

/-- the index column sets of a relation: for a lattice the key index always exists -/
def ixOf (p : Program E B G P A) (ix : IxSets) (r : RelId) : List (List Nat) :=
  if isLatRel p r then (keyCols p r :: (ix r).filter (· != keyCols p r)) else ix r

def buildX (p : Program E B G P A) (r : RelId) (cols : List Nat) (rows : List Tuple) : XIx :=
  ((List.range rows.length).zip rows).foldl (fun x ir => x.insert cols ir.2 ir.1)
    (XIx.empty (isLatRel p r) (cols == keyCols p r))

def updateIndices (p : Program E B G P A) (ix : IxSets) (s : XSt) : XSt :=
  (List.range s.length).map fun r =>
    let rows := (xrel s r).rows
    { rows := rows, full := if isLatRel p r then [] else buildFull rows
      idxs := (ixOf p ix r).map fun c => (c, buildX p r c rows) }

/-! ## reading a clause -/

def lookupX (idxs : List (List Nat × XIx)) (cols : List Nat) : Option XIx := (idxs.find? (·.1 == cols)).map (·.2)

/-- one version of the indices of a relation together with the row vector the row numbers refer to -/
structure Ver1 where
  rows : List Tuple
  full : FIx
  idxs : List (List Nat × XIx)

inductive XView where
  | one (v : Ver1)
  | two (v₁ v₂ : Ver1)

def viewOf (s : XScc) (r : RelId) (v : Option Ver) : XView :=
  let rows := (xrel s.rels r).rows
  match findXDyn s.dyn r with
  | none => .one ⟨rows, (xrel s.rels r).full, (xrel s.rels r).idxs⟩
  | some d =>
    match v with
    | some .totalDelta => .two ⟨rows, d.full.total, d.idxs.map fun ci => (ci.1, ci.2.total)⟩ ⟨rows, d.full.delta, d.idxs.map fun ci => (ci.1, ci.2.delta)⟩
    | some .delta => .one ⟨rows, d.full.delta, d.idxs.map fun ci => (ci.1, ci.2.delta)⟩
    | _ => .one ⟨rows, d.full.total, d.idxs.map fun ci => (ci.1, ci.2.total)⟩

def get1 (lat : Bool) (arity : Nat) (v : Ver1) (cols : List Nat) (key : List Val) : List Tuple :=
  if !lat && cols.length == arity then (if FullIdx.containsKey v.full key then [key] else [])
  else match lookupX v.idxs cols with
    | some x => x.get v.rows arity cols key
    | none => []

def all1 (lat : Bool) (arity : Nat) (v : Ver1) (cols : List Nat) : List (List Val × List Tuple) :=
  if !lat && cols.length == arity then v.full.map fun kv => (kv.1, [kv.1])
  else match lookupX v.idxs cols with
    | some x => x.all v.rows arity cols
    | none => []

def len1 (lat : Bool) (arity : Nat) (v : Ver1) (cols : List Nat) : Nat :=
  if !lat && cols.length == arity then v.full.length
  else match lookupX v.idxs cols with
    | some x => x.size
    | none => 0

def getV (lat : Bool) (arity : Nat) (w : XView) (cols : List Nat) (key : List Val) : List Tuple :=
  match w with
  | .one v => get1 lat arity v cols key
  | .two v₁ v₂ => get1 lat arity v₁ cols key ++ get1 lat arity v₂ cols key

def allV (lat : Bool) (arity : Nat) (w : XView) (cols : List Nat) : List (List Val × List Tuple) :=
  match w with
  | .one v => all1 lat arity v cols
  | .two v₁ v₂ => all1 lat arity v₁ cols ++ all1 lat arity v₂ cols

def lenV (lat : Bool) (arity : Nat) (w : XView) (cols : List Nat) : Nat :=
  match w with
  | .one v => len1 lat arity v cols
  | .two v₁ v₂ => len1 lat arity v₁ cols + len1 lat arity v₂ cols

/-! ## one MIR rule (as `Phys.evalFrom`, reading these views) -/

def evalFrom (I : Interp E B G P A) (p : Program E B G P A) (s : XScc) (h : Hir.HRule) (swap : Bool) :
    Nat → List (Item E B G P A) → List (Option Ver) → Env → List Env
  | _, [], _, ρ => [ρ]
  | i, .clause r args conds :: .clause r2 args2 conds2 :: rest2, vs, ρ =>
    if h.simpleJoinStart = some i then
      let w1 := viewOf s r (vs.headD none)
      let w2 := viewOf s r2 (vs.tail.headD none)
      let c1 := Plan.colsAt h i
      let c2 := Plan.colsAt h (i + 1)
      if swap then
        Phys.joinStep I (allV (isLatRel p r2) (arityOf p r2) w2 c2) c2 args2 conds2 (getV (isLatRel p r) (arityOf p r) w1 c1) c1 args conds
          (Plan.preVars h i ++ h.bound.getD (i + 1) []) ρ fun ρ' => evalFrom I p s h swap (i + 2) rest2 vs.tail.tail ρ'
      else
        Phys.joinStep I (allV (isLatRel p r) (arityOf p r) w1 c1) c1 args conds (getV (isLatRel p r2) (arityOf p r2) w2 c2) c2 args2 conds2
          (Plan.preVars h (i + 1)) ρ fun ρ' => evalFrom I p s h swap (i + 2) rest2 vs.tail.tail ρ'
    else
      Phys.clauseStep I (getV (isLatRel p r) (arityOf p r) (viewOf s r (vs.headD none)) (Plan.colsAt h i) (Plan.keyOf I ρ args (Plan.colsAt h i)))
        (Plan.preVars h i) args conds ρ
        fun ρ' => evalFrom I p s h swap (i + 1) (.clause r2 args2 conds2 :: rest2) vs.tail ρ'
  | i, .clause r args conds :: rest, vs, ρ =>
    Phys.clauseStep I (getV (isLatRel p r) (arityOf p r) (viewOf s r (vs.headD none)) (Plan.colsAt h i) (Plan.keyOf I ρ args (Plan.colsAt h i)))
      (Plan.preVars h i) args conds ρ
      fun ρ' => evalFrom I p s h swap (i + 1) rest vs.tail ρ'
  | i, .cond c :: rest, vs, ρ =>
    match satCond I c ρ with
    | none => []
    | some ρ₁ => evalFrom I p s h swap (i + 1) rest vs.tail ρ₁
  | i, .gen v g :: rest, vs, ρ =>
    (I.gen g ρ).flatMap fun x => evalFrom I p s h swap (i + 1) rest vs.tail ((v, x) :: ρ)
  | _, .agg _ :: _, _, _ => []

def anyEmpty (p : Program E B G P A) (s : XScc) (h : Hir.HRule) (body : List (Item E B G P A)) (vs : List (Option Ver)) : Bool :=
  let cls := clausesOf 0 body vs
  cls.length > 1 && !(h.simpleJoinStart.isSome && cls.length == 2) &&
    cls.any fun c => lenV (isLatRel p c.2.1) (arityOf p c.2.1) (viewOf s c.2.1 c.2.2) (Plan.colsAt h c.1) == 0

def chooseSwap (p : Program E B G P A) (s : XScc) (h : Hir.HRule) (body : List (Item E B G P A)) (vs : List (Option Ver)) : Bool :=
  match h.simpleJoinStart with
  | none => false
  | some i =>
    if !Plan.reorderable h then false
    else
      match (clausesOf 0 body vs).find? (·.1 == i), (clausesOf 0 body vs).find? (·.1 == i + 1) with
      | some c1, some c2 =>
        !(lenV (isLatRel p c1.2.1) (arityOf p c1.2.1) (viewOf s c1.2.1 c1.2.2) (Plan.colsAt h i) ≤
          lenV (isLatRel p c2.2.1) (arityOf p c2.2.1) (viewOf s c2.2.1 c2.2.2) (Plan.colsAt h (i + 1)))
      | _, _ => false

def evalRule (I : Interp E B G P A) (p : Program E B G P A) (s : XScc) (h : Hir.HRule) (body : List (Item E B G P A))
    (vs : List (Option Ver)) : List Env :=
  if anyEmpty p s h body vs then [] else evalFrom I p s h (chooseSwap p s h body vs) 0 body vs []

/-! ## head updates -/

/-- plain relation: as `Phys.headRel` -/
def headRel (s : XScc) (r : RelId) (row : Tuple) : XScc :=
  match findXDyn s.dyn r with
  | none => s
  | some d =>
    if FullIdx.containsKey d.full.total row || FullIdx.containsKey d.full.delta row then s
    else
      let ins := FullIdx.insertIfNotPresent d.full.new row ()
      if !ins.2 then s
      else
        let pr := xrel s.rels r
        { rels := setNth s.rels r { pr with rows := pr.rows ++ [row] }
          dyn := setXDyn s.dyn { d with
            full := { d.full with new := ins.1 }
            idxs := d.idxs.map fun ci => (ci.1, { ci.2 with new := ci.2.new.insert ci.1 row pr.rows.length }) }
          changed := true }

def keyGet : XIx → List Val → Option Nat
  | .key m, k => HMap.get? m k
  | _, _ => none

/-- lattice head: `new.index_get(key).or_else(delta..).or_else(total..)` on the key index; join in place and re-queue the row
number in every `new` index iff the value changed; otherwise push a fresh row -/
def headLat (I : Interp E B G P A) (p : Program E B G P A) (s : XScc) (r : RelId) (row : Tuple) : XScc :=
  match findXDyn s.dyn r with
  | none => s
  | some d =>
    let pr := xrel s.rels r
    let key := row.dropLast
    let v := row.getLastD .unit
    let kc := keyCols p r
    match lookupX (d.idxs.map fun ci => (ci.1, ci.2.new)) kc, lookupX (d.idxs.map fun ci => (ci.1, ci.2.delta)) kc,
          lookupX (d.idxs.map fun ci => (ci.1, ci.2.total)) kc with
    | some kn, some kd, some kt =>
      match (keyGet kn key).orElse fun _ => (keyGet kd key).orElse fun _ => keyGet kt key with
      | some i =>
        let old := rowAt pr.rows i
        let j := I.joinMut r (old.getLastD .unit) v
        if j.2 then
          { rels := setNth s.rels r { pr with rows := setNth pr.rows i (old.dropLast ++ [j.1]) }
            dyn := setXDyn s.dyn { d with idxs := d.idxs.map fun ci => (ci.1, { ci.2 with new := ci.2.new.insert ci.1 row i }) }
            changed := true }
        else s
      | none =>
        { rels := setNth s.rels r { pr with rows := pr.rows ++ [row] }
          dyn := setXDyn s.dyn { d with idxs := d.idxs.map fun ci => (ci.1, { ci.2 with new := ci.2.new.insert ci.1 row pr.rows.length }) }
          changed := true }
    | _, _, _ => s

def headUpdate (I : Interp E B G P A) (p : Program E B G P A) (s : XScc) (h : HeadClause E) (ρ : Env) : XScc :=
  let row := h.args.map fun e => I.expr e ρ
  if isLatRel p h.rel then headLat I p s h.rel row else headRel s h.rel row

def evalVariant (I : Interp E B G P A) (V : Hir.VarsOf E B) (p : Program E B G P A) (s : XScc) (r : Rule E B G P A)
    (vs : List (Option Ver)) : XScc :=
  (evalRule I p s (Hir.compileRule V r) r.body vs).foldl
    (fun s ρ => r.heads.foldl (fun s h => headUpdate I p s h ρ) s) s

def evalRules (I : Interp E B G P A) (V : Hir.VarsOf E B) (p : Program E B G P A) (dyn : List RelId)
    (rules : List (Rule E B G P A)) (s : XScc) : XScc :=
  rules.foldl (fun s r => (variants dyn r).foldl (fun s vs => evalVariant I V p s r vs) s) s

/-! ## merge, SCC entry / exit, loop, run -/

def shift (s : XScc) : XScc :=
  { s with dyn := s.dyn.map fun d => { d with full := shiftFull d.full, idxs := d.idxs.map fun ci => (ci.1, shiftX ci.2) } }

def emptyLike : XIx → XIx
  | .vals _ => .vals []
  | .rows _ => .rows []
  | .key _ => .key []

def enterScc (s : XSt) (dyn : List RelId) : XScc :=
  { rels := (List.range s.length).map fun r =>
      let pr := xrel s r
      if dyn.contains r then { pr with full := [], idxs := pr.idxs.map fun ci => (ci.1, emptyLike ci.2) } else pr
    dyn := dyn.map fun r =>
      let pr := xrel s r
      { rel := r, full := { total := [], delta := pr.full, new := [] }
        idxs := pr.idxs.map fun ci => (ci.1, { total := emptyLike ci.2, delta := ci.2, new := emptyLike ci.2 }) }
    changed := false }

def leaveScc (s : XScc) : XSt :=
  s.dyn.foldl (fun st d => setNth st d.rel { xrel st d.rel with full := d.full.total, idxs := d.idxs.map fun ci => (ci.1, ci.2.total) }) s.rels

structure RunSt where
  st : XScc
  iters : Nat

def sccLoop (I : Interp E B G P A) (V : Hir.VarsOf E B) (p : Program E B G P A) (dyn : List RelId)
    (rules : List (Rule E B G P A)) : Nat → RunSt → Option RunSt
  | 0, _ => none
  | fuel + 1, rs =>
    let s1 := evalRules I V p dyn rules { rs.st with changed := false }
    let rs' : RunSt := { st := shift s1, iters := rs.iters + 1 }
    if !s1.changed then some rs' else sccLoop I V p dyn rules fuel rs'

structure ProgSt where
  st : XSt
  iters : List Nat

def runScc (I : Interp E B G P A) (V : Hir.VarsOf E B) (p : Program E B G P A) (fuel : Nat) (scc : List Nat)
    (ps : ProgSt) : Option ProgSt :=
  let dyn := dynRels p scc
  let rules := sccRules p scc
  let s0 := enterScc ps.st dyn
  if isLooping p scc then
    (sccLoop I V p dyn rules fuel { st := s0, iters := 0 }).map fun rs =>
      { st := leaveScc rs.st, iters := ps.iters ++ [rs.iters] }
  else
    some { st := leaveScc (shift (shift (evalRules I V p dyn rules s0))), iters := ps.iters ++ [1] }

def runSccs (I : Interp E B G P A) (V : Hir.VarsOf E B) (p : Program E B G P A) (fuel : Nat) :
    SccOrder → ProgSt → Option ProgSt
  | [], ps => some ps
  | scc :: rest, ps => (runScc I V p fuel scc ps).bind (runSccs I V p fuel rest)

def run (I : Interp E B G P A) (V : Hir.VarsOf E B) (p : Program E B G P A) (ix : IxSets) (order : SccOrder) (fuel : Nat)
    (s : XSt) : Option ProgSt :=
  runSccs I V p fuel order { st := updateIndices p ix s, iters := [] }

def initSt (p : Program E B G P A) (input : RelId → List Tuple) : XSt :=
  (List.range p.rels.length).map fun r => { rows := input r, full := [], idxs := [] }

def factsOf (s : XSt) (f : Fact) : Prop := f.args ∈ (xrel s f.rel).rows

/-- the plan is usable for a program with lattices: `Phys.planOk`, and no clause on a lattice has the value column among its
index columns (finding F9 otherwise), and lattices have at least the value column -/
def latPlanOk (V : Hir.VarsOf E B) (p : Program E B G P A) (ix : IxSets) : Bool :=
  Phys.planOk V p (fun r => ixOf p ix r) &&
  (p.rules.all fun r =>
    let h := Hir.compileRule V r
    (List.range r.body.length).all fun i =>
      match r.body[i]? with
      | some (.clause rel _ _) => !isLatRel p rel || (Plan.colsAt h i).all (· < arityOf p rel - 1)
      | _ => true) &&
  ((List.range p.rels.length).all fun r => !isLatRel p r || decide (0 < arityOf p r))

end AscentVerif.PhysLat
