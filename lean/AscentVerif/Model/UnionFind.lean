/-!
# Model of `byods/ascent-byods-rels/src/uf.rs` (`UnionFind<T>`, `T = Int`)

`Elems` is the vector of elements; an element's `Id` is its index in the vector (as in the
Rust code, where `Id` wraps the index).  The `Cell`s of the Rust code (parent, rank, next and
the cached id of every item) are plain fields here and every operation returns the new state:
`find`, `find_item` and even the consistency check `ok()` mutate (path halving / cache update)
although they take `&self` in Rust.

The `items` hash map is an association list with one entry per key; it is only ever looked
up by key, never iterated, so its order is unobservable.

Outcomes: `Res.ok` or `Res.panic`.  `panic` stands for every way the Rust code can leave the
normal path: a failed `debug_assert!` (the harness is built with debug assertions), an index
out of range (`get_unchecked` is guarded by `debug_assert!(self.has(id))`), an `unwrap` on
`None`, and — for the recursive `find` and the class iterators, which would not terminate on
a cyclic structure — running out of fuel.  Fuel is the number of elements (`find`) or the
number of elements plus a constant (the loops of `ok`), which is enough on every well-formed
state (proved in `Props/C18.lean`); nothing is ever answered by a silent default.

Core Lean only, no imports; executable.
-/
namespace AscentVerif.UF

inductive Res (α : Type) where
  | ok (a : α)
  | panic
deriving Repr, DecidableEq

/-- `struct Elem<T>`: `next` (circular list of the class), `parent`, `rank`, `value` -/
structure Elem where
  next : Nat
  parent : Nat
  rank : Nat
  value : Int
deriving Repr, DecidableEq

/-- `struct Elems<T>(Vec<Elem<T>>)` -/
abbrev Elems := List Elem

namespace Elems

/-- `has`: `id < self.0.len()` -/
def has (es : Elems) (id : Nat) : Bool := decide (id < es.length)

/-- `Elems::find` — path halving exactly as coded:
```
let elem = get_unchecked(id); let parent_id = elem.parent;
if id == parent_id { return (id, elem) }
let parent = get_unchecked(parent_id); let grandparent_id = parent.parent;
if grandparent_id == parent_id { return (parent_id, parent) }
elem.parent.set(grandparent_id); self.find(grandparent_id)
```
The last argument is the fuel. -/
def find (es : Elems) (id : Nat) : Nat → Res (Elems × Nat)
  | 0 => .panic
  | fuel + 1 =>
    match es[id]? with
    | none => .panic
    | some e =>
      if id = e.parent then .ok (es, id)
      else
        match es[e.parent]? with
        | none => .panic
        | some p =>
          if p.parent = e.parent then .ok (es, e.parent)
          else find (es.set id { e with parent := p.parent }) p.parent fuel

/-- `find` with the fuel used everywhere: the number of elements -/
def findTop (es : Elems) (id : Nat) : Res (Elems × Nat) := find es id es.length

/-- `Elem::union(&self, other)` on the elements at indices `r` (self) and `o` (other):
```
debug_assert_ne!(self.parent, other.parent); debug_assert!(self.rank >= other.rank);
let self_next = self.next.replace(other.next); self.rank += 1;
other.next = self_next; other.parent = self.parent;
```
(if `r = o` the two references alias and the first assertion fires) -/
def unionElem (es : Elems) (r o : Nat) : Res Elems :=
  match es[r]?, es[o]? with
  | some s, some t =>
    if s.parent = t.parent then .panic
    else if s.rank < t.rank then .panic
    else
      .ok ((es.set r { s with next := t.next, rank := s.rank + 1 }).set o
        { t with next := s.next, parent := s.parent })
  | _, _ => .panic

/-- `Elem::union_by_rank(&self, other) -> Id`: the node of greater rank becomes the root (ties:
`self`); returns the winner's `parent` field, i.e. its own id when it is a root -/
def unionByRank (es : Elems) (r o : Nat) : Res (Elems × Nat) :=
  match es[r]?, es[o]? with
  | some s, some t =>
    if s.parent = t.parent then .panic
    else if s.rank ≥ t.rank then
      match unionElem es r o with
      | .ok es' => .ok (es', s.parent)
      | .panic => .panic
    else
      match unionElem es o r with
      | .ok es' => .ok (es', t.parent)
      | .panic => .panic
  | _, _ => .panic

/-- `Elems::push`: a fresh singleton class (`next = parent = own id`, rank 0) -/
def push (es : Elems) (value : Int) : Elems × Nat :=
  (es ++ [{ next := es.length, parent := es.length, rank := 0, value := value }], es.length)

/-! ### `Elems::ok` (the O(n²) consistency check) -/

/-- the "No cycles" loop of `ok`: walk the parent links from `(id, n)` until a root, checking
that ranks do not decrease and that no id repeats.  `some root` / `none` (= `return false`).
`self[n.parent]` is the panicking `Index` impl. -/
def okWalk (es : Elems) (id : Nat) (n : Elem) (prev : List Nat) : Nat → Res (Option Nat)
  | 0 => .ok none
  | fuel + 1 =>
    if n.parent = id then .ok (some id)
    else if prev.contains id then .ok none
    else
      match es[n.parent]? with
      | none => .panic
      | some p =>
        if n.rank > p.rank then .ok none
        else okWalk es n.parent p (id :: prev) fuel

/-- the "Circular linked list" loop of `ok`: iterate the class of `root` through the `next`
pointers (`Class::next`), requiring `find(node) = root` for every node and fewer than `len`
nodes.  `cur` is the iterator's current node, `distance` the `enumerate` counter.  `find`
mutates (path halving), so the elements are threaded through. -/
def okClassLoop (es : Elems) (root cur distance : Nat) : Nat → Res (Elems × Bool)
  | 0 => .panic
  | fuel + 1 =>
    match es[cur]? with
    | none => .panic
    | some c =>
      if c.next = root then .ok (es, true)
      else if !has es c.next then .panic
      else
        match findTop es c.next with
        | .panic => .panic
        | .ok (es', r) =>
          if root ≠ r then .ok (es', false)
          else if distance = es.length then .ok (es', false)
          else okClassLoop es' root c.next (distance + 1) fuel

/-- body of the `for (id, current) in self.iter()` loop of `ok` -/
def okElem (es : Elems) (id : Nat) : Res (Elems × Bool) :=
  match es[id]? with
  | none => .panic
  | some current =>
    if !has es current.next then .ok (es, false)
    else if !has es current.parent then .ok (es, false)
    else if current.rank > es.length then .ok (es, false)
    else
      match okWalk es id current [] (es.length + 1) with
      | .panic => .panic
      | .ok none => .ok (es, false)
      | .ok (some root) =>
        if !has es root then .panic
        else okClassLoop es root root 0 (es.length + 2)

/-- run `okElem` for the ids in the list, stopping at the first `false` -/
def okElems (es : Elems) : List Nat → Res (Elems × Bool)
  | [] => .ok (es, true)
  | id :: rest =>
    match okElem es id with
    | .panic => .panic
    | .ok (es', false) => .ok (es', false)
    | .ok (es', true) => okElems es' rest

/-- `Class` iterator started at `root`, counted: number of nodes other than `root` on the
`next` cycle (the Rust `count()` would not terminate if the list never returns to `root`) -/
def classCount (es : Elems) (root cur : Nat) : Nat → Res Nat
  | 0 => .panic
  | fuel + 1 =>
    match es[cur]? with
    | none => .panic
    | some c =>
      if c.next = root then .ok 0
      else if !has es c.next then .panic
      else
        match classCount es root c.next fuel with
        | .ok n => .ok (n + 1)
        | .panic => .panic

/-- `iter_classes().map(|i| i.count()).sum()`: for every element in vector order, the root of
its parent (`find(next.parent)`); classes whose root was already seen are skipped -/
def countByClasses (es : Elems) (seen : List Nat) (acc : Nat) : List Nat → Res (Elems × Nat)
  | [] => .ok (es, acc)
  | i :: rest =>
    match es[i]? with
    | none => .panic
    | some e =>
      if !has es e.parent then .panic
      else
        match findTop es e.parent with
        | .panic => .panic
        | .ok (es', root) =>
          if seen.contains root then countByClasses es' seen acc rest
          else
            match classCount es' root root (es'.length + 1) with
            | .panic => .panic
            | .ok n => countByClasses es' (root :: seen) (acc + 1 + n) rest

/-- `Elems::ok` (`ok_cheap` of `Elems` is `len < UfPtr::MAX`, always true for a `Nat`) -/
def ok (es : Elems) : Res (Elems × Bool) :=
  match okElems es (List.range es.length) with
  | .panic => .panic
  | .ok (es', false) => .ok (es', false)
  | .ok (es', true) =>
    match countByClasses es' [] 0 (List.range es'.length) with
    | .panic => .panic
    | .ok (es'', n) => .ok (es'', decide (es''.length = n))

end Elems

/-! ## `UnionFind<T>` -/

/-- association list look-up (`HashMap::get`) -/
def lookup (m : List (Int × Nat)) (k : Int) : Option Nat :=
  match m with
  | [] => none
  | (k', v) :: rest => if k' = k then some v else lookup rest k

/-- `HashMap::insert` / `Cell::set` of an existing entry: replace in place, else append -/
def setItem (m : List (Int × Nat)) (k : Int) (v : Nat) : List (Int × Nat) :=
  match m with
  | [] => [(k, v)]
  | (k', v') :: rest => if k' = k then (k', v) :: rest else (k', v') :: setItem rest k v

/-- `elems`: the equivalence-class structure; `items`: item ↦ cached id cell -/
structure UnionFind where
  elems : Elems := []
  items : List (Int × Nat) := []
deriving Repr, DecidableEq

namespace UnionFind

/-- `ok_cheap`: `elems.len() == items.len()` -/
def okCheap (u : UnionFind) : Bool := decide (u.elems.length = u.items.length)

/-- `find_item` / `find_item_internal`: find from the cached id, then cache the root -/
def findItem (u : UnionFind) (item : Int) : Res (UnionFind × Option Nat) :=
  match lookup u.items item with
  | none => .ok (u, none)
  | some id =>
    match Elems.findTop u.elems id with
    | .panic => .panic
    | .ok (es, root) => .ok ({ elems := es, items := setItem u.items item root }, some root)

/-- `push` -/
def push (u : UnionFind) (item : Int) : Res (UnionFind × Nat) :=
  if !u.okCheap then .panic
  else
    let r := Elems.push u.elems item
    .ok ({ elems := r.1, items := setItem u.items item r.2 }, r.2)

/-- `add`: `(false, root id)` if present, else `(true, fresh id)` -/
def add (u : UnionFind) (item : Int) : Res (UnionFind × Bool × Nat) :=
  if !u.okCheap then .panic
  else
    match findItem u item with
    | .panic => .panic
    | .ok (u', some id) => .ok (u', false, id)
    | .ok (u', none) =>
      match push u' item with
      | .panic => .panic
      | .ok (u'', id) => .ok (u'', true, id)

/-- `unsafe fn find(&self, id)` -/
def find (u : UnionFind) (id : Nat) : Res (UnionFind × Nat) :=
  if !Elems.has u.elems id then .panic
  else
    match Elems.findTop u.elems id with
    | .panic => .panic
    | .ok (es, root) => .ok ({ u with elems := es }, root)

/-- `union_internal`, returning the id of the result -/
def unionInternal (u : UnionFind) (x y : Nat) : Res (UnionFind × Nat) :=
  if !Elems.has u.elems x || !Elems.has u.elems y then .panic
  else if x = y then
    match Elems.findTop u.elems x with
    | .panic => .panic
    | .ok (es, root) => .ok ({ u with elems := es }, root)
  else
    match Elems.findTop u.elems x with
    | .panic => .panic
    | .ok (es1, xr) =>
      match Elems.findTop es1 y with
      | .panic => .panic
      | .ok (es2, yr) =>
        if xr = yr then .ok ({ u with elems := es2 }, xr)
        else
          match Elems.unionByRank es2 xr yr with
          | .panic => .panic
          | .ok (es3, root) =>
            if root = xr then .ok ({ u with elems := es3 }, xr)
            else if root = yr then .ok ({ u with elems := es3 }, yr)
            else .panic

/-- `unsafe fn union(&self, x, y) -> Id` -/
def union (u : UnionFind) (x y : Nat) : Res (UnionFind × Nat) := unionInternal u x y

/-- `union_add` -/
def unionAdd (u : UnionFind) (x y : Int) : Res (UnionFind × Nat) :=
  match add u x with
  | .panic => .panic
  | .ok (u1, _, xid) =>
    match add u1 y with
    | .panic => .panic
    | .ok (u2, _, yid) => union u2 xid yid

/-- `len` -/
def len (u : UnionFind) : Res Nat := if !u.okCheap then .panic else .ok u.elems.length

/-- `ok` = `ok_cheap() && elems.ok()` -/
def ok (u : UnionFind) : Res (UnionFind × Bool) :=
  if !u.okCheap then .ok (u, false)
  else
    match Elems.ok u.elems with
    | .panic => .panic
    | .ok (es, b) => .ok ({ u with elems := es }, b)

end UnionFind
end AscentVerif.UF
