import AscentVerif.Model.Engine
import AscentVerif.Model.TrRelUFInd
/-!
# The generated evaluation code over a program with ONE `#[ds(trrel_uf)]` relation (bug-faithful model for C12's tie B)

Same MIR-level reading of `ascent_mir.rs` / `ascent_codegen.rs` as Model/Engine.lean (rule SCCs, `versions_base`, semi-naive
loop, head update), specialised to what the tagged relation makes observable and Model/Engine.lean abstracts away:

* the tagged relation's `new / delta / total` are the provider's values (Model/TrRelUFInd.lean), moved, initialised and
  merged exactly as `compile_mir_scc` does; plain relations are sets of tuples (their indices are the subject of C19);
* a body clause on the tagged relation is read through the *view* of its statically bound columns (`index_get` with the key
  built from the bound values), `total+delta` = `RelIndexCombined` (both lookups, concatenated);
* a rule whose first two body items are plain-variable clauses is a *simple join*: its first clause is read through
  `iter_all` of the view on its join columns, and — when the join is reorderable — `len_estimate` of both views is called
  first (a panic of the ternary view [1,2]); the join itself is order independent, so only one order is modelled;
* a rule with more than one clause (except a two-clause simple join) is skipped when some clause's view `is_empty()`
  (per view: the adaptors' definitions, which are not all exact);
* the reverse maps of the ternary wrapper exist iff the program uses a view that needs them (`inds_contain!`).

Lattices, aggregation and `ascent_par!` are outside this model.  Core Lean only; executable.
-/
namespace AscentVerif.EngineDs
open AscentVerif AscentVerif.Engine AscentVerif.TrInd AscentVerif.TrRel

variable {E B G P A : Type}

/-- the provider triple of the tagged relation -/
inductive DsRel where
  | bin (n d t : Common)
  | ter (n d t : Ternary)

/-- one version (`delta` or `total`) of the tagged relation -/
inductive Side where
  | bin (c : Common)
  | ter (t : Ternary)

def valInt : Val → Int
  | .int n => n
  | _ => 0

namespace Side

/-- `index_get` of the view on `cols` (`None` = no tuples) -/
def get (s : Side) (cols : List Nat) (keys : List Int) : Res (List (List Int)) := do
  let r : Option (List (List Int)) ← match s, cols, keys with
    | .bin c, [], [] => do pure (some ((← c.iterAll).map fun p => [p.1, p.2]))
    | .bin c, [0], [x] => do pure ((← c.viewGet false x).map fun l => l.map fun p => [p.1, p.2])
    | .bin c, [1], [y] => do pure ((← c.viewGet true y).map fun l => l.map fun p => [p.1, p.2])
    | .bin c, [0, 1], [x, y] => do pure (if (← c.contains x y) then some [[x, y]] else none)
    | .ter t, [], [] => do pure (some (← t.all))
    | .ter t, [0], [k] => t.get0 k
    | .ter t, [1], [x] => t.get1 false x
    | .ter t, [2], [x] => t.get1 true x
    | .ter t, [0, 1], [k, x] => t.get0x false k x
    | .ter t, [0, 2], [k, x] => t.get0x true k x
    | .ter t, [1, 2], [x, y] => t.get12 x y
    | .ter t, [0, 1, 2], [k, x, y] => do pure (if (← t.contains k x y) then some [[k, x, y]] else none)
    | _, _, _ => Res.panic
  pure (r.getD [])

/-- `iter_all` of the view on `cols`, flattened -/
def all (s : Side) (cols : List Nat) : Res (List (List Int)) :=
  match s, cols with
  | .bin c, [] => do pure ((← c.iterAll).map fun p => [p.1, p.2])
  | .bin c, [0] => do pure ((← c.viewAll false).map fun p => [p.1, p.2])
  | .bin c, [1] => do pure ((← c.viewAll true).map fun p => [p.1, p.2])
  | .bin c, [0, 1] => do pure ((← c.iterAll).map fun p => [p.1, p.2])
  | .ter t, [] => t.all
  | .ter t, [0] => t.all0
  | .ter t, [1] => t.all1 false
  | .ter t, [2] => t.all1 true
  | .ter t, [0, 1] => t.all0x false
  | .ter t, [0, 2] => t.all0x true
  | .ter t, [1, 2] => t.all12
  | .ter t, [0, 1, 2] => t.all
  | _, _ => .panic

/-- `RelIndexRead::is_empty` of the view on `cols` ("definitely empty") -/
def isEmpty (s : Side) (cols : List Nat) : Res Bool :=
  match s, cols with
  | .bin _, [] => .ok false                                   -- ByodsBinRelIndNone: trait default
  | .bin c, _ => c.isEmptyTrait                               -- `self.0.is_empty()`
  | .ter _, [] => .ok false
  | .ter _, [1, 2] => .ok false
  | .ter t, [1] => do pure (← unwrap t.rmap1).isEmpty
  | .ter t, [2] => do pure (← unwrap t.rmap2).isEmpty
  | .ter t, _ => .ok t.map.isEmpty

/-- the only `len_estimate` that can fail: `BinRelToTernaryInd1_2` (the values of the others only choose a join order) -/
def lenEstimate (s : Side) (cols : List Nat) : Res Unit :=
  match s, cols with
  | .ter t, [1, 2] => do let _ ← t.lenEstimate12; pure ()
  | _, _ => .ok ()

end Side

/-- a plain relation inside an SCC (`total` is also its content between SCCs) -/
structure PRel where
  total : List Tuple := []
  delta : List Tuple := []
  new : List Tuple := []
deriving Repr

structure St where
  plain : List PRel
  ds : DsRel
  changed : Bool := false

structure Cfg where
  dsId : RelId
  pol : Policy := {}

def prel (s : St) (r : RelId) : PRel := s.plain.getD r {}

/-! ## static structure of a rule -/

def argVars (args : List (Arg E)) : List Var := args.filterMap fun | .var v => some v | .expr _ => none

def condVars : Cond E B P → List Var
  | .ifc _ => []
  | .letc v _ => [v]
  | .ifLet _ vs _ => vs

/-- variables grounded by a body item -/
def itemVars : Item E B G P A → List Var
  | .clause _ args conds => argVars args ++ conds.flatMap condVars
  | .cond c => condVars c
  | .gen v _ => [v]
  | .agg a => a.outs

/-- is the rule a simple join (`first_two_clauses_simple`): first two body items are clauses whose arguments are all
variables, the first without a repeated variable and without conditions.  (Repeated variables are desugared before HIR; the
generator never produces them in the first clause.) -/
def isSimpleJoin (body : List (Item E B G P A)) : Bool :=
  match body with
  | .clause _ a1 _ :: .clause _ a2 _ :: _ =>
    let allVars := fun (as : List (Arg E)) => as.all fun | .var _ => true | .expr _ => false
    let v1 := argVars a1
    allVars a1 && allVars a2 && v1.eraseDups.length == v1.length
  | _ => false

/-- the index columns of every body item (`none` for non-clauses): statically bound columns; for the first clause of a
simple join the columns whose variable occurs in the second clause -/
def staticCols (body : List (Item E B G P A)) : List (Option (List Nat)) :=
  let simple := isSimpleJoin body
  let rec go (items : List (Item E B G P A)) (grounded : List Var) (pos : Nat) : List (Option (List Nat)) :=
    match items with
    | [] => []
    | it :: rest =>
      let here : Option (List Nat) := match it with
        | .clause _ args _ =>
          if simple && pos == 0 then
            match rest with
            | .clause _ a2 _ :: _ =>
              let v2 := argVars a2
              some ((List.range args.length).filter fun i => match args[i]? with | some (.var v) => v2.contains v | _ => false)
            | _ => some []
          else
            -- a variable repeated inside the clause is an equality test, not an index column
            some ((List.range args.length).filter fun i => match args[i]? with
              | some (.var v) => grounded.contains v
              | some (.expr _) => true
              | none => false)
        | _ => none
      here :: go rest (grounded ++ itemVars it) (pos + 1)
  go body [] 0

/-- the views of relation `t` the program uses (decides which reverse maps the ternary wrapper keeps) -/
def viewsUsed (p : Program E B G P A) (t : RelId) : List (List Nat) :=
  p.rules.flatMap fun r => (r.body.zip (staticCols r.body)).filterMap fun (it, c) =>
    match it with
    | .clause r' _ _ => if r' == t then c else none
    | _ => none

def needsRev1 (p : Program E B G P A) (t : RelId) : Bool := (viewsUsed p t).any fun v => v == [1] || v == [1, 2]
def needsRev2 (p : Program E B G P A) (t : RelId) : Bool := (viewsUsed p t).any fun v => v == [2] || v == [1, 2]

/-! ## reading a clause -/

/-- the sides a version of the tagged relation consists of; `dynamic = false`: the stored relation (body-only in this SCC) -/
def sidesOf (ds : DsRel) (dynamic : Bool) (v : Option Ver) : List Side :=
  let (d, t) : Side × Side := match ds with
    | .bin _ d t => (.bin d, .bin t)
    | .ter _ d t => (.ter d, .ter t)
  if !dynamic then [t]
  else match v with
    | some .delta => [d]
    | some .totalDelta => [t, d]
    | _ => [t]

def plainRows (s : St) (dyn : List RelId) (r : RelId) (v : Option Ver) : List Tuple :=
  let pr := prel s r
  if !dyn.contains r then pr.total
  else match v with
    | some .delta => pr.delta
    | some .totalDelta => pr.total ++ pr.delta
    | _ => pr.total

def tupOfInts (l : List Int) : Tuple := l.map Val.int

/-- candidate tuples of one clause: plain relation = all rows of the version (the match filters); tagged relation = what the
view on `cols` returns for the key taken from the bound columns (`useAll`: `iter_all` instead — first clause of a simple join) -/
def clauseTuples (I : Interp E B G P A) (cfg : Cfg) (s : St) (dyn : List RelId) (r : RelId) (v : Option Ver)
    (args : List (Arg E)) (cols : List Nat) (useAll : Bool) (ρ : Env) : Res (List Tuple) :=
  if r != cfg.dsId then .ok (plainRows s dyn r v)
  else do
    let sides := sidesOf s.ds (dyn.contains r) v
    let keys := cols.map fun i => match args[i]? with
      | some (.var x) => valInt ((ρ.get? x).getD .unit)
      | some (.expr e) => valInt (I.expr e ρ)
      | none => 0
    let parts ← sides.mapM fun sd => if useAll then sd.all cols else sd.get cols keys
    pure (parts.flatten.map tupOfInts)

/-- all environments satisfying the body under the variant's versions -/
def evalBody (I : Interp E B G P A) (cfg : Cfg) (s : St) (dyn : List RelId) (simple : Bool) :
    List (Item E B G P A) → List (Option Ver) → List (Option (List Nat)) → Nat → Env → Res (List Env)
  | [], _, _, _, ρ => .ok [ρ]
  | .clause r args conds :: rest, vs, cs, pos, ρ => do
    let ts ← clauseTuples I cfg s dyn r (vs.headD none) args ((cs.headD none).getD []) (simple && pos == 0) ρ
    let parts ← ts.mapM fun t =>
      match matchArgs I ρ args t ρ with
      | none => pure []
      | some ρ₁ =>
        match satConds I conds ρ₁ with
        | none => pure []
        | some ρ₂ => evalBody I cfg s dyn simple rest vs.tail cs.tail (pos + 1) ρ₂
    pure parts.flatten
  | .cond c :: rest, vs, cs, pos, ρ =>
    match satCond I c ρ with
    | none => .ok []
    | some ρ₁ => evalBody I cfg s dyn simple rest vs.tail cs.tail (pos + 1) ρ₁
  | .gen v g :: rest, vs, cs, pos, ρ => do
    let parts ← (I.gen g ρ).mapM fun x => evalBody I cfg s dyn simple rest vs.tail cs.tail (pos + 1) ((v, x) :: ρ)
    pure parts.flatten
  | .agg _ :: _, _, _, _, _ => .panic          -- outside this model

/-! ## the guards in front of a compiled rule -/

/-- `is_empty()` of a clause's relation version -/
def clauseIsEmpty (cfg : Cfg) (s : St) (dyn : List RelId) (r : RelId) (v : Option Ver) (cols : List Nat) : Res Bool :=
  if r != cfg.dsId then .ok (plainRows s dyn r v).isEmpty
  else do
    let es ← (sidesOf s.ds (dyn.contains r) v).mapM fun sd => sd.isEmpty cols
    pure (es.all id)

def clauseLenEstimate (cfg : Cfg) (s : St) (dyn : List RelId) (r : RelId) (v : Option Ver) (cols : List Nat) : Res Unit :=
  if r != cfg.dsId then .ok ()
  else do
    let _ ← (sidesOf s.ds (dyn.contains r) v).mapM fun sd => sd.lenEstimate cols
    pure ()

/-- `any_rel_empty` and the `len_estimate` comparison; `false` = the rule body is not evaluated -/
def guards (cfg : Cfg) (s : St) (dyn : List RelId) (body : List (Item E B G P A)) (vs : List (Option Ver))
    (cs : List (Option (List Nat))) : Res Bool := do
  let cls := ((body.zip vs).zip cs).filterMap fun ((it, v), c) =>
    match it with
    | .clause r _ _ => some (r, v, c.getD [])
    | _ => none
  let simple := isSimpleJoin body
  let mut go := true
  if cls.length > 1 && !(simple && cls.length == 2) then
    for (r, v, c) in cls do
      if ← clauseIsEmpty cfg s dyn r v c then go := false
  if go && simple then
    for (r, v, c) in cls.take 2 do
      clauseLenEstimate cfg s dyn r v c
  pure go

/-! ## head update -/

def headUpdate (I : Interp E B G P A) (cfg : Cfg) (s : St) (h : HeadClause E) (ρ : Env) : Res St := do
  let row := h.args.map fun e => I.expr e ρ
  if h.rel != cfg.dsId then
    let pr := prel s h.rel
    if pr.total.contains row || pr.delta.contains row || pr.new.contains row then pure s
    else pure { s with plain := Engine.setNth s.plain h.rel { pr with new := pr.new ++ [row] }, changed := true }
  else
    match s.ds, row.map valInt with
    | .bin n d t, [x, y] =>
      if (← t.contains x y) || (← d.contains x y) then pure s
      else
        let (n, b) ← n.insert x y
        pure { s with ds := .bin n d t, changed := s.changed || b }
    | .ter n d t, [k, x, y] =>
      if (← t.contains k x y) || (← d.contains k x y) then pure s
      else
        let (n, b) ← n.insert k x y
        pure { s with ds := .ter n d t, changed := s.changed || b }
    | _, _ => .panic

def evalVariant (I : Interp E B G P A) (cfg : Cfg) (dyn : List RelId) (s : St) (r : Rule E B G P A)
    (vs : List (Option Ver)) : Res St := do
  let cs := staticCols r.body
  if !(← guards cfg s dyn r.body vs cs) then return s
  let envs ← evalBody I cfg s dyn (isSimpleJoin r.body) r.body vs cs 0 []
  envs.foldlM (fun s ρ => r.heads.foldlM (fun s h => headUpdate I cfg s h ρ) s) s

def evalRules (I : Interp E B G P A) (cfg : Cfg) (dyn : List RelId) (rules : List (Rule E B G P A)) (s : St) : Res St :=
  rules.foldlM (fun s r => (variants dyn r).foldlM (fun s vs => evalVariant I cfg dyn s r vs) s) s

/-- `merge_delta_to_total_new_to_delta` of every dynamic relation -/
def shift (cfg : Cfg) (dyn : List RelId) (s : St) : Res St := do
  let plain := (List.range s.plain.length).map fun r =>
    let pr := prel s r
    if dyn.contains r && r != cfg.dsId then { total := pr.total ++ pr.delta, delta := pr.new, new := [] } else pr
  let ds ← if !dyn.contains cfg.dsId then pure s.ds else
    match s.ds with
    | .bin n d t => do let (n, d, t) ← TrInd.merge cfg.pol n d t; pure (DsRel.bin n d t)
    | .ter n d t => do let (n, d, t) ← Ternary.merge cfg.pol n d t; pure (DsRel.ter n d t)
  pure { s with plain := plain, ds := ds }

/-- SCC start: the stored contents of the dynamic relations become `delta`; `RelIndexMerge::init` -/
def enterScc (cfg : Cfg) (dyn : List RelId) (r1 r2 : Bool) (s : St) : St :=
  let plain := (List.range s.plain.length).map fun r =>
    let pr := prel s r
    if dyn.contains r && r != cfg.dsId then { total := [], delta := pr.total, new := [] } else pr
  let ds := if !dyn.contains cfg.dsId then s.ds else
    match s.ds with
    | .bin _ _ t => let (n, d, t) := TrInd.init Common.default t Common.default; DsRel.bin n d t
    | .ter _ _ t => DsRel.ter (Ternary.default r1 r2) t (Ternary.default r1 r2)
  { s with plain := plain, ds := ds, changed := false }

def sccLoop (I : Interp E B G P A) (cfg : Cfg) (dyn : List RelId) (rules : List (Rule E B G P A)) : Nat → St → Res St
  | 0, _ => .panic
  | fuel + 1, s => do
    let s1 ← evalRules I cfg dyn rules { s with changed := false }
    let s2 ← shift cfg dyn s1
    if !s1.changed then pure s2 else sccLoop I cfg dyn rules fuel s2

def runScc (I : Interp E B G P A) (cfg : Cfg) (p : Program E B G P A) (r1 r2 : Bool) (fuel : Nat) (scc : List Nat) (s : St) :
    Res St := do
  let dyn := dynRels p scc
  let rules := sccRules p scc
  let s0 := enterScc cfg dyn r1 r2 s
  if isLooping p scc then sccLoop I cfg dyn rules fuel s0
  else do
    let s1 ← evalRules I cfg dyn rules s0
    let s2 ← shift cfg dyn s1
    shift cfg dyn s2

/-- `run()` on a fresh program value holding `input` (the tagged relation cannot be an input) -/
def run (I : Interp E B G P A) (cfg : Cfg) (p : Program E B G P A) (order : SccOrder) (fuel : Nat)
    (input : RelId → List Tuple) : Res St := do
  let ar := (declOf p cfg.dsId).arity
  let r1 := needsRev1 p cfg.dsId
  let r2 := needsRev2 p cfg.dsId
  let ds : DsRel := if ar == 3 then .ter (Ternary.default r1 r2) (Ternary.default r1 r2) (Ternary.default r1 r2)
    else .bin Common.default Common.default Common.default
  let s0 : St := { plain := (List.range p.rels.length).map fun r => { total := (input r).eraseDups }, ds := ds }
  order.foldlM (fun s scc => runScc I cfg p r1 r2 fuel scc s) s0

end AscentVerif.EngineDs
