/-!
# Core rule language (what `desugar_ascent_program` hands to the compiler)

Rules after desugaring: body items are clauses (with attached conditions), free-standing
conditions, `for` generators and aggregations (negation is `agg () = not() in r(..)`);
disjunctions, `?pattern` arguments, wildcards and repeated variables are already gone.
Everything Rust-valued inside a rule is an *interpreted function* (`Interp`): theorems
quantify over every interpretation, the executable ties instantiate a small concrete one.
Core Lean only.
-/
namespace AscentVerif

/-- column values; a small closed universe so that the model is executable -/
inductive Val where
  | int (n : Int)
  | str (s : String)
  | set (l : List Int)
  | optNone
  | optSome (v : Val)
  | unit
deriving DecidableEq, Repr, Inhabited

abbrev Var := Nat
abbrev RelId := Nat
abbrev Tuple := List Val
/-- innermost binding first; rebinding is rejected statically, so look-up order is immaterial -/
abbrev Env := List (Var × Val)

structure Fact where
  rel : RelId
  args : Tuple
deriving DecidableEq, Repr

/-- interpreted functions: expressions, tests, generators, `if let` patterns, aggregators,
and the `join_mut` of each lattice relation's last column -/
structure Interp (E B G P A : Type) where
  expr : E → Env → Val
  test : B → Env → Bool
  gen : G → Env → List Val
  pat : P → Val → Option (List Val)
  agg : A → List Tuple → List Tuple
  joinMut : RelId → Val → Val → Val × Bool

inductive Arg (E : Type) where
  | var (v : Var)
  | expr (e : E)
deriving Repr

inductive Cond (E B P : Type) where
  | ifc (b : B)
  | letc (v : Var) (e : E)
  | ifLet (p : P) (vs : List Var) (e : E)
deriving Repr

/-- argument of the relation inside `agg pat = f(bound…) in r(args)` -/
inductive AggArg (E : Type) where
  | wild                 -- `_`
  | bound (v : Var)      -- one of the aggregated variables
  | key (e : E)          -- anything else: a value the column must equal (an index column)
deriving Repr

structure AggClause (E A : Type) where
  outs : List Var
  fn : A
  boundArgs : List Var
  rel : RelId
  args : List (AggArg E)
deriving Repr

inductive Item (E B G P A : Type) where
  | clause (r : RelId) (args : List (Arg E)) (conds : List (Cond E B P))
  | cond (c : Cond E B P)
  | gen (v : Var) (g : G)
  | agg (a : AggClause E A)
deriving Repr

structure HeadClause (E : Type) where
  rel : RelId
  args : List E
deriving Repr

structure Rule (E B G P A : Type) where
  heads : List (HeadClause E)
  body : List (Item E B G P A)
deriving Repr

structure RelDecl where
  arity : Nat
  lat : Bool
deriving Repr, DecidableEq

structure Program (E B G P A : Type) where
  rels : List RelDecl
  rules : List (Rule E B G P A)
deriving Repr

variable {E B G P A : Type}

def Env.get? (ρ : Env) (v : Var) : Option Val :=
  match ρ with
  | [] => none
  | (w, x) :: rest => if w = v then some x else Env.get? rest v

/-- match the arguments of one clause against a tuple. `ρ₀` is the environment before the
clause (expression arguments are evaluated in it); `ρ` accumulates the new bindings. -/
def matchArgs (I : Interp E B G P A) (ρ₀ : Env) : List (Arg E) → Tuple → Env → Option Env
  | [], [], ρ => some ρ
  | .var v :: as, x :: xs, ρ =>
      match ρ.get? v with
      | some y => if x = y then matchArgs I ρ₀ as xs ρ else none
      | none => matchArgs I ρ₀ as xs ((v, x) :: ρ)
  | .expr e :: as, x :: xs, ρ => if I.expr e ρ₀ = x then matchArgs I ρ₀ as xs ρ else none
  | _, _, _ => none

def satCond (I : Interp E B G P A) : Cond E B P → Env → Option Env
  | .ifc b, ρ => if I.test b ρ then some ρ else none
  | .letc v e, ρ => some ((v, I.expr e ρ) :: ρ)
  | .ifLet p vs e, ρ => (I.pat p (I.expr e ρ)).bind fun xs =>
      if xs.length = vs.length then some (vs.zip xs ++ ρ) else none

def satConds (I : Interp E B G P A) : List (Cond E B P) → Env → Option Env
  | [], ρ => some ρ
  | c :: cs, ρ => (satCond I c ρ).bind (satConds I cs)

/-- does tuple `t` match the aggregated clause under `ρ`; if so, the values of the bound arguments -/
def matchAggArgs (I : Interp E B G P A) (ρ : Env) : List (AggArg E) → Tuple → Env → Option Env
  | [], [], acc => some acc
  | .wild :: as, _ :: xs, acc => matchAggArgs I ρ as xs acc
  | .bound v :: as, x :: xs, acc =>
      match acc.get? v with
      | some y => if x = y then matchAggArgs I ρ as xs acc else none
      | none => matchAggArgs I ρ as xs ((v, x) :: acc)
  | .key e :: as, x :: xs, acc => if I.expr e ρ = x then matchAggArgs I ρ as xs acc else none
  | _, _, _ => none

/-- the bag handed to the aggregator: for every matching tuple (in the given order, with
multiplicity) the values of `boundArgs` -/
def aggBag (I : Interp E B G P A) (a : AggClause E A) (ρ : Env) (tuples : List Tuple) : List Tuple :=
  tuples.filterMap fun t =>
    (matchAggArgs I ρ a.args t []).map fun acc => a.boundArgs.map fun v => (acc.get? v).getD .unit

/-- the environments after an aggregation: one per value the aggregator returns -/
def aggEnvs (I : Interp E B G P A) (a : AggClause E A) (ρ : Env) (tuples : List Tuple) : List Env :=
  (I.agg a.fn (aggBag I a ρ tuples)).filterMap fun out =>
    if out.length = a.outs.length then some (a.outs.zip out ++ ρ) else none

def Item.rel? : Item E B G P A → Option RelId
  | .clause r _ _ => some r
  | .agg a => some a.rel
  | _ => none

def Rule.headRels (r : Rule E B G P A) : List RelId := r.heads.map (·.rel)
def Rule.bodyRels (r : Rule E B G P A) : List RelId := r.body.filterMap Item.rel?

end AscentVerif
