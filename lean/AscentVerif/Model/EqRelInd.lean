import AscentVerif.Model.TrRelUF
/-!
# Model of the binary `eqrel` provider

* `EqRel` — `byods/ascent-byods-rels/src/union_find.rs` (`EqRel<T>`, `T = Int`), field by field:
  `sets : Vec<HashSet<T>>` (a merged-away set is left empty), `elem_ids : HashMap<T, usize>`,
  `set_subsumptions : HashMap<usize, usize>`; `add`, `set_of`, `iter_all`, `contains`, `combine`, `count_exact`
  statement by statement.
* `IndCommon` — `eqrel_ind.rs` `EqRelIndCommon<T>` = `{ old, combined : Rc<EqRel<T>> }` (`Rc` sharing is
  invisible: `Rc::make_mut` clones when shared, so values suffice), the content being `combined \ old`;
  `insert_if_not_present`, `merge_delta_to_total_new_to_delta`, `contains_key`, and the three index
  views `EqRelInd0_1` (full), `EqRelInd0` (first / second column bound), `EqRelIndNone`, each with
  `index_get` and `iter_all`.  `ceqrel_ind.rs` (`CEqRelIndCommon`, used by `ascent_par!`) has the same
  code over `Mutex<EqRel>` / `EqRelPair`; it is driven against this same model.
* `Triple` — the `rel_ind_common` triple new / delta / total as generated code (`compile_mir_scc`)
  uses it: `init`, inserts into `new`, one `merge` per iteration.

Hash maps / sets are association lists / duplicate-free lists in insertion order (helpers of
Model/TrRelUF.lean); iteration order of the real ones is arbitrary, so observations are compared
after sorting.  `combine` takes "the first element" of each set of the other relation as the
representative — any element gives the same partition.  Outcomes: `Res.ok` / `Res.panic` (index out of
range, `unwrap` of `None`, fuel exhaustion following `set_subsumptions`).  Executable, core Lean only.
-/
namespace AscentVerif.EqRelM
open AscentVerif.TrRel (Res unwrap alGet alSet mergeSets setNth)

/-- `HashSet::insert` on a set of elements -/
def hsInsert (s : List Int) (x : Int) : List Int := if s.contains x then s else s ++ [x]

structure EqRel where
  sets : List (List Int) := []
  elemIds : List (Int × Nat) := []
  subs : List (Nat × Nat) := []
deriving Repr, DecidableEq, Inhabited

namespace EqRel

/-- `get_dominant_id` (fuel: the recursion follows `set_subsumptions`) -/
def getDominantId (e : EqRel) (id : Nat) : Res Nat := TrRel.TrRel.getDominantIdAux e.subs id (e.subs.length + 1)

/-- `elem_set` -/
def elemSet (e : EqRel) (elem : Int) : Res (Option Nat) :=
  match alGet e.elemIds elem with
  | none => .ok none
  | some id =>
    match e.getDominantId id with
    | .panic => .panic
    | .ok d => .ok (some d)

/-- `get_dominant_id_update` (path compression: every node on the path is re-pointed to the dominant id) -/
def getDominantIdUpdate (e : EqRel) (id : Nat) : Res (EqRel × Nat) :=
  match TrRel.TrRel.getDominantIdMutAux e.subs id (e.subs.length + 1) with
  | .panic => .panic
  | .ok (subs', dom) => .ok ({ e with subs := subs' }, dom)

/-- `elem_set_update` -/
def elemSetUpdate (e : EqRel) (elem : Int) : Res (EqRel × Option Nat) :=
  match alGet e.elemIds elem with
  | none => .ok (e, none)
  | some id =>
    match e.getDominantIdUpdate id with
    | .panic => .panic
    | .ok (e, d) => .ok (e, some d)

/-- the `match (x_set, y_set)` of `add` -/
def addCore (e : EqRel) (x y : Int) : Option Nat → Option Nat → Res (EqRel × Bool)
  | none, none =>
    let id := e.sets.length
    .ok ({ e with sets := e.sets ++ [hsInsert [x] y], elemIds := alSet (alSet e.elemIds x id) y id }, true)
  | none, some ySet =>
    match e.sets[ySet]? with
    | none => .panic
    | some s => .ok ({ e with sets := setNth e.sets ySet (hsInsert s x), elemIds := alSet e.elemIds x ySet }, true)
  | some xSet, none =>
    match e.sets[xSet]? with
    | none => .panic
    | some s => .ok ({ e with sets := setNth e.sets xSet (hsInsert s y), elemIds := alSet e.elemIds y xSet }, true)
  | some xSet, some ySet =>
    if xSet ≠ ySet then
      match e.sets[ySet]? with
      | none => .panic
      | some ySetTaken =>
        let sets := setNth e.sets ySet []
        match sets[xSet]? with
        | none => .panic
        | some xs => .ok ({ e with sets := setNth sets xSet (mergeSets xs ySetTaken), subs := alSet e.subs ySet xSet }, true)
    else .ok (e, false)

/-- `add(x, y) -> bool` -/
def add (e : EqRel) (x y : Int) : Res (EqRel × Bool) :=
  match e.elemSetUpdate x with
  | .panic => .panic
  | .ok (e1, xSet) =>
    match e1.elemSetUpdate y with
    | .panic => .panic
    | .ok (e2, ySet) => e2.addCore x y xSet ySet

/-- `set_of` -/
def setOf (e : EqRel) (x : Int) : Res (Option (List Int)) :=
  match e.elemSet x with
  | .panic => .panic
  | .ok none => .ok none
  | .ok (some set) =>
    match e.sets[set]? with
    | none => .panic
    | some s => .ok (some s)

/-- `iter_all`: for every set `s`, every `x ∈ s`, every `y ∈ s`: the pair `(y, x)` -/
def iterAll (e : EqRel) : List (Int × Int) :=
  e.sets.flatMap fun s => s.flatMap fun x => s.map fun y => (y, x)

/-- `contains` -/
def contains (e : EqRel) (x y : Int) : Res Bool :=
  match e.elemSet x with
  | .panic => .panic
  | .ok none => .ok false
  | .ok (some set) =>
    match e.sets[set]? with
    | none => .panic
    | some s => .ok (s.contains y)

/-- `for x in set { self.add(repr.clone(), x); }` -/
def addAll (e : EqRel) (r : Int) : List Int → Res EqRel
  | [] => .ok e
  | x :: rest =>
    match e.add r x with
    | .panic => .panic
    | .ok (e', _) => addAll e' r rest

/-- the body of the loop of `combine` for one set of the other relation -/
def combineSet (e : EqRel) : List Int → Res EqRel
  | [] => .ok e
  | [r] => addAll e r [r]
  | r :: rest => addAll e r rest

/-- `combine(other)`: `for set in other.sets` -/
def combineSets (e : EqRel) : List (List Int) → Res EqRel
  | [] => .ok e
  | s :: rest =>
    match combineSet e s with
    | .panic => .panic
    | .ok e' => combineSets e' rest

def combine (e other : EqRel) : Res EqRel := combineSets e other.sets

/-- `count_exact` -/
def countExact (e : EqRel) : Nat := (e.sets.map fun s => s.length * s.length).sum

end EqRel

/-- `EqRelIndCommon` -/
structure IndCommon where
  old : EqRel := {}
  combined : EqRel := {}
deriving Repr, DecidableEq, Inhabited

namespace IndCommon

/-- `RelFullIndexWrite::insert_if_not_present` (also `index_insert`, which drops the flag) -/
def insertIfNotPresent (c : IndCommon) (x y : Int) : Res (IndCommon × Bool) :=
  match c.combined.add x y with
  | .panic => .panic
  | .ok (e, b) => .ok ({ c with combined := e }, b)

/-- `added_contains` = `contains_key` = `index_get(..).is_some()` of the full index -/
def containsKey (c : IndCommon) (x y : Int) : Res Bool :=
  match c.combined.contains x y with
  | .panic => .panic
  | .ok false => .ok false
  | .ok true =>
    match c.old.contains x y with
    | .panic => .panic
    | .ok o => .ok (!o)

/-- `.filter(|(x, y)| !self.old.contains(x, y))` -/
def filterAdded (old : EqRel) : List (Int × Int) → Res (List (Int × Int))
  | [] => .ok []
  | (x, y) :: rest =>
    match old.contains x y, filterAdded old rest with
    | .ok o, .ok r => .ok (if o then r else (x, y) :: r)
    | _, _ => .panic

/-- `iter_all_added` -/
def iterAllAdded (c : IndCommon) : Res (List (Int × Int)) := filterAdded c.old c.combined.iterAll

/-- `set_of_added` -/
def setOfAdded (c : IndCommon) (x : Int) : Res (Option (List Int)) :=
  match c.combined.setOf x with
  | .panic => .panic
  | .ok none => .ok none
  | .ok (some set) =>
    -- `self.old.elem_set(x).map(|id| &self.old.sets[id])` is `set_of` of `old`
    match c.old.setOf x with
    | .panic => .panic
    | .ok oldSet => .ok (some (set.filter fun y => !(oldSet.any fun os => os.contains y)))

/-- `count_exact` (`old` must be a subset of `combined`) -/
def countExact (c : IndCommon) : Nat := c.combined.countExact - c.old.countExact

/-- full index view `EqRelInd0_1`: `index_get` -/
def fullIndexGet (c : IndCommon) (x y : Int) : Res Bool := c.containsKey x y
/-- full index view: `iter_all` (keys; every value iterator is `once(())`) -/
def fullIterAll (c : IndCommon) : Res (List (Int × Int)) := c.iterAllAdded

/-- view `EqRelInd0` (serves index [0] and, by symmetry, index [1]): `index_get` -/
def ind0IndexGet (c : IndCommon) (x : Int) : Res (Option (List Int)) := c.setOfAdded x
/-- view `EqRelInd0`: `iter_all` — iterates `combined.sets` WITHOUT subtracting `old` -/
def ind0IterAll (c : IndCommon) : List (Int × List Int) :=
  c.combined.sets.flatMap fun s => s.map fun x => (x, s)

/-- view `EqRelIndNone`: `index_get(())` (always `Some`) and `iter_all` (one entry with the same iterator) -/
def noneIndexGet (c : IndCommon) : Res (List (Int × Int)) := c.iterAllAdded

end IndCommon

/-- the `rel_ind_common` triple of a relation inside one stratum -/
structure Triple where
  new : IndCommon := {}
  delta : IndCommon := {}
  total : IndCommon := {}
deriving Repr, DecidableEq, Inhabited

namespace Triple

/-- head update of generated code, provider part: `insert_if_not_present` on the full index view of `new` -/
def ins (t : Triple) (x y : Int) : Res (Triple × Bool) :=
  match t.new.insertIfNotPresent x y with
  | .panic => .panic
  | .ok (n, b) => .ok ({ t with new := n }, b)

/-- `RelIndexMerge::merge_delta_to_total_new_to_delta(new, delta, total)`:
`total.combined = delta.combined.clone(); delta.old = total.combined.clone();
 Rc::make_mut(&mut delta.combined).combine(take(new.combined))`.
The per-view merges that generated code issues afterwards are no-ops for this provider. -/
def merge (t : Triple) : Res Triple :=
  let total := { t.total with combined := t.delta.combined }
  let delta := { t.delta with old := total.combined }
  match delta.combined.combine t.new.combined with
  | .panic => .panic
  | .ok c => .ok { new := { t.new with combined := {} }, delta := { delta with combined := c }, total := total }

end Triple

end AscentVerif.EqRelM
