import AscentVerif.Model.TrRelUF
/-!
# Model of the `trrel_uf` provider: `rel_ind_common` and its index views

`byods/ascent-byods-rels/src/trrel_union_find_binary_ind.rs` (`TrRelIndCommon<T>`, `TrRelDelta<T>`, the
`RelIndexMerge` and `ByodsBinRel` impls), `adaptor/bin_rel.rs` (the four binary views) and
`adaptor/bin_rel_to_ternary.rs` (`BinRelToTernary`, its merge, the eight ternary views and the write view), `T = Int`.

Generated code keeps three values of the `rel_ind_common` type per relation and SCC — `new`, `delta`, `total` — and calls
`RelIndexMerge::init` once, `insert_if_not_present` on the full-index write view of `new`, `contains_key` on the full-index
views of `total` and `delta`, `index_get` / `iter_all` (and `len_estimate`, `is_empty`) on the views of `total` / `delta`,
and `merge_delta_to_total_new_to_delta(new, delta, total)` once per iteration (twice after a non-looping SCC).

Hash maps / sets are insertion-ordered lists (as in Model/TrRelUF.lean); every observation is compared after sorting.
The `Rc<TrRelUnionFind>` shared by `delta` and `total` is a value copy (it is never mutated while shared: `Rc::get_mut(..)
.unwrap()` in the merge would panic otherwise, and does not, because the old delta's reference is dropped first).
`len_estimate` is a heuristic that only chooses the order of a two-clause join; it is modelled where it is deterministic and
where it can panic (`BinRelToTernaryInd1_2::len_estimate`).

**Iteration order.** One result depends on hash iteration order: the first batch of a relation is turned into a
`TrRelUnionFind` by `add`ing the pairs of `new` in `HashSet::drain` order, and `add(x, x)` leaves a self connection
`s → s` iff `x` is new at that moment.  Self connections of `total` are invisible through `TrRelUnionFind`'s API but
decide (`can_add`) whether a later delta gets the self connection of a class, which `TrRelDelta::ind_0_get` /
`ind_0_iter_all` (not `iter_all` / `contains`) expose as the pairs inside that class.  `selfFirst` fixes the order of such a
batch: self pairs first (every self connection that any order can produce) or last (none).
Core Lean only; executable.
-/
namespace AscentVerif.TrInd
open AscentVerif.TrRel

abbrev PSet := List (Int × Int)

/-- `HashSet<(T,T)>::insert` -/
def psInsert (s : PSet) (p : Int × Int) : PSet × Bool := if s.contains p then (s, false) else (s ++ [p], true)

/-- `TrRelDelta<T>` -/
structure Delta where
  conn : NMap := []
  rconn : NMap := []
  precursor : PSet := []
  total : TrRel := {}
deriving Repr, DecidableEq

/-- `enum TrRelIndCommon<T>` -/
inductive Common where
  | new (rel : PSet)
  | delta (rel : Delta)
  | total (rel : TrRel)
deriving Repr, DecidableEq

instance : Inhabited Common := ⟨.total {}⟩

/-- `Default for TrRelIndCommon` -/
def Common.default : Common := .total {}

/-- how an order-sensitive batch is drained (see the header) -/
structure Policy where
  selfFirst : Bool := true
deriving Repr

def orderBatch (pol : Policy) (ps : PSet) : PSet :=
  let selfs := ps.filter fun p => p.1 == p.2
  let others := ps.filter fun p => p.1 != p.2
  if pol.selfFirst then selfs ++ others else others ++ selfs

/-! ## `TrRelDelta` -/
namespace Delta

/-- `self.total.sets[s]` for every `s`, concatenated (`flat_map`) -/
def setsOf (d : Delta) (ss : NSet) : Res (List Int) := do
  let parts ← ss.mapM fun s => unwrap d.total.sets[s]?
  pure parts.flatten

/-- `ind_0_get` / `ind_1_get` over the given map -/
def indGetIn (d : Delta) (m : NMap) (x : Int) : Res (Option (List Int)) := do
  match ← d.total.elemSet x with
  | none => pure none
  | some xSet =>
    match alGet m xSet with
    | none => pure none
    | some ss => do let r ← d.setsOf ss; pure (some r)

/-- `ind_0_iter_all` / `ind_1_iter_all` over the given map -/
def indIterAllIn (d : Delta) (m : NMap) : Res (List (Int × List Int)) := do
  let parts ← m.mapM fun (setId, conns) => do
    let xs ← unwrap d.total.sets[setId]?
    let ys ← d.setsOf conns
    pure (xs.map fun x => (x, ys))
  pure parts.flatten

/-- `ind_0_1_get(x, y).is_some()` = `contains` -/
def contains (d : Delta) (x y : Int) : Res Bool := do
  match ← d.total.elemSet x with
  | none => pure false
  | some xSet =>
    match ← d.total.elemSet y with
    | none => pure false
    | some ySet =>
      if xSet = ySet then pure false
      else match alGet d.conn xSet with
        | none => pure false
        | some c => pure (c.contains ySet)

/-- `iter_all`: pairs across distinct sets only -/
def iterAll (d : Delta) : Res (List (Int × Int)) := do
  let parts ← d.conn.mapM fun (xSet, ySets) => do
    let xs ← unwrap d.total.sets[xSet]?
    let ys ← d.setsOf (ySets.filter (· != xSet))
    pure (xs.flatMap fun x => ys.map fun y => (x, y))
  pure parts.flatten

end Delta

/-! ## `TrRelIndCommon`: inherent methods -/
namespace Common

/-- inherent `is_empty` -/
def isEmptyInh : Common → Bool
  | .new r => r.isEmpty
  | .delta r => r.conn.isEmpty
  | .total r => r.elemIds.isEmpty

/-- `unwrap_new_mut`: the value as `New`, after the assertion -/
def unwrapNewMut (c : Common) : Res PSet :=
  match c with
  | .new r => .ok r
  | _ => if c.isEmptyInh then .ok [] else .panic

/-- `ByodsBinRel::insert` on `new` -/
def insert (c : Common) (x y : Int) : Res (Common × Bool) := do
  let r ← c.unwrapNewMut
  let (r, b) := psInsert r (x, y)
  pure (.new r, b)

/-- `ByodsBinRel::contains` -/
def contains (c : Common) (x y : Int) : Res Bool :=
  match c with
  | .delta r => r.contains x y
  | .total r => r.contains x y
  | .new _ => .panic

/-- `ByodsBinRel::iter_all` -/
def iterAll (c : Common) : Res (List (Int × Int)) :=
  match c with
  | .delta r => r.iterAll
  | .total r => r.iterAll
  | .new _ => .panic

/-- the trait's default `is_empty`: `iter_all().next().is_none()` (what generic code — the adaptors — calls) -/
def isEmptyTrait (c : Common) : Res Bool := do pure (← c.iterAll).isEmpty

/-- `ind0_iter_all` (`rev = false`) / `ind1_iter_all` (`rev = true`) -/
def indIterAll (c : Common) (rev : Bool) : Res (List (Int × List Int)) :=
  match c with
  | .delta r => r.indIterAllIn (if rev then r.rconn else r.conn)
  | .total r => r.elemIds.mapM fun (x, setId) => do
      let ys ← r.setOfBySetIdIn (if rev then r.rconn else r.conn) setId
      pure (x, ys)
  | .new _ => .panic

/-- `ind0_index_get` / `ind1_index_get` -/
def indGet (c : Common) (rev : Bool) (key : Int) : Res (Option (List Int)) :=
  match c with
  | .delta r => r.indGetIn (if rev then r.rconn else r.conn) key
  | .total r =>
    match alGet r.elemIds key with
    | none => .ok none
    | some id => do
      let id ← r.getDominantId id
      let ys ← r.setOfBySetIdIn (if rev then r.rconn else r.conn) id
      pure (some ys)
  | .new _ => .panic

end Common

/-! ## `merge_delta_to_total_new_to_delta` -/

/-- `move_hash_set_contents_disjoint` -/
def moveSetDisjoint (frm to : NSet) : NSet :=
  let (frm, to) := if frm.length > to.length then (to, frm) else (frm, to)
  to ++ frm        -- insert_unique_unchecked: no membership test

/-- `move_hash_map_of_hash_set_contents_disjoint(from, to)`: the resulting `to` (`from` ends up empty) -/
def moveMapDisjoint (frm to : NMap) : NMap :=
  let (frm, to) := if frm.length > to.length then (to, frm) else (frm, to)
  frm.foldl (fun to (k, fromSet) =>
    match alGet to k with
    | some toSet => alSet to k (moveSetDisjoint fromSet toSet)
    | none => alSet to k fromSet) to

/-- body shared by both branches of the local `join`: for `w` in `x_rev_set`, for `y` in `x_set` -/
def joinBody (canAdd : Nat → Nat → Bool) (xSet xRevSet : NSet) (st : NMap × NMap × Bool) : NMap × NMap × Bool :=
  xRevSet.foldl (fun st w =>
    let (target, targetRev, changed) := st
    let (target, entry) := entryOrDefault target w
    let (entry, targetRev, changed) := xSet.foldl (fun acc y =>
      let (entry, targetRev, changed) := acc
      if !canAdd w y then acc
      else
        let (entry', isNew) := nsInsert entry y
        if isNew then (entry', (entryInsert targetRev y w).1, true) else (entry', targetRev, changed))
      (entry, targetRev, changed)
    let target := if entry.isEmpty then alRemove target w else alSet target w entry
    (target, targetRev, changed)) st

/-- the local `fn join(target, target_rev, rel1, rel2_rev, can_add)`; `len_estimate` of a `MapRelIndexAdaptor` is `len()` -/
def join (target targetRev rel1 rel2rev : NMap) (canAdd : Nat → Nat → Bool) : NMap × NMap × Bool :=
  if rel1.length < rel2rev.length then
    rel1.foldl (fun st (x, xSet) =>
      match alGet rel2rev x with
      | some xRevSet => joinBody canAdd xSet xRevSet st
      | none => st) (target, targetRev, false)
  else
    rel2rev.foldl (fun st (x, xRevSet) =>
      match alGet rel1 x with
      | some xSet => joinBody canAdd xSet xRevSet st
      | none => st) (target, targetRev, false)

structure LoopSt where
  dd : NMap          -- delta_delta_map
  ddRev : NMap
  dt : NMap          -- delta_total_map
  dtRev : NMap

/-- the `loop { … }` that closes the new connections under `total`'s connections -/
def mergeLoop (totalConn totalRconn newClasses : NMap) : Nat → LoopSt → Res LoopSt
  | 0, _ => .panic
  | fuel + 1, s =>
    let mem (m : NMap) (x y : Nat) : Bool := (alGet m x).any fun c => c.contains y
    let canAdd (x y : Nat) : Bool := !mem s.dd x y && !mem s.dt x y && !mem totalConn x y
    let (dn, dnRev, j1) := join [] [] s.dd totalRconn canAdd
    let (dn, dnRev, j2) := join dn dnRev totalConn s.ddRev canAdd
    let (dn, dnRev, j3) := join dn dnRev newClasses s.ddRev canAdd
    let changed := j1 || j2 || j3
    let s' : LoopSt := { dd := dn, ddRev := dnRev, dt := moveMapDisjoint s.dd s.dt, dtRev := moveMapDisjoint s.ddRev s.dtRev }
    if !changed then .ok s' else mergeLoop totalConn totalRconn newClasses fuel s'

/-- `RelIndexMerge::merge_delta_to_total_new_to_delta(new, delta, total)` -/
def merge (pol : Policy) (new delta total : Common) : Res (Common × Common × Common) := do
  -- if let Total = delta { assert!(total.is_empty()); *total = take(delta); *delta = Delta(default) }
  let (delta, total) ← match delta with
    | .total _ => if total.isEmptyInh then pure (Common.delta {}, delta) else Res.panic
    | _ => pure (delta, total)
  let deltaRel ← match delta with
    | .delta r => pure r
    | _ => Res.panic                  -- "expected Delta"
  let totalRel ← match total with
    | .total r => pure r
    | _ => Res.panic                  -- "expected Total"
  let newRel ← new.unwrapNewMut
  -- optimization for when total will be empty
  if totalRel.sets.isEmpty && deltaRel.precursor.isEmpty then
    let nd ← (orderBatch pol newRel).foldlM (fun t p => do let (t, _) ← t.add p.1 p.2; pure t) ({} : TrRel)
    return (.new [], .total nd, .total {})
  let totalRel ← deltaRel.precursor.foldlM (fun t p => do let (t, _) ← t.add p.1 p.2; pure t) totalRel
  -- new_classes_map / new_classes_rev_map
  let (totalRel, ncm, ncmRev) ← newRel.foldlM (fun acc p => do
      let (t, m, mr) := acc
      let (t, xId, _) ← t.addNodeNew p.1
      let (t, yId, _) ← t.addNodeNew p.2
      pure (t, (entryInsert m xId yId).1, (entryInsert mr yId xId).1)) (totalRel, ([] : NMap), ([] : NMap))
  let n := totalRel.sets.length + 1
  let s ← mergeLoop totalRel.conn totalRel.rconn ncm (n * n + 2) { dd := ncm, ddRev := ncmRev, dt := [], dtRev := [] }
  -- assert!(delta_delta_map.is_empty()) holds by construction of `moveMapDisjoint` (the source is drained)
  let newDelta : Delta := { conn := s.dt, rconn := s.dtRev, precursor := newRel, total := totalRel }
  pure (.new [], .delta newDelta, .total totalRel)

/-- `RelIndexMerge::init(new, delta, total)` -/
def init (_new delta total : Common) : Common × Common × Common := (.new [], delta, total)

/-! ## `BinRelToTernary` -/

abbrev RMap := List (Int × List Int)      -- HashMap<T, AltHashSet<T0>>

structure Ternary where
  map : List (Int × Common) := []
  rmap1 : Option RMap := none
  rmap2 : Option RMap := none
deriving Repr, DecidableEq

namespace Ternary

/-- `Default for BinRelToTernaryWrapper<HAS_REVERSE_MAP1, HAS_REVERSE_MAP2, …>` -/
def default (r1 r2 : Bool) : Ternary :=
  { map := [], rmap1 := if r1 then some [] else none, rmap2 := if r2 then some [] else none }

def rmInsert (m : RMap) (k v : Int) : RMap :=
  match alGet m k with
  | some s => if s.contains v then m else alSet m k (s ++ [v])
  | none => alSet m k [v]

/-- `BinRelToTernaryInd0_1_2Write::insert_if_not_present` -/
def insert (t : Ternary) (x0 x1 x2 : Int) : Res (Ternary × Bool) := do
  let cur := (alGet t.map x0).getD Common.default
  let (c, b) ← cur.insert x1 x2
  let t := { t with map := alSet t.map x0 c }
  if !b then return (t, false)
  let t := { t with rmap1 := t.rmap1.map fun m => rmInsert m x1 x0, rmap2 := t.rmap2.map fun m => rmInsert m x2 x0 }
  pure (t, true)

/-- `move_hash_map_of_alt_hash_set_contents(from, to)` -/
def moveRMap (frm to : RMap) : RMap :=
  let (frm, to) := if frm.length > to.length then (to, frm) else (frm, to)
  frm.foldl (fun to (k, fromSet) =>
    match alGet to k with
    | some toSet =>
      let (fromSet, toSet) := if fromSet.length > toSet.length then (toSet, fromSet) else (fromSet, toSet)
      alSet to k (fromSet.foldl (fun acc x => if acc.contains x then acc else acc ++ [x]) toSet)
    | none => alSet to k fromSet) to

/-- `RelIndexMerge::merge_delta_to_total_new_to_delta` of `BinRelToTernary` -/
def merge (pol : Policy) (new delta total : Ternary) : Res (Ternary × Ternary × Ternary) := do
  -- for (k, delta_trrel) in delta.map.drain()
  let (newMap, totalMap, ndm) ← delta.map.foldlM (fun acc (k, deltaTr) => do
      let (newMap, totalMap, ndm) := acc
      let newTr := (alGet newMap k).getD Common.default
      let newMap := alRemove newMap k
      let totalTr := (alGet totalMap k).getD Common.default      -- Vacant: `TBinRel::default()`, inserted afterwards
      let (_, d', t') ← TrInd.merge pol newTr deltaTr totalTr
      let totalMap := alSet totalMap k t'
      let ndm := if !(← d'.isEmptyTrait) then alSet ndm k d' else ndm
      pure (newMap, totalMap, ndm)) (new.map, total.map, ([] : List (Int × Common)))
  -- for (k, new_trrel) in new.map.drain()
  let (totalMap, ndm) ← newMap.foldlM (fun acc (k, newTr) => do
      let (totalMap, ndm) := acc
      match alGet totalMap k with
      | some totalTr =>
        let (_, d', t') ← TrInd.merge pol newTr Common.default totalTr
        pure (alSet totalMap k t', alSet ndm k d')
      | none =>
        -- merged against a temporary `Default::default()` total that is dropped
        let (_, d', _) ← TrInd.merge pol newTr Common.default Common.default
        pure (totalMap, alSet ndm k d')) (totalMap, ndm)
  -- reverse maps: delta's go to total, new's become delta's (swap: new gets the emptied map)
  let mv (d t n : Option RMap) : Option RMap × Option RMap × Option RMap :=
    match d, t, n with
    | some dm, some tm, some nm => (some nm, some (moveRMap dm tm), some [])
    | _, _, _ => (d, t, n)
  let (d1, t1, n1) := mv delta.rmap1 total.rmap1 new.rmap1
  let (d2, t2, n2) := mv delta.rmap2 total.rmap2 new.rmap2
  pure ({ map := [], rmap1 := n1, rmap2 := n2 }, { map := ndm, rmap1 := d1, rmap2 := d2 }, { map := totalMap, rmap1 := t1, rmap2 := t2 })

/-! ### the views (`to_rel_index(&rel_ind_common)`); a tuple is a list of the three columns -/

abbrev Tup := List Int

/-- `BinRelToTernaryIndNone::index_get(())` / `Ind0_1_2::iter_all` -/
def all (t : Ternary) : Res (List Tup) := do
  let parts ← t.map.mapM fun (x0, rel) => do pure ((← rel.iterAll).map fun (x1, x2) => [x0, x1, x2])
  pure parts.flatten

/-- `Ind0::index_get((k,))`: `None` if the key has no entry -/
def get0 (t : Ternary) (k : Int) : Res (Option (List Tup)) :=
  match alGet t.map k with
  | none => .ok none
  | some rel => do pure (some ((← rel.iterAll).map fun (x1, x2) => [k, x1, x2]))

/-- `Ind0::iter_all`: one group per key -/
def all0 (t : Ternary) : Res (List Tup) := t.all

/-- `Ind0_1::index_get((k, x1))` (`rev = false`) / `Ind0_2::index_get((k, x2))` (`rev = true`) -/
def get0x (t : Ternary) (rev : Bool) (k x : Int) : Res (Option (List Tup)) :=
  match alGet t.map k with
  | none => .ok none
  | some rel => do
    match ← rel.indGet rev x with
    | none => pure none
    | some ys => pure (some (ys.map fun y => if rev then [k, y, x] else [k, x, y]))

/-- `Ind0_1::iter_all` / `Ind0_2::iter_all` -/
def all0x (t : Ternary) (rev : Bool) : Res (List Tup) := do
  let parts ← t.map.mapM fun (x0, rel) => do
    let groups ← rel.indIterAll rev
    pure (groups.flatMap fun (x, ys) => ys.map fun y => if rev then [x0, y, x] else [x0, x, y])
  pure parts.flatten

/-- `BinRelToTernaryInd1::get(x1)` (`rev = false`, reverse_map1 + ind0) / `Ind2::get(x2)` (`rev = true`) -/
def get1 (t : Ternary) (rev : Bool) (x : Int) : Res (Option (List Tup)) := do
  let rm ← unwrap (if rev then t.rmap2 else t.rmap1)      -- `.as_ref().unwrap()`
  match alGet rm x with
  | none => pure none
  | some x0s => do
    let parts ← x0s.mapM fun x0 => do
      let rel ← unwrap (alGet t.map x0)                  -- `self.0.map.get(x0).unwrap()`
      match ← rel.indGet rev x with
      | none => pure []
      | some ys => pure (ys.map fun y => if rev then [x0, y, x] else [x0, x, y])
    pure (some parts.flatten)

/-- `Ind1::iter_all` / `Ind2::iter_all`: every key of the reverse map, `get(..).unwrap()` -/
def all1 (t : Ternary) (rev : Bool) : Res (List Tup) := do
  let rm ← unwrap (if rev then t.rmap2 else t.rmap1)
  let parts ← rm.mapM fun (x, _) => do
    let r ← t.get1 rev x
    unwrap r
  pure parts.flatten

/-- `x1_map.intersection(x2_map)` of `AltHashSet` -/
def altInter (a b : List Int) : List Int :=
  let (small, big) := if a.length < b.length then (a, b) else (b, a)
  small.filter fun x => big.contains x

/-- `Ind1_2::index_get((x1, x2))` -/
def get12 (t : Ternary) (x1 x2 : Int) : Res (Option (List Tup)) := do
  let rm1 ← unwrap t.rmap1
  let rm2 ← unwrap t.rmap2
  match alGet rm1 x1, alGet rm2 x2 with
  | some m1, some m2 => do
    let ks ← (altInter m1 m2).filterM fun x0 => do
      let rel ← unwrap (alGet t.map x0)
      rel.contains x1 x2
    pure (some (ks.map fun x0 => [x0, x1, x2]))
  | _, _ => pure none

/-- `Ind1_2::iter_all`: every pair of reverse-map entries -/
def all12 (t : Ternary) : Res (List Tup) := do
  let rm1 ← unwrap t.rmap1
  let rm2 ← unwrap t.rmap2
  let parts ← rm1.mapM fun (x1, m1) => do
    let inner ← rm2.mapM fun (x2, m2) => do
      let ks ← (altInter m1 m2).filterM fun x0 => do
        let rel ← unwrap (alGet t.map x0)
        rel.contains x1 x2
      pure (ks.map fun x0 => [x0, x1, x2])
    pure inner.flatten
  pure parts.flatten

/-- `Ind0_1_2::contains_key` / `index_get` -/
def contains (t : Ternary) (x0 x1 x2 : Int) : Res Bool :=
  match alGet t.map x0 with
  | none => .ok false
  | some rel => rel.contains x1 x2

/-- `(n as f32).sqrt() as usize` for the sizes that occur -/
def isqrt (n : Nat) : Nat := (List.range (n + 1)).foldl (fun r k => if k * k ≤ n then k else r) 0

/-- `BinRelToTernaryInd1_2::len_estimate`: the divisor is `.max(1)` (since the repair of finding F17: an empty map used to divide by zero) -/
def lenEstimate12 (t : Ternary) : Res Nat := do
  let rm1 ← unwrap t.rmap1
  let rm2 ← unwrap t.rmap2
  let d := max (isqrt t.map.length) 1
  pure (rm1.length * rm2.length / d)

end Ternary

/-! ### the binary views (`adaptor/bin_rel.rs`) -/
namespace Common

/-- `ByodsBinRelInd0::index_get((x,))` / `ByodsBinRelInd1::index_get((y,))` as pairs -/
def viewGet (c : Common) (rev : Bool) (k : Int) : Res (Option (List (Int × Int))) := do
  match ← c.indGet rev k with
  | none => pure none
  | some vs => pure (some (vs.map fun v => if rev then (v, k) else (k, v)))

/-- `ByodsBinRelInd0::iter_all` / `ByodsBinRelInd1::iter_all` as pairs -/
def viewAll (c : Common) (rev : Bool) : Res (List (Int × Int)) := do
  let groups ← c.indIterAll rev
  pure (groups.flatMap fun (k, vs) => vs.map fun v => if rev then (v, k) else (k, v))

end Common

end AscentVerif.TrInd
